#!/bin/bash
# run every claimed check (quick) on the current tree, validate manifest and evidence
cd "$(dirname "$0")"
TIER=${1:-quick}
ids=$(/venv/bin/python -c "import json;print(' '.join(c['property_id'] for c in json.load(open('MANIFEST.json'))['checks']))")
rc_all=0
for id in $ids; do
  out=$(./check $id --tier $TIER 2>&1); rc=$?
  echo "$out" | grep -E "^\[|VIOLATION|MACHINERY" | head -3
  [ $rc -ne 0 ] && rc_all=1
done
python3-vt - <<'PY'
import json, jsonschema
m=json.load(open('MANIFEST.json'))
jsonschema.validate(m, json.load(open('/root/.vp/MANIFEST.schema.json')))
sch=json.load(open('/root/.vp/EVIDENCE.schema.json'))
for c in m['checks']:
    e=json.load(open(c['evidence_file']))
    jsonschema.validate(e, sch)
    cov=e['coverage']
    assert cov['obligations']==cov['discharged'], (c['property_id'], cov['obligations'], cov['discharged'])
print("manifest + evidence valid for", len(m['checks']), "checks")
PY
exit $rc_all
