#!/bin/bash
# usage: seedconfirm.sh <seed-dir> : confirm a seeded change in a scratch worktree only (no check is run, /repo untouched):
# the patch applies to HEAD, the repository's tests pass with it, the demo exits 1 with it and 0 without it
SD=$(realpath "$1")
WT=/tmp/seedconfirm_$$
git -C /repo worktree add --detach $WT HEAD -q || exit 5
cd $WT
mkdir -p _seed && cp $SD/demo.py _seed/
timeout 600 /venv/bin/python _seed/demo.py >/dev/null 2>&1; c0=$?
if ! git apply $SD/patch.diff 2>/dev/null; then echo "$(basename $SD): PATCH-DOES-NOT-APPLY"; cd /; git -C /repo worktree remove --force $WT; exit 3; fi
t=$(/venv/bin/python -m pytest -q -p no:cacheprovider 2>&1 | tail -1)
timeout 600 /venv/bin/python _seed/demo.py >/dev/null 2>&1; c1=$?
cd /; git -C /repo worktree remove --force $WT
echo "$(basename $SD): demo clean rc=$c0 patched rc=$c1 tests: $t"
