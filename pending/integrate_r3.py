#!/usr/bin/env python3
"""round 3: complete executable model (Model/Kernels.lean, drv solve), whole-model differential in C01, C11 concrete theorems"""
import shutil, pathlib
V=pathlib.Path('/verif'); L=pathlib.Path('/tmp/leanwork')
shutil.copy(L/"LbfgsbVerif/Model/Kernels.lean", V/"lean/LbfgsbVerif/Model/Kernels.lean")
shutil.copy(L/"LbfgsbVerif/Props/C11.lean", V/"lean/LbfgsbVerif/Props/C11.lean")
shutil.copy(L/"LbfgsbVerif/Props/Kernels.lean", V/"lean/LbfgsbVerif/Props/Kernels.lean")
for f in ["Proofs/C02.lean","Props/C02.lean","Props/C16Run.lean","Proofs/SubspaceBridge.lean","Props/C09Run.lean"]:
    shutil.copy(L/"LbfgsbVerif"/f, V/"lean"/"LbfgsbVerif"/f)
shutil.copy(L/"Driver.lean", V/"lean/Driver.lean")
shutil.copy('/tmp/newharness3/whole.py', V/"harness/whole.py")
shutil.copy('/tmp/newharness3/c01.py', V/"harness/props/c01.py")
def edit(path, subs):
    p=V/path; s=p.read_text()
    for a,b in subs:
        assert a in s, (path, a[:60]); s=s.replace(a,b,1)
    p.write_text(s)
edit("harness/props/c01.py", [('"Lbfgsb.C01.model_iteration_descent"]','"Lbfgsb.C01.model_iteration_descent", "Lbfgsb.kernelInput_sizes", "Lbfgsb.buildMinv_symm", "Lbfgsb.complete_iteration_descent", "Lbfgsb.first_iteration_descent"]'),
    ('"LbfgsbVerif.Props.C01Descent"]','"LbfgsbVerif.Props.C01Descent", "LbfgsbVerif.Props.Kernels"]')])
edit("harness/props/c02_cfg.py", [('"Lbfgsb.C02.getBounds_ok"]','"Lbfgsb.C02.getBounds_ok", "Lbfgsb.xbarModel_inBox", "Lbfgsb.evals_in_box_complete"]'),
    ('"LbfgsbVerif.Props.C02Bounds"]','"LbfgsbVerif.Props.C02Bounds", "LbfgsbVerif.Props.Kernels"]')])
edit("harness/props/c09.py", [('"Lbfgsb.C09.subspace_direction_descent"]','"Lbfgsb.C09.subspace_direction_descent", "Lbfgsb.C09.subspace_newton_point_nopairs",\n            "Lbfgsb.C09.subspace_direction_descent_nopairs"]')])
edit("harness/props/c11.py", [('"Lbfgsb.C11.wolfe_gives_curvature"]','"Lbfgsb.C11.wolfe_gives_curvature", "Lbfgsb.C11.concreteOracles_stepper",\n            "Lbfgsb.C11.concrete_ls_steps_in_range"]')])
edit("harness/manifest_gen.py", [("not a theorem: it is decided on real runs (600 quick / 8000 thorough convex problems",
   "not a theorem: it is decided on real runs — and the COMPLETE executable model (Model/Kernels.lean: compact matrices from the memory snapshot, cauchy, subspaceMin, "
   "the DCSRCH model, composed under the driver model; no recorded answers) is executed natively by the Lean driver on the package's benchmark functions and compared "
   "with the package (iterates, iteration counts, messages), which ties the chain of models the theorems are about to the code end to end — (600 quick / 8000 thorough convex problems")])
edit("harness/manifest_gen.py", [("The entry condition (well-formed box",
   "evals_in_box_complete: the same statement for the COMPLETE executable model (concreteOracles: compact matrices from the memory snapshot, cauchy, subspaceMin and the DCSRCH model composed "
   "under the driver — no oracle left, any arithmetic), the model the Lean driver executes natively against the package on its benchmark functions (C01 check). The entry condition (well-formed box")])
print("round 3 integrated")
