p='/verif/DESIGN.md'
s=open(p).read()
add=open('/tmp/design_complete.md').read()
anchor="### 8.4 Trusted base, as built"
assert anchor in s and "#### The complete executable model" not in s
s=s.replace(anchor, add.strip('\n')+"\n\n"+anchor,1)
old="""* Oracles (modelled, not verified): SciPy's `DCSRCH` stepper; NumPy/BLAS summation order,
  `cholesky`, `solve_triangular` (theorems assume an exact solve `M·M⁻¹ = 1`); for the driver
  model the kernels `get_cauchy_point`/`subspace_minimization` (which have their own models and
  differential checks); libm in the benchmark Float twins."""
new="""* Modelled, not verified: NumPy/BLAS summation order, `cholesky`, `solve_triangular` (theorems
  assume exact solves — `M·M⁻¹ = 1`, `hmvc`, `hsolve`; C10 `invM_factorisation`/`bmv_is_product` show
  that the code's two triangular factors multiply to the matrix the model inverts); SciPy's `DCSRCH`
  stepper and `LbfgsInvHessProduct` (each has a Lean port: the stepper's is compared bit for bit
  with every recorded call, the two-loop recursion is proved equal to the dense recursion that the
  harness evaluates exactly); for the *replay* of a recorded run the kernels
  `get_cauchy_point`/`subspace_minimization` are oracles of the driver model — they have their own
  models and differential checks, and the complete model (previous subsection) runs with all of
  them composed; libm in the benchmark Float twins."""
assert old in s
s=s.replace(old,new,1)
# 8.3 rows for C02 and C11 (complete-model theorems)
lines=s.split('\n')
s83=next(i for i,l in enumerate(lines) if l.startswith('### 8.3'))
def row(k): return next(i for i,l in enumerate(lines) if i>s83 and l.startswith(f'| {k} |'))
i=row('C02'); lines[i]=lines[i].replace("whole-run statement in FD mode with no assumption on the differencing)","whole-run statement in FD mode with no assumption on the differencing); getBounds_ok (the entry condition: what `get_bounds` accepts is a well-formed box containing the start; model compared with the real validation); **xbarModel_inBox, evals_in_box_complete** (U: the statement for the complete executable model, no oracle left)")
i=row('C11'); lines[i]=lines[i].replace("**ls_evals_on_ray**","concreteOracles_stepper / concrete_ls_steps_in_range (the same for the complete executable model, no hypothesis), dcsrch_conv_is_wolfe (U: the stepper reports convergence only at a step satisfying the strong Wolfe conditions), wolfe_gives_curvature (F: such a step yields s·y > 0), **ls_evals_on_ray**")
i=row('C01'); lines[i]=lines[i].replace("chained as the driver chains the routines)","chained as the driver chains the routines; kernelInput_sizes, buildMinv_symm: the size and symmetry hypotheses hold by construction for the composed kernel input)").replace("resolution level measured |","resolution level measured; the COMPLETE model executed natively on the benchmark functions against the package (iterates, counts, messages) |")
s='\n'.join(lines)
open(p,'w').write(s)
print("design r3 ok")
