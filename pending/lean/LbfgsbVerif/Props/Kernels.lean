/-
  The composed kernel model (Model/Kernels.lean) meets the SIZE hypotheses of the kernel theorems by
  construction: for a memory snapshot `(X, G)` with `m + 1` points (`m ≥ 1`), `W` has one row per
  variable, every row has `2m` entries, and `2m` is what `cauchy`/`subspaceMin` read off `W` as `k`.
  What remains of `MinCtx` / `SubCtx` for the complete model are the analytic hypotheses only
  (feasible `x`, exact solves, positive definiteness, inactive floor).
-/
import LbfgsbVerif.Model.Kernels
import LbfgsbVerif.Proofs.CauchyMin
import LbfgsbVerif.Proofs.C06
import LbfgsbVerif.Props.C02
import LbfgsbVerif.Props.C08
import LbfgsbVerif.Props.C09
import LbfgsbVerif.Props.C01Descent
import Mathlib.Data.List.GetD

namespace Lbfgsb
variable {K : Type} [Field K] [LinearOrder K] [IsStrictOrderedRing K]

theorem buildW_length (n : Nat) (θ : K) (S Y : List (Vec K)) : (buildW n θ S Y).length = n := by
  simp [buildW]

theorem buildW_row (n : Nat) (θ : K) (S Y : List (Vec K)) (r : Nat) (hr : r < n) :
    ((buildW n θ S Y).getD r []).length = Y.length + S.length := by
  simp [buildW, List.getD_eq_getElem?_getD, List.getElem?_map, List.getElem?_range hr]

/-- sizes of the kernel input built from a memory snapshot with at least one pair -/
theorem kernelInput_sizes (x g lb ub : Vec K) (X G : List (Vec K)) (e : K) (hX : X.length > 1)
    (hXG : X.length = G.length) (hn : 0 < x.length) :
    let i := kernelInput x g lb ub (some (X, G)) e
    i.W.length = x.length ∧ (∀ r, r < x.length → (i.W.getD r []).length = 2 * (X.length - 1)) ∧
      kOf i = 2 * (X.length - 1) ∧ i.useFactor = true ∧ i.x = x ∧ i.g = fitTo x g := by
  intro i
  have hi : i = { x, g := fitTo x g, lb, ub, theta := thetaOf X G, W := buildW x.length (thetaOf X G) (diffs X) (diffs G),
                  Minv := buildMinv (thetaOf X G) (diffs X) (diffs G), useFactor := true, epsFsec := e } := by
    simp only [i, kernelInput, hX, if_true]
  have hdx : (diffs X).length = X.length - 1 := diffs_length X
  have hdg : (diffs G).length = X.length - 1 := by rw [diffs_length G, hXG]
  rw [hi]
  refine ⟨buildW_length _ _ _ _, ?_, ?_, rfl, rfl, rfl⟩
  · intro r hr
    rw [buildW_row _ _ _ _ r hr, hdx, hdg]; omega
  · unfold kOf
    dsimp only
    have h0 := buildW_row x.length (thetaOf X G) (diffs X) (diffs G) 0 hn
    cases hW : buildW x.length (thetaOf X G) (diffs X) (diffs G) with
    | nil =>
      have := buildW_length x.length (thetaOf X G) (diffs X) (diffs G)
      rw [hW] at this; simp at this; omega
    | cons row rest =>
      rw [hW] at h0
      simp only [List.getD_cons_zero] at h0
      show row.length = 2 * (X.length - 1)
      rw [h0, hdx, hdg]; omega

/-! ### the matrix `M⁻¹ = [[−D, Lᵀ], [L, θ SᵀS]]` the model builds is symmetric -/

theorem dot_comm' (a b : Vec K) : dot a b = dot b a := by
  induction a generalizing b with
  | nil => cases b <;> simp [dot, vzip]
  | cons x xs ih =>
    cases b with
    | nil => simp [dot, vzip]
    | cons y ys => rw [dot_cons, dot_cons, ih ys, mul_comm]

/-- entry `(a, b)` of `buildMinv` -/
def minvEntry (θ : K) (S Y : List (Vec K)) (a b : Nat) : K :=
  let m := S.length
  if a < m then
    if b < m then (if a = b then -(dot (S.getD a []) (Y.getD a [])) else 0)
    else (if b - m > a then dot (S.getD (b - m) []) (Y.getD a []) else 0)
  else
    if b < m then (if a - m > b then dot (S.getD (a - m) []) (Y.getD b []) else 0)
    else θ * dot (S.getD (a - m) []) (S.getD (b - m) [])

theorem getD_map_range {A : Type} (f : Nat → A) (m j : Nat) (d : A) (hj : j < m) :
    ((List.range m).map f).getD j d = f j := by
  simp [List.getD_eq_getElem?_getD, List.getElem?_map, List.getElem?_range hj]

theorem buildMinv_entry (θ : K) (S Y : List (Vec K)) (a b : Nat) (ha : a < 2 * S.length) (hb : b < 2 * S.length) :
    ((buildMinv θ S Y).getD a []).getD b 0 = minvEntry θ S Y a b := by
  unfold buildMinv minvEntry
  dsimp only
  by_cases ham : a < S.length
  · rw [if_pos ham, List.getD_append _ _ _ _ (by simpa using ham), getD_map_range _ _ _ _ ham]
    by_cases hbm : b < S.length
    · rw [if_pos hbm, List.getD_append _ _ _ _ (by simpa using hbm), getD_map_range _ _ _ _ hbm]
    · rw [if_neg hbm, List.getD_append_right _ _ _ _ (by simpa using not_lt.1 hbm)]
      simp only [List.length_map, List.length_range]
      rw [getD_map_range _ _ _ _ (by omega)]
  · rw [if_neg ham, List.getD_append_right _ _ _ _ (by simpa using not_lt.1 ham)]
    simp only [List.length_map, List.length_range]
    rw [getD_map_range _ _ _ _ (by omega)]
    by_cases hbm : b < S.length
    · rw [if_pos hbm, List.getD_append _ _ _ _ (by simpa using hbm), getD_map_range _ _ _ _ hbm]
    · rw [if_neg hbm, List.getD_append_right _ _ _ _ (by simpa using not_lt.1 hbm)]
      simp only [List.length_map, List.length_range]
      rw [getD_map_range _ _ _ _ (by omega)]

/-- **`buildMinv` is symmetric** (so, by C08 `middle_symm`, is the middle matrix `M` it is the
inverse of) -/
theorem buildMinv_symm (θ : K) (S Y : List (Vec K)) (a b : Nat) (ha : a < 2 * S.length) (hb : b < 2 * S.length) :
    ((buildMinv θ S Y).getD a []).getD b 0 = ((buildMinv θ S Y).getD b []).getD a 0 := by
  rw [buildMinv_entry θ S Y a b ha hb, buildMinv_entry θ S Y b a hb ha]
  unfold minvEntry
  dsimp only
  by_cases ham : a < S.length <;> by_cases hbm : b < S.length
  · rw [if_pos ham, if_pos hbm, if_pos hbm, if_pos ham]
    by_cases hab : a = b
    · subst hab; rfl
    · rw [if_neg hab, if_neg (Ne.symm hab)]
  · rw [if_pos ham, if_neg hbm, if_neg hbm, if_pos ham]
  · rw [if_neg ham, if_pos hbm, if_pos hbm, if_neg ham]
  · rw [if_neg ham, if_neg hbm, if_neg hbm, if_neg ham, dot_comm']

/-! ### descent at every non-stationary iterate, for the composed kernel (ordered field) -/
open Matrix in
/-- **C01 (f)** the direction the complete model computes, `x̄ − x` with `x̄ = xbarModel …`, is a
descent direction at every non-stationary point — under the analytic hypotheses of the kernel
theorems (`MinCtx`, `SubCtx`: exact solves, positive definite model, floor inactive) for the kernel
input built from the memory snapshot. -/
theorem complete_iteration_descent (lb ub : Vec K) (e : K) (x g : Vec K) (mats : Mats K) (n k : Nat)
    (Mm Minvm : Matrix (Fin k) (Fin k) K)
    (hk : kOf (kernelInput x g lb ub mats e) = k)
    (hc : MinCtx (kernelInput x g lb ub mats e) n k Mm (f2orgOf (kernelInput x g lb ub mats e)))
    (hns : projgr (kernelInput x g lb ub mats e).x (kernelInput x g lb ub mats e).g
      (kernelInput x g lb ub mats e).lb (kernelInput x g lb ub mats e).ub ≠ 0)
    (hsub : SubCtx (subInOf (kernelInput x g lb ub mats e)) n k Mm Minvm) :
    vec n (kernelInput x g lb ub mats e).g ⬝ᵥ
      (vec n (xbarModel lb ub e x g mats) - vec n (kernelInput x g lb ub mats e).x) < 0 :=
  C01.model_iteration_descent (kernelInput x g lb ub mats e) n k Mm Minvm hk hc hns _ rfl rfl hsub

/-! ### the composed kernel returns a feasible point, and C02 for the complete model (level U: any arithmetic) -/
section U
variable {α : Type} [LinearOrder α] [Add α] [Sub α] [Mul α] [Div α] [Neg α] [OfNat α 0] [OfNat α 1]


theorem fitTo_length (x g : Vec α) : (fitTo x g).length = x.length := by simp [fitTo]

theorem fitTo_eq (x g : Vec α) (h : g.length = x.length) : fitTo x g = g := by
  apply ext_getD (0 : α)
  · rw [fitTo_length, h]
  · intro j hj
    rw [fitTo_length] at hj
    unfold fitTo
    rw [getD_map_range _ _ _ _ hj]

theorem kernelInput_fields (x g lb ub : Vec α) (m : Mats α) (e : α) :
    (kernelInput x g lb ub m e).x = x ∧ (kernelInput x g lb ub m e).lb = lb ∧ (kernelInput x g lb ub m e).ub = ub ∧
      (kernelInput x g lb ub m e).g = fitTo x g ∧ (kernelInput x g lb ub m e).W.length = x.length := by
  unfold kernelInput
  dsimp only
  cases m with
  | none => exact ⟨rfl, rfl, rfl, rfl, by simp⟩
  | some p =>
    obtain ⟨X, G⟩ := p
    dsimp only
    split
    · exact ⟨rfl, rfl, rfl, rfl, by simp [buildW]⟩
    · exact ⟨rfl, rfl, rfl, rfl, by simp⟩

/-- for a feasible `x` the composed kernel model returns a point of the box (any arithmetic) -/
theorem xbarModel_inBox (lb ub : Vec α) (hb : BoxOk lb ub) (e : α) (x g : Vec α) (m : Mats α)
    (hx : InBox lb ub x) : InBox lb ub (xbarModel lb ub e x g m) := by
  unfold xbarModel subInOf
  obtain ⟨h1, h2, h3, h4, h5⟩ := kernelInput_fields x g lb ub m e
  have hcp : InBox lb ub (cauchy (kernelInput x g lb ub m e)).1 := by
    have := C08.gcp_in_box (kernelInput x g lb ub m e) (by rw [h2, h3]; exact hb) (by rw [h1, h2, h3]; exact hx)
      (by rw [h4, h1, fitTo_length])
    rw [h2, h3] at this
    exact this
  have hlen : (cauchy (kernelInput x g lb ub m e)).1.length = x.length := by
    rw [(inBox_length hcp).1, (inBox_length hx).1]
  have := C09.xbar_in_box
    ({ kernelInput x g lb ub m e with xc := (cauchy (kernelInput x g lb ub m e)).1,
                                       c := (cauchy (kernelInput x g lb ub m e)).2 } : SubIn α)
    (by show BoxOk (kernelInput x g lb ub m e).lb (kernelInput x g lb ub m e).ub; rw [h2, h3]; exact hb)
    (by show InBox (kernelInput x g lb ub m e).lb (kernelInput x g lb ub m e).ub _; rw [h2, h3]; exact hcp)
    (by show (kernelInput x g lb ub m e).g.length = _; rw [h4, fitTo_length, hlen])
    (by show (kernelInput x g lb ub m e).x.length = _; rw [h1, hlen])
    (by show (kernelInput x g lb ub m e).W.length = _; rw [h5, hlen])
  rw [h2, h3] at this
  exact this

section complete
variable {ε : Type} [FloatLike α] [Dcsrch.DcOps α]

/-- **C02 for the complete executable model** (`concreteOracles`: no kernel and no stepper left as an
oracle — the model `drv solve` runs natively against the package): every point at which a user
callable is invoked, every callback state and the result are inside the box. Hypotheses: the box
is well formed and has the size of `x0` (C02 `getBounds_ok`), the differencing contract (C16
`fd_points_in_box` for the model of the differencing), the checkpoint's point is the start. -/
theorem evals_in_box_complete (u : User α ε) (c : Cfg α) (e : α) (hbox : BoxOk c.lb c.ub)
    (hn : c.x0.length = c.lb.length)
    (hst : ∀ x f, InBox c.lb c.ub x → ∀ p ∈ u.fdPts x f, InBox c.lb c.ub p)
    (hck : ∀ ck, c.checkpoint = some ck → ck.x = clip c.x0 c.lb c.ub)
    (r : Result α) (s : St α) (h : minimize u (concreteOracles c.lb c.ub e) c = .ok (r, s)) :
    (∀ call ∈ s.sf.log, call.kind ≠ .ftarget → call.kind ≠ .gtol → InBox c.lb c.ub call.arg) ∧
    (∀ cb ∈ s.cbStates, InBox c.lb c.ub cb.x) ∧ InBox c.lb c.ub r.x :=
  C02.evals_in_box u (concreteOracles c.lb c.ub e) c
    ⟨hbox, hn, fun x g m hx => by
        have := xbarModel_inBox c.lb c.ub hbox e x g m hx
        show (xbarModel c.lb c.ub e x g m).length = x.length
        rw [(inBox_length this).1, (inBox_length hx).1], hst, hck⟩ r s h

end complete

end U

end Lbfgsb
