/-
  C01 — descent at every non-stationary iterate of the COMPLETE model, from the curvature of the stored pairs.

  `complete_iteration_descent_curv`: the memory snapshot `(X, G)` holds at least one pair; its differences have the
  length of `x`, `s ≠ 0` and `sᵀy > 0` for every pair (what `updateMats` / the history filter guarantee: C10 / C13 / C18
  invariants), `θ > 0`; `x` is feasible and not stationary; the Fortran floor on `f''` is inactive. Then the direction
  `x̄ − x` computed by the composed kernel models (`xbarModel = subspaceMin ∘ cauchy` on the matrices `buildW`, `buildMinv`)
  satisfies `gᵀ(x̄ − x) < 0`. No hypothesis on any solve, on the middle matrix or on positive definiteness is left:
    * the middle matrix is invertible and `θI − W M Wᵀ` is the BFGS matrix of the pairs, positive definite
      (`C10.kernel_matrix_is_bfgs`, `kernel_minv_invertible`);
    * the dense solves of the model are exact (Props/C09Solve);
    * `c = Wᵀ(x_cp − x)` is what the Cauchy step returns (C08 `gcp_first_local_min`).
-/
import LbfgsbVerif.Props.C10Kernel
import Mathlib.LinearAlgebra.Matrix.NonsingularInverse

set_option linter.unusedSectionVars false

namespace Lbfgsb.C01
open Lbfgsb Matrix CompactKernel CompactBridge CompactBfgs Lbfgsb.Gauss
variable {K : Type} [Field K] [LinearOrder K] [IsStrictOrderedRing K]

/-- the auxiliary vector has the size of the memory basis -/
theorem cauchy_c_length (i : CauchyIn K) (n k : Nat) (Mm : Matrix (Fin k) (Fin k) K)
    (hk : kOf i = k) (hc : MinCtx i n k Mm (f2orgOf i)) : (cauchy i).2.length = k := by
  have hinit := init_cinv i n k Mm (f2orgOf i) hc hk
  rw [cauchy_eq]
  split
  · exact hinit.der.len_c
  · obtain ⟨P', hP'⟩ := fold_cinv i n k Mm (f2orgOf i) hc _ _ [] hinit (fun ib hib => by
        obtain ⟨h1, h2⟩ := (C08.order_positive _ ib).1 hib
        obtain ⟨hll, hul⟩ := inBoxF_lengths hc.box
        have hg : i.g.length = i.x.length := by rw [hc.q.hg, hc.q.hx]
        rw [C08.breakpoints_length _ _ _ _ hg hll hul, hc.q.hx] at h1
        exact ⟨h1, by simp, h2⟩) (C08.order_nodup _) (C08.order_sorted _)
    rw [cauchyFinish_eq]
    simp only [vadd, smul, vzip_length', List.length_map, hP'.der.len_c, hP'.der.len_p, Nat.min_self]

/-- **the middle matrix of positive-curvature pairs is invertible** -/
theorem kernel_minv_invertible (nn : Nat) (θ : K) (S Y : List (Vec K)) (hθ : 0 < θ) (h : S.length = Y.length)
    (hS : ∀ j, j < S.length → (S.getD j []).length = nn) (hY : ∀ j, j < S.length → (Y.getD j []).length = nn)
    (hcurv : ∀ j, j < S.length → vec nn (S.getD j []) ≠ 0 ∧ 0 < vec nn (S.getD j []) ⬝ᵥ vec nn (Y.getD j [])) :
    ∃ Mm : Matrix (Fin ((lOf nn S Y).length + (lOf nn S Y).length)) (Fin ((lOf nn S Y).length + (lOf nn S Y).length)) K,
      Mm * wmat ((lOf nn S Y).length + (lOf nn S Y).length) ((lOf nn S Y).length + (lOf nn S Y).length)
        (buildMinv θ S Y) = 1 := by
  have hp : ∀ p ∈ (pairsOf nn S Y).reverse, p.1 ≠ 0 ∧ 0 < p.1 ⬝ᵥ p.2 := by
    intro p hpm
    rw [List.mem_reverse] at hpm
    unfold pairsOf at hpm
    rw [List.mem_map] at hpm
    obtain ⟨q, hq, rfl⟩ := hpm
    obtain ⟨j, hj, hqj⟩ := List.mem_iff_getElem.mp hq
    have hjS : j < S.length := by rw [List.length_zip, ← h, Nat.min_self] at hj; exact hj
    have hjY : j < Y.length := by rw [← h]; exact hjS
    rw [List.getElem_zip] at hqj
    have e1 : S.getD j [] = S[j] := by rw [List.getD_eq_getElem?_getD, List.getElem?_eq_getElem hjS]; rfl
    have e2 : Y.getD j [] = Y[j] := by rw [List.getD_eq_getElem?_getD, List.getElem?_eq_getElem hjY]; rfl
    have := hcurv j hjS
    rw [e1, e2] at this
    rw [← hqj]
    exact this
  have hnd := (C10.nonDeg_of_curvature θ hθ (lOf nn S Y) hp).1
  obtain ⟨hinv, -, -⟩ := CompactBfgs.compact_eq_bfgs θ (lOf nn S Y) hnd
  have hinv' : Ninvl θ (lOf nn S Y) * Nl θ (lOf nn S Y) = 1 := mul_eq_one_comm.mp hinv
  have hee : (descEquiv (K := K) (lOf nn S Y)) ∘ (descEquiv (K := K) (lOf nn S Y)).symm = id := by
    funext x; simp
  have hNb : Compact.N (Smat (lOf nn S Y)) (Ymat (lOf nn S Y)) θ =
      (Nl θ (lOf nn S Y)).submatrix (descEquiv (lOf nn S Y)).symm (descEquiv (lOf nn S Y)).symm := by
    rw [Nl_submatrix θ (lOf nn S Y), submatrix_submatrix, hee]
    rfl
  have hNk : wmat ((lOf nn S Y).length + (lOf nn S Y).length) ((lOf nn S Y).length + (lOf nn S Y).length)
      (buildMinv θ S Y) =
      (Compact.N (Smat (lOf nn S Y)) (Ymat (lOf nn S Y)) θ).submatrix finSumFinEquiv.symm finSumFinEquiv.symm := by
    funext a b
    rw [submatrix_apply, ← buildMinv_block nn θ S Y h hS hY]
    simp
  refine ⟨((Ninvl θ (lOf nn S Y)).submatrix (descEquiv (lOf nn S Y)).symm (descEquiv (lOf nn S Y)).symm).submatrix
    finSumFinEquiv.symm finSumFinEquiv.symm, ?_⟩
  rw [hNk, hNb, submatrix_mul_equiv, submatrix_mul_equiv, hinv', submatrix_one_equiv, submatrix_one_equiv]

/-- **C01 (descent for the complete model, from the curvature of the stored pairs)** -/
theorem complete_iteration_descent_curv (lb ub : Vec K) (e : K) (x g : Vec K) (X G : List (Vec K))
    (hX : X.length > 1) (hXG : X.length = G.length) (hn : 0 < x.length)
    (hS : ∀ j, j < (diffs X).length → ((diffs X).getD j []).length = x.length)
    (hY : ∀ j, j < (diffs X).length → ((diffs G).getD j []).length = x.length)
    (hcurv : ∀ j, j < (diffs X).length → vec x.length ((diffs X).getD j []) ≠ 0 ∧
      0 < vec x.length ((diffs X).getD j []) ⬝ᵥ vec x.length ((diffs G).getD j []))
    (hθ : 0 < thetaOf X G) (box : InBoxF lb ub x)
    (floor : ∀ dd : Fin x.length → K, dd ≠ 0 →
      (∀ r, dd r = 0 ∨ dd r = vec x.length (cauchyD0 (breakpoints x (fitTo x g) lb ub) (fitTo x g)) r) →
      e * f2orgOf (kernelInput x g lb ub (some (X, G)) e) ≤
        dd ⬝ᵥ (C10.bfgsChain ((thetaOf X G) • (1 : Matrix (Fin x.length) (Fin x.length) K))
          (pairsOf x.length (diffs X) (diffs G)) *ᵥ dd))
    (hns : projgr x (fitTo x g) lb ub ≠ 0) :
    vec x.length (fitTo x g) ⬝ᵥ (vec x.length (xbarModel lb ub e x g (some (X, G))) - vec x.length x) < 0 := by
  have hi : kernelInput x g lb ub (some (X, G)) e =
      { x, g := fitTo x g, lb, ub, theta := thetaOf X G, W := buildW x.length (thetaOf X G) (diffs X) (diffs G),
        Minv := buildMinv (thetaOf X G) (diffs X) (diffs G), useFactor := true, epsFsec := e } := by
    simp only [kernelInput, hX, if_true]
  have hSY : (diffs X).length = (diffs G).length := by rw [diffs_length, diffs_length, hXG]
  have hm := lOf_length x.length (diffs X) (diffs G) hSY
  obtain ⟨Mm, hM⟩ := kernel_minv_invertible x.length (thetaOf X G) (diffs X) (diffs G) hθ hSY hS hY hcurv
  obtain ⟨hB, hspd⟩ := C10.kernel_matrix_is_bfgs x.length (thetaOf X G) (diffs X) (diffs G) hθ hSY hS hY hcurv Mm hM
  -- sizes of the kernel input
  obtain ⟨sW, srow, sk, -, -, -⟩ := kernelInput_sizes x g lb ub X G e hX hXG hn
  have hkk : 2 * (X.length - 1) = (lOf x.length (diffs X) (diffs G)).length + (lOf x.length (diffs X) (diffs G)).length := by
    rw [hm, diffs_length]; omega
  have hg : (fitTo x g).length = x.length := fitTo_length x g
  rw [hi] at sW srow sk
  have hsym : (wmat ((lOf x.length (diffs X) (diffs G)).length + (lOf x.length (diffs X) (diffs G)).length)
      ((lOf x.length (diffs X) (diffs G)).length + (lOf x.length (diffs X) (diffs G)).length)
      (buildMinv (thetaOf X G) (diffs X) (diffs G)))ᵀ =
      wmat _ _ (buildMinv (thetaOf X G) (diffs X) (diffs G)) := by
    funext a b
    simp only [transpose_apply, wmat]
    exact buildMinv_symm _ _ _ b a (by have := b.2; omega) (by have := a.2; omega)
  have hMl : (buildMinv (thetaOf X G) (diffs X) (diffs G)).length =
      (lOf x.length (diffs X) (diffs G)).length + (lOf x.length (diffs X) (diffs G)).length := by
    rw [C10.buildMinv_length, hm]
  have hMrow : ∀ r, r < (lOf x.length (diffs X) (diffs G)).length + (lOf x.length (diffs X) (diffs G)).length →
      ((buildMinv (thetaOf X G) (diffs X) (diffs G)).getD r []).length =
        (lOf x.length (diffs X) (diffs G)).length + (lOf x.length (diffs X) (diffs G)).length := by
    intro r hr
    rw [hm]
    apply C10.buildMinv_rows
    rw [List.getD_eq_getElem?_getD, List.getElem?_eq_getElem (by rw [C10.buildMinv_length, ← hm]; exact hr)]
    exact List.getElem_mem _
  -- the context of the Cauchy theorems
  have hq : QCtx (kernelInput x g lb ub (some (X, G)) e) x.length _ Mm := by
    rw [hi]
    exact C09.qctx_of_pivots _ x.length _ Mm rfl hg sW (fun r hr => by rw [srow r hr, hkk]) rfl hMl hMrow hM hsym
  have hpd : ∀ a : Fin x.length → K, a ≠ 0 →
      0 < a ⬝ᵥ (bmat (thetaOf X G) (wmat x.length _ (buildW x.length (thetaOf X G) (diffs X) (diffs G))) Mm *ᵥ a) := by
    intro a ha; rw [hB]; exact hspd.2 a ha
  have hmin : MinCtx (kernelInput x g lb ub (some (X, G)) e) x.length _ Mm (f2orgOf (kernelInput x g lb ub (some (X, G)) e)) := by
    refine ⟨hq, ?_, ?_, ?_⟩
    · rw [hi]; exact box
    · rw [hi]; exact hpd
    · intro dd hne hpat
      have := floor dd hne (by rw [hi] at hpat; exact hpat)
      rw [hi]
      show e * _ ≤ dd ⬝ᵥ (bmat (thetaOf X G) _ Mm *ᵥ dd)
      rw [hB]
      rw [hi] at this
      exact this
  have hk : kOf (kernelInput x g lb ub (some (X, G)) e) =
      (lOf x.length (diffs X) (diffs G)).length + (lOf x.length (diffs X) (diffs G)).length := by
    rw [hi, sk, hkk]
  -- the Cauchy step and the context of the subspace theorems
  obtain ⟨tF, -, -, -, hcp, hcv⟩ := C08.gcp_first_local_min _ x.length _ Mm hk hmin
  have hcl := cauchy_c_length _ x.length _ Mm hk hmin
  have hboxc : InBoxF lb ub (cauchy (kernelInput x g lb ub (some (X, G)) e)).1 := by
    have hbx := C11.inBox_of_inBoxF box
    have := C08.gcp_in_box (kernelInput x g lb ub (some (X, G)) e) (by rw [hi]; exact boxOk_of_inBox hbx)
      (by rw [hi]; exact hbx) (by rw [hi]; exact hg)
    rw [hi] at this ⊢
    exact inBoxF_of_inBox this
  have hxcl : (cauchy (kernelInput x g lb ub (some (X, G)) e)).1.length = x.length := by
    have := (inBoxF_lengths hboxc).1
    rw [← this, (inBoxF_lengths box).1]
  have hsub : SubCtxP (subInOf (kernelInput x g lb ub (some (X, G)) e)) x.length _ Mm := by
    apply SubCtxP.of_pd
    · show (kernelInput x g lb ub (some (X, G)) e).x.length = x.length
      rw [hi]
    · show (kernelInput x g lb ub (some (X, G)) e).g.length = x.length
      rw [hi]; exact hg
    · exact hxcl
    · show (kernelInput x g lb ub (some (X, G)) e).W.length = x.length
      rw [hi]; exact sW
    · intro r hr
      show ((kernelInput x g lb ub (some (X, G)) e).W.getD r []).length = _
      rw [hi]; rw [srow r hr, hkk]
    · exact hcl
    · show InBoxF (kernelInput x g lb ub (some (X, G)) e).lb (kernelInput x g lb ub (some (X, G)) e).ub _
      rw [hi] at hboxc ⊢
      exact hboxc
    · show (kernelInput x g lb ub (some (X, G)) e).theta ≠ 0
      rw [hi]; exact ne_of_gt hθ
    · show (kernelInput x g lb ub (some (X, G)) e).useFactor = true
      rw [hi]
    · show subK (subInOf (kernelInput x g lb ub (some (X, G)) e)) = _
      exact hk
    · show (kernelInput x g lb ub (some (X, G)) e).Minv.length = _
      rw [hi]; exact hMl
    · show ∀ r, r < _ → ((kernelInput x g lb ub (some (X, G)) e).Minv.getD r []).length = _
      rw [hi]; exact hMrow
    · show Mm * wmat _ _ (kernelInput x g lb ub (some (X, G)) e).Minv = 1
      rw [hi]; exact hM
    · show vec _ (cauchy (kernelInput x g lb ub (some (X, G)) e)).2 =
        (wmat x.length _ (kernelInput x g lb ub (some (X, G)) e).W)ᵀ *ᵥ
          (vec x.length (cauchy (kernelInput x g lb ub (some (X, G)) e)).1 - vec x.length (kernelInput x g lb ub (some (X, G)) e).x)
      rw [hcv, hcp]
    · show ∀ a : Fin x.length → K, a ≠ 0 → 0 < a ⬝ᵥ (bmat (kernelInput x g lb ub (some (X, G)) e).theta
        (wmat x.length _ (kernelInput x g lb ub (some (X, G)) e).W) Mm *ᵥ a)
      rw [hi]; exact hpd
  have := Lbfgsb.complete_iteration_descent lb ub e x g (some (X, G)) x.length _ Mm _ hk hmin
    (by rw [hi]; exact hns) hsub.toSubCtx
  rw [hi] at this
  exact this

end Lbfgsb.C01
