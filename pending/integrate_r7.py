"""apply the staged round-7 work: copy lean files, register modules/theorems, manifest texts"""
import shutil
from pathlib import Path
V=Path('/verif'); P=V/'pending'/'lean'
for f in P.rglob('*.lean'):
    dst=V/'lean'/f.relative_to(P); shutil.copy(f,dst)
def sub(path, old, new, count=1):
    s=(V/path).read_text(); assert old in s, (path, old[:60]); (V/path).write_text(s.replace(old,new,count))
sub('harness/props/c10.py','MODULES = [','MODULES = ["LbfgsbVerif.Props.C10Kernel", ')
sub('harness/props/c10.py','THEOREMS = [','THEOREMS = ["Lbfgsb.C10.kernel_matrix_is_bfgs", "Lbfgsb.CompactBridge.block_compact_eq_bfgs", ')
sub('harness/props/c09.py','MODULES = [','MODULES = ["LbfgsbVerif.Props.C10Kernel", ')
sub('harness/props/c09.py','THEOREMS = [','THEOREMS = ["Lbfgsb.C10.subspace_newton_point_curv", ')
sub('harness/props/c01.py','MODULES = [','MODULES = ["LbfgsbVerif.Props.C01Curv", ')
sub('harness/props/c01.py','THEOREMS = [','THEOREMS = ["Lbfgsb.C01.complete_iteration_descent_curv", "Lbfgsb.C01.descent_from_memory_invariant", "Lbfgsb.C01.kernel_minv_invertible", ')
sub('harness/manifest_gen.py', "the product with the middle matrix through the code's triangular factors (bmv) is compared",
    "kernel_matrix_is_bfgs (Props/C10Kernel, via Proofs/CompactBridge + CompactKernel): the very lists the model's kernels are given (buildW, buildMinv — columns [Y, theta S], middle matrix [[-D, L^T],[L, theta S^T S]]) are the block form of the compact representation, which is the bordered form of the Byrd-Nocedal-Schnabel proof up to the order of the columns (an explicit bijection of the index types), so with Mm any left inverse of the matrix of buildMinv, theta I - W Mm W^T IS the dense BFGS recursion of the stored pairs and is symmetric positive definite when every pair has s != 0, s.y > 0 and theta > 0; the product with the middle matrix through the code's triangular factors (bmv) is compared")
sub('harness/props/c08.py','MODULES = [','MODULES = ["LbfgsbVerif.Props.C01Curv", ')
sub('harness/props/c08.py','THEOREMS = [','THEOREMS = ["Lbfgsb.C01.gcp_first_local_min_curv", "Lbfgsb.C01.kernel_minCtx", ')
print("ok")
