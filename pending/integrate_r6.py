"""apply the staged round-6 work: copy lean files, register modules/theorems, add the `gauss` differential to the C10 check"""
import shutil, re
from pathlib import Path
V=Path('/verif'); P=V/'pending'/'lean'
for f in P.rglob('*.lean'):
    dst=V/'lean'/f.relative_to(P); shutil.copy(f,dst)
def sub(path, old, new, count=1):
    s=(V/path).read_text(); assert old in s, (path, old[:60]); (V/path).write_text(s.replace(old,new,count))
# theorem / module lists
sub('harness/props/c09.py','MODULES = [','MODULES = ["LbfgsbVerif.Props.C09Solve", ')
sub('harness/props/c09.py','THEOREMS = [','THEOREMS = ["Lbfgsb.C09.gauss_solves", "Lbfgsb.C09.gauss_unique", "Lbfgsb.C09.subspace_newton_point_solved", "Lbfgsb.C09.subspace_model_no_increase_solved", "Lbfgsb.C09.subspace_direction_descent_solved", "Lbfgsb.C09.subspace_newton_point_pd", "Lbfgsb.C09.regular_pivots", ')
sub('harness/props/c08.py','MODULES = [','MODULES = ["LbfgsbVerif.Props.C09Solve", ')
sub('harness/props/c08.py','THEOREMS = [','THEOREMS = ["Lbfgsb.C09.middle_product_exact", "Lbfgsb.C09.gcp_first_local_min_solved", ')
sub('harness/props/c06.py','"Lbfgsb.C06.restart_at_every_split"]','"Lbfgsb.C06.restart_at_every_split", "Lbfgsb.C06.restart_at_every_split_complete"]')
# C10: the model's elimination against the code's triangular solves
sub('harness/props/c10.py','''    out["tags"] = sorted(set(out["tags"]))''','''    if mats.use_factor and not out["prop"]:
        from lbfgsb.bfgsmats import bmv
        Minv = mats.invMfactors[0] @ mats.invMfactors[1]
        vv = rng.standard_normal(Minv.shape[0])
        gg = drv.run([f"gauss {vshex(Minv)} {vhex(vv)}"])
        _, x1, x2, piv = gg[0].split(" ")
        if x1 != x2:
            out["corr"].append("the list form and the array form of the model's elimination differ")
        condM = float(np.linalg.cond(Minv))
        if condM < 1e9:
            a = np.asarray(bmv(mats.invMfactors, vv), dtype=float)
            if not np.allclose(np.array(hexv(x1)), a, rtol=0, atol=1e-8 * condM * max(1.0, float(np.max(np.abs(a))))):
                out["corr"].append(f"middle-matrix product: bmv (triangular factors) vs the model's elimination differ by {float(np.max(np.abs(np.array(hexv(x1)) - a))):.2e}")
        out["tags"].append(f"theorem_hypothesis_pivots_nonzero={all(p != 0.0 and p == p for p in hexv(piv))}")
    out["tags"] = sorted(set(out["tags"]))''')
sub('harness/props/c01.py','MODULES = [','MODULES = ["LbfgsbVerif.Props.C09Solve", ')
sub('harness/props/c01.py','THEOREMS = [','THEOREMS = ["Lbfgsb.C09.complete_iteration_descent_solved", ')

# manifest texts
sub('harness/manifest_gen.py', "symmetric middle matrix, B positive definite, the Fortran floor on f'' inactive. The Float ",
    "symmetric middle matrix, B positive definite, the Fortran floor on f'' inactive; middle_product_exact / gcp_first_local_min_solved (Props/C09Solve) discharge the exact-product hypothesis: the model's Gauss-Jordan elimination is proved to return the solution of the system, and a matrix with a left inverse (Mm M^-1 = 1) has no vanishing pivot. The Float ")
sub('harness/manifest_gen.py', "as C08 proves), witnessed by a concrete instance. Numerical equality with the dense Newton solve, ",
    "as C08 proves), witnessed by a concrete instance; gauss_solves / gauss_unique / regular_pivots (Props/C09Solve + Proofs/Gauss, GaussBridge): the model's elimination with partial pivoting returns THE solution whenever no pivot vanishes, whatever row is picked, and no pivot vanishes when the matrix is injective; subspace_newton_point_solved / subspace_model_no_increase_solved / subspace_direction_descent_solved (under the computable pivot condition SubCtxP) and subspace_newton_point_pd (sizes, Mm M^-1 = 1, c = W^T(x_cp - x) and a positive definite model only: the reduced matrix N is then injective) carry no assumption on any solve. Numerical equality with the dense Newton solve, ")
sub('harness/manifest_gen.py', "rebuilds after the stored gradients were rewritten (the update_fun_def path of main.py), also with a rejected candidate.",
    "rebuilds after the stored gradients were rewritten (the update_fun_def path of main.py), also with a rejected candidate; the product with the middle matrix through the code's triangular factors (bmv) is compared with the model's elimination (whose list form — the one the theorems are about — and array form must agree bit for bit), and the share of explored matrices whose pivots do not vanish is reported.")
print("ok")
