#!/bin/bash
# usage: matrix.sh [out.jsonl] : for every seeded change (seeded/C*/patch.diff) and every fix commit of /repo (reverted 3-way in the
# working tree), run the repository's tests and EVERY claimed check (quick), record which checks raise an alarm. /repo is restored after
# each entry. Serial: the checks rebuild from /repo's working tree.
cd "$(dirname "$0")"
out=${1:-seeded/MATRIX.jsonl}
: > "$out"
ids=$(/venv/bin/python -c "import json;print(' '.join(c['property_id'] for c in json.load(open('MANIFEST.json'))['checks']))")
if [ -n "$(git -C /repo status --porcelain)" ]; then echo "/repo not clean"; exit 4; fi
run_checks() {  # $1 = label, $2 = kind
  tests=$(cd /repo && /venv/bin/python -m pytest -q -p no:cacheprovider 2>&1 | tail -1)
  res=""
  for id in $ids; do
    o=$(./check $id --tier quick 2>&1); rc=$?
    v=$(echo "$o" | grep -m1 -A1 "^VIOLATION" | tr '\n' ' ' | cut -c1-300 | sed 's/"/'"'"'/g')
    res="$res\"$id\": {\"rc\": $rc, \"first\": \"$v\"}, "
  done
  echo "{\"entry\": \"$1\", \"kind\": \"$2\", \"tests\": \"$tests\", \"checks\": {${res%, }}}" >> "$out"
}
for d in seeded/C*/; do
  s=$(basename $d)
  git -C /repo apply "$(pwd)/$d/patch.diff" || { echo "{\"entry\": \"$s\", \"kind\": \"seed\", \"error\": \"patch does not apply\"}" >> "$out"; continue; }
  run_checks "$s" seed
  git -C /repo checkout -- . ; git -C /repo reset -q --hard HEAD
done
for c in $(git -C /repo log --format=%h --grep='^fix:' ); do
  if ! git -C /repo revert --no-commit $c >/dev/null 2>&1; then
    git -C /repo revert --abort >/dev/null 2>&1; git -C /repo reset -q --hard HEAD
    echo "{\"entry\": \"$c\", \"kind\": \"revert\", \"error\": \"reverse does not apply (later fixes build on it)\"}" >> "$out"; continue
  fi
  git -C /repo reset -q
  run_checks "$c" revert
  git -C /repo revert --abort >/dev/null 2>&1; git -C /repo checkout -- . ; git -C /repo reset -q --hard HEAD
done
# leave the generated tables as the clean tree gives them
for t in handlers2lean bench2lean state2lean defaults2lean; do /venv/bin/python translate/$t.py >/dev/null; done
echo done
