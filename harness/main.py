"""entry point: ./check <ID> [--tier quick|thorough] [--replay file]"""
import argparse
import importlib
import os
import sys
import traceback


def main() -> int:
    ap = argparse.ArgumentParser()
    ap.add_argument("prop")
    ap.add_argument("--tier", default=os.environ.get("VERIF_TIER", "quick"), choices=["quick", "thorough"])
    ap.add_argument("--replay", default=None)
    a = ap.parse_args()
    seed = int(os.environ.get("VERIF_SEED", "0") or 0)
    prop = a.prop.upper()
    try:
        mod = importlib.import_module(f"harness.props.{prop.lower()}")
    except ModuleNotFoundError:
        print(f"no check for {prop}")
        return 2
    try:
        if a.replay:
            return mod.replay(a.replay)
        return mod.run(a.tier, seed)
    except Exception:
        traceback.print_exc()
        print(f"MACHINERY-ERROR property={prop}: exception in harness")
        return 2


if __name__ == "__main__":
    sys.exit(main())
