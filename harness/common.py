"""Shared plumbing: hex I/O, Lean build + axiom audit, driver process, evidence, verdicts."""
from __future__ import annotations

import fcntl
import json
import os
import re
import struct
import subprocess
import sys
import time
from pathlib import Path
from typing import Any, Dict, Iterable, List, Optional, Sequence

VERIF = Path(__file__).resolve().parent.parent
LEAN = VERIF / "lean"
REPO = Path(os.environ.get("LBFGSB_REPO", "/repo"))
EVIDENCE = VERIF / "evidence"
CORPUS = VERIF / "corpus"
REPLAYS = VERIF / "replays"
KNOWN = VERIF / "known_findings.json"
DRV = LEAN / ".lake" / "build" / "bin" / "drv"

ALLOWED_AXIOMS = {"propext", "Classical.choice", "Quot.sound"}
FORBIDDEN = re.compile(
    r"\bsorry\b|\badmit\b|^\s*axiom\s|native_decide|bv_decide|implemented_by|\bunsafe\s|maxHeartbeats\s+0"
)

# the working tree of the repository is what gets imported, not an installed copy
if str(REPO) not in sys.path:
    sys.path.insert(0, str(REPO))


# ----------------------------------------------------------------------------- hex I/O
def fhex(x: float) -> str:
    x = float(x)
    if x != x:
        return "7ff8000000000000"  # canonical NaN (sign/payload carry no meaning)
    return struct.pack(">d", x).hex()


def hexf(s: str) -> float:
    return struct.unpack(">d", bytes.fromhex(s))[0]


def vhex(v: Iterable[float]) -> str:
    v = list(v)
    return ",".join(fhex(x) for x in v) if v else "-"


def hexv(s: str) -> List[float]:
    return [] if s == "-" else [hexf(t) for t in s.split(",")]


def vshex(vs: Iterable[Iterable[float]]) -> str:
    vs = [vhex(v) for v in vs]
    return ";".join(vs) if vs else "_"


def hexvs(s: str) -> List[List[float]]:
    return [] if s == "_" else [hexv(t) for t in s.split(";")]


# ----------------------------------------------------------------------------- lean
class LeanStatus:
    def __init__(self) -> None:
        self.build_ok = False
        self.build_log = ""
        self.axioms: Dict[str, List[str]] = {}
        self.missing: List[str] = []
        self.bad_axioms: Dict[str, List[str]] = {}
        self.forbidden_hits: List[str] = []
        self.leanchecker: Optional[str] = None
        self.seconds = 0.0

    @property
    def ok(self) -> bool:
        return (
            self.build_ok
            and not self.missing
            and not self.bad_axioms
            and not self.forbidden_hits
            and self.leanchecker in (None, "ok")
        )

    def failed_obligations(self, theorems: Sequence[str]) -> List[str]:
        if not self.build_ok:
            return list(theorems)
        return [t for t in theorems if t in self.missing or t in self.bad_axioms]


class _Lock:
    def __enter__(self):
        self.f = open(LEAN / ".verif.lock", "w")
        fcntl.flock(self.f, fcntl.LOCK_EX)
        return self

    def __exit__(self, *a):
        fcntl.flock(self.f, fcntl.LOCK_UN)
        self.f.close()


def _strip_comments(src: str) -> str:
    # remove /- ... -/ (nested not expected) and -- comments
    src = re.sub(r"/-.*?-/", "", src, flags=re.S)
    return "\n".join(l.split("--")[0] for l in src.splitlines())


def lean_build_and_audit(
    theorems: Sequence[str],
    modules: Sequence[str],
    pre_build=None,
    thorough: bool = False,
) -> LeanStatus:
    """(re)build the Lean library + driver and audit the axioms of `theorems`.

    modules: Lean module names holding the property theorems (imported by the audit file,
    re-checked by leanchecker in the thorough tier).
    pre_build: optional callable run under the lock before the build (translators).
    """
    st = LeanStatus()
    t0 = time.time()
    with _Lock():
        if pre_build is not None:
            pre_build()
        targets = ["LbfgsbVerif", "drv"] + list(modules)
        p = subprocess.run(
            ["lake", "build"] + targets, cwd=LEAN, capture_output=True, text=True
        )
        st.build_log = (p.stdout + p.stderr)[-6000:]
        st.build_ok = p.returncode == 0
        # forbidden constructs anywhere in the library sources
        for f in sorted((LEAN / "LbfgsbVerif").rglob("*.lean")) + [LEAN / "Driver.lean"]:
            for i, line in enumerate(_strip_comments(f.read_text()).splitlines(), 1):
                if FORBIDDEN.search(line):
                    st.forbidden_hits.append(f"{f.relative_to(LEAN)}:{i}: {line.strip()}")
        if st.build_ok and theorems:
            audit = LEAN / ".audit" / f"Audit_{os.getpid()}.lean"
            audit.parent.mkdir(exist_ok=True)
            body = "".join(f"import {m}\n" for m in modules)
            body += "".join(f"#print axioms {t}\n" for t in theorems)
            audit.write_text(body)
            p = subprocess.run(
                ["lake", "env", "lean", str(audit)], cwd=LEAN, capture_output=True, text=True
            )
            out = p.stdout + p.stderr
            audit.unlink()
            for t in theorems:
                m = re.search(
                    r"'" + re.escape(t) + r"' depends on axioms: \[(.*?)\]", out, flags=re.S
                )
                if m:
                    ax = [a.strip() for a in m.group(1).replace("\n", " ").split(",") if a.strip()]
                    st.axioms[t] = ax
                    bad = [a for a in ax if a not in ALLOWED_AXIOMS]
                    if bad:
                        st.bad_axioms[t] = bad
                elif re.search(r"'" + re.escape(t) + r"' does not depend on any axioms", out):
                    st.axioms[t] = []
                else:
                    st.missing.append(t)
            if st.missing:
                st.build_log += "\n--- audit output ---\n" + out[-3000:]
        if st.build_ok and thorough and modules:
            p = subprocess.run(
                ["lake", "env", "leanchecker"] + list(modules),
                cwd=LEAN, capture_output=True, text=True,
            )
            st.leanchecker = "ok" if p.returncode == 0 else (p.stdout + p.stderr)[-2000:]
    st.seconds = time.time() - t0
    return st


class Driver:
    """batch interface to the compiled Lean driver: feed lines, get output lines."""

    def __init__(self) -> None:
        if not DRV.exists():
            raise RuntimeError(f"driver not built: {DRV}")

    def run(self, lines: Sequence[str], timeout: float = 600) -> List[str]:
        p = subprocess.run(
            [str(DRV)], input="\n".join(lines) + "\n", capture_output=True, text=True,
            timeout=timeout,
        )
        if p.returncode != 0:
            raise RuntimeError(f"driver crashed rc={p.returncode}: {p.stderr[-2000:]}")
        return p.stdout.splitlines()


# ----------------------------------------------------------------------------- known findings
def load_known() -> Dict[str, Any]:
    if KNOWN.exists():
        return json.loads(KNOWN.read_text())
    return {"known": [], "fixed": []}


# ----------------------------------------------------------------------------- verdict / evidence
TRUSTED_BASE = [
    "Lean 4.33.0 kernel (leanchecker re-check in the thorough tier); Mathlib v4.33.0 as kernel-checked library",
    "axioms allowed: propext, Classical.choice, Quot.sound (audited by #print axioms on every run); no sorry/admit/native_decide/bv_decide/axiom/implemented_by/unsafe",
    "correspondence harness (/verif/harness) and Float driver (/verif/lean/Driver.lean): Lean's compiled Float + - * / sqrt and comparisons are IEEE-754 binary64 like NumPy's; hex I/O is exact",
    "NumPy/SciPy/BLAS numerics (dot, cholesky, solve_triangular, solve), scipy DCSRCH and approx_derivative: modelled as oracles / exact-solve hypotheses, monitored at run time, not verified",
    "user functions are deterministic and respect numeric array equality; no NaN arises in U-level (order-only) theorems",
]


class Report:
    """collects what a check did and produces evidence + exit status."""

    def __init__(self, prop: str, tier: str, seed: int) -> None:
        self.prop, self.tier, self.seed = prop, tier, seed
        self.t0 = time.time()
        self.obligations: List[Dict[str, Any]] = []  # {name, kind, ok, detail}
        self.evaluations = 0
        self.nontrivial: set = set()
        self.samples: List[Any] = []
        self.rule = ""
        self.dist: Dict[str, Any] = {}
        self.violations: List[Dict[str, Any]] = []  # {what, replay, found_input:bool, key}
        self.known_hits: List[str] = []
        self.extra: Dict[str, Any] = {}
        self.assumptions: List[str] = []
        self.lean: Optional[LeanStatus] = None
        self.machinery_error: Optional[str] = None

    # -- obligations
    def add_lean(self, st: LeanStatus, theorems: Sequence[str]) -> None:
        self.lean = st
        failed = set(st.failed_obligations(theorems))
        for t in theorems:
            ok = st.build_ok and t not in failed and not st.forbidden_hits \
                and st.leanchecker in (None, "ok")
            self.obligations.append(
                {"name": t, "kind": "theorem", "ok": ok, "axioms": st.axioms.get(t)})

    def add_obligation(self, name: str, ok: bool, detail: str = "", kind="correspondence") -> None:
        self.obligations.append({"name": name, "kind": kind, "ok": bool(ok), "detail": detail})

    def count(self, key: str, n: int = 1) -> None:
        self.dist[key] = self.dist.get(key, 0) + n

    # -- violations
    def violation(self, what: str, case: Any, found_input: bool = True, key: str = "") -> None:
        self.violations.append({"what": what, "case": case, "found_input": found_input, "key": key})

    def finish(self) -> int:
        known = load_known()
        wall = time.time() - self.t0
        rc = 0
        REPLAYS.mkdir(exist_ok=True)
        reported = []
        for i, v in enumerate(self.violations):
            matched = None
            for k in known.get("known", []):
                if k["property"] == self.prop and k["key"] and k["key"] == v["key"]:
                    matched = k
            if matched is not None:
                msg = f"KNOWN-FINDING: property={self.prop} {matched['what']}"
                if msg not in self.known_hits:
                    self.known_hits.append(msg)
                continue
            path = REPLAYS / f"{self.prop}_{self.tier}_{self.seed}_{i}.json"
            path.write_text(json.dumps(
                {"property": self.prop, "what": v["what"], "found_input": v["found_input"],
                 "case": v["case"], "seed": self.seed, "tier": self.tier}, indent=1, default=str))
            reported.append((v, path))
        for m in self.known_hits:
            print(m)
        # one VIOLATION line per distinct 'what' (first 5)
        seen = set()
        for v, path in reported:
            if v["what"] in seen:
                continue
            seen.add(v["what"])
            if len(seen) > 5:
                break
            tail = "" if v["found_input"] else " no-failing-input-found"
            print(f"VIOLATION property={self.prop} replay={path}{tail}")
            print(f"  ({v['what']})")
            rc = 1
        if self.machinery_error and rc == 0:
            print(f"MACHINERY-ERROR property={self.prop}: {self.machinery_error}")
            rc = 2
        n_obl = len(self.obligations)
        n_ok = sum(1 for o in self.obligations if o["ok"])
        ev = {
            "property_id": self.prop,
            "tier": self.tier,
            "seed": self.seed,
            "level": "proof",
            "coverage": {
                "obligations": n_obl,
                "discharged": n_ok,
                "checker_cmd": "cd /verif/lean && lake build && lake env lean <audit file with #print axioms>"
                               + (" && lake env leanchecker <modules>" if self.tier == "thorough" else ""),
                "trusted_base": TRUSTED_BASE,
                "obligation_list": self.obligations,
                "evaluations": self.evaluations,
                "distinct_nontrivial": len(self.nontrivial),
                "rule": self.rule,
                "samples": self.samples[:5],
                "input_distribution": self.dist,
                "known_findings_printed": self.known_hits,
                **self.extra,
            },
            "assumptions": self.assumptions,
            "wall_s": round(wall, 2),
            "violations": len(reported),
        }
        if self.lean is not None:
            ev["coverage"]["lean"] = {
                "build_ok": self.lean.build_ok,
                "forbidden_hits": self.lean.forbidden_hits,
                "bad_axioms": self.lean.bad_axioms,
                "missing_theorems": self.lean.missing,
                "leanchecker": self.lean.leanchecker,
                "seconds": round(self.lean.seconds, 2),
            }
        EVIDENCE.mkdir(exist_ok=True)
        (EVIDENCE / f"{self.prop}.json").write_text(json.dumps(ev, indent=1, default=str))
        print(
            f"[{self.prop}] tier={self.tier} seed={self.seed} obligations={n_ok}/{n_obl} "
            f"evaluations={self.evaluations} nontrivial={len(self.nontrivial)} "
            f"violations={len(reported)} known={len(self.known_hits)} wall={wall:.1f}s rc={rc}"
        )
        return rc
