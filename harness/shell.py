"""Shell-level cases: build a scenario, execute it on the real package with recording, replay
it through the Lean shell model, evaluate property monitors on the real execution."""
from __future__ import annotations

import copy
from typing import Any, Dict, List, Optional, Tuple

import numpy as np

from harness.common import Driver, fhex, hexf, hexv, vhex
from harness.gen import Problem, scenario
from harness.trace import DOCUMENTED, MSG_CODE, Run, pkey

_drv: Optional[Driver] = None


def driver() -> Driver:
    global _drv
    if _drv is None:
        _drv = Driver()
    return _drv


def build(case: Dict[str, Any]) -> Tuple[Dict[str, Any], Dict[str, Any], Problem]:
    kw, desc, p = scenario(case["seed"], case.get("features"), families=case.get("families"),
                           small_budgets=case.get("small_budgets"), n=case.get("n"), box=case.get("box"),
                           zero_bounds=case.get("zero_bounds", False))
    for k, v in (case.get("override") or {}).items():
        kw[k] = v
    gz = (case.get("features") or {}).get("gtol_zero")
    if gz is not None:
        # a projected-gradient tolerance that is exactly zero, in the form the user happens to write it
        kw["gtol"] = {"int": 0, "float": 0.0, "np": np.float64(0.0), "callable": (lambda: 0.0)}[gz]
    return kw, desc, p


def replay(run: Run) -> Tuple[Optional[List[str]], Optional[str]]:
    """(disagreements, skipped-reason)"""
    if run.rec.tie:
        return None, "tie-band"
    if run.exc is not None and not run.user_raised():
        # an exception that does not come from a user callable: kernel / input validation
        return None, "kernel-exception:" + type(run.exc).__name__
    L = run.lines()
    if L is None:
        return None, "ambiguous-oracle-keys"
    got = driver().run(L)
    return run.compare(got), None


def r_none():
    return None


def has_nan(run: Run) -> bool:
    r = run.result
    if r is None:
        return False
    return bool(np.isnan(r.fun) or np.isnan(np.asarray(r.jac, dtype=float)).any()
                or any("7ff8000000000000" in v for v in run.rec.F.values()))


def scale_of(run: Run) -> float:
    sc = run.rec.sc
    return hexf(sc) if sc is not None and not sc.startswith("!") else 1.0


def points_of(run: Run, n: int):
    """(kind, real point) for every user call that carries a point"""
    out = []
    for kind, key in run.rec.calls:
        if key == "-":
            continue
        v = np.array(hexv(key))
        if v.size == 2 * n:      # complex-step stencil: real parts then imaginary parts
            v = v[:n]
        out.append((kind, v))
    return out


# --------------------------------------------------------------------------- monitors
def mon_c02(run: Run, p: Problem) -> List[Dict[str, Any]]:
    bad = []
    lb, ub = p.lb, p.ub
    fixed = lb == ub
    pts = points_of(run, p.n)
    if run.result is not None:
        pts.append(("result.x", np.asarray(run.result.x, dtype=float)))
        for e in run.rec.cb:
            pts.append(("callback state.x", np.asarray(e["state"].x, dtype=float)))
    for kind, v in pts:
        if v.size != p.n:
            continue
        if (v < lb).any() or (v > ub).any():
            i = int(np.argmax((v < lb) | (v > ub)))
            bad.append({"what": f"point outside the box ({kind})", "key": "",
                        "detail": {"kind": kind, "i": i, "x_i": fhex(v[i]), "lb_i": fhex(lb[i]), "ub_i": fhex(ub[i])}})
            break
        if fixed.any() and (v[fixed] != lb[fixed]).any():
            bad.append({"what": f"component with lb == ub moved ({kind})", "key": ""})
            break
    return bad


# id(checkpoint object) -> was it produced by a run with a gradient scaler (finding K1 applies then)
CK_SCALED: Dict[int, bool] = {}


def mon_c03(run: Run, p: Problem, kw) -> List[Dict[str, Any]]:
    if run.result is None or kw.get("update_fun_def") is not None:
        return []
    s = scale_of(run)
    ck = kw.get("checkpoint")
    bad0: List[Dict[str, Any]] = []
    # the TRUE objective (the harness's own closure, no scaling) along start / checkpoint point,
    # callback iterates, result: non-increasing whenever the factor is positive — multiplication by
    # s > 0 is monotone in floating point, so fl(s a) < fl(s b) implies a < b
    if s > 0 and np.isfinite(s) and run.result is not r_none():
        pts = [np.asarray(ck.x, dtype=float) if ck is not None else np.clip(np.asarray(kw["x0"], dtype=float), p.lb, p.ub)]
        pts += [np.asarray(e["state"].x, dtype=float) for e in run.rec.cb] + [np.asarray(run.result.x, dtype=float)]
        tv = [float(np.real(p.fun(q.copy()))) for q in pts]
        if not np.isnan(tv[0]) and any(np.isnan(tv[1:])):
            bad0.append({"what": "the objective is NaN at an accepted iterate although it is finite at the start (a NaN trial value is not lower "
                                 "than the value it is compared with)", "key": "",
                         "detail": {"values": tv[:6], "first_nan_at": int(np.argmax(np.isnan(tv))), "message": run.result.message}})
        if not any(np.isnan(tv)):
            for i, (a, b) in enumerate(zip(tv, tv[1:])):
                if b > a:
                    k1 = ck is not None and kw.get("gradient_scaler") is not None and CK_SCALED.get(id(ck), False)
                    bad0.append({"what": "true objective increased between accepted iterates" + (" (after restart)" if ck is not None else ""),
                                 "key": "restart+scaler" if k1 else "",
                                 "detail": {"from": a, "to": b, "step": i, "scale": s, "message": run.result.message}})
                    break
    if ck is not None:
        return bad0
    if True:
        first = [k for kd, k in run.rec.calls if kd == "F"]
        if not first:
            return []
        v = run.rec.F[first[0]]
        if v.startswith("!"):
            return []
        seq = [hexf(v) * s]
    seq += [float(e["state"].fun) for e in run.rec.cb]
    seq.append(float(run.result.fun))
    if any(np.isnan(seq)):
        return bad0
    bad = bad0
    for a, b in zip(seq, seq[1:]):
        if b > a:
            bad.append({"what": "objective increased between accepted iterates", "key": "",
                        "detail": {"from": a, "to": b, "message": run.result.message}})
            break
    # a failed line search leaves the iterate where it was
    xs = [e["x"] for e in run.rec.xbar]
    for i, e in enumerate(run.rec.ls):
        if e.get("ret", 0) is None and i + 1 < len(xs):
            if vhex(xs[i + 1]) != vhex(e["x0"]):
                bad.append({"what": "iterate moved after a failed line search", "key": ""})
    return bad


def mon_c04(run: Run, p: Problem, kw) -> List[Dict[str, Any]]:
    r = run.result
    if r is None or has_nan(run):
        return []
    bad = []
    msg = r.message
    s = scale_of(run)
    ck = kw.get("checkpoint")
    gt = kw.get("gtol", 1e-5)
    gtv = hexf(run.rec.gt) if callable(gt) and run.rec.gt and not run.rec.gt.startswith("!") else gt
    ft = kw.get("ftarget")
    ftv = hexf(run.rec.ft) if callable(ft) and run.rec.ft and not run.rec.ft.startswith("!") else ft
    maxiter, maxfun = kw.get("maxiter", 50), kw.get("maxfun", 15000)
    if msg not in DOCUMENTED:
        bad.append({"what": f"undocumented termination message {msg!r}", "key": "msg:" + str(msg)})
        return bad
    x, jac = np.asarray(r.x, dtype=float), np.asarray(r.jac, dtype=float)
    pg = float(np.max(np.abs(np.clip(x - jac, p.lb, p.ub) - x)))
    code = MSG_CODE[msg]
    if code == 3 and not pg <= gtv:
        bad.append({"what": "PGTOL message but projected gradient > gtol", "key": ""})
    if code == 5 and not (ftv is not None and float(r.fun) / s <= ftv):
        bad.append({"what": "TARGET message but fun > ftarget", "key": ""})
    if code == 6 and not r.nit >= maxiter:
        bad.append({"what": "iteration-limit message but nit < maxiter", "key": ""})
    if code == 7 and not r.nfev >= maxfun:
        bad.append({"what": "evaluation-limit message but nfev < maxfun", "key": ""})
    if code == 8 and not (run.rec.cb and run.rec.cb[-1].get("ret") == "1"):
        bad.append({"what": "user-callback message but the callback did not return True", "key": ""})
    if (not r.success) != (code == 2):
        bad.append({"what": f"success={r.success} with message {msg!r}", "key": ""})
    nit0 = int(ck.nit) if ck is not None else 0
    if r.nit > max(maxiter, nit0):
        bad.append({"what": "nit exceeds max(maxiter, nit at restart)", "key": ""})
    if callable(kw.get("jac")):
        n0 = int(ck.nfev) if ck is not None else 1
        if r.nfev > max(maxfun, n0) + 1:
            bad.append({"what": f"nfev={r.nfev} exceeds max(maxfun, n0)+1={max(maxfun, n0) + 1}", "key": ""})
    for name, kind in (("ftarget", "FT"), ("gtol", "GT")):
        if callable(kw.get(name)):
            c = sum(1 for kd, _ in run.rec.calls if kd == kind)
            if c != 1:
                bad.append({"what": f"callable {name} invoked {c} times", "key": ""})
    return bad


def mon_c05(run: Run, p: Problem, kw) -> List[Dict[str, Any]]:
    r = run.result
    if r is None or has_nan(run):
        return []
    ck = kw.get("checkpoint")
    if ck is not None and r is ck:
        return []
    bad = []
    s = scale_of(run)
    nF = sum(1 for kd, _ in run.rec.calls if kd == "F")
    nG = sum(1 for kd, _ in run.rec.calls if kd == "G")
    nf0 = int(ck.nfev) if ck is not None else 0
    ng0 = int(ck.njev) if ck is not None else 0
    if r.nfev != nf0 + nF:
        bad.append({"what": f"nfev={r.nfev} but {nF} objective calls (+{nf0} from the checkpoint)", "key": ""})
    if callable(kw.get("jac")):
        if r.njev != ng0 + nG:
            bad.append({"what": f"njev={r.njev} but {nG} gradient calls (+{ng0})", "key": ""})
    elif r.njev != ng0 + len(run.rec.FD):
        bad.append({"what": f"njev={r.njev} but {len(run.rec.FD)} finite-difference gradients", "key": ""})
    upd = kw.get("update_fun_def")
    from harness.gen import upd_identity
    if upd is not None and getattr(upd, "__name__", "") != "upd_identity" and not getattr(upd, "_identity", False):
        return bad
    if ck is not None and (kw.get("gradient_scaler") is not None):
        key = "restart+scaler"
    else:
        key = ""
    gradient_computed = r.njev > 0   # counting the checkpoint's: a restart inherits its gradient
    states = [("result", r)] + [(f"callback state {i}", e["state"]) for i, e in enumerate(run.rec.cb)]
    for name, st in states:
        x = np.asarray(st.x, dtype=float)
        if not gradient_computed:
            continue
        fx = p.fun(x.copy())
        if fhex(float(np.real(fx)) * s) != fhex(st.fun):
            bad.append({"what": f"fun of {name.split(' ')[0]} is not the objective at its x (times the scale)", "key": key,
                        "detail": {"fun": float(st.fun), "F(x)*s": float(np.real(fx)) * s}})
            break
        if callable(kw.get("jac")):
            gx = np.atleast_1d(p.grad(x.copy()))
            if vhex(gx * s) != vhex(np.asarray(st.jac, dtype=float)):
                bad.append({"what": f"jac of {name.split(' ')[0]} is not the gradient at its x (times the scale)", "key": key})
                break
    return bad


def mon_c18(run: Run, p: Problem, kw) -> List[Dict[str, Any]]:
    """pairs are bit-exact differences of consecutive retained iterates actually visited and of
    the gradients returned there; at most maxcor; s.y > 0; chronological."""
    r = run.result
    if r is None or has_nan(run) or kw.get("update_fun_def") is not None:
        return []
    ck = kw.get("checkpoint")
    if ck is not None:
        return []   # across restarts: see known finding K2 (C18 check handles it)
    bad = []
    s = scale_of(run)
    states = [("result", r)] + [("callback", e["state"]) for e in run.rec.cb]
    if not callable(kw.get("jac")):
        return []
    # iterates visited: points at which both F and G were evaluated, in order
    gpts = [k for kd, k in run.rec.calls if kd == "G"]
    order = {k: i for i, k in reversed(list(enumerate(gpts)))}
    for name, st in states:
        sk = np.atleast_2d(st.hess_inv.sk)
        yk = np.atleast_2d(st.hess_inv.yk)
        if sk.size == 0:
            continue
        if sk.shape[0] > kw.get("maxcor", 10):
            bad.append({"what": "more than maxcor pairs", "key": ""})
            break
        if not (np.einsum("ij,ij->i", sk, yk) > 0).all():
            bad.append({"what": "a stored pair has s.y <= 0", "key": ""})
            break
        # reconstruct the retained iterates backwards from the state's x (exactly: the pairs
        # must be differences of visited points, so x - s must be a visited point, bit for bit)
        ok = True
        vis = [np.array(hexv(k)) for k in gpts]
        visg = {k: np.array(hexv(run.rec.G[k])) * s for k in gpts if not run.rec.G[k].startswith("!")}
        # find a chain of visited points p_0..p_m (increasing visit order) with diffs == sk
        m = sk.shape[0]
        found = False
        # last retained point: try each visited point as the end of the chain
        for end in range(len(vis) - 1, -1, -1):
            chain = [end]
            cur = end
            good = True
            for j in range(m - 1, -1, -1):
                prev = None
                for c in range(cur - 1, -1, -1):
                    if vhex(vis[cur] - vis[c]) == vhex(sk[j]):
                        kc, kk = gpts[cur], gpts[c]
                        if kc in visg and kk in visg and vhex(visg[kc] - visg[kk]) == vhex(yk[j]):
                            prev = c
                            break
                if prev is None:
                    good = False
                    break
                cur = prev
            if good:
                found = True
                break
        if not found:
            bad.append({"what": f"pairs of {name} are not differences of visited iterates/gradients", "key": ""})
            break
    return bad


def basic_tags(run: Run, desc, p: Problem) -> List[str]:
    t = [f"family={p.desc.get('family')}", f"box={p.desc.get('box')}", f"n<={4 * ((p.n + 3) // 4)}"]
    f = desc["features"]
    t += [f"jac={f['jac']}", f"cb={f['callback']}", f"ftarget={f['ftarget']}", f"scaler={f['scaler']}", f"update={f['update']}",
          f"grad_buffer={f.get('grad_buffer', False)}", f"irrelevant_eps={f.get('irrelevant_eps', False)}"]
    if run.exc is not None:
        t.append("exc=" + type(run.exc).__name__)
    else:
        t.append("msg=" + str(MSG_CODE.get(run.result.message, run.result.message)))
        t.append(f"nit<={5 * ((run.result.nit + 4) // 5)}")
    t.append(f"linesearches_failed={sum(1 for e in run.rec.ls if e.get('ret', 0) is None) > 0}")
    t.append(f"pairs_rejected={any(not c['accepted'] for c in run.rec.curv)}")
    # line searches that end without convergence after at least two trials, with a trial above the start
    hard = 0
    for e in run.rec.ls:
        fs = [c["in"][1] for c in e["dc"][1:]]
        last_task = e["dc"][-1]["out"][1][:4] if e["dc"] else b""
        if len(fs) >= 2 and last_task != b"CONV" and any(f > e["f0"] for f in fs):
            hard += 1
    t.append(f"ls_unconverged_with_uphill_trial={hard > 0}")
    return t
