"""Run the real minimize_lbfgsb with every user callable and kernel boundary recorded, turn
the recording into the line protocol of the Lean driver, and compare the model's replay
with what the implementation did (bit for bit)."""
from __future__ import annotations

import copy
import math
import threading
from fractions import Fraction
from typing import Any, Callable, Dict, List, Optional, Tuple

import numpy as np

from harness.common import fhex, vhex, vshex

MSG_CODE = {
    "START": 0,
    "RESTART_FROM_LNSRCH": 1,
    "ABNORMAL_TERMINATION_IN_LNSRCH": 2,
    "CONVERGENCE: NORM_OF_PROJECTED_GRADIENT_<=_PGTOL": 3,
    "CONVERGENCE: REL_REDUCTION_OF_F_<=_FTOL": 4,
    "CONVERGENCE: F_<=_TARGET": 5,
    "STOP: TOTAL NO. of ITERATIONS REACHED LIMIT": 6,
    "STOP: TOTAL NO. of f AND g EVALUATIONS EXCEEDS LIMIT": 7,
    "STOP: USER CALLBACK": 8,
}
DOCUMENTED = {k for k, v in MSG_CODE.items() if v >= 2}

_tls = threading.local()


def _rec() -> Optional["Recorder"]:
    return getattr(_tls, "rec", None)


def nz(v):
    """numeric key of a point: -0.0 and 0.0 are the same point"""
    return np.asarray(v, dtype=float) + 0.0


def pkey(p) -> str:
    p = np.asarray(p)
    if np.iscomplexobj(p):
        return vhex(list(nz(p.real)) + list(nz(p.imag)))
    return vhex(nz(p))


class Recorder:
    def __init__(self) -> None:
        self.calls: List[Tuple[str, str]] = []           # (kind, point key) in order
        self.F: Dict[str, str] = {}                      # point -> value hex | !err
        self.G: Dict[str, str] = {}
        self.FD: List[Tuple[str, str, List[str], str]] = []   # x, f0, pts, g
        self.xbar: List[Dict[str, Any]] = []
        self.ls: List[Dict[str, Any]] = []               # line searches
        self.cb: List[Dict[str, Any]] = []               # retained callback states
        self.upd: List[Dict[str, Any]] = []
        self.sc: Optional[str] = None
        self.ft: Optional[str] = None
        self.gt: Optional[str] = None
        self.curv: List[Dict[str, Any]] = []             # curvature decisions + exact margin
        self.tie = False
        self.ambiguous = False   # a keyed oracle returned two different values for one key
        self._cur_ls: Optional[Dict[str, Any]] = None
        self._fd_depth = 0
        self.contract: List[str] = []                    # oracle-contract violations observed


# ------------------------------------------------------------------ patches (installed once)
_installed = False
_lock = threading.Lock()


def install_patches() -> None:
    global _installed
    with _lock:
        if _installed:
            return
        import lbfgsb.main as M
        import lbfgsb.bfgsmats as B
        import lbfgsb.scalar_function as S
        import scipy.optimize._dcsrch as D

        real_gcp = M.get_cauchy_point
        real_sub = M.subspace_minimization
        real_ls = M.line_search
        real_isupd = B.is_update_X_and_G
        real_ad = S.approx_derivative
        RealDC = D.DCSRCH

        def gcp(x, grad, lb, ub, mats, *a, **k):
            r = _rec()
            out = real_gcp(x, grad, lb, ub, mats, *a, **k)
            if r is not None:
                r.xbar.append({
                    "x": np.array(x, copy=True), "g": np.array(grad, copy=True),
                    "S": np.array(mats.S, copy=True), "Y": np.array(mats.Y, copy=True),
                    "theta": float(mats.theta), "use_factor": bool(mats.use_factor),
                    "x_cp": np.array(out[0], copy=True), "c": np.array(out[1], copy=True),
                    "mats": mats,
                })
            return out

        def sub(x, xc, free_vars, Z, A, c, grad, lb, ub, mats, *a, **k):
            r = _rec()
            out = real_sub(x, xc, free_vars, Z, A, c, grad, lb, ub, mats, *a, **k)
            if r is not None and r.xbar:
                r.xbar[-1]["xbar"] = np.array(out, copy=True)
                r.xbar[-1]["free_vars"] = np.array(free_vars, copy=True)
            return out

        def ls(x0, f0, g0, d, lb, ub, above_iter, max_steplength_user, is_boxed, sf, *a, **k):
            r = _rec()
            if r is None:
                return real_ls(x0, f0, g0, d, lb, ub, above_iter, max_steplength_user, is_boxed, sf, *a, **k)
            ent = {"x0": np.array(x0, copy=True), "d": np.array(d, copy=True), "f0": float(f0),
                   "g0": np.array(g0, copy=True), "nit": int(above_iter), "dc": [],
                   "max_iter": (a[3] if len(a) > 3 else k.get("max_iter")),
                   "nfev_before": sf.nfev, "lb": np.array(lb), "ub": np.array(ub),
                   "maxstep_user": float(max_steplength_user), "is_boxed": bool(is_boxed)}
            r.ls.append(ent)
            r._cur_ls = ent
            try:
                out = real_ls(x0, f0, g0, d, lb, ub, above_iter, max_steplength_user, is_boxed, sf, *a, **k)
            finally:
                r._cur_ls = None
            ent["ret"] = out
            ent["nfev_after"] = sf.nfev
            return out

        class DC(RealDC):
            def __init__(self, phi, derphi, ftol, gtol, xtol, stpmin, stpmax):
                super().__init__(phi, derphi, ftol, gtol, xtol, stpmin, stpmax)
                r = _rec()
                if r is not None and r._cur_ls is not None:
                    r._cur_ls["stpmax"] = float(stpmax)
                    r._cur_ls["tols"] = (float(ftol), float(gtol), float(xtol))

            def _iterate(self, stp, f, g, task):
                out = super()._iterate(stp, f, g, task)
                r = _rec()
                if r is not None and r._cur_ls is not None:
                    r._cur_ls["dc"].append({"in": (float(stp), float(f), float(g), bytes(task)),
                                            "out": (float(out[0]), bytes(out[3]))})
                return out

        def isupd(xk, gk, x_old, g_old, eps=2.2e-16):
            out = real_isupd(xk, gk, x_old, g_old, eps)
            r = _rec()
            if r is not None:
                y = [Fraction(float(a)) - Fraction(float(b)) for a, b in zip(gk, g_old)]
                # the implementation forms y, s in floating point first
                yk = np.asarray(gk) - np.asarray(g_old)
                sk = np.asarray(xk) - np.asarray(x_old)
                sty = sum(Fraction(float(a)) * Fraction(float(b)) for a, b in zip(sk, yk))
                yty = sum(Fraction(float(a)) ** 2 for a in yk)
                margin = sty - Fraction(float(eps)) * yty
                scale = sum(abs(Fraction(float(a)) * Fraction(float(b))) for a, b in zip(sk, yk))
                tie = abs(margin) <= Fraction(1, 10 ** 10) * scale
                if tie:
                    r.tie = True
                r.curv.append({"accepted": bool(out), "tie": bool(tie)})
            return out

        def ad(fun, x0, *a, **k):
            r = _rec()
            if r is None:
                return real_ad(fun, x0, *a, **k)
            n0 = len(r.calls)
            try:
                g = real_ad(fun, x0, *a, **k)
            except BaseException:
                # a stencil evaluation raised: record the stencil evaluated so far (the failing
                # point included) so that the model requests the same points
                pts = [p for kd, p in r.calls[n0:] if kd == "F"]
                r.FD.append((pkey(x0), fhex(k.get("f0")), pts, vhex([float("nan")] * len(np.atleast_1d(x0)))))
                raise
            pts = [p for kd, p in r.calls[n0:] if kd == "F"]
            r.FD.append((pkey(x0), fhex(k.get("f0")), pts, vhex(g)))
            # contract of the differencing routine: stencil inside the bounds it was given
            b = k.get("bounds")
            return g

        M.get_cauchy_point = gcp
        M.subspace_minimization = sub
        M.line_search = ls
        B.is_update_X_and_G = isupd
        S.approx_derivative = ad
        D.DCSRCH = DC
        _installed = True


class UserError(Exception):
    pass


def _exc_name(e: BaseException) -> str:
    return f"{type(e).__name__}:{str(e)}".replace(" ", "_")


_CRIT_WRAPPERS: dict = {}
# objectives (generator style "mutating user functions") that write into the start array of the run in progress: the recorder hands
# the package a private copy of the start for them and publishes it in `_tls.x0_passed`
PRIVATE_X0: dict = {}


def _criterion_wrapper(v, kind):
    key = (id(v), kind)
    hit = _CRIT_WRAPPERS.get(key)
    if hit is not None and hit[0] is v:
        return hit[1]

    def w():
        rec, run = _tls.rec, _tls.run
        rec.calls.append((kind, "-"))
        try:
            run._maybe_fault(kind)
            out = v()
        except BaseException as e:
            setattr(rec, kind.lower(), "!" + _exc_name(e))
            raise
        setattr(rec, kind.lower(), fhex(out))
        return out
    if len(_CRIT_WRAPPERS) > 20000:
        _CRIT_WRAPPERS.clear()
    _CRIT_WRAPPERS[key] = (v, w)
    return w


def own_bounds(x0, bounds):
    """the box the caller described, read by the harness itself (not by the package's validation): an (n, 2) array with infinities, a
    list of (lower, upper) pairs with None for an absent side, or None"""
    n = int(np.size(x0))
    if bounds is None:
        return np.full(n, -np.inf), np.full(n, np.inf)
    lb, ub = np.empty(n), np.empty(n)
    for i, (l, u) in enumerate(bounds):
        lb[i] = -np.inf if l is None else float(l)
        ub[i] = np.inf if u is None else float(u)
    return lb, ub


class Run:
    """one recorded execution of minimize_lbfgsb"""

    def __init__(self, kwargs: Dict[str, Any], faults: Optional[Dict[Tuple[str, int], BaseException]] = None):
        self.kwargs = kwargs
        self.rec = Recorder()
        self.result = None
        self.exc: Optional[BaseException] = None
        self.faults = faults or {}
        self.counts: Dict[str, int] = {}

    def _maybe_fault(self, kind: str):
        i = self.counts.get(kind, 0)
        self.counts[kind] = i + 1
        e = self.faults.get((kind, i))
        if e is not None:
            raise e

    def execute(self):
        install_patches()
        from lbfgsb import minimize_lbfgsb
        kw = dict(self.kwargs)
        rec = self.rec
        fun, jac = kw["fun"], kw.get("jac")
        _tls.x0_passed = None
        if id(fun) in PRIVATE_X0 and isinstance(kw.get("x0"), np.ndarray):
            kw["x0"] = np.array(kw["x0"], copy=True)
            _tls.x0_passed = kw["x0"]
            if len(PRIVATE_X0) > 20000:
                PRIVATE_X0.clear()

        def f(x, *a):
            k = pkey(x)
            rec.calls.append(("F", k))
            try:
                self._maybe_fault("F")
                v = fun(x, *a)
            except BaseException as e:
                rec.F[k] = "!" + _exc_name(e)
                raise
            vv = complex(v) if np.iscomplexobj(v) else float(v)
            hv = fhex(vv.real if isinstance(vv, complex) else vv)
            if k in rec.F and rec.F[k] != hv:
                rec.ambiguous = True
            rec.F[k] = hv
            return v

        kw["fun"] = f
        if callable(jac):
            def g(x, *a):
                k = pkey(x)
                rec.calls.append(("G", k))
                try:
                    self._maybe_fault("G")
                    v = jac(x, *a)
                except BaseException as e:
                    rec.G[k] = "!" + _exc_name(e)
                    raise
                hv = vhex(np.atleast_1d(v))
                if k in rec.G and rec.G[k] != hv:
                    rec.ambiguous = True
                rec.G[k] = hv
                return v
            kw["jac"] = g
        cb = kw.get("callback")
        if cb is not None:
            def cbw(xk, state):
                rec.calls.append(("CB", pkey(xk)))
                ent = {"xk": xk, "state": state, "nit": int(state.nit), "pos": len(rec.calls) - 1}
                rec.cb.append(ent)
                try:
                    self._maybe_fault("CB")
                    out = cb(xk, state)
                except BaseException as e:
                    ent["ret"] = "!" + _exc_name(e)
                    raise
                ent["ret"] = "1" if out else "0"
                return out
            kw["callback"] = cbw
        upd = kw.get("update_fun_def")
        if upd is not None:
            def updw(x, f0, f0_old, grad, X, G):
                rec.calls.append(("UPD", pkey(x)))
                ent = {"x": pkey(x), "Xin": [np.array(v, copy=True) for v in X], "pos": len(rec.calls) - 1}
                rec.upd.append(ent)
                try:
                    self._maybe_fault("UPD")
                    out = upd(x, f0, f0_old, grad, X, G)
                except BaseException as e:
                    ent["ret"] = "!" + _exc_name(e)
                    raise
                f0n, f0o, gradn, Gn = out
                ent["out"] = (np.array(gradn, copy=True), [np.array(v, copy=True) for v in Gn])
                ent["ret"] = f"{fhex(f0n)} {fhex(f0o)} {vhex(gradn)} {vshex(list(Gn))}"
                if any(e2 is not ent and e2["x"] == ent["x"] and e2.get("ret") != ent["ret"] for e2 in rec.upd):
                    rec.ambiguous = True
                return out
            kw["update_fun_def"] = updw
        sc = kw.get("gradient_scaler")
        if sc is not None:
            def scw(x, grad, lb, ub):
                rec.calls.append(("SC", pkey(x)))
                rec.sc_args = (np.array(x, copy=True), np.array(grad, copy=True), np.array(lb), np.array(ub))
                try:
                    self._maybe_fault("SC")
                    out = sc(x, grad, lb, ub)
                except BaseException as e:
                    rec.sc = "!" + _exc_name(e)
                    raise
                rec.sc = fhex(out)
                return out
            kw["gradient_scaler"] = scw
        for name, kind in (("ftarget", "FT"), ("gtol", "GT")):
            v = kw.get(name)
            if callable(v):
                # one wrapper object per user callable, whatever the run: a user may hand the same callable object to
                # several calls of the minimiser (the recorder and the fault plan are those of the run in progress)
                kw[name] = _criterion_wrapper(v, kind)
        _tls.rec = rec
        _tls.run = self
        try:
            self.result = minimize_lbfgsb(**kw)
        except BaseException as e:  # noqa
            self.exc = e
        finally:
            _tls.rec = None
        return self

    def nonfinite_points(self) -> bool:
        """did the package hand the user's functions (or return) a point with NaN / infinite coordinates BEFORE any of the user's
        functions returned a non-finite value? With a finite start this is the package's doing; after a non-finite value of the
        objective or gradient (overflow, edge of the domain) it is the objective's, and outside every property."""
        from harness.common import hexf, hexv
        import math
        for kd, k in self.rec.calls:
            if kd not in ("F", "G") or k in ("-", ""):
                continue
            if not all(math.isfinite(t) for t in hexv(k)):
                return True
            v = (self.rec.F if kd == "F" else self.rec.G).get(k)
            if v is None or v.startswith("!"):
                continue
            vals = [hexf(v)] if kd == "F" else hexv(v)
            # (a value beyond 1e150 counts as an overflow of the user's function: its square is not representable, and the package's own
            # arithmetic — g.g, theta |d|^2 — overflows through no fault of its own)
            if not all(math.isfinite(t) and abs(t) < 1e150 for t in vals):
                return False
        for (_, _, _, g) in self.rec.FD:
            if not all(math.isfinite(t) for t in hexv(g)):
                return False
        if self.result is not None and not np.isfinite(np.asarray(self.result.x, dtype=float)).all():
            return True
        return False

    def nonfinite(self) -> bool:
        """did the user's objective or gradient return a non-finite value (overflow, nan)?
        Such runs are outside the domain the properties quantify over."""
        from harness.common import hexf, hexv
        import math
        for v in self.rec.F.values():
            if not v.startswith("!") and not math.isfinite(hexf(v)):
                return True
        for v in self.rec.G.values():
            if not v.startswith("!") and not all(math.isfinite(t) for t in hexv(v)):
                return True
        # (the differencing routine returns NaN = 0/0 for a variable fixed by lb == ub, which the package then reports as zero: only
        # the components of the free variables say something about the user's objective)
        fixed = None
        try:
            lb_, ub_ = own_bounds(np.asarray(self.kwargs["x0"], dtype=float), self.kwargs.get("bounds"))
            fixed = lb_ == ub_
        except Exception:  # noqa: BLE001
            fixed = None
        for (_, _, _, g) in self.rec.FD:
            gv = hexv(g)
            for j_, t in enumerate(gv):
                if not math.isfinite(t) and not (fixed is not None and len(gv) == fixed.size and fixed[j_]):
                    return True
        return False

    def user_raised(self) -> bool:
        """did a user callable raise during this run?"""
        rec = self.rec
        vals = list(rec.F.values()) + list(rec.G.values()) + [e.get("ret", "") for e in rec.cb] \
            + [e.get("ret", "") for e in rec.upd] + [rec.sc or "", rec.ft or "", rec.gt or ""]
        return any(isinstance(v, str) and v.startswith("!") and v != "!UNFINISHED" for v in vals)

    # ---------------------------------------------------------------- protocol
    def lines(self) -> Optional[List[str]]:
        """driver input for this run (None if the trace cannot be keyed unambiguously)"""
        kw, rec = self.kwargs, self.rec
        if rec.ambiguous:
            return None
        x0 = np.asarray(kw["x0"], dtype=float)
        lb, ub = own_bounds(x0, kw.get("bounds"))
        jac = kw.get("jac")
        L = ["reset", f"cfg.x0 {vhex(x0)}", f"cfg.lb {vhex(lb)}", f"cfg.ub {vhex(ub)}",
             f"cfg.mode {'callable' if callable(jac) else 'fd'}",
             f"cfg.int {kw.get('maxcor', 10)} {kw.get('maxiter', 50)} {kw.get('maxfun', 15000)} {kw.get('maxls', 20)}",
             "cfg.flt " + " ".join(fhex(kw.get(k, dflt)) for k, dflt in (
                 ("ftol", 1e-5), ("max_steplength", 1e8), ("ftol_linesearch", 1e-3),
                 ("gtol_linesearch", 0.9), ("xtol_linesearch", 1e-1), ("eps_SY", 2.2e-16))),
             f"cfg.flags {int(kw.get('callback') is not None)} {int(kw.get('update_fun_def') is not None)} {int(kw.get('gradient_scaler') is not None)}"]
        gt = kw.get("gtol", 1e-5)
        if callable(gt):
            L.append(f"cfg.gtol callable {rec.gt if rec.gt is not None else '!UNCALLED'}")
        else:
            L.append(f"cfg.gtol const {fhex(gt)}")
        ft = kw.get("ftarget")
        if ft is None:
            L.append("cfg.ftarget none")
        elif callable(ft):
            L.append(f"cfg.ftarget callable {rec.ft if rec.ft is not None else '!UNCALLED'}")
        else:
            L.append(f"cfg.ftarget const {fhex(ft)}")
        ck = kw.get("checkpoint")
        if ck is not None:
            L.append("ck " + result_str(ck))
        for k, v in rec.F.items():
            L.append(f"F {k} {v}")
        for k, v in rec.G.items():
            L.append(f"G {k} {v}")
        seen = {}
        for x, f0, pts, g in rec.FD:
            if x in seen and seen[x] != (f0, pts, g):
                return None
            seen[x] = (f0, pts, g)
            L.append(f"FD {x} {f0} {';'.join(pts) if pts else '_'} {g}")
        keys = set()
        for e in rec.xbar:
            if "xbar" not in e:
                continue
            npts = 0 if not e["use_factor"] else e["S"].shape[1] + 1
            key = (vhex(nz(e["x"])), vhex(nz(e["g"])), npts)
            if key in keys:
                return None
            keys.add(key)
            L.append(f"XBAR {key[0]} {key[1]} {npts} {vhex(e['xbar'])}")
        keys = set()
        for e in rec.ls:
            key = (vhex(nz(e["x0"])), vhex(nz(e["d"])))
            if key in keys:
                return None
            keys.add(key)
            for i, c in enumerate(e["dc"]):
                L.append(f"DC {key[0]} {key[1]} {i} {fhex(c['out'][0])} {task_class(c['out'][1])}")
        for e in rec.cb:
            L.append(f"CB {e['nit']} {e.get('ret', '!UNFINISHED')}")
        for e in rec.upd:
            L.append(f"UPD {e['x']} {e.get('ret', '!UNFINISHED')}")
        if rec.sc is not None:
            L.append(f"SC {rec.sc}")
        L.append("run")
        return L

    # ---------------------------------------------------------------- comparison
    def expected(self) -> List[str]:
        """what the model must print if it agrees with the implementation"""
        rec = self.rec
        if self.exc is not None:
            return ["err " + _exc_name(self.exc)]
        out = ["res " + result_str(self.result),
               "log " + " ".join(f"{k}:{p}" for k, p in rec.calls)]
        for e in rec.cb:
            out.append("cb " + result_str(e["state"]))
        return out

    def scale_factor(self) -> float:
        from harness.common import hexf
        sc = self.rec.sc
        return hexf(sc) if sc is not None and not sc.startswith("!") else 1.0

    def compare(self, got: List[str]) -> List[str]:
        """list of disagreements between the model's replay and the implementation"""
        exp = self.expected()
        rec = self.rec
        diffs = []
        if self.exc is not None:
            if not got or got[0] != exp[0]:
                diffs.append(f"error: impl {exp[0]!r} model {got[:1]!r}")
            return diffs
        n = len(exp)
        for i, (a, b) in enumerate(zip(exp, got[:n])):
            if a != b:
                diffs.append(f"line {i} ({a.split(' ', 1)[0]}): impl {a[:300]} | model {b[:300]}")
        if len(got) < n:
            diffs.append(f"model output too short: {got[:3]}")
            return diffs
        # oracle requests
        oreq = [l for l in got[n:] if l.startswith("oreq")]
        xb = [l for l in oreq if l.startswith("oreq xbar")]
        exb = [e for e in rec.xbar]
        if len(xb) != len(exb):
            diffs.append(f"xbar requests: impl {len(exb)} model {len(xb)}")
        for l, e in zip(xb, exb):
            _, _, x, g, m = l.split(" ")
            if x != vhex(e["x"]) or g != vhex(e["g"]):
                diffs.append("xbar request point/gradient differ")
                break
            if e["use_factor"]:
                want = f"{vshex(e['S'].T)}|{vshex(e['Y'].T)}"
                if m == "none":
                    diffs.append("matrices: impl has pairs, model has none")
                    break
                Xs, Gs = m.split("|")
                from harness.common import hexvs
                Xl, Gl = hexvs(Xs), hexvs(Gs)
                S = [list(np.array(b) - np.array(a)) for a, b in zip(Xl, Xl[1:])]
                Y = [list(np.array(b) - np.array(a)) for a, b in zip(Gl, Gl[1:])]
                if f"{vshex(S)}|{vshex(Y)}" != want:
                    diffs.append("matrices S/Y differ from the model's memory snapshot")
                    break
            elif m != "none":
                diffs.append("matrices: impl has none, model has pairs")
                break
        dc = [l for l in oreq if l.startswith("oreq dc")]
        edc = []
        for e in rec.ls:
            gprev = e["g0"]
            for c in e["dc"]:
                # magnitude against which the BLAS/sequential dot-product difference is judged
                scale = float(np.nansum(np.abs(np.asarray(gprev, dtype=float) * e["d"])))
                edc.append((c, scale))
                xt = np.clip(e["x0"] + c["out"][0] * e["d"], e["lb"], e["ub"])
                k = pkey(xt)
                from harness.common import hexv
                if k in rec.G and not rec.G[k].startswith("!"):
                    gprev = np.array(hexv(rec.G[k])) * self.scale_factor()
                else:
                    fd = [g for (x, f0, pts, g) in rec.FD if x == k]
                    gprev = (np.array(hexv(fd[-1])) * self.scale_factor()) if fd else np.full_like(e["d"], np.inf)
        # the line-search constants the model hands to the stepper (`dcNew … ftolLS gtolLS xtolLS …`) against those
        # the implementation constructs DCSRCH with
        want = tuple(float(self.kwargs.get(k, d)) for k, d in (("ftol_linesearch", 1e-3), ("gtol_linesearch", 0.9), ("xtol_linesearch", 1e-1)))
        for e in rec.ls:
            if "tols" in e and tuple(e["tols"]) != want:
                diffs.append(f"line-search constants handed to DCSRCH: impl (ftol, gtol, xtol) = {tuple(e['tols'])}, model {want}")
                break
        if len(dc) != len(edc):
            diffs.append(f"dcsrch calls: impl {len(edc)} model {len(dc)}")
        from harness.common import hexf
        for l, (c, scale) in zip(dc, edc):
            _, _, stp, f, g, task = l.split(" ")
            istp, if_, ig, itask = c["in"]
            if f != fhex(if_) or task != task_class(itask):
                diffs.append(f"dcsrch input f/task differ: impl {fhex(if_)} {itask} model {f} {task}")
                break
            if not close(hexf(stp), istp) or not (close(hexf(g), ig, 1e-9) or abs(hexf(g) - ig) <= 1e-10 * scale):
                diffs.append(f"dcsrch input stp/g differ: impl {istp} {ig} model {hexf(stp)} {hexf(g)} (scale {scale})")
                break
        return diffs


def close(a: float, b: float, rtol: float = 1e-9) -> bool:
    if a == b:
        return True
    if not (math.isfinite(a) and math.isfinite(b)):
        return False
    return abs(a - b) <= rtol * max(abs(a), abs(b)) + 1e-300


def task_class(t: bytes) -> str:
    if t[:5] == b"START":
        return "START"
    if t[:2] == b"FG":
        return "FG"
    if t[:4] == b"CONV":
        return "CONV"
    if t[:4] == b"WARN":
        return "WARN"
    return "ERROR"


def result_str(r) -> str:
    sk = np.atleast_2d(r.hess_inv.sk)
    yk = np.atleast_2d(r.hess_inv.yk)
    if sk.size == 0:
        sk, yk = [], []
    return (f"{vhex(r.x)} {fhex(r.fun)} {vhex(np.atleast_1d(r.jac))} {int(r.nfev)} {int(r.njev)} {int(r.nit)} "
            f"{int(r.status)} {MSG_CODE.get(r.message, 99)} {1 if r.success else 0} {vshex(sk)} {vshex(yk)}")
