"""Generators shared by the correspondence checks and the searches. Every random choice is
derived from one integer seed, so a case is replayed from (family, seed, overrides)."""
from __future__ import annotations

import math
import random
from typing import Any, Callable, Dict, List, Optional, Tuple

import numpy as np

CONVEX = ["qp", "qp_quartic", "qp_softplus"]
NONCONVEX = ["rosen", "osc", "styb", "badscale", "bench"]
BOXKINDS = ["none", "both", "lower", "upper", "mixed", "degenerate"]


class Problem:
    def __init__(self, name, n, fun, grad, lb, ub, x0, convex, L=None, desc=None):
        self.name, self.n, self.fun, self.grad = name, n, fun, grad
        self.lb, self.ub, self.x0 = lb, ub, x0
        self.convex, self.L = convex, L
        self.desc = desc or {}

    @property
    def bounds(self):
        return np.array([self.lb, self.ub]).T

    def pg(self, x) -> float:
        """projected-gradient norm recomputed from the caller's own closures"""
        g = self.grad(np.asarray(x, dtype=float))
        return float(np.max(np.abs(np.clip(x - g, self.lb, self.ub) - x)))


def _spd(rng: np.random.Generator, n: int, cond: float):
    Q, _ = np.linalg.qr(rng.standard_normal((n, n)))
    if n == 1:
        ev = np.array([1.0])
    else:
        ev = np.exp(np.linspace(0.0, math.log(cond), n))
        ev = ev / ev[0]
    A = (Q * ev) @ Q.T
    A = 0.5 * (A + A.T)
    return A, float(ev[-1])


def make_objective(family: str, n: int, rng: np.random.Generator):
    """returns fun, grad, convex, L(largest curvature bound or None)"""
    if family in ("qp", "qp_quartic", "qp_softplus", "badscale"):
        cond = 10 ** rng.uniform(0, 4)
        A, L = _spd(rng, n, cond)
        if family == "badscale":
            sc = 10 ** rng.uniform(-3, 3, n)
            A = A * np.outer(sc, sc)
            L = float(np.linalg.eigvalsh(A)[-1])
        b = rng.standard_normal(n) * 3
        a = rng.uniform(-1, 1, n)
        if family in ("qp", "badscale"):
            def fun(x): return float(0.5 * x @ (A @ x) - b @ x)
            def grad(x): return A @ x - b
        elif family == "qp_quartic":
            c = 10 ** rng.uniform(-2, 0)
            def fun(x): return float(0.5 * x @ (A @ x) - b @ x + c * np.sum((x - a) ** 4))
            def grad(x): return A @ x - b + 4 * c * (x - a) ** 3
            L = None
        else:
            def fun(x): return float(0.5 * x @ (A @ x) - b @ x + np.sum(np.logaddexp(0.0, x - a)))
            def grad(x): return A @ x - b + 1.0 / (1.0 + np.exp(-(x - a)))
            L = L + 0.25
        return fun, grad, True, L
    if family == "rosen":
        from lbfgsb.benchmarks import rosenbrock, rosenbrock_grad
        return (lambda x: float(rosenbrock(x))), rosenbrock_grad, False, None
    if family == "osc":
        w = rng.uniform(1.0, 4.0)
        def fun(x): return float(np.sum(x ** 2) + 3.0 * np.sum(np.sin(w * x) ** 2))
        def grad(x): return 2 * x + 3.0 * w * np.sin(2 * w * x)
        return fun, grad, False, None
    if family == "styb":
        from lbfgsb.benchmarks import styblinski_tang, styblinski_tang_grad
        return (lambda x: float(styblinski_tang(x))), styblinski_tang_grad, False, None
    if family == "bench":
        import lbfgsb.benchmarks as B
        name = ["ackley", "beale", "griewank", "quartic", "rastrigin", "rosenbrock", "sphere",
                "styblinski_tang"][int(rng.integers(0, 8))]
        f, g = getattr(B, name), getattr(B, name + "_grad")
        return (lambda x: float(f(x))), (lambda x: np.asarray(g(x), dtype=float)), name in ("sphere", "quartic"), None
    raise ValueError(family)


NONREP = [0.1, 1.0 / 3.0, 0.7, 1.1, 2.0 / 3.0, 0.3]


def make_box(kind: str, n: int, rng: np.random.Generator):
    lb = np.full(n, -np.inf)
    ub = np.full(n, np.inf)
    for i in range(n):
        k = kind
        if kind == "mixed":
            k = ["none", "both", "lower", "upper", "degenerate"][int(rng.integers(0, 5))]
        lo = -float(rng.choice(NONREP)) * float(rng.integers(1, 4)) if rng.random() < 0.5 else float(rng.uniform(-3, 0))
        hi = float(rng.choice(NONREP)) * float(rng.integers(1, 4)) if rng.random() < 0.5 else float(rng.uniform(0, 3))
        if k in ("both", "lower"):
            lb[i] = lo
        if k in ("both", "upper"):
            ub[i] = hi
        if k == "degenerate":
            lb[i] = ub[i] = lo if rng.random() < 0.5 else hi
    return lb, ub


def make_start(lb, ub, rng: np.random.Generator, where: str):
    n = lb.size
    x = np.zeros(n)
    for i in range(n):
        lo = lb[i] if np.isfinite(lb[i]) else -3.0
        hi = ub[i] if np.isfinite(ub[i]) else 3.0
        lo, hi = min(lo, hi), max(lo, hi)
        w = where
        if where == "face":
            w = "vertex" if rng.random() < 0.4 else "interior"
        if w == "vertex":
            cands = [b for b in (lb[i], ub[i]) if np.isfinite(b)]
            x[i] = float(rng.choice(cands)) if cands else float(rng.uniform(lo, hi))
        else:
            x[i] = float(rng.uniform(lo, hi))
    return np.clip(x, lb, ub)


def make_problem(seed: int, family: Optional[str] = None, n: Optional[int] = None,
                 box: Optional[str] = None, start: Optional[str] = None,
                 families: Optional[List[str]] = None) -> Problem:
    rng = np.random.default_rng(seed)
    fams = families or (CONVEX + NONCONVEX)
    family = family or fams[int(rng.integers(0, len(fams)))]
    nmin = 2 if family in ("rosen", "bench") else 1
    n = n or int(rng.integers(nmin, 13))
    box = box or BOXKINDS[int(rng.integers(0, len(BOXKINDS)))]
    start = start or ["interior", "face", "vertex"][int(rng.integers(0, 3))]
    fun, grad, convex, L = make_objective(family, n, rng)
    lb, ub = make_box(box, n, rng)
    x0 = make_start(lb, ub, rng, start)
    return Problem(f"{family}/n={n}/{box}/{start}", n, fun, grad, lb, ub, x0, convex, L,
                   {"seed": seed, "family": family, "n": n, "box": box, "start": start})


def make_config(seed: int, small_budgets: bool = False) -> Dict[str, Any]:
    """solver configuration drawn over the lattice of C04"""
    r = random.Random(seed * 7919 + 13)
    cfg: Dict[str, Any] = {
        "maxcor": r.choice([1, 2, 3, 5, 7, 10]),
        "maxls": r.choice([1, 2, 3, 5, 10, 20]),
        "maxiter": r.choice([0, 1, 2, 3, 5, 8, 15, 30, 60]),
        "maxfun": r.choice([1, 2, 3, 5, 8, 15, 40, 200, 15000]),
        "ftol": r.choice([0.0, 1e-12, 1e-5, 1e-2]),
        "gtol": r.choice([0.0, 1e-8, 1e-5, 1e-2, 1.0]),
    }
    if not small_budgets:
        cfg["maxiter"] = r.choice([5, 15, 30, 60])
        cfg["maxfun"] = r.choice([40, 200, 15000])
    return cfg
