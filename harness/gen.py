"""Generators shared by the correspondence checks and the searches. Every random choice is
derived from one integer seed, so a case is replayed from (family, seed, overrides)."""
from __future__ import annotations

import math
import random
from typing import Any, Callable, Dict, List, Optional, Tuple

import numpy as np

CONVEX = ["qp", "qp_quartic", "qp_softplus"]
NONCONVEX = ["rosen", "osc", "styb", "badscale", "bench", "steep"]
BOXKINDS = ["none", "both", "lower", "upper", "mixed", "degenerate"]


class Problem:
    def __init__(self, name, n, fun, grad, lb, ub, x0, convex, L=None, desc=None):
        self.name, self.n, self.fun, self.grad = name, n, fun, grad
        self.lb, self.ub, self.x0 = lb, ub, x0
        self.convex, self.L = convex, L
        self.desc = desc or {}

    @property
    def bounds(self):
        return np.array([self.lb, self.ub]).T

    def pg(self, x) -> float:
        """projected-gradient norm recomputed from the caller's own closures"""
        g = self.grad(np.asarray(x, dtype=float))
        return float(np.max(np.abs(np.clip(x - g, self.lb, self.ub) - x)))


def _sc(v):
    """python float for real values, complex passes through (complex-step differentiation)"""
    return np.complex128(v) if np.iscomplexobj(v) else float(v)


def _softplus(z):
    if np.iscomplexobj(z):
        return np.log1p(np.exp(-np.abs(z.real)) * np.exp(1j * np.where(z.real > 0, -z.imag, z.imag))) + np.where(z.real > 0, z, 0)
    return np.logaddexp(0.0, z)


def _spd(rng: np.random.Generator, n: int, cond: float):
    Q, _ = np.linalg.qr(rng.standard_normal((n, n)))
    if n == 1:
        ev = np.array([1.0])
    else:
        ev = np.exp(np.linspace(0.0, math.log(cond), n))
        ev = ev / ev[0]
    A = (Q * ev) @ Q.T
    A = 0.5 * (A + A.T)
    return A, float(ev[-1])


def make_objective(family: str, n: int, rng: np.random.Generator):
    """returns fun, grad, convex, L(largest curvature bound or None)"""
    if family in ("qp", "qp_quartic", "qp_softplus", "badscale"):
        cond = 10 ** rng.uniform(0, 4)
        A, L = _spd(rng, n, cond)
        if family == "badscale":
            sc = 10 ** rng.uniform(-3, 3, n)
            A = A * np.outer(sc, sc)
            L = float(np.linalg.eigvalsh(A)[-1])
        b = rng.standard_normal(n) * 3
        a = rng.uniform(-1, 1, n)
        if family in ("qp", "badscale"):
            def fun(x): return _sc(0.5 * x @ (A @ x) - b @ x)
            def grad(x): return A @ x - b
        elif family == "qp_quartic":
            c = 10 ** rng.uniform(-2, 0)
            def fun(x): return _sc(0.5 * x @ (A @ x) - b @ x + c * np.sum((x - a) ** 4))
            def grad(x): return A @ x - b + 4 * c * (x - a) ** 3
            L = None
        else:
            def fun(x): return _sc(0.5 * x @ (A @ x) - b @ x + np.sum(_softplus(x - a)))
            def grad(x): return A @ x - b + 1.0 / (1.0 + np.exp(-(x - a)))
            L = L + 0.25
        return fun, grad, True, L
    if family == "decay":
        # a well-conditioned convex quadratic minimised at the origin, meant to be started far away: the iterates and gradients shrink
        # by many orders of magnitude within a few iterations (what a stored history must survive when it is rebuilt by subtraction)
        A, L = _spd(rng, n, 10 ** rng.uniform(0, 1.5))
        def fun(x): return _sc(0.5 * x @ (A @ x))
        def grad(x): return A @ x
        return fun, grad, True, L
    if family == "smooth_l1":
        # a convex quadratic plus a smoothed l1 term lam * sum sqrt(x_i^2 + mu^2) with a tiny mu: a sharp valley along every axis, on
        # which line searches bracket the minimiser long before the strong Wolfe conditions hold (the stepper's interval tests decide)
        A, L = _spd(rng, n, 10 ** rng.uniform(0, 2))
        b = rng.standard_normal(n) * 3
        lam = float(10 ** rng.uniform(-0.5, 1.0))
        mu = float(10 ** rng.uniform(-8, -5))
        def fun(x): return _sc(0.5 * x @ (A @ x) - b @ x + lam * np.sum(np.sqrt(x * x + mu * mu)))
        def grad(x): return A @ x - b + lam * x / np.sqrt(x * x + mu * mu)
        return fun, grad, True, None
    if family == "rosen":
        from lbfgsb.benchmarks import rosenbrock, rosenbrock_grad
        return (lambda x: _sc(rosenbrock(x))), rosenbrock_grad, False, None
    if family == "osc":
        w = rng.uniform(1.0, 4.0)
        def fun(x): return _sc(np.sum(x ** 2) + 3.0 * np.sum(np.sin(w * x) ** 2))
        def grad(x): return 2 * x + 3.0 * w * np.sin(2 * w * x)
        return fun, grad, False, None
    if family == "steep":
        # steep growth, badly scaled: first line-search trials overshoot uphill
        w = 10 ** rng.uniform(0, 2, n)
        sh = rng.uniform(-0.5, 0.5, n)
        def fun(x): return _sc(np.sum(np.cosh(w * (x - sh))))
        def grad(x): return w * np.sinh(w * (x - sh))
        return fun, grad, True, None
    if family == "styb":
        from lbfgsb.benchmarks import styblinski_tang, styblinski_tang_grad
        return (lambda x: _sc(styblinski_tang(x))), styblinski_tang_grad, False, None
    if family == "bench":
        import lbfgsb.benchmarks as B
        name = ["ackley", "beale", "griewank", "quartic", "rastrigin", "rosenbrock", "sphere",
                "styblinski_tang"][int(rng.integers(0, 8))]
        f, g = getattr(B, name), getattr(B, name + "_grad")
        return (lambda x: _sc(f(x))), (lambda x: np.asarray(g(x), dtype=float)), name in ("sphere", "quartic"), None
    raise ValueError(family)


NONREP = [0.1, 1.0 / 3.0, 0.7, 1.1, 2.0 / 3.0, 0.3]


def make_box(kind: str, n: int, rng: np.random.Generator):
    lb = np.full(n, -np.inf)
    ub = np.full(n, np.inf)
    for i in range(n):
        k = kind
        if kind == "mixed":
            k = ["none", "both", "lower", "upper", "degenerate"][int(rng.integers(0, 5))]
        lo = -float(rng.choice(NONREP)) * float(rng.integers(1, 4)) if rng.random() < 0.5 else float(rng.uniform(-3, 0))
        hi = float(rng.choice(NONREP)) * float(rng.integers(1, 4)) if rng.random() < 0.5 else float(rng.uniform(0, 3))
        if k in ("both", "lower"):
            lb[i] = lo
        if k in ("both", "upper"):
            ub[i] = hi
        if k == "degenerate":
            lb[i] = ub[i] = lo if rng.random() < 0.5 else hi
    return lb, ub


def make_start(lb, ub, rng: np.random.Generator, where: str):
    n = lb.size
    x = np.zeros(n)
    for i in range(n):
        lo = lb[i] if np.isfinite(lb[i]) else -3.0
        hi = ub[i] if np.isfinite(ub[i]) else 3.0
        lo, hi = min(lo, hi), max(lo, hi)
        w = where
        if where == "face":
            w = "vertex" if rng.random() < 0.4 else "interior"
        if w == "vertex":
            cands = [b for b in (lb[i], ub[i]) if np.isfinite(b)]
            x[i] = float(rng.choice(cands)) if cands else float(rng.uniform(lo, hi))
        else:
            x[i] = float(rng.uniform(lo, hi))
    return np.clip(x, lb, ub)


# seeds of the cosmix family on which an iteration whose pair fails the curvature test is immediately followed by a line search that finds
# no decrease while the memory holds pairs (memory reset): about one run in 3000; found by searching 30 000 seeds
RESET_CORPUS = [2395, 8095, 8982, 13248, 14512, 15086, 18239, 24406, 25901, 29073]


def reset_corpus_cases(monitors, extra_seeds=()):
    """scenario cases (shellprops format) on the corpus and on fresh seeds of the family"""
    out = []
    for cs in list(RESET_CORPUS) + list(extra_seeds):
        out.append({"seed": cs, "monitors": monitors, "families": ["cosmix"], "small_budgets": False,
                    "features": {"jac": "callable", "callback": "false", "ftarget": "none", "gtol_callable": False, "scaler": "none", "update": "none",
                                 "mutating_user": False, "bounds_spelling": "array"},
                    "override": {"maxcor": 5, "maxls": cosmix_problem(cs)[1], "maxiter": 60, "maxfun": 15000, "ftol": 1e-5, "gtol": 1e-5}})
    return out


def cosmix_problem(seed: int):
    """small non-convex problems (sum of cosines of linear forms plus a weak quadratic, in a box) on which short line searches fail now
    and then; returns the problem and the number of trials per search drawn with it. A corpus of seeds on which a rejected pair is
    immediately followed by a failed line search and a memory reset is kept in harness/props/c18.py."""
    rng = np.random.default_rng(seed)
    n = int(rng.integers(2, 5))
    A = rng.normal(size=(n, n))
    w = rng.uniform(0.5, 3, size=n)
    c = rng.normal(size=n)

    def fun(x):
        z = A @ x
        return _sc(np.sum(np.cos(w * z)) + 0.05 * np.sum((x - c) ** 2))

    def grad(x):
        z = A @ x
        return A.T @ (-w * np.sin(w * z)) + 0.1 * (x - c)
    lb = -rng.uniform(0.5, 2, size=n)
    ub = rng.uniform(0.5, 2, size=n)
    x0 = rng.uniform(lb, ub)
    maxls = int(rng.integers(1, 4))
    return Problem(f"cosmix/n={n}/both/interior", n, fun, grad, lb, ub, x0, False, None,
                   {"seed": seed, "family": "cosmix", "n": n, "box": "both", "start": "interior"}), maxls


def make_problem(seed: int, family: Optional[str] = None, n: Optional[int] = None,
                 box: Optional[str] = None, start: Optional[str] = None,
                 families: Optional[List[str]] = None, zero_bounds: bool = False) -> Problem:
    if families == ["cosmix"]:
        return cosmix_problem(seed)[0]
    rng = np.random.default_rng(seed)
    fams = families or (CONVEX + NONCONVEX)
    family = family or fams[int(rng.integers(0, len(fams)))]
    nmin = 2 if family in ("rosen", "bench") else 1
    n = n or int(rng.integers(nmin, 13))
    box = box or BOXKINDS[int(rng.integers(0, len(BOXKINDS)))]
    start = start or ["interior", "face", "vertex"][int(rng.integers(0, 3))]
    nan_edge = family == "nan_edge"
    if nan_edge:
        # an objective that is NaN on part of the box (the square root / logarithm of a quantity that goes negative there): a smooth
        # base objective, NaN wherever its value is below a level somewhat under the start value — the descent runs into the edge of the
        # domain, trial points beyond it evaluate to NaN
        fun0, grad, convex, L = make_objective(["qp", "osc", "qp_quartic"][int(rng.integers(0, 3))], n, rng)
        convex, L = False, None
    else:
        fun, grad, convex, L = make_objective(family, n, rng)
    lb, ub = make_box(box, n, rng)
    if zero_bounds:
        # bounds that are exactly zero (a value with special status in many "truthiness" shortcuts), from a generator of their
        # own so that the other draws are the same with and without them
        zr = np.random.default_rng(seed * 7919 + 13)
        for i in range(n):
            if zr.random() < 0.25:
                if np.isfinite(lb[i]) and np.isfinite(ub[i]) and lb[i] == ub[i]:
                    lb[i] = ub[i] = 0.0
                elif np.isfinite(lb[i]) and zr.random() < 0.6:
                    lb[i] = 0.0
                elif np.isfinite(ub[i]):
                    ub[i] = 0.0
    x0 = make_start(lb, ub, rng, start)
    if family == "decay":
        lb, ub = np.full(n, -np.inf), np.full(n, np.inf)
        x0 = rng.standard_normal(n) * 10 ** rng.uniform(3, 6)
    if nan_edge:
        f_start = float(fun0(np.clip(x0, lb, ub)))
        level = f_start - float(rng.uniform(0.05, 0.6)) * (1.0 + abs(f_start))

        def fun(x, _f=fun0, _lv=level):
            v = _f(x)
            return v if np.real(v) >= _lv else float("nan")
    return Problem(f"{family}/n={n}/{box}/{start}", n, fun, grad, lb, ub, x0, convex, L,
                   {"seed": seed, "family": family, "n": n, "box": box, "start": start})


def make_config(seed: int, small_budgets: bool = False) -> Dict[str, Any]:
    """solver configuration drawn over the lattice of C04"""
    r = random.Random(seed * 7919 + 13)
    cfg: Dict[str, Any] = {
        "maxcor": r.choice([1, 2, 3, 5, 7, 10]),
        "maxls": r.choice([1, 2, 3, 5, 10, 20]),
        "maxiter": r.choice([0, 1, 2, 3, 5, 8, 15, 30, 60]),
        "maxfun": r.choice([1, 2, 3, 5, 8, 15, 40, 200, 15000]),
        "ftol": r.choice([0.0, 1e-12, 1e-5, 1e-2]),
        "gtol": r.choice([0.0, 1e-8, 1e-5, 1e-2, 1.0]),
    }
    if not small_budgets:
        cfg["maxiter"] = r.choice([5, 15, 30, 60])
        cfg["maxfun"] = r.choice([40, 200, 15000])
    return cfg


# ----------------------------------------------------------------------------- scenarios
def upd_identity(x, f0, f0_old, grad, X, G):
    return f0, f0_old, grad, G


def make_switching(kind: str, p: "Problem", seed: int, switch_at: int, trigger_pg: Optional[float] = None):
    """objective redefined on the fly, consistently: the user's fun/jac and the update function
    share one state. Before the switch the objective is F, after it F' = scale*F ("rescale") or
    F + (w/2)|x|^2 ("reweight"). The update function is invoked once before the loop (call 0)
    and once per accepted step; at call number `switch_at` it switches the objective and
    rewrites f0, f0_old, grad and the stored gradients for the new objective. With `trigger_pg` (continuation / homotopy style) the
    switch happens instead at the first call after the start at which the projected gradient of the current objective is at most
    `trigger_pg`: the stage has converged, the next one begins.
    Returns fun, jac, update, newfun, newjac, state."""
    r = random.Random(seed)
    w_new = r.choice([0.5, 2.0, 10.0])
    scale = r.choice([0.25, 3.0])
    st = {"calls": 0, "on": False}
    F, Gr = p.fun, p.grad
    # "indef": the new objective is a quadratic with negative curvature in one direction, so
    # that the rewritten gradients break the curvature condition for a subset of the pairs
    rng = np.random.default_rng(seed + 77)
    Q, _ = np.linalg.qr(rng.standard_normal((p.n, p.n)))
    ev = rng.uniform(0.5, 3.0, p.n)
    ev[int(rng.integers(0, p.n))] *= -1.0
    Aind = (Q * ev) @ Q.T
    Aind = 0.5 * (Aind + Aind.T)
    bind = rng.standard_normal(p.n)

    def newfun(x):
        if kind == "indef":
            return float(0.5 * x @ (Aind @ x) - bind @ x)
        return F(x) * scale if kind == "rescale" else F(x) + 0.5 * w_new * float(np.dot(x, x))

    def newjac(x):
        if kind == "indef":
            return Aind @ x - bind
        g = np.atleast_1d(Gr(x))
        return g * scale if kind == "rescale" else g + w_new * x

    def fun(x):
        return newfun(x) if st["on"] else F(x)

    def jac(x):
        return newjac(x) if st["on"] else Gr(x)

    # half of the update functions rewrite the deque they were handed, entry by entry, and return that very
    # object (a legitimate style: "rewrites the stored gradients"), the others return a fresh deque
    _style = random.Random(seed * 31 + 5).random()
    inplace = _style < 0.5
    mutate_arrays = _style < 0.25      # ... half of those write into the stored arrays themselves (gi += ..., same objects, same deque)

    def _ret(G, Gn):
        if not inplace:
            return Gn
        for i, gi in enumerate(Gn):
            if mutate_arrays and isinstance(G[i], np.ndarray) and G[i].flags.writeable and G[i].shape == np.shape(gi):
                G[i][...] = gi
            else:
                G[i] = gi
        return G

    def upd(x, f0, f0_old, grad, X, G):
        from collections import deque
        k = st["calls"]
        st["calls"] += 1
        if trigger_pg is not None:
            xx_ = np.asarray(x, dtype=float)
            pg_ = float(np.max(np.abs(np.clip(xx_ - np.atleast_1d(Gr(xx_.copy())), p.lb, p.ub) - xx_)))
            if st["on"] or k == 0 or not pg_ <= trigger_pg:
                return f0, f0_old, grad, G
        elif k != switch_at:
            return f0, f0_old, grad, G
        st["on"] = True
        if kind == "rescale":
            return f0 * scale, f0_old * scale, grad * scale, _ret(G, deque([g * scale for g in G]))
        xprev = X[-1] if len(X) else x
        if kind == "indef":
            return newfun(x), newfun(xprev), newjac(x), _ret(G, deque([newjac(xx) for xx in X]))
        return (f0 + 0.5 * w_new * float(np.dot(x, x)), f0_old + 0.5 * w_new * float(np.dot(xprev, xprev)),
                grad + w_new * x, _ret(G, deque([g + w_new * xx for g, xx in zip(G, X)])))
    return fun, jac, upd, newfun, newjac, st


def make_update(kind: str, seed: int, switch_at: int):
    """update functions for C13: the objective is  f + w * reg  with reg = 0.5|x|^2; the
    weight changes once, at call number `switch_at` (0 = the initial call)."""
    state = {"calls": 0, "w": 0.0}
    r = random.Random(seed)
    w_new = r.choice([0.5, 2.0, 10.0])
    scale = r.choice([0.25, 3.0])

    _style = random.Random(seed * 31 + 5).random()
    inplace = _style < 0.5
    mutate_arrays = _style < 0.25

    def _ret(G, Gn):
        # in place: the deque handed in is rewritten entry by entry (or the stored arrays themselves are overwritten) and returned itself
        if not inplace:
            return Gn
        for i, gi in enumerate(Gn):
            if mutate_arrays and isinstance(G[i], np.ndarray) and G[i].flags.writeable and G[i].shape == np.shape(gi):
                G[i][...] = gi
            else:
                G[i] = gi
        return G

    def upd(x, f0, f0_old, grad, X, G):
        from collections import deque
        k = state["calls"]
        state["calls"] += 1
        if kind == "identity" or k != switch_at:
            return f0, f0_old, grad, G
        if kind == "rescale":
            return f0 * scale, f0_old * scale, grad * scale, _ret(G, deque([g * scale for g in G]))
        if kind == "reweight":
            Gn = deque([g + w_new * xx for g, xx in zip(G, X)])
            gradn = grad + w_new * x
            return f0 + 0.5 * w_new * float(x @ x), f0_old, gradn, _ret(G, Gn)
        if kind == "break":
            # arbitrary rewrite that breaks curvature for a subset of pairs
            Gn = deque([(-g if (i % 2 == 0) else g) for i, g in enumerate(G)])
            return f0, f0_old, grad, _ret(G, Gn)
        raise ValueError(kind)
    return upd


def scenario(seed: int, features: Optional[Dict[str, Any]] = None, families=None,
             small_budgets=None, n=None, box=None, zero_bounds=False) -> Tuple[Dict[str, Any], Dict[str, Any], Problem]:
    """kwargs for minimize_lbfgsb + a JSON-able description. `features` forces options;
    otherwise they are drawn from the seed."""
    r = random.Random(seed * 104729 + 7)
    feat = dict(features or {})
    p = make_problem(seed, families=families, n=n, box=box, zero_bounds=bool(zero_bounds))
    sb = (r.random() < 0.35) if small_budgets is None else small_budgets
    cfg = make_config(seed, small_budgets=sb)
    kw: Dict[str, Any] = dict(x0=p.x0.copy(), fun=p.fun, jac=p.grad, bounds=p.bounds, **cfg)
    # the box as a list of (lower, upper) pairs with None for an absent side — the documented spelling — instead of an array with
    # infinities (a quarter of the runs; drawn from a generator of its own so that the other draws do not move)
    sp = feat.get("bounds_spelling")
    if sp is None:
        sp = "pairs" if random.Random(seed * 15485863 + 11).random() < 0.25 else "array"
    if sp == "pairs":
        kw["bounds"] = [(float(l) if np.isfinite(l) else None, float(u) if np.isfinite(u) else None) for l, u in zip(p.lb, p.ub)]
    feat["bounds_spelling"] = sp
    xdt = feat.get("x0_dtype")
    if xdt in ("float32", "float16"):
        # a start given in reduced precision (moved inside the box where the rounding put it outside: the package refuses a start
        # outside the box); the problem's start is the value of that array in double precision
        dt = np.float32 if xdt == "float32" else np.float16
        xl = p.x0.astype(dt)
        for i in range(xl.size):
            for _ in range(4):
                if float(xl[i]) < p.lb[i]:
                    xl[i] = np.nextafter(xl[i], dt(np.inf))
                elif float(xl[i]) > p.ub[i]:
                    xl[i] = np.nextafter(xl[i], dt(-np.inf))
        if bool((xl.astype(float) >= p.lb).all() and (xl.astype(float) <= p.ub).all()) and bool(np.isfinite(xl.astype(float)).all()):
            p.x0 = xl.astype(float)
            kw["x0"] = xl
    mode = feat.get("jac", "callable")
    if mode != "callable":
        kw["jac"] = None if mode == "none" else mode
    cb = feat.get("callback", r.choice(["none", "none", "false", "stop"]))
    if cb == "false":
        kw["callback"] = lambda xk, st: False
    elif cb == "stop":
        k = feat.get("cb_stop_at", r.randint(1, 6))
        kw["callback"] = lambda xk, st, k=k: st.nit >= k
    ft = feat.get("ftarget", r.choice(["none", "none", "float", "callable"]))
    if ft != "none":
        # a target between f(x0) and a rough lower value so that it sometimes fires
        f0 = p.fun(np.clip(p.x0, p.lb, p.ub))
        tv = f0 - abs(f0) * r.choice([0.0, 0.1, 0.5, 2.0]) - r.choice([0.0, 1.0])
        if ft in ("int", "callable_int"):
            # an integer target (a legitimate number): floor of the float target, never zero
            tv = int(np.floor(tv)) or -1
        kw["ftarget"] = tv if ft in ("float", "int") else (lambda tv=tv: tv)
    if feat.get("gtol_callable", r.random() < 0.2):
        gv = kw["gtol"]
        kw["gtol"] = lambda gv=gv: gv
    sc = feat.get("scaler", "none")
    if sc == "const":
        s = feat.get("s", 10 ** r.uniform(-3, 3))
        # the factor in the type the user's scaler happens to compute it in (feature "s_type"): a Python float (default), a Python
        # int, numpy integer / float32 scalars, a 0-d array — all legitimate positive numbers
        st_ = feat.get("s_type", "float")
        sv = {"float": float, "int": int, "np.int64": np.int64, "np.float32": np.float32, "np.float64": np.float64,
              "0-d array": lambda v: np.array(float(v))}[st_](s)
        kw["gradient_scaler"] = lambda x, g, lb, ub, s=sv: s
    elif sc == "packaged":
        from lbfgsb.utils import get_gradient_projection_unit_scaling
        kw["gradient_scaler"] = get_gradient_projection_unit_scaling
    up = feat.get("update", "none")
    if up in ("rescale", "reweight", "indef") and feat.get("consistent"):
        sw = feat.get("switch_at", r.randint(0, 5))
        fun2, jac2, upd2, newfun, newjac, swst = make_switching(up, p, seed, sw, trigger_pg=feat.get("trigger_pg"))
        kw["fun"], kw["jac"], kw["update_fun_def"] = fun2, jac2, upd2
        p.switch = {"newfun": newfun, "newjac": newjac, "state": swst, "switch_at": sw}
    elif up == "identity":
        kw["update_fun_def"] = upd_identity
    elif up != "none":
        kw["update_fun_def"] = make_update(up, seed, feat.get("switch_at", r.randint(0, 5)))
    # --- user-code styles and irrelevant parameters (drawn from a separate stream so that the
    # choices above are those of earlier versions of the generator)
    r2 = random.Random(seed * 31 + 5)
    # (a) a share of the callable gradients fill ONE preallocated work array and return it at
    # every call (in-place / out= style): the package must not keep a reference to what it got
    rb = feat.get("reuse_grad_buffer")
    if rb is None:
        rb = r2.random() < 0.3
    if rb and callable(kw.get("jac")):
        inner, buf = kw["jac"], np.empty(p.n)

        def jac_buf(x, *a, _inner=inner, _buf=buf):
            _buf[:] = np.atleast_1d(_inner(x, *a))
            return _buf
        kw["jac"] = jac_buf
    else:
        rb = False
    # (b) `eps` and `finite_diff_rel_step` only parametrise finite differences: with a callable
    # gradient any value must leave the run unchanged
    ie = feat.get("irrelevant_eps")
    if ie is None:
        ie = r2.random() < 0.3
    if ie and mode == "callable":
        kw["eps"] = r2.choice([1e-3, 1.0, 1e-12, 0.1])
        kw["finite_diff_rel_step"] = r2.choice([None, 1e-2, 0.5])
    else:
        ie = False
    # (c) user functions that work IN PLACE on the array they are handed (a simulator that shifts / rescales its argument, or
    # writes it into the very buffer the caller passed as x0) and still return the right value: whatever the package hands to
    # user code must be a private copy. (Drawn last, from the same separate stream.)
    mu = feat.get("mutating_user")
    if mu is None:
        mu = r2.random() < 0.2
    if mu and up == "none":
        from harness import trace as _trace

        def _scribble(x):
            try:
                if isinstance(x, np.ndarray) and x.dtype == np.float64 and x.flags.writeable:
                    # the start array the package was handed in this run (a private copy made by the recorder, so that the
                    # harness's own record of the start stays what it was)
                    x0buf = getattr(_trace._tls, "x0_passed", None)
                    if isinstance(x0buf, np.ndarray) and x0buf.dtype == np.float64 and x0buf.shape == x.shape and x0buf.flags.writeable:
                        x0buf[:] = x
                    x -= 0.75
                    x *= 3.0
            except (ValueError, TypeError):
                pass
        inner_f = kw["fun"]

        def fun_mut(x, *a, _inner=inner_f):
            v = _inner(x, *a)
            _scribble(x)
            return v
        kw["fun"] = fun_mut
        _trace.PRIVATE_X0[id(fun_mut)] = fun_mut
        if callable(kw.get("jac")):
            inner_g = kw["jac"]

            def jac_mut(x, *a, _inner=inner_g):
                gv = np.array(np.atleast_1d(_inner(x, *a)), dtype=float, copy=True) if not rb else _inner(x, *a)
                _scribble(x)
                return gv
            kw["jac"] = jac_mut
    else:
        mu = False
    # (d) an objective that itself runs another (small, bounded, finite-difference) optimisation at every call — a value function of a
    # bilevel problem, a polishing step — and returns the right value: nothing a run needs may live outside the run
    ni = bool(feat.get("nested_inner", False))
    if ni and up == "none":
        from harness import trace as _trace2
        inner_f2 = kw["fun"]
        other = "3-point" if mode == "2-point" else "2-point"

        def fun_nested(x, *a, _inner=inner_f2):
            saved = getattr(_trace2._tls, "rec", None)
            _trace2._tls.rec = None          # the inner run is not part of the recorded run
            try:
                from lbfgsb import minimize_lbfgsb as _m
                # (same dimension as the outer problem, a much wider box)
                nn = int(np.size(x))
                _m(x0=np.full(nn, 0.25), fun=lambda z: float(np.sum((z - 0.5) ** 2 * (1.0 + np.arange(z.size)))), jac=other,
                   bounds=[(-50.0, 50.0)] * nn, maxiter=2, maxcor=2)
            finally:
                _trace2._tls.rec = saved
            return _inner(x, *a)
        kw["fun"] = fun_nested
        if id(inner_f2) in _trace2.PRIVATE_X0:
            _trace2.PRIVATE_X0[id(fun_nested)] = fun_nested
    else:
        ni = False
    desc = {"seed": seed, "problem": p.desc, "cfg": cfg,
            "features": {"jac": mode, "callback": cb, "ftarget": ft, "scaler": sc, "update": up,
                         "grad_buffer": bool(rb), "irrelevant_eps": bool(ie), "mutating_user": bool(mu), "nested_inner": bool(ni),
                         **{k: v for k, v in feat.items() if isinstance(v, (int, float, str))}}}
    return kw, desc, p
