"""generic parallel runner for checks whose cases are independent executions"""
from __future__ import annotations

import importlib
import json
import multiprocessing as mp
import os
import time
import traceback
import warnings
from typing import Any, Callable, Dict, List, Optional, Sequence

from harness.common import CORPUS, Report, lean_build_and_audit


def _worker(args):
    modname, case = args
    warnings.filterwarnings("ignore")
    import numpy as np
    np.seterr(all="ignore")
    try:
        mod = importlib.import_module(modname)
        out = mod.evaluate(case)
        out["case"] = case
        return out
    except Exception as e:  # machinery failure inside a case
        return {"case": case, "machinery": f"{type(e).__name__}: {e}\n{traceback.format_exc()[-1500:]}"}


def load_corpus(prop: str) -> List[Dict[str, Any]]:
    f = CORPUS / f"{prop}.jsonl"
    if not f.exists():
        return []
    return [json.loads(l) for l in f.read_text().splitlines() if l.strip()]


def run_property(prop: str, modname: str, theorems: Sequence[str], modules: Sequence[str],
                 cases: List[Dict[str, Any]], tier: str, seed: int, rule: str,
                 pre_build=None, extra_search: Optional[Callable[[], List[Dict[str, Any]]]] = None,
                 assumptions: Sequence[str] = (), finalize: Optional[Callable[[Report, List[Dict[str, Any]]], None]] = None,
                 time_budget: Optional[float] = None) -> int:
    """
    evaluate(case) (in module `modname`) returns a dict with keys
      corr:   list[str]  disagreements model vs implementation ([] = agree; None = not compared)
      skipped: str|None  reason the correspondence was skipped (tie band, ambiguous keys, kernel exception)
      prop:   list[{what, key}] property violations observed on the real code
      tags:   list[str]  distribution counters
      nontrivial: str|None  identity of the case if it is non-trivial
      sample: anything
    """
    rep = Report(prop, tier, seed)
    rep.rule = rule
    rep.assumptions = list(assumptions)
    st = lean_build_and_audit(theorems, modules, pre_build=pre_build, thorough=(tier == "thorough"))
    rep.add_lean(st, theorems)
    corpus = load_corpus(prop)
    allcases = corpus + cases
    results = []
    t0 = time.time()
    with mp.Pool(min(16, os.cpu_count() or 1)) as pool:
        for out in pool.imap_unordered(_worker, [(modname, c) for c in allcases], chunksize=4):
            results.append(out)
            if time_budget and time.time() - t0 > time_budget:
                pool.terminate()
                rep.extra["truncated_by_time_budget"] = True
                break
    ncorr = nskip = 0
    corr_bad: List[Dict[str, Any]] = []
    prop_bad: List[Dict[str, Any]] = []
    mach: List[str] = []
    for out in results:
        rep.evaluations += 1
        if "machinery" in out:
            mach.append(out["machinery"])
            continue
        for t in out.get("tags", []):
            rep.count(t)
        if out.get("nontrivial"):
            rep.nontrivial.add(out["nontrivial"])
        if out.get("sample") is not None and len(rep.samples) < 4:
            rep.samples.append(out["sample"])
        if out.get("skipped"):
            nskip += 1
            rep.count("corr_skipped:" + out["skipped"])
        elif out.get("corr") is not None:
            ncorr += 1
            if out["corr"]:
                corr_bad.append({"case": out["case"], "diffs": out["corr"][:5]})
        for v in out.get("prop", []):
            prop_bad.append({"case": out["case"], **v})
    if mach:
        rep.extra["machinery_failures"] = mach[:3]
        if len(mach) > max(2, len(results) // 50):
            rep.machinery_error = f"{len(mach)} cases failed inside the harness: {mach[0][:300]}"
    rep.extra["traces_validated_against_impl"] = ncorr
    rep.extra["correspondence_skipped"] = nskip
    if ncorr + nskip > 0 and nskip > 0.05 * (ncorr + nskip) and nskip > 5:
        rep.machinery_error = f"too many skipped correspondence cases ({nskip}/{ncorr + nskip})"
    drv_ok = st.build_ok
    rep.add_obligation("correspondence: model replay == implementation on every explored execution",
                       drv_ok and not corr_bad and ncorr > 0, f"{len(corr_bad)} disagreeing of {ncorr} compared")
    if finalize is not None:
        finalize(rep, results)
    # verdicts -----------------------------------------------------------------
    seen_keys = set()
    for pb in prop_bad:
        k = (pb["what"], pb.get("key", ""))
        if k in seen_keys and len(seen_keys) > 0:
            continue
        seen_keys.add(k)
        rep.violation(pb["what"], {"case": pb["case"], "detail": pb.get("detail")}, True, pb.get("key", ""))
    broken = (not st.ok) or bool(corr_bad)
    if broken and not any(not _is_known(prop, pb) for pb in prop_bad):
        more = extra_search() if extra_search is not None else []
        for pb in more:
            rep.violation(pb["what"], {"case": pb["case"], "detail": pb.get("detail")}, True, pb.get("key", ""))
        if not more:
            what = []
            if not st.ok:
                failed = st.failed_obligations(theorems)
                what.append("no longer checks: " + (", ".join(failed) if failed else "lean build/audit")
                            + (" forbidden:" + ";".join(st.forbidden_hits[:2]) if st.forbidden_hits else ""))
            if corr_bad:
                what.append(f"correspondence model vs implementation broken ({len(corr_bad)} executions)")
            rep.violation("; ".join(what), {"broken": what, "lean_log": st.build_log[-1500:] if not st.ok else "",
                                            "disagreement": corr_bad[:1]}, False)
    return rep.finish()


def _is_known(prop: str, pb: Dict[str, Any]) -> bool:
    from harness.common import load_known
    for k in load_known().get("known", []):
        if k["property"] == prop and k.get("key") and k["key"] == pb.get("key"):
            return True
    return False
