"""regenerates MANIFEST.json from the table below (run: /venv/bin/python -m harness.manifest_gen)"""
import json
from pathlib import Path

VERIF = Path(__file__).resolve().parent.parent

TITLES = {
    "C01": "convex box problems solved to a KKT point",
    "C02": "every point inside the box",
    "C03": "objective never increases",
    "C04": "truthful termination, budgets",
    "C05": "fun/jac belong to x; counters equal calls",
    "C06": "restart continues the run",
    "C07": "callback state is a faithful snapshot",
    "C08": "Cauchy point",
    "C09": "subspace minimisation",
    "C10": "limited-memory matrix = BFGS, SPD",
    "C11": "line search feasible, within budget, downhill",
    "C12": "iterates of Algorithm 778",
    "C13": "objective redefinition = restart",
    "C14": "deterministic, isolated, inputs untouched",
    "C15": "function wrapper never stale, counts once",
    "C16": "finite-difference modes at the bounds",
    "C17": "gradient scaler equivalence",
    "C18": "inverse-Hessian operator from genuine pairs",
    "C19": "benchmark gradients",
    "C20": "user failures surface unchanged",
}

# id -> dict(text, note, technique, design_ref)
SHELL_NOTE = ("Trusted: Lean kernel; axioms propext/Classical.choice/Quot.sound; harness + Float driver (IEEE equality of Lean's compiled Float "
              "and NumPy arithmetic, exact hex I/O). Modelled as oracles, not verified: the numerical kernels seen from the driver "
              "(get_cauchy_point+subspace_minimization = xbar), SciPy's DCSRCH stepper, SciPy's approx_derivative. Objectives finite "
              "on the box (runs in which the user's functions overflow are outside the quantifier and skipped).")
SHELL_TECH = "Lean 4 proof (loop invariants by induction on fuel, uninterpreted arithmetic) + bit-exact trace replay of the real run through the model + property monitor on the real run"

CHECKS = {
    "C02": dict(
        text="Theorem evals_in_box over Model/Shell.lean: for every user objective/gradient/callback, every kernel and stepper oracle, every "
             "configuration, every point in the call log, every callback state and the result lie in the box; fixed_never_move. No law of "
             "arithmetic is used, so rounding is covered. Bound to main.py/linesearch.py/scalar_function.py by bit-exact replay of recorded "
             "runs through the model, and the points the real run hands to the user are checked with exact comparisons.",
        note=SHELL_NOTE + " Finite-difference stencil points: under the approx_derivative contract (monitored).",
        technique=SHELL_TECH, design_ref="DESIGN.md §4 C02"),
    "C03": dict(
        text="Theorems ls_strict_decrease (any DCSRCH answers, any cap: the returned step's objective value is strictly below the start or the "
             "search fails), accepted_monotone (start, callback states, result form a non-increasing list), failed_ls_keeps_x, result_le_start; "
             "tied to the code by bit-exact trace replay; the sequence of objective values of real runs is monitored.",
        note=SHELL_NOTE + " Fixed objective (no update_fun_def).",
        technique=SHELL_TECH, design_ref="DESIGN.md §4 C03"),
    "C04": dict(
        text="Theorems message_documented, report_truthful (each message against the returned state), success_iff, nit_bound, nfev_bound, "
             "criteria_called_once, thresholds — for all user callables, oracles and configurations incl. restarts with maxiter below the "
             "checkpoint's nit; tied by bit-exact trace replay over the configuration lattice and restart chains; messages of real runs are "
             "cross-checked against the returned state.",
        note=SHELL_NOTE, technique=SHELL_TECH, design_ref="DESIGN.md §4 C04"),
    "C05": dict(
        text="Theorems result_coherent / callback_coherent (fun = F(x)*scale, jac = grad(x)*scale as terms, using only a*1=a), counters_eq_log, "
             "result_is_ok_checkpoint (chains of restarts by induction); tied by bit-exact trace replay (incl. restart chains, all gradient modes); "
             "fun/jac of real results recomputed from the harness's closures and compared bit for bit, counters compared with the call log. "
             "Known finding K1 (checkpoint + scaler) excluded by hypothesis and reported as KNOWN-FINDING.",
        note=SHELL_NOTE + " No update_fun_def (C13 covers it).",
        technique=SHELL_TECH, design_ref="DESIGN.md §4 C05"),
    "C15": dict(
        text="Lean 4 theorems over Model/SF.lean for all histories, all user functions, any linear order with "
             "uninterpreted arithmetic (sf_refines: refinement to a stateless spec; no_reeval; counters_eq_calls; "
             "fd_counts), bound to scalar_function.py by an exhaustive history differential (every history of "
             "bounded length in every gradient mode, bit-exact) and an independent fresh-evaluation oracle on the "
             "real wrapper.",
        note="Trusted: Lean kernel; axioms propext/Classical.choice/Quot.sound; the harness and the Float driver; "
             "SciPy approx_derivative as an oracle choosing stencil points. 'Not re-evaluated at the point it was last "
             "evaluated at' is read as: consecutive requests at one point evaluate there at most once.",
        technique="Lean 4 proof (invariant + refinement by induction over operation lists) + exhaustive model/implementation history differential",
        design_ref="DESIGN.md §4 C15",
    ),
}


def main():
    checks = []
    for pid in sorted(CHECKS):
        c = CHECKS[pid]
        checks.append({
            "property_id": pid,
            "quick_cmd": f"./check {pid} --tier quick",
            "thorough_cmd": f"./check {pid} --tier thorough",
            "evidence_file": f"/verif/evidence/{pid}.json",
            "replay_cmd_template": f"./check {pid} --replay {{path}}",
            "engine": "lean4-proof+correspondence",
            "level_claimed": {"category": "proof", "text": c["text"], "design_ref": c["design_ref"]},
            "level_note": c["note"],
            "technique": c["technique"],
        })
    na = [{"property_id": pid, "reason": "check not built yet in this session (design in DESIGN.md §4); will be claimed when its theorems and correspondence exist"}
          for pid in sorted(TITLES) if pid not in CHECKS]
    m = {
        "version": 1,
        "setup_cmd": "cd /verif/lean && lake build LbfgsbVerif drv",
        "hooks": {
            "guard": "LBFGSB_VERIF",
            "enable": "no source hooks: the harness instruments the package from outside (wrapped user callables, monkey-patched module attributes) while importing /repo's working tree via PYTHONPATH",
            "baseline_off_cmd": "cd /repo && /venv/bin/python -m pytest -ra -q -p no:cacheprovider --timeout=900 --continue-on-collection-errors",
            "source_commits": [],
            "add_only": True,
        },
        "engines": [{
            "name": "lean4-proof+correspondence",
            "path": "/verif/lean, /verif/harness",
            "serves_properties": sorted(CHECKS),
            "kind_free_text": "Lean 4 models + kernel-checked theorems (lake build, #print axioms audit); models tied to /repo by translators (Generated/*.lean) and by differential correspondence through a compiled Float driver; fuzz/enumeration search for failing inputs",
        }],
        "checks": checks,
        "not_applicable": na,
        "notes": "Each check: (1) rebuilds the Lean library (theorems re-checked by the kernel) and audits axioms, (2) runs the model/implementation correspondence on /repo's working tree, (3) evaluates the property's own oracle on the real code. Exit 0 = held; exit 1 + VIOLATION line = violated or no longer shown; exit 2 = machinery failure.",
    }
    (VERIF / "MANIFEST.json").write_text(json.dumps(m, indent=1))
    print("wrote MANIFEST.json:", len(checks), "checks,", len(na), "not applicable")


if __name__ == "__main__":
    main()
