"""regenerates MANIFEST.json from the table below (run: /venv/bin/python -m harness.manifest_gen)"""
import json
from pathlib import Path

VERIF = Path(__file__).resolve().parent.parent

TITLES = {
    "C01": "convex box problems solved to a KKT point",
    "C02": "every point inside the box",
    "C03": "objective never increases",
    "C04": "truthful termination, budgets",
    "C05": "fun/jac belong to x; counters equal calls",
    "C06": "restart continues the run",
    "C07": "callback state is a faithful snapshot",
    "C08": "Cauchy point",
    "C09": "subspace minimisation",
    "C10": "limited-memory matrix = BFGS, SPD",
    "C11": "line search feasible, within budget, downhill",
    "C12": "iterates of Algorithm 778",
    "C13": "objective redefinition = restart",
    "C14": "deterministic, isolated, inputs untouched",
    "C15": "function wrapper never stale, counts once",
    "C16": "finite-difference modes at the bounds",
    "C17": "gradient scaler equivalence",
    "C18": "inverse-Hessian operator from genuine pairs",
    "C19": "benchmark gradients",
    "C20": "user failures surface unchanged",
}

# id -> dict(text, note, technique, design_ref)
SHELL_NOTE = ("Trusted: Lean kernel; axioms propext/Classical.choice/Quot.sound; harness + Float driver (IEEE equality of Lean's compiled Float "
              "and NumPy arithmetic, exact hex I/O). Modelled as oracles, not verified: the numerical kernels seen from the driver "
              "(get_cauchy_point+subspace_minimization = xbar), SciPy's DCSRCH stepper, SciPy's approx_derivative. Objectives finite "
              "on the box (runs in which the user's functions overflow are outside the quantifier and skipped).")
SHELL_TECH = "Lean 4 proof (loop invariants by induction on fuel, uninterpreted arithmetic) + bit-exact trace replay of the real run through the model + property monitor on the real run"

CHECKS = {
    "C02": dict(
        text="Theorem evals_in_box over Model/Shell.lean: for every user objective/gradient/callback, every kernel and stepper oracle, every "
             "configuration, every point in the call log, every callback state and the result lie in the box; fixed_never_move. No law of "
             "arithmetic is used, so rounding is covered. Bound to main.py/linesearch.py/scalar_function.py by bit-exact replay of recorded "
             "runs through the model, and the points the real run hands to the user are checked with exact comparisons. evals_in_box_complete: the same statement for the COMPLETE executable model (concreteOracles: compact matrices from the memory snapshot, cauchy, subspaceMin and the DCSRCH model composed under the driver — no oracle left, any arithmetic), the model the Lean driver executes natively against the package on its benchmark functions (C01 check). The entry condition (well-formed box containing the start) is theorem getBounds_ok about the model of base.get_bounds (Model/Bounds.lean), compared with the real validation on generated valid and malformed inputs (None entries, reversed/equal/NaN bounds, wrong lengths, start outside by one ulp).",
        note=SHELL_NOTE + " Finite-difference stencil points: under the approx_derivative contract (monitored).",
        technique=SHELL_TECH, design_ref="DESIGN.md §4 C02"),
    "C03": dict(
        text="Theorems ls_strict_decrease (any DCSRCH answers, any cap: the returned step's objective value is strictly below the start or the "
             "search fails), accepted_monotone (start, callback states, result form a non-increasing list), failed_ls_keeps_x, result_le_start; "
             "tied to the code by bit-exact trace replay; the sequence of objective values of real runs is monitored, and so is the TRUE objective (the "
             "harness's own closure) along start / checkpoint point, callback iterates and result, over restart chains with and without gradient "
             "scalers (finding K1 reported as KNOWN-FINDING).",
        note=SHELL_NOTE + " Fixed objective (no update_fun_def).",
        technique=SHELL_TECH, design_ref="DESIGN.md §4 C03"),
    "C04": dict(
        text="Theorems message_documented, report_truthful (each message against the returned state), success_iff, nit_bound, nfev_bound, "
             "criteria_called_once, thresholds; projgr_shift (Props/C04Shift, ordered field: the projected-gradient norm tested against pgtol does not depend on the origin of the variables), projgr_smul (it is homogeneous of degree one in a common positive unit of variables, box and gradient) — for all user callables, oracles and configurations incl. restarts with maxiter below the "
             "checkpoint's nit; tied by bit-exact trace replay over the configuration lattice and restart chains; messages of real runs are "
             "cross-checked against the returned state.",
        note=SHELL_NOTE, technique=SHELL_TECH, design_ref="DESIGN.md §4 C04"),
    "C05": dict(
        text="Theorems result_coherent / callback_coherent (fun = F(x)*scale, jac = grad(x)*scale as terms, using only a*1=a), counters_eq_log, "
             "result_is_ok_checkpoint (chains of restarts by induction); tied by bit-exact trace replay (incl. restart chains, all gradient modes); "
             "fun/jac of real results recomputed from the harness's closures and compared bit for bit, counters compared with the call log. "
             "Known finding K1 (checkpoint + scaler) excluded by hypothesis and reported as KNOWN-FINDING.",
        note=SHELL_NOTE + " No update_fun_def (C13 covers it).",
        technique=SHELL_TECH, design_ref="DESIGN.md §4 C05"),
    "C15": dict(
        text="Lean 4 theorems over Model/SF.lean for all histories, all user functions, any linear order with "
             "uninterpreted arithmetic (sf_refines: refinement to a stateless spec; no_reeval; counters_eq_calls; "
             "fd_counts), bound to scalar_function.py by an exhaustive history differential (every history of "
             "bounded length in every gradient mode, bit-exact) and an independent fresh-evaluation oracle on the "
             "real wrapper.",
        note="Trusted: Lean kernel; axioms propext/Classical.choice/Quot.sound; the harness and the Float driver; "
             "SciPy approx_derivative as an oracle choosing stencil points. 'Not re-evaluated at the point it was last "
             "evaluated at' is read as: consecutive requests at one point evaluate there at most once.",
        technique="Lean 4 proof (invariant + refinement by induction over operation lists) + exhaustive model/implementation history differential",
        design_ref="DESIGN.md §4 C15",
    ),
}

KERNEL_NOTE = ("Trusted: Lean kernel; axioms propext/Classical.choice/Quot.sound; harness + compiled Float driver (Lean's Float + - * / sqrt and "
               "comparisons are IEEE binary64 like NumPy's; exact hex I/O); NumPy/SciPy linear algebra (dot order, cholesky, triangular solves) "
               "modelled as exact solves in the theorems and compared numerically, not bit for bit.")

CHECKS.update({
    "C01": dict(
        text="PARTIAL by proof, completed by search. Theorems (ordered field, Props/C01.lean): projgr_zero_iff_kkt (the stop-test quantity vanishes "
             "exactly at the first-order points), d0_zero_iff_kkt and nonstationary_moves (the generalized-Cauchy start direction of the model of "
             "cauchy.py is non-zero at every non-stationary point: variables resting on a bound with the gradient outward do not block the others), "
             "moving_breakpoint_pos, d0_descent_term; nonstationary_cauchy_decrease and nonstationary_descent (Props/C01Descent: at a non-stationary iterate the model value at the generalized Cauchy point is strictly negative and, after the truncated Newton step on the free variables, the search direction satisfies g.d < 0 — the chain C01 -> C08 gcp_model_neg -> C09 direction_descent, exact arithmetic; model_iteration_descent states it for the two executable models chained as the driver chains the routines); complete_iteration_descent_curv / descent_from_memory_invariant (Props/C01Curv) state it for the COMPLETE model with no hypothesis on solves, on the middle matrix or on definiteness — the memory invariants (vectors of the length of x, consecutive pairs past the curvature test with eps >= 0), feasibility, non-stationarity and an inactive floor on f'' suffice, because the kernels' matrix is the BFGS matrix of the stored pairs (C10 kernel_matrix_is_bfgs) and the model's dense solves are exact (Props/C09Solve); run_direction_descent (Props/C01Run) lifts it to the run: those invariants are established by fresh_dinv and carried by iterBody_dinv through ANY pass of the loop body (accepted or rejected pair, failed line search with memory reset, stop tests, callbacks), so at every loop-head state a fresh run of the complete model reaches (no scaler, no update function) the direction handed to the line search satisfies g.d < 0 whenever the loop goes on and the floor is inactive; with C04 report_truthful and C05 result_coherent the PGTOL message is truthful. That the "
             "iteration reaches such a point on every generated convex problem (global convergence through SciPy's line search in floating point) is "
             "not a theorem: it is decided on real runs — and the COMPLETE executable model (Model/Kernels.lean: compact matrices from the memory snapshot, cauchy, subspaceMin, the DCSRCH model, composed under the driver model; no recorded answers) is executed natively by the Lean driver on the package's benchmark functions and compared with the package (iterates, iteration counts, messages), which ties the chain of models the theorems are about to the code end to end — (600 quick / 8000 thorough convex problems incl. starts constructed on bounds with the gradient "
             "inward/outward), each replayed bit for bit through the Lean driver model, projected gradient recomputed from the harness's closures.",
        note=SHELL_NOTE + " Resolution level of the objective is measured (1-ulp perturbations), see evidence assumptions.",
        technique="Lean 4 proof (KKT characterisation of the stop test and of the Cauchy direction, ordered field) + bit-exact trace replay + convex-run search with recomputed projected gradient",
        design_ref="DESIGN.md §4 C01"),
    "C06": dict(
        text="Theorems restore_pairs (history rebuilt from a checkpoint has exactly the stored pairs as consecutive differences, any additive group), "
             "restore_keeps_most_recent (with memory maxcor' the most recent min(m, maxcor') pairs are kept, in order, matrices rebuilt from them), "
             "restore_roundtrip (the history rebuilt from the pairs of a result whose x ends its stored history IS that history: the restart holds the "
             "memory of the uninterrupted run), restart_noiter_same_pairs (run level, ordered field: a restart with maxiter <= checkpoint.nit, no scaler, update or target, returns the checkpoint's most recent min(m, maxcor) pairs, its nit and the clipped start — by unfolding the whole driver model on the checkpoint path), restart_state / restart_continues / restart_same_result (Props/C06Sim, ordered field: the loop state a restart rebuilds from a checkpoint IS the state the checkpoint is a snapshot of, up to the ghost logs and the wrapper's cache — the history rebuilt from the pairs is the history — and from there the loop of the restart computes what the loop of the uninterrupted run computes, for any number of further iterations: a simulation through the whole driver; hypotheses: the point ends its stored history with an accepted pair (else K4), no scaler (else K1), no update function or target, callbacks that let the run go on, the first line search of the continuation evaluates at a point other than the current one), restart_at_every_split (Props/C06Inv: the state hypothesis is an invariant — fresh_rinv: the state a fresh run enters its loop with is restartable; iterBody_rinv: an iteration that goes on and whose pair is stored keeps it so; reach_rinv / mainLoop_of_reach: every loop-head state reached through such iterations is restartable and the run passes through it — so the continuation theorem holds at every split point of a fresh run as long as no pair was rejected (K4) under environment hypotheses only: gradient and kernel outputs of the length of the point, lb <= ub, maxcor >= 1); bit-equality is not a theorem (the reconstruction rounds): restarts at every iteration k of real runs, with equal "
             "and reduced maxcor, are replayed through the model bit for bit and the next iterate / pairs compared with the uninterrupted run. Known "
             "finding K4 (restart from a result whose x is not the end of its stored history) reported as KNOWN-FINDING.",
        note=SHELL_NOTE, technique="Lean 4 proof (list induction over an additive group) + bit-exact replay of restarts + split-run differential against the uninterrupted run",
        design_ref="DESIGN.md §4 C06"),
    "C07": dict(
        text="Theorems maxiter_only_in_guard / callback_state_eq_run_k (the k-th callback state equals the result of the same run with maxiter = k, "
             "field by field except message/status/success — by a simulation between the two runs of the model), snapshot_is_value (recorded states are "
             "never rewritten: the list only grows at its end), callback_false_transparent (a callback that always answers go-on does not change the "
             "result: non-interference proof over the whole driver, the logs are ghost), and for the crash-checkpoint clause C06 restart_continues / restart_same_result (restarted from the snapshot, the loop continues as the uninterrupted run does — exact arithmetic, see C06); tied by bit-exact replay; on real runs every callback state is compared with the run re-executed with maxiter = state.nit "
             "and frozen copies are compared after the run.",
        note=SHELL_NOTE, technique="Lean 4 proof (simulation between runs with different budgets, induction on fuel) + bit-exact replay + re-run differential",
        design_ref="DESIGN.md §4 C07"),
    "C08": dict(
        text="firstLocalMin_unique / gcp_is_the_first_local_min (the two properties determine t*), cauchy_unconstrained_step (x - (g.g/g.Bg) g when no bound is met), cauchy_point_shift / cauchy_shift_nofactor (Props/C08Shift: with x, lb, ub translated by one constant and the same gradient and model, the Cauchy point is the translated Cauchy point — the projected path is translated, the model value along it is the same function, the first local minimiser is unique; without pairs for every feasible input and theta > 0; the real routine is run on the translated twin of every kernel input that has a unit twin and must return the translated point within the tolerance of the reference comparison), cauchy_point_units / cauchy_units_nofactor (the Cauchy point of the same problem in other units is the rescaled point). Theorems over Model/Cauchy.lean: order_sorted / order_positive / order_nodup (breakpoints "
             "examined in non-decreasing order, only positive ones, each once — for any arithmetic), gcp_in_box (the returned point is in the box, any "
             "arithmetic), gcp_on_projected_path; gcp_first_local_min (ordered field, Props/C08Min): the point returned is P(x - t* g) where the model value "
             "phi(t) = m(P(x - t g) - x) is STRICTLY DECREASING on [0, t*] and phi(t*) <= phi(t) on a right neighbourhood, the auxiliary vector is "
             "W^T(x_cp - x); gcp_model_le / gcp_model_lt / gcp_model_neg (model value never above the one at x, strictly below when some variable can "
             "move) — by one invariant of the breakpoint loop: f', f'' ARE the derivatives of the model on the current segment (bilinear algebra through a "
             "list <-> Fin n bridge to Mathlib), the path is straight up to the next breakpoint, phi decreased strictly so far. Hypotheses (MinCtx, "
             "witnessed by a concrete instance; minCtx_nopairs discharges them for an empty memory and theta > 0, middle_symm gives the symmetry of M from that of the matrix it inverts; the share of explored inputs on which the hypotheses hold is reported in the evidence): feasible x, exact product with a "
             "symmetric middle matrix, B positive definite, the Fortran floor on f'' inactive; middle_product_exact / gcp_first_local_min_solved (Props/C09Solve) discharge the exact-product hypothesis: the model's Gauss-Jordan elimination is proved to return the solution of the system, and a matrix with a left inverse (Mm M^-1 = 1) has no vanishing pivot. The Float "
             "model is compared with cauchy.py on a structural enumeration of activity patterns (n <= 4: 36 per-coordinate combos) and random inputs, "
             "and both with a brute-force oracle (dense model, segment by segment, decision margin).",
        note=KERNEL_NOTE, technique="Lean 4 proof (loop invariant of the breakpoint search: derivative bookkeeping by Mathlib bilinear algebra, piecewise-linear path, strict decrease; merge-sort order, box invariants) + model/implementation differential on enumerated activity patterns + brute-force first-local-minimiser oracle",
        design_ref="DESIGN.md §4 C08"),
    "C09": dict(
        text="subspace_point_shift (Props/C09Shift, no hypothesis: subspaceMin on the input with x, x_c, lb, ub translated by one constant returns the translated point), subspace_point_units / subspace_units_nofactor / iteration_units / iteration_units_nofloor (the subspace point, and the composed iteration on a stored history, of the same problem in other units are the rescaled points). Theorems over Model/Subspace.lean: none_free, xbar_in_box and active_fixed (any arithmetic), alpha_star_feasible (ordered field: every step "
             "in [0, alpha*] keeps the point in the box, alpha* <= 1), smw_direction (Mathlib matrices, any field: the direction computed through the small "
             "2m x 2m system solves the reduced Newton system (theta I - W M W^T) d = -r, under M M^-1 = 1); Props/C09Model (ordered field): subspace_no_increase (a Newton step on the free variables truncated by 0 <= alpha <= 1 does not increase the model), descent_of_decrease, direction_descent, and code_direction_descent: for the direction the code computes (small system, selection matrix of the free set: newton_of_reduced, reduced_bmat) the search direction after a Cauchy step with strict model decrease satisfies g.d < 0; masked_smw (the full-dimension masked form the source computes) and, about the executable model subspaceMin itself (Props/C09Run, via a list <-> Fin n bridge): subspace_newton_point (x_bar = x_cp + alpha u exactly, 0 <= alpha <= 1, in the box, u zero on the variables on a bound and Newton on the free ones), subspace_model_no_increase, subspace_direction_descent — under SubCtx (exact middle-matrix product and small solve, c = W^T(x_cp - x) as C08 proves), witnessed by a concrete instance; gauss_solves / gauss_unique / regular_pivots (Props/C09Solve + Proofs/Gauss, GaussBridge): the model's elimination with partial pivoting returns THE solution whenever no pivot vanishes, whatever row is picked, and no pivot vanishes when the matrix is injective; subspace_newton_point_solved / subspace_model_no_increase_solved / subspace_direction_descent_solved (under the computable pivot condition SubCtxP) and subspace_newton_point_pd (sizes, Mm M^-1 = 1, c = W^T(x_cp - x) and a positive definite model only: the reduced matrix N is then injective) carry no assumption on any solve. Numerical equality with the dense Newton solve, "
             "model decrease and descent are decided by the differential (Lean Float model vs subspacemin.py vs dense solve) over every free/active partition "
             "for n <= 4 and random inputs, and in situ: every subspace step recorded inside real runs (memory objects reused across iterations, histories "
             "rewritten by update functions, rejected pairs) against the dense truncated Newton point of the model defined by the stored pairs.",
        note=KERNEL_NOTE, technique="Lean 4 proof (Sherman-Morrison-Woodbury identity, convexity of the model along the Newton step, box invariants) + model/implementation/dense-oracle differential over enumerated partitions",
        design_ref="DESIGN.md §4 C09"),
    "C10": dict(
        text="bfgs_units / bfgsChain_units (the BFGS matrix of a history in other units is (a/b^2) times the original). Theorems: bookkeeping for arbitrary candidate sequences, any arithmetic (reject_is_noop, accept_appends_and_drops_oldest, mem_le_maxcor(_seq), "
             "newest_pair_curv); algebra over any ordered field (bfgs_symm, bfgs_secant, bfgs_posdef, bfgs_chain_posdef, scaled_identity_spd); compact_eq_bfgs / compact_eq_bfgs_of_curvature (Byrd-Nocedal-Schnabel, Props/C10Compact): for ANY list of "
             "pairs with positive curvature, theta I - W N^-1 W^T with the explicitly constructed inverse of the middle matrix IS the dense BFGS recursion from "
             "theta I (induction on the pairs over a recursively extended index type), compact_secant; invM_factorisation / bmv_is_product (Props/C10Factor: the product of the two triangular factors the code builds from sqrt(D), 1/sqrt(D), L and the Cholesky factor J IS [[-D, L^T],[L, theta S^T S]], so two exact triangular solves return M v). The floating-point computation (triangular factors in "
             "the code) is decided by correspondence: bfgsmats.py vs the "
             "Lean Float compact model vs an independent dense recursion on random histories with rejected pairs, full memory, maxcor 1..12, and forced "
             "rebuilds after the stored gradients were rewritten (the update_fun_def path of main.py), also with a rejected candidate; kernel_matrix_is_bfgs (Props/C10Kernel, via Proofs/CompactBridge + CompactKernel): the very lists the model's kernels are given (buildW, buildMinv — columns [Y, theta S], middle matrix [[-D, L^T],[L, theta S^T S]]) are the block form of the compact representation, which is the bordered form of the Byrd-Nocedal-Schnabel proof up to the order of the columns (an explicit bijection of the index types), so with Mm any left inverse of the matrix of buildMinv, theta I - W Mm W^T IS the dense BFGS recursion of the stored pairs and is symmetric positive definite when every pair has s != 0, s.y > 0 and theta > 0; the product with the middle matrix through the code's triangular factors (bmv) is compared with the model's elimination (whose list form — the one the theorems are about — and array form must agree bit for bit), and the share of explored matrices whose pivots do not vanish is reported.",
        note=KERNEL_NOTE, technique="Lean 4 proof (list bookkeeping; BFGS update SPD/secant and compact = dense recursion by Mathlib matrix algebra, induction on the pair list) + history differential (implementation vs compact model vs dense recursion)",
        design_ref="DESIGN.md §4 C10"),
    "C11": dict(
        text="C14 display_evaluates_nothing (regenerated table: display code calls nothing that can reach a user callable: the evaluation cap does not depend on the display level). Theorems over the line-search model with DCSRCH an arbitrary oracle and any arithmetic: ls_points_in_box, ls_evals_le_cap, ls_result_downhill; "
             "ordered field: maxStep_feasible, ls_trials_on_ray; dcsrch_steps_in_range (any arithmetic): the Lean port of SciPy's DCSRCH._iterate + dcstep "
             "(Model/Dcsrch.lean, compared bit for bit with every recorded stepper call) proposes only steps in [0, stpmax]; ls_result_in_range / ls_steps_in_range (any arithmetic): with that stepper plugged into the driver's line search the returned step and every evaluated step lie in [0, max_allowed_steplength] (invariant of the line-search loop over the stepper's invariant), ls_evals_on_ray (ordered field: every evaluation is at a feasible x + a d, a <= maxstep), maxAllowedStep_units / maxAllowedStep_shift (C11Units: the largest feasible step depends neither on the units nor on the origin of the variables). The model's max_allowed_steplength is compared bit for bit with the bound the real code hands to DCSRCH. Tied by replaying stand-alone line searches of the real code (recorded DCSRCH answers) through the model bit "
             "for bit; every real trial point, count and returned step monitored, incl. caps 1..3 and maxfun about to be exhausted.",
        note=SHELL_NOTE + " libm pow(x, 2.0) in the stepper model is the C library's, as in SciPy.",
        technique="Lean 4 proof (loop invariant over an oracle-driven stepper) + bit-exact replay of recorded line searches", design_ref="DESIGN.md §4 C11"),
    "C12": dict(
        text="PARTIAL by proof, completed by differential. Theorems: the default constants and the theta / first-step formulas are the reference ones (tables "
             "regenerated from main.py, linesearch.py, bfgsmats.py on every run by translate/defaults2lean.py and checked by kernel evaluation), theta_model, "
             "iter0_step_cap; inv_chain_inverts_bfgs_chain, newton_point_is_two_loop, complete_iteration_is_lbfgs, complete_iteration_is_lbfgs_data (hypotheses on the data only), run_iteration_is_lbfgs (at every loop-head state a fresh run of the "
             "complete model reaches, while no bound interferes and the floor on f'' is inactive, the iteration aims its line search at the L-BFGS quasi-Newton point x - twoLoop(I/theta, stored pairs)(g): "
             "the inverse-update chain inverts the direct-update chain the solver's matrix is, and the model's subspace step is the full Newton step); "
             "the deviations are theorems elsewhere (C03/C11). That the evaluation-point sequence coincides with SciPy's L-BFGS-B is decided "
             "on real runs: first 12 iterations, maxcor 1..8, compared point by point up to the first line search that triggers a documented deviation "
             "(detected from the port's own trace) or the round-off regime; the point handed to every line search of those runs against a textbook two-loop recursion; optimal values on the convex box problems of C01.",
        note=SHELL_NOTE + " SciPy's L-BFGS-B is taken as the reference Algorithm 778.",
        technique="Lean 4 kernel-evaluated tables regenerated from the source (translator) + bit-exact replay + differential against SciPy's L-BFGS-B evaluation points",
        design_ref="DESIGN.md §4 C12"),
    "C13": dict(
        text="redefinition_acts_as_restart (from the loop state reached right after a redefinition, going on with an update function that from now on returns its inputs and restarting without update function from the snapshot of that state compute the same thing, for any number of further iterations: composition of the identity-update and restart simulations). Theorems over the filter model (Memory.lean filterWolfe, any arithmetic): filter_keeps_newest, filter_subsequence, filter_curvature (every retained "
             "consecutive pair passes the test on the rewritten gradients), identity_filter_noop, memStep_mats_current; identity_update_transparent (a run whose "
             "update function returns its inputs returns the result of the run without it: whole-driver simulation under a memory invariant, using the "
             "IEEE-exact symmetry of the curvature test, itself a theorem in every commutative ring: curv_test_symmetric); redefinition_pairs_curvature (run level, any arithmetic: whatever the update function returns for the stored gradients, as many as it was given, the result and every callback state of a fresh run carry pairs of a non-empty history of at most maxcor+1 points whose consecutive pairs ALL pass the curvature test: whole-driver invariant). The history filter alone is "
             "compared bit for bit with the Lean model on one-dimensional histories realising every drop pattern. Tied by bit-exact replay of runs with update functions (identity, consistent rescale/reweight/indefinite switches, "
             "arbitrary rewrites); identity runs compared bit for bit with runs without the hook; next iterate compared with a restart on the new objective.",
        note=SHELL_NOTE, technique="Lean 4 proof (structural induction on the filter) + bit-exact replay + switch/restart differential", design_ref="DESIGN.md §4 C13"),
    "C14": dict(
        text="display_evaluates_nothing (display code calls nothing that can reach a user callable). Theorems: interleaving_independent / schedule_irrelevant / nested_independent (for machines over disjoint states every schedule of any length ends "
             "where the solo runs end); that the package's runs are such machines is read off the source on every run by translate/state2lean.py and checked "
             "by kernel evaluation: no_shared_mutable_state, no_mutable_default_written, display_is_read_only, inputs_not_written; run_is_a_function. What static tables cannot "
             "exclude (writes through aliases of the caller's arrays, state in C) is decided by search: frozen read-only inputs and checkpoints with snapshots, "
             "A-B-A repeats with random iprint/logger, two restarts from one checkpoint, two threads interleaved at every user call by explicit schedules, nesting.",
        note=SHELL_NOTE + " SciPy >= 1.12 asserted at run time (the legacy Fortran line search would receive shared default work arrays).",
        technique="Lean 4 proof (schedule independence by induction on the schedule) + source-to-Lean translator with kernel-evaluated hazard tables + interleaving/nesting/frozen-input search",
        design_ref="DESIGN.md §4 C14"),
    "C16": dict(
        text="Theorems over Model/FD.lean (SciPy's step selection, _adjust_scheme_to_bounds, stencils, combination, the package's projection and zeroing): "
             "fd_points_in_box for ANY arithmetic (every stencil point is a clip: discharges the hypothesis Ctx2.stencil of C02), stencil_in_box_1sided/2sided "
             "and clip_is_identity_exact (ordered field: the routine's own stencil is inside the box, whatever the step), fd_counts, fixed_component_zero, evals_in_box_fd (run level: C02 evals_in_box with the stencil contract discharged by the model). The "
             "Float model is compared bit for bit with every stencil and gradient recorded in real runs (2-point/3-point/None; cs monitored only). Runs in all "
             "four modes with active bounds, narrow and tiny-scale boxes: no exception, points in box, nfev/njev, value against the exact-gradient run.",
        note=SHELL_NOTE + " Complex-step mode is not modelled (its real parts are the base point).",
        technique="Lean 4 proof (case analysis of the step adjustment over an ordered field; clip invariant for any arithmetic) + bit-exact model/implementation differential of stencils and gradients + run search",
        design_ref="DESIGN.md §4 C16"),
    "C17": dict(
        text="C09 iteration_objective_scale (kernel level, exact arithmetic: multiplying the gradient and the stored gradients by any a > 0 leaves the point the iteration aims at unchanged). Theorems: scaler_called_once, scaler_sees_unscaled, scaled_values, target_on_unscaled over the driver model; scaler_equivalence: the run with a "
             "scaler returning s and the run without scaler on s*f, s*grad f return the same result (whole-driver simulation; callable gradient, no target, "
             "fresh run; laws a*1 = a and not a < a); fd_scaling_linear (ordered field: FD(s f) = s FD(f) for the model of the differencing). The same equivalence is checked on pairs of real runs (f with scaler s vs s*f without) compared bit for bit on results and evaluation points, the "
             "scaler run replayed through the model.",
        note=SHELL_NOTE + " Callable gradient in the pair comparison.", technique="Lean 4 proof (driver invariants) + bit-exact replay + paired-run differential",
        design_ref="DESIGN.md §4 C17"),
    "C18": dict(
        text="Theorems: pairs_are_diffs, pairs_le_maxcor, pairs_curvature (fresh runs without redefinition: result and every callback state carry consecutive "
             "differences of a bounded history of coherent (point, user's gradient there x scale) values whose consecutive members passed the curvature test — "
             "a memory invariant proved through the whole driver by induction), with redefinitions C13 redefinition_pairs_curvature, restart without iteration C06 restart_noiter_same_pairs; two_loop_eq_chain / two_loop_spd (Props/C18TwoLoop: SciPy's two-loop recursion in LbfgsInvHessProduct._matvec returns the product with the dense matrix of the pair-by-pair inverse BFGS recursion, hence an SPD operator); curv_pos, inv_bfgs_posdef / inv_bfgs_chain_posdef (the inverse-BFGS operator of "
             "any positive-curvature pair list is SPD), hess_inv_secant / hess_inv_is_inverse_bfgs (the operator maps the newest y to the newest s and is the inverse of the identity-started BFGS matrix of the pairs), diag_by_unit_vectors. sk/yk of every state are part of the bit-exact replay; on real runs they are "
             "searched for as exact differences of a chronological chain in the harness's visit log (restart chains, redefinitions, FD modes; runs with failing line searches and memory resets, with a corpus of seeds on which a rejected pair is followed by a reset), the secant equation of every operator; the diagonal "
             "utility against todense() and an exact rational recursion. Known findings K2, K4, K1 reported as KNOWN-FINDING.",
        note=SHELL_NOTE, technique="Lean 4 proof (memory invariant by induction on fuel; matrix algebra) + bit-exact replay + visit-log chain search + exact-rational oracle for the diagonal utility",
        design_ref="DESIGN.md §4 C18"),
    "C19": dict(
        text="For each of the eight benchmark functions a theorem <name>_deriv: HasDerivAt of the real-valued transcription of the source formula along every "
             "coordinate equals the transcription of the source gradient (Mathlib analysis); the transcriptions are regenerated from benchmarks.py on every run "
             "(translate/bench2lean.py) and their Float twins are compared with the Python functions on random points.",
        note="Trusted: Lean kernel + Mathlib analysis; the translator bench2lean.py (AST of benchmarks.py to Lean terms); Float twin comparison with a tolerance (libm).",
        technique="source-to-Lean translator + Lean 4 proof (HasDerivAt in Mathlib) + Float-twin differential", design_ref="DESIGN.md §4 C19"),
    "C20": dict(
        text="Theorems: error_is_users (any error of the driver model is one a user callable returned), handlers_transparent / no_swallowing_handler_reaches_user (table of every try/except of "
             "the package regenerated by translate/handlers2lean.py: every handler that can reach a user callable only re-raises the caught exception object, directly or through a private carrier unwrapped again; none swallows), no_residue (kernel-evaluated over the state tables regenerated by translate/state2lean.py: no module global and no mutable default is written by any function of the package); one fault per (callable "
             "kind, call index) injected in real runs: the very exception object must reach the caller, the faulted run is replayed through the model, and process-wide settings (numpy error handling, warnings filters, logging) are unchanged by the failing run, and an "
             "identical fault-free call afterwards equals the baseline.",
        note=SHELL_NOTE, technique="Lean 4 proof (Except-monad frame reasoning) + source-to-Lean translator of exception handlers + fault-injection differential",
        design_ref="DESIGN.md §4 C20"),
})


def main():
    checks = []
    for pid in sorted(CHECKS):
        c = CHECKS[pid]
        checks.append({
            "property_id": pid,
            "quick_cmd": f"./check {pid} --tier quick",
            "thorough_cmd": f"./check {pid} --tier thorough",
            "evidence_file": f"/verif/evidence/{pid}.json",
            "replay_cmd_template": f"./check {pid} --replay {{path}}",
            "engine": "lean4-proof+correspondence",
            "level_claimed": {"category": "proof", "text": c["text"], "design_ref": c["design_ref"]},
            "level_note": c["note"],
            "technique": c["technique"],
        })
    na = [{"property_id": pid, "reason": "check not built yet in this session (design in DESIGN.md §4); will be claimed when its theorems and correspondence exist"}
          for pid in sorted(TITLES) if pid not in CHECKS]
    m = {
        "version": 1,
        "setup_cmd": "cd /verif && for t in handlers2lean bench2lean state2lean defaults2lean; do /venv/bin/python translate/$t.py; done && cd lean && lake build LbfgsbVerif drv",
        "hooks": {
            "guard": "LBFGSB_VERIF",
            "enable": "no source hooks: the harness instruments the package from outside (wrapped user callables, monkey-patched module attributes) while importing /repo's working tree via PYTHONPATH",
            "baseline_off_cmd": "cd /repo && /venv/bin/python -m pytest -ra -q -p no:cacheprovider --timeout=900 --continue-on-collection-errors",
            "source_commits": [],
            "add_only": True,
        },
        "engines": [{
            "name": "lean4-proof+correspondence",
            "path": "/verif/lean, /verif/harness",
            "serves_properties": sorted(CHECKS),
            "kind_free_text": "Lean 4 models + kernel-checked theorems (lake build, #print axioms audit); models tied to /repo by translators (Generated/*.lean) and by differential correspondence through a compiled Float driver; fuzz/enumeration search for failing inputs",
        }],
        "checks": checks,
        "not_applicable": na,
        "notes": "Each check: (1) rebuilds the Lean library (theorems re-checked by the kernel) and audits axioms, (2) runs the model/implementation correspondence on /repo's working tree, (3) evaluates the property's own oracle on the real code. Exit 0 = held; exit 1 + VIOLATION line = violated or no longer shown; exit 2 = machinery failure.",
    }
    (VERIF / "MANIFEST.json").write_text(json.dumps(m, indent=1))
    print("wrote MANIFEST.json:", len(checks), "checks,", len(na), "not applicable")


if __name__ == "__main__":
    main()
