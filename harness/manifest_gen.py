"""regenerates MANIFEST.json from the table below (run: /venv/bin/python -m harness.manifest_gen)"""
import json
from pathlib import Path

VERIF = Path(__file__).resolve().parent.parent

TITLES = {
    "C01": "convex box problems solved to a KKT point",
    "C02": "every point inside the box",
    "C03": "objective never increases",
    "C04": "truthful termination, budgets",
    "C05": "fun/jac belong to x; counters equal calls",
    "C06": "restart continues the run",
    "C07": "callback state is a faithful snapshot",
    "C08": "Cauchy point",
    "C09": "subspace minimisation",
    "C10": "limited-memory matrix = BFGS, SPD",
    "C11": "line search feasible, within budget, downhill",
    "C12": "iterates of Algorithm 778",
    "C13": "objective redefinition = restart",
    "C14": "deterministic, isolated, inputs untouched",
    "C15": "function wrapper never stale, counts once",
    "C16": "finite-difference modes at the bounds",
    "C17": "gradient scaler equivalence",
    "C18": "inverse-Hessian operator from genuine pairs",
    "C19": "benchmark gradients",
    "C20": "user failures surface unchanged",
}

# id -> dict(text, note, technique, design_ref)
CHECKS = {
    "C15": dict(
        text="Lean 4 theorems over Model/SF.lean for all histories, all user functions, any linear order with "
             "uninterpreted arithmetic (sf_refines: refinement to a stateless spec; no_reeval; counters_eq_calls; "
             "fd_counts), bound to scalar_function.py by an exhaustive history differential (every history of "
             "bounded length in every gradient mode, bit-exact) and an independent fresh-evaluation oracle on the "
             "real wrapper.",
        note="Trusted: Lean kernel; axioms propext/Classical.choice/Quot.sound; the harness and the Float driver; "
             "SciPy approx_derivative as an oracle choosing stencil points. 'Not re-evaluated at the point it was last "
             "evaluated at' is read as: consecutive requests at one point evaluate there at most once.",
        technique="Lean 4 proof (invariant + refinement by induction over operation lists) + exhaustive model/implementation history differential",
        design_ref="DESIGN.md §4 C15",
    ),
}


def main():
    checks = []
    for pid in sorted(CHECKS):
        c = CHECKS[pid]
        checks.append({
            "property_id": pid,
            "quick_cmd": f"./check {pid} --tier quick",
            "thorough_cmd": f"./check {pid} --tier thorough",
            "evidence_file": f"/verif/evidence/{pid}.json",
            "replay_cmd_template": f"./check {pid} --replay {{path}}",
            "engine": "lean4-proof+correspondence",
            "level_claimed": {"category": "proof", "text": c["text"], "design_ref": c["design_ref"]},
            "level_note": c["note"],
            "technique": c["technique"],
        })
    na = [{"property_id": pid, "reason": "check not built yet in this session (design in DESIGN.md §4); will be claimed when its theorems and correspondence exist"}
          for pid in sorted(TITLES) if pid not in CHECKS]
    m = {
        "version": 1,
        "setup_cmd": "cd /verif/lean && lake build LbfgsbVerif drv",
        "hooks": {
            "guard": "LBFGSB_VERIF",
            "enable": "no source hooks: the harness instruments the package from outside (wrapped user callables, monkey-patched module attributes) while importing /repo's working tree via PYTHONPATH",
            "baseline_off_cmd": "cd /repo && /venv/bin/python -m pytest -ra -q -p no:cacheprovider --timeout=900 --continue-on-collection-errors",
            "source_commits": [],
            "add_only": True,
        },
        "engines": [{
            "name": "lean4-proof+correspondence",
            "path": "/verif/lean, /verif/harness",
            "serves_properties": sorted(CHECKS),
            "kind_free_text": "Lean 4 models + kernel-checked theorems (lake build, #print axioms audit); models tied to /repo by translators (Generated/*.lean) and by differential correspondence through a compiled Float driver; fuzz/enumeration search for failing inputs",
        }],
        "checks": checks,
        "not_applicable": na,
        "notes": "Each check: (1) rebuilds the Lean library (theorems re-checked by the kernel) and audits axioms, (2) runs the model/implementation correspondence on /repo's working tree, (3) evaluates the property's own oracle on the real code. Exit 0 = held; exit 1 + VIOLATION line = violated or no longer shown; exit 2 = machinery failure.",
    }
    (VERIF / "MANIFEST.json").write_text(json.dumps(m, indent=1))
    print("wrote MANIFEST.json:", len(checks), "checks,", len(na), "not applicable")


if __name__ == "__main__":
    main()
