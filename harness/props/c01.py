"""C01 — convex box-constrained problems are solved to a first-order (KKT) point.

Every case: a strictly convex objective of the generated families with its exact gradient, a box
(finite, one-sided, infinite, degenerate sides), a feasible start (interior, on faces, on
vertices), a memory size 1..10, ftol = 0 and an ample budget; the run is replayed bit for bit
through the Lean driver model, and the projected-gradient norm is recomputed at the returned point
from the harness's own closures. A second stream drives the start onto every combination of
(at lower bound / at upper bound / interior) x (gradient inward / outward) by construction.
"""
from __future__ import annotations

import random
from typing import Any, Dict, List

import numpy as np

from harness import shell
from harness.gen import make_objective
from harness.runner import run_property
from harness.trace import Run

PROP = "C01"
THEOREMS = ["Lbfgsb.C01.run_direction_descent", "Lbfgsb.C01.state_direction_descent", "Lbfgsb.C01.iterBody_dinv", "Lbfgsb.C01.fresh_dinv", "Lbfgsb.C01.reach_dinv", "Lbfgsb.C01.iterBody_gtol", "Lbfgsb.C01.complete_iteration_descent_curv", "Lbfgsb.C01.descent_from_memory_invariant", "Lbfgsb.C01.kernel_minv_invertible", "Lbfgsb.C09.complete_iteration_descent_solved", "Lbfgsb.C01.projgr_zero_iff_kkt", "Lbfgsb.C01.d0_zero_iff_kkt", "Lbfgsb.C01.nonstationary_moves",
            "Lbfgsb.C01.moving_breakpoint_pos", "Lbfgsb.C01.d0_descent_term",
            "Lbfgsb.C01.nonstationary_cauchy_decrease", "Lbfgsb.C01.nonstationary_descent", "Lbfgsb.C01.model_iteration_descent", "Lbfgsb.kernelInput_sizes", "Lbfgsb.buildMinv_symm", "Lbfgsb.complete_iteration_descent", "Lbfgsb.first_iteration_descent"]
MODULES = ["LbfgsbVerif.Props.C01Run", "LbfgsbVerif.Props.C01Curv", "LbfgsbVerif.Props.C09Solve", "LbfgsbVerif.Props.C01", "LbfgsbVerif.Props.C01Descent", "LbfgsbVerif.Props.Kernels"]
EPS = float(np.finfo(float).eps)


def build(case):
    kw, desc, p = shell.build(case)
    pat = case.get("pattern")
    if pat:
        # place the start by construction: per coordinate (position, bound kinds)
        rng = np.random.default_rng(case["seed"] + 3)
        n = p.n
        lb, ub, x0 = np.full(n, -np.inf), np.full(n, np.inf), np.zeros(n)
        # pick a point, then build the box around it from the sign of the gradient there
        x0 = rng.uniform(-2, 2, size=n)
        g = np.atleast_1d(p.grad(x0.copy()))
        for i in range(n):
            c = pat[i % len(pat)]
            w = float(rng.uniform(0.3, 3))
            if c == "L-out":      # on the lower bound, gradient pushing outward (g > 0): must stay
                lb[i], ub[i] = x0[i], (x0[i] + w if rng.random() < 0.5 else np.inf)
                if g[i] <= 0:
                    lb[i], ub[i] = (x0[i] - w if rng.random() < 0.5 else -np.inf), x0[i]
            elif c == "L-in":     # on a bound, gradient pointing inward: must leave it
                if g[i] < 0:
                    lb[i], ub[i] = x0[i], (x0[i] + w if rng.random() < 0.5 else np.inf)
                else:
                    lb[i], ub[i] = (x0[i] - w if rng.random() < 0.5 else -np.inf), x0[i]
            elif c == "free":
                lb[i], ub[i] = -np.inf, np.inf
            elif c == "half":     # one-sided, bound behind the descent direction
                if g[i] < 0:
                    lb[i] = x0[i] - w
                else:
                    ub[i] = x0[i] + w
            elif c == "box":
                lb[i], ub[i] = x0[i] - w, x0[i] + float(rng.uniform(0.3, 3))
            elif c == "fixed":
                lb[i] = ub[i] = x0[i]
        p.lb, p.ub, p.x0 = lb, ub, x0
        kw["x0"] = x0.copy()
        kw["bounds"] = p.bounds
        if desc["features"].get("bounds_spelling") == "pairs":
            kw["bounds"] = [(float(l) if np.isfinite(l) else None, float(u) if np.isfinite(u) else None) for l, u in zip(p.lb, p.ub)]
    return kw, desc, p


def evaluate(case: Dict[str, Any]) -> Dict[str, Any]:
    if case.get("kind") == "whole":
        from harness import whole
        return whole.evaluate(case)
    out: Dict[str, Any] = {"corr": [], "skipped": None, "tags": [], "prop": []}
    kw, desc, p = build(case)
    run = Run(kw).execute()
    if np.isfinite(np.asarray(kw["x0"], dtype=float)).all() and run.nonfinite_points():
        return {"corr": None, "skipped": None, "tags": ["nonfinite-point"],
                "prop": [{"what": "the solver evaluates the objective at / returns a point with NaN or infinite coordinates although the start is "
                                  "finite and the objective is finite on the box (no KKT point is reached)", "key": "",
                          "detail": {"bounds_spelling": desc["features"].get("bounds_spelling"), "message": None if run.result is None else run.result.message}}]}
    if run.nonfinite():
        return {"corr": None, "skipped": None, "tags": ["nonfinite-objective-domain"], "prop": []}
    if run.exc is not None:
        out["prop"].append({"what": f"run on a convex problem raises {type(run.exc).__name__}: {str(run.exc)[:120]}", "key": ""})
        out["corr"] = None
        return out
    corr, skipped = shell.replay(run)
    out["skipped"] = skipped
    if corr is not None:
        out["corr"] += corr
    else:
        out["corr"] = None
    out["tags"] += shell.basic_tags(run, desc, p) + [f"maxcor={kw['maxcor']}", f"pattern={'-'.join(case['pattern']) if case.get('pattern') else 'random'}"]
    r = run.result
    x = np.asarray(r.x, dtype=float)
    pg = p.pg(x)
    gtol = kw["gtol"]
    fx = float(p.fun(x.copy()))
    # level of the tolerance, or of the floating-point resolution of the objective. The resolution
    # is measured, not assumed: `noise` = how much the computed objective changes under
    # perturbations of x by one unit in the last place (rounding noise of the evaluation, which
    # the line search cannot see through), `Lest` = local Lipschitz constant of the gradient;
    # a decrease below the noise is invisible, which leaves a projected gradient of the order
    # sqrt(2 Lest noise).
    rng = np.random.default_rng(case["seed"] + 11)
    noise = EPS * max(1.0, abs(fx))
    for _ in range(12):
        xp = np.clip(x * (1.0 + EPS * rng.choice([-1.0, 0.0, 1.0], size=x.size)) + 1e-300 * rng.choice([-1.0, 1.0], size=x.size), p.lb, p.ub)
        noise = max(noise, abs(float(p.fun(xp.copy())) - fx))
    gx = np.atleast_1d(p.grad(x.copy()))
    Lest = 1.0
    for _ in range(6):
        u = rng.standard_normal(x.size)
        u /= max(np.linalg.norm(u), 1e-300)
        t = 1e-5 * max(1.0, float(np.abs(x).max()))
        Lest = max(Lest, float(np.linalg.norm(np.atleast_1d(p.grad(x + t * u)) - gx) / t))
    L = max(p.L or 1.0, Lest)
    resolution = 10.0 * np.sqrt(2.0 * L * noise) + 100 * EPS * L * max(1.0, float(np.abs(x).max()))
    level = max(10.0 * gtol, resolution)
    x0 = np.clip(p.x0, p.lb, p.ub)
    g0 = np.atleast_1d(p.grad(x0.copy()))
    on_l, on_u = x0 == p.lb, x0 == p.ub
    out["tags"].append(f"start_on_bound_outward={bool(((on_l & (g0 > 0)) | (on_u & (g0 < 0))).any())}")
    out["tags"].append(f"start_on_bound_inward={bool(((on_l & (g0 < 0) & ~on_u) | (on_u & (g0 > 0) & ~on_l)).any())}")
    out["tags"].append(f"active_at_solution={bool(((x == p.lb) | (x == p.ub)).any())}")
    if not pg <= level:
        out["prop"].append({"what": f"convex problem not solved: projected gradient {pg:.3e} at the returned point (tolerance {gtol:.1e}, "
                                    f"resolution level {resolution:.1e}), message {r.message}",
                            "key": "", "detail": {"pg": pg, "gtol": gtol, "level": level, "message": r.message, "nit": int(r.nit),
                                                  "nfev": int(r.nfev), "problem": p.name}})
    if pg > gtol and "PGTOL" in r.message:
        # (reported convergence must be truthful up to the recomputation of the gradient)
        if pg > 1.0000001 * gtol + 10 * EPS * L:
            out["prop"].append({"what": f"message {r.message} but the recomputed projected gradient is {pg:.3e} > gtol", "key": ""})
    if r.nit >= 2:
        out["nontrivial"] = f"{case['seed']}:{case.get('pattern')}"
    if case["seed"] % 61 == 0:
        out["sample"] = {"case": case, "problem": p.name, "message": r.message, "nit": int(r.nit), "pg": pg, "level": level}
    return out


PATTERNS = [["L-out", "free"], ["L-in", "free"], ["L-in", "half"], ["L-out", "L-in", "free"], ["L-in", "L-in", "half", "free"],
            ["L-out", "L-out", "box"], ["L-in"], ["L-out", "box", "fixed"], ["half", "half", "L-in"], ["box", "L-in", "fixed", "free"],
            ["L-in", "box"], ["free", "free", "L-in"]]


def run(tier: str, seed: int) -> int:
    n = 600 if tier == "quick" else 8000
    cases: List[Dict[str, Any]] = []
    for i in range(n):
        s = seed * 1_000_003 + i
        r = random.Random(s)
        c: Dict[str, Any] = {"seed": s, "families": ["qp", "qp_quartic", "qp_softplus"], "small_budgets": False,
                             "features": {"jac": "callable", "callback": "none", "ftarget": "none", "gtol_callable": False,
                                          "scaler": "none", "update": "none"},
                             "override": {"ftol": 0.0, "gtol": r.choice([1e-5, 1e-6, 1e-8]), "maxiter": 5000, "maxfun": 100000,
                                          "maxcor": r.randint(1, 10), "maxls": 20}}
        if i % 2 == 1:
            c["pattern"] = PATTERNS[(i // 2) % len(PATTERNS)]
        cases.append(c)
    from harness import whole
    nw = 300 if tier == "quick" else 6000
    cases += [whole.gen_case(seed * 1_000_003 + 3_000_000 + i) for i in range(nw)]
    return run_property(
        PROP, "harness.props.c01", THEOREMS, MODULES, cases, tier, seed,
        rule="strictly convex families (QP cond <= 1e4, QP+quartic, QP+softplus), n 1..12, every box kind, starts interior / on faces / "
             "on vertices and starts built by construction on a bound with the gradient inward or outward with one-sided, infinite, finite "
             "and degenerate other sides; maxcor 1..10; ftol = 0, budget 5000 iterations: projected gradient recomputed from the harness's "
             "closures <= max(10 gtol, resolution level); every run replayed through the Lean driver model; plus the COMPLETE model (driver + composed "
             "kernel models + DCSRCH model, no recorded answers) executed natively on the package's benchmark functions with random boxes/starts/maxcor "
             "against the package: the first 8 iterates of the common prefix (relative 1e-5; finite-difference modes: polynomial benchmarks, first 3 iterates, 1e-4)",
        assumptions=["resolution level = 10 sqrt(2 L noise) + 100 eps L max(1,|x|), with noise = measured change of the computed objective under 1-ulp "
                     "perturbations of the returned x (>= eps |f|) and L = measured local Lipschitz constant of the gradient"])


def replay(path: str) -> int:
    import json
    d = json.load(open(path))
    c = d["case"].get("case")
    if c is None:
        print(json.dumps(d["case"], indent=1)[:3000])
        return 1
    out = evaluate(c)
    print("prop:", out["prop"][:3], "corr:", (out["corr"] or [])[:3])
    return 1 if (out["prop"] or out["corr"]) else 0
