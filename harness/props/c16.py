"""C16 — finite-difference modes work at the bounds and agree with exact gradients.

Cases: convex families and the package's benchmark functions, boxes with active bounds at the
start and at the optimum (also very narrow boxes and boxes of tiny scale around zero, where the
differencing routine must shrink or flip its steps), the four differencing modes, several
`eps` / `finite_diff_rel_step` settings. Each run is
  * replayed bit for bit through the Lean driver model (the stencils are oracle tables there; the
    Lean model of the step adjustment `FD.adjust` is compared bit for bit with every stencil the
    routine actually used),
  * checked by the monitors: no exception, every evaluated point in the box, nfev = number of
    objective calls (stencil points included), njev = number of gradients,
  * on convex problems compared with the exact-gradient run: same objective value to the accuracy
    of the scheme.
"""
from __future__ import annotations

import random
from typing import Any, Dict, List

import numpy as np

from harness import shell
from harness.common import fhex, hexf, hexv, vhex
from harness.runner import run_property
from harness.trace import Run

PROP = "C16"
THEOREMS = ["Lbfgsb.C16.stencil_in_box_1sided", "Lbfgsb.C16.stencil_in_box_2sided", "Lbfgsb.C16.fd_points_in_box", "Lbfgsb.C16.clip_is_identity_exact",
            "Lbfgsb.C16.fd_counts", "Lbfgsb.C16.fixed_component_zero", "Lbfgsb.C16.evals_in_box_fd"]
MODULES = ["LbfgsbVerif.Props.C16", "LbfgsbVerif.Props.C16Run"]
MODES = ["none", "2-point", "3-point", "cs"]


def tweak_box(p, kind: str, rng):
    """narrow / tiny-scale variants of the problem's box (start moved inside)"""
    n = p.n
    if kind == "narrow":
        # sides of width 1e-9..1e-6 around the start: every default step is too long
        w = 10 ** rng.uniform(-10, -6, size=n)
        c = np.where(np.isfinite(p.x0), p.x0, 0.0)
        p.lb = c - w * rng.uniform(0, 1, size=n)
        p.ub = c + w * rng.uniform(0, 1, size=n)
    elif kind == "micro":
        # a box of scale 1e-9 around zero, start inside at an unrelated binade
        s = 10 ** rng.uniform(-10, -8)
        p.lb = -s * rng.uniform(0.1, 3, size=n)
        p.ub = s * rng.uniform(0.1, 3, size=n)
        p.x0 = rng.uniform(p.lb, p.ub) * 10 ** rng.uniform(-2, 0, size=n)
    elif kind == "far":
        # boxes far from the origin whose width is tiny RELATIVE to their position (1e-7..5e-6): the sides are
        # distinct numbers and the objective varies noticeably across them
        c = rng.choice([-1.0, 1.0], size=n) * 10 ** rng.uniform(2, 4, size=n)
        w = np.abs(c) * 10 ** rng.uniform(-7, -5.3, size=n)
        p.lb, p.ub = c - w, c + w
        p.x0 = rng.uniform(p.lb, p.ub)
    p.x0 = np.clip(p.x0, p.lb, p.ub)
    return p


def build(case):
    kw, desc, p = shell.build(case)
    tb = case.get("tweak")
    if tb:
        rng = np.random.default_rng(case["seed"] + 77)
        tweak_box(p, tb, rng)
        kw["x0"] = p.x0.copy()
        kw["bounds"] = p.bounds
    if case.get("epsilon") is not None:
        kw["eps"] = case["epsilon"]
    if case.get("finite_diff_rel_step") is not None:
        kw["finite_diff_rel_step"] = case["finite_diff_rel_step"]
    if case.get("value_dtype"):
        # an objective evaluated in reduced precision: the value comes back as a numpy float32 scalar (the differencing
        # routine chooses its default relative step from the precision of the value)
        f_, dt_ = kw["fun"], np.dtype(case["value_dtype"]).type
        kw["fun"] = lambda x: dt_(f_(x))
    return kw, desc, p


def evaluate(case: Dict[str, Any]) -> Dict[str, Any]:
    out: Dict[str, Any] = {"corr": [], "skipped": None, "tags": [], "prop": []}
    kw, desc, p = build(case)
    run = Run(kw).execute()
    mode = case["features"]["jac"]
    import math
    f_bad = any(not math.isfinite(hexf(v)) for v in run.rec.F.values() if not v.startswith("!"))
    if run.exc is not None and not run.user_raised() and not f_bad:
        # (checked before the non-finite screen: an aborted differencing leaves a NaN placeholder)
        return {"corr": None, "skipped": None, "tags": ["exc=" + type(run.exc).__name__],
                "prop": [{"what": f"finite-difference run ({mode}) raises {type(run.exc).__name__}: {str(run.exc)[:120]}", "key": ""}]}
    f_huge = any(abs(hexf(v)) > 1e150 for v in run.rec.F.values() if not v.startswith("!") and math.isfinite(hexf(v)))
    if f_bad or f_huge:
        return {"corr": None, "skipped": None, "tags": ["nonfinite-objective-domain"], "prop": []}
    free0 = p.lb != p.ub
    fd_bad = any(gv.size == p.n and not np.isfinite(gv[free0]).all()
                 for gv in (np.array(hexv(g)) for (_, _, _, g) in run.rec.FD))
    jac_bad = run.result is not None and not np.isfinite(np.asarray(run.result.jac, dtype=float)).all()
    if fd_bad or jac_bad:
        # every objective value is finite and moderate, yet a finite-difference gradient is not
        return {"corr": None, "skipped": None, "tags": ["fd-gradient-not-finite"],
                "prop": [{"what": f"finite-difference gradient ({mode}) is not finite although every objective value is", "key": ""}]}
    out["tags"] += shell.basic_tags(run, desc, p) + [f"tweak={case.get('tweak')}", f"eps={case.get('epsilon')}",
                                                      f"rel_step={case.get('finite_diff_rel_step')}"]
    if run.exc is not None and not run.user_raised():
        out["prop"].append({"what": f"finite-difference run ({mode}) raises {type(run.exc).__name__}: {str(run.exc)[:120]}", "key": ""})
        out["corr"] = None
        return out
    corr, skipped = shell.replay(run)
    out["skipped"] = skipped
    if corr is not None:
        out["corr"] += corr
    else:
        out["corr"] = None
    r = run.result
    for v in shell.mon_c02(run, p):
        out["prop"].append(v)
    # counters
    nF = sum(1 for kd, _ in run.rec.calls if kd == "F")
    if int(r.nfev) != nF:
        out["prop"].append({"what": f"nfev={r.nfev} but the objective was called {nF} times (stencil points included)", "key": ""})
    if int(r.njev) != len(run.rec.FD):
        out["prop"].append({"what": f"njev={r.njev} but {len(run.rec.FD)} finite-difference gradients were computed", "key": ""})
    # stencil statistics (which branch of the step adjustment was exercised)
    at_bound = 0
    for x, f0, pts, g in run.rec.FD:
        xv = np.array(hexv(x))
        if xv.size == p.n and ((xv == p.lb) | (xv == p.ub)).any():
            at_bound += 1
    out["tags"].append(f"gradients_at_a_bound={'0' if at_bound == 0 else '>=1'}")
    active = bool(((np.asarray(r.x) == p.lb) | (np.asarray(r.x) == p.ub)).any())
    out["tags"].append(f"active_at_solution={active}")
    # the Lean model of the differencing (step, adjustment to the bounds, stencil, combination)
    # against every gradient the routine computed in this run, bit for bit
    if mode != "cs" and not run.rec.ambiguous and not case.get("value_dtype"):
        L = []
        exp = []
        eps64 = float(np.finfo(np.float64).eps)
        epsM = eps64 ** 0.5 if mode in ("none", "2-point") else eps64 ** (1 / 3)
        scheme = "two" if mode in ("none", "2-point") else "three"
        if mode == "none":
            path, step = "abs", fhex(float(kw.get("eps", 1e-8)))
        elif kw.get("finite_diff_rel_step") is not None:
            path, step = "rel", fhex(float(kw["finite_diff_rel_step"]))
        else:
            path, step = "relnone", fhex(0.0)
        free = p.lb != p.ub
        for x, f0, pts, g in run.rec.FD[:40]:
            if any(q not in run.rec.F or run.rec.F[q].startswith("!") for q in pts):
                continue
            vals = vhex([hexf(run.rec.F[q]) for q in pts]) if pts else "_"
            L.append(f"fd {scheme} {path} {x} {vhex(p.lb)} {vhex(p.ub)} {step} {fhex(epsM)} {f0} {vals}")
            gv = np.array(hexv(g))
            exp.append((";".join(pts) if pts else "_", vhex(np.where(free, gv, 0.0))))
        if L:
            got = shell.driver().run(L)
            nbad = 0
            for ln, (epts, eg) in zip(got, exp):
                parts = ln.split(" ")
                if len(parts) != 3 or parts[0] != "fd":
                    nbad += 1
                    continue
                gg = np.array(hexv(parts[2])) if parts[2] else np.array([])
                ggs = vhex(np.where(free, gg, 0.0)) if gg.size == p.n else parts[2]
                if parts[1] != epts or ggs != eg:
                    nbad += 1
                    if nbad == 1 and out["corr"] is not None:
                        out["corr"].append(f"FD model: stencil/gradient differ: impl pts {epts[:80]} g {eg[:60]} | model pts {parts[1][:80]} g {ggs[:60]}")
            out["tags"].append(f"fd_model_compared={'yes' if L else 'no'}")
    # comparison with the exact-gradient run
    # (only runs stopped by the projected-gradient test are comparable: the relative-reduction
    # test says nothing about the distance to the solution)
    if p.convex and case.get("value_dtype") and r is not None:
        # an objective evaluated in single precision: the noise of the values (eps32 |f|) bounds what any differencing can
        # reach and the line search may give up early, so the comparison is coarse — the run must realise at least half of
        # the decrease the exact-gradient run (double-precision values) obtains from the same start, when that decrease
        # is well above the noise. (Observed on the unchanged package: never below 0.8 in 1400 such runs.)
        cE = {k: v for k, v in case.items() if k != "value_dtype"}
        kwE, _, _ = build(cE)
        kwE["jac"] = p.grad
        E = Run(kwE).execute()
        if E.exc is None and not E.nonfinite():
            f0 = float(p.fun(np.clip(p.x0, p.lb, p.ub).copy()))
            fe = float(E.result.fun)
            ff = float(p.fun(np.asarray(r.x, dtype=float).copy()))
            if f0 - fe > 1e-2 * (1.0 + abs(f0)):
                frac = (f0 - ff) / (f0 - fe)
                out["tags"].append("float32_valued_objective_compared=True")
                if not frac >= 0.5:
                    out["prop"].append({"what": f"{mode} run on an objective returning {case['value_dtype']} values realises only {frac:.2f} of the decrease "
                                                "of the exact-gradient run (objective value far from the exact-gradient solution beyond the accuracy of the scheme)",
                                        "key": "", "detail": {"f_start": f0, "f_fd": ff, "f_exact": fe, "msg_fd": r.message}})
    elif p.convex and case.get("compare") and not case.get("tweak") and kw.get("ftol", 1e-5) <= 1e-9:
        kwE, _, _ = build(case)
        kwE["jac"] = p.grad
        E = Run(kwE).execute()
        # (whatever the message of the finite-difference run: with these budgets it has no excuse for stopping far from the solution)
        sc = shell.scale_of(run)
        budget_stop = ("ITERATIONS" in r.message) or ("EVALUATIONS" in r.message)
        if E.exc is None and not E.nonfinite() and E.result.success and "PGTOL" in E.result.message and not budget_stop \
                and sc > 0 and np.isfinite(sc):
            fe, ff = float(E.result.fun) / sc, float(r.fun) / sc
            # accuracy of the scheme: gradient error ~ sqrt(eps) L (forward) / eps^(2/3) (central), times the stop tolerances
            L = p.L or 1.0
            tol = {"none": 1e-5, "2-point": 1e-5, "3-point": 1e-7, "cs": 1e-9}[mode]
            tol = tol * (1.0 + abs(fe)) * max(1.0, L) + 10 * kw.get("ftol", 1e-5) * (1 + abs(fe)) + 10 * (max(kw.get("gtol", 1e-5), 0) / min(sc, 1.0)) ** 2
            if case.get("epsilon") is not None:
                tol += 10 * float(case["epsilon"]) * max(1.0, L) * (1 + abs(fe))
            if case.get("finite_diff_rel_step") is not None and mode != "none":
                # a user-chosen relative step h: the differencing error is of order h (times the curvature and the size of x)
                tol += 10 * float(case["finite_diff_rel_step"]) * max(1.0, L) * (1 + abs(fe))
            if not abs(ff - fe) <= tol:
                out["prop"].append({"what": f"objective value of the {mode} run differs from the exact-gradient run beyond the accuracy of the scheme",
                                    "key": "", "detail": {"f_fd": ff, "f_exact": fe, "tol": tol, "msg_fd": r.message, "msg_exact": E.result.message}})
            out["tags"].append("compared_with_exact=True")
    # narrow / far boxes: a variable that the exact-gradient run drives onto a bound, the gradient pushing
    # outward there, must end on the same bound in the finite-difference run
    if p.convex and case.get("tweak") in ("narrow", "far") and mode != "cs":
        kwE, _, _ = build(case)
        kwE["jac"] = p.grad
        E = Run(kwE).execute()
        if E.exc is None and not E.nonfinite() and "PGTOL" in E.result.message and r.success:
            xe, xf = np.asarray(E.result.x, dtype=float), np.asarray(r.x, dtype=float)
            ge = np.atleast_1d(p.grad(xe.copy()))
            gs = float(np.max(np.abs(ge))) or 1.0
            strong = np.abs(ge) > 1e-3 * gs
            onl = (xe == p.lb) & (ge > 0) & strong & (p.lb != p.ub)
            onu = (xe == p.ub) & (ge < 0) & strong & (p.lb != p.ub)
            badi = [int(i) for i in np.where((onl & (xf != p.lb)) | (onu & (xf != p.ub)))[0]]
            if badi:
                i = badi[0]
                out["prop"].append({"what": f"{mode} run leaves a variable inside a narrow box where the exact-gradient run drives it onto a bound "
                                            "(objective values differ beyond the accuracy of the scheme)", "key": "",
                                    "detail": {"i": i, "x_fd": float(xf[i]), "x_exact": float(xe[i]), "lb": float(p.lb[i]), "ub": float(p.ub[i]),
                                               "g_i": float(ge[i]), "f_fd": float(r.fun), "f_exact": float(E.result.fun)}})
            out["tags"].append("narrow_compared_with_exact=True")
    if r.nit >= 1:
        out["nontrivial"] = f"{case['seed']}:{mode}:{case.get('tweak')}:{case.get('epsilon')}:{case.get('finite_diff_rel_step')}"
    if case["seed"] % 53 == 0:
        out["sample"] = {"case": case, "problem": p.name, "message": r.message, "nit": int(r.nit), "nfev": int(r.nfev),
                         "fd_gradients": len(run.rec.FD), "gradients_at_a_bound": at_bound}
    return out


def run(tier: str, seed: int) -> int:
    n = 480 if tier == "quick" else 6000
    cases: List[Dict[str, Any]] = []
    for i in range(n):
        s = seed * 1_000_003 + i
        r = random.Random(s)
        mode = MODES[i % 4]
        feat = {"jac": mode, "callback": r.choice(["none", "false"]), "ftarget": "none", "gtol_callable": False,
                "scaler": "none", "update": "none"}
        c: Dict[str, Any] = {"seed": s, "features": feat,
                             "families": r.choice([["qp", "qp_quartic", "qp_softplus"]] * 3 + [["bench"], ["rosen", "styb"]]),
                             "box": r.choice(["both", "both", "mixed", "lower", "upper", "degenerate"]),
                             "small_budgets": False,
                             "override": {"maxiter": 200, "maxfun": 15000, "maxls": 20, "ftol": r.choice([1e-5, 0.0, 0.0]), "gtol": r.choice([1e-5, 1e-6])},
                             "compare": True}
        if i % 5 == 1:
            # ... and together with a gradient scaler (the differencing works on the unscaled objective)
            feat["scaler"] = "const"
            feat["s"] = r.choice([0.25, 0.5, 2.0, 4.0, 3.0, 0.1])
        k = i % 10
        if k == 7:
            c["tweak"] = "narrow"
        elif k == 8:
            c["tweak"] = "micro"
        elif k == 9:
            c["tweak"] = "far"
            c["override"]["gtol"] = 1e-5
        e = r.choice([None, None, None, 1e-6, 1e-10, 1e-3])
        rs = r.choice([None, None, None, 1e-6, 1e-3])
        if mode != "none":
            c["epsilon"] = e
            c["finite_diff_rel_step"] = rs
        if i % 12 in (5, 6):
            # '2-point' / '3-point' with the default step on an objective that returns single-precision values
            c.update({"value_dtype": "float32", "epsilon": None, "finite_diff_rel_step": None, "families": ["qp", "qp_quartic", "qp_softplus"]})
            c.pop("tweak", None)
            feat["scaler"] = "none"
            c["override"]["ftol"] = 0.0
        cases.append(c)
    return run_property(
        PROP, "harness.props.c16", THEOREMS, MODULES, cases, tier, seed,
        rule="runs in the four differencing modes on convex families and the package's benchmark functions, boxes with active bounds at the "
             "start / at the solution, narrow (1e-10..1e-6) and tiny-scale boxes, eps / rel_step settings: no exception, every evaluated point "
             "(stencils included) in the box exactly, nfev = objective calls, njev = gradients, value compared with the exact-gradient run on "
             "convex problems (whatever message the finite-difference run carries, budgets apart), a fifth of the runs with a constant gradient scaler, a sixth on objectives returning float32 values (default steps; at least half of the exact-gradient run's decrease); replayed through the Lean driver model; non-trivial = at least one iteration",
        assumptions=["objectives finite on the box", "line searches of up to 20 trials (with a single trial per search a run may give up far from the solution whatever the gradient)", "value comparison only when the exact-gradient run stops on the projected-gradient test (ftol = 0) and the finite-difference run is not stopped by a budget"])


def replay(path: str) -> int:
    import json
    d = json.load(open(path))
    c = d["case"].get("case")
    if c is None:
        print(json.dumps(d["case"], indent=1)[:3000])
        return 1
    out = evaluate(c)
    print("prop:", out["prop"][:3], "corr:", (out["corr"] or [])[:3])
    return 1 if (out["prop"] or out["corr"]) else 0
