"""C03 — see DESIGN.md §4."""
from harness.props.shellprops import evaluate, gen_cases  # noqa: F401
from harness.runner import run_property
from harness.props import c03_cfg as K

PROP = "C03"


def run(tier: str, seed: int) -> int:
    n = K.N_QUICK if tier == "quick" else K.N_THOROUGH
    cases = gen_cases(PROP, n, seed, K.MONITORS, K.features, **K.COMMON)
    # corpus first: runs in which a rejected pair is immediately followed by a failed line search and a memory reset (what is kept at the
    # reset decides from where the run goes on), and fresh seeds of that family
    from harness.gen import reset_corpus_cases
    cases = reset_corpus_cases(K.MONITORS, [seed * 1_000_003 + 800_000 + i for i in range(n // 12)]) + cases
    return run_property(PROP, "harness.props.c03", K.THEOREMS, K.MODULES, cases, tier, seed,
                        rule=K.RULE, assumptions=K.ASSUMPTIONS)


def replay(path: str) -> int:
    import json
    d = json.load(open(path))
    c = d["case"].get("case")
    if c is None:
        print(json.dumps(d["case"], indent=1)[:3000])
        return 1
    out = evaluate(c)
    print("corr:", out["corr"], "skipped:", out["skipped"])
    print("prop:", out["prop"])
    return 1 if (out["prop"] or out["corr"]) else 0
