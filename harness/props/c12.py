"""C12 — on unconstrained problems the iterates are those of reference Algorithm 778.

  * "seq": unconstrained objectives (QP+quartic, QP+softplus, Rosenbrock n <= 8), maxcor 1..8: the
    sequence of points at which the objective is evaluated during the first 12 iterations is
    compared with the one of scipy.optimize.minimize(method="L-BFGS-B") for the same memory size —
    until the first line search in which one of the port's three documented deviations is
    triggered (detected from the port's own line-search trace), or the iterates enter the
    round-off regime. The port's run is replayed bit for bit through the Lean driver model.
  * "opt": the convex box problems of C01: both implementations reach the same optimal value.
"""
from __future__ import annotations

import random
from typing import Any, Dict, List

import numpy as np

from harness import shell
from harness.runner import run_property
from harness.trace import Run

PROP = "C12"
THEOREMS = ["Lbfgsb.C12.linesearch_constants_are_reference", "Lbfgsb.C12.memory_defaults_are_reference",
            "Lbfgsb.C12.theta_formula_is_reference", "Lbfgsb.C12.first_step_formula_is_reference", "Lbfgsb.C12.theta_model",
            "Lbfgsb.C12.iter0_step_cap", "Lbfgsb.C12.inv_chain_inverts_bfgs_chain", "Lbfgsb.C12.newton_point_is_two_loop",
            "Lbfgsb.C12.newton_point_is_two_loop_nopairs", "Lbfgsb.C12.complete_iteration_is_lbfgs", "Lbfgsb.C12.state_is_lbfgs",
            "Lbfgsb.C12.run_iteration_is_lbfgs", "Lbfgsb.C12.state_is_lbfgs_data", "Lbfgsb.C12.state_is_lbfgs_data0", "Lbfgsb.C12.run_iteration_is_lbfgs_data",
            "Lbfgsb.C12.complete_iteration_is_lbfgs_data"]
MODULES = ["LbfgsbVerif.Props.C12", "LbfgsbVerif.Props.C12Newton", "LbfgsbVerif.Props.C12Run"]
EPS = float(np.finfo(float).eps)


def pre_build():
    import sys
    sys.path.insert(0, str(__import__("harness.common", fromlist=["VERIF"]).VERIF / "translate"))
    import defaults2lean
    defaults2lean.main()


def two_loop(theta, S, Y, g):
    """textbook L-BFGS two-loop recursion with H0 = I/theta; pairs = columns of S, Y, oldest first"""
    q = np.array(g, dtype=float)
    m = S.shape[1]
    al = np.zeros(m)
    for j in range(m - 1, -1, -1):
        rho = 1.0 / float(Y[:, j] @ S[:, j])
        al[j] = rho * float(S[:, j] @ q)
        q = q - al[j] * Y[:, j]
    r = q / theta
    for j in range(m):
        rho = 1.0 / float(Y[:, j] @ S[:, j])
        r = r + (al[j] - rho * float(Y[:, j] @ r)) * S[:, j]
    return r


def quasi_newton_points(run: Run):
    """what the theorem run_iteration_is_lbfgs says of the model, looked at on the real code: on an unconstrained problem the point
    each iteration aims its line search at is x - twoLoop(I/theta, stored pairs)(g) (x - g/theta with an empty memory)"""
    n, worst = 0, None
    for k, e in enumerate(run.rec.xbar):
        if "xbar" not in e:
            continue
        x, g = e["x"], e["g"]
        if e["use_factor"]:
            S, Y = np.atleast_2d(e["S"]), np.atleast_2d(e["Y"])
            if not (np.einsum("ij,ij->j", S, Y) > 0).all():
                continue
            d = two_loop(e["theta"], S, Y, g)
            cs = min(float(S[:, j] @ Y[:, j]) / (np.linalg.norm(S[:, j]) * np.linalg.norm(Y[:, j]) + 1e-300) for j in range(S.shape[1]))
        else:
            d, cs = g / e["theta"], 1.0
        want = x - d
        sc = max(1.0, float(np.abs(want).max()), float(np.abs(x).max()))
        err = float(np.abs(np.asarray(e["xbar"], dtype=float) - want).max()) / sc
        n += 1
        if err * max(cs, 1e-12) > 1e-9 and worst is None:
            worst = {"iteration": k, "rel_err": err, "min_cos_s_y": cs, "pairs": int(S.shape[1]) if e["use_factor"] else 0}
    return n, worst


def scipy_points(p, x0, bounds, maxcor, maxiter, gtol):
    from scipy.optimize import minimize
    pts: List[np.ndarray] = []

    def fg(x):
        pts.append(np.array(x, copy=True))
        return float(p.fun(x)), np.atleast_1d(p.grad(x)).astype(float)
    res = minimize(fg, np.array(x0, copy=True), jac=True, method="L-BFGS-B", bounds=bounds,
                   options={"maxcor": maxcor, "maxiter": maxiter, "ftol": 0.0, "gtol": gtol, "maxls": 20, "maxfun": 100000})
    return pts, res


def port_points(run: Run, n: int) -> List[np.ndarray]:
    from harness.common import hexv
    out, last = [], None
    for kd, k in run.rec.calls:
        if kd != "F":
            continue
        if k != last:
            out.append(np.array(hexv(k)))
        last = k
    return out


def deviation_horizon(run: Run):
    """(number of leading evaluation points unaffected by a documented deviation, which deviation)"""
    npts = 1            # the start
    for e in run.rec.ls:
        evaluated = [c["out"][0] for c in e["dc"] if c["out"][1][:2] == b"FG"]
        final = e["dc"][-1]["out"][1] if e["dc"] else b""
        if e["nit"] == 0 and not e["is_boxed"]:
            dn = float(np.sqrt(e["d"].dot(e["d"])))
            if dn < 1.0:
                return npts, "unit first step for a short gradient"
            if any(s >= 1.0 for s in evaluated):
                return npts + max(0, [i for i, s in enumerate(evaluated) if s >= 1.0][0]), "first-iteration step cap"
        npts += len(evaluated)
        if not evaluated or final[:4] != b"CONV" or e.get("ret") is None or float(e["ret"]) != float(evaluated[-1]):
            return npts, "lowest trial accepted instead of the last (or line search not converged)"
    return npts, None


def evaluate(case: Dict[str, Any]) -> Dict[str, Any]:
    out: Dict[str, Any] = {"corr": [], "skipped": None, "tags": [f"kind={case['kind']}"], "prop": []}
    kw, desc, p = shell.build(case)
    run = Run(kw).execute()
    if run.nonfinite() or run.exc is not None:
        return {"corr": None, "skipped": None, "tags": ["nonfinite-or-failing"], "prop": []}
    corr, skipped = shell.replay(run)
    out["skipped"] = skipped
    if corr is not None:
        out["corr"] += corr
    else:
        out["corr"] = None
    out["tags"] += shell.basic_tags(run, desc, p) + [f"maxcor={kw['maxcor']}"]
    r = run.result
    if case["kind"] == "seq":
        P = port_points(run, p.n)
        Q, sres = scipy_points(p, kw["x0"], None, kw["maxcor"], kw["maxiter"], kw["gtol"])
        h, why = deviation_horizon(run)
        # a trial point is x + step * d: a difference between the two implementations' x and d (rounding: they compute the same direction
        # by different formulas) is multiplied by the step, which extrapolation makes as large as 341
        amp = [1.0]
        for e_ in run.rec.ls:
            amp += [max(1.0, float(c_["out"][0])) for c_ in e_["dc"] if c_["out"][1][:2] == b"FG"]
        amp = list(np.maximum.accumulate(amp))      # (an accepted long step carries its error into every later point)
        out["tags"].append(f"deviation={why or 'none'}")
        m = min(h, len(P), len(Q))
        ncmp = 0
        fprev = None
        for j in range(m):
            a, b = P[j], Q[j]
            sc = 1.0 + float(np.abs(a).max())
            # round-off regime: the objective no longer changes beyond its resolution
            fa = float(p.fun(a.copy()))
            if fprev is not None and abs(fa - fprev) <= 1e4 * EPS * max(1.0, abs(fa)) and j > 2:
                out["tags"].append("entered_roundoff_regime")
                break
            fprev = fa
            if not float(np.abs(a - b).max()) <= 1e-6 * sc * (amp[j] if j < len(amp) else 1.0):
                out["prop"].append({"what": f"evaluation point #{j} differs from the reference implementation (SciPy L-BFGS-B, maxcor={kw['maxcor']}) "
                                            f"before any documented deviation is triggered", "key": "",
                                    "detail": {"index": j, "max_abs_diff": float(np.abs(a - b).max()), "horizon": h, "deviation_after": why,
                                               "problem": p.name, "n_port": len(P), "n_scipy": len(Q)}})
                break
            ncmp += 1
        else:
            if why is None and len(P) != len(Q) and min(len(P), len(Q)) == m and r.nit < kw["maxiter"] and False:
                pass
        out["tags"].append(f"points_compared<={5 * ((ncmp + 4) // 5)}")
        nq, wq = quasi_newton_points(run)
        out["tags"].append(f"quasi_newton_points_checked<={5 * ((nq + 4) // 5)}")
        if wq is not None:
            out["prop"].append({"what": "on an unconstrained problem the point an iteration aims its line search at is not the L-BFGS quasi-Newton "
                                        "point x - H g of the stored pairs (two-loop recursion from I/theta)", "key": "", "detail": wq})
        if ncmp >= 6:
            out["nontrivial"] = f"{case['seed']}:{kw['maxcor']}"
        if case["seed"] % 41 == 0:
            out["sample"] = {"case": case, "problem": p.name, "points_port": len(P), "points_scipy": len(Q), "compared": ncmp,
                             "deviation": why, "nit": int(r.nit)}
    else:
        from scipy.optimize import minimize
        s = minimize(lambda x: float(p.fun(x)), np.array(kw["x0"], copy=True), jac=lambda x: np.atleast_1d(p.grad(x)).astype(float),
                     method="L-BFGS-B", bounds=[(None if not np.isfinite(l) else l, None if not np.isfinite(u) else u) for l, u in zip(p.lb, p.ub)],
                     options={"maxcor": kw["maxcor"], "maxiter": 5000, "ftol": 0.0, "gtol": kw["gtol"], "maxfun": 100000})
        fp, fs = float(p.fun(np.asarray(r.x, dtype=float).copy())), float(s.fun)
        x = np.asarray(r.x, dtype=float)
        rng = np.random.default_rng(case["seed"] + 11)
        noise = EPS * max(1.0, abs(fp))
        for _ in range(8):
            xp = np.clip(x * (1.0 + EPS * rng.choice([-1.0, 0.0, 1.0], size=x.size)), p.lb, p.ub)
            noise = max(noise, abs(float(p.fun(xp.copy())) - fp))
        tol = 1e-9 * (1.0 + abs(fs)) + 1e3 * noise + 10 * kw["gtol"] ** 2 * 1e4
        pg_ref = p.pg(np.asarray(s.x, dtype=float))
        if fp < fs - tol and pg_ref > 100 * kw["gtol"]:
            # the reference itself stopped away from a first-order point (recomputed projected
            # gradient above the tolerance) while the port went lower: nothing to compare
            out["tags"].append("reference-stopped-early")
        elif not abs(fp - fs) <= tol:
            out["prop"].append({"what": "optimal value differs from the reference implementation on a convex box problem", "key": "",
                                "detail": {"f_port": fp, "f_scipy": fs, "tol": tol, "msg_port": r.message, "msg_scipy": str(s.message), "problem": p.name}})
        if r.nit >= 2:
            out["nontrivial"] = f"opt:{case['seed']}"
    return out


def run(tier: str, seed: int) -> int:
    nseq, nopt = (500, 200) if tier == "quick" else (6000, 2500)
    cases: List[Dict[str, Any]] = []
    for i in range(nseq):
        s = seed * 1_000_003 + i
        r = random.Random(s)
        fam = r.choice([["qp_quartic"], ["qp_softplus"], ["rosen"], ["smooth_l1"]])
        cases.append({"seed": s, "kind": "seq", "families": fam, "box": "none", "small_budgets": False,
                      "n": r.randint(2, 8) if fam == ["rosen"] else None,
                      # (a tenth of the objectives run a nested optimisation of their own at every call: the reference implementation
                      # cannot be disturbed by it, the port must not be either)
                      "features": {"jac": "callable", "callback": "none", "ftarget": "none", "gtol_callable": False, "scaler": "none", "update": "none",
                                   "nested_inner": i % 10 == 7, "mutating_user": False},
                      "override": {"ftol": 0.0, "gtol": 1e-10, "maxiter": 12, "maxfun": 100000, "maxcor": r.randint(1, 8), "maxls": 20}})
    for i in range(nopt):
        s = seed * 1_000_003 + 700_000 + i
        r = random.Random(s)
        cases.append({"seed": s, "kind": "opt", "families": ["qp", "qp_quartic", "qp_softplus"], "small_budgets": False,
                      "features": {"jac": "callable", "callback": "none", "ftarget": "none", "gtol_callable": False, "scaler": "none", "update": "none"},
                      "override": {"ftol": 0.0, "gtol": r.choice([1e-6, 1e-8]), "maxiter": 5000, "maxfun": 100000, "maxcor": r.randint(1, 10), "maxls": 20}})
    return run_property(
        PROP, "harness.props.c12", THEOREMS, MODULES, cases, tier, seed, pre_build=pre_build,
        rule="evaluation-point sequences of the first 12 iterations against scipy.optimize.minimize(method='L-BFGS-B') with the same maxcor "
             "(1..8) on unconstrained QP+quartic / QP+softplus / QP+smoothed-l1 (sharp valleys) / Rosenbrock, compared (1e-6 relative) up to the first line search that triggers a "
             "documented deviation or to the round-off regime; optimal values on the convex box problems of C01; the port's run replayed "
             "through the Lean driver model; on every iteration of the unconstrained runs the point handed to the line search is compared with a textbook "
             "two-loop recursion on the stored pairs (1e-9 / min cos(s, y)); non-trivial = at least 6 points compared",
        assumptions=["SciPy's L-BFGS-B (a translation of L-BFGS-B 3.0) is the reference Algorithm 778"])


def replay(path: str) -> int:
    import json
    d = json.load(open(path))
    c = d["case"].get("case")
    if c is None:
        print(json.dumps(d["case"], indent=1)[:3000])
        return 1
    out = evaluate(c)
    print("prop:", out["prop"][:3], "corr:", (out["corr"] or [])[:3])
    return 1 if (out["prop"] or out["corr"]) else 0
