"""C02 — see DESIGN.md §4. Besides the whole-run cases (shellprops), the input validation
`lbfgsb.base.get_bounds` is compared with its Lean model (Model/Bounds.lean, driver command
`getbounds`): accepted/rejected alike, error kind, returned arrays bit for bit — the theorem
C02 `getBounds_ok` (an accepted call yields a well-formed box containing the start) is about
that model."""
import math
import random

import numpy as np

from harness import shell
from harness.common import fhex, vhex
from harness.props.shellprops import evaluate as evaluate_run, gen_cases
from harness.runner import run_property
from harness.props import c02_cfg as K

PROP = "C02"

_ERR = [("x0 cannot be an empty vector", "emptyX"), ("Length of x0 != length of bounds", "lenMismatch"),
        ("lower bounds is greater", "lbGtUb"), ("violating", "x0Outside")]


def gen_bounds_case(seed: int):
    r = random.Random(seed)
    n = r.choice([0, 1, 1, 2, 3, 4, 6])
    vals = [0.0, -0.0, 1.0, -1.0, 0.1, 1e-300, 1e300, math.inf, -math.inf, 2.5, -3.75, 1 / 3]
    x0 = [r.choice(vals[:7] + [2.5, -3.75, 1 / 3]) if r.random() < 0.5 else r.uniform(-5, 5) for _ in range(n)]
    mode = r.choice(["none", "valid", "valid", "valid", "reversed", "outside", "short", "long", "mixed", "nan"])
    if mode == "none":
        return {"x0": x0, "bounds": None, "mode": mode}
    m = n if mode not in ("short", "long") else max(0, n + (-1 if mode == "short" else 1))
    b = []
    for i in range(m):
        xi = x0[i] if i < n else 0.0
        kind = r.choice(["both", "lower", "upper", "free", "equal", "inf"])
        lo = xi - abs(r.choice([0.0, 1e-12, 0.5, 3.0]))
        hi = xi + abs(r.choice([0.0, 1e-12, 0.5, 3.0]))
        if kind == "lower":
            hi = None
        elif kind == "upper":
            lo = None
        elif kind == "free":
            lo, hi = None, None
        elif kind == "equal":
            lo = hi = xi
        elif kind == "inf":
            lo, hi = -math.inf, math.inf
        b.append([lo, hi])
    if mode == "reversed" and b:
        j = r.randrange(len(b))
        b[j] = [1.0, r.choice([0.5, 1.0 - 2 ** -52, -math.inf])]
    if mode == "outside" and b and n:
        j = r.randrange(min(len(b), n))
        d = r.choice([1.0, 1e-9, abs(x0[j]) * 2 ** -52 + 5e-324])
        b[j] = [x0[j] + d, x0[j] + d + 1.0] if r.random() < 0.5 else [x0[j] - d - 1.0, x0[j] - d]
    if mode == "mixed" and b:
        for j in range(len(b)):
            if r.random() < 0.3:
                b[j] = [r.choice([None, -math.inf, 0.0]), r.choice([None, math.inf, 0.0])]
    if mode == "nan" and b:
        j = r.randrange(len(b))
        b[j][r.randrange(2)] = math.nan
    return {"x0": x0, "bounds": b, "mode": mode}


def evaluate_bounds(case):
    from lbfgsb.base import get_bounds
    out = {"corr": [], "skipped": None, "tags": [f"bounds_mode={case['mode']}"], "prop": []}
    x0 = np.array(case["x0"], dtype=float)
    if case["seed"] % 5 == 0:
        # the start handed over in single precision (its values, exactly representable in double precision, are what the model gets)
        x0 = x0.astype(np.float32)
        out["tags"].append("bounds_x0_float32")
    b = case["bounds"]
    try:
        lb, ub = get_bounds(x0, None if b is None else [tuple(p) for p in b])
        impl = f"getbounds ok {vhex(lb)} {vhex(ub)}"
        # the property side, judged directly: a box of the size of x0 with lb <= x0 <= ub
        if not (len(lb) == len(ub) == len(x0) > 0) or bool((lb > ub).any()) or bool((x0 < lb).any()) or bool((x0 > ub).any()):
            out["prop"].append({"what": "get_bounds accepted a malformed box or a start outside it", "key": "",
                                "detail": {"x0": case["x0"], "bounds": b}})
        # ... and it is the box the caller gave: every finite bound as given, None / missing bounds infinite
        if len(lb) == len(ub) == len(x0):
            want_lb = np.array([-np.inf if (b is None or b[j][0] is None) else float(b[j][0]) for j in range(len(x0))], dtype=float)
            want_ub = np.array([np.inf if (b is None or b[j][1] is None) else float(b[j][1]) for j in range(len(x0))], dtype=float)
            if vhex(lb) != vhex(want_lb) or vhex(ub) != vhex(want_ub):
                out["prop"].append({"what": "get_bounds returns other bounds than the caller gave (points would be kept in a different box)", "key": "",
                                    "detail": {"x0": case["x0"], "x0_dtype": str(x0.dtype), "bounds": b, "lb": np.asarray(lb).tolist(), "ub": np.asarray(ub).tolist()}})
        out["tags"].append("bounds_accepted=True")
    except ValueError as e:
        kind = next((k for pat, k in _ERR if pat in str(e)), "other:" + str(e)[:60])
        impl = f"getbounds err {kind}"
        out["tags"].append(f"bounds_error={kind}")
    except Exception as e:  # not one of the documented errors
        impl = f"getbounds exc {type(e).__name__}"
        out["tags"].append(f"bounds_exc={type(e).__name__}")
    if b is None:
        line = f"getbounds {vhex(x0.astype(float))} none -"
    else:
        lo = ",".join("N" if p[0] is None else fhex(p[0]) for p in b) or "-"
        hi = ",".join("N" if p[1] is None else fhex(p[1]) for p in b) or "-"
        line = f"getbounds {vhex(x0.astype(float))} {lo} {hi}"
    got = shell.driver().run([line])
    if not got or got[0] != impl:
        out["corr"].append(f"get_bounds: implementation {impl!r} model {(got or [''])[0]!r}")
    if impl.startswith("getbounds ok") and len(x0) > 1:
        out["nontrivial"] = f"bounds:{case['seed']}"
    return out


def evaluate(case):
    if case.get("kind") == "bounds":
        return evaluate_bounds(case)
    return evaluate_run(case)


def run(tier: str, seed: int) -> int:
    n = K.N_QUICK if tier == "quick" else K.N_THOROUGH
    cases = gen_cases(PROP, n, seed, K.MONITORS, K.features, **K.COMMON)
    nb = 1500 if tier == "quick" else 30000
    for i in range(nb):
        s = seed * 7_000_003 + i
        cases.append({"kind": "bounds", "seed": s, **gen_bounds_case(s)})
    return run_property(PROP, "harness.props.c02", K.THEOREMS, K.MODULES, cases, tier, seed,
                        rule=K.RULE, assumptions=K.ASSUMPTIONS)


def replay(path: str) -> int:
    import json
    d = json.load(open(path))
    c = d["case"].get("case")
    if c is None:
        print(json.dumps(d["case"], indent=1)[:3000])
        return 1
    out = evaluate(c)
    print("corr:", out["corr"], "skipped:", out["skipped"])
    print("prop:", out["prop"])
    return 1 if (out["prop"] or out["corr"]) else 0
