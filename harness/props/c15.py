"""C15 — the function wrapper never serves a stale value and counts every evaluation once.

P: theorems in LbfgsbVerif/Props/C15.lean about Model/SF.lean.
T: exhaustive history differential ScalarFunction (real) vs SF.step (Lean, Float).
S: the property's own oracle (fresh evaluation, counters = calls) on the real wrapper.
"""
from __future__ import annotations

import itertools
import json
import multiprocessing as mp
import random
from typing import Any, Dict, List, Tuple

import numpy as np

from harness.common import Driver, Report, fhex, lean_build_and_audit, vhex, vshex

PROP = "C15"
THEOREMS = [
    "Lbfgsb.C15.sf_refines",
    "Lbfgsb.C15.no_reeval",
    "Lbfgsb.C15.counters_eq_calls",
    "Lbfgsb.C15.fd_counts",
]
MODULES = ["LbfgsbVerif.Props.C15"]

PTS = [np.array([0.5, -1.25]), np.array([2.0, 0.75]), np.array([-0.0, 3.0])]
LB = np.array([-4.0, -4.0])
UB = np.array([4.0, 3.0])  # PTS[2] sits on the upper bound (one-sided stencils)
# TODO second alphabet with a degenerate side
SCALES = [0.25, 3.0]
MODES = ["callable", "callable_buf", "2-point", "3-point", "cs", None]
CALLABLE = ("callable", "callable_buf")   # callable_buf: the user's gradient writes into one buffer and returns it every time


def F(x):
    return float(np.real(100.0 * (x[1] - x[0] ** 2) ** 2 + (1 - x[0]) ** 2 + np.sin(x[0])))


def Fc(x):  # complex-capable (cs mode)
    return 100.0 * (x[1] - x[0] ** 2) ** 2 + (1 - x[0]) ** 2 + np.sin(x[0])


def Gr(x):
    return np.array([
        -400.0 * x[0] * (x[1] - x[0] ** 2) - 2 * (1 - x[0]) + np.cos(x[0]),
        200.0 * (x[1] - x[0] ** 2),
    ])


def pkey(p) -> str:
    p = np.asarray(p)
    if np.iscomplexobj(p):
        return vhex(list(p.real) + list(p.imag))
    return vhex(p)


class Rec:
    """a real ScalarFunction with logging user functions"""

    def __init__(self, mode):
        from lbfgsb.scalar_function import prepare_scalar_function
        self.calls: List[Tuple[str, str]] = []
        self.mode = mode

        def scribble(x):
            # user code that works in place on what it is handed: the wrapper must hand out private copies
            try:
                if isinstance(x, np.ndarray) and x.flags.writeable:
                    x[...] = 555.0
            except (ValueError, TypeError):
                pass

        fbuf = np.empty(1)

        def f(x):
            self.calls.append(("F", pkey(x)))
            v = Fc(x) if mode == "cs" else F(x)
            scribble(x)
            if mode not in ("cs", "callable"):
                # an objective that returns a one-element array it owns and overwrites at its next call (the value must be taken
                # out of it, not kept as a view)
                fbuf[0] = v
                return fbuf
            return v

        buf = np.empty(2)

        def g(x):
            self.calls.append(("G", pkey(x)))
            if mode == "callable_buf":
                buf[:] = Gr(x)
                scribble(x)
                return buf
            gv = Gr(x)
            scribble(x)
            return gv

        jac = g if mode in CALLABLE else mode
        self.x0arr = PTS[0].copy()   # the caller keeps (and may overwrite) the array it constructed with
        self.sf = prepare_scalar_function(f, self.x0arr, jac=jac, bounds=(LB, UB), epsilon=1e-7)
        # a second wrapper, alive at the same time, with other differencing settings and its own objective — never used:
        # whatever a wrapper needs belongs to the instance (a user may run two optimisations side by side or nested)
        other = "3-point" if mode != "3-point" else "2-point"
        self.decoy = prepare_scalar_function(lambda x: 1.0 + 0.5 * float(np.sum(np.asarray(x).real ** 2)), PTS[1].copy() + 0.125, jac=other,
                                             bounds=(LB - 5.0, UB + 5.0), epsilon=1e-3)


def symbols(extra: bool) -> List[Tuple[str, int]]:
    syms = [(op, j) for op in ("fun", "grad", "fg") for j in range(3)]
    if extra:
        # "mut": the caller overwrites in place the array it passed last (or constructed with);
        # "samefun"/"samefg": the caller passes that very array object again
        # "scribble": the caller overwrites in place the gradient array it received last
        syms += [("scale", 0), ("scale", 1), ("mut", 0), ("samefun", 0), ("samefg", 0), ("scribble", 0)]
    return syms


def run_python(mode, hist) -> Tuple[List[str], List[str]]:
    """returns (driver op lines, expected output lines) for one history on the real wrapper"""
    r = Rec(mode)
    sf = r.sf
    ops = [f"sf.new {'callable' if mode in CALLABLE else 'fd'} {vhex(PTS[0])} {vhex(LB)} {vhex(UB)}"]
    exp = ["ok"]
    last = r.x0arr
    lastj = 0
    lastg = None
    for op, j in hist:
        if op == "scribble":
            # the caller overwrites the last gradient it was handed; value semantics in the model: nothing happens
            if lastg is not None:
                lastg[:] = 777.0
            continue
        if op == "scale":
            sf.scaling_factor = SCALES[j]
            ops.append(f"sf.scale {fhex(SCALES[j])}")
            exp.append("unit")
            continue
        if op == "mut":
            # the caller overwrites, in place, the array it passed last (value becomes the
            # next alphabet point); the model has value semantics, so nothing happens there
            lastj = (lastj + 1) % 3
            last[:] = PTS[lastj]
            continue
        if op.startswith("same"):
            op, j, arr = op[4:], lastj, last      # the very same array object
        else:
            arr = PTS[j].copy()
        last, lastj = arr, j
        if op == "fun":
            v = sf.fun(arr)
            ops.append(f"sf.fun {vhex(PTS[j])}")
            exp.append(f"val {fhex(v)} {sf.nfev} {sf.ngev}")
        elif op == "grad":
            g = sf.grad(arr)
            ops.append(f"sf.grad {vhex(PTS[j])}")
            exp.append(f"grad {vhex(g)} {sf.nfev} {sf.ngev}")
            lastg = g
        else:
            v, g = sf.fun_and_grad(arr)
            ops.append(f"sf.fg {vhex(PTS[j])}")
            exp.append(f"both {fhex(v)} {vhex(g)} {sf.nfev} {sf.ngev}")
            lastg = g
    ops.append("sf.log")
    exp.append("log " + " ".join(f"{k}:{p}" for k, p in r.calls))
    return ops, exp


def fresh_fd(mode, x) -> np.ndarray:
    """the finite-difference gradient at x computed from scratch: SciPy's routine with the value f(x) evaluated
    here and now, stencil points projected on the box as the package does, zero for fixed components"""
    from scipy.optimize._numdiff import approx_derivative

    def fn(z):
        if np.iscomplexobj(z):
            return Fc(z)
        return F(np.clip(z, LB, UB))
    if mode is None:    # jac=None: forward differences with the absolute step `epsilon` the wrapper was built with
        g = approx_derivative(fn, np.array(x, dtype=float), f0=F(x), method="2-point", rel_step=None, abs_step=1e-7, bounds=(LB, UB))
    else:
        g = approx_derivative(fn, np.array(x, dtype=float), f0=F(x), method=mode, rel_step=None, abs_step=None, bounds=(LB, UB))
    return np.where(LB == UB, 0.0, np.atleast_1d(g))


def oracle_check(mode, hist) -> List[str]:
    """the property itself, on the real wrapper, with an independent oracle (fresh evaluation)."""
    r = Rec(mode)
    sf = r.sf
    errs = []
    scale = 1.0
    last = r.x0arr
    lastj = 0
    cur_pt, f_done, g_done = None, False, False
    held: List[List[Any]] = []     # [array handed out, its value then, scribbled by the caller?]
    for k, (op, j) in enumerate(hist):
        # an answer handed out earlier must not change afterwards (unless the caller itself wrote into it)
        for h_ in held:
            if not h_[2] and vhex(h_[0]) != h_[1]:
                errs.append(f"op{k}: a gradient handed out earlier changed afterwards (it aliases the wrapper's or the user's buffer)")
                h_[2] = True
        if op == "scribble":
            if held:
                held[-1][0][:] = 777.0
                held[-1][2] = True
            continue
        if op == "scale":
            sf.scaling_factor = SCALES[j]
            scale = SCALES[j]
            continue
        if op == "mut":
            lastj = (lastj + 1) % 3
            last[:] = PTS[lastj]
            continue
        if op.startswith("same"):
            op, j, arr = op[4:], lastj, last
        else:
            arr = PTS[j].copy()
        last, lastj = arr, j
        n0 = len(r.calls)
        nf0 = sum(1 for c in r.calls if c[0] == "F")
        if op == "fun":
            v = sf.fun(arr)
            if fhex(v) != fhex(F(PTS[j]) * scale):
                errs.append(f"op{k}: fun({j}) stale/wrong value")
        elif op == "grad":
            g = sf.grad(arr)
            held.append([g, vhex(g), False])
            if mode in CALLABLE and vhex(g) != vhex(Gr(PTS[j]) * scale):
                errs.append(f"op{k}: grad({j}) stale/wrong value")
            if mode not in CALLABLE and vhex(g) != vhex(fresh_fd(mode, PTS[j]) * scale):
                errs.append(f"op{k}: grad({j}) differs from the finite-difference gradient computed afresh at that point")
        else:
            v, g = sf.fun_and_grad(arr)
            held.append([g, vhex(g), False])
            if fhex(v) != fhex(F(PTS[j]) * scale):
                errs.append(f"op{k}: fun_and_grad({j}) stale/wrong f")
            if mode in CALLABLE and vhex(g) != vhex(Gr(PTS[j]) * scale):
                errs.append(f"op{k}: fun_and_grad({j}) stale/wrong g")
            if mode not in CALLABLE and vhex(g) != vhex(fresh_fd(mode, PTS[j]) * scale):
                errs.append(f"op{k}: fun_and_grad({j}) gradient differs from the finite-difference gradient computed afresh")
        new = r.calls[n0:]
        # not re-evaluated at the point it was last evaluated at: consecutive requests at
        # one point (whatever their kind, whatever scale changes in between) evaluate the
        # objective there at most once, the gradient at most once
        if cur_pt != j:
            cur_pt, f_done, g_done = j, False, False
        nF = sum(1 for c in new if c == ("F", pkey(PTS[j])))
        nG = sum(1 for c in new if c == ("G", pkey(PTS[j])))
        if nF > 1 or (f_done and nF > 0):
            errs.append(f"op{k}: objective re-evaluated at the point it was last evaluated at")
        if nG > 1 or (g_done and nG > 0):
            errs.append(f"op{k}: gradient re-evaluated at the point it was last evaluated at")
        f_done = f_done or nF > 0
        g_done = g_done or nG > 0
        if sf.nfev != sum(1 for c in r.calls if c[0] == "F"):
            errs.append(f"op{k}: nfev={sf.nfev} != F calls")
        if mode in CALLABLE and sf.ngev != sum(1 for c in r.calls if c[0] == "G"):
            errs.append(f"op{k}: ngev={sf.ngev} != G calls")
    return errs


def table_lines() -> List[str]:
    """F/G/FD tables for the alphabet (each FD mode has its own stencil => own driver run)."""
    lines = []
    for p in PTS:
        lines.append(f"F {vhex(p)} {fhex(F(p))}")
        lines.append(f"G {vhex(p)} {vhex(Gr(p))}")
    return lines


def fd_table(mode) -> List[str]:
    import lbfgsb.scalar_function as sfm
    lines = []
    real = sfm.approx_derivative
    raw = []

    def spy(*a, **k):
        raw.append(real(*a, **k))
        return raw[-1]
    for p in PTS:
        r = Rec(mode)
        sfm.approx_derivative = spy
        try:
            r.sf.grad(p.copy())
        finally:
            sfm.approx_derivative = real
        g = raw[-1]  # what the differencing routine returned (the model post-processes it)
        fcalls = [c[1] for c in r.calls if c[0] == "F"]
        # first call is F(p) itself, the rest are the stencil
        pts = fcalls[1:]
        for q in pts:
            lines.append(f"F {q} {fhex(0.0)}")
        lines.append(f"FD {vhex(p)} {fhex(F(p))} {';'.join(pts) if pts else '_'} {vhex(g)}")
    return lines


def _work(args):
    mode, hists = args
    out = []
    for h in hists:
        ops, exp = run_python(mode, h)
        errs = oracle_check(mode, h)
        out.append((h, ops, exp, errs))
    return mode, out


def chunks(it, n):
    buf = []
    for x in it:
        buf.append(x)
        if len(buf) == n:
            yield buf
            buf = []
    if buf:
        yield buf


def run(tier: str, seed: int) -> int:
    rep = Report(PROP, tier, seed)
    st = lean_build_and_audit(THEOREMS, MODULES, thorough=(tier == "thorough"))
    rep.add_lean(st, THEOREMS)
    rng = random.Random(seed)
    L9, L12 = (4, 4) if tier == "quick" else (6, 5)
    nrand = 500 if tier == "quick" else 5000
    jobs = []
    for mode in MODES:
        Lm = L9 if mode in CALLABLE or tier == "quick" else 5
        hs = itertools.product(symbols(False), repeat=Lm)
        for ch in chunks(hs, 4000):
            jobs.append((mode, ch))
    for ch in chunks(itertools.product(symbols(True), repeat=L12), 4000):
        jobs.append(("callable", ch))
    for ch in chunks(itertools.product(symbols(True), repeat=L12 - 1), 4000):
        jobs.append(("callable_buf", ch))
    rnd = []
    for _ in range(nrand):
        mode = rng.choice(MODES)
        n = rng.randint(7, 40)
        rnd.append((mode, [tuple(rng.choice(symbols(True)) for _ in range(n))]))
    jobs += rnd
    drv = Driver() if st.build_ok else None
    mismatches: List[Dict[str, Any]] = []
    prop_fail: List[Dict[str, Any]] = []
    fdt = {m: fd_table(m) for m in MODES if m not in CALLABLE}
    base = table_lines()
    with mp.Pool(16) as pool:
        for mode, out in pool.imap_unordered(_work, jobs, chunksize=1):
            lines = ["reset"] + base + (fdt[mode] if mode not in CALLABLE else [])
            expected = []
            for h, ops, exp, errs in out:
                lines += ops
                expected += exp
                rep.evaluations += 1
                rep.count(f"mode={mode}")
                rep.count(f"len={len(h)}")
                if any(o in ("scale", "mut", "samefun", "samefg", "scribble") for o, _ in h):
                    rep.count("with_scale_or_mutation")
                if len(set(j for o, j in h if o in ("fun", "grad", "fg"))) > 1 or any(o == "mut" for o, _ in h):
                    rep.nontrivial.add((str(mode), tuple(h)))
                if errs:
                    prop_fail.append({"mode": mode, "history": h, "errors": errs})
            if len(rep.samples) < 3:
                h, ops, exp, _ = out[len(out) // 2]
                rep.samples.append({"mode": mode, "history": h, "driver_ops": ops[:4], "expected": exp[:4]})
            if drv is None:
                continue
            got = drv.run(lines)
            if got != expected:
                # locate the first differing history
                i = 0
                for h, ops, exp, errs in out:
                    g = got[i:i + len(exp)]
                    if g != exp:
                        mismatches.append({"mode": mode, "history": h, "impl": exp, "model": g})
                        break
                    i += len(exp)
    rep.rule = (f"all histories of length {L9} over {{fun,grad,fun_and_grad}}x3 points in every gradient mode, "
                f"all histories of length {L12} with scale changes and caller-side mutation (of the point arrays and, in place, of the gradient "
                f"arrays handed out: every answer is kept and must stay what it was), the same of length {L12 - 1} with a user gradient that "
                f"reuses one output buffer, {nrand} random histories "
                "of length 7..40; non-trivial = touches at least two distinct points")
    rep.extra["exhaustive"] = True
    rep.extra["traces_validated_against_impl"] = rep.evaluations
    rep.add_obligation("correspondence: ScalarFunction == SF.step on every history", not mismatches and drv is not None,
                       f"{len(mismatches)} disagreeing histories")
    # verdicts
    for pf in sorted(prop_fail, key=lambda d: len(d["history"]))[:3]:
        rep.violation("wrapper answer/counter differs from a fresh evaluation: " + pf["errors"][0], pf, True)
    broken = (not st.ok) or mismatches or drv is None
    if broken and not prop_fail:
        what = []
        if not st.ok:
            what.append("theorems no longer check: " + ", ".join(st.failed_obligations(THEOREMS)) or "lean build/audit")
        if mismatches:
            what.append("correspondence SF.step vs ScalarFunction broken")
        case = {"broken": what, "lean_log": st.build_log[-1500:] if not st.ok else "",
                "disagreement": sorted(mismatches, key=lambda d: len(d["history"]))[:1]}
        rep.violation("; ".join(what), case, False)
    return rep.finish()


def replay(path: str) -> int:
    d = json.load(open(path))
    case = d["case"]
    if "history" in case:
        h = [tuple(x) for x in case["history"]]
        errs = oracle_check(case["mode"], h)
        print("replay", case["mode"], h, "->", errs or "property holds")
        return 1 if errs else 0
    print(json.dumps(case, indent=1)[:3000])
    return 1
