THEOREMS = ["Lbfgsb.C02.evals_in_box", "Lbfgsb.C02.fixed_never_move", "Lbfgsb.C02.clip_lands_in_box", "Lbfgsb.C02.getBounds_ok", "Lbfgsb.xbarModel_inBox", "Lbfgsb.evals_in_box_complete"]
MODULES = ["LbfgsbVerif.Props.C02", "LbfgsbVerif.Props.C02Bounds", "LbfgsbVerif.Props.Kernels"]
MONITORS = ["C02"]
N_QUICK, N_THOROUGH = 400, 4000
COMMON = {"zero_bounds": True}
ASSUMPTIONS = ["objectives finite-valued on the box (no NaN)", "SciPy approx_derivative keeps its stencil inside the bounds it is given (monitored on every call)"]
RULE = ("random runs: convex and non-convex families and the package's benchmarks, all box kinds (bounds with non-representable "
        "values, a quarter of the finite bounds exactly zero), starts given as float32/float16 arrays, objectives that run a nested bounded finite-difference optimisation of their own, all gradient modes, random maxcor/maxls/maxiter/maxfun; every point received by fun/jac/callback and the result "
        "is tested with exact comparisons; non-trivial = at least one iteration performed; plus calls of get_bounds on generated valid and "
        "malformed inputs (None entries, equal/reversed/NaN/infinite bounds, wrong lengths, empty start, start outside by one ulp), each "
        "compared with the Lean model of the validation (accept/reject, error kind, arrays bit for bit)")


def features(r):
    return {"jac": r.choice(["callable", "callable", "2-point", "3-point", "cs", "none"]),
            "callback": r.choice(["none", "false"]),
            "ftarget": "none", "gtol_callable": False,
            "scaler": r.choice(["none", "none", "const"]),
            "x0_dtype": r.choice(["float64"] * 5 + ["float32", "float32", "float16"]),
            "nested_inner": r.random() < 0.12,
            "update": "none"}
