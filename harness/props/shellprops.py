"""Common evaluate() for the properties decided on whole runs of minimize_lbfgsb
(C02, C03, C04, C05): the same execution is replayed through the Lean shell model and fed to
the property's own monitor."""
from __future__ import annotations

import random
from typing import Any, Dict, List

import numpy as np

from harness import shell
from harness.trace import Run

MONITORS = {
    "C02": lambda run, p, kw: shell.mon_c02(run, p),
    "C03": shell.mon_c03,
    "C04": shell.mon_c04,
    "C05": shell.mon_c05,
    "C18": shell.mon_c18,
}


def evaluate(case: Dict[str, Any]) -> Dict[str, Any]:
    """one run, or a chain of restarts (case["chain"] = per-leg overrides; every leg after the
    first restarts from the previous leg's result)"""
    legs = case.get("chain") or [{}]
    out: Dict[str, Any] = {"corr": [], "skipped": None, "tags": [], "prop": []}
    prev = None
    prev_scaled = False
    ncomp = 0
    shared: Dict[str, Any] = {}
    for li, leg in enumerate(legs):
        kw, desc, p = shell.build(case)
        leg = dict(leg)
        x0_kind = leg.pop("x0_kind", None)
        kw.update(leg)
        # the same callable criteria objects are handed to every leg of a chain (what a user restarting in one process does)
        for name in ("ftarget", "gtol"):
            if callable(kw.get(name)):
                kw[name] = shared.setdefault(name, kw[name])
        if prev is not None:
            kw["x0"] = np.array(prev.x, copy=True)
            kw["checkpoint"] = prev
            if x0_kind == "ulp":
                # a start that equals the checkpoint's point only up to rounding: the package may refuse it (an exception ends the
                # chain), but if it accepts the call the result has to be coherent like any other
                j = case["seed"] % kw["x0"].size
                kw["x0"][j] = np.nextafter(kw["x0"][j], np.inf if case["seed"] % 2 else -np.inf)
                kw["x0"] = np.clip(kw["x0"], p.lb, p.ub)
            elif x0_kind == "float32":
                kw["x0"] = np.clip(kw["x0"].astype(np.float32).astype(float), p.lb, p.ub)
            shell.CK_SCALED[id(prev)] = prev_scaled
        run = Run(kw).execute()
        if x0_kind is not None and run.exc is not None:
            out["tags"].append("perturbed-restart-refused")
            break
        if "C02" in case["monitors"] and np.isfinite(np.asarray(kw["x0"], dtype=float)).all() and run.nonfinite_points():
            out["prop"].append({"what": "a point with NaN / infinite coordinates was handed to the user's functions or returned (finite start; such a "
                                        "point is in no box)" + (" (after restart)" if li > 0 else ""), "key": "",
                                "detail": {"bounds_spelling": desc["features"].get("bounds_spelling")}})
            break
        if run.nonfinite() and p.desc.get("family") == "nan_edge" and run.result is not None:
            # an objective that is NaN beyond the edge of its domain (by construction finite at the start): no replay (the model's
            # oracle tables hold finite values), but the monitors apply — a NaN trial value is not lower than anything, so no accepted
            # iterate may have one
            out["tags"].append("nan_edge_objective_hit_nan")
            for m in case["monitors"]:
                if m == "C03":
                    for v in MONITORS[m](run, p, kw):
                        out["prop"].append(dict(v))
            break
        if run.nonfinite():
            # overflow / nan in the user's functions: outside the quantifier of every property
            out["tags"].append("nonfinite-objective-domain")
            break
        corr, skipped = shell.replay(run)
        if skipped:
            out["skipped"] = skipped
        elif corr is not None:
            ncomp += 1
            out["corr"] += [f"leg {li}: {d}" for d in corr]
        out["tags"] += shell.basic_tags(run, desc, p) if li == 0 else [f"restart_leg_msg={run.result.message if run.result is not None else 'exc'}"]
        for m in case["monitors"]:
            for v in MONITORS[m](run, p, kw):
                v = dict(v)
                if li > 0:
                    v["what"] = v["what"] + " (after restart)"
                out["prop"].append(v)
        r = run.result
        if r is None:
            break
        if li == 0 and r.nit >= 1:
            out["nontrivial"] = f"{case['seed']}:{sorted((case.get('features') or {}).items())}:{legs}"
        if li == 0 and case["seed"] % 97 == 0:
            out["sample"] = {"case": case, "problem": p.name, "cfg": desc["cfg"], "features": desc["features"],
                             "message": r.message, "nit": int(r.nit), "nfev": int(r.nfev),
                             "user_calls": len(run.rec.calls), "dcsrch_calls": sum(len(e["dc"]) for e in run.rec.ls)}
        prev = r
        prev_scaled = prev_scaled or kw.get("gradient_scaler") is not None
    if len(legs) > 1:
        out["tags"].append(f"chain_len={len(legs)}")
    if ncomp == 0 and not out["skipped"]:
        out["corr"] = None
    return out


def gen_chain(r, maxlegs=4):
    """restart chain: maxiter per leg (cumulative), sometimes a reduced maxcor, sometimes a leg
    that performs no iteration (maxiter below the checkpoint's nit)"""
    n = r.randint(2, maxlegs)
    legs = []
    k = r.choice([0, 0, 1, 2, 3, 5])
    for i in range(n):
        leg = {"maxiter": k}
        if i > 0 and r.random() < 0.3:
            leg["maxcor"] = r.choice([1, 2, 3])
        legs.append(leg)
        k = k + r.choice([-2, 0, 1, 2, 4, 8])
        k = max(k, 0)
    return legs


def gen_cases(prop: str, n: int, seed: int, monitors: List[str], feature_fn, chain_frac: float = 0.0, **common) -> List[Dict[str, Any]]:
    out = []
    for i in range(n):
        s = seed * 1_000_003 + i
        r = random.Random(s)
        c = {"seed": s, "features": feature_fn(r), "monitors": monitors, **common}
        if chain_frac and r.random() < chain_frac:
            c["chain"] = gen_chain(r)
            if (c["features"] or {}).get("scaler", "none") != "none" and r.random() < 0.6:
                # first leg without the scaler: the documented use "restart to apply some scaling"
                c["chain"][0]["gradient_scaler"] = None
        out.append(c)
    return out
