"""Common evaluate() for the properties decided on whole runs of minimize_lbfgsb
(C02, C03, C04, C05): the same execution is replayed through the Lean shell model and fed to
the property's own monitor."""
from __future__ import annotations

import random
from typing import Any, Dict, List

import numpy as np

from harness import shell
from harness.trace import Run

MONITORS = {
    "C02": lambda run, p, kw: shell.mon_c02(run, p),
    "C03": shell.mon_c03,
    "C04": shell.mon_c04,
    "C05": shell.mon_c05,
    "C18": shell.mon_c18,
}


def evaluate(case: Dict[str, Any]) -> Dict[str, Any]:
    kw, desc, p = shell.build(case)
    run = Run(kw).execute()
    corr, skipped = shell.replay(run)
    out: Dict[str, Any] = {"corr": corr, "skipped": skipped, "tags": shell.basic_tags(run, desc, p), "prop": []}
    for m in case["monitors"]:
        out["prop"] += MONITORS[m](run, p, kw)
    r = run.result
    if r is not None and r.nit >= 1:
        out["nontrivial"] = f"{case['seed']}:{sorted((case.get('features') or {}).items())}"
    if case["seed"] % 97 == 0:
        out["sample"] = {"case": case, "problem": p.name, "cfg": desc["cfg"], "features": desc["features"],
                         "message": r.message if r is not None else repr(run.exc),
                         "nit": int(r.nit) if r is not None else None, "nfev": int(r.nfev) if r is not None else None,
                         "user_calls": len(run.rec.calls), "dcsrch_calls": sum(len(e["dc"]) for e in run.rec.ls)}
    return out


def gen_cases(prop: str, n: int, seed: int, monitors: List[str], feature_fn, **common) -> List[Dict[str, Any]]:
    out = []
    for i in range(n):
        s = seed * 1_000_003 + i
        r = random.Random(s)
        out.append({"seed": s, "features": feature_fn(r), "monitors": monitors, **common})
    return out
