"""C11 — line-search steps are feasible, within budget and strictly downhill (stand-alone calls)."""
from __future__ import annotations

import random
from typing import Any, Dict, List

import numpy as np

from harness import shell
from harness.common import fhex, hexf, hexv, vhex
from harness.gen import make_problem
from harness.runner import run_property
from harness.trace import Recorder, _tls, install_patches, pkey, task_class

PROP = "C11"
THEOREMS = ["Lbfgsb.C11.ls_points_in_box", "Lbfgsb.C11.ls_evals_le_cap", "Lbfgsb.C11.ls_result_downhill",
            "Lbfgsb.C11.maxStep_feasible", "Lbfgsb.C11.ls_trials_on_ray", "Lbfgsb.C11.dcsrch_steps_in_range",
            "Lbfgsb.C11.ls_result_in_range", "Lbfgsb.C11.ls_steps_in_range", "Lbfgsb.C11.ls_evals_on_ray", "Lbfgsb.C11.dcsrch_conv_is_wolfe", "Lbfgsb.C11.wolfe_gives_curvature", "Lbfgsb.C11.concreteOracles_stepper",
            "Lbfgsb.C11.concrete_ls_steps_in_range",
            "Lbfgsb.C14.display_evaluates_nothing", "Lbfgsb.C11.maxAllowedStep_units", "Lbfgsb.C11.maxAllowedStep_shift"]
MODULES = ["LbfgsbVerif.Props.C11",
            "LbfgsbVerif.Props.C14", "LbfgsbVerif.Props.C11Units"]


def pre_build():
    import sys
    from harness.common import REPO, VERIF
    sys.path.insert(0, str(VERIF / "translate"))
    import state2lean
    state2lean.main(str(REPO), str(VERIF / "lean" / "LbfgsbVerif" / "Generated" / "State.lean"))


def evaluate(case: Dict[str, Any]) -> Dict[str, Any]:
    install_patches()
    import lbfgsb.main as M
    from lbfgsb.scalar_function import prepare_scalar_function
    out: Dict[str, Any] = {"corr": None, "skipped": None, "tags": [], "prop": []}
    r = random.Random(case["seed"])
    p = make_problem(case["seed"], families=case["families"], box=case.get("box"))
    rng = np.random.default_rng(case["seed"] + 5)
    # a feasible start, possibly after a few projected-gradient moves so that it is not x0 only
    x0 = np.clip(p.x0 + (rng.uniform(-0.3, 0.3, p.n) if r.random() < 0.5 else 0.0), p.lb, p.ub)
    rec = Recorder()

    nested = bool(case.get("nested"))
    inner_runs = [0]

    def inner_search():
        """a second line search, with the same tolerances, run while the outer one is in progress (the objective of the
        outer problem is itself computed with the package: value function of an inner problem)"""
        rec_outer, _tls.rec = _tls.rec, None
        try:
            c_ = np.array([0.3, -0.2])
            fi = lambda z: float(0.5 * np.sum((z - c_) ** 2))   # noqa: E731
            gi = lambda z: z - c_                               # noqa: E731
            z0 = np.array([4.0, 3.0])
            lbi, ubi = np.array([-1e6, -1e6]), np.array([1e6, 1e6])
            sfi = prepare_scalar_function(fi, z0.copy(), jac=gi, bounds=(lbi, ubi))
            # a short direction: the inner search has to extrapolate (its minimiser along the ray is at a step of 100)
            M.line_search(z0.copy(), fi(z0), gi(z0), -0.01 * gi(z0), lbi, ubi, 1, 1e8, True, sfi, ftol, gtol, xtol, 20)
            inner_runs[0] += 1
        finally:
            _tls.rec = rec_outer

    def f(x):
        k = pkey(x)
        rec.calls.append(("F", k))
        v = p.fun(x)
        rec.F[k] = fhex(v)
        if nested:
            inner_search()
        return v

    def g(x):
        k = pkey(x)
        rec.calls.append(("G", k))
        v = p.grad(x)
        rec.G[k] = vhex(np.atleast_1d(v))
        return v

    f0 = float(p.fun(x0.copy()))
    g0 = np.atleast_1d(p.grad(x0.copy())).astype(float)
    if not (np.isfinite(f0) and np.isfinite(g0).all()):
        return {"corr": None, "skipped": None, "tags": ["nonfinite"], "prop": []}
    scale = r.choice([1.0, 1.0, 10.0, 0.1, 100.0])
    d = np.clip(x0 - scale * g0, p.lb, p.ub) - x0          # feasible (projected) descent direction
    if not np.any(d != 0) or not g0.dot(d) < 0:
        return {"corr": None, "skipped": None, "tags": ["no-descent-direction"], "prop": []}
    above_iter = r.choice([0, 0, 1, 3])
    cap = r.randint(1, 20)
    ftol, gtol, xtol = r.choice([1e-3, 1e-4, 1e-2]), r.choice([0.9, 0.5, 0.1]), r.choice([0.1, 1e-3])
    maxstep_user = r.choice([1e8, 1e8, 5.0, 1.0])
    is_boxed = not (np.isinf(p.lb).any() or np.isinf(p.ub).any())
    sf = prepare_scalar_function(f, x0.copy(), jac=g, bounds=(p.lb, p.ub))
    # a third of the calls with a logger at a verbose display level: what is displayed must cost no evaluation
    import logging
    iprint = case.get("iprint", -1)
    logger = None
    if iprint >= 0:
        logger = logging.getLogger("harness.c11.null")
        logger.propagate = False
        logger.setLevel(logging.INFO)
        if not logger.handlers:
            logger.addHandler(logging.NullHandler())
    _tls.rec = rec
    try:
        stp = M.line_search(x0.copy(), f0, g0.copy(), d.copy(), p.lb, p.ub, above_iter, maxstep_user, is_boxed, sf,
                            ftol, gtol, xtol, cap, iprint, logger)
    finally:
        _tls.rec = None
    if any(not np.isfinite(hexf(v)) for v in rec.F.values()):
        return {"corr": None, "skipped": None, "tags": ["nonfinite"], "prop": []}
    ent = rec.ls[-1]
    nF = sum(1 for k, _ in rec.calls if k == "F")
    out["tags"] += [f"family={p.desc['family']}", f"above_iter={above_iter}", f"cap<={5 * ((cap + 4) // 5)}",
                    f"returned={'None' if stp is None else 'step'}",
                    f"last_task={task_class(ent['dc'][-1]['out'][1]) if ent['dc'] else 'none'}",
                    f"trials={min(nF, 6)}", f"iprint={iprint}", f"nested_search_inside_objective={nested and inner_runs[0] > 0}"]
    # ---- the property on the real call
    for kind, key in rec.calls:
        v = np.array(hexv(key))
        if (v < p.lb).any() or (v > p.ub).any():
            out["prop"].append({"what": "line search evaluates a point outside the box", "key": ""})
            break
    if nF > cap:
        out["prop"].append({"what": f"line search used {nF} objective evaluations, cap {cap}", "key": ""})
    if stp is not None:
        with np.errstate(divide="ignore", invalid="ignore"):
            t = np.where(d > 0, (p.ub - x0) / d, np.where(d < 0, (p.lb - x0) / d, np.inf))
        feas = min(maxstep_user, float(np.min(t))) if above_iter != 0 else max(1.0, 0.0)
        if not (stp > 0 and stp <= feas * (1 + 1e-12)):
            out["prop"].append({"what": f"returned step {stp} not in (0, max feasible step {feas}]", "key": ""})
        xt = np.clip(x0 + stp * d, p.lb, p.ub)
        if not float(p.fun(xt)) < f0:
            out["prop"].append({"what": "returned step is not strictly downhill", "key": "",
                                "detail": {"f0": f0, "f(step)": float(p.fun(xt)), "stp": float(stp)}})
    # ---- model replay
    L = ["reset", f"cfg.x0 {vhex(x0)}", f"cfg.lb {vhex(p.lb)}", f"cfg.ub {vhex(p.ub)}", "cfg.mode callable",
         "cfg.int 10 50 15000 20",
         "cfg.flt " + " ".join(fhex(v) for v in (1e-5, maxstep_user, ftol, gtol, xtol, 2.2e-16)),
         "cfg.flags 0 0 0", f"cfg.gtol const {fhex(1e-5)}", "cfg.ftarget none"]
    L += [f"F {k} {v}" for k, v in rec.F.items()] + [f"G {k} {v}" for k, v in rec.G.items()]
    key = (vhex(x0 + 0.0), vhex(d + 0.0))
    for i, c in enumerate(ent["dc"]):
        L.append(f"DC {key[0]} {key[1]} {i} {fhex(c['out'][0])} {task_class(c['out'][1])}")
    L.append(f"ls {vhex(x0)} {fhex(f0)} {vhex(g0)} {vhex(d)} {above_iter} {cap}")
    got = shell.driver().run(L)
    exp0 = f"ls {'none' if stp is None else fhex(stp)} {sf.nfev} {sf.ngev}"
    exp1 = "log " + " ".join(f"{k}:{q}" for k, q in rec.calls)
    diffs = []
    if not got or got[0] != exp0:
        diffs.append(f"result: impl {exp0} model {got[:1]}")
    if len(got) < 2 or got[1] != exp1:
        diffs.append("evaluation log differs")
    dc = [l for l in got if l.startswith("oreq dc")]
    if len(dc) != len(ent["dc"]):
        diffs.append(f"dcsrch calls: impl {len(ent['dc'])} model {len(dc)}")
    else:
        for l, c in zip(dc, ent["dc"]):
            _, _, s_, f_, g_, t_ = l.split(" ")
            if f_ != fhex(c["in"][1]) or t_ != task_class(c["in"][3]):
                diffs.append("dcsrch input f/task differ")
                break
            if abs(hexf(s_) - c["in"][0]) > 1e-9 * max(1.0, abs(c["in"][0])):
                diffs.append(f"dcsrch input step differs: impl {c['in'][0]} model {hexf(s_)}")
                break
    # ---- the stepper itself: the Lean model of DCSRCH._iterate + dcstep against every recorded call, bit for bit
    if ent["dc"] and "tols" in ent and all(np.isfinite(c["in"][1]) and np.isfinite(c["in"][2]) for c in ent["dc"]):
        ft, gt, xt_ = ent["tols"]
        ans = ";".join(f"{fhex(c['in'][1])},{fhex(c['in'][2])}" for c in ent["dc"])
        got2 = shell.driver().run([f"dcsrch {fhex(ft)} {fhex(gt)} {fhex(xt_)} {fhex(0.0)} {fhex(ent['stpmax'])} {fhex(ent['dc'][0]['in'][0])} {ans}"])
        exp2 = "dcsrch " + ";".join(f"{fhex(c['out'][0])}:{task_class(c['out'][1])}" for c in ent["dc"])
        if not got2 or got2[0] != exp2:
            diffs.append(f"DCSRCH model differs from scipy's stepper: impl {exp2[:160]} | model {(got2 or [''])[0][:160]}")
        out["tags"].append("stepper_model_compared=True")
    # ---- the bound handed to the stepper: the model's max_allowed_steplength against the recorded stpmax, bit for bit
    if "stpmax" in ent:
        got3 = shell.driver().run([f"maxstep {vhex(x0)} {vhex(d)} {vhex(p.lb)} {vhex(p.ub)} {fhex(maxstep_user)} {above_iter}"])
        if not got3 or got3[0] != f"maxstep {fhex(ent['stpmax'])}":
            diffs.append(f"max_allowed_steplength: impl {ent['stpmax']} model {hexf(got3[0].split()[1]) if got3 else None}")
        out["tags"].append("stpmax_model_compared=True")
    out["corr"] = diffs
    if nF >= 2:
        out["nontrivial"] = str(case["seed"])
    if case["seed"] % 101 == 0:
        out["sample"] = {"seed": case["seed"], "problem": p.name, "above_iter": above_iter, "cap": cap,
                         "returned": None if stp is None else float(stp), "evaluations": nF,
                         "tasks": [task_class(c["out"][1]) for c in ent["dc"]]}
    return out


def run(tier: str, seed: int) -> int:
    n = 2000 if tier == "quick" else 50000
    cases = [{"seed": seed * 1_000_003 + i, "families": ["qp", "qp_quartic", "osc", "osc", "rosen", "styb", "steep", "badscale"],
              "nested": i % 6 == 5, "iprint": [-1, -1, 99, -1, 101, 100][i % 6] if i % 6 != 5 else -1}
             for i in range(n)]
    return run_property(
        PROP, "harness.props.c11", THEOREMS, MODULES, cases, tier, seed, pre_build=pre_build,
        rule="stand-alone calls of line_search: convex and oscillating non-convex objectives, feasible start, direction obtained by "
             "projecting a gradient step, iteration index 0 or later, caps 1..20, tolerances, a third of the calls with a logger at display levels 99..101, a sixth with an objective that itself runs a line search (same tolerances) at every evaluation; evaluated points / count / returned step "
             "checked on the real call; the call is replayed through the Lean model with the recorded DCSRCH answers; non-trivial = "
             "at least two objective evaluations",
        assumptions=["in the driver-level theorems DCSRCH (SciPy) is an arbitrary oracle; its Lean model (Model/Dcsrch.lean) is compared bit for bit "
                     "with every recorded call and proved to propose steps in [0, stpmax] only", "objective finite at the trial points"])


def replay(path: str) -> int:
    import json
    d = json.load(open(path))
    c = d["case"].get("case")
    if c is None:
        print(json.dumps(d["case"], indent=1)[:3000])
        return 1
    out = evaluate(c)
    print("prop:", out["prop"][:3], "corr:", (out["corr"] or [])[:3])
    return 1 if (out["prop"] or out["corr"]) else 0
