THEOREMS = ["Lbfgsb.C05.result_coherent", "Lbfgsb.C05.callback_coherent", "Lbfgsb.C05.counters_eq_log", "Lbfgsb.C05.result_is_ok_checkpoint"]
MODULES = ["LbfgsbVerif.Props.C05"]
MONITORS = ["C05", "C18"]
N_QUICK, N_THOROUGH = 400, 4000
COMMON = {"chain_frac": 0.4}
ASSUMPTIONS = ["objectives finite-valued on the box (no NaN)", "user functions deterministic"]
RULE = ("random runs in all gradient modes, plus a family run far into the stagnation regime (ftol = gtol = 0, hundreds of iterations on small convex problems: the last steps are a few units in the last place); result and every callback state: fun/jac recomputed from the harness's own closures "
        "and compared bit for bit; nfev/njev compared with the harness's call log; non-trivial = at least one iteration")


def features(r):
    return {"jac": r.choice(["callable"] * 4 + ["2-point", "3-point", "none"]),
            "callback": r.choice(["none", "false", "stop"]),
            "ftarget": r.choice(["none", "none", "float"]), "gtol_callable": False,
            "scaler": r.choice(["none", "none", "const", "packaged"]),
            "update": r.choice(["none", "none", "identity"])}
