"""C06 — restarting from a returned result continues the run as if it had not stopped."""
from __future__ import annotations

import random
from typing import Any, Dict, List

import numpy as np

from harness import shell
from harness.runner import run_property
from harness.trace import Run, result_str

PROP = "C06"
THEOREMS = ["Lbfgsb.C06.restore_pairs", "Lbfgsb.C06.restore_keeps_most_recent", "Lbfgsb.C06.restore_roundtrip", "Lbfgsb.C06.restart_noiter_same_pairs",
            "Lbfgsb.C06.restart_state", "Lbfgsb.C06.restart_continues", "Lbfgsb.C06.restart_same_result",
            "Lbfgsb.C06.fresh_rinv", "Lbfgsb.C06.iterBody_rinv", "Lbfgsb.C06.reach_rinv", "Lbfgsb.C06.mainLoop_of_reach", "Lbfgsb.C06.restart_at_every_split", "Lbfgsb.C06.restart_at_every_split_complete"]
MODULES = ["LbfgsbVerif.Props.C06", "LbfgsbVerif.Props.C06Run", "LbfgsbVerif.Props.C06Sim", "LbfgsbVerif.Props.C06Inv"]


def pairs(r):
    sk = np.atleast_2d(r.hess_inv.sk)
    yk = np.atleast_2d(r.hess_inv.yk)
    if sk.size == 0:
        return np.zeros((0, len(r.x))), np.zeros((0, len(r.x)))
    return sk, yk


def close(a, b, scale, rtol=1e-8):
    if a.shape != b.shape:
        return False
    if a.size == 0:
        return True
    return float(np.max(np.abs(a - b))) <= rtol * scale


def evaluate(case: Dict[str, Any]) -> Dict[str, Any]:
    out: Dict[str, Any] = {"corr": [], "skipped": None, "tags": [], "prop": []}
    kw, desc, p = shell.build(case)
    iters: List[Any] = []
    kw["callback"] = lambda xk, st: iters.append(st) or False
    full = Run(kw).execute()
    if full.nonfinite() or full.exc is not None:
        return {"corr": None, "skipped": None, "tags": ["nonfinite-or-failing"], "prop": []}
    out["tags"] += shell.basic_tags(full, desc, p)
    by_nit = {int(st.nit): st for st in iters}
    K = int(full.result.nit)
    ks = [k for k in range(0, K)]
    r = random.Random(case["seed"])
    if len(ks) > case["max_splits"]:
        ks = sorted(set([0, 1, K - 1] + r.sample(ks, case["max_splits"] - 3)))
    ncomp = 0
    for k in ks:
        kwB, _, _ = shell.build(case)
        kwB["maxiter"] = k
        B = Run(kwB).execute()
        if B.exc is not None or B.nonfinite():
            continue
        rB = B.result
        # is the returned x the end of the stored history?  (no: candidate finding K4)
        sane = (not B.rec.curv or B.rec.curv[-1]["accepted"]) and rB.message.startswith("STOP: TOTAL NO. of ITER")
        skB, ykB = pairs(rB)
        scale = max(1.0, float(np.max(np.abs(rB.x))))
        gscale = max(1.0, float(np.max(np.abs(rB.jac))))
        for maxcor2 in case["maxcors"]:
            mc = kwB.get("maxcor", 10) if maxcor2 is None else maxcor2
            # (a) a restart that performs no iteration returns the same (most recent) pairs
            kwC, _, _ = shell.build(case)
            kwC.update(x0=np.array(rB.x, copy=True), checkpoint=rB, maxiter=k, maxcor=mc)
            C = Run(kwC).execute()
            corr, skipped = shell.replay(C)
            if corr is not None:
                ncomp += 1
                out["corr"] += [f"split {k} maxcor {mc}: {d}" for d in corr]
            if C.exc is not None:
                out["prop"].append({"what": f"restart raises {type(C.exc).__name__}: {C.exc}", "key": ""})
                break
            skC, ykC = pairs(C.result)
            m = min(mc, skB.shape[0])
            want_s, want_y = skB[skB.shape[0] - m:], ykB[ykB.shape[0] - m:]
            # sharper, pair by pair: the history is rebuilt as x - (sum of the later steps) and differenced again, so a restored pair may
            # differ from the checkpoint's by a few units in the last place of the LARGEST MAGNITUDE MET FROM THAT PAIR ON (the points
            # between its start and x) — not of the oldest, largest points of the history, which have no part in it
            def suffix_ok(got, want, end):
                if got.shape != want.shape or got.size == 0:
                    return got.shape == want.shape
                mag = np.abs(np.asarray(end, dtype=float)).copy()
                pt = np.asarray(end, dtype=float).copy()
                okk = True
                for i_ in range(want.shape[0] - 1, -1, -1):
                    pt = pt - want[i_]
                    mag = np.maximum(mag, np.abs(pt))
                    if not (np.abs(got[i_] - want[i_]) <= 64 * 2.3e-16 * mag + 1e-300).all():
                        okk = False
                return okk
            if close(skC, want_s, scale) and close(ykC, want_y, gscale) and sane and \
                    not (suffix_ok(skC, want_s, rB.x) and suffix_ok(ykC, want_y, rB.jac)):
                out["prop"].append({"what": "a restart that performs no iteration returns correction pairs that differ from the checkpoint's by more than "
                                            "the rounding of a reconstruction from the current point (the error of the oldest, largest points leaks into the recent pairs)",
                                    "key": "", "detail": {"k": k, "maxcor": mc, "pairs": int(skC.shape[0])}})
                break
            if not (close(skC, want_s, scale) and close(ykC, want_y, gscale)):
                out["prop"].append({"what": "a restart that performs no iteration does not return the (most recent) correction pairs of the checkpoint",
                                    "key": "" if sane else "restart-after-rejected-pair",
                                    "detail": {"k": k, "maxcor": mc, "pairs_ckpt": int(skB.shape[0]), "pairs_restart": int(skC.shape[0])}})
                break
            for fld in ("nit", "nfev", "njev"):
                if int(getattr(C.result, fld)) != int(getattr(rB, fld)):
                    out["prop"].append({"what": f"no-iteration restart changes {fld}", "key": ""})
        # (b) the next iterate equals the uninterrupted run's, up to rounding
        if (k + 1) in by_nit and (k == 0 or k in by_nit):
            kwD, _, _ = shell.build(case)
            kwD.update(x0=np.array(rB.x, copy=True), checkpoint=rB, maxiter=k + 1)
            D = Run(kwD).execute()
            corr, skipped = shell.replay(D)
            if corr is not None:
                ncomp += 1
                out["corr"] += [f"continue from {k}: {d}" for d in corr]
            if D.exc is not None:
                out["prop"].append({"what": f"restart raises {type(D.exc).__name__}: {D.exc}", "key": ""})
                break
            want = np.array(by_nit[k + 1].x, dtype=float)
            got = np.array(D.result.x, dtype=float)
            if float(np.max(np.abs(want - got))) > 1e-6 * max(1.0, float(np.max(np.abs(want)))):
                out["prop"].append({"what": "next iterate after a restart differs from the uninterrupted run",
                                    "key": "" if sane else "restart-after-rejected-pair",
                                    "detail": {"k": k, "diff": float(np.max(np.abs(want - got)))}})
                break
    # (c) chain of restarts: leg by leg the next iterate
    prev = None
    legs = sorted(set(r.sample(range(1, K + 1), min(case["chain"], K)))) if K >= 1 else []
    cur = None
    for tgt in legs:
        kwE, _, _ = shell.build(case)
        kwE["maxiter"] = tgt
        if cur is not None:
            kwE.update(x0=np.array(cur.x, copy=True), checkpoint=cur)
        E = Run(kwE).execute()
        if E.exc is not None or E.nonfinite():
            break
        cur = E.result
    if cur is not None and int(cur.nit) in by_nit:
        want = np.array(by_nit[int(cur.nit)].x, dtype=float)
        got = np.array(cur.x, dtype=float)
        tol = 1e-5 * max(1.0, float(np.max(np.abs(want))))
        rejected = any(not c["accepted"] for c in full.rec.curv)
        if float(np.max(np.abs(want - got))) > tol and p.convex:
            out["prop"].append({"what": "a chain of restarts ends at a different iterate than the uninterrupted run",
                                "key": "restart-after-rejected-pair" if rejected else "",
                                "detail": {"legs": legs, "diff": float(np.max(np.abs(want - got)))}})
    if K >= 2:
        out["nontrivial"] = f"{case['seed']}:{K}"
    out["tags"].append(f"splits={len(ks)}")
    if case["seed"] % 11 == 0:
        out["sample"] = {"case": case, "problem": p.name, "iterations": K, "splits": ks, "chain": legs}
    if ncomp == 0:
        out["corr"] = None
    return out


def features(r):
    return {"jac": "callable", "callback": "none", "ftarget": "none", "gtol_callable": False,
            "scaler": "none", "update": "none"}


def run(tier: str, seed: int) -> int:
    n, ms, ch = (60, 5, 3) if tier == "quick" else (400, 20, 4)
    cases = []
    for i in range(n):
        s = seed * 1_000_003 + i
        r = random.Random(s)
        cases.append({"seed": s, "features": features(r), "max_splits": ms, "chain": ch,
                      "maxcors": [None, r.choice([1, 2, 3])],
                      "families": ["qp", "qp_quartic", "qp_softplus", "rosen", "styb"],
                      "override": {"maxiter": r.choice([4, 8, 14]), "maxfun": 15000, "ftol": 0.0, "gtol": 1e-10,
                                   "maxcor": r.choice([2, 3, 5, 10])}})
    for i in range(n // 3):
        s = seed * 1_000_003 + 700_000 + i
        r = random.Random(s)
        cases.append({"seed": s, "features": features(r), "max_splits": ms, "chain": ch, "maxcors": [None, r.choice([1, 2, 3])],
                      "families": ["decay"],
                      "override": {"maxiter": r.choice([10, 16, 24]), "maxfun": 15000, "ftol": 0.0, "gtol": 1e-12, "maxcor": r.choice([5, 10])}})
    return run_property(
        PROP, "harness.props.c06", THEOREMS, MODULES, cases, tier, seed,
        rule="for each explored run (a quarter of them from far starts, the iterates shrinking by many orders of magnitude) and each split k: run limited to k iterations, restart with no iteration (pairs compared, maxcor kept "
             "and reduced), restart for one more iteration (iterate compared with the uninterrupted run), chain of restarts; every restart "
             "is replayed bit-exactly through the Lean model (restore included); non-trivial = at least two iterations",
        assumptions=["equalities up to rounding: the history is reconstructed as x - cumulative sums", "objectives finite on the box"])


def replay(path: str) -> int:
    import json
    d = json.load(open(path))
    c = d["case"].get("case")
    if c is None:
        print(json.dumps(d["case"], indent=1)[:3000])
        return 1
    out = evaluate(c)
    print("prop:", out["prop"][:3], "corr:", (out["corr"] or [])[:3])
    return 1 if (out["prop"] or out["corr"]) else 0
