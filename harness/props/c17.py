"""C17 — a gradient scaler is equivalent to minimising the explicitly scaled objective."""
from __future__ import annotations

import random
from typing import Any, Dict

import numpy as np

from harness import shell
from harness.common import fhex, hexf, vhex
from harness.runner import run_property
from harness.trace import Run, result_str

PROP = "C17"
THEOREMS = ["Lbfgsb.C17.scaler_called_once", "Lbfgsb.C17.scaler_sees_unscaled", "Lbfgsb.C17.target_on_unscaled",
            "Lbfgsb.C17.scaled_values", "Lbfgsb.C17.scaler_equivalence", "Lbfgsb.C17.unit_scaling_pos", "Lbfgsb.C17.fd_scaling_linear",
            "Lbfgsb.C09.iteration_objective_scale"]
MODULES = ["LbfgsbVerif.Props.C17", "LbfgsbVerif.Props.C17FD",
            "LbfgsbVerif.Props.C09UnitsKernel"]


def evaluate(case: Dict[str, Any]) -> Dict[str, Any]:
    out: Dict[str, Any] = {"corr": [], "skipped": None, "tags": [], "prop": []}
    kw, desc, p = shell.build(case)
    fd_mode = (case.get("features") or {}).get("jac", "callable") != "callable"
    A = Run(kw).execute()
    if A.nonfinite() or A.exc is not None:
        return {"corr": None, "skipped": None, "tags": ["nonfinite-or-failing"], "prop": []}
    corr, skipped = shell.replay(A)
    out["skipped"] = skipped
    if corr is not None:
        out["corr"] += corr
    out["tags"] += shell.basic_tags(A, desc, p)
    s = shell.scale_of(A)
    out["tags"].append(f"s_decade={int(np.floor(np.log10(s))) if s > 0 and np.isfinite(s) else 'x'}")
    # scaler invoked exactly once, with the clipped start, its unscaled gradient and the bounds
    nsc = sum(1 for k, _ in A.rec.calls if k == "SC")
    if int(A.result.njev) == 0 and nsc == 0:
        # the start already satisfies the target: no gradient is ever computed, so there is
        # nothing to scale (the scaler needs the start's gradient)
        out["tags"].append("stopped-before-first-gradient")
        return out
    if nsc != 1:
        out["prop"].append({"what": f"gradient scaler invoked {nsc} times", "key": ""})
    else:
        x, g, lb, ub = A.rec.sc_args
        x0c = np.clip(p.x0, p.lb, p.ub)
        gref = np.atleast_1d(p.grad(x0c.copy()))
        if fd_mode:
            # finite-difference gradient: the unscaled gradient up to the differencing error (fixed components are zeroed)
            gref = np.where(p.lb == p.ub, 0.0, gref)
            g_ok = bool(np.allclose(g, gref, rtol=1e-3, atol=1e-4 * max(1.0, float(np.max(np.abs(gref))))))
        else:
            g_ok = vhex(g) == vhex(gref)
        if vhex(x) != vhex(x0c) or not g_ok or vhex(lb) != vhex(p.lb) or vhex(ub) != vhex(p.ub):
            out["prop"].append({"what": "gradient scaler not called with (start point, its unscaled gradient, bounds)", "key": ""})
    if desc["features"].get("scaler") == "packaged" and nsc == 1 and A.rec.sc and not A.rec.sc.startswith("!"):
        # the packaged scaler against its Lean model (Model/Utils.lean), bit for bit
        x_, g_, lb_, ub_ = A.rec.sc_args
        got = shell.driver().run([f"unitscale {vhex(x_)} {vhex(g_)} {vhex(lb_)} {vhex(ub_)}"])
        if not got or got[0] != f"unitscale {A.rec.sc}":
            out["corr"].append(f"packaged scaler: implementation {A.rec.sc} model {(got or [''])[0]}")
        out["tags"].append("packaged_scaler_model_compared=True")
        if not s > 0:
            out["prop"].append({"what": f"the packaged scaler returned a non-positive factor {s}", "key": ""})
    if not (s > 0 and np.isfinite(s)):
        return out
    # target stop tested on the unscaled value
    if kw.get("ftarget") is not None:
        T = kw["ftarget"]() if callable(kw["ftarget"]) else kw["ftarget"]
        fx = float(p.fun(np.asarray(A.result.x, dtype=float).copy()))
        if A.result.message == "CONVERGENCE: F_<=_TARGET" and not fx <= T + 1e-12 * max(1.0, abs(T)):
            out["prop"].append({"what": "target message but the unscaled objective is above ftarget", "key": "",
                                "detail": {"f(x)": fx, "ftarget": T, "s": s}})
        for e in A.rec.cb:
            fk = float(p.fun(np.asarray(e["state"].x, dtype=float).copy()))
            if fk < T - 1e-12 * max(1.0, abs(T)):
                out["prop"].append({"what": "the run went on although the unscaled objective was already below ftarget", "key": "",
                                    "detail": {"f(x_k)": fk, "ftarget": T, "s": s, "nit": int(e["state"].nit)}})
                break
        if A.result.nit >= 1:
            out["nontrivial"] = f"{case['seed']}"
        if corr is None:
            out["corr"] = None
        return out
    # run B: no scaler, objective s*f, gradient s*grad f
    kwB, _, _ = shell.build(case)
    kwB.pop("gradient_scaler", None)
    f, g = p.fun, p.grad
    kwB["fun"] = lambda x: f(x) * s
    if fd_mode:
        # finite differences of s*f: for s a power of two every operation of the differencing commutes exactly with
        # the scaling, so the two runs must still agree bit for bit
        kwB["jac"] = kw.get("jac")
    else:
        kwB["jac"] = lambda x: np.atleast_1d(g(x)) * s
    B = Run(kwB).execute()
    if B.exc is not None or B.nonfinite():
        return out
    ra, rb = result_str(A.result), result_str(B.result)
    if ra != rb:
        fa, fb = ra.split(" "), rb.split(" ")
        names = ["x", "fun", "jac", "nfev", "njev", "nit", "status", "message", "success", "sk", "yk"]
        bad = [n for n, a, b in zip(names, fa, fb) if a != b]
        out["prop"].append({"what": f"run with scaler s differs from the run on s*f without scaler (fields {bad})", "key": "",
                            "detail": {"s": s, "fields": bad}})
    pa = [c for c in A.rec.calls if c[0] in ("F", "G")]
    pb = [c for c in B.rec.calls if c[0] in ("F", "G")]
    if pa != pb:
        out["prop"].append({"what": "run with scaler s visits different points than the run on s*f without scaler", "key": ""})
    if A.result.nit >= 1:
        out["nontrivial"] = f"{case['seed']}"
    if case["seed"] % 17 == 0:
        out["sample"] = {"case": case, "problem": p.name, "s": s, "nit": int(A.result.nit), "message": A.result.message}
    if corr is None:
        out["corr"] = None
    return out


def run(tier: str, seed: int) -> int:
    n = 200 if tier == "quick" else 3000
    cases = []
    for i in range(n):
        s = seed * 1_000_003 + i
        r = random.Random(s)
        feat = {"jac": "callable", "callback": r.choice(["none", "false"]) if i % 4 else "false",
                "ftarget": "none" if i % 4 else r.choice(["float", "callable", "int", "callable_int"]), "gtol_callable": False,
                "scaler": r.choice(["const", "const", "packaged"]), "s": 10 ** r.uniform(-3, 3), "update": "none"}
        if i % 5 == 2 and feat["scaler"] == "const":
            # the factor as a Python int, a numpy integer, a float32 scalar or a 0-d array (exactly representable values)
            feat["s_type"] = r.choice(["int", "np.int64", "np.float32", "0-d array", "np.float64"])
            feat["s"] = float(r.choice([2, 3, 4, 7, 10, 100])) if feat["s_type"] in ("int", "np.int64") else 2.0 ** r.choice([-4, -2, -1, 1, 3, 5])
        cases.append({"seed": s, "features": feat})
    for i in range(n // 2):
        s = seed * 1_000_003 + 500_000 + i
        r = random.Random(s)
        feat = {"jac": r.choice(["2-point", "3-point", "none"]), "callback": r.choice(["none", "false"]), "ftarget": "none",
                "gtol_callable": False, "scaler": "const", "s": 2.0 ** r.choice([-6, -3, -2, -1, 1, 2, 3, 6]), "update": "none"}
        cases.append({"seed": s, "features": feat, "families": ["qp", "qp_quartic", "rosen", "styb", "osc"]})
    # a share of cases with a target, to exercise "target tested on the unscaled value" (monitor C04 via message truth)
    return run_property(
        PROP, "harness.props.c17", THEOREMS, MODULES, cases, tier, seed,
        rule="pairs of runs: (f, grad f, scaler returning s) against (s*f, s*grad f, no scaler), s log-uniform in [1e-3, 1e3] or the "
             "packaged scaler; results and evaluation-point sequences compared bit for bit; scaler call arguments checked; the scaler run "
             "is replayed through the Lean model; the same pair comparison in the finite-difference modes (2-point, 3-point, None) with s a power of two, "
             "for which the differencing commutes exactly with the scaling; non-trivial = at least one iteration",
        assumptions=["callable gradient, or finite differences with s a power of two (otherwise finite differences of s*f and s*(finite differences of f) differ by rounding)", "ftarget None in the pair comparison"])


def replay(path: str) -> int:
    import json
    d = json.load(open(path))
    c = d["case"].get("case")
    if c is None:
        print(json.dumps(d["case"], indent=1)[:3000])
        return 1
    out = evaluate(c)
    print("prop:", out["prop"][:3], "corr:", (out["corr"] or [])[:3])
    return 1 if (out["prop"] or out["corr"]) else 0
