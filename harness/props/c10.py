"""C10 — the limited-memory matrix is the BFGS matrix of the stored pairs and stays SPD."""
from __future__ import annotations

import copy
import random
from collections import deque
from typing import Any, Dict, List

import numpy as np

from harness import shell
from harness.common import fhex, hexf, hexv, hexvs, vhex, vshex
from harness.runner import run_property

PROP = "C10"
THEOREMS = ["Lbfgsb.C10.kernel_matrix_is_bfgs", "Lbfgsb.CompactBridge.block_compact_eq_bfgs", "Lbfgsb.C10.reject_is_noop", "Lbfgsb.C10.accept_appends_and_drops_oldest", "Lbfgsb.C10.mem_le_maxcor_seq",
            "Lbfgsb.C10.newest_pair_curv", "Lbfgsb.C10.bfgs_symm", "Lbfgsb.C10.bfgs_secant", "Lbfgsb.C10.bfgs_posdef",
            "Lbfgsb.C10.bfgs_chain_posdef", "Lbfgsb.C10.scaled_identity_spd", "Lbfgsb.C10.compact_secant",
            "Lbfgsb.C10.compact_eq_bfgs", "Lbfgsb.C10.compact_eq_bfgs_of_curvature", "Lbfgsb.C10.nonDeg_of_curvature", "Lbfgsb.C10.invM_factorisation", "Lbfgsb.C10.bmv_is_product",
            "Lbfgsb.C10.bfgs_units", "Lbfgsb.C10.bfgsChain_units", "Lbfgsb.C10.bfgsChain_theta_units"]
MODULES = ["LbfgsbVerif.Props.C10Kernel", "LbfgsbVerif.Props.C10", "LbfgsbVerif.Props.C10Compact", "LbfgsbVerif.Props.C10Factor",
            "LbfgsbVerif.Props.C10Units"]


def dense_bfgs(X: List[np.ndarray], G: List[np.ndarray]) -> np.ndarray:
    S = [b - a for a, b in zip(X, X[1:])]
    Y = [b - a for a, b in zip(G, G[1:])]
    n = X[0].size
    theta = float(Y[-1] @ Y[-1] / (S[-1] @ Y[-1])) if S else 1.0
    B = theta * np.eye(n)
    for s, y in zip(S, Y):
        Bs = B @ s
        B = B - np.outer(Bs, Bs) / (s @ Bs) + np.outer(y, y) / (s @ y)
    return B


def compact_bv(mats, v: np.ndarray) -> np.ndarray:
    from lbfgsb.bfgsmats import bmv
    if not mats.use_factor:
        return mats.theta * v
    return mats.theta * v - mats.W @ bmv(mats.invMfactors, mats.W.T @ v)


def mats_digest(m) -> str:
    return "|".join([fhex(m.theta), vshex(np.atleast_2d(m.S)), vshex(np.atleast_2d(m.Y)), vshex(np.atleast_2d(m.W))])


def full_digest(m) -> str:
    return "|".join([fhex(m.theta), vshex(np.atleast_2d(m.S)), vshex(np.atleast_2d(m.Y)), vshex(np.atleast_2d(m.W)),
                     vshex(np.atleast_2d(m.D)), vshex(np.atleast_2d(m.L)),
                     vshex(np.atleast_2d(m.invMfactors[0])), vshex(np.atleast_2d(m.invMfactors[1]))])


def evaluate_insitu(case: Dict[str, Any]) -> Dict[str, Any]:
    """the matrices object inside real runs: what `update_lbfgs_matrices` returned is what the solver still holds at the next update
    (nothing between two updates writes into it), and its blocks are those of the stored pairs"""
    import lbfgsb.main as M
    from harness.trace import Run
    out: Dict[str, Any] = {"corr": None, "skipped": None, "tags": ["kind=in-situ"], "prop": []}
    kw, desc, p = shell.build(case)
    real = M.update_lbfgs_matrices
    st: Dict[str, Any] = {"last": None, "obj": None, "calls": 0, "rej": 0}

    def spy(xk, gk, X, G, maxcor, mats, *a, **k):
        if st["obj"] is mats and st["last"] is not None and full_digest(mats) != st["last"] and not out["prop"]:
            out["prop"].append({"what": "the matrices object was modified between two updates of the memory (a routine that only reads the "
                                        "limited-memory matrix wrote into it)", "key": "", "detail": {"update_call": st["calls"]}})
        nX = len(X)
        r = real(xk, gk, X, G, maxcor, mats, *a, **k)
        st["calls"] += 1
        if len(X) == nX and r is mats:
            st["rej"] += 1
        if r.use_factor and not out["prop"]:
            S, Y = np.atleast_2d(r.S), np.atleast_2d(r.Y)
            if S.shape == Y.shape and np.atleast_2d(r.L).shape == (S.shape[1], S.shape[1]):
                A_ = S.T @ Y
                sc_ = max(1.0, float(np.max(np.abs(A_))))
                if not np.allclose(np.atleast_2d(r.L), np.tril(A_, -1), rtol=0, atol=1e-10 * sc_):
                    out["prop"].append({"what": "the block L of the limited-memory matrix is not the strictly lower part of S'Y of the stored pairs",
                                        "key": "", "detail": {"update_call": st["calls"]}})
        st["obj"], st["last"] = r, full_digest(r)
        return r
    M.update_lbfgs_matrices = spy
    try:
        run = Run(kw).execute()
    finally:
        M.update_lbfgs_matrices = real
    if run.nonfinite():
        return {"corr": None, "skipped": None, "tags": ["nonfinite-objective-domain"], "prop": []}
    out["tags"] += [f"insitu_updates={min(st['calls'], 20)}", f"insitu_rejected_with_memory={st['rej'] > 0}"]
    if st["calls"] >= 3:
        out["nontrivial"] = f"insitu:{case['seed']}"
    return out


def evaluate(case: Dict[str, Any]) -> Dict[str, Any]:
    if case.get("kind") == "insitu":
        return evaluate_insitu(case)
    from lbfgsb.bfgsmats import LBFGSB_MATRICES, update_lbfgs_matrices
    out: Dict[str, Any] = {"corr": [], "skipped": None, "tags": [], "prop": []}
    r = random.Random(case["seed"])
    rng = np.random.default_rng(case["seed"])
    n = r.randint(1, 12)
    maxcor = r.randint(1, 10)
    eps = 2.2e-16
    ncand = r.randint(3, 40)
    # gradients of a convex quadratic, disturbed to produce rejected candidates
    Q, _ = np.linalg.qr(rng.standard_normal((n, n)))
    A = (Q * np.exp(rng.uniform(0, np.log(10 ** r.uniform(0, 3)), n))) @ Q.T
    A = 0.5 * (A + A.T)
    Aneg = A - 2.0 * np.max(np.linalg.eigvalsh(A)) * np.outer(Q[:, 0], Q[:, 0])

    cur = {"A": A}

    # "far" histories live far from the origin (|x| up to 1e7, steps down to 1e-4) and contain candidates whose step is almost
    # orthogonal to the gradient change, with a slightly negative s.y: the curvature test must still be decided on s = x_k - x_old
    far = bool(case.get("far"))
    center = (rng.standard_normal(n) * 10 ** r.uniform(3, 7)) if far else np.zeros(n)

    def grad(x, kind):
        if kind == "convex":
            return cur["A"] @ (x - center)
        if kind == "nonconvex":
            return Aneg @ (x - center) + 0.3 * np.sin(3 * (x - center))
        return None
    x = center + rng.standard_normal(n)
    X, G = deque([x.copy()]), deque([grad(x, "convex")])
    mats = LBFGSB_MATRICES(n)
    refX, refG = [x.copy()], [G[0].copy()]         # reference model of the memory
    cx, cg, flags = [], [], []
    nacc = nrej = 0
    any_force = False
    for t in range(ncand):
        kind = r.choices(["convex", "nonconvex", "zero_y", "same_x", "near_orth", "nonfinite"], [6, 3, 1, 1, 4 if far and n > 1 else 0, 0.6])[0]
        xn = X[-1] + rng.standard_normal(n) * 10 ** (r.uniform(-4, -1) if far else r.uniform(-3, 0.5))
        if kind == "near_orth":
            s_ = xn - X[-1]
            v_ = rng.standard_normal(n)
            if float(s_ @ s_) == 0.0:
                kind = "nonconvex"
            else:
                yp = v_ - (float(v_ @ s_) / float(s_ @ s_)) * s_
                yv = yp - 10 ** r.uniform(-8, -5) * (float(np.linalg.norm(yp)) / float(np.linalg.norm(s_))) * s_
                gn = G[-1] + yv
                out["tags"].append("near_orthogonal_negative_candidate")
        if kind == "near_orth":
            pass
        elif kind == "zero_y":
            gn = G[-1].copy()
        elif kind == "nonfinite":
            # a candidate whose gradient has a NaN or infinite component (an objective evaluated on the edge of its domain): s.y is
            # NaN or infinite, the pair does not satisfy s.y > eps y.y and must be rejected like any other
            gn = G[-1] + rng.standard_normal(n)
            gn[r.randrange(n)] = r.choice([np.nan, np.nan, np.inf, -np.inf])
            out["tags"].append("nonfinite_candidate")
        elif kind == "same_x":
            xn, gn = X[-1].copy(), G[-1] + rng.standard_normal(n)
        else:
            gn = G[-1] + (grad(xn, kind) - grad(X[-1], kind))
        # a share of the steps mimic what main.py does after update_fun_def rewrote the stored gradients
        # (objective switched to another convex quadratic): new deque G, matrices rebuilt by force —
        # also when the candidate pair is rejected
        force = case.get("force", True) and len(X) > 1 and r.random() < 0.25
        any_rewrite_now = bool(force)
        if force:
            Q2, _ = np.linalg.qr(rng.standard_normal((n, n)))
            A2 = (Q2 * np.exp(rng.uniform(0, np.log(10 ** r.uniform(0, 2)), n))) @ Q2.T
            cur["A"] = 0.5 * (A2 + A2.T)
            if case.get("filter", True) and r.random() < 0.4:
                # the new objective is not convex along the stored path: some stored pairs lose positive curvature, and main.py
                # passes the rewritten history through the package's filter before the forced rebuild
                G = deque([cur["A"] @ (xx - center) + (Aneg - A) @ (xx - center) * r.choice([0.5, 1.0]) + 0.3 * np.sin(3 * (xx - center)) for xx in X])
            else:
                G = deque([cur["A"] @ (xx - center) for xx in X])
            from lbfgsb.bfgsmats import make_X_and_G_respect_strong_wolfe
            # reference: walk from the newest point back, keep a point iff it passes the curvature test against the oldest kept so far
            kX, kG = [X[-1]], [G[-1]]
            near_tie = False
            for xo, go in zip(list(X)[-2::-1], list(G)[-2::-1]):
                s_, y_ = kX[0] - xo, kG[0] - go
                sy_, yy_ = float(s_ @ y_), float(y_ @ y_)
                sc_ = float(np.sum(np.abs(s_ * y_)))
                if np.isfinite(sc_) and sc_ > 0 and abs(sy_ - eps * yy_) <= 1e-10 * sc_:
                    near_tie = True
                if sy_ > eps * yy_:
                    kX.insert(0, xo)
                    kG.insert(0, go)
            if near_tie:
                return {"corr": None, "skipped": "tie-band", "tags": [], "prop": []}
            try:
                fX, fG = make_X_and_G_respect_strong_wolfe(X, G, eps, logger=None)
            except Exception as e:
                out["prop"].append({"what": f"the history filter raised {type(e).__name__} on a rewritten history: {e}", "key": ""})
                break
            X, G = deque(fX), deque(fG)
            if vshex(list(X)) != vshex(kX) or vshex(list(G)) != vshex(kG):
                out["prop"].append({"what": "the history kept after a rewrite of the stored gradients is not the one the curvature walk defines "
                                            "(newest point kept; an older point kept iff it passes the test against the oldest point kept so far)",
                                    "key": "", "detail": {"step": t, "kept": len(X), "reference": len(kX)}})
                break
            if len(kX) < len(refX):
                out["tags"].append("filter_dropped_points")
            refX = [x_.copy() for x_ in kX]
            refG = [g_.copy() for g_ in G]
            force = len(X) > 1
            if kind == "nonfinite":
                gn = G[-1] + rng.standard_normal(n)
                gn[r.randrange(n)] = np.nan
            else:
                gn = (cur["A"] @ (xn - center)) if kind == "convex" else (G[-1].copy() if kind in ("zero_y", "same_x") else (G[-1] + yv) if kind == "near_orth" else G[-1] + (grad(xn, kind) - grad(X[-1], kind)))
            if kind == "same_x":
                xn = X[-1].copy()
        before = (vshex(list(X)), vshex(list(G)), mats_digest(mats))
        try:
            mats = update_lbfgs_matrices(xn.copy(), gn.copy(), X, G, maxcor, mats, bool(force), eps)
        except Exception as e:  # the routine itself fails on a valid history: a violation, not a harness failure
            out["prop"].append({"what": f"update_lbfgs_matrices raised {type(e).__name__} on a valid history: {e}", "key": "",
                                "detail": {"step": t, "stored_points": len(X)}})
            break
        if kind == "nonfinite" and not np.isfinite(np.asarray(G[-1], dtype=float)).all():
            out["prop"].append({"what": "a candidate pair with a NaN / infinite gradient component (s.y > eps y.y does not hold) was stored in the memory",
                                "key": "", "detail": {"step": t, "stored_points": len(X)}})
            break
        if any_rewrite_now and len(X) == 1:
            mats = LBFGSB_MATRICES(n)       # main.py: no pair survived the rewrite — back to the initial matrices
        if force or any_rewrite_now:
            out["tags"].append("forced_rebuild")
            any_force = True
        cx.append(xn)
        cg.append(gn)
        s, y = xn - refX[-1], gn - refG[-1]
        accept_ref = float(s @ y) > eps * float(y @ y)
        scale_ = float(np.sum(np.abs(s * y)))
        tie = np.isfinite(scale_) and scale_ > 0 and abs(float(s @ y) - eps * float(y @ y)) <= 1e-10 * scale_
        if tie:
            return {"corr": None, "skipped": "tie-band", "tags": [], "prop": []}
        if accept_ref:
            refX.append(xn.copy())
            refG.append(gn.copy())
            if len(refX) > maxcor + 1:
                refX.pop(0)
                refG.pop(0)
            nacc += 1
        else:
            nrej += 1
            if force:
                out["tags"].append("forced_rebuild_with_rejected_pair")
            if not force and not any_rewrite_now and (vshex(list(X)), vshex(list(G)), mats_digest(mats)) != before:
                out["prop"].append({"what": "a rejected pair modified the memory or the matrices", "key": "", "detail": {"step": t}})
                break
        flags.append(accept_ref)
        if vshex(list(X)) != vshex(refX) or vshex(list(G)) != vshex(refG):
            out["prop"].append({"what": "memory differs from the reference model (bounded FIFO of accepted points, oldest dropped)",
                                "key": "", "detail": {"step": t, "len": len(X), "ref_len": len(refX)}})
            break
        if len(X) > maxcor + 1:
            out["prop"].append({"what": "more than maxcor pairs stored", "key": ""})
            break
        if len(X) >= 2:
            S = np.diff(np.array(X), axis=0)
            Y = np.diff(np.array(G), axis=0)
            sy, yy = np.einsum("ij,ij->i", S, Y), np.einsum("ij,ij->i", Y, Y)
            if not (sy > eps * yy).all():
                out["prop"].append({"what": "a stored pair violates the curvature condition", "key": ""})
                break
            # compact matrix == dense BFGS of the stored pairs, SPD, secant
            B = dense_bfgs(list(X), list(G))
            ev = np.linalg.eigvalsh(0.5 * (B + B.T))
            cond = float(ev[-1] / max(ev[0], 1e-300))
            # pairs of marginal curvature (a rewritten history may keep pairs with s.y barely positive): y y'/(s.y) is then computed
            # with a relative error eps/cos(s, y), whatever the conditioning of the final matrix
            cosmin = float(np.min(sy / (np.linalg.norm(S, axis=1) * np.linalg.norm(Y, axis=1) + 1e-300)))
            cond = cond * max(1.0, 1.0 / max(cosmin, 1e-300))
            # ... and the compact form goes through the 2m x 2m middle matrix, which is ill-conditioned when the stored steps are nearly
            # dependent — always so when there are more pairs than variables (n = 1 with six pairs: B is a 1 x 1 matrix of condition 1
            # while the middle matrix has condition 1e8; first met at seed 8): its conditioning enters the error of the product too
            if mats.use_factor:
                try:
                    cond = max(cond, 1e-7 * float(np.linalg.cond(mats.invMfactors[0] @ mats.invMfactors[1])))
                except Exception:  # noqa: BLE001
                    cond = np.inf
            if cond < 1e9:
                if ev[0] <= 0:
                    out["prop"].append({"what": "dense BFGS matrix of the stored pairs is not positive definite", "key": ""})
                    break
                for _ in range(2):
                    v = rng.standard_normal(n)
                    a, b = compact_bv(mats, v), B @ v
                    if not np.allclose(a, b, rtol=0, atol=1e-8 * cond * max(1.0, float(np.max(np.abs(b))))):
                        out["prop"].append({"what": "compact representation differs from the dense BFGS matrix of the stored pairs",
                                            "key": "", "detail": {"step": t, "err": float(np.max(np.abs(a - b))), "cond": cond, "pairs": len(X) - 1}})
                        break
                snew, ynew = S[-1], Y[-1]
                if accept_ref and not np.allclose(compact_bv(mats, snew), ynew, rtol=0, atol=1e-8 * cond * max(1.0, float(np.max(np.abs(ynew))))):
                    out["prop"].append({"what": "secant equation B s = y fails for the newest pair", "key": ""})
                    break
                if abs(mats.theta - float(ynew @ ynew / (snew @ ynew))) > 1e-10 * abs(mats.theta):
                    out["prop"].append({"what": "theta is not y.y/s.y of the newest stored pair", "key": ""})
                    break
            else:
                out["tags"].append("ill-conditioned-skipped")
        if out["prop"]:
            break
    # ---- Lean model: bookkeeping bit for bit, compact product with a tolerance
    drv = shell.driver()
    lines = [f"mem {maxcor} {fhex(eps)} {vhex(x)} {vhex(grad(x, 'convex'))} {vshex(cx)} {vshex(cg)}"]
    if len(X) >= 2:
        v = rng.standard_normal(n)
        lines.append(f"compact {vshex(list(X))} {vshex(list(G))} {vhex(v)}")
    got = drv.run(lines)
    mem = got[0].split(" ")
    steps, Xm, Gm = mem[1:-2], mem[-2], mem[-1]
    # (the bookkeeping replay knows nothing of gradients rewritten from outside: compared on sequences without one)
    if not any_force and [s.split(":")[0] for s in steps] != ["1" if f else "0" for f in flags[:len(steps)]][:len(steps)] and not out["prop"]:
        out["corr"].append("accept/reject decisions differ between model and reference")
    if not any_force and (Xm != vshex(list(X)) or Gm != vshex(list(G))) and not out["prop"]:
        out["corr"].append("deques after the candidate sequence differ (model vs implementation)")
    if len(got) > 1 and len(X) >= 2 and np.isfinite(np.array(G, dtype=float)).all():
        _, th, bc, bd = got[1].split(" ")
        B = dense_bfgs(list(X), list(G))
        ev = np.linalg.eigvalsh(0.5 * (B + B.T))
        cond = float(ev[-1] / max(ev[0], 1e-300))
        S_ = np.diff(np.array(X), axis=0)
        Y_ = np.diff(np.array(G), axis=0)
        cos_ = np.einsum("ij,ij->i", S_, Y_) / (np.linalg.norm(S_, axis=1) * np.linalg.norm(Y_, axis=1) + 1e-300)
        cond = cond * max(1.0, 1.0 / max(float(np.min(cos_)), 1e-300))
        if cond < 1e9:
            a = compact_bv(mats, v)
            tol = 1e-8 * cond * max(1.0, float(np.max(np.abs(a))))
            if not np.allclose(np.array(hexv(bc)), a, rtol=0, atol=tol):
                out["corr"].append(f"compact B·v: implementation vs Lean model differ by {float(np.max(np.abs(np.array(hexv(bc)) - a))):.2e}")
            if not np.allclose(np.array(hexv(bd)), a, rtol=0, atol=tol):
                out["corr"].append(f"B·v: implementation vs Lean dense recursion differ by {float(np.max(np.abs(np.array(hexv(bd)) - a))):.2e}")
            if abs(hexf(th) - mats.theta) > 1e-10 * abs(mats.theta):
                out["corr"].append("theta differs")
    if mats.use_factor and not out["prop"]:
        from lbfgsb.bfgsmats import bmv
        Minv = mats.invMfactors[0] @ mats.invMfactors[1]
        vv = rng.standard_normal(Minv.shape[0])
        gg = drv.run([f"gauss {vshex(Minv)} {vhex(vv)}"])
        _, x1, x2, piv = gg[0].split(" ")
        if x1 != x2:
            out["corr"].append("the list form and the array form of the model's elimination differ")
        condM = float(np.linalg.cond(Minv))
        if condM < 1e9:
            a = np.asarray(bmv(mats.invMfactors, vv), dtype=float)
            if not np.allclose(np.array(hexv(x1)), a, rtol=0, atol=1e-8 * condM * max(1.0, float(np.max(np.abs(a))))):
                out["corr"].append(f"middle-matrix product: bmv (triangular factors) vs the model's elimination differ by {float(np.max(np.abs(np.array(hexv(x1)) - a))):.2e}")
        out["tags"].append(f"theorem_hypothesis_pivots_nonzero={all(p != 0.0 and p == p for p in hexv(piv))}")
    out["tags"] = sorted(set(out["tags"]))
    out["tags"] += [f"far_from_origin={far}", f"n<={4 * ((n + 3) // 4)}", f"maxcor={maxcor}", f"rejected={nrej > 0}", f"filled={nacc > maxcor}"]
    if nacc >= 2 and nrej >= 1:
        out["nontrivial"] = str(case["seed"])
    if case["seed"] % 97 == 0:
        out["sample"] = {"seed": case["seed"], "n": n, "maxcor": maxcor, "candidates": ncand, "accepted": nacc, "rejected": nrej}
    return out


def run(tier: str, seed: int) -> int:
    n = 500 if tier == "quick" else 10000
    cases = [{"seed": seed * 1_000_003 + i, "far": i % 4 == 3} for i in range(n)]
    for i in range(n // 5):
        s = seed * 1_000_003 + 600_000 + i
        r = random.Random(s)
        cases.append({"seed": s, "kind": "insitu", "families": ["rosen", "styb", "osc", "bench", "qp_quartic"], "box": r.choice(["both", "mixed", "lower"]),
                      "small_budgets": False,
                      "features": {"jac": "callable", "callback": "none", "ftarget": "none", "gtol_callable": False, "scaler": "none", "update": "none"},
                      "override": {"maxiter": 40, "maxfun": 4000, "ftol": 0.0, "gtol": 1e-9, "maxls": r.choice([1, 2, 3, 20]), "maxcor": r.choice([1, 2, 3, 5, 10])}})
    return run_property(
        PROP, "harness.props.c10", THEOREMS, MODULES, cases, tier, seed,
        rule="histories of 3..40 candidate updates (accepted pairs from a convex quadratic, rejected ones from negative curvature, zero y, "
             "zero s), n 1..12, maxcor 1..10, a quarter of them far from the origin (|x| up to 1e7, steps down to 1e-4) with candidates whose step is almost orthogonal to the gradient change (slightly negative s.y): after every candidate the deques are compared with a reference bounded FIFO, stored pairs "
             "with the curvature condition, the compact product B·v (through W, invMfactors, bmv) with the dense BFGS recursion, SPD and "
             "secant; the Lean model replays the bookkeeping bit for bit and its compact and dense products are compared with the "
             "implementation; and in situ: inside real runs on non-convex boxed problems (short line searches, so that pairs get rejected) the matrices object must be, at every update of the memory, bit for bit what the previous update returned, and its block L the strictly lower part of S'Y; non-trivial = at least two accepted and one rejected candidate",
        assumptions=["comparisons of B·v use a tolerance 1e-8·cond(B)/min cos(s, y) over the stored pairs; histories with that number > 1e9 are skipped and counted"])


def replay(path: str) -> int:
    import json
    d = json.load(open(path))
    c = d["case"].get("case")
    if c is None:
        print(json.dumps(d["case"], indent=1)[:3000])
        return 1
    out = evaluate(c)
    print("prop:", out["prop"][:3], "corr:", (out["corr"] or [])[:3])
    return 1 if (out["prop"] or out["corr"]) else 0
