"""C08 — the Cauchy point is the first local minimiser along the projected path."""
from __future__ import annotations

import itertools
import random
from typing import Any, Dict, List

import numpy as np

from harness import shell
from harness.common import fhex, hexv, vhex, vshex
from harness.kernels import PATTERN_ALPHABET, dense_B, kernel_input, model_value, ref_cauchy, scaled_twin, twin_factors
from harness.runner import run_property

PROP = "C08"
THEOREMS = ["Lbfgsb.C01.gcp_first_local_min_curv", "Lbfgsb.C01.kernel_minCtx", "Lbfgsb.C09.middle_product_exact", "Lbfgsb.C09.gcp_first_local_min_solved", "Lbfgsb.C08.order_sorted", "Lbfgsb.C08.order_positive", "Lbfgsb.C08.order_nodup", "Lbfgsb.C08.gcp_in_box", "Lbfgsb.C08.gcp_on_projected_path",
            "Lbfgsb.C08.gcp_first_local_min", "Lbfgsb.C08.gcp_model_le", "Lbfgsb.C08.gcp_model_lt", "Lbfgsb.C08.gcp_model_neg", "Lbfgsb.C08.minCtx_nopairs", "Lbfgsb.C08.middle_symm",
            "Lbfgsb.C08.firstLocalMin_unique", "Lbfgsb.C08.gcp_is_the_first_local_min", "Lbfgsb.C08.cauchy_unconstrained_step", "Lbfgsb.C08.cauchy_point_units", "Lbfgsb.C08.cauchy_units_nofactor",
            "Lbfgsb.C08.cauchy_point_shift", "Lbfgsb.C08.cauchy_shift_nofactor"]
MODULES = ["LbfgsbVerif.Props.C01Curv", "LbfgsbVerif.Props.C09Solve", "LbfgsbVerif.Props.C08", "LbfgsbVerif.Props.C08Path", "LbfgsbVerif.Props.C08Min",
            "LbfgsbVerif.Props.C08Unique", "LbfgsbVerif.Props.C08Free", "LbfgsbVerif.Props.C08Units", "LbfgsbVerif.Props.C08Shift"]


def check_point(inp, xcp, c) -> List[Dict[str, Any]]:
    x, g, lb, ub, mats, n = inp["x"], inp["g"], inp["lb"], inp["ub"], inp["mats"], inp["n"]
    bad = []
    B = dense_B(mats, n)
    ev = np.linalg.eigvalsh(0.5 * (B + B.T))
    cond = float(ev[-1] / max(ev[0], 1e-300))
    if cond > 1e8 or ev[0] <= 0:
        return [{"skip": "ill-conditioned"}]
    if (xcp < lb).any() or (xcp > ub).any():
        bad.append({"what": "Cauchy point outside the box", "key": ""})
        return bad
    ref = ref_cauchy(x, g, lb, ub, B)
    scale = max(1.0, float(np.max(np.abs(x))), float(np.max(np.abs(ref["x"]))))
    tol = 1e-7 * cond * scale
    if model_value(x, g, B, xcp) > 1e-9 * max(1.0, abs(model_value(x, g, B, ref["x"]))) :
        bad.append({"what": "Cauchy point has a larger model value than x", "key": ""})
    if ref["margin"] < 1e-7:
        return bad + [{"skip": "tie-band"}]
    if float(np.max(np.abs(xcp - ref["x"]))) > tol:
        bad.append({"what": "Cauchy point is not the first local minimiser along the projected path",
                    "key": "", "detail": {"err": float(np.max(np.abs(xcp - ref["x"]))), "where": ref["where"], "t*": ref["t"]}})
        return bad
    # variables that reached a bound are pinned exactly
    with np.errstate(divide="ignore", invalid="ignore"):
        t = np.where(g < 0, (x - ub) / g, np.where(g > 0, (x - lb) / g, np.inf))
    t = np.where(g == 0, np.inf, t)
    # (when the search ends exactly at a breakpoint — the model's slope is non-negative right behind it, or every moving
    # variable is fixed — the variables of that breakpoint have reached their bound too)
    at_bp = ref["where"] in ("breakpoint", "all-fixed")
    for i in range(n):
        if (t[i] <= ref["t"] * (1 - 1e-9) or (at_bp and 0 < t[i] <= ref["t"])) and g[i] != 0:
            want = ub[i] if g[i] < 0 else lb[i]
            if xcp[i] != want:
                bad.append({"what": "a variable that reached its bound is not pinned exactly on it", "key": "",
                            "detail": {"i": i, "x_cp_i": fhex(xcp[i]), "bound": fhex(want)}})
                break
    # auxiliary vector = projection of the displacement onto the memory basis, when some variable
    # with a non-zero gradient is still free at the Cauchy point
    # ("still free there" = strictly inside its bounds at the Cauchy point, as get_freev decides; this includes
    # variables with a zero gradient component, which never move)
    free = ((t > ref["t"] * (1 + 1e-9)) & (g != 0)) | ((xcp > lb) & (xcp < ub))
    if mats.use_factor and free.any():
        want = mats.W.T @ (xcp - x)
        if not np.allclose(c, want, rtol=0, atol=1e-7 * cond * max(1.0, float(np.max(np.abs(want))))):
            bad.append({"what": "auxiliary vector c differs from W^T (x_cp - x)", "key": ""})
    return bad


def evaluate(case: Dict[str, Any]) -> Dict[str, Any]:
    from lbfgsb.cauchy import get_cauchy_point
    out: Dict[str, Any] = {"corr": None, "skipped": None, "tags": [], "prop": []}
    pattern = None
    if case.get("pattern") is not None:
        pattern = [PATTERN_ALPHABET[k] for k in case["pattern"]]
    inp = kernel_input(case["seed"], n=case.get("n") or (len(pattern) if pattern else None), pattern=pattern, tie=bool(case.get("tie")), pinned=bool(case.get("pinned")))
    x, g, lb, ub, mats, n = inp["x"], inp["g"], inp["lb"], inp["ub"], inp["mats"], inp["n"]
    if case.get("npairs_zero"):
        from lbfgsb.bfgsmats import LBFGSB_MATRICES
        mats = inp["mats"] = LBFGSB_MATRICES(n)
    pg = float(np.max(np.abs(np.clip(x - g, lb, ub) - x)))
    if pg == 0.0:
        return {"corr": None, "skipped": None, "tags": ["zero-projected-gradient"], "prop": []}
    with np.errstate(all="ignore"):
        xcp, c = get_cauchy_point(x.copy(), g.copy(), lb, ub, mats, 1, -1, None)
    res = check_point(inp, np.asarray(xcp, dtype=float), np.asarray(c, dtype=float))
    if case.get("twin") is not None and not case.get("npairs_zero"):
        # the same problem in other units (powers of two): the first local minimiser along the projected path does not depend on
        # the units, and every intermediate quantity is the exact multiple of its counterpart
        a, b = twin_factors(inp, case["twin"])
        tw = scaled_twin(inp, a, b)
        with np.errstate(all="ignore"):
            xcp2, c2 = get_cauchy_point(tw["x"].copy(), tw["g"].copy(), tw["lb"], tw["ub"], tw["mats"], 1, -1, None)
        sc = max(float(np.max(np.abs(xcp))), float(np.max(np.abs(x))), 1e-300)
        err = float(np.max(np.abs(np.asarray(xcp2, dtype=float) / b - np.asarray(xcp, dtype=float)))) / sc
        out["tags"].append("unit_twin_compared=True")
        if not err <= 1e-9:
            res.append({"what": "the Cauchy point depends on the units: the same problem with the objective multiplied by a power of two and the variables "
                                "expressed in another power-of-two unit does not give the rescaled point (the first local minimiser along the projected "
                                "path is invariant)", "key": "", "detail": {"objective_factor": a, "variable_factor": b, "rel_err": err}})
    if case.get("twin") is not None and not any("skip" in r for r in res):
        # the same problem with the origin of the variables moved (theorem cauchy_point_shift): x, lb, ub translated by one
        # constant, gradient and matrices unchanged (they are made of differences of points). The translation is not exact in
        # floating point, so the comparison carries the tolerance of the comparison with the independent reference
        # (1e-7 * cond(B) * scale).
        cs = (1.0, -2.0, 0.5, 4.0)[case["twin"] % 4]
        with np.errstate(all="ignore"):
            xcp3, _c3 = get_cauchy_point((x + cs).copy(), g.copy(), lb + cs, ub + cs, mats, 1, -1, None)
        Bs = dense_B(mats, n)
        evs_ = np.linalg.eigvalsh(0.5 * (Bs + Bs.T))
        conds = float(evs_[-1] / max(evs_[0], 1e-300))
        scs = max(1.0, abs(cs) + float(np.max(np.abs(x))), float(np.max(np.abs(xcp))))
        errs = float(np.max(np.abs((np.asarray(xcp3, dtype=float) - cs) - np.asarray(xcp, dtype=float))))
        out["tags"].append("shift_twin_compared=True")
        if not errs <= 1e-7 * conds * scs:
            res.append({"what": "the Cauchy point depends on the origin of the variables: the same problem with x, lb and ub translated by one "
                                "constant does not give the translated point (theorem cauchy_point_shift: the projected path is translated and "
                                "the model value along it is unchanged)", "key": "", "detail": {"shift": cs, "abs_err": errs, "cond": conds}})
    skips = [r["skip"] for r in res if "skip" in r]
    out["prop"] = [r for r in res if "skip" not in r]
    out["tags"] += [f"tied_breakpoints={bool(case.get('tie'))}", f"all_moving_pinned_family={bool(case.get('pinned'))}", f"n={n}", f"pairs={min(inp['npairs'], 4)}", f"at_bound_outward={bool(np.any(((x == lb) & (g > 0)) | ((x == ub) & (g < 0))))}"] + [f"skip:{s}" for s in skips]
    # ---- do the hypotheses of the theorem gcp_first_local_min (MinCtx) hold on this input? (reported in the evidence:
    # the share of the explored inputs that the theorem speaks about) — B positive definite, and the floor
    # eps*f2_org on f'' inactive for every direction met along the search
    try:
        Bd = dense_B(mats, n)
        evs = np.linalg.eigvalsh(0.5 * (Bd + Bd.T))
        with np.errstate(divide="ignore", invalid="ignore"):
            tt = np.where(g < 0, (x - ub) / g, np.where(g > 0, (x - lb) / g, np.inf))
        d0 = np.where(tt == 0, 0.0, -g)
        f2org = float(mats.theta) * float(d0 @ d0)
        dd, floor_active = d0.copy(), False
        for ib in np.argsort(tt):
            if not (tt[ib] > 0 and np.isfinite(tt[ib])):
                continue
            dd[ib] = 0.0
            if dd.any() and float(dd @ Bd @ dd) < 1e-30 * f2org:
                floor_active = True
        out["tags"].append(f"theorem_hypotheses_MinCtx_hold={bool(evs[0] > 0 and not floor_active)}")
    except Exception:
        out["tags"].append("theorem_hypotheses_MinCtx_hold=unknown")
    # ---- Lean Float model of the routine
    if mats.use_factor:
        Minv = mats.invMfactors[0] @ mats.invMfactors[1]
        W = mats.W
    else:
        Minv, W = np.zeros((1, 1)), np.zeros((n, 1))
    line = f"cauchy {vhex(x)} {vhex(g)} {vhex(lb)} {vhex(ub)} {fhex(mats.theta)} {vshex(W)} {vshex(Minv)} {int(mats.use_factor)}"
    got = shell.driver().run([line])
    if "tie-band" in skips or "ill-conditioned" in skips:
        out["skipped"] = skips[0]
    else:
        _, mx, mc = got[0].split(" ")
        mx, mc = np.array(hexv(mx)), np.array(hexv(mc))
        B = dense_B(mats, n)
        ev = np.linalg.eigvalsh(0.5 * (B + B.T))
        cond = float(ev[-1] / max(ev[0], 1e-300))
        tol = 1e-7 * cond * max(1.0, float(np.max(np.abs(xcp))))
        diffs = []
        if mx.shape != np.shape(xcp) or float(np.max(np.abs(mx - xcp))) > tol:
            diffs.append(f"Cauchy point: implementation vs Lean model differ by {float(np.max(np.abs(mx - xcp))) if mx.shape == np.shape(xcp) else 'shape'}")
        # the auxiliary vector, when the subspace step will use it (some variable strictly inside its bounds at x_cp)
        if mats.use_factor and bool(((np.asarray(xcp) > lb) & (np.asarray(xcp) < ub)).any()) and mc.shape == np.shape(c):
            ctol = 1e-7 * cond * max(1.0, float(np.max(np.abs(c))), float(np.max(np.abs(mc))))
            if float(np.max(np.abs(mc - np.asarray(c, dtype=float)))) > ctol:
                diffs.append(f"auxiliary vector c: implementation vs Lean model differ by {float(np.max(np.abs(mc - c)))}")
        out["corr"] = diffs
    out["nontrivial"] = f"{case['seed']}:{case.get('pattern')}"
    if case["seed"] % 211 == 0:
        out["sample"] = {"seed": case["seed"], "n": n, "pairs": inp["npairs"], "x": x.tolist(), "g": g.tolist(),
                         "lb": lb.tolist(), "ub": ub.tolist(), "x_cp": np.asarray(xcp).tolist()}
    return out


def run(tier: str, seed: int) -> int:
    cases: List[Dict[str, Any]] = []
    nmax, nrand = (2, 2000) if tier == "quick" else (3, 50000)
    r = random.Random(seed)
    k = 0
    for n in range(1, nmax + 1):
        pats = list(itertools.product(range(len(PATTERN_ALPHABET)), repeat=n))
        if len(pats) > 4000:
            pats = r.sample(pats, 4000 if tier == "quick" else 30000)
        for pat in pats:
            for z in (True, False):
                cases.append({"seed": seed * 1_000_003 + k, "pattern": list(pat), "npairs_zero": z})
                k += 1
    cases += [{"seed": seed * 1_000_003 + k + i, "twin": (i // 2) if i % 2 == 0 else None} for i in range(nrand)]
    # larger dimensions (33 .. 90): a shortcut that is exact for small n (a partial sort, a block size, a reduction over the wrong axis of a
    # small square array) shows only here
    nbig = 150 if tier == "quick" else 3000
    cases += [{"seed": seed * 1_000_003 + 2_900_000 + i, "n": 33 + (i * 7) % 58, "pinned": i % 2 == 1} for i in range(nbig)]
    ntie = 3000 if tier == "quick" else 60000
    cases += [{"seed": seed * 1_000_003 + 900_000 + i, "tie": True, "n": 3 + i % 4} for i in range(ntie)]
    npin = 2000 if tier == "quick" else 30000
    cases += [{"seed": seed * 1_000_003 + 1_900_000 + i, "pinned": True, "n": 2 + i % 5} for i in range(npin)]
    return run_property(
        PROP, "harness.props.c08", THEOREMS, MODULES, cases, tier, seed,
        rule=f"structural enumeration: every combination per variable of position (lb/ub/interior) x gradient sign (-/0/+) x bound kind "
             f"(both/lower/upper/none) for n <= {nmax} (exhaustive for n <= 2, sampled above), with empty and non-empty memory, plus "
             f"{nrand} random inputs n <= 10, 0..8 pairs, {nbig} of dimension 33..90 (half of them with every moving variable reaching its bound early: dozens of breakpoints before the minimiser); output compared with a brute-force first-local-minimiser over the sorted segments "
             "with the dense matrix, pinned-on-bound and auxiliary-vector clauses, and with the Lean Float model of the routine; half of the random inputs "
             "also in other units (objective and variables rescaled by powers of two between 2^-90 and 2^40): the output must be the rescaled one",
        assumptions=["comparisons use a tolerance 1e-7·cond(B); decision ties (|q'| or |Δt - segment| relatively below 1e-7) are skipped and counted"])


def replay(path: str) -> int:
    import json
    d = json.load(open(path))
    c = d["case"].get("case")
    if c is None:
        print(json.dumps(d["case"], indent=1)[:3000])
        return 1
    out = evaluate(c)
    print("prop:", out["prop"][:3], "corr:", (out["corr"] or [])[:3])
    return 1 if (out["prop"] or out["corr"]) else 0
