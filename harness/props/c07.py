"""C07 — the callback state is a faithful snapshot usable as a crash checkpoint."""
from __future__ import annotations

import random
from typing import Any, Dict, List

import numpy as np

from harness import shell
from harness.runner import run_property
from harness.trace import Run, result_str

PROP = "C07"
THEOREMS = ["Lbfgsb.C07.callback_state_eq_run_k", "Lbfgsb.C07.maxiter_only_in_guard",
            "Lbfgsb.C07.snapshot_is_value", "Lbfgsb.C07.callback_false_transparent",
            "Lbfgsb.C06.restart_continues", "Lbfgsb.C06.restart_same_result", "Lbfgsb.C06.restart_at_every_split"]
MODULES = ["LbfgsbVerif.Props.C07", "LbfgsbVerif.Props.C06Sim", "LbfgsbVerif.Props.C06Inv"]

FIELDS = ("x", "fun", "jac", "nfev", "njev", "nit", "sk", "yk")


def state_fields(r) -> Dict[str, str]:
    parts = result_str(r).split(" ")
    # x f jac nfev njev nit status msg success sk yk
    return {"x": parts[0], "fun": parts[1], "jac": parts[2], "nfev": parts[3], "njev": parts[4],
            "nit": parts[5], "sk": parts[9], "yk": parts[10]}


def evaluate(case: Dict[str, Any]) -> Dict[str, Any]:
    out: Dict[str, Any] = {"corr": [], "skipped": None, "tags": [], "prop": []}
    kw, desc, p = shell.build(case)
    snaps: List[Dict[str, str]] = []
    user_cb = kw.get("callback")

    def cb(xk, state):
        snaps.append(state_fields(state))     # what the state looks like when it is handed over
        return False

    kw["callback"] = cb
    full = Run(kw).execute()
    if full.nonfinite() or full.exc is not None:
        return {"corr": None, "skipped": None, "tags": ["nonfinite-or-failing"], "prop": []}
    corr, skipped = shell.replay(full)
    out["skipped"] = skipped
    if corr is not None:
        out["corr"] += corr
    out["tags"] += shell.basic_tags(full, desc, p)
    K = len(full.rec.cb)
    # 1. the state does not change after the callback returned
    for k, e in enumerate(full.rec.cb):
        now = state_fields(e["state"])
        if now != snaps[k]:
            bad = [f for f in FIELDS if now[f] != snaps[k][f]]
            out["prop"].append({"what": f"callback state changed after the callback returned (fields {bad})", "key": ""})
            break
    if desc["features"].get("update", "none") != "none":
        # runs in which an update function rewrites the stored gradients (half of them in place, a quarter by writing into the stored
        # arrays themselves): only the snapshot clause applies — a state already handed over must not change when that happens
        out["tags"].append("snapshot_clause_under_update_fun_def=True")
        if K >= 2:
            out["nontrivial"] = f"{case['seed']}:upd"
        if corr is None:
            out["corr"] = None
        return out
    # 2. the state handed over after iteration k == result of a run with maxiter = k (no
    #    callback in that run). Iterations whose line search failed hand over no state.
    idx = list(range(K))
    if len(idx) > case["max_k"]:
        r = random.Random(case["seed"])
        idx = sorted(set([0, 1, K - 1] + r.sample(idx, case["max_k"] - 3)))
    prev_nit = 0
    for j in range(K):
        if int(snaps[j]["nit"]) <= prev_nit:
            out["prop"].append({"what": "callback states do not carry increasing iteration numbers", "key": ""})
            break
        prev_nit = int(snaps[j]["nit"])
    ks = []
    for j in idx:
        st = snaps[j]
        k = int(st["nit"])
        ks.append(k)
        kw2, _, _ = shell.build(case)
        kw2.pop("callback", None)
        kw2["maxiter"] = k
        rk = Run(kw2).execute()
        if rk.exc is not None:
            continue
        got = state_fields(rk.result)
        bad = [f for f in FIELDS if got[f] != st[f]]
        if bad:
            out["prop"].append({"what": f"callback state after iteration k differs from the result of maxiter=k (fields {bad})",
                                "key": "", "detail": {"k": k, "fields": bad}})
            break
    # 3. a callback returning False does not alter the run
    kw3, _, _ = shell.build(case)
    kw3.pop("callback", None)
    plain = Run(kw3).execute()
    if plain.exc is None:
        a, b = result_str(plain.result), result_str(full.result)
        if a != b:
            out["prop"].append({"what": "a callback that returns False alters the result", "key": ""})
        ca = [c for c in full.rec.calls if c[0] != "CB"]
        if ca != plain.rec.calls:
            out["prop"].append({"what": "a callback that returns False alters the sequence of user calls", "key": ""})
    # 4. crash recovery: restart from the kept state continues like the uninterrupted run
    #    (next iterate, up to rounding)
    for j in idx[:case["max_restart"]]:
        if j + 1 >= K:
            continue
        if kw.get("gradient_scaler") is not None:
            break      # restart together with a scaler: known finding K1 (C05), not this clause
        st = full.rec.cb[j]["state"]
        nxt = full.rec.cb[j + 1]["state"]
        if int(nxt.nit) != int(st.nit) + 1:
            continue       # the next iteration's line search failed: nothing to compare with
        kw4, _, _ = shell.build(case)
        kw4.pop("callback", None)
        kw4["x0"] = np.array(st.x, copy=True)
        kw4["checkpoint"] = st
        kw4["maxiter"] = int(st.nit) + 1
        r4 = Run(kw4).execute()
        if r4.exc is not None:
            out["prop"].append({"what": f"restart from the kept callback state raises {type(r4.exc).__name__}", "key": ""})
            break
        # the continuation makes the same evaluations: when it made as many objective calls as the uninterrupted run did
        # during that iteration, it computed as many gradients (a counter restored wrongly shows here, in every gradient mode)
        if (int(r4.result.nfev) - int(st.nfev) == int(nxt.nfev) - int(st.nfev)
                and int(r4.result.njev) - int(st.njev) != int(nxt.njev) - int(st.njev)):
            out["prop"].append({"what": "restart from the kept callback state: gradient counter of the continuation differs from the uninterrupted run",
                                "key": "", "detail": {"k": int(st.nit), "njev_restart": int(r4.result.njev), "njev_run": int(nxt.njev)}})
            break
        want = np.array(nxt.x, dtype=float)
        got = np.array(r4.result.x, dtype=float)
        scale = max(1.0, float(np.max(np.abs(want))))
        # the state's x is the end of its stored history iff the pair of its iteration was accepted
        sk = np.atleast_2d(st.hess_inv.sk)
        prev_x = np.array(full.rec.cb[j - 1]["state"].x, dtype=float) if j > 0 else None
        if np.max(np.abs(want - got)) > 1e-6 * scale:
            rejected = any(not c["accepted"] for c in full.rec.curv)
            key = "restart-after-rejected-pair" if rejected else ""
            out["prop"].append({"what": "restart from the kept callback state: next iterate differs from the uninterrupted run",
                                "key": key, "detail": {"k": int(st.nit), "diff": float(np.max(np.abs(want - got)))}})
            break
    if K >= 2:
        out["nontrivial"] = f"{case['seed']}:{K}"
    out["tags"].append(f"crash_points={min(K, 20)}")
    if case["seed"] % 13 == 0:
        out["sample"] = {"case": case, "problem": p.name, "iterations_with_callback": K, "ks_checked": ks}
    if corr is None:
        out["corr"] = None
    return out


def features(r):
    return {"jac": r.choice(["callable"] * 3 + ["2-point", "3-point"]), "callback": "false",
            "ftarget": "none", "gtol_callable": False, "scaler": r.choice(["none", "none", "const"]), "s": 10 ** r.uniform(-2, 2),
            "update": "none"}


def run(tier: str, seed: int) -> int:
    n, mk, mr = (60, 8, 3) if tier == "quick" else (400, 30, 10)
    cases = []
    for i in range(n):
        s = seed * 1_000_003 + i
        r = random.Random(s)
        cases.append({"seed": s, "features": features(r), "max_k": mk, "max_restart": mr,
                      "override": {"maxiter": r.choice([3, 6, 10, 20]), "maxfun": 15000}})
    for i in range(n // 2):
        s = seed * 1_000_003 + 300_000 + i
        r = random.Random(s)
        cases.append({"seed": s, "max_k": mk, "max_restart": mr, "small_budgets": False,
                      "features": {"jac": "callable", "callback": "false", "ftarget": "none", "gtol_callable": False, "scaler": "none",
                                   "update": r.choice(["reweight", "rescale", "reweight"]), "consistent": True, "switch_at": r.randint(1, 4)},
                      "override": {"maxiter": r.choice([8, 15]), "ftol": 0.0}})
    return run_property(
        PROP, "harness.props.c07", THEOREMS, MODULES, cases, tier, seed,
        rule="for each explored run every iteration k is a crash point: the state handed to the callback (serialised at that moment and "
             "again at the end of the run) is compared with the result of a separate run with maxiter=k, the run is compared with a run "
             "without callback, and a restart from the kept state must reproduce the next iterate; non-trivial = at least two crash points",
        assumptions=["objectives finite-valued on the box", "no update_fun_def (C13), except for the snapshot clause, which is also checked on runs whose update function rewrites the stored gradients in place", "a third of the runs use a gradient scaler (state k against the run with maxiter=k, frozen state, transparent callback); the crash-recovery clause is checked without scaler (K1)"])


def replay(path: str) -> int:
    import json
    d = json.load(open(path))
    c = d["case"].get("case")
    if c is None:
        print(json.dumps(d["case"], indent=1)[:3000])
        return 1
    out = evaluate(c)
    print("prop:", out["prop"][:3], "corr:", (out["corr"] or [])[:3])
    return 1 if (out["prop"] or out["corr"]) else 0
