"""C05 — see DESIGN.md §4."""
from harness.props.shellprops import evaluate, gen_cases  # noqa: F401
from harness.runner import run_property
from harness.props import c05_cfg as K

PROP = "C05"


def run(tier: str, seed: int) -> int:
    n = K.N_QUICK if tier == "quick" else K.N_THOROUGH
    cases = gen_cases(PROP, n, seed, K.MONITORS, K.features, **K.COMMON)
    # finite-difference modes on boxes with fixed variables (lb == ub): every objective call, stencil points included, is counted once
    import random as _random
    for i in range(n // 6):
        s_ = seed * 1_000_003 + 850_000 + i
        r_ = _random.Random(s_)
        cases.append({"seed": s_, "monitors": K.MONITORS, "box": "degenerate", "small_budgets": False,
                      "features": {"jac": r_.choice(["2-point", "3-point", "none", "cs"]), "callback": r_.choice(["none", "false"]), "ftarget": "none",
                                   "gtol_callable": False, "scaler": "none", "update": "none"},
                      "override": {"maxiter": r_.choice([3, 8, 20])}})
    # corpus first: runs in which a rejected pair is immediately followed by a failed line search and a memory reset
    from harness.gen import reset_corpus_cases
    cases = reset_corpus_cases(K.MONITORS, [seed * 1_000_003 + 800_000 + i for i in range(n // 12)]) + cases
    # the stagnation regime: no tolerance stops the run, so the last iterations move the point by a few units in the last
    # place — where a memo keyed on "almost the same point" would serve the neighbour's value
    import random
    for i in range(n // 10):
        s = seed * 1_000_003 + 700_000 + i
        r = random.Random(s)
        cases.append({"seed": s, "monitors": ["C05"], "families": ["qp", "qp_quartic"], "box": r.choice(["none", "none", "mixed"]),
                      "n": r.randint(1, 6),
                      "features": {"jac": "callable", "callback": r.choice(["none", "false"]), "ftarget": "none", "gtol_callable": False,
                                   "scaler": "none", "update": "none"},
                      "override": {"maxiter": 300, "maxfun": 15000, "ftol": 0.0, "gtol": 0.0, "maxls": 20}})
    # restarts whose start equals the checkpoint's point only up to rounding or dtype, ending before any new step is accepted
    for i in range(n // 10):
        s = seed * 1_000_003 + 800_000 + i
        r = random.Random(s)
        k = r.choice([1, 2, 3, 5])
        cases.append({"seed": s, "monitors": ["C05"], "chain": [{"maxiter": k}, {"maxiter": r.choice([0, k, k]), "x0_kind": r.choice(["ulp", "float32"])}],
                      "features": {"jac": r.choice(["callable", "callable", "2-point"]), "callback": "none", "ftarget": "none",
                                   "gtol_callable": False, "scaler": "none", "update": "none"},
                      "override": {"ftol": 0.0, "gtol": 1e-12, "maxfun": 15000, "maxls": 20}})
    return run_property(PROP, "harness.props.c05", K.THEOREMS, K.MODULES, cases, tier, seed,
                        rule=K.RULE, assumptions=K.ASSUMPTIONS)


def replay(path: str) -> int:
    import json
    d = json.load(open(path))
    c = d["case"].get("case")
    if c is None:
        print(json.dumps(d["case"], indent=1)[:3000])
        return 1
    out = evaluate(c)
    print("corr:", out["corr"], "skipped:", out["skipped"])
    print("prop:", out["prop"])
    return 1 if (out["prop"] or out["corr"]) else 0
