"""C18 — the returned inverse-Hessian operator is built from genuine curvature pairs.

Two kinds of cases:
  * "run": whole runs (also chains of restarts and runs with an objective redefinition), replayed
    bit for bit through the Lean driver model (the pairs of the result and of every callback state
    are part of the compared output), and checked against the harness's own log: the pairs must be
    exact differences of a chronological chain of visited points and of the gradients returned there;
  * "diag": `extract_hess_inv_diag` against the dense matrix of the operator, and both against an
    exact rational evaluation of the inverse BFGS recursion (the `invChain` of Props/C18.lean).
"""
from __future__ import annotations

import random
from fractions import Fraction
from typing import Any, Dict, List

import numpy as np

from harness import shell
from harness.common import hexv, vhex
from harness.runner import run_property
from harness.trace import Run

PROP = "C18"
THEOREMS = ["Lbfgsb.C18.pairs_are_diffs", "Lbfgsb.C18.pairs_le_maxcor", "Lbfgsb.C18.pairs_curvature",
            "Lbfgsb.C18.curv_pos", "Lbfgsb.C18.inv_bfgs_posdef", "Lbfgsb.C18.inv_bfgs_chain_posdef",
            "Lbfgsb.C18.diag_by_unit_vectors", "Lbfgsb.C18.two_loop_eq_chain", "Lbfgsb.C18.two_loop_spd",
            "Lbfgsb.C18.hess_inv_secant", "Lbfgsb.C18.hess_inv_is_inverse_bfgs"]
MODULES = ["LbfgsbVerif.Props.C18", "LbfgsbVerif.Props.C18TwoLoop", "LbfgsbVerif.Props.C18Secant"]


# ------------------------------------------------------------------ pairs of a reported state
def find_chain(sk, yk, vis, check_y, ulps=0, end_at=None):
    """is there i_0 < i_1 < ... < i_m in the visit log with vis[i_j].x - vis[i_{j-1}].x == sk[j]
    (and the same for the gradients), bit for bit (ulps = 0) or up to `ulps` units of rounding of
    the operands?"""
    m = sk.shape[0]
    keys = [vhex(v[0]) for v in vis]
    eps = np.finfo(float).eps

    # rounding of a history rebuilt by subtraction from the checkpoint's x (finding K2) is relative to the largest
    # magnitude the coordinate takes along the path, not to the end points of one pair
    xs_all = np.array([np.abs(v[0]) for v in vis]).max(axis=0) if vis else 0.0
    gs_l = [np.abs(v[1]) for v in vis if v[1] is not None]
    gs_all = np.array(gs_l).max(axis=0) if gs_l else 0.0

    def same(a, b, d, scale=None):
        if ulps == 0:
            return vhex(a - b) == vhex(d)
        sc = np.maximum(np.abs(a), np.abs(b)) if scale is None else scale
        return bool((np.abs((a - b) - d) <= ulps * eps * sc + 1e-300).all())

    def back(j, cur):
        if j < 0:
            return True
        for c in range(cur - 1, -1, -1):
            if keys[c] == keys[cur]:
                continue
            if not same(vis[cur][0], vis[c][0], sk[j], xs_all if ulps else None):
                continue
            if check_y and (vis[cur][1] is None or vis[c][1] is None
                            or not same(vis[cur][1], vis[c][1], yk[j], gs_all if ulps else None)):
                continue
            if back(j - 1, c):
                return True
        return False

    for end in range(len(vis) - 1, -1, -1):
        if end_at is not None and keys[end] != end_at:
            continue
        if back(m - 1, end):
            return True
    return False


def visit_log(run: Run, kw, s: float):
    """(point, scaled gradient or None, position in the call log), chronological"""
    out = []
    callable_jac = callable(kw.get("jac"))
    kind = "G" if callable_jac else "F"
    for pos, (kd, k) in enumerate(run.rec.calls):
        if kd != kind:
            continue
        x = np.array(hexv(k))
        if x.size != len(np.atleast_1d(kw["x0"])):
            continue
        g = None
        if callable_jac and k in run.rec.G and not run.rec.G[k].startswith("!"):
            g = np.array(hexv(run.rec.G[k])) * s
        out.append((x, g, pos))
    return out


def check_state(name, st, vis, maxcor, check_y, restarted=False):
    sk = np.atleast_2d(st.hess_inv.sk)
    yk = np.atleast_2d(st.hess_inv.yk)
    if sk.size == 0:
        return None
    if sk.shape[0] > maxcor or yk.shape[0] != sk.shape[0]:
        return f"{name}: {sk.shape[0]} pairs with maxcor = {maxcor}"
    if not (np.einsum("ij,ij->i", sk, yk) > 0).all():
        return f"{name}: a stored pair has s.y <= 0"
    if not find_chain(sk, yk, vis, check_y):
        if restarted and find_chain(sk, yk, vis, check_y, ulps=64):
            # pairs rebuilt from a checkpoint: x - cumsum(sk) re-differenced is not sk bit for bit
            return f"{name}: ROUNDING pairs restored from the checkpoint differ in the last bits from the differences of the visited iterates"
        return f"{name}: pairs are not differences of a chronological chain of visited iterates" + \
               (" and of the gradients returned there" if check_y else "")
    # secant equation of the operator (theorem hess_inv_secant): it maps the newest y to the newest s — up to the rounding of the
    # two sweeps, of order eps (1 + |y|/|s| (1 + 1/cos(s, y))) relative to |s|
    s_, y_ = sk[-1], yk[-1]
    ns, ny = float(np.linalg.norm(s_)), float(np.linalg.norm(y_))
    if ns > 0 and ny > 0 and np.isfinite(sk).all() and np.isfinite(yk).all():
        cosines = [float(a @ b) / (float(np.linalg.norm(a)) * float(np.linalg.norm(b)) + 1e-300) for a, b in zip(sk, yk)]
        cs = min(cosines)
        Hy = np.asarray(st.hess_inv.matvec(y_), dtype=float)
        err = float(np.abs(Hy - s_).max()) / max(float(np.abs(s_).max()), 1e-300)
        # the rounding of the two sweeps is amplified by the conditioning of the operator: every pair contributes a factor of about
        # 1 + 1/cos(s_j, y_j) (first met on a history rewritten by an indefinite objective: cosines 0.005 and 0.013, error 3e-10), and
        # in all by about the condition number of the dense matrix (a newest pair with cos 1.4e-4: cond 4e16, error 1.4e-4 although the
        # equation holds exactly in rational arithmetic); beyond 1e-6 the comparison says nothing and is not made
        tol = 100 * 2.3e-16 * (1.0 + ny / ns) * float(np.prod([1.0 + 1.0 / max(c_, 1e-300) for c_ in cosines])) if cs > 0 else np.inf
        try:
            Hd = st.hess_inv.todense()
            tol = max(tol, 1e3 * 2.3e-16 * float(np.linalg.cond(Hd))) if np.isfinite(Hd).all() else np.inf
        except Exception:  # noqa: BLE001
            tol = np.inf
        if np.isfinite(Hy).all() and cs > 0 and tol <= 1e-6 and err > tol:
            return f"{name}: the operator does not map the newest y to the newest s (secant equation, relative error {err:.2e})"
    H = st.hess_inv.todense()
    if not np.isfinite(H).all():
        return None
    sc = np.abs(H).max()
    if np.abs(H - H.T).max() > 1e-9 * sc:
        return f"{name}: operator not symmetric"
    return None


def eval_run(case: Dict[str, Any]) -> Dict[str, Any]:
    legs = case.get("chain") or [{}]
    out: Dict[str, Any] = {"corr": [], "skipped": None, "tags": [], "prop": []}
    prev = None
    ncomp = 0
    carried: List = []          # visit log of the previous legs
    ck_off_history = False      # some checkpoint's x was not the end of its stored history (finding K4)
    for li, leg in enumerate(legs):
        kw, desc, p = shell.build(case)
        kw.update(leg)
        if prev is not None:
            kw["x0"] = np.array(prev.x, copy=True)
            kw["checkpoint"] = prev
        run = Run(kw).execute()
        if run.nonfinite():
            out["tags"].append("nonfinite-objective-domain")
            break
        if run.exc is not None and (case.get("features") or {}).get("update") == "indef":
            # a redefinition with negative curvature may drive the kernels into a non-SPD model;
            # the pairs of completed runs are what C18 speaks about
            out["tags"].append("kernel-exception-after-indefinite-redefinition")
            break
        corr, skipped = shell.replay(run)
        if skipped:
            out["skipped"] = skipped
        elif corr is not None:
            ncomp += 1
            out["corr"] += [f"leg {li}: {d}" for d in corr]
        if li == 0:
            out["tags"] += shell.basic_tags(run, desc, p)
        r = run.result
        if r is None:
            break
        if shell.has_nan(run):
            break
        s = shell.scale_of(run)
        maxcor = kw.get("maxcor", 10)
        has_upd = kw.get("update_fun_def") is not None
        check_y = callable(kw.get("jac"))
        states = [(f"callback {i}", e["state"], e["pos"]) for i, e in enumerate(run.rec.cb)] + [("result", r, 10 ** 9)]
        vis_all = visit_log(run, kw, s)
        for name, st, pos in states:
            if has_upd:
                # the history in force is the one the last redefinition returned (then filtered),
                # followed by the point of that call with the gradient it returned
                ups = [e for e in run.rec.upd if e["pos"] < pos and "out" in e]
                if not ups:
                    continue
                u = ups[-1]
                gradn, Gn = u["out"]
                vis = [(np.asarray(x, float), np.asarray(g, float), 0) for x, g in zip(u["Xin"], Gn)]
                vis.append((np.array(hexv(u["x"])), np.asarray(gradn, float), 0))
                # after a failed line search the memory is reset to its last point alone: sub-chains are fine
            else:
                vis = carried + [v for v in vis_all if v[2] < pos]
            msg = check_state(name, st, vis, maxcor, check_y, restarted=li > 0)
            if msg:
                key = "restart-pairs-rounding" if (li > 0 and "ROUNDING" in msg) else ""
                if li > 0 and kw.get("gradient_scaler") is not None:
                    key = "restart+scaler"
                elif li > 0 and ck_off_history and not key:
                    key = "restart-after-rejected-pair"
                out["prop"].append({"what": msg + (" (after restart)" if li > 0 else ""), "key": key})
                break
            n_pairs = np.atleast_2d(st.hess_inv.sk).shape[0] if np.size(st.hess_inv.sk) else 0
            if name == "result":
                out["tags"].append(f"pairs={min(n_pairs, 6)}")
        if li == 0 and r.nit >= 2:
            out["nontrivial"] = f"{case['seed']}:{sorted((case.get('features') or {}).items())}:{legs}"
        if li == 0 and case["seed"] % 97 == 0:
            out["sample"] = {"case": case, "problem": p.name, "message": r.message, "nit": int(r.nit),
                             "pairs": int(np.atleast_2d(r.hess_inv.sk).shape[0]) if np.size(r.hess_inv.sk) else 0}
        carried = carried + vis_all
        prev = r
        skr = np.atleast_2d(r.hess_inv.sk)
        if skr.size and not find_chain(skr, np.atleast_2d(r.hess_inv.yk), carried, False, ulps=64,
                                       end_at=vhex(np.asarray(r.x, dtype=float))):
            ck_off_history = True
            out["tags"].append("checkpoint-x-not-end-of-history")
    if len(legs) > 1:
        out["tags"].append(f"chain_len={len(legs)}")
    if ncomp == 0 and not out["skipped"]:
        out["corr"] = None
    return out


# ------------------------------------------------------------------ the diagonal utility
def exact_inv_chain(sk, yk):
    """inverse BFGS recursion H+ = (I - rho s y^T) H (I - rho y s^T) + rho s s^T from H = I, in
    exact rational arithmetic on the given floats (the `invChain` of the Lean development)"""
    n = sk.shape[1]
    H = [[Fraction(int(i == j)) for j in range(n)] for i in range(n)]
    for s, y in zip(sk, yk):
        s = [Fraction(float(v)) for v in s]
        y = [Fraction(float(v)) for v in y]
        rho = 1 / sum(a * b for a, b in zip(y, s))
        A = [[Fraction(int(i == j)) - rho * s[i] * y[j] for j in range(n)] for i in range(n)]
        AH = [[sum(A[i][k] * H[k][j] for k in range(n)) for j in range(n)] for i in range(n)]
        H = [[sum(AH[i][k] * A[j][k] for k in range(n)) + rho * s[i] * s[j] for j in range(n)] for i in range(n)]
    return H


def eval_diag(case: Dict[str, Any]) -> Dict[str, Any]:
    from scipy.optimize import LbfgsInvHessProduct
    from lbfgsb.utils import extract_hess_inv_diag
    out: Dict[str, Any] = {"corr": [], "skipped": None, "tags": [], "prop": []}
    rng = np.random.default_rng(case["seed"])
    n = case["n"]
    m = case["m"]
    # positive-curvature pairs: y = A s with A SPD (plus noise kept small enough for s.y > 0)
    Q = rng.standard_normal((n, n))
    A = Q @ Q.T / n + np.eye(n) * 10 ** rng.uniform(-3, 1)
    sk = rng.standard_normal((m, n)) * 10 ** rng.uniform(-3, 2, size=(m, 1))
    if case.get("sparse"):
        sk = sk * (rng.random((m, n)) < 0.5)
        sk[np.abs(sk).sum(axis=1) == 0, 0] = 1.0
    yk = sk @ A
    if case.get("linear") and n >= 2:
        # an objective that is LINEAR in some variables: their gradient components never change (zero columns of yk) although the
        # variables move (non-zero columns of sk); the curvature of the pairs lives in the other variables
        lin = rng.random(n) < 0.35
        lin[int(rng.integers(0, n))] = False
        Al = A.copy()
        Al[lin, :] = 0.0
        Al[:, lin] = 0.0
        yk = sk @ Al
        out["tags"].append("linear_variables=True")
    if not (np.einsum("ij,ij->i", sk, yk) > 0).all():
        return {"corr": None, "skipped": None, "tags": ["no-positive-curvature"], "prop": []}
    op = LbfgsInvHessProduct(sk, yk)
    d = extract_hess_inv_diag(op)
    H = op.todense()
    scale = np.abs(H).max()
    tol = 1e-8 * scale
    if d.shape != (n,):
        out["prop"].append({"what": f"diagonal has shape {d.shape} for an operator of size {n}", "key": ""})
        return out
    if not np.abs(d - np.diag(H)).max() <= tol:
        out["prop"].append({"what": "extract_hess_inv_diag differs from the diagonal of the dense matrix", "key": "",
                            "detail": {"n": n, "m": m, "max_abs_diff": float(np.abs(d - np.diag(H)).max()), "scale": float(scale)}})
    # every entry (not only the diagonal) through unit-vector products: catches index slips
    j = int(rng.integers(n))
    e = np.zeros(n); e[j] = 1.0
    if not np.abs(op.matvec(e) - H[:, j]).max() <= tol:
        out["corr"].append("matvec(e_j) differs from column j of todense()")
    if n <= 8 and m <= 5:
        Hx = exact_inv_chain(sk, yk)
        dx = np.array([float(Hx[i][i]) for i in range(n)])
        cond = max(1.0, float(max(abs(float(Hx[i][j])) for i in range(n) for j in range(n))))
        if not np.abs(d - dx).max() <= 1e-6 * cond * max(1.0, np.linalg.cond(H)):
            out["corr"].append(f"diagonal differs from the exact inverse BFGS recursion: {np.abs(d - dx).max()}")
        out["tags"].append("exact-oracle")
    out["tags"].append(f"diag_n={min(n, 30) // 5 * 5}")
    out["tags"].append(f"diag_m={m}")
    out["nontrivial"] = f"diag:{n}:{m}:{case['seed'] % 50}"
    if case["seed"] % 211 == 0:
        out["sample"] = {"case": case, "diag_head": [float(v) for v in d[:3]]}
    return out


def evaluate(case: Dict[str, Any]) -> Dict[str, Any]:
    if case.get("kind") == "diag":
        return eval_diag(case)
    return eval_run(case)


from harness.gen import RESET_CORPUS  # noqa: E402


def features(r):
    return {"jac": r.choice(["callable"] * 5 + ["2-point", "none"]),
            "callback": r.choice(["false", "false", "none", "stop"]),
            "ftarget": r.choice(["none", "none", "float"]), "gtol_callable": False,
            "scaler": r.choice(["none", "none", "none", "const"]),
            "update": r.choice(["none", "none", "none", "identity", "rescale", "reweight", "indef", "indef"]),
            "consistent": True, "switch_at": r.randint(1, 6)}


def run(tier: str, seed: int) -> int:
    from harness.props.shellprops import gen_chain
    nrun, ndiag = (300, 400) if tier == "quick" else (4000, 6000)
    cases: List[Dict[str, Any]] = []
    for i in range(nrun):
        s = seed * 1_000_003 + i
        r = random.Random(s)
        f = features(r)
        if f["update"] != "none":
            f["scaler"] = "none"
            f["jac"] = "callable"
            f["ftarget"] = "none"
        c = {"seed": s, "features": f, "kind": "run"}
        if f["update"] in ("reweight", "indef"):
            c["families"] = ["qp", "qp_quartic", "qp_softplus", "rosen", "styb", "osc"]
            c["override"] = {"maxiter": r.choice([8, 12, 20]), "ftol": 0.0, "maxcor": r.choice([2, 3, 5, 10])}
        if f["update"] == "none" and r.random() < 0.35:
            c["chain"] = gen_chain(r)
        if i % 3 == 0 and "override" not in c:
            c["override"] = {"maxcor": r.choice([1, 2, 3])}
        cases.append(c)
    # restart chains with ample budgets, so that the checkpoints carry several pairs (the order in which a restart
    # restores them, and which ones it keeps when maxcor shrinks, shows only then)
    for i in range(nrun // 6):
        s = seed * 1_000_003 + 300_000 + i
        r = random.Random(s)
        k1 = r.choice([3, 4, 6, 9])
        legs = [{"maxiter": k1}, {"maxiter": k1 + r.choice([0, 1, 3]), **({"maxcor": r.choice([2, 3])} if r.random() < 0.4 else {})},
                {"maxiter": k1 + r.choice([4, 6])}]
        cases.append({"seed": s, "kind": "run", "chain": legs[:r.choice([2, 3])],
                      "families": ["qp", "qp_quartic", "qp_softplus", "rosen", "styb"],
                      "features": {"jac": r.choice(["callable", "callable", "2-point"]), "callback": r.choice(["false", "none"]),
                                   "ftarget": "none", "gtol_callable": False, "scaler": "none", "update": "none"},
                      "override": {"ftol": 0.0, "gtol": 1e-12, "maxfun": 15000, "maxls": 20, "maxcor": r.choice([3, 5, 10])}})
    # runs in which line searches fail and the memory is reset, next to rejected pairs (non-convex objectives, one to three trials
    # per search): what is kept at a reset must still be (point, its own gradient)
    for i in range(nrun // 2):
        s = seed * 1_000_003 + 400_000 + i
        r = random.Random(s)
        cases.append({"seed": s, "kind": "run", "families": ["osc", "styb", "bench", "osc"], "box": "both", "small_budgets": False,
                      "features": {"jac": "callable", "callback": r.choice(["false", "none"]), "ftarget": "none", "gtol_callable": False,
                                   "scaler": "none", "update": "none"},
                      "override": {"ftol": 0.0, "gtol": 1e-10, "maxfun": 15000, "maxiter": r.choice([25, 40, 60]), "maxls": r.choice([1, 2, 2, 3]),
                                   "maxcor": r.choice([3, 5, 10])}})
    # corpus: problems on which an iteration whose pair fails the curvature test is immediately followed by a line search that finds no
    # decrease while the memory holds pairs (about one run in 3000 of this family): the point and the gradient kept at the reset must
    # belong together, the next pair is formed from them
    from harness.gen import cosmix_problem
    for cs in RESET_CORPUS + [seed * 1_000_003 + 450_000 + i for i in range(nrun // 3)]:
        cases.append({"seed": cs, "kind": "run", "families": ["cosmix"], "small_budgets": False,
                      "features": {"jac": "callable", "callback": "none", "ftarget": "none", "gtol_callable": False, "scaler": "none", "update": "none"},
                      "override": {"maxcor": 5, "maxls": cosmix_problem(cs)[1], "maxiter": 60, "maxfun": 15000, "ftol": 1e-5, "gtol": 1e-5}})
    for i in range(ndiag):
        s = seed * 1_000_003 + 500_000 + i
        r = random.Random(s)
        small = i % 3 == 0
        cases.append({"seed": s, "kind": "diag", "n": r.randint(1, 8 if small else 30), "m": r.randint(1, 5 if small else 12),
                      "sparse": r.random() < 0.3, "linear": i % 4 == 1})
    return run_property(
        PROP, "harness.props.c18", THEOREMS, MODULES, cases, tier, seed,
        rule="runs (callable gradient, finite differences, callbacks, restart chains, objective redefinitions): sk, yk of the result and of "
             "every callback state (also of runs with failing line searches, memory resets and rejected pairs: non-convex objectives, 1..3 trials per search) are part of the bit-exact replay through the Lean driver model, and are searched for as exact differences "
             "of a chronological chain in the harness's own visit log; count <= maxcor, s.y > 0, symmetry. Diagonal utility: random "
             "positive-curvature pair sets (m 1..12, n 1..30) against todense() and, for small sizes, an exact rational inverse-BFGS recursion",
        assumptions=["pairs rebuilt from a checkpoint are compared bit for bit with the visit logs of all legs (known finding K2 when they differ by rounding)",
                     "finite-difference modes: only the s part is searched in the visit log"])


def replay(path: str) -> int:
    import json
    d = json.load(open(path))
    c = d["case"].get("case")
    if c is None:
        print(json.dumps(d["case"], indent=1)[:3000])
        return 1
    out = evaluate(c)
    print("prop:", out["prop"][:3], "corr:", (out["corr"] or [])[:3])
    return 1 if (out["prop"] or out["corr"]) else 0
