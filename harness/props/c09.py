"""C09 — subspace minimisation returns the box-truncated Newton point of the model."""
from __future__ import annotations

import itertools
import random
from typing import Any, Dict, List

import numpy as np

from harness import shell
from harness.common import fhex, hexv, vhex, vshex
from harness.kernels import PATTERN_ALPHABET, dense_B, kernel_input, model_value
from harness.runner import run_property

PROP = "C09"
THEOREMS = ["Lbfgsb.C10.subspace_newton_point_curv", "Lbfgsb.C09.gauss_solves", "Lbfgsb.C09.gauss_unique", "Lbfgsb.C09.subspace_newton_point_solved", "Lbfgsb.C09.subspace_model_no_increase_solved", "Lbfgsb.C09.subspace_direction_descent_solved", "Lbfgsb.C09.subspace_newton_point_pd", "Lbfgsb.C09.regular_pivots", "Lbfgsb.C09.active_fixed", "Lbfgsb.C09.xbar_in_box", "Lbfgsb.C09.none_free", "Lbfgsb.C09.alpha_star_feasible",
            "Lbfgsb.C09.smw_direction", "Lbfgsb.C09.masked_newton_condition", "Lbfgsb.C09.subspace_no_increase",
            "Lbfgsb.C09.descent_of_decrease", "Lbfgsb.C09.direction_descent", "Lbfgsb.C09.newton_of_reduced", "Lbfgsb.C09.reduced_bmat",
            "Lbfgsb.C09.code_direction_descent", "Lbfgsb.C09.masked_smw", "Lbfgsb.C09.subspace_newton_point",
            "Lbfgsb.C09.subspace_model_no_increase", "Lbfgsb.C09.subspace_direction_descent", "Lbfgsb.C09.subspace_newton_point_nopairs",
            "Lbfgsb.C09.subspace_direction_descent_nopairs",
            "Lbfgsb.C09.subspace_point_units", "Lbfgsb.C09.subspace_units_nofactor", "Lbfgsb.C09.iteration_units", "Lbfgsb.C09.iteration_units_nofloor", "Lbfgsb.C09.iteration_objective_scale", "Lbfgsb.C09.subspace_point_shift"]
MODULES = ["LbfgsbVerif.Props.C10Kernel", "LbfgsbVerif.Props.C09Solve", "LbfgsbVerif.Props.C09", "LbfgsbVerif.Props.C09Model", "LbfgsbVerif.Props.C09Run",
            "LbfgsbVerif.Props.C09Units", "LbfgsbVerif.Props.C09UnitsKernel", "LbfgsbVerif.Props.C09Shift"]


def dense_from_pairs(S: np.ndarray, Y: np.ndarray) -> np.ndarray:
    """dense BFGS recursion from theta I, theta = y.y / s.y of the newest pair (columns of S, Y = pairs, oldest first)"""
    n, m = S.shape
    s, y = S[:, -1], Y[:, -1]
    B = float(y @ y) / float(s @ y) * np.eye(n)
    for j in range(m):
        s, y = S[:, j], Y[:, j]
        Bs = B @ s
        B = B - np.outer(Bs, Bs) / float(s @ Bs) + np.outer(y, y) / float(s @ y)
    return B


def evaluate_insitu(case: Dict[str, Any]) -> Dict[str, Any]:
    """the subspace step inside real runs (memory objects reused from one iteration to the next, history
    rewritten by an update function, rejected pairs): every recorded step against the dense truncated Newton
    point of the model DEFINED BY THE STORED PAIRS at that moment"""
    from harness.trace import Run
    out: Dict[str, Any] = {"corr": None, "skipped": None, "tags": ["kind=insitu"], "prop": []}
    kw, desc, p = shell.build(case)
    run = Run(kw).execute()
    if run.nonfinite():
        return {"corr": None, "skipped": None, "tags": ["nonfinite-objective-domain"], "prop": []}
    lb, ub = p.lb, p.ub
    nchk = 0
    for k, e in enumerate(run.rec.xbar):
        if "xbar" not in e or not e["use_factor"] or e["S"].size == 0:
            continue
        S, Y = np.atleast_2d(e["S"]), np.atleast_2d(e["Y"])
        if not (np.einsum("ij,ij->j", S, Y) > 0).all():
            continue        # an indefinite rewrite: no SPD model to compare with
        x, g, xc, xbar = e["x"], e["g"], e["x_cp"], np.asarray(e["xbar"], dtype=float)
        B = dense_from_pairs(S, Y)
        ev = np.linalg.eigvalsh(0.5 * (B + B.T))
        cond = float(ev[-1] / max(ev[0], 1e-300))
        if cond > 1e7 or ev[0] <= 0:
            continue
        free = (xc != ub) & (xc != lb)
        if not free.any():
            want = xc
        else:
            r_ = g + B @ (xc - x)
            dn = np.zeros(p.n)
            dn[free] = -np.linalg.solve(B[np.ix_(free, free)], r_[free])
            with np.errstate(divide="ignore", invalid="ignore"):
                ratios = np.where(dn > 0, (ub - xc) / dn, np.where(dn < 0, (lb - xc) / dn, np.inf))
            alpha = min(1.0, float(np.min(ratios[free])))
            want = np.clip(xc + alpha * dn, lb, ub)
        tol = 1e-6 * cond * max(1.0, float(np.max(np.abs(want))))
        nchk += 1
        if float(np.max(np.abs(xbar - want))) > tol:
            out["prop"].append({"what": "inside a run: subspace point is not the box-truncated Newton point of the model defined by the stored pairs",
                                "key": "", "detail": {"iteration": k, "err": float(np.max(np.abs(xbar - want))), "tol": tol,
                                                      "pairs": int(S.shape[1]), "free": int(free.sum()),
                                                      "rejected_pairs_in_run": sum(1 for c in run.rec.curv if not c["accepted"])}})
            break
    out["tags"] += [f"steps_checked<={5 * ((nchk + 4) // 5)}", f"update={desc['features']['update']}",
                    f"pairs_rejected={any(not c['accepted'] for c in run.rec.curv)}"]
    if run.exc is not None and not run.user_raised() and desc["features"]["update"] not in ("indef", "break"):
        out["prop"].append({"what": f"run raises {type(run.exc).__name__}: {str(run.exc)[:100]}", "key": ""})
    if nchk >= 2:
        out["nontrivial"] = f"insitu:{case['seed']}"
    return out


def evaluate(case: Dict[str, Any]) -> Dict[str, Any]:
    if case.get("kind") == "insitu":
        return evaluate_insitu(case)
    from lbfgsb.cauchy import get_cauchy_point
    from lbfgsb.subspacemin import get_freev, subspace_minimization
    out: Dict[str, Any] = {"corr": None, "skipped": None, "tags": [], "prop": []}
    pattern = [PATTERN_ALPHABET[k] for k in case["pattern"]] if case.get("pattern") is not None else None
    inp = kernel_input(case["seed"], n=len(pattern) if pattern else None, pattern=pattern)
    x, g, lb, ub, mats, n = inp["x"], inp["g"], inp["lb"], inp["ub"], inp["mats"], inp["n"]
    if float(np.max(np.abs(np.clip(x - g, lb, ub) - x))) == 0.0:
        return {"corr": None, "skipped": None, "tags": ["zero-projected-gradient"], "prop": []}
    with np.errstate(all="ignore"):
        xc, c = get_cauchy_point(x.copy(), g.copy(), lb, ub, mats, 1, -1, None)
        # optionally move the "Cauchy point" to exercise every free/active partition: any feasible
        # point with its exact c is a legitimate input of the subspace step
        if case.get("perturb"):
            rng = np.random.default_rng(case["seed"] + 9)
            xc = np.clip(xc + rng.uniform(-0.2, 0.2, n) * (rng.random(n) < 0.5), lb, ub)
            if case.get("near"):
                # a variable strictly inside the box but very close to a bound is still free
                for i in range(n):
                    if rng.random() < 0.5:
                        eps_ = 10 ** rng.uniform(-9, -6)
                        if np.isfinite(ub[i]) and rng.random() < 0.5:
                            xc[i] = ub[i] - eps_ * max(1.0, abs(ub[i]))
                        elif np.isfinite(lb[i]):
                            xc[i] = lb[i] + eps_ * max(1.0, abs(lb[i]))
                xc = np.clip(xc, lb, ub)
            c = mats.W.T @ (xc - x) if mats.use_factor else np.zeros(1)
        free_vars, Z, A = get_freev(xc, lb, ub, 1, None, -1, None)
        xbar = np.asarray(subspace_minimization(x.copy(), xc.copy(), free_vars, Z, A, c.copy(), g.copy(), lb, ub, mats), dtype=float)
    twin_bad = None
    if case.get("twin") is not None:
        from harness.kernels import scaled_twin, twin_factors
        a, b = twin_factors(inp, case["twin"])
        tw = scaled_twin(inp, a, b)
        with np.errstate(all="ignore"):
            xc2 = np.clip(xc * b, tw["lb"], tw["ub"])
            c2 = tw["mats"].W.T @ (xc2 - tw["x"]) if tw["mats"].use_factor else np.zeros(1)
            fv2, Z2, A2 = get_freev(xc2, tw["lb"], tw["ub"], 1, None, -1, None)
            xbar2 = np.asarray(subspace_minimization(tw["x"].copy(), xc2.copy(), fv2, Z2, A2, c2.copy(), tw["g"].copy(), tw["lb"], tw["ub"], tw["mats"]), dtype=float)
        sc = max(float(np.max(np.abs(xbar))), float(np.max(np.abs(x))), 1e-300)
        err = float(np.max(np.abs(xbar2 / b - xbar))) / sc
        out["tags"].append("unit_twin_compared=True")
        if not err <= 1e-9:
            twin_bad = {"what": "the subspace point depends on the units: the same problem with the objective multiplied by a power of two and the variables "
                                "expressed in another power-of-two unit does not give the rescaled point (the box-truncated Newton point is invariant)",
                        "key": "", "detail": {"objective_factor": a, "variable_factor": b, "rel_err": err}}
    free = (xc != ub) & (xc != lb)
    out["tags"] += [f"n={n}", f"pairs={min(inp['npairs'], 4)}", f"free={'none' if not free.any() else ('all' if free.all() else 'some')}", f"near_bound={bool(case.get('near'))}"]
    B = dense_B(mats, n)
    ev = np.linalg.eigvalsh(0.5 * (B + B.T))
    cond = float(ev[-1] / max(ev[0], 1e-300))
    if cond > 1e8 or ev[0] <= 0:
        return {"corr": None, "skipped": "ill-conditioned", "tags": out["tags"], "prop": []}
    # ---- the property on the real output
    if twin_bad is not None:
        out["prop"].append(twin_bad)
    if (xbar < lb).any() or (xbar > ub).any():
        out["prop"].append({"what": "subspace point outside the box", "key": ""})
    if (xbar[~free] != xc[~free]).any():
        out["prop"].append({"what": "a variable on a bound at the Cauchy point moved", "key": ""})
    tie = False
    if free.any():
        r = g + B @ (xc - x)
        Bff = B[np.ix_(free, free)]
        dn = np.zeros(n)
        dn[free] = -np.linalg.solve(Bff, r[free])
        with np.errstate(divide="ignore", invalid="ignore"):
            ratios = np.where(dn > 0, (ub - xc) / dn, np.where(dn < 0, (lb - xc) / dn, np.inf))
        alpha = min(1.0, float(np.min(ratios[free]))) if free.any() else 1.0
        want = np.clip(xc + alpha * dn, lb, ub)
        scale = max(1.0, float(np.max(np.abs(want))))
        tol = 1e-7 * cond * scale
        if float(np.max(np.abs(xbar - want))) > tol:
            out["prop"].append({"what": "subspace point is not the box-truncated Newton point of the model on the free variables",
                                "key": "", "detail": {"err": float(np.max(np.abs(xbar - want))), "alpha": alpha, "free": int(free.sum())}})
        mv_c, mv_b = model_value(x, g, B, xc), model_value(x, g, B, xbar)
        if mv_b > mv_c + 1e-9 * cond * max(1.0, abs(mv_c)):
            out["prop"].append({"what": "subspace step increases the model value", "key": ""})
    if not case.get("perturb"):
        gd = float(g @ (xbar - x))
        if not gd < 0 and float(np.max(np.abs(xbar - x))) > 0:
            out["prop"].append({"what": "search direction is not a descent direction", "key": "", "detail": {"g.d": gd}})
    # ---- Lean Float model
    if mats.use_factor:
        Minv, W, cc = mats.invMfactors[0] @ mats.invMfactors[1], mats.W, c
    else:
        Minv, W, cc = np.zeros((1, 1)), np.zeros((n, 1)), np.zeros(1)
    line = (f"subspace {vhex(x)} {vhex(g)} {vhex(lb)} {vhex(ub)} {fhex(mats.theta)} {vshex(W)} {vshex(Minv)} "
            f"{int(mats.use_factor)} {vhex(xc)} {vhex(cc)}")
    got = shell.driver().run([line])
    mx = np.array(hexv(got[0].split(" ")[1]))
    tol = 1e-7 * cond * max(1.0, float(np.max(np.abs(xbar))))
    out["corr"] = [] if (mx.shape == xbar.shape and float(np.max(np.abs(mx - xbar))) <= tol) else \
        [f"subspace point: implementation vs Lean model differ by {float(np.max(np.abs(mx - xbar))) if mx.shape == xbar.shape else 'shape'}"]
    out["nontrivial"] = f"{case['seed']}:{case.get('pattern')}:{case.get('perturb')}"
    if case["seed"] % 211 == 0:
        out["sample"] = {"seed": case["seed"], "n": n, "pairs": inp["npairs"], "free": free.tolist(), "x_cp": xc.tolist(), "xbar": xbar.tolist()}
    return out


def run(tier: str, seed: int) -> int:
    cases: List[Dict[str, Any]] = []
    nmax, nrand = (2, 2000) if tier == "quick" else (3, 50000)
    r = random.Random(seed)
    k = 0
    for n in range(1, nmax + 1):
        pats = list(itertools.product(range(len(PATTERN_ALPHABET)), repeat=n))
        if len(pats) > 3000:
            pats = r.sample(pats, 3000 if tier == "quick" else 30000)
        for pat in pats:
            cases.append({"seed": seed * 1_000_003 + k, "pattern": list(pat), "perturb": bool(k % 2)})
            k += 1
    cases += [{"seed": seed * 1_000_003 + k + i, "perturb": bool(i % 3 == 0), "near": bool(i % 6 == 0),
               "twin": (i // 2) if (i % 2 == 1 and i % 6 != 0) else None} for i in range(nrand)]
    nins = 300 if tier == "quick" else 4000
    for i in range(nins):
        s_ = seed * 1_000_003 + 800_000 + i
        rr = random.Random(s_)
        upd = rr.choice(["none", "rescale", "rescale", "reweight", "reweight", "identity"])
        cases.append({"seed": s_, "kind": "insitu", "small_budgets": False,
                      "families": rr.choice([["qp", "qp_quartic"], ["styb", "osc"], ["styb", "osc"], ["bench"], ["bench"], ["rosen"]]),
                      "box": rr.choice(["both", "both", "mixed", "lower"]),
                      "features": {"jac": "callable", "callback": "none", "ftarget": "none", "gtol_callable": False, "scaler": "none",
                                   "update": upd, "consistent": True, "switch_at": rr.randint(1, 6)},
                      "override": {"maxiter": rr.choice([15, 30, 40]), "maxcor": rr.choice([2, 3, 5, 10]), "ftol": 0.0, "gtol": 1e-9}})
    return run_property(
        PROP, "harness.props.c09", THEOREMS, MODULES, cases, tier, seed,
        rule=f"inputs: the Cauchy point computed by the package (or a feasible perturbation of it, to reach every free/active partition) for "
             f"the structural enumeration n <= {nmax} and {nrand} random inputs n <= 10 with 0..8 pairs; output compared with the dense Newton "
             "solve on the free variables truncated to the box, fixed variables, feasibility, model decrease, descent; and with the Lean "
             "Float model of the routine; in-situ: every subspace step recorded inside real runs (memory objects reused across iterations, "
             "histories rewritten by update functions, rejected pairs) against the dense truncated Newton point of the model defined by the "
             "stored pairs",
        assumptions=["comparisons use a tolerance 1e-7·cond(B); inputs with cond(B) > 1e8 are skipped and counted"])


def replay(path: str) -> int:
    import json
    d = json.load(open(path))
    c = d["case"].get("case")
    if c is None:
        print(json.dumps(d["case"], indent=1)[:3000])
        return 1
    out = evaluate(c)
    print("prop:", out["prop"][:3], "corr:", (out["corr"] or [])[:3])
    return 1 if (out["prop"] or out["corr"]) else 0
