"""C14 — runs are deterministic, isolated from each other and do not touch their inputs.

Case kinds (all comparisons bit for bit, on `result_str` = x, fun, jac, counters, status,
message, pairs):
  * repeat  : A, then an unrelated run B, then A again with a random `iprint` and a logger; the
              first A is replayed through the Lean driver model (which has no iprint/logger input);
  * frozen  : x0, bounds, and on restarts every array of the checkpoint, are made read-only and
              snapshotted; the run must not raise and must leave them as they were;
  * twice   : restart twice from one checkpoint object (with and without a gradient scaler);
  * threads : two runs on two threads, their objective/gradient calls interleaved by an explicit
              schedule (enumerated / random), each compared with its solo run;
  * nested  : a whole run executed inside the k-th objective call of another one.
"""
from __future__ import annotations

import copy
import logging
import random
import threading
from typing import Any, Dict, List

import numpy as np

from harness import shell
from harness.common import vhex
from harness.runner import run_property
from harness.trace import Run, result_str

PROP = "C14"
THEOREMS = ["Lbfgsb.C14.interleaving_independent", "Lbfgsb.C14.schedule_irrelevant", "Lbfgsb.C14.nested_independent",
            "Lbfgsb.C14.no_shared_mutable_state", "Lbfgsb.C14.no_mutable_default_written", "Lbfgsb.C14.display_is_read_only",
            "Lbfgsb.C14.run_is_a_function", "Lbfgsb.C14.inputs_not_written",
            "Lbfgsb.C14.display_evaluates_nothing"]
MODULES = ["LbfgsbVerif.Props.C14"]
IPRINTS = [-1, 0, 1, 3, 50, 99, 100, 101, 150]


def pre_build():
    import sys
    sys.path.insert(0, str(__import__("harness.common", fromlist=["VERIF"]).VERIF / "translate"))
    import state2lean
    state2lean.main()


def quiet_logger(tag: str) -> logging.Logger:
    lg = logging.getLogger(f"c14.{tag}")
    lg.handlers[:] = [logging.NullHandler()]
    lg.setLevel(logging.INFO)
    lg.propagate = False
    return lg


def plain(kw) -> Any:
    from lbfgsb import minimize_lbfgsb
    return minimize_lbfgsb(**kw)


def rs(r) -> str:
    return result_str(r)


def sub_case(case, j):
    c = dict(case)
    c["seed"] = case["seed"] * 31 + 17 + j
    return c


def snapshot(kw):
    snap = {"x0": np.array(kw["x0"], copy=True), "bounds": np.array(kw["bounds"], copy=True)}
    ck = kw.get("checkpoint")
    if ck is not None:
        snap["ck"] = result_str(ck)
        snap["ck_keys"] = sorted(ck.keys())
    return snap


def same_snapshot(kw, snap) -> List[str]:
    bad = []
    if vhex(np.ravel(kw["x0"])) != vhex(np.ravel(snap["x0"])):
        bad.append("x0")
    if vhex(np.ravel(kw["bounds"])) != vhex(np.ravel(snap["bounds"])):
        bad.append("bounds")
    ck = kw.get("checkpoint")
    if ck is not None:
        if result_str(ck) != snap["ck"]:
            bad.append("checkpoint")
        if sorted(ck.keys()) != snap["ck_keys"]:
            bad.append("checkpoint keys")
    return bad


def freeze(kw):
    kw["x0"] = np.array(kw["x0"], copy=True)
    kw["x0"].setflags(write=False)
    kw["bounds"] = np.array(kw["bounds"], copy=True)
    kw["bounds"].setflags(write=False)
    ck = kw.get("checkpoint")
    if ck is not None:
        for k in ("x", "jac"):
            a = np.array(ck[k], copy=True)
            a.setflags(write=False)
            ck[k] = a
        for a in (ck.hess_inv.sk, ck.hess_inv.yk):
            try:
                a.setflags(write=False)
            except Exception:
                pass


class Sched:
    """hands the baton to thread ids in the given order; a finished thread's turns are skipped"""

    def __init__(self, order):
        self.order = list(order)
        self.cv = threading.Condition()
        self.done = set()
        self.stuck = False

    def turn(self, tid):
        with self.cv:
            while True:
                if not self.order:
                    return
                if self.order[0] == tid:
                    self.order.pop(0)
                    self.cv.notify_all()
                    return
                if self.order[0] in self.done:
                    self.order.pop(0)
                    continue
                if not self.cv.wait(timeout=20):
                    self.stuck = True
                    self.order.clear()
                    self.cv.notify_all()
                    return

    def finish(self, tid):
        with self.cv:
            self.done.add(tid)
            self.cv.notify_all()


def with_turns(kw, sched, tid):
    kw = dict(kw)
    f, g = kw["fun"], kw.get("jac")

    def fw(x, *a):
        sched.turn(tid)
        return f(x, *a)
    kw["fun"] = fw
    if callable(g):
        def gw(x, *a):
            sched.turn(tid)
            return g(x, *a)
        kw["jac"] = gw
    return kw


def build(case, **extra):
    kw, desc, p = shell.build(case)
    kw.update(extra)
    return kw, desc, p


def evaluate(case: Dict[str, Any]) -> Dict[str, Any]:
    out: Dict[str, Any] = {"corr": None, "skipped": None, "tags": [f"kind={case['kind']}"], "prop": []}
    r = random.Random(case["seed"] + 5)
    kind = case["kind"]

    def bad(what, **detail):
        out["prop"].append({"what": what, "key": "", "detail": detail or None})

    # the baseline: run A recorded and replayed through the model
    kwA, desc, p = build(case)
    A = Run(kwA).execute()
    if A.nonfinite() or (A.exc is not None and case.get("features", {}).get("update") not in ("indef",)):
        return {"corr": None, "skipped": None, "tags": ["nonfinite-or-failing-baseline"], "prop": []}
    if A.exc is not None:
        # an indefinite redefinition may make the kernels fail: then the repeat must fail the same way
        kw2, _, _ = build(case, iprint=r.choice(IPRINTS), logger=quiet_logger(str(case["seed"])))
        A2 = Run(kw2).execute()
        if A2.exc is None or type(A2.exc) is not type(A.exc):
            out["prop"].append({"what": "a call that fails without a logger behaves differently with one (or conversely)", "key": ""})
        return out
    corr, skipped = shell.replay(A)
    out["skipped"] = skipped
    if corr is not None:
        out["corr"] = list(corr)
    out["tags"] += shell.basic_tags(A, desc, p)
    base = rs(A.result)
    callsA = list(A.rec.calls)

    if kind == "repeat":
        kwB, _, _ = build(sub_case(case, 1))
        try:
            plain(kwB)
        except Exception:
            pass
        ip = r.choice(IPRINTS)
        kw2, _, _ = build(case, iprint=ip, logger=quiet_logger(str(case["seed"])) if r.random() < 0.8 else None)
        A2 = Run(kw2).execute()
        out["tags"].append(f"iprint={ip}")
        if A2.exc is not None:
            bad(f"the same call with iprint={ip} raises {type(A2.exc).__name__}: {str(A2.exc)[:100]}", iprint=ip)
        elif rs(A2.result) != base:
            bad(f"the same call repeated (after an unrelated run, iprint={ip}) returns a different result", iprint=ip)
        elif A2.rec.calls != callsA:
            bad(f"the same call repeated (iprint={ip}) evaluates the user's functions at different points", iprint=ip)
        kw3, _, _ = build(case)
        r3 = plain(kw3)
        if rs(r3) != base:
            bad("the call without the harness's recording differs from the recorded one (harness artefact or hidden state)")
    elif kind == "frozen":
        legs = case.get("legs") or [3, 6]
        prev = None
        for li, mi in enumerate(legs):
            kwF, _, _ = build(case, maxiter=mi)
            if prev is not None:
                kwF["checkpoint"] = prev
                kwF["x0"] = np.array(prev.x, copy=True)
            kwU = dict(kwF)
            if prev is not None:
                kwU["checkpoint"] = copy.deepcopy(prev)
            try:
                want = rs(plain(kwU))       # the same leg with ordinary (writable) inputs
            except Exception as e:          # noqa: BLE001
                want = None
            freeze(kwF)
            snap = snapshot(kwF)
            try:
                res = plain(kwF)
            except Exception as e:          # noqa: BLE001
                bad(f"read-only inputs are not accepted: {type(e).__name__}: {str(e)[:120]} (leg {li})", leg=li)
                break
            ch = same_snapshot(kwF, snap)
            if ch:
                bad(f"the call modified its input(s): {', '.join(ch)} (leg {li})", leg=li, inputs=ch)
                break
            if want is not None and rs(res) != want:
                bad(f"read-only inputs give a different result than writable ones (leg {li})", leg=li)
                break
            if res is prev:
                prev = copy.deepcopy(res)
            else:
                prev = res
            out["tags"].append(f"frozen_leg={li}")
    elif kind == "twice":
        kw1, _, _ = build(case, maxiter=case.get("split", 3))
        first = plain(kw1)
        if first.nit == 0 and r.random() < 0.5:
            pass
        ck = first
        snap_ck = result_str(ck)
        res = []
        for j in range(2):
            kwR, _, _ = build(case, maxiter=case.get("total", 8))
            kwR["checkpoint"] = ck
            kwR["x0"] = np.array(ck.x, copy=True)
            try:
                res.append(rs(plain(kwR)))
            except Exception as e:          # noqa: BLE001
                bad(f"restart #{j + 1} from the same checkpoint raises {type(e).__name__}: {str(e)[:100]}")
                break
            if result_str(ck) != snap_ck:
                bad(f"restart #{j + 1} modified the caller's checkpoint object")
                break
        if len(res) == 2 and res[0] != res[1]:
            bad("restarting twice from the same checkpoint object gives two different results")
        out["tags"].append(f"scaler={'yes' if kwR.get('gradient_scaler') is not None else 'no'}")
    elif kind == "early":
        # the target is met at the start: the run returns at once, without computing a gradient. Whatever it returns must still be a
        # function of its inputs — the same call after unrelated work (other runs, arrays of the same size allocated and freed) gives
        # the same result, field by field, and the first result does not change meanwhile
        keep: List[Any] = []

        def early_kw():
            kwE, _, _ = build(case)
            fE = kwE["fun"]

            def fun_keeping(x, _f=fE):
                keep.append(x)              # user code that keeps what it was handed (an evaluation log)
                return _f(x)
            kwE["fun"] = fun_keeping
            kwE["ftarget"] = float("inf") if case["seed"] % 2 else float(np.real(fE(np.clip(np.asarray(kwE["x0"], dtype=float), p.lb, p.ub)))) + 1.0
            kwE.pop("checkpoint", None)
            return kwE
        try:
            r1 = plain(early_kw())
            s1 = rs(r1)
            junk = [np.full(p.n, 0.5 + i) for i in range(32)]
            del junk
            kwO, _, _ = build(sub_case(case, 3))
            try:
                plain(kwO)
            except Exception:               # noqa: BLE001
                pass
            junk = [np.arange(p.n, dtype=float) * (1.5 + i) for i in range(32)]
            del junk
            r2 = plain(early_kw())
            if rs(r1) != s1:
                bad("the result of a run that stopped at once on its target changed after it was returned")
            elif rs(r2) != s1:
                a, b = s1.split(" "), rs(r2).split(" ")
                names = ["x", "fun", "jac", "nfev", "njev", "nit", "status", "message", "success", "sk", "yk"]
                bad("two equal calls that stop at once on the target return different results (fields %s)" % [nm for nm, u, v in zip(names, a, b) if u != v])
            out["tags"].append(f"early_return_nit={int(r1.nit)}")
        except Exception as e:              # noqa: BLE001
            bad(f"a run whose target is met at the start raises {type(e).__name__}: {str(e)[:100]}")
    elif kind in ("threads", "nested"):
        caseB = sub_case(case, 2)
        if case.get("same_n"):
            caseB["n"] = p.n
        kwB0, _, pB = build(caseB)
        try:
            baseB = rs(plain(kwB0))
        except Exception:
            return out
        nA = len([c for c in callsA if c[0] in ("F", "G")])
        if kind == "threads":
            L = max(4, min(400, 2 * nA))
            mode = case.get("sched", "random")
            if mode == "alternate":
                order = [i % 2 for i in range(L)]
            elif mode == "blocks":
                order = []
                while len(order) < L:
                    order += [0] * r.randint(1, 4) + [1] * r.randint(1, 4)
            else:
                order = [int(r.random() < 0.5) for _ in range(L)]
            sched = Sched(order)
            res: Dict[int, Any] = {}

            def work(tid, c):
                try:
                    kw_t, _, _ = build(c)
                    res[tid] = rs(plain(with_turns(kw_t, sched, tid)))
                except BaseException as e:  # noqa: BLE001
                    res[tid] = f"!{type(e).__name__}: {str(e)[:100]}"
                finally:
                    sched.finish(tid)
            ts = [threading.Thread(target=work, args=(0, case)), threading.Thread(target=work, args=(1, caseB))]
            for t in ts:
                t.start()
            for t in ts:
                t.join(120)
            if sched.stuck or any(t.is_alive() for t in ts):
                out["skipped"] = "scheduler-timeout"
                return out
            for tid, want in ((0, base), (1, baseB)):
                if res.get(tid) != want:
                    got = res.get(tid) or ""
                    bad(f"a run interleaved with another one on a second thread {'raises ' + got[1:] if got.startswith('!') else 'returns a different result than alone'}",
                        schedule=mode, thread=tid)
                    break
            out["tags"].append(f"sched={mode}")
        else:
            k = case.get("at", 2)
            inner: Dict[str, Any] = {}
            cnt = {"n": 0}
            kwN, _, _ = build(case)
            f = kwN["fun"]

            def fn(x, *a):
                cnt["n"] += 1
                if cnt["n"] == k or (case.get("every") and cnt["n"] % case["every"] == 0):
                    kwI, _, _ = build(caseB)
                    try:
                        inner["res"] = rs(plain(kwI))
                    except BaseException as e:  # noqa: BLE001
                        inner["res"] = f"!{type(e).__name__}: {str(e)[:100]}"
                return f(x, *a)
            kwN["fun"] = fn
            try:
                outer = rs(plain(kwN))
            except BaseException as e:      # noqa: BLE001
                outer = f"!{type(e).__name__}: {str(e)[:100]}"
            if outer != base:
                bad("a run whose objective itself runs another optimisation " +
                    ("raises " + outer[1:] if outer.startswith("!") else "returns a different result than alone"), at=k)
            elif "res" in inner and inner["res"] != baseB:
                bad("a run nested inside another run's objective " +
                    ("raises " + inner["res"][1:] if inner["res"].startswith("!") else "returns a different result than alone"), at=k)
            out["tags"].append(f"nested_ran={'res' in inner}")
        out["tags"].append(f"same_n={bool(case.get('same_n'))}")
    if A.result.nit >= 1:
        out["nontrivial"] = f"{kind}:{case['seed']}"
    if case["seed"] % 37 == 0:
        out["sample"] = {"case": case, "problem": p.name, "message": A.result.message, "nit": int(A.result.nit)}
    return out


def features(r, kind):
    f = {"jac": r.choice(["callable"] * 4 + ["2-point", "none"]),
         "callback": r.choice(["none", "false", "stop"]),
         "ftarget": r.choice(["none", "none", "float"]), "gtol_callable": False,
         "scaler": r.choice(["none", "none", "const", "packaged"]),
         "update": r.choice(["none", "none", "none", "identity"]), "bounds_spelling": "array"}
    if kind in ("twice", "frozen"):
        f["callback"] = "none"
        f["ftarget"] = "none"
    if kind in ("threads", "nested"):
        f["update"] = "none"
    if kind == "repeat" and r.random() < 0.4:
        # the objective is redefined on the fly (consistently): the history filter has something to drop,
        # and whether it does must not depend on the logging configuration
        f.update({"update": r.choice(["reweight", "indef", "indef", "rescale"]), "consistent": True, "switch_at": r.randint(1, 5),
                  "jac": "callable", "scaler": "none", "ftarget": "none", "callback": r.choice(["none", "false"])})
    return f


def run(tier: str, seed: int) -> int:
    import scipy
    from packaging.version import Version
    if Version(scipy.__version__) < Version("1.12"):
        print("MACHINERY: SciPy < 1.12: the legacy line search shares its work arrays (see no_mutable_default_written)")
        return 2
    mult = 1 if tier == "quick" else 12
    plan = [("repeat", 60), ("frozen", 40), ("twice", 40), ("threads", 70), ("nested", 50), ("early", 40)]
    cases: List[Dict[str, Any]] = []
    i = 0
    for kind, n in plan:
        for j in range(n * mult):
            s = seed * 1_000_003 + i
            i += 1
            r = random.Random(s)
            c: Dict[str, Any] = {"seed": s, "kind": kind, "features": features(r, kind), "small_budgets": False,
                                 "override": {"maxiter": r.choice([4, 8, 15]), "maxfun": 400}}
            if kind in ("threads", "nested"):
                c["same_n"] = r.random() < 0.6
                c["box"] = r.choice(["both", "both", "mixed", "lower"])
                c["sched"] = r.choice(["random", "random", "alternate", "blocks"])
                c["at"] = r.randint(1, 12)
                c["every"] = r.choice([None, None, 3])
            if kind == "twice":
                c["split"] = r.choice([0, 1, 2, 3, 5])
                c["total"] = r.choice([6, 10])
                if j % 2 == 0:
                    c["features"]["scaler"] = r.choice(["const", "packaged"])
            if kind == "frozen":
                c["legs"] = r.choice([[3, 6], [0, 4], [2, 2, 7]])
            cases.append(c)
    return run_property(
        PROP, "harness.props.c14", THEOREMS, MODULES, cases, tier, seed, pre_build=pre_build,
        rule="repeat (A, unrelated B, A again with random iprint/logger), frozen read-only inputs and checkpoints with before/after "
             "snapshots over restart legs, two restarts from one checkpoint object, two runs on two threads interleaved at every user call "
             "by alternate/block/random schedules, a run nested in another run's objective; every comparison on the full result string, "
             "bit for bit; the baseline run of every case is replayed through the Lean driver model",
        assumptions=["SciPy >= 1.12 (asserted): the legacy Fortran line search, which receives shared default work arrays, is never reached",
                     "user functions deterministic"])


def replay(path: str) -> int:
    import json
    d = json.load(open(path))
    c = d["case"].get("case")
    if c is None:
        print(json.dumps(d["case"], indent=1)[:3000])
        return 1
    out = evaluate(c)
    print("prop:", out["prop"][:3], "corr:", (out["corr"] or [])[:3])
    return 1 if (out["prop"] or out["corr"]) else 0
