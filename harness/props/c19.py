"""C19 — each packaged benchmark gradient is the gradient of its benchmark function."""
from __future__ import annotations

import json
import math
import random
import sys
from typing import Any, Dict, List

import numpy as np

from harness.common import VERIF, Driver, Report, fhex, hexv, lean_build_and_audit, vhex

PROP = "C19"
NAMES = ["ackley", "beale", "griewank", "quartic", "rastrigin", "rosenbrock", "sphere", "styblinski_tang"]
THEOREMS = [f"Lbfgsb.C19.{n}_deriv" for n in NAMES]
MODULES = ["LbfgsbVerif.Props.C19"]
CHAINED = {"beale", "rosenbrock"}

_translator_error: List[str] = []


def pre_build():
    sys.path.insert(0, str(VERIF / "translate"))
    import bench2lean
    try:
        bench2lean.main()
    except Exception as e:  # Unsupported construct: the tie is broken
        _translator_error.append(f"{type(e).__name__}: {e}")


def points(rng: np.random.Generator, name: str, n: int) -> np.ndarray:
    while True:
        x = rng.uniform(-5, 5, n)
        # a fifth of the points carry special coordinates (exact zeros, units, halves, small integers): every function of the
        # family is smooth there, and formulas "simplified" by a division or a sign trick are not
        if rng.random() < 0.2:
            for i in range(n):
                if rng.random() < 0.4:
                    x[i] = float(rng.choice([0.0, 0.0, 1.0, -1.0, 0.5, -0.5, 2.0, -3.0]))
        if name == "ackley" and np.linalg.norm(x) < 0.5:
            continue
        if name == "griewank":
            den = np.sqrt(np.arange(1, n + 1))
            if np.min(np.abs(np.cos(x / den))) < 0.05:
                continue
        return x


def richardson(f, x: np.ndarray, k: int) -> float:
    """8th-order central difference of f along coordinate k (Richardson extrapolation)"""
    def cd(h):
        e = np.zeros_like(x)
        e[k] = h
        return (f(x + e) - f(x - e)) / (2 * h)
    h = 1e-2 * max(1.0, abs(x[k]))
    t = [cd(h / 2 ** j) for j in range(4)]
    for m in range(1, 4):
        t = [(4 ** m * t[j + 1] - t[j]) / (4 ** m - 1) for j in range(len(t) - 1)]
    return float(t[0])


def buffer_ok(f, g, x, b) -> bool:
    """a function of x, not of the array object or of what was evaluated before: the caller refills ONE buffer in place
    (gradient first, then value; again after an in-place perturbation; after an in-place scaling; after a refill).
    All the in-place calls come first and the reference values (on fresh arrays) are computed afterwards, so that
    no reference evaluation comes between two uses of the buffer."""
    b[:] = x
    gb, fb = np.asarray(g(b)).copy(), f(b)
    b[0] += 1.0
    fp, gp = f(b), np.asarray(g(b)).copy()
    np.multiply(b, 0.5, out=b)
    gq, fq = np.asarray(g(b)).copy(), f(b)
    xq = b.copy()
    b[:] = x
    fb2, gb2 = f(b), np.asarray(g(b)).copy()
    xp = x.copy()
    xp[0] += 1.0
    fx, gx = f(x.copy()), np.asarray(g(x.copy()))
    fpr, gpr = f(xp.copy()), np.asarray(g(xp.copy()))
    fqr, gqr = f(xq.copy()), np.asarray(g(xq.copy()))
    return (fhex(float(fb)) == fhex(float(fx)) and fhex(float(fb2)) == fhex(float(fx)) and vhex(gb) == vhex(gx) and vhex(gb2) == vhex(gx)
            and fhex(float(fp)) == fhex(float(fpr)) and vhex(gp) == vhex(gpr) and fhex(float(fq)) == fhex(float(fqr)) and vhex(gq) == vhex(gqr))


def search(npts: int, seed: int, rep: Report) -> List[Dict[str, Any]]:
    import lbfgsb
    rng = np.random.default_rng(seed)
    bad = []
    bufs: Dict[Any, np.ndarray] = {}     # one preallocated point buffer per (function, n), refilled in place
    for name in NAMES:
        f, g = getattr(lbfgsb, name), getattr(lbfgsb, name + "_grad")
        worst = 0.0
        for j in range(npts):
            n = int(rng.integers(2 if name in CHAINED else 1, 13))
            x = points(rng, name, n)
            rep.evaluations += 1
            rep.count(f"fn={name}")
            rep.count(f"n={n}")
            fx = f(x.copy())
            gx = np.asarray(g(x.copy()))
            if not (np.isscalar(fx) or np.ndim(fx) == 0) or np.iscomplexobj(fx):
                bad.append({"what": f"{name} does not return a real scalar", "case": {"fn": name, "x": list(x)}})
                break
            if gx.shape != x.shape:
                bad.append({"what": f"{name}_grad does not have the shape of x", "case": {"fn": name, "x": list(x)}})
                break
            # the same point in other legitimate forms — a list, a tuple, a strided view, a read-only array — gives the same value and gradient
            forms = {"list": [float(v) for v in x], "tuple": tuple(float(v) for v in x)}
            wide = np.zeros(2 * n)
            wide[::2] = x
            forms["strided view"] = wide[::2]
            ro = x.copy()
            ro.setflags(write=False)
            forms["read-only array"] = ro
            form_bad = None
            for fname_, xf in forms.items():
                try:
                    fv, gv = f(xf), np.asarray(g(xf), dtype=float)
                except Exception as ex:  # noqa: BLE001
                    form_bad = f"{fname_}: raises {type(ex).__name__}"
                    break
                if gv.shape != gx.shape or fhex(float(fv)) != fhex(float(fx)) or vhex(gv) != vhex(gx):
                    form_bad = f"{fname_}: value or gradient differs from the one on an array (gradient shape {gv.shape})"
                    break
            if form_bad is not None:
                bad.append({"what": f"{name} / {name}_grad depends on the form in which the point is given ({form_bad})",
                            "case": {"fn": name, "x": [float(v) for v in x], "form": form_bad.split(":")[0]}})
                break
            same = buffer_ok(f, g, x, bufs.setdefault((name, n), np.empty(n)))
            if not same:
                bad.append({"what": f"{name} / {name}_grad is not a function of x: the value depends on the array object reused by the caller "
                                    "or on earlier evaluations", "case": {"fn": name, "x": [float(v) for v in x], "buffer": True}})
                break
            num = np.array([richardson(f, x, k) for k in range(n)])
            scale = max(1.0, float(np.max(np.abs(num))))
            err = float(np.max(np.abs(num - gx))) / scale
            worst = max(worst, err)
            if not np.isfinite(gx).all() or not err <= 1e-6:
                bad.append({"what": f"{name}_grad disagrees with a high-order numerical derivative of {name} (rel. {err:.2e})",
                            "case": {"fn": name, "x": [float(v) for v in x], "grad": [float(v) for v in gx], "numerical": [float(v) for v in num]}})
                break
            rep.nontrivial.add((name, n, fhex(x[0])))
        rep.extra.setdefault("worst_rel_discrepancy", {})[name] = worst
    # structured points the uniform sampling never hits: Griewank where one of the cosines vanishes (to rounding) —
    # the function is smooth there and the i-th partial derivative needs the product of the OTHER cosines
    f, g = lbfgsb.griewank, lbfgsb.griewank_grad
    for n in range(1, 7):
        for i in range(n):
            for k in (-2, -1, 0, 1):
                x = rng.uniform(-5, 5, n)
                den = np.sqrt(np.arange(1, n + 1))
                # keep the other cosines away from zero so that the numerical derivative is well conditioned
                for j in range(n):
                    while abs(np.cos(x[j] / den[j])) < 0.2:
                        x[j] = rng.uniform(-5, 5)
                x[i] = (np.pi / 2 + k * np.pi) * den[i]
                rep.evaluations += 1
                rep.count("fn=griewank@cos-zero")
                gx = np.asarray(g(x.copy()))
                num = np.array([richardson(f, x, kk) for kk in range(n)])
                err = float(np.max(np.abs(num - gx))) / max(1.0, float(np.max(np.abs(num))))
                if not np.isfinite(gx).all() or err > 1e-6:
                    bad.append({"what": f"griewank_grad disagrees with a high-order numerical derivative of griewank where a cosine vanishes (rel. {err:.2e})",
                                "case": {"fn": "griewank", "x": [float(v) for v in x], "grad": [float(v) for v in gx], "numerical": [float(v) for v in num]}})
                    return bad
    return bad


def translator_check(npts: int, seed: int, rep: Report) -> List[str]:
    """the Float twin generated from the same AST must reproduce the Python functions"""
    import lbfgsb
    rng = np.random.default_rng(seed + 1)
    drv = Driver()
    lines, expect = [], []
    for name in NAMES:
        for fn in (name, name + "_grad"):
            for j in range(npts):
                n = int(rng.integers(2 if name in CHAINED else 1, 9))
                x = points(rng, name, n)
                lines.append(f"bench {fn} {vhex(x)}")
                v = getattr(lbfgsb, fn)(x.copy())
                expect.append((fn, x, np.atleast_1d(np.asarray(v, dtype=float))))
    got = drv.run(lines)
    diffs = []
    for l, (fn, x, v) in zip(got, expect):
        if not l.startswith("bench "):
            diffs.append(f"{fn}: driver says {l}")
            continue
        w = np.array(hexv(l.split(" ")[1]))
        if w.shape != v.shape or not np.allclose(w, v, rtol=1e-11, atol=1e-11 * max(1.0, float(np.max(np.abs(v))))):
            diffs.append(f"{fn} at {list(x)}: python {v.tolist()} generated-lean {w.tolist()}")
    rep.extra["translator_validation_points"] = len(expect)
    return diffs


def run(tier: str, seed: int) -> int:
    rep = Report(PROP, tier, seed)
    st = lean_build_and_audit(THEOREMS, MODULES, pre_build=pre_build, thorough=(tier == "thorough"))
    rep.add_lean(st, THEOREMS)
    rep.rule = ("per pair: random dimensions 1..12 (2.. for chained functions), points uniform in [-5,5]^n away from the singular sets; "
                "8th-order Richardson central differences against the exported gradient; shape and real-scalar clauses; "
                "the generated Float twin of every function is evaluated by the driver against the Python function")
    npts = 200 if tier == "quick" else 5000
    tdiffs: List[str] = []
    if _translator_error:
        rep.add_obligation("translator: benchmarks.py within the supported subset", False, _translator_error[0], kind="translator")
    else:
        rep.add_obligation("translator: benchmarks.py within the supported subset", True, kind="translator")
        if st.build_ok:
            tdiffs = translator_check(20 if tier == "quick" else 200, seed, rep)
        rep.add_obligation("translator validation: generated Float twin == Python functions", st.build_ok and not tdiffs,
                           "; ".join(tdiffs[:2]), kind="translator")
    broken = (not st.ok) or bool(_translator_error) or bool(tdiffs)
    bad = search(npts if not broken else max(npts, 3000), seed, rep)
    rep.samples = [{"fn": "ackley", "n": 3, "x": [0.5, -1.25, 2.0]}]
    for b in bad:
        rep.violation(b["what"], b["case"], True)
    if broken and not bad:
        what = []
        if _translator_error:
            what.append("translator rejects benchmarks.py: " + _translator_error[0])
        if not st.ok:
            what.append("no longer checks: " + ", ".join(st.failed_obligations(THEOREMS) or ["lean build"]))
        if tdiffs:
            what.append("generated model disagrees with the Python functions: " + tdiffs[0][:200])
        rep.violation("; ".join(what), {"broken": what, "lean_log": st.build_log[-2000:]}, False)
    return rep.finish()


def replay(path: str) -> int:
    import lbfgsb
    d = json.load(open(path))
    c = d["case"]
    if "fn" not in c:
        print(json.dumps(c, indent=1)[:3000])
        return 1
    x = np.array(c["x"])
    f, g = getattr(lbfgsb, c["fn"]), getattr(lbfgsb, c["fn"] + "_grad")
    if c.get("form"):
        xl = [float(v) for v in x]
        try:
            gl = np.asarray(g(xl) if c["form"] != "tuple" else g(tuple(xl)), dtype=float)
            ok = gl.shape == x.shape and np.array_equal(gl, np.asarray(g(x.copy())))
        except Exception as ex:  # noqa: BLE001
            print("replay raises", type(ex).__name__)
            ok = False
        print("replay", c["fn"], "gradient on a", c["form"], "equals the one on an array:", ok)
        return 0 if ok else 1
    if c.get("buffer"):
        b = np.empty(x.size)
        b[:] = x + 3.0
        f(b); g(b)
        ok = buffer_ok(f, g, x, b)
        print("replay", c["fn"], "values on a buffer refilled in place equal those on fresh arrays:", ok)
        return 0 if ok else 1
    num = np.array([richardson(f, x, k) for k in range(x.size)])
    gx = np.asarray(g(x.copy()))
    err = float(np.max(np.abs(num - gx))) / max(1.0, float(np.max(np.abs(num))))
    print("replay", c["fn"], "rel discrepancy", err)
    return 1 if err > 1e-6 else 0
