"""C13 — redefining the objective on the fly acts as a restart on the new objective."""
from __future__ import annotations

import random
from typing import Any, Dict, List

import numpy as np

from harness import shell
from harness.common import fhex,  vhex
from harness.runner import run_property
from harness.trace import Run, result_str

PROP = "C13"
THEOREMS = ["Lbfgsb.C13.filter_keeps_newest", "Lbfgsb.C13.filter_subsequence", "Lbfgsb.C13.filter_curvature",
            "Lbfgsb.C13.identity_filter_noop",
            "Lbfgsb.C13.memStep_mats_current", "Lbfgsb.C13.identity_update_transparent", "Lbfgsb.C13.curv_test_symmetric",
            "Lbfgsb.C13.redefinition_pairs_curvature", "Lbfgsb.C13.redefinition_acts_as_restart"]
MODULES = ["LbfgsbVerif.Props.C13", "LbfgsbVerif.Props.C13Run", "LbfgsbVerif.Props.C13Mem", "LbfgsbVerif.Props.C13Restart"]


def subseq_pairs(Xs: List[np.ndarray], Gs: List[np.ndarray], sk: np.ndarray, yk: np.ndarray) -> bool:
    """are (sk, yk) the consecutive differences of an order-preserving subsequence of (Xs, Gs)?"""
    m = sk.shape[0]
    if m == 0:
        return True
    n = len(Xs)
    # choose the chain backwards from every possible end point
    for end in range(n - 1, -1, -1):
        cur, ok = end, True
        for j in range(m - 1, -1, -1):
            prev = None
            for c in range(cur - 1, -1, -1):
                if vhex(Xs[cur] - Xs[c]) == vhex(sk[j]) and vhex(Gs[cur] - Gs[c]) == vhex(yk[j]):
                    prev = c
                    break
            if prev is None:
                ok = False
                break
            cur = prev
        if ok:
            return True
    return False


def _well_conditioned_after(call: Dict[str, Any], eps: float, cmin: float = 1e-3) -> bool:
    """reference filter (newest to oldest, keep a point iff it has curvature against the oldest kept so far) on the history
    the update function returned; True iff every retained pair, and the pair formed with the new point when it passes
    the test, has cos(s, y) > cmin"""
    X, G = call["X"], call["Gout"]
    if len(X) != len(G) or not X:
        return False
    kx, kg = [X[-1]], [G[-1]]
    for a, ga in zip(reversed(X[:-1]), reversed(G[:-1])):
        s_, y_ = kx[0] - a, kg[0] - ga
        if float(s_ @ y_) > eps * float(y_ @ y_):
            kx.insert(0, a)
            kg.insert(0, ga)
    pairs = [(b - a, gb - ga) for a, b, ga, gb in zip(kx, kx[1:], kg, kg[1:])]
    s_, y_ = call["x"] - kx[-1], call["gout"] - kg[-1]
    if float(s_ @ y_) > eps * float(y_ @ y_):
        pairs.append((s_, y_))
    if not pairs:
        return False
    for s_, y_ in pairs:
        ns, ny = float(np.linalg.norm(s_)), float(np.linalg.norm(y_))
        if not (ns > 0 and ny > 0 and float(s_ @ y_) > cmin * ns * ny):
            return False
    # comparable scales: theta and the pair curvatures within a moderate range
    ratios = [float(y_ @ y_) / float(s_ @ y_) for s_, y_ in pairs]
    return max(ratios) / min(ratios) < 1e6


def evaluate_filter(case: Dict[str, Any]) -> Dict[str, Any]:
    """the history filter alone: one-dimensional histories (every pattern of curvature signs between retained points can be
    produced, and the dot products are single multiplications, hence bit-comparable with the Lean model)"""
    from collections import deque
    from lbfgsb.bfgsmats import make_X_and_G_respect_strong_wolfe
    from harness.common import vshex
    out: Dict[str, Any] = {"corr": [], "skipped": None, "tags": ["kind=filter"], "prop": []}
    rng = np.random.default_rng(case["seed"])
    m = case["m"]
    # strictly increasing points; gradients = a monotone ramp perturbed so that some consecutive (and some merged) pairs lose curvature
    X = np.cumsum(rng.uniform(0.1, 1.0, m))
    G = np.cumsum(rng.uniform(-0.6, 1.0, m)) if case["style"] == "walk" else rng.uniform(-1, 1, m) + 0.6 * np.arange(m) * rng.uniform(0, 1)
    eps = case["eps"]
    Xd, Gd = deque([np.array([v]) for v in X]), deque([np.array([v]) for v in G])
    Xo, Go = make_X_and_G_respect_strong_wolfe(Xd, Gd, eps)
    Xo, Go = [np.asarray(v) for v in Xo], [np.asarray(v) for v in Go]
    # property: newest retained, subsequence, every retained consecutive pair has curvature
    if not Xo or vhex(Xo[-1]) != vhex(np.array([X[-1]])) or vhex(Go[-1]) != vhex(np.array([G[-1]])):
        out["prop"].append({"what": "history filter: the newest point is not retained", "key": ""})
    it = iter(range(m))
    if not all(any(vhex(np.array([X[j]])) == vhex(a) and vhex(np.array([G[j]])) == vhex(b) for j in it) for a, b in zip(Xo, Go)):
        out["prop"].append({"what": "history filter: output is not an order-preserving subsequence of the input", "key": ""})
    for (a, ga), (b, gb) in zip(zip(Xo, Go), zip(Xo[1:], Go[1:])):
        sy, yy = float((b - a) @ (gb - ga)), float((gb - ga) @ (gb - ga))
        if not sy > eps * yy:
            out["prop"].append({"what": "history filter: a retained pair violates the curvature condition", "key": "",
                                "detail": {"X": [float(v) for v in X], "G": [float(v) for v in G], "kept": [float(v[0]) for v in Xo]}})
            break
    got = shell.driver().run([f"filter {fhex(eps)} {vshex([[v] for v in X])} {vshex([[v] for v in G])}"])
    exp = f"filter {vshex(Xo)} {vshex(Go)}"
    if not got or got[0] != exp:
        out["corr"].append(f"history filter: implementation keeps {[float(v[0]) for v in Xo]}, model says {(got or [''])[0][:120]}")
    out["tags"].append(f"dropped={min(m - len(Xo), 4)}")
    out["nontrivial"] = f"filter:{case['seed']}" if len(Xo) < m else None
    return out


def evaluate(case: Dict[str, Any]) -> Dict[str, Any]:
    if case.get("kind") == "filter":
        return evaluate_filter(case)
    out: Dict[str, Any] = {"corr": [], "skipped": None, "tags": [], "prop": []}
    kw, desc, p = shell.build(case)
    kind = case["features"]["update"]
    eps = kw.get("eps_SY", 2.2e-16)
    # record what the update function sees and returns
    calls: List[Dict[str, Any]] = []
    inner = kw["update_fun_def"]

    def upd(x, f0, f0_old, grad, X, G):
        o = inner(x, f0, f0_old, grad, X, G)
        calls.append({"x": np.array(x, copy=True), "X": [np.array(v, copy=True) for v in X],
                      "Gout": [np.array(v, copy=True) for v in o[3]], "gout": np.array(o[2], copy=True)})
        return o
    if kind == "identity":
        upd._identity = True
    kw["update_fun_def"] = upd
    states: List[Any] = []
    kw["callback"] = lambda xk, st: states.append(st) or False
    run = Run(kw).execute()
    if run.nonfinite():
        return {"corr": None, "skipped": None, "tags": ["nonfinite"], "prop": []}
    if run.exc is not None:
        if kind in ("break", "indef"):
            # an arbitrary rewrite may legitimately drive the kernels into a numerically non-SPD model (pairs with a
            # barely positive curvature); but when the history the package must keep after the last rewrite — the
            # filter applied independently to what the update function returned — and the pair of the new point are
            # all well-conditioned, the memory promised by the property gives an SPD model and the failure is unexplained
            if calls and _well_conditioned_after(calls[-1], eps):
                out["prop"].append({"what": f"run raises {type(run.exc).__name__} after a rewrite although the curvature-filtered history "
                                            "is well-conditioned (the stored pairs cannot all satisfy the curvature condition)", "key": ""})
                return out
            return {"corr": None, "skipped": None, "tags": ["kernel-exception-after-arbitrary-rewrite"], "prop": []}
        out["prop"].append({"what": f"run with update function raises {type(run.exc).__name__}: {run.exc}", "key": ""})
        return out
    corr, skipped = shell.replay(run)
    out["skipped"] = skipped
    if corr is not None:
        out["corr"] += corr
    out["tags"] += shell.basic_tags(run, desc, p)
    res = run.result
    if kind == "identity":
        kw2, _, _ = shell.build(case)
        kw2.pop("update_fun_def", None)
        kw2["callback"] = lambda xk, st: False
        plain = Run(kw2).execute()
        if plain.exc is None:
            if result_str(plain.result) != result_str(res):
                a, b = result_str(plain.result).split(" "), result_str(res).split(" ")
                names = ["x", "fun", "jac", "nfev", "njev", "nit", "status", "message", "success", "sk", "yk"]
                out["prop"].append({"what": "identity update function changes the result (fields %s)" % [n for n, u, v in zip(names, a, b) if u != v],
                                    "key": ""})
            if [c for c in run.rec.calls if c[0] != "UPD"] != plain.rec.calls:
                out["prop"].append({"what": "identity update function changes the sequence of user calls", "key": ""})
    else:
        # structural clauses on every state after an update and on the result
        for j, st in enumerate(states + [res]):
            sk, yk = np.atleast_2d(st.hess_inv.sk), np.atleast_2d(st.hess_inv.yk)
            if sk.size == 0:
                continue
            sy = np.einsum("ij,ij->i", sk, yk)
            yy = np.einsum("ij,ij->i", yk, yk)
            if not (sy > eps * yy).all():
                out["prop"].append({"what": "a retained pair violates the curvature condition after the gradients were rewritten",
                                    "key": "", "detail": {"state": j, "s.y": sy.tolist()}})
                break
            if sk.shape[0] > kw.get("maxcor", 10):
                out["prop"].append({"what": "more than maxcor pairs", "key": ""})
                break
        # pairs of the state handed over right after update call c are differences of the
        # rewritten history (+ the new point)
        for ci, st in enumerate(states):
            c = calls[ci + 1] if ci + 1 < len(calls) else None   # call 0 happens before the loop
            if c is None:
                break
            Xs = c["X"] + [np.asarray(st.x, dtype=float)]
            Gs = c["Gout"] + [np.asarray(st.jac, dtype=float)]
            sk, yk = np.atleast_2d(st.hess_inv.sk), np.atleast_2d(st.hess_inv.yk)
            if sk.size and not subseq_pairs(Xs, Gs, sk, yk):
                out["prop"].append({"what": "pairs carried by a state are not differences of the rewritten gradients", "key": "",
                                    "detail": {"state": ci}})
                break
            # the newest point of the history handed to the update function is always retained:
            # some pair must end or start at it whenever any pair survives
            if sk.size and len(c["X"]) >= 1:
                xn = c["X"][-1]
                ends = [vhex(np.asarray(st.x, dtype=float) - xn)] if True else []
                ok = any(vhex(xn - Xs[i]) == vhex(s) for s in sk for i in range(len(Xs) - 2)) or \
                    any(vhex(np.asarray(st.x, dtype=float) - xn) == vhex(s) for s in sk) or sk.shape[0] == 0
                rejected_new = not any(vhex(np.asarray(st.x, dtype=float) - xn) == vhex(s) for s in sk)
                if rejected_new and not any(vhex(xn - Xs[i]) == vhex(s) for s in sk for i in range(len(Xs) - 1)):
                    out["prop"].append({"what": "the newest point of the rewritten history was not retained", "key": ""})
                    break
    # semantic clause: next iterate == restart on the new objective from the rewritten history
    sw = getattr(p, "switch", None)
    if sw is not None and run.exc is None:
        k = sw["switch_at"]          # update call number k happens during iteration k (k >= 1)
        by_nit = {int(st.nit): st for st in states}
        if k >= 1 and k in by_nit and (k + 1) in by_nit:
            stk = by_nit[k]
            kw3, _, p3 = shell.build(case)
            kw3.pop("update_fun_def", None)
            kw3["fun"], kw3["jac"] = sw["newfun"], sw["newjac"]
            kw3.update(x0=np.array(stk.x, copy=True), checkpoint=stk, maxiter=k + 1)
            kw3.pop("callback", None)
            r3 = Run(kw3).execute()
            if r3.exc is None:
                want = np.asarray(by_nit[k + 1].x, dtype=float)
                got = np.asarray(r3.result.x, dtype=float)
                if float(np.max(np.abs(want - got))) > 1e-6 * max(1.0, float(np.max(np.abs(want)))):
                    # was the pair formed at the switching iteration rejected? (matrices not rebuilt: K3)
                    rej = any(not c["accepted"] for c in run.rec.curv)
                    out["prop"].append({"what": "next iterate after the objective switch differs from a restart on the new objective",
                                        "key": "rewrite-then-rejected-pair" if rej else "",
                                        "detail": {"k": k, "diff": float(np.max(np.abs(want - got)))}})
            out["tags"].append("restart-equivalence-checked")
    if res.nit >= 2:
        out["nontrivial"] = f"{case['seed']}"
    if case["seed"] % 13 == 0:
        out["sample"] = {"case": case, "problem": p.name, "update_calls": len(calls), "nit": int(res.nit), "message": res.message}
    if corr is None:
        out["corr"] = None
    return out


def run(tier: str, seed: int) -> int:
    n = 300 if tier == "quick" else 3000
    cases = []
    for i in range(n):
        s = seed * 1_000_003 + i
        r = random.Random(s)
        kind = r.choice(["identity", "identity", "rescale", "reweight", "reweight", "break", "indef", "indef", "indef"])
        feat = {"jac": "callable", "callback": "false", "ftarget": "none" if kind != "identity" else r.choice(["none", "float"]),
                "gtol_callable": False, "scaler": "none", "update": kind, "consistent": True,
                "switch_at": r.randint(1, 6)}
        cases.append({"seed": s, "features": feat, "families": ["qp", "qp_quartic", "qp_softplus", "rosen", "styb", "osc"],
                      "override": {"maxiter": r.choice([8, 12, 20]), "maxfun": 15000, "ftol": r.choice([0.0, 1e-12]) if kind != "identity" else r.choice([0.0, 1e-5, 1e-2]),
                                   "maxcor": r.choice([2, 3, 5, 10])}})
    nf = 1500 if tier == "quick" else 40000
    for i in range(nf):
        s = seed * 1_000_003 + 600_000 + i
        r = random.Random(s)
        cases.append({"seed": s, "kind": "filter", "m": r.randint(2, 9), "style": r.choice(["walk", "ramp"]),
                      "eps": r.choice([2.2e-16, 0.0, 1e-3, 0.2])})
    return run_property(
        PROP, "harness.props.c13", THEOREMS, MODULES, cases, tier, seed,
        rule="runs with an update function: identity (compared bit for bit with the run without it), consistent objective switches at "
             "iteration k (rescaling, re-weighted regulariser: fun/jac/update share one state) and arbitrary rewrites breaking curvature "
             "for a subset of pairs; pairs of every later state checked against the rewritten history, curvature of retained pairs, newest "
             "point retained, next iterate compared with a restart on the new objective; runs replayed through the Lean model",
        assumptions=["objectives finite on the box"])


def replay(path: str) -> int:
    import json
    d = json.load(open(path))
    c = d["case"].get("case")
    if c is None:
        print(json.dumps(d["case"], indent=1)[:3000])
        return 1
    out = evaluate(c)
    print("prop:", out["prop"][:3], "corr:", (out["corr"] or [])[:3])
    return 1 if (out["prop"] or out["corr"]) else 0
