"""C04 — the termination report is truthful and the run budgets are respected."""
from harness.props.shellprops import evaluate, gen_cases  # noqa: F401
from harness.runner import run_property

PROP = "C04"
THEOREMS = [
    "Lbfgsb.C04.projgr_shift",
    "Lbfgsb.C04.projgr_smul",
    "Lbfgsb.C04.message_documented",
    "Lbfgsb.C04.thresholds",
    "Lbfgsb.C04.report_truthful",
    "Lbfgsb.C04.success_iff",
    "Lbfgsb.C04.nit_bound",
    "Lbfgsb.C04.nfev_bound",
    "Lbfgsb.C04.criteria_called_once",
]
MODULES = ["LbfgsbVerif.Props.C04", "LbfgsbVerif.Props.C04Shift"]


def features(r):
    return {"jac": r.choice(["callable"] * 5 + ["2-point", "none"]),
            "callback": r.choice(["none", "false", "stop", "stop"]),
            "ftarget": r.choice(["none", "float", "callable", "int", "callable_int"]),
            "gtol_callable": r.random() < 0.3,
            "scaler": r.choice(["none", "none", "none", "const"]),
            "update": r.choice(["none", "none", "none", "identity", "rescale", "reweight"]),
            "consistent": True, "switch_at": r.randint(1, 4)}


def run(tier: str, seed: int) -> int:
    n = 400 if tier == "quick" else 5000
    cases = gen_cases(PROP, n, seed, ["C04", "C02"], features, chain_frac=0.3, small_budgets=True)
    # continuation runs: the objective is re-weighted by the update function at the moment the current stage has converged (projected
    # gradient below the tolerance) — the report must speak of the objective as redefined, with which the run goes on
    import random
    for i in range(n // 5):
        s = seed * 1_000_003 + 600_000 + i
        r = random.Random(s)
        gt = r.choice([1e-4, 1e-5, 1e-6])
        cases.append({"seed": s, "monitors": ["C04", "C02"], "families": ["qp", "qp_softplus", "qp_quartic"], "small_budgets": False,
                      "features": {"jac": "callable", "callback": r.choice(["none", "false"]), "ftarget": "none", "gtol_callable": False,
                                   "scaler": "none", "update": "reweight", "consistent": True, "switch_at": 1, "trigger_pg": gt},
                      "override": {"gtol": gt, "ftol": 0.0, "maxiter": r.choice([60, 200]), "maxfun": 15000, "maxls": 20}})
    # thresholds that are exactly zero, in the forms a user may write them (0, 0.0, a numpy zero, a callable returning zero): the run
    # must not report the projected-gradient test as satisfied before the projected gradient is exactly zero
    for i in range(n // 8):
        s = seed * 1_000_003 + 650_000 + i
        r = random.Random(s)
        z = r.choice(["int", "float", "np", "callable"])
        cases.append({"seed": s, "monitors": ["C04", "C02"], "families": ["qp", "qp_softplus", "rosen", "qp_quartic"], "small_budgets": False,
                      "features": {"jac": "callable", "callback": "none", "ftarget": "none", "gtol_callable": z == "callable", "gtol_zero": z,
                                   "scaler": "none", "update": "none"},
                      "override": {"ftol": 0.0, "maxiter": r.choice([60, 200]), "maxfun": 15000, "maxls": 20}})
    return run_property(
        PROP, "harness.props.c04", THEOREMS, MODULES, cases, tier, seed,
        rule="random runs over the configuration lattice (maxiter from 0, maxfun from 1, maxls, ftol, gtol float/callable, "
             "ftarget None/float/callable, stopping callbacks, scaler, identity update and objective redefinitions on the fly — rescaling, re-weighting — under a target, and continuation runs that re-weight the objective when the current stage has converged); each replayed through the Lean shell "
             "model bit for bit and cross-checked message-against-state; non-trivial = at least one iteration performed",
        assumptions=["objectives finite-valued on the box (no NaN)", "maxls >= 1"])


def replay(path: str) -> int:
    import json
    d = json.load(open(path))
    c = d["case"].get("case")
    if c is None:
        print(json.dumps(d["case"], indent=1)[:3000])
        return 1
    out = evaluate(c)
    print("corr:", out["corr"], "skipped:", out["skipped"])
    print("prop:", out["prop"])
    return 1 if (out["prop"] or out["corr"]) else 0
