"""C20 — failures of user callables surface unchanged and leave nothing behind."""
from __future__ import annotations

import random
from typing import Any, Dict, List

import numpy as np

from harness import shell
from harness.runner import run_property
from harness.trace import Run, result_str

PROP = "C20"
THEOREMS = ["Lbfgsb.C20.error_is_users", "Lbfgsb.C20.handlers_transparent", "Lbfgsb.C20.no_swallowing_handler_reaches_user", "Lbfgsb.C20.no_residue"]
MODULES = ["LbfgsbVerif.Props.C20"]
KINDS = ["F", "G", "CB", "UPD", "SC", "FT", "GT"]


class Boom(Exception):
    pass


def make_exc(cls: str, tag: str) -> BaseException:
    return {"custom": Boom, "TypeError": TypeError, "ValueError": ValueError, "IndexError": IndexError,
            "AssertionError": AssertionError, "KeyboardInterrupt": KeyboardInterrupt,
            "StopIteration": StopIteration, "ArithmeticError": FloatingPointError}[cls](f"boom-{tag}")


def _silent(*_a) -> None:
    return None


def global_state() -> Dict[str, Any]:
    """Process-wide settings a run could leave altered (compared before/after a failing run)."""
    import logging
    import sys
    import warnings
    return {"numpy error handling (np.geterr)": dict(np.geterr()), "numpy error callback": repr(np.geterrcall()),
            "warnings filters": [repr(f) for f in warnings.filters],
            "numpy print options": repr(sorted((k, repr(v)) for k, v in np.get_printoptions().items())),
            "logging.disable level": logging.root.manager.disable, "root logger level": logging.getLogger().level,
            "root logger handlers": len(logging.getLogger().handlers), "lbfgsb logger handlers": len(logging.getLogger("lbfgsb").handlers),
            "recursion limit": sys.getrecursionlimit()}


def pre_build():
    import sys
    sys.path.insert(0, str(__import__("harness.common", fromlist=["VERIF"]).VERIF / "translate"))
    import handlers2lean
    handlers2lean.main()
    import state2lean
    from harness.common import REPO, VERIF
    state2lean.main(str(REPO), str(VERIF / "lean" / "LbfgsbVerif" / "Generated" / "State.lean"))


def evaluate(case: Dict[str, Any]) -> Dict[str, Any]:
    out: Dict[str, Any] = {"corr": [], "skipped": None, "tags": [], "prop": []}
    kw, desc, p = shell.build(case)
    base = Run(kw).execute()
    if base.nonfinite() or base.exc is not None:
        return {"corr": None, "skipped": None, "tags": ["nonfinite-or-failing-baseline"], "prop": []}
    base_str = result_str(base.result)
    counts = {k: sum(1 for kd, _ in base.rec.calls if kd == k) for k in KINDS}
    r = random.Random(case["seed"])
    points = []
    for k in KINDS:
        n = counts[k]
        idxs = list(range(n)) if n <= case["max_per_kind"] else sorted(set(
            list(range(3)) + [n - 1, n - 2] + r.sample(range(n), case["max_per_kind"] - 5)))
        for i in idxs:
            points.append((k, i))
    ncomp = 0
    for (k, i) in points:
        cls = r.choice(case["classes"])
        exc = make_exc(cls, f"{k}{i}")
        kw2, _, _ = shell.build(case)   # fresh closures (stateful callbacks / update functions)
        # (the workers of the harness run with every numpy floating-point error ignored: give the failing run a distinctive,
        # silent setting, so that a change to any value — 'ignore' included — shows)
        err0, call0 = np.geterr(), np.geterrcall()
        np.seterrcall(_silent)
        np.seterr(divide="call", invalid="call", over="call", under="ignore")
        g0 = global_state()
        run = Run(kw2, faults={(k, i): exc}).execute()
        g1 = global_state()
        np.seterr(**err0)
        np.seterrcall(call0)
        if g1 != g0:
            changed = [n for n in g0 if g0[n] != g1[n]]
            out["prop"].append({"what": f"after a failure of the user's {k} callable (call #{i}) process-wide settings are left altered: {changed}",
                                "key": "", "detail": {"kind": k, "index": i, "changed": changed, "before": {n: g0[n] for n in changed},
                                                      "after": {n: g1[n] for n in changed}}})
        out["tags"].append(f"fault_kind={k}")
        out["tags"].append(f"exc_class={cls}")
        if run.exc is not exc:
            got = repr(run.exc) if run.exc is not None else f"a result ({run.result.message})"
            out["prop"].append({"what": f"exception raised by the user's {k} callable (call #{i}, {cls}) did not propagate unchanged: got {got[:120]}",
                                "key": "", "detail": {"kind": k, "index": i, "class": cls}})
            continue
        corr, skipped = shell.replay(run)
        if corr is not None:
            ncomp += 1
            out["corr"] += [f"fault {k}#{i}: {d}" for d in corr]
        # nothing left behind: the identical fault-free call gives what it gave before
        kw3, _, _ = shell.build(case)
        again = Run(kw3).execute()
        if again.exc is not None or result_str(again.result) != base_str or again.rec.calls != base.rec.calls:
            out["prop"].append({"what": f"after a failure of the user's {k} callable (call #{i}) an identical fault-free call behaves differently",
                                "key": "", "detail": {"kind": k, "index": i}})
    out["nontrivial"] = f"{case['seed']}:{len(points)}" if len(points) > 3 else None
    out["n_faults"] = len(points)
    if case["seed"] % 7 == 0:
        out["sample"] = {"case": {k: v for k, v in case.items() if k != "classes"}, "problem": p.name,
                         "calls_per_kind": counts, "fault_points": points[:8]}
    if ncomp == 0:
        out["corr"] = None
    return out


def features(r):
    return {"jac": r.choice(["callable"] * 3 + ["2-point", "3-point", "cs", "none"]),
            "callback": r.choice(["false", "stop"]), "ftarget": r.choice(["callable", "float", "none"]),
            "gtol_callable": r.random() < 0.6, "scaler": r.choice(["const", "none"]),
            "update": r.choice(["identity", "none", "rescale"])}


def run(tier: str, seed: int) -> int:
    n, per = (40, 8) if tier == "quick" else (300, 25)
    classes = ["custom", "TypeError", "ValueError", "IndexError", "AssertionError", "StopIteration", "ArithmeticError"] + (["KeyboardInterrupt"] if tier == "thorough" else [])
    cases = []
    for i in range(n):
        s = seed * 1_000_003 + i
        r = random.Random(s)
        cases.append({"seed": s, "features": features(r), "max_per_kind": per, "classes": classes,
                      "override": {"maxiter": r.choice([2, 4, 8])}})

    def finalize(rep, results):
        rep.extra["fault_injections"] = sum(o.get("n_faults", 0) for o in results)

    return run_property(
        PROP, "harness.props.c20", THEOREMS, MODULES, cases, tier, seed, pre_build=pre_build, finalize=finalize,
        rule="for each explored run: one fault per (callable kind, call index) — every index when few, a sample otherwise — with a "
             "random exception class; the very exception object must reach the caller; the faulted run is replayed through the Lean "
             "model (same error); process-wide settings (numpy error handling, warnings filters, logging, print options) are compared before and after the failing run; then the identical fault-free call is compared with the baseline; non-trivial = more than 3 fault points",
        assumptions=["exceptions are raised by the harness's wrappers around the user's callables"])


def replay(path: str) -> int:
    import json
    d = json.load(open(path))
    c = d["case"].get("case")
    if c is None:
        print(json.dumps(d["case"], indent=1)[:3000])
        return 1
    out = evaluate(c)
    print("prop:", out["prop"][:3], "corr:", (out["corr"] or [])[:3])
    return 1 if (out["prop"] or out["corr"]) else 0
