THEOREMS = ["Lbfgsb.C03.ls_strict_decrease", "Lbfgsb.C03.failed_ls_keeps_x", "Lbfgsb.C03.accepted_monotone", "Lbfgsb.C03.result_le_start"]
MODULES = ["LbfgsbVerif.Props.C03"]
MONITORS = ["C03", "C02"]
N_QUICK, N_THOROUGH = 1200, 12000
COMMON = {"chain_frac": 0.2, "small_budgets": True, "families": ["qp", "qp_quartic", "rosen", "osc", "styb", "badscale", "steep", "steep", "bench", "nan_edge", "nan_edge"]}
ASSUMPTIONS = ["objectives finite-valued at the start; the nan_edge family is NaN on part of the box (monitors only, no replay)", "fixed objective (no update_fun_def)"]
RULE = ("random runs with maxls in 1..20 and maxfun from 1 (budget exhausted mid-search), convex / non-convex / badly scaled "
        "families, objectives that are NaN beyond the edge of their domain; sequence f(x0), callback states' fun, result fun checked non-increasing; non-trivial = at least one iteration")


def features(r):
    return {"jac": r.choice(["callable"] * 4 + ["2-point"]),
            "callback": r.choice(["false", "false", "stop"]),
            "ftarget": r.choice(["none", "none", "float"]), "gtol_callable": False,
            "scaler": r.choice(["none", "none", "const", "packaged"]),
            "update": "none"}
