"""Independent (dense, brute-force) formulations of the numerical kernels, used as oracles for
the kernel differentials C08 / C09, and generators of kernel inputs."""
from __future__ import annotations

import itertools
import random
from collections import deque
from typing import Any, Dict, List, Optional, Tuple

import numpy as np


def make_memory(rng: np.random.Generator, n: int, npairs: int, maxcor: int = 10):
    """a limited-memory model built by the package itself from `npairs` convex pairs"""
    from lbfgsb.bfgsmats import LBFGSB_MATRICES, update_lbfgs_matrices
    mats = LBFGSB_MATRICES(n)
    if npairs == 0:
        return mats, None
    Q, _ = np.linalg.qr(rng.standard_normal((n, n)))
    A = (Q * np.exp(rng.uniform(0, np.log(10 ** rng.uniform(0, 2.5)), n))) @ Q.T
    A = 0.5 * (A + A.T)
    x = rng.standard_normal(n)
    X, G = deque([x.copy()]), deque([A @ x])
    for _ in range(npairs):
        xn = X[-1] + rng.standard_normal(n) * 10 ** rng.uniform(-1, 0.3)
        mats = update_lbfgs_matrices(xn, A @ xn, X, G, maxcor, mats, False, 2.2e-16)
    return mats, (list(X), list(G))


def dense_B(mats, n: int) -> np.ndarray:
    """theta I - W M W^T with M the inverse of the middle matrix assembled from the factors"""
    if not mats.use_factor:
        return mats.theta * np.eye(n)
    Minv = mats.invMfactors[0] @ mats.invMfactors[1]
    return mats.theta * np.eye(n) - mats.W @ np.linalg.solve(Minv, mats.W.T)


def ref_cauchy(x, g, lb, ub, B) -> Dict[str, Any]:
    """first local minimiser of q(t) = m(P(x - t g)) along the projected path (Byrd-Lu-Nocedal),
    by brute force over the sorted segments with the dense matrix. Returns the point, t*, and
    the smallest decision margin met (relative), to recognise ties."""
    n = x.size
    with np.errstate(divide="ignore", invalid="ignore"):
        t = np.where(g < 0, (x - ub) / g, np.where(g > 0, (x - lb) / g, np.inf))
    t = np.where(g == 0, np.inf, t)
    bps = sorted(set(float(v) for v in t if v > 0))
    margin = np.inf
    t_old = 0.0
    xcp = x.copy()

    def path(tt):
        p = x - np.minimum(tt, t) * g
        p = np.where(t <= tt, np.where(g < 0, ub, np.where(g > 0, lb, x)), p)
        return np.where(g == 0, x, p)
    j = 0
    while True:
        d = np.where(t > t_old, -g, 0.0)
        if not np.any(d != 0):
            return {"x": path(t_old), "t": t_old, "margin": margin, "where": "all-fixed"}
        z = path(t_old) - x
        f1 = float(g @ d + d @ (B @ z))
        f2 = float(d @ (B @ d))
        scale = float(np.abs(g) @ np.abs(d)) + 1e-300
        margin = min(margin, abs(f1) / scale)
        if f1 >= 0:
            return {"x": path(t_old), "t": t_old, "margin": margin, "where": "breakpoint"}
        dt = -f1 / f2 if f2 > 0 else np.inf
        t_next = bps[j] if j < len(bps) else np.inf
        seg = t_next - t_old
        if np.isfinite(seg):
            margin = min(margin, abs(dt - seg) / max(seg, 1e-300))
        if dt < seg:
            return {"x": path(t_old + dt), "t": t_old + dt, "margin": margin, "where": "interior"}
        t_old = t_next
        j += 1


def model_value(x, g, B, p) -> float:
    z = p - x
    return float(g @ z + 0.5 * z @ (B @ z))


def kernel_input(seed: int, n: Optional[int] = None, pattern: Optional[Tuple] = None, tie: bool = False,
                 pinned: bool = False) -> Dict[str, Any]:
    """random kernel input (feasible x, gradient, box, memory); `pattern` fixes, per variable,
    (position in {lb, ub, interior}, gradient sign in {-1, 0, 1}, bound kind in {both, lower, upper, none})"""
    rng = np.random.default_rng(seed)
    r = random.Random(seed)
    n = n or r.randint(1, 10)
    npairs = r.choice([0, 0, 1, 2, 3, 5, 8])
    if pinned:
        npairs = max(npairs, 1)
    mats, hist = make_memory(rng, n, min(npairs, 10))
    lb, ub, x, g = np.empty(n), np.empty(n), np.empty(n), np.empty(n)
    for i in range(n):
        pos, sg, kind = pattern[i] if pattern else (r.choice(["lb", "ub", "in", "in"]), r.choice([-1, 0, 1, 1, -1]),
                                                    r.choice(["both", "both", "lower", "upper", "none"]))
        lo, hi = -float(rng.uniform(0.2, 2.0)), float(rng.uniform(0.2, 2.0))
        lb[i] = lo if kind in ("both", "lower") else -np.inf
        ub[i] = hi if kind in ("both", "upper") else np.inf
        if pos == "lb" and np.isfinite(lb[i]):
            x[i] = lb[i]
        elif pos == "ub" and np.isfinite(ub[i]):
            x[i] = ub[i]
        else:
            a = lb[i] if np.isfinite(lb[i]) else -2.0
            b = ub[i] if np.isfinite(ub[i]) else 2.0
            x[i] = float(rng.uniform(a, b))
        g[i] = sg * float(10 ** rng.uniform(-1.5, 1.0))
    # symmetric situations produce equal breakpoints: provoke them now and then
    if n >= 2 and r.random() < 0.15:
        x[1], g[1], lb[1], ub[1] = x[0], g[0], lb[0], ub[0]
    if tie and n >= 3:
        # two (or three) variables heading to a finite bound they reach at the same t, the others still moving
        # far beyond it: the search must go on past the tied breakpoints when the model keeps decreasing
        k = 3 if (n >= 4 and r.random() < 0.3) else 2
        sg0 = r.choice([-1.0, 1.0])
        g0 = sg0 * float(10 ** rng.uniform(-0.5, 1.0))
        for j in range(k):
            g[j] = g0
            if sg0 < 0:
                ub[j] = float(rng.uniform(0.2, 2.0))
                x[j] = ub[j] - float(abs(g0)) * 0.37
                lb[j] = -np.inf if r.random() < 0.5 else x[j] - 3.0
            else:
                lb[j] = -float(rng.uniform(0.2, 2.0))
                x[j] = lb[j] + float(abs(g0)) * 0.37
                ub[j] = np.inf if r.random() < 0.5 else x[j] + 3.0
            if j:
                x[j], lb[j], ub[j] = x[0], lb[0], ub[0]
        for j in range(k, n):
            g[j] = r.choice([-1.0, 1.0]) * float(10 ** rng.uniform(-1.5, 0.0))
            lb[j], ub[j] = (-np.inf, np.inf) if r.random() < 0.5 else (-50.0, 50.0)
            x[j] = float(rng.uniform(-1, 1))
    if pinned and n >= 2:
        # every moving variable reaches a finite bound long before the minimiser of the model, while one or two
        # variables with an exactly zero gradient component stay strictly inside the box: the search runs out of
        # moving variables and the auxiliary vector must still be W^T (x_cp - x)
        nz = 1 if (n == 2 or r.random() < 0.6) else 2
        for j in range(n):
            if j < nz:
                g[j] = 0.0
                lb[j], ub[j] = (-5.0, 5.0) if r.random() < 0.7 else (-np.inf, np.inf)
                x[j] = float(rng.uniform(-1, 1))
            else:
                sg = r.choice([-1.0, 1.0])
                g[j] = sg * float(10 ** rng.uniform(-1.0, 1.0))
                tj = float(10 ** rng.uniform(-9.0, -6.0))
                if sg < 0:
                    ub[j] = float(rng.uniform(0.2, 2.0))
                    x[j] = ub[j] - abs(g[j]) * tj
                    lb[j] = -np.inf if r.random() < 0.5 else x[j] - 3.0
                else:
                    lb[j] = -float(rng.uniform(0.2, 2.0))
                    x[j] = lb[j] + abs(g[j]) * tj
                    ub[j] = np.inf if r.random() < 0.5 else x[j] + 3.0
    return {"x": x, "g": g, "lb": lb, "ub": ub, "mats": mats, "n": n, "npairs": 0 if hist is None else len(hist[0]) - 1, "hist": hist}


# (the package's curvature test s.y > eps y.y is not invariant under a change of units — by design, as in the Fortran code — so the
# twins keep b^2/a, the factor of s.y / y.y, within 2^±10: the same pairs are accepted)
TWINS = [(4.0 ** -60, 2.0 ** -60), (4.0 ** -45, 2.0 ** -45), (4.0 ** -30, 2.0 ** -35), (4.0 ** 20, 2.0 ** 25)]


def twin_factors(inp, k: int):
    """(a, b): the same problem with the objective in other units (f -> a f) and the variables in other units (x -> b x), both powers
    of two (a an even one, so that the Cholesky factors scale exactly too): every quantity the kernels compute is then the exact
    multiple of its counterpart, and the outputs must be the exact multiples as well. Without pairs the model is the identity
    whatever the units, so only a = b^2 is the same problem."""
    if inp["hist"] is None:
        b = [2.0 ** -60, 2.0 ** -20, 2.0 ** 25, 2.0 ** -45][k % 4]
        return b * b, b
    return TWINS[k % 4]


def scaled_twin(inp, a: float, b: float):
    from lbfgsb.bfgsmats import LBFGSB_MATRICES, update_lbfgs_matrices
    n = inp["n"]
    mats = LBFGSB_MATRICES(n)
    if inp["hist"] is not None:
        X0, G0 = inp["hist"]
        X, G = deque([X0[0] * b]), deque([G0[0] * (a / b)])
        for xn, gn in zip(X0[1:], G0[1:]):
            mats = update_lbfgs_matrices(xn * b, gn * (a / b), X, G, 10, mats, False, 2.2e-16)
    return {"x": inp["x"] * b, "g": inp["g"] * (a / b), "lb": inp["lb"] * b, "ub": inp["ub"] * b, "mats": mats, "n": n,
            "npairs": inp["npairs"], "hist": None}


PATTERN_ALPHABET = list(itertools.product(["lb", "ub", "in"], [-1, 0, 1], ["both", "lower", "upper", "none"]))
