"""The COMPLETE model run natively against the package.

`drv`'s command `solve` executes `minimize` (Model/Shell.lean) with `concreteOracles` (Model/Kernels.lean:
compact matrices built from the memory snapshot, `cauchy`, `subspaceMin`, and the model of SciPy's DCSRCH) on a
benchmark function of the package (Float twins regenerated from benchmarks.py by translate/bench2lean.py): no recorded
answer of any kind is fed to the model. The package is run on the same problem; the iterates handed to the callback must agree over the common prefix (to a tolerance: NumPy/BLAS sum in another order
than the model's left-to-right loops, libm differs in the last ulp)."""
from __future__ import annotations

import random
from typing import Any, Dict, List

import numpy as np

from harness import shell
from harness.common import fhex, hexv, vhex

NAMES = ["ackley", "beale", "griewank", "quartic", "rastrigin", "rosenbrock", "sphere", "styblinski_tang"]
POLY = ("sphere", "quartic", "rosenbrock", "beale", "styblinski_tang")
MSG = {"ABNORMAL_TERMINATION_IN_LNSRCH": 2, "CONVERGENCE: NORM_OF_PROJECTED_GRADIENT_<=_PGTOL": 3,
       "CONVERGENCE: REL_REDUCTION_OF_F_<=_FTOL": 4, "CONVERGENCE: F_<=_TARGET": 5,
       "STOP: TOTAL NO. of ITERATIONS REACHED LIMIT": 6, "STOP: TOTAL NO. of f AND g EVALUATIONS EXCEEDS LIMIT": 7,
       "STOP: USER CALLBACK": 8}
KMAX = 8          # iterates compared (3 in the finite-difference modes: non-convex benchmarks amplify the differences)
TOL = 1e-5        # relative, callable gradient (observed on clean code: median 3e-16, 99.9 % below 1e-12; the highly
                  # non-convex benchmarks occasionally amplify the last-bit differences up to 4e-7 within 8 iterations)
TOL_FD = 1e-4     # finite differences divide the last-bit differences of f (pow vs repeated products, summation order) by h ~ 1e-8
                  # (observed on clean code: <= 3e-6)


def gen_case(seed: int) -> Dict[str, Any]:
    r = random.Random(seed)
    rng = np.random.default_rng(seed)
    name = r.choice(NAMES)
    n = r.randint(2, 6)
    lb = [r.choice([-np.inf, -3.0, -1.0, -0.5]) for _ in range(n)]
    ub = [r.choice([np.inf, 3.0, 1.5, 0.7]) for _ in range(n)]
    x0 = np.clip(rng.uniform(-2.5, 2.5, n), lb, ub)
    if r.random() < 0.3:     # some variables start on a bound
        j = r.randrange(n)
        x0[j] = lb[j] if np.isfinite(lb[j]) else (ub[j] if np.isfinite(ub[j]) else x0[j])
    if name == "ackley" and float(np.linalg.norm(x0)) < 0.3:
        x0[0] = float(np.clip(1.0, lb[0], ub[0]))
    return {"kind": "whole", "seed": seed, "name": name, "x0": [float(v) for v in x0], "lb": lb, "ub": ub,
            # finite differences divide the rounding of f by h ~ 1e-8: only for the polynomial benchmarks, whose Float twins
            # reproduce the Python values bit for bit (no libm, sequential sums for n < 8)
            "jac": r.choice(["callable", "callable", "2-point", "3-point", "none"]) if name in POLY else "callable",
            "maxcor": r.randint(1, 8), "maxiter": r.choice([3, 8, 15, 30]), "maxls": r.choice([20, 20, 5]),
            "ftol": r.choice([1e-9, 1e-12, 1e-6]), "gtol": r.choice([1e-5, 1e-8])}


def evaluate(case: Dict[str, Any]) -> Dict[str, Any]:
    import lbfgsb
    from lbfgsb import minimize_lbfgsb
    out: Dict[str, Any] = {"corr": [], "skipped": None, "tags": ["kind=whole-model", f"bench={case['name']}", f"whole_jac={case.get('jac', 'callable')}"], "prop": []}
    name = case["name"]
    x0, lb, ub = np.array(case["x0"]), np.array(case["lb"], dtype=float), np.array(case["ub"], dtype=float)
    xs: List[np.ndarray] = []
    with np.errstate(all="ignore"):
        try:
            jac = case.get("jac", "callable")
            res = minimize_lbfgsb(x0=x0.copy(), fun=getattr(lbfgsb, name),
                                  jac=getattr(lbfgsb, name + "_grad") if jac == "callable" else (None if jac == "none" else jac),
                                  bounds=np.array(list(zip(lb, ub))), maxcor=case["maxcor"], maxiter=case["maxiter"], maxfun=1000,
                                  maxls=case["maxls"], ftol=case["ftol"], gtol=case["gtol"],
                                  callback=lambda xk, st: xs.append(np.array(xk, copy=True)) or False)
        except Exception as e:
            out["skipped"] = "kernel-exception:" + type(e).__name__
            out["corr"] = None
            return out
    line = (f"solve {name} {vhex(x0)} {vhex(lb)} {vhex(ub)} {case['maxcor']} {case['maxiter']} 1000 {case['maxls']} "
            f"{fhex(case['ftol'])} {fhex(case['gtol'])} {case.get('jac', 'callable')}")
    got = shell.driver().run([line])
    if not got or not got[0].startswith("solve ") or got[0].startswith("solve err"):
        out["corr"].append(f"complete model failed: {(got or [''])[0][:200]}")
        return out
    f = got[0].split(" ")
    its = [np.array(hexv(l.split(" ")[1])) for l in got[1:] if l.startswith("it ")]
    k = min(len(its), len(xs), KMAX if case.get("jac", "callable") == "callable" else 3)
    dev = max([float(np.max(np.abs(its[i] - xs[i]) / (1.0 + np.abs(xs[i])))) for i in range(k)] or [0.0])
    out["tags"].append(f"iterates_compared={k}")
    # (the number of iterations is not compared: when a stop test is met to rounding at an iterate, one of the two runs may
    # go on for one more iteration; the stop tests themselves are the subject of C04)
    tol = TOL if case.get("jac", "callable") == "callable" else TOL_FD
    if dev > tol:
        i = next(i for i in range(k) if float(np.max(np.abs(its[i] - xs[i]) / (1.0 + np.abs(xs[i])))) > tol)
        # is the package's own trajectory stable at that iterate? On the non-convex benchmarks a last-bit difference can flip a
        # decision of the line search (another branch of the step selection) and the iterates then part for good: the package
        # run from a start moved by a few ulps is compared with the package run itself
        unstable = False
        # the iterate before agreed to the tolerance — but does it touch the same bounds, bit for bit? A variable exactly on its bound
        # in one run and one unit in the last place inside in the other (the dense solves of the model and the triangular solves of
        # the code round differently) changes the largest feasible step of the next line search from "far" to 1: the runs then part
        if i >= 1:
            on_a = (its[i - 1] == lb) | (its[i - 1] == ub)
            on_b = (xs[i - 1] == lb) | (xs[i - 1] == ub)
            if bool((on_a != on_b).any()):
                out["tags"].append("bound-contact-differs-in-the-last-bit")
                out["skipped"] = "unstable-trajectory"
                out["corr"] = None
                return out
        for t in range(4):
            xp = x0.copy()
            for j in range(len(xp)):
                for _ in range(1 + t):
                    xp[j] = np.nextafter(xp[j], np.inf if (j + t) % 2 == 0 else -np.inf)
            xp = np.clip(xp, lb, ub)
            ys: List[np.ndarray] = []
            with np.errstate(all="ignore"):
                try:
                    minimize_lbfgsb(x0=xp, fun=getattr(lbfgsb, name),
                                    jac=getattr(lbfgsb, name + "_grad") if jac == "callable" else (None if jac == "none" else jac),
                                    bounds=np.array(list(zip(lb, ub))), maxcor=case["maxcor"], maxiter=case["maxiter"], maxfun=1000,
                                    maxls=case["maxls"], ftol=case["ftol"], gtol=case["gtol"],
                                    callback=lambda xk, st: ys.append(np.array(xk, copy=True)) or False)
                except Exception:
                    continue
            if len(ys) <= i or float(np.max(np.abs(ys[i] - xs[i]) / (1.0 + np.abs(xs[i])))) > tol:
                unstable = True
                break
        # ... and with the VALUES of the objective and gradient moved by one unit in the last place (the transcendental benchmarks go
        # through libm in the Lean driver and through NumPy's own kernels in the package: exp/cos/sqrt may differ in the last bit)
        if not unstable:
            f0, g0 = getattr(lbfgsb, name), getattr(lbfgsb, name + "_grad")
            for t in range(6):
                cnt = {"n": 0}

                def fp(x, t=t):
                    cnt["n"] += 1
                    v = float(f0(x))
                    return float(np.nextafter(v, np.inf if (cnt["n"] + t) % 2 == 0 else -np.inf)) if (cnt["n"] + t) % 3 else v

                def gp(x, t=t):
                    gv = np.array(g0(x), dtype=float, copy=True)
                    for j in range(gv.size):
                        if (j + cnt["n"] + t) % 2 == 0:
                            gv[j] = np.nextafter(gv[j], np.inf if (j + t) % 4 < 2 else -np.inf)
                    return gv
                ys = []
                with np.errstate(all="ignore"):
                    try:
                        minimize_lbfgsb(x0=x0.copy(), fun=fp, jac=gp if jac == "callable" else (None if jac == "none" else jac),
                                        bounds=np.array(list(zip(lb, ub))), maxcor=case["maxcor"], maxiter=case["maxiter"], maxfun=1000,
                                        maxls=case["maxls"], ftol=case["ftol"], gtol=case["gtol"],
                                        callback=lambda xk, st: ys.append(np.array(xk, copy=True)) or False)
                    except Exception:
                        continue
                if len(ys) <= i or float(np.max(np.abs(ys[i] - xs[i]) / (1.0 + np.abs(xs[i])))) > tol:
                    unstable = True
                    break
        if unstable:
            out["tags"].append("unstable-trajectory")
            out["skipped"] = "unstable-trajectory"
            out["corr"] = None
            return out
        out["corr"].append(f"complete model vs package on {name}: iterate {i + 1} differs by {dev:.2e} (relative)")
    if k >= 2:
        out["nontrivial"] = f"whole:{case['seed']}"
    return out
