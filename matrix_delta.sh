#!/bin/bash
# usage: matrix_delta.sh <out.jsonl> <entry>... : like matrix.sh, but only for the named seeded changes (seeded/<entry>/patch.diff),
# replacing their lines in <out.jsonl> (the other lines are kept). Serial; /repo is restored after each entry.
cd "$(dirname "$0")"
out=$1; shift
ids=$(/venv/bin/python -c "import json;print(' '.join(c['property_id'] for c in json.load(open('MANIFEST.json'))['checks']))")
if [ -n "$(git -C /repo status --porcelain)" ]; then echo "/repo not clean"; exit 4; fi
for s in "$@"; do
  d=seeded/$s
  grep -v "\"entry\": \"$s\"" "$out" > "$out.tmp"; mv "$out.tmp" "$out"
  git -C /repo apply "$(pwd)/$d/patch.diff" || { echo "{\"entry\": \"$s\", \"kind\": \"seed\", \"error\": \"patch does not apply\"}" >> "$out"; continue; }
  tests=$(cd /repo && /venv/bin/python -m pytest -q -p no:cacheprovider 2>&1 | tail -1)
  res=""
  for id in $ids; do
    o=$(./check $id --tier quick 2>&1); rc=$?
    v=$(echo "$o" | grep -m1 -A1 "^VIOLATION" | tr '\n' ' ' | cut -c1-300 | sed 's/"/'"'"'/g')
    res="$res\"$id\": {\"rc\": $rc, \"first\": \"$v\"}, "
  done
  echo "{\"entry\": \"$s\", \"kind\": \"seed\", \"tests\": \"$tests\", \"checks\": {${res%, }}}" >> "$out"
  git -C /repo checkout -- . ; git -C /repo reset -q --hard HEAD
done
echo done
