#!/bin/bash
# usage: revtest.sh <commit> <check ids...> : undo one fix commit in /repo's working tree (3-way, nothing
# is committed), run the repository's tests and the given checks, restore the tree
c=$1; shift
if [ -n "$(git -C /repo status --porcelain)" ]; then echo "/repo not clean"; exit 4; fi
if ! git -C /repo revert --no-commit $c >/dev/null 2>&1; then
  git -C /repo revert --abort >/dev/null 2>&1; git -C /repo reset -q --hard HEAD
  echo "reverse of $c does not apply (later fixes build on it)"; exit 3
fi
git -C /repo reset -q   # keep the change in the working tree only
(cd /repo && /venv/bin/python -m pytest -q -p no:cacheprovider 2>&1 | tail -1)
for k in "$@"; do
  (cd /verif && ./check $k --tier quick 2>&1 | grep -E "VIOLATION|KNOWN|^\[|MACHINERY|^  \(" | head -4)
done
git -C /repo revert --abort >/dev/null 2>&1
git -C /repo checkout -- . ; git -C /repo reset -q --hard HEAD
