#!/bin/bash
# usage: revtest.sh <commit> <check ids...> : apply the reverse of a fix commit to /repo, run checks, undo
c=$1; shift
if [ -n "$(git -C /repo status --porcelain)" ]; then echo "/repo not clean"; exit 4; fi
git -C /repo apply /verif/seeded/reverts/revert_$c.diff || { echo "reverse patch does not apply"; exit 3; }
(cd /repo && /venv/bin/python -m pytest -q -p no:cacheprovider 2>&1 | tail -1)
for k in "$@"; do
  (cd /verif && ./check $k --tier quick 2>&1 | grep -E "VIOLATION|KNOWN|^\[|MACHINERY|^  \(" | head -4)
done
git -C /repo checkout -- .
