import LbfgsbVerif.Model.Basic
import LbfgsbVerif.Model.SF
