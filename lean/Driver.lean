/-
  Line-protocol driver: instantiates the executable models at `Float` and answers
  commands read from stdin. All floats travel as 16-hex-digit IEEE-754 bit patterns,
  vectors as comma-separated lists of those (`-` for the empty vector).
  Mathlib-free, so it links as a native executable.
-/
import LbfgsbVerif.Model.Basic
import LbfgsbVerif.Model.SF
import LbfgsbVerif.Model.Shell
import LbfgsbVerif.Generated.BenchF
import LbfgsbVerif.Model.Compact
import LbfgsbVerif.Model.Cauchy
import LbfgsbVerif.Model.Subspace
import LbfgsbVerif.Model.FD
import LbfgsbVerif.Model.Dcsrch
import LbfgsbVerif.Model.Utils
import LbfgsbVerif.Model.Bounds
import LbfgsbVerif.Model.Kernels
import Std.Data.HashMap

open Lbfgsb

namespace Drv

def hexDigit (c : Char) : Option Nat :=
  if '0' ≤ c ∧ c ≤ '9' then some (c.toNat - '0'.toNat)
  else if 'a' ≤ c ∧ c ≤ 'f' then some (c.toNat - 'a'.toNat + 10)
  else if 'A' ≤ c ∧ c ≤ 'F' then some (c.toNat - 'A'.toNat + 10)
  else none

def parseHex (s : String) : Option Nat :=
  if s.isEmpty then none else
  s.foldl (fun acc c => match acc, hexDigit c with
    | some a, some d => some (a * 16 + d)
    | _, _ => none) (some 0)

def parseF (s : String) : Option Float :=
  (parseHex s).map fun n => Float.ofBits n.toUInt64

def hexOfNat (n : Nat) (width : Nat) : String :=
  let digs := (Nat.toDigits 16 n)
  String.ofList (List.replicate (width - digs.length) '0' ++ digs)

def showF (x : Float) : String :=
  if x.isNaN then "7ff8000000000000" else hexOfNat x.toBits.toNat 16

def parseV (s : String) : Option (Vec Float) :=
  if s == "-" then some [] else
  (s.splitOn ",").mapM parseF

def showV (v : Vec Float) : String :=
  if v.isEmpty then "-" else ",".intercalate (v.map showF)

def parseVs (s : String) : Option (List (Vec Float)) :=
  if s == "_" then some [] else (s.splitOn ";").mapM parseV

def showVs (vs : List (Vec Float)) : String :=
  if vs.isEmpty then "_" else ";".intercalate (vs.map showV)

def nan : Float := 0.0 / 0.0

/-- canonical key of a point for table lookup: numeric equality (`-0.0` and `0.0` are the
same point for a deterministic user function that respects array equality). -/
def keyV (v : Vec Float) : String :=
  showV (v.map fun x => if x == 0.0 then 0.0 else x)

structure Tables where
  F : Std.HashMap String (Except String Float) := {}
  G : Std.HashMap String (Except String (Vec Float)) := {}
  /-- keyed by x ; value: f0, stencil points, values, gradient -/
  FD : Std.HashMap String (Float × List (Vec Float) × Vec Float) := {}
  /-- keyed by x|g|number of points in the matrices snapshot -/
  XBAR : Std.HashMap String (Vec Float) := {}
  /-- keyed by x0|d|index of the call within the search: returned step and task -/
  DC : Std.HashMap String (Float × Task) := {}
  /-- keyed by nit of the state -/
  CB : Std.HashMap Nat (Except String Bool) := {}
  /-- keyed by x -/
  UPD : Std.HashMap String (Except String (UpdOut Float)) := {}
  SC : Except String Float := .error "UNDEF-SC"
  FT : Except String Float := .error "UNDEF-FT"
  GT : Except String Float := .error "UNDEF-GT"

def Tables.user (t : Tables) : SFUser Float String where
  F p := match t.F[keyV p]? with
    | some r => r
    | none => .error s!"UNDEF-F:{showV p}"
  Gr p := match t.G[keyV p]? with
    | some r => r
    | none => .error s!"UNDEF-G:{showV p}"
  fdPts x _ := match t.FD[keyV x]? with
    | some (_, pts, _) => pts
    | none => []
  fdComb x f0 _ := match t.FD[keyV x]? with
    | some (f0', _, g) => if f0'.toBits == f0.toBits then g else g.map fun _ => nan
    | none => [nan]

def parseRes (s : String) (p : String → Option β) : Option (Except String β) :=
  if s.startsWith "!" then some (.error (s.drop 1).toString) else (p s).map .ok

instance : FloatLike Float where
  sqrt := Float.sqrt
  isFinite := Float.isFinite

instance : Dcsrch.DcOps Float where
  sq x := Float.pow x 2.0
  le a b := decide (a ≤ b)
  eq a b := a == b

def matsLen : Mats Float → Nat
  | none => 0
  | some (X, _) => X.length

def Tables.shellUser (t : Tables) : User Float String :=
  { t.user with
    callback := fun st => match t.CB[st.nit]? with
      | some r => r
      | none => .error s!"UNDEF-CB:{st.nit}"
    update := fun i => match t.UPD[keyV i.x]? with
      | some r => r
      | none => .error s!"UNDEF-UPD:{showV i.x}"
    scaler := fun _ _ => t.SC
    ftargetFn := fun _ => t.FT
    gtolFn := fun _ => t.GT }

/-- DCSRCH oracle state: identity of the search (x0|d) and number of calls made so far -/
def Tables.oracles (t : Tables) : Oracles Float (String × Nat) where
  xbar x g m := match t.XBAR[s!"{keyV x}|{keyV g}|{matsLen m}"]? with
    | some v => v
    | none => x.map fun _ => nan
  dcNew x0 d _ _ _ _ := (s!"{keyV x0}|{keyV d}", 0)
  dcIter st _ _ _ _ := match t.DC[s!"{st.1}|{st.2}"]? with
    | some (stp, task) => ((st.1, st.2 + 1), stp, task)
    | none => ((st.1, st.2 + 1), nan, .error)

structure CfgB where
  x0 : Vec Float := []
  lb : Vec Float := []
  ub : Vec Float := []
  mode : GradMode := .callable
  ints : List Nat := [10, 50, 15000, 20]
  flts : List Float := []
  gtol : Thresh Float := .const 1e-5
  ftarget : Option (Thresh Float) := none
  flags : List Bool := [false, false, false]
  ck : Option (Result Float) := none

structure Ctx where
  tabs : Tables := {}
  sf : SF Float := SF.new .callable []
  cfg : CfgB := {}

def showOut (s : SF Float) : SFOut Float → String
  | .val f => s!"val {showF f} {s.nfev} {s.ngev}"
  | .grad g => s!"grad {showV g} {s.nfev} {s.ngev}"
  | .both f g => s!"both {showF f} {showV g} {s.nfev} {s.ngev}"
  | .unit => "unit"

def showKind : CallKind → String
  | .F => "F" | .G => "G" | .callback => "CB" | .update => "UPD" | .scaler => "SC"
  | .ftarget => "FT" | .gtol => "GT"

def showLog (l : List (Call Float)) : String :=
  " ".intercalate (l.map fun c => s!"{showKind c.kind}:{showV c.arg}")

def sfOp (c : Ctx) (op : SFOp Float) : Ctx × String :=
  match c.sf.step c.tabs.user op with
  | .ok (s, o) => ({ c with sf := s }, showOut s o)
  | .error e => (c, s!"err {e}")

def handle (c : Ctx) (line : String) : Ctx × Option String :=
  let toks := (line.trimAscii.toString.splitOn " ").filter (· ≠ "")
  match toks with
  | [] => (c, none)
  | ["F", x, v] =>
    match parseV x, parseRes v parseF with
    | some x, some r => ({ c with tabs := { c.tabs with F := c.tabs.F.insert (keyV x) r } }, none)
    | _, _ => (c, some "bad-op")
  | ["G", x, v] =>
    match parseV x, parseRes v parseV with
    | some x, some r => ({ c with tabs := { c.tabs with G := c.tabs.G.insert (keyV x) r } }, none)
    | _, _ => (c, some "bad-op")
  | ["FD", x, f0, pts, g] =>
    match parseV x, parseF f0, parseVs pts, parseV g with
    | some x, some f0, some pts, some g =>
      ({ c with tabs := { c.tabs with FD := c.tabs.FD.insert (keyV x) (f0, pts, g) } }, none)
    | _, _, _, _ => (c, some "bad-op")
  | ["reset"] => ({}, none)
  | ["sf.new", mode, x0, lb, ub] =>
    match parseV x0, parseV lb, parseV ub, mode with
    | some x0, some lb, some ub, "callable" => ({ c with sf := SF.new .callable x0 lb ub }, some "ok")
    | some x0, some lb, some ub, "fd" => ({ c with sf := SF.new .fd x0 lb ub }, some "ok")
    | _, _, _, _ => (c, some "bad-op")
  | ["sf.fun", x] => match parseV x with
    | some x => let (c, o) := sfOp c (.funv x); (c, some o)
    | none => (c, some "bad-op")
  | ["sf.grad", x] => match parseV x with
    | some x => let (c, o) := sfOp c (.gradv x); (c, some o)
    | none => (c, some "bad-op")
  | ["sf.fg", x] => match parseV x with
    | some x => let (c, o) := sfOp c (.funAndGrad x); (c, some o)
    | none => (c, some "bad-op")
  | ["sf.scale", s] => match parseF s with
    | some s => let (c, o) := sfOp c (.setScale s); (c, some o)
    | none => (c, some "bad-op")
  | ["sf.log"] => (c, some s!"log {showLog c.sf.log}")
  | _ => (c, some "bad-op")

def msgCode : Msg → Nat
  | .start => 0 | .restartLnsrch => 1 | .abnormal => 2 | .pgtol => 3 | .ftol => 4
  | .target => 5 | .iterLimit => 6 | .evalLimit => 7 | .userCallback => 8

def msgOfCode : Nat → Msg
  | 1 => .restartLnsrch | 2 => .abnormal | 3 => .pgtol | 4 => .ftol | 5 => .target
  | 6 => .iterLimit | 7 => .evalLimit | 8 => .userCallback | _ => .start

def taskCode : Task → String
  | .start => "START" | .fg => "FG" | .conv => "CONV" | .warn => "WARN" | .error => "ERROR"

def taskOf : String → Task
  | "START" => .start | "FG" => .fg | "CONV" => .conv | "WARN" => .warn | _ => .error

def showRes (r : Result Float) : String :=
  s!"{showV r.x} {showF r.f} {showV r.jac} {r.nfev} {r.njev} {r.nit} {r.status} {msgCode r.msg} {if r.success then 1 else 0} {showVs r.sk} {showVs r.yk}"

def parseResult : List String → Option (Result Float)
  | [x, f, jac, nfev, njev, nit, status, msg, succ, sk, yk] => do
    let x ← parseV x; let f ← parseF f; let jac ← parseV jac
    let nfev ← nfev.toNat?; let njev ← njev.toNat?; let nit ← nit.toNat?
    let status ← status.toNat?; let msg ← msg.toNat?
    let sk ← parseVs sk; let yk ← parseVs yk
    pure { x, f, jac, nfev, njev, nit, status, msg := msgOfCode msg, success := succ == "1", sk, yk }
  | _ => none

def showMats : Mats Float → String
  | none => "none"
  | some (X, G) => s!"{showVs X}|{showVs G}"

def showOReq : OReq Float → String
  | .xbar x g m => s!"oreq xbar {showV x} {showV g} {showMats m}"
  | .dc stp f g task => s!"oreq dc {showF stp} {showF f} {showF g} {taskCode task}"

def CfgB.toCfg (b : CfgB) : Option (Cfg Float) :=
  match b.ints, b.flts, b.flags with
  | [maxcor, maxiter, maxfun, maxls], [ftol, maxStep, ftolLS, gtolLS, xtolLS, epsSY],
    [hasCallback, hasUpdate, hasScaler] =>
    some { x0 := b.x0, lb := b.lb, ub := b.ub, mode := b.mode, maxcor, maxiter, maxfun, maxls,
           ftol, gtol := b.gtol, ftarget := b.ftarget, maxStep, ftolLS, gtolLS, xtolLS, epsSY,
           hasCallback, hasUpdate, hasScaler, checkpoint := b.ck }
  | _, _, _ => none

def runShell (c : Ctx) : List String :=
  match c.cfg.toCfg with
  | none => ["bad-cfg"]
  | some cfg =>
    match minimize c.tabs.shellUser c.tabs.oracles cfg with
    | .error e => [s!"err {e}"]
    | .ok (r, s) =>
      [s!"res {showRes r}", s!"log {showLog s.sf.log}"] ++
      s.cbStates.map (fun st => s!"cb {showRes st}") ++
      s.olog.map showOReq ++ ["end"]

def parseThresh : List String → Option (Thresh Float × Option (Except String Float))
  | ["const", a] => (parseF a).map fun a => (.const a, none)
  | ["callable", a] => (parseRes a parseF).map fun r => (.callable, some r)
  | _ => none

def handleShell (c : Ctx) (toks : List String) : Option (Ctx × List String) :=
  let setCfg (f : CfgB → CfgB) : Option (Ctx × List String) := some ({ c with cfg := f c.cfg }, [])
  let setTab (f : Tables → Tables) : Option (Ctx × List String) := some ({ c with tabs := f c.tabs }, [])
  match toks with
  | ["cfg.x0", v] => (parseV v).bind fun v => setCfg fun b => { b with x0 := v }
  | ["cfg.lb", v] => (parseV v).bind fun v => setCfg fun b => { b with lb := v }
  | ["cfg.ub", v] => (parseV v).bind fun v => setCfg fun b => { b with ub := v }
  | ["cfg.mode", "callable"] => setCfg fun b => { b with mode := .callable }
  | ["cfg.mode", "fd"] => setCfg fun b => { b with mode := .fd }
  | "cfg.int" :: rest => (rest.mapM String.toNat?).bind fun l => setCfg fun b => { b with ints := l }
  | "cfg.flt" :: rest => (rest.mapM parseF).bind fun l => setCfg fun b => { b with flts := l }
  | "cfg.flags" :: rest => setCfg fun b => { b with flags := rest.map (· == "1") }
  | "cfg.gtol" :: rest => (parseThresh rest).bind fun (t, r) =>
      some ({ c with cfg := { c.cfg with gtol := t },
                     tabs := match r with | some r => { c.tabs with GT := r } | none => c.tabs }, [])
  | ["cfg.ftarget", "none"] => setCfg fun b => { b with ftarget := none }
  | "cfg.ftarget" :: rest => (parseThresh rest).bind fun (t, r) =>
      some ({ c with cfg := { c.cfg with ftarget := some t },
                     tabs := match r with | some r => { c.tabs with FT := r } | none => c.tabs }, [])
  | "ck" :: rest => (parseResult rest).bind fun r => setCfg fun b => { b with ck := some r }
  | ["XBAR", x, g, n, v] => do
    let x ← parseV x; let g ← parseV g; let n ← n.toNat?; let v ← parseV v
    setTab fun t => { t with XBAR := t.XBAR.insert s!"{keyV x}|{keyV g}|{n}" v }
  | ["DC", x0, d, i, stp, task] => do
    let x0 ← parseV x0; let d ← parseV d; let i ← i.toNat?; let stp ← parseF stp
    setTab fun t => { t with DC := t.DC.insert s!"{keyV x0}|{keyV d}|{i}" (stp, taskOf task) }
  | ["CB", nit, r] => do
    let nit ← nit.toNat?
    let r ← parseRes r (fun s => some (s == "1"))
    setTab fun t => { t with CB := t.CB.insert nit r }
  | ["UPD", x, r] => do
    let x ← parseV x
    if r.startsWith "!" then setTab fun t => { t with UPD := t.UPD.insert (keyV x) (.error (r.drop 1).toString) }
    else none
  | ["UPD", x, f0, f0Old, grad, G] => do
    let x ← parseV x; let f0 ← parseF f0; let f0Old ← parseF f0Old
    let grad ← parseV grad; let G ← parseVs G
    setTab fun t => { t with UPD := t.UPD.insert (keyV x) (.ok { f0, f0Old, grad, G }) }
  | ["SC", r] => (parseRes r parseF).bind fun r => setTab fun t => { t with SC := r }
  | ["run"] => some (c, runShell c)
  | ["cauchy", x, g, lb, ub, theta, w, minv, uf] => do
    let x ← parseV x; let g ← parseV g; let lb ← parseV lb; let ub ← parseV ub
    let theta ← parseF theta; let w ← parseVs w; let minv ← parseVs minv
    let r := cauchy { x, g, lb, ub, theta, W := w, Minv := minv, useFactor := uf == "1", epsFsec := 1e-30 }
    some (c, [s!"cauchy {showV r.1} {showV r.2}"])
  | ["subspace", x, g, lb, ub, theta, w, minv, uf, xc, cc] => do
    let x ← parseV x; let g ← parseV g; let lb ← parseV lb; let ub ← parseV ub
    let theta ← parseF theta; let w ← parseVs w; let minv ← parseVs minv
    let xc ← parseV xc; let cc ← parseV cc
    let r := subspaceMin { x, g, lb, ub, theta, W := w, Minv := minv, useFactor := uf == "1", epsFsec := 1e-30,
                           xc := xc, c := cc }
    some (c, [s!"subspace {showV r}"])
  | ["fd", scheme, path, x, lb, ub, step, epsM, f0, vals] => do
    let x ← parseV x; let lb ← parseV lb; let ub ← parseV ub
    let epsM ← parseF epsM; let f0 ← parseF f0
    let vals ← if vals == "_" then some [] else parseV vals
    let sch := if scheme == "two" then FD.Scheme.two else FD.Scheme.three
    let hOf : Float → Float ←
      if path == "abs" then (do let e ← parseF step; some (fun xi => FD.step0 xi e epsM))
      else if path == "rel" then (do let r ← parseF step; some (fun xi => FD.stepRel xi (some r) epsM))
      else some (fun xi => FD.stepRel xi none epsM)
    some (c, [s!"fd {showVs (FD.points sch hOf x lb ub)} {showV (FD.grad sch hOf x lb ub f0 vals)}"])
  | ["dcsrch", ftol, gtol, xtol, stpmin, stpmax, stp0, answers] => do
    let ftol ← parseF ftol; let gtol ← parseF gtol; let xtol ← parseF xtol
    let stpmin ← parseF stpmin; let stpmax ← parseF stpmax; let stp0 ← parseF stp0
    let ans ← parseVs answers
    let pairs := ans.map fun v => (v.getD 0 0.0, v.getD 1 0.0)
    let tr := Dcsrch.trace (Dcsrch.DC.new ftol gtol xtol stpmin stpmax) stp0 .start pairs
    some (c, ["dcsrch " ++ ";".intercalate (tr.map fun (s, t) => s!"{showF s}:{taskCode t}")])
  | ["getbounds", x0, lo, hi] => do
    let x0 ← parseV x0
    -- `lo`/`hi`: "none" (bounds is None) or comma-separated entries, `N` = None, `-` = empty list
    let parseOpt (s : String) : Option (List (Option Float)) :=
      if s == "-" then some [] else (s.splitOn ",").mapM fun t => if t == "N" then some none else (parseF t).map some
    let b ← if lo == "none" then some none else do
      let l ← parseOpt lo; let h ← parseOpt hi
      if l.length ≠ h.length then none else some (some (l.zip h))
    let negInf : Float := -(1.0 / 0.0)
    let posInf : Float := 1.0 / 0.0
    match getBounds negInf posInf x0 b with
    | .ok (lb, ub) => some (c, [s!"getbounds ok {showV lb} {showV ub}"])
    | .error .emptyX => some (c, ["getbounds err emptyX"])
    | .error .lenMismatch => some (c, ["getbounds err lenMismatch"])
    | .error .lbGtUb => some (c, ["getbounds err lbGtUb"])
    | .error .x0Outside => some (c, ["getbounds err x0Outside"])
  | ["maxstep", x, d, lb, ub, maxStep, nit] => do
    let x ← parseV x; let d ← parseV d; let lb ← parseV lb; let ub ← parseV ub
    let maxStep ← parseF maxStep; let nit ← nit.toNat?
    some (c, [s!"maxstep {showF (maxAllowedStep x d lb ub maxStep nit)}"])
  | ["unitscale", x, g, lb, ub] => do
    let x ← parseV x; let g ← parseV g; let lb ← parseV lb; let ub ← parseV ub
    some (c, [s!"unitscale {showF (unitScaling x g lb ub)}"])
  | ["filter", eps, xs, gs] => do
    let eps ← parseF eps; let X ← parseVs xs; let G ← parseVs gs
    let r := filterWolfe X G eps
    some (c, [s!"filter {showVs r.1} {showVs r.2}"])
  | ["gauss", a, b] => do
    -- the model's elimination (the list form the theorems are about, and the array form), and its pivots
    let A ← parseVs a; let b ← parseV b
    let x1 := gaussSolve A b
    let x2 := gaussSolveImp A b
    let piv := gjPivots b.length b.length 0 (augment A b)
    some (c, [s!"gauss {showV x1} {showV x2} {showV piv}"])
  | ["compact", xs, gs, v] => do
    let X ← parseVs xs; let G ← parseVs gs; let v ← parseV v
    let bc := compactBv X G v
    let bd := (denseBfgs X G v.length).map (dot · v)
    some (c, [s!"compact {showF (thetaOf X G)} {showV bc} {showV bd}"])
  | ["mem", maxcor, eps, x0, g0, xs, gs] => do
    let maxcor ← maxcor.toNat?; let eps ← parseF eps
    let x0 ← parseV x0; let g0 ← parseV g0; let xs ← parseVs xs; let gs ← parseVs gs
    -- replay a sequence of candidate updates; report accept flags and the final deques
    let step := fun (st : List (Vec Float) × List (Vec Float) × Mats Float × List String) (xg : Vec Float × Vec Float) =>
      let r := updateMats xg.1 xg.2 st.1 st.2.1 maxcor st.2.2.1 eps
      (r.1, r.2.1, r.2.2.1, st.2.2.2 ++ [s!"{if r.2.2.2 then 1 else 0}:{r.1.length}:{matsLen r.2.2.1}"])
    let fin := (xs.zip gs).foldl step ([x0], [g0], none, [])
    some (c, [s!"mem {" ".intercalate fin.2.2.2} {showVs fin.1} {showVs fin.2.1}"])
  | ["ls", x0, f0, g0, d, nit, maxIter] => do
    let x0 ← parseV x0; let f0 ← parseF f0; let g0 ← parseV g0; let d ← parseV d
    let nit ← nit.toNat?; let maxIter ← maxIter.toNat?
    let cfg ← c.cfg.toCfg
    let sf : SF Float := SF.new cfg.mode x0 cfg.lb cfg.ub
    match lineSearch c.tabs.shellUser c.tabs.oracles cfg x0 f0 g0 d nit sf maxIter [] with
    | .error e => some (c, [s!"err {e}"])
    | .ok (sf', stp?, olog) =>
      let r := match stp? with | none => "none" | some s => showF s
      some (c, [s!"ls {r} {sf'.nfev} {sf'.ngev}", s!"log {showLog sf'.log}"] ++ olog.map showOReq ++ ["end"])
  | ["solve", name, x0, lb, ub, maxcor, maxiter, maxfun, maxls, ftol, gtol, jac] => do
    -- the complete model (driver + composed kernel models + DCSRCH model) run natively on a benchmark function
    -- of the package (Float twins generated from benchmarks.py)
    let x0 ← parseV x0; let lb ← parseV lb; let ub ← parseV ub
    let maxcor ← maxcor.toNat?; let maxiter ← maxiter.toNat?; let maxfun ← maxfun.toNat?; let maxls ← maxls.toNat?
    let ftol ← parseF ftol; let gtol ← parseF gtol
    let f ← Lbfgsb.Generated.BenchF.table.lookup name
    let g ← Lbfgsb.Generated.BenchF.table.lookup (name ++ "_grad")
    let call (h : Nat → (Nat → Float) → List Float) (x : Vec Float) : List Float :=
      let arr := x.toArray; h arr.size (fun i => arr[i]!)
    -- gradient mode: callable, or the model of the differencing (Model/FD.lean) with SciPy's step rules
    let epsM2 : Float := 1.4901161193847656e-08   -- sqrt(eps)
    let epsM3 : Float := 6.055454452393343e-06    -- eps^(1/3)
    let fd : Option (FD.Scheme × (Float → Float)) :=
      if jac == "2-point" then some (.two, fun xi => FD.stepRel xi none epsM2)
      else if jac == "3-point" then some (.three, fun xi => FD.stepRel xi none epsM3)
      else if jac == "none" then some (.two, fun xi => FD.step0 xi 1e-8 epsM2)
      else none
    let user : User Float String :=
      { F := fun x => .ok ((call f x).getD 0 nan), Gr := fun x => .ok (call g x),
        fdPts := fun x _ => match fd with | some (sch, hOf) => FD.points sch hOf x lb ub | none => [],
        fdComb := fun x f0 vals => match fd with | some (sch, hOf) => FD.grad sch hOf x lb ub f0 vals | none => x,
        callback := fun _ => .ok false, update := fun i => .ok ⟨i.f0, i.f0Old, i.grad, i.G⟩,
        scaler := fun _ _ => .ok 1.0, ftargetFn := fun _ => .ok 0.0, gtolFn := fun _ => .ok 0.0 }
    let cfg : Cfg Float :=
      { x0, lb, ub, mode := (if fd.isSome then .fd else .callable), maxcor, maxiter, maxfun, maxls, ftol, gtol := .const gtol, ftarget := none,
        maxStep := 1e8, ftolLS := 1e-3, gtolLS := 0.9, xtolLS := 0.1, epsSY := 2.2e-16, hasCallback := true,
        hasUpdate := false, hasScaler := false, checkpoint := none }
    match minimize user (concreteOracles lb ub 1e-30) cfg with
    | .error e => some (c, [s!"solve err {e}"])
    | .ok (r, st) =>
      -- (`ev` lines: the points of the objective calls, in order — used when a disagreement has to be located)
      some (c, [s!"solve {showRes r}"] ++ st.cbStates.map (fun cb => s!"it {showV cb.x} {showF cb.f}") ++
        (st.sf.log.filter (fun cl => cl.kind == CallKind.F)).map (fun cl => s!"ev {showV cl.arg}") ++
        st.olog.map (fun rq => match rq with
          | .dc stp f g t => s!"dc {showF stp} {showF f} {showF g} {taskCode t}"
          | .xbar x _ _ => s!"xbar {showV x}") ++ ["end"])
  | ["bench", name, x] => do
    let x ← parseV x
    let arr := x.toArray
    match Lbfgsb.Generated.BenchF.table.lookup name with
    | some f => some (c, [s!"bench {showV (f arr.size (fun i => arr[i]!))}"])
    | none => some (c, ["bench-unknown"])
  | _ => none

def handleAll (c : Ctx) (line : String) : Ctx × List String :=
  let toks := (line.trimAscii.toString.splitOn " ").filter (· ≠ "")
  match handleShell c toks with
  | some r => r
  | none => let (c, o) := handle c line; (c, o.toList)

partial def loop (h : IO.FS.Stream) (out : IO.FS.Stream) (c : Ctx) : IO Unit := do
  let line ← h.getLine
  if line.isEmpty then return ()
  let (c', o) := handleAll c line
  for s in o do out.putStrLn s
  loop h out c'

end Drv

def main : IO Unit := do
  let out ← IO.getStdout
  Drv.loop (← IO.getStdin) out {}
