/-
  Line-protocol driver: instantiates the executable models at `Float` and answers
  commands read from stdin. All floats travel as 16-hex-digit IEEE-754 bit patterns,
  vectors as comma-separated lists of those (`-` for the empty vector).
  Mathlib-free, so it links as a native executable.
-/
import LbfgsbVerif.Model.Basic
import LbfgsbVerif.Model.SF
import Std.Data.HashMap

open Lbfgsb

namespace Drv

def hexDigit (c : Char) : Option Nat :=
  if '0' ≤ c ∧ c ≤ '9' then some (c.toNat - '0'.toNat)
  else if 'a' ≤ c ∧ c ≤ 'f' then some (c.toNat - 'a'.toNat + 10)
  else if 'A' ≤ c ∧ c ≤ 'F' then some (c.toNat - 'A'.toNat + 10)
  else none

def parseHex (s : String) : Option Nat :=
  if s.isEmpty then none else
  s.foldl (fun acc c => match acc, hexDigit c with
    | some a, some d => some (a * 16 + d)
    | _, _ => none) (some 0)

def parseF (s : String) : Option Float :=
  (parseHex s).map fun n => Float.ofBits n.toUInt64

def hexOfNat (n : Nat) (width : Nat) : String :=
  let digs := (Nat.toDigits 16 n)
  String.ofList (List.replicate (width - digs.length) '0' ++ digs)

def showF (x : Float) : String := hexOfNat x.toBits.toNat 16

def parseV (s : String) : Option (Vec Float) :=
  if s == "-" then some [] else
  (s.splitOn ",").mapM parseF

def showV (v : Vec Float) : String :=
  if v.isEmpty then "-" else ",".intercalate (v.map showF)

def parseVs (s : String) : Option (List (Vec Float)) :=
  if s == "_" then some [] else (s.splitOn ";").mapM parseV

def showVs (vs : List (Vec Float)) : String :=
  if vs.isEmpty then "_" else ";".intercalate (vs.map showV)

def nan : Float := 0.0 / 0.0

/-- canonical key of a point for table lookup: numeric equality (`-0.0` and `0.0` are the
same point for a deterministic user function that respects array equality). -/
def keyV (v : Vec Float) : String :=
  showV (v.map fun x => if x == 0.0 then 0.0 else x)

structure Tables where
  F : Std.HashMap String (Except String Float) := {}
  G : Std.HashMap String (Except String (Vec Float)) := {}
  /-- keyed by x ; value: f0, stencil points, values, gradient -/
  FD : Std.HashMap String (Float × List (Vec Float) × Vec Float) := {}

def Tables.user (t : Tables) : SFUser Float String where
  F p := match t.F[keyV p]? with
    | some r => r
    | none => .error s!"UNDEF-F:{showV p}"
  Gr p := match t.G[keyV p]? with
    | some r => r
    | none => .error s!"UNDEF-G:{showV p}"
  fdPts x _ := match t.FD[keyV x]? with
    | some (_, pts, _) => pts
    | none => []
  fdComb x f0 _ := match t.FD[keyV x]? with
    | some (f0', _, g) => if f0'.toBits == f0.toBits then g else g.map fun _ => nan
    | none => [nan]

def parseRes (s : String) (p : String → Option β) : Option (Except String β) :=
  if s.startsWith "!" then some (.error (s.drop 1).toString) else (p s).map .ok

structure Ctx where
  tabs : Tables := {}
  sf : SF Float := SF.new .callable []

def showOut (s : SF Float) : SFOut Float → String
  | .val f => s!"val {showF f} {s.nfev} {s.ngev}"
  | .grad g => s!"grad {showV g} {s.nfev} {s.ngev}"
  | .both f g => s!"both {showF f} {showV g} {s.nfev} {s.ngev}"
  | .unit => "unit"

def showKind : CallKind → String
  | .F => "F" | .G => "G" | .callback => "CB" | .update => "UPD" | .scaler => "SC"
  | .ftarget => "FT" | .gtol => "GT"

def showLog (l : List (Call Float)) : String :=
  " ".intercalate (l.map fun c => s!"{showKind c.kind}:{showV c.arg}")

def sfOp (c : Ctx) (op : SFOp Float) : Ctx × String :=
  match c.sf.step c.tabs.user op with
  | .ok (s, o) => ({ c with sf := s }, showOut s o)
  | .error e => (c, s!"err {e}")

def handle (c : Ctx) (line : String) : Ctx × Option String :=
  let toks := (line.trimAscii.toString.splitOn " ").filter (· ≠ "")
  match toks with
  | [] => (c, none)
  | ["F", x, v] =>
    match parseV x, parseRes v parseF with
    | some x, some r => ({ c with tabs := { c.tabs with F := c.tabs.F.insert (keyV x) r } }, none)
    | _, _ => (c, some "bad-op")
  | ["G", x, v] =>
    match parseV x, parseRes v parseV with
    | some x, some r => ({ c with tabs := { c.tabs with G := c.tabs.G.insert (keyV x) r } }, none)
    | _, _ => (c, some "bad-op")
  | ["FD", x, f0, pts, g] =>
    match parseV x, parseF f0, parseVs pts, parseV g with
    | some x, some f0, some pts, some g =>
      ({ c with tabs := { c.tabs with FD := c.tabs.FD.insert (keyV x) (f0, pts, g) } }, none)
    | _, _, _, _ => (c, some "bad-op")
  | ["reset"] => ({}, none)
  | ["sf.new", mode, x0] =>
    match parseV x0, mode with
    | some x0, "callable" => ({ c with sf := SF.new .callable x0 }, some "ok")
    | some x0, "fd" => ({ c with sf := SF.new .fd x0 }, some "ok")
    | _, _ => (c, some "bad-op")
  | ["sf.fun", x] => match parseV x with
    | some x => let (c, o) := sfOp c (.funv x); (c, some o)
    | none => (c, some "bad-op")
  | ["sf.grad", x] => match parseV x with
    | some x => let (c, o) := sfOp c (.gradv x); (c, some o)
    | none => (c, some "bad-op")
  | ["sf.fg", x] => match parseV x with
    | some x => let (c, o) := sfOp c (.funAndGrad x); (c, some o)
    | none => (c, some "bad-op")
  | ["sf.scale", s] => match parseF s with
    | some s => let (c, o) := sfOp c (.setScale s); (c, some o)
    | none => (c, some "bad-op")
  | ["sf.log"] => (c, some s!"log {showLog c.sf.log}")
  | _ => (c, some "bad-op")

partial def loop (h : IO.FS.Stream) (out : IO.FS.Stream) (c : Ctx) : IO Unit := do
  let line ← h.getLine
  if line.isEmpty then return ()
  let (c', o) := handle c line
  match o with
  | some s => out.putStrLn s
  | none => pure ()
  loop h out c'

end Drv

def main : IO Unit := do
  let out ← IO.getStdout
  Drv.loop (← IO.getStdin) out {}
