/-
  The context of the Cauchy theorems for a kernel input built from positive-curvature pairs, with the identification of the model
  matrix exposed (`kernel_minCtx` of Props/C01Curv keeps it inside): used by the unit theorems for inputs with stored pairs.
-/
import LbfgsbVerif.Props.C01Curv

set_option linter.unusedSectionVars false

namespace Lbfgsb.C01
open Lbfgsb Matrix CompactKernel CompactBridge CompactBfgs Lbfgsb.Gauss
variable {K : Type} [Field K] [LinearOrder K] [IsStrictOrderedRing K]

theorem kernel_minCtx_B (lb ub : Vec K) (e : K) (x g : Vec K) (X G : List (Vec K))
    (hX : X.length > 1) (hXG : X.length = G.length) (hn : 0 < x.length)
    (hS : ∀ j, j < (diffs X).length → ((diffs X).getD j []).length = x.length)
    (hY : ∀ j, j < (diffs X).length → ((diffs G).getD j []).length = x.length)
    (hcurv : ∀ j, j < (diffs X).length → vec x.length ((diffs X).getD j []) ≠ 0 ∧
      0 < vec x.length ((diffs X).getD j []) ⬝ᵥ vec x.length ((diffs G).getD j []))
    (hθ : 0 < thetaOf X G) (box : InBoxF lb ub x)
    (floor : ∀ dd : Fin x.length → K, dd ≠ 0 →
      (∀ r, dd r = 0 ∨ dd r = vec x.length (cauchyD0 (breakpoints x (fitTo x g) lb ub) (fitTo x g)) r) →
      e * f2orgOf (kernelInput x g lb ub (some (X, G)) e) ≤
        dd ⬝ᵥ (C10.bfgsChain ((thetaOf X G) • (1 : Matrix (Fin x.length) (Fin x.length) K))
          (pairsOf x.length (diffs X) (diffs G)) *ᵥ dd)) :
    ∃ Mm : Matrix (Fin ((lOf x.length (diffs X) (diffs G)).length + (lOf x.length (diffs X) (diffs G)).length))
        (Fin ((lOf x.length (diffs X) (diffs G)).length + (lOf x.length (diffs X) (diffs G)).length)) K,
      kOf (kernelInput x g lb ub (some (X, G)) e) =
        (lOf x.length (diffs X) (diffs G)).length + (lOf x.length (diffs X) (diffs G)).length ∧
      MinCtx (kernelInput x g lb ub (some (X, G)) e) x.length _ Mm (f2orgOf (kernelInput x g lb ub (some (X, G)) e)) ∧
      bmat (kernelInput x g lb ub (some (X, G)) e).theta (wmat x.length _ (kernelInput x g lb ub (some (X, G)) e).W) Mm =
        C10.bfgsChain ((thetaOf X G) • (1 : Matrix (Fin x.length) (Fin x.length) K)) (pairsOf x.length (diffs X) (diffs G)) := by
  have hi : kernelInput x g lb ub (some (X, G)) e =
      { x, g := fitTo x g, lb, ub, theta := thetaOf X G, W := buildW x.length (thetaOf X G) (diffs X) (diffs G),
        Minv := buildMinv (thetaOf X G) (diffs X) (diffs G), useFactor := true, epsFsec := e } := by
    simp only [kernelInput, hX, if_true]
  have hSY : (diffs X).length = (diffs G).length := by rw [diffs_length, diffs_length, hXG]
  have hm := lOf_length x.length (diffs X) (diffs G) hSY
  obtain ⟨Mm, hM⟩ := kernel_minv_invertible x.length (thetaOf X G) (diffs X) (diffs G) hθ hSY hS hY hcurv
  obtain ⟨hB, hspd⟩ := C10.kernel_matrix_is_bfgs x.length (thetaOf X G) (diffs X) (diffs G) hθ hSY hS hY hcurv Mm hM
  -- sizes of the kernel input
  obtain ⟨sW, srow, sk, -, -, -⟩ := kernelInput_sizes x g lb ub X G e hX hXG hn
  have hkk : 2 * (X.length - 1) = (lOf x.length (diffs X) (diffs G)).length + (lOf x.length (diffs X) (diffs G)).length := by
    rw [hm, diffs_length]; omega
  have hg : (fitTo x g).length = x.length := fitTo_length x g
  rw [hi] at sW srow sk
  have hsym : (wmat ((lOf x.length (diffs X) (diffs G)).length + (lOf x.length (diffs X) (diffs G)).length)
      ((lOf x.length (diffs X) (diffs G)).length + (lOf x.length (diffs X) (diffs G)).length)
      (buildMinv (thetaOf X G) (diffs X) (diffs G)))ᵀ =
      wmat _ _ (buildMinv (thetaOf X G) (diffs X) (diffs G)) := by
    funext a b
    simp only [transpose_apply, wmat]
    exact buildMinv_symm _ _ _ b a (by have := b.2; omega) (by have := a.2; omega)
  have hMl : (buildMinv (thetaOf X G) (diffs X) (diffs G)).length =
      (lOf x.length (diffs X) (diffs G)).length + (lOf x.length (diffs X) (diffs G)).length := by
    rw [C10.buildMinv_length, hm]
  have hMrow : ∀ r, r < (lOf x.length (diffs X) (diffs G)).length + (lOf x.length (diffs X) (diffs G)).length →
      ((buildMinv (thetaOf X G) (diffs X) (diffs G)).getD r []).length =
        (lOf x.length (diffs X) (diffs G)).length + (lOf x.length (diffs X) (diffs G)).length := by
    intro r hr
    rw [hm]
    apply C10.buildMinv_rows
    rw [List.getD_eq_getElem?_getD, List.getElem?_eq_getElem (by rw [C10.buildMinv_length, ← hm]; exact hr)]
    exact List.getElem_mem _
  -- the context of the Cauchy theorems
  have hq : QCtx (kernelInput x g lb ub (some (X, G)) e) x.length _ Mm := by
    rw [hi]
    exact C09.qctx_of_pivots _ x.length _ Mm rfl hg sW (fun r hr => by rw [srow r hr, hkk]) rfl hMl hMrow hM hsym
  have hpd : ∀ a : Fin x.length → K, a ≠ 0 →
      0 < a ⬝ᵥ (bmat (thetaOf X G) (wmat x.length _ (buildW x.length (thetaOf X G) (diffs X) (diffs G))) Mm *ᵥ a) := by
    intro a ha; rw [hB]; exact hspd.2 a ha
  have hmin : MinCtx (kernelInput x g lb ub (some (X, G)) e) x.length _ Mm (f2orgOf (kernelInput x g lb ub (some (X, G)) e)) := by
    refine ⟨hq, ?_, ?_, ?_⟩
    · rw [hi]; exact box
    · rw [hi]; exact hpd
    · intro dd hne hpat
      have := floor dd hne (by rw [hi] at hpat; exact hpat)
      rw [hi]
      show e * _ ≤ dd ⬝ᵥ (bmat (thetaOf X G) _ Mm *ᵥ dd)
      rw [hB]
      rw [hi] at this
      exact this
  have hk : kOf (kernelInput x g lb ub (some (X, G)) e) =
      (lOf x.length (diffs X) (diffs G)).length + (lOf x.length (diffs X) (diffs G)).length := by
    rw [hi, sk, hkk]
  refine ⟨Mm, hk, hmin, ?_⟩
  rw [hi]
  exact hB

end Lbfgsb.C01
