/-
  The inverse BFGS update is the inverse of the direct BFGS update (any field):
  if `H B = 1`, `B` symmetric, `sᵀBs ≠ 0`, `sᵀy ≠ 0`, then

      invBfgs H s y * bfgs B s y = 1,

  and by induction over a list of pairs `invChain H ps * bfgsChain B ps = 1`.
  This ties the matrix the solver works with (C10: `θI − W M Wᵀ` = `bfgsChain (θI) pairs`) to the
  two-loop operator (C18: `twoLoop H pairs = invChain H pairs`): started from `H₀ = θ⁻¹ I`, the
  two-loop recursion applies the inverse of the solver's matrix.
-/
import LbfgsbVerif.Props.C18TwoLoop

set_option linter.unusedSectionVars false

namespace Lbfgsb.BfgsInverse
open Matrix Lbfgsb
variable {n : Type} [Fintype n] [DecidableEq n]
variable {K : Type} [Field K] [LinearOrder K] [IsStrictOrderedRing K]

theorem eq_one_of_mulVec (M : Matrix n n K) (h : ∀ x : n → K, M *ᵥ x = x) : M = 1 := by
  ext i j
  have := congrFun (h (Pi.single j 1)) i
  rw [mulVec_single_one] at this
  simpa [Matrix.one_apply, Pi.single_apply, eq_comm] using this

theorem bfgs_mulVec (B : Matrix n n K) (s y x : n → K) :
    C10.bfgs B s y *ᵥ x =
      B *ᵥ x - (((B *ᵥ s) ⬝ᵥ x) / (s ⬝ᵥ (B *ᵥ s))) • (B *ᵥ s) + ((y ⬝ᵥ x) / (s ⬝ᵥ y)) • y := by
  simp only [C10.bfgs, add_mulVec, sub_mulVec, smul_mulVec, vecMulVec_mulVec]
  congr 1
  · congr 1
    rw [op_smul_eq_smul, smul_smul]; congr 1; ring
  · rw [op_smul_eq_smul, smul_smul]; congr 1; ring

theorem invBfgs_mulVec (H : Matrix n n K) (s y z : n → K) :
    C18.invBfgs H s y *ᵥ z =
      (H *ᵥ (z - (1 / (y ⬝ᵥ s) * (s ⬝ᵥ z)) • y)
        - (1 / (y ⬝ᵥ s) * (y ⬝ᵥ (H *ᵥ (z - (1 / (y ⬝ᵥ s) * (s ⬝ᵥ z)) • y)))) • s)
      + (1 / (y ⬝ᵥ s) * (s ⬝ᵥ z)) • s := by
  have hV : (1 - (1 / (y ⬝ᵥ s)) • vecMulVec y s) *ᵥ z = z - (1 / (y ⬝ᵥ s) * (s ⬝ᵥ z)) • y := by
    rw [sub_mulVec, one_mulVec, smul_mulVec, vecMulVec_mulVec]
    congr 1
    rw [op_smul_eq_smul, smul_smul]
  have hVt : ∀ w : n → K, (1 - (1 / (y ⬝ᵥ s)) • vecMulVec s y) *ᵥ w = w - (1 / (y ⬝ᵥ s) * (y ⬝ᵥ w)) • s := by
    intro w
    rw [sub_mulVec, one_mulVec, smul_mulVec, vecMulVec_mulVec]
    congr 1
    rw [op_smul_eq_smul, smul_smul]
  simp only [C18.invBfgs, add_mulVec, smul_mulVec, vecMulVec_mulVec]
  rw [← mulVec_mulVec, ← mulVec_mulVec, hV, hVt]
  congr 1
  rw [op_smul_eq_smul, smul_smul]

/-- one update: the inverse update inverts the direct one -/
theorem invBfgs_mul_bfgs (B H : Matrix n n K) (hB : Bᵀ = B) (hHB : H * B = 1) (s y : n → K)
    (hσ : s ⬝ᵥ (B *ᵥ s) ≠ 0) (hτ : s ⬝ᵥ y ≠ 0) :
    C18.invBfgs H s y * C10.bfgs B s y = 1 := by
  apply eq_one_of_mulVec
  intro x
  rw [← mulVec_mulVec, bfgs_mulVec, invBfgs_mulVec]
  have hτ' : y ⬝ᵥ s ≠ 0 := by rw [dotProduct_comm]; exact hτ
  have hsym : s ⬝ᵥ (B *ᵥ x) = (B *ᵥ s) ⬝ᵥ x := by
    rw [dotProduct_mulVec, ← hB, vecMul_transpose, hB]
  set a := B *ᵥ s with ha
  set al := (a ⬝ᵥ x) / (s ⬝ᵥ a) with hal
  set be := (y ⬝ᵥ x) / (s ⬝ᵥ y) with hbe
  -- s · z = y · x
  have hsz : s ⬝ᵥ (B *ᵥ x - al • a + be • y) = y ⬝ᵥ x := by
    rw [dotProduct_add, dotProduct_sub, dotProduct_smul, dotProduct_smul, hsym, smul_eq_mul, smul_eq_mul, hal, hbe]
    field_simp
    ring
  rw [hsz]
  have hρβ : 1 / (y ⬝ᵥ s) * (y ⬝ᵥ x) = be := by
    rw [hbe, dotProduct_comm y s]; ring
  rw [hρβ]
  -- V z = B (x − al s)
  have hVz : B *ᵥ x - al • a + be • y - be • y = B *ᵥ (x - al • s) := by
    rw [mulVec_sub, mulVec_smul]; abel
  rw [hVz, mulVec_mulVec, hHB, one_mulVec]
  -- y · (x − al s) = y·x − al (y·s)
  have hy : 1 / (y ⬝ᵥ s) * (y ⬝ᵥ (x - al • s)) = be - al := by
    rw [dotProduct_sub, dotProduct_smul, smul_eq_mul, hbe, dotProduct_comm s y]
    field_simp
  rw [hy]
  rw [sub_smul]
  abel

/-- the chain of inverse updates inverts the chain of direct updates (same pairs, same order) -/
theorem invChain_mul_bfgsChain (B H : Matrix n n K) (hB : C10.SPD B) (hHB : H * B = 1)
    (ps : List ((n → K) × (n → K))) (hp : ∀ p ∈ ps, p.1 ≠ 0 ∧ 0 < p.1 ⬝ᵥ p.2) :
    C18.invChain H ps * C10.bfgsChain B ps = 1 := by
  induction ps generalizing B H with
  | nil => exact hHB
  | cons p ps ih =>
    simp only [C18.invChain, C10.bfgsChain]
    obtain ⟨hs, hsy⟩ := hp p (List.mem_cons_self ..)
    apply ih _ _ (C10.bfgs_posdef B hB p.1 p.2 hs hsy)
    · exact invBfgs_mul_bfgs B H hB.1 hHB p.1 p.2 (ne_of_gt (hB.2 p.1 hs)) (ne_of_gt hsy)
    · intro q hq; exact hp q (List.mem_cons_of_mem _ hq)

/-- started from `θ⁻¹ I` against `θ I` -/
theorem invChain_theta (θ : K) (hθ : 0 < θ) (ps : List ((n → K) × (n → K)))
    (hp : ∀ p ∈ ps, p.1 ≠ 0 ∧ 0 < p.1 ⬝ᵥ p.2) :
    C18.invChain (θ⁻¹ • (1 : Matrix n n K)) ps * C10.bfgsChain (θ • (1 : Matrix n n K)) ps = 1 := by
  apply invChain_mul_bfgsChain _ _ (C10.scaled_identity_spd θ hθ) _ ps hp
  rw [smul_mul_smul_comm, mul_one, inv_mul_cancel₀ (ne_of_gt hθ), one_smul]

/-- consequently: the solution of `B w = −g` is minus the two-loop recursion applied to `g` -/
theorem newton_eq_two_loop (θ : K) (hθ : 0 < θ) (ps : List ((n → K) × (n → K)))
    (hp : ∀ p ∈ ps, p.1 ≠ 0 ∧ 0 < p.1 ⬝ᵥ p.2) (g w : n → K)
    (hw : C10.bfgsChain (θ • (1 : Matrix n n K)) ps *ᵥ w = -g) :
    w = -C18.twoLoop (θ⁻¹ • (1 : Matrix n n K)) ps g := by
  have h := invChain_theta θ hθ ps hp
  have : C18.invChain (θ⁻¹ • (1 : Matrix n n K)) ps *ᵥ (C10.bfgsChain (θ • (1 : Matrix n n K)) ps *ᵥ w) = w := by
    rw [mulVec_mulVec, h, one_mulVec]
  rw [hw, mulVec_neg] at this
  rw [C18.two_loop_eq_chain, C18.chainF_eq_invChain, ← this]

/-- the inverse update satisfies the secant equation `H⁺ y = s` -/
theorem invBfgs_secant (H : Matrix n n K) (s y : n → K) (h : y ⬝ᵥ s ≠ 0) : C18.invBfgs H s y *ᵥ y = s := by
  rw [invBfgs_mulVec]
  have e : 1 / (y ⬝ᵥ s) * (s ⬝ᵥ y) = 1 := by rw [dotProduct_comm s y]; field_simp
  rw [e, one_smul, sub_self, mulVec_zero, dotProduct_zero, mul_zero, zero_smul, sub_zero, zero_add, one_smul]

theorem invChain_append (H : Matrix n n K) (ps : List ((n → K) × (n → K))) (p : (n → K) × (n → K)) :
    C18.invChain H (ps ++ [p]) = C18.invBfgs (C18.invChain H ps) p.1 p.2 := by
  induction ps generalizing H with
  | nil => rfl
  | cons q qs ih => simp only [List.cons_append, C18.invChain]; exact ih _

/-- the operator built from the pairs maps the newest `y` to the newest `s` (secant equation of `hess_inv`) -/
theorem two_loop_secant (H : Matrix n n K) (ps : List ((n → K) × (n → K))) (p : (n → K) × (n → K))
    (h : p.2 ⬝ᵥ p.1 ≠ 0) : C18.twoLoop H (ps ++ [p]) p.2 = p.1 := by
  rw [C18.two_loop_eq_chain, C18.chainF_eq_invChain, invChain_append, invBfgs_secant _ _ _ h]

end Lbfgsb.BfgsInverse
