/-
  C06/C07: a restart continues the run. Simulation between the loop of the uninterrupted run, taken
  at the state the checkpoint was made from, and the loop of the restart (exact arithmetic).
  Part 1: the function wrapper. A restarted wrapper knows the point but has no cached value; the
  cached values of the original are never read once the wrapper moves to another point.
-/
import LbfgsbVerif.Proofs.Ghost

namespace Lbfgsb
variable {α ε δ : Type}

section sf
variable [LT α] [DecidableLT α] [Mul α] [OfNat α 0]

/-- the wrapper up to its log and the cached gradient -/
def SF.erG (s : SF α) : SF α := { s with log := [], g := [] }

theorem callF_erG (u : SFUser α ε) (a b : SF α) (p : Vec α) (h : a.erG = b.erG) :
    (a.callF u p).map (fun r => (r.1.erG, r.2)) = (b.callF u p).map (fun r => (r.1.erG, r.2)) := by
  unfold SF.callF
  cases u.F p with
  | error e => rfl
  | ok v =>
    simp only [bind, Except.bind, pure, Except.pure, Except.map, Except.ok.injEq, Prod.mk.injEq, and_true]
    cases a; cases b
    simp only [SF.erG, SF.mk.injEq] at h ⊢
    simp_all

theorem callFs_erG (u : SFUser α ε) (pts : List (Vec α)) :
    ∀ (a b : SF α), a.erG = b.erG →
      (SF.callFs u a pts).map (fun r => (r.1.erG, r.2)) = (SF.callFs u b pts).map (fun r => (r.1.erG, r.2)) := by
  induction pts with
  | nil => intro a b h; simp [SF.callFs, Except.map, pure, Except.pure, h]
  | cons p ps ih =>
    intro a b h
    simp only [SF.callFs]
    apply bindE (fun r : SF α × α => (r.1.erG, r.2)) _ _ _ _ _ (callF_erG u a b p h)
    intro r r' hrr
    simp only [Prod.mk.injEq] at hrr
    apply bindE (fun r : SF α × List α => (r.1.erG, r.2)) _ _ _ _ _ (ih r.1 r'.1 hrr.1)
    intro t t' htt
    simp only [Prod.mk.injEq] at htt
    simp [Except.map, pure, Except.pure, htt.1, htt.2, hrr.2]

/-- two wrappers at the same point, neither holding a valid value or gradient, that agree on
everything but the stale cache and the log, answer a value-and-gradient request identically -/
theorem fg_stale (u : SFUser α ε) (a b : SF α)
    (h : ({ a with f := 0, g := [], log := [] } : SF α) = { b with f := 0, g := [], log := [] })
    (hf : a.fUpd = false) (hg : a.gUpd = false) :
    erR (do let s ← a.updFun u; let s ← s.updGrad u; pure (s, s.f * s.scale, vscale s.g s.scale)) =
    erR (do let s ← b.updFun u; let s ← s.updGrad u; pure (s, s.f * s.scale, vscale s.g s.scale)) := by
  cases a with
  | mk m lb ub x f g fU gU nf ng sc lg =>
  cases b with
  | mk m' lb' ub' x' f' g' fU' gU' nf' ng' sc' lg' =>
  simp only [SF.mk.injEq] at h
  obtain ⟨h1, h2, h3, h4, -, -, h7, h8, h9, h10, h11, -⟩ := h
  subst h1 h2 h3 h4 h7 h8 h9 h10 h11
  simp only at hf hg
  subst hf hg
  simp only [SF.updFun, SF.callF, Bool.false_eq_true, if_false, bind, Except.bind]
  cases hF : u.F x with
  | error e => simp [erR, Except.map]
  | ok v =>
    simp only [pure, Except.pure, SF.updGrad, Bool.false_eq_true, if_false]
    cases m with
    | callable =>
      simp only [bind, Except.bind]
      cases hG : u.Gr x with
      | error e => simp [erR, Except.map]
      | ok gv => simp [erR, Except.map, pure, Except.pure, SF.er]
    | fd =>
      simp only [SF.updFun, if_true, bind, Except.bind, pure, Except.pure]
      have hc := callFs_erG u (u.fdPts x v)
        ({ mode := .fd, lb := lb, ub := ub, x := x, f := v, g := g, fUpd := true, gUpd := false, nfev := nf + 1,
           ngev := ng + 1, scale := sc, log := lg ++ [Call.mk .F x] } : SF α)
        ({ mode := .fd, lb := lb, ub := ub, x := x, f := v, g := g', fUpd := true, gUpd := false, nfev := nf + 1,
           ngev := ng + 1, scale := sc, log := lg' ++ [Call.mk .F x] } : SF α) (by simp [SF.erG])
      revert hc
      cases hA : SF.callFs u _ (u.fdPts x v) with
      | error e =>
        cases hB : SF.callFs u _ (u.fdPts x v) with
        | error e' => intro hc; simp only [Except.map, Except.error.injEq] at hc; simp [erR, Except.map, hc]
        | ok r' => intro hc; simp [Except.map] at hc
      | ok r =>
        cases hB : SF.callFs u _ (u.fdPts x v) with
        | error e' => intro hc; simp [Except.map] at hc
        | ok r' =>
          intro hc
          simp only [Except.map, Except.ok.injEq, Prod.mk.injEq] at hc
          obtain ⟨hs, hv⟩ := hc
          obtain ⟨s1, vs⟩ := r
          obtain ⟨s1', vs'⟩ := r'
          simp only at hs hv
          subst hv
          cases s1; cases s1'
          simp only [SF.erG, SF.mk.injEq] at hs
          simp only [erR, Except.map, Except.ok.injEq, Prod.mk.injEq, SF.er, SF.mk.injEq]
          simp_all

/-- two wrappers that agree on everything but the cache (value, gradient, validity flags) and the log -/
structure SFR (a b : SF α) : Prop where
  mode : a.mode = b.mode
  lb : a.lb = b.lb
  ub : a.ub = b.ub
  x : a.x = b.x
  nfev : a.nfev = b.nfev
  ngev : a.ngev = b.ngev
  scale : a.scale = b.scale

/-- a value-and-gradient request at another point makes them indistinguishable (up to the log) -/
theorem funAndGrad_fresh (u : SFUser α ε) (a b : SF α) (hr : SFR a b) (p : Vec α) (hp : veq p a.x = false) :
    erR (a.funAndGrad u p) = erR (b.funAndGrad u p) := by
  have hpb : veq p b.x = false := by rw [← hr.x]; exact hp
  unfold SF.funAndGrad
  have ea : a.updateX p = { a with x := p, fUpd := false, gUpd := false } := by
    unfold SF.updateX; rw [hp]; simp
  have eb : b.updateX p = { b with x := p, fUpd := false, gUpd := false } := by
    unfold SF.updateX; rw [hpb]; simp
  rw [ea, eb]
  apply fg_stale u _ _ _ rfl rfl
  cases a; cases b
  obtain ⟨h1, h2, h3, h4, h5, h6, h7⟩ := hr
  simp only at h1 h2 h3 h4 h5 h6 h7
  simp only [SF.mk.injEq]
  simp_all

end sf
/-! Part 2: the line search -/
section driver
variable [Add α] [Sub α] [Mul α] [Div α] [Neg α] [LT α] [DecidableLT α] [OfNat α 0] [OfNat α 1] [FloatLike α]

theorem lsStep_fresh (u : User α ε) (o : Oracles α δ) (x0 d lb ub : Vec α) (l : LS α δ) (sfB : SF α)
    (olB : List (OReq α)) (hr : SFR l.sf sfB)
    (hfg : (o.dcIter l.dc l.stp0 l.fm1 l.dphim1 l.task).2.2 = .fg)
    (hp : veq (trial x0 d lb ub (o.dcIter l.dc l.stp0 l.fm1 l.dphim1 l.task).2.1) l.sf.x = false) :
    (lsStep u o x0 d lb ub l).map (fun p => (p.1.er, p.2)) =
    (lsStep u o x0 d lb ub { l with sf := sfB, olog := olB }).map (fun p => (p.1.er, p.2)) := by
  unfold lsStep
  dsimp only
  rw [if_pos hfg, if_pos hfg]
  apply bindE (fun p : SF α × α × Vec α => (p.1.er, p.2)) _ _ _ _ _
    (funAndGrad_fresh u.toSFUser l.sf sfB hr _ hp)
  intro p q hpq
  simp only [Prod.mk.injEq] at hpq
  obtain ⟨h1, h2⟩ := hpq
  obtain ⟨lg', h1'⟩ := exists_log h1
  simp only [pure, Except.pure, Except.map, Except.ok.injEq, Prod.mk.injEq, and_true]
  rw [← h2, h1']
  split <;> simp [LS.er, SF.er]

/-- the first step of the line search of the iteration evaluates the objective, at a point that is
not the current iterate (the step is positive and the direction moves some variable) -/
def FirstEval (o : Oracles α δ) (c : Cfg α) (x0 : Vec α) (f0 : α) (g0 d : Vec α) (nit : Nat) (maxIter : Nat) : Prop :=
  let maxStep := maxAllowedStep x0 d c.lb c.ub c.maxStep nit
  let stp0 : α := if nit = 0 ∧ !(isBoxed c.lb c.ub) then fmin (1 / FloatLike.sqrt (dot d d)) maxStep else 1
  let r := o.dcIter (o.dcNew x0 d c.ftolLS c.gtolLS c.xtolLS maxStep) stp0 f0 (dot g0 d) .start
  0 < maxIter ∧ r.2.2 = .fg ∧ veq (trial x0 d c.lb c.ub r.2.1) x0 = false

theorem lineSearch_fresh (u : User α ε) (o : Oracles α δ) (c : Cfg α) (x0 : Vec α) (f0 : α) (g0 d : Vec α)
    (nit : Nat) (sfA sfB : SF α) (maxIter : Nat) (olog olog' : List (OReq α)) (hr : SFR sfA sfB) (hx : sfA.x = x0)
    (hfe : FirstEval o c x0 f0 g0 d nit maxIter) :
    (lineSearch u o c x0 f0 g0 d nit sfA maxIter olog).map (fun p => (p.1.er, p.2.1, ([] : List (OReq α)))) =
    (lineSearch u o c x0 f0 g0 d nit sfB maxIter olog').map (fun p => (p.1.er, p.2.1, ([] : List (OReq α)))) := by
  obtain ⟨hpos, hfg, hp⟩ := hfe
  unfold lineSearch
  dsimp only
  obtain ⟨n, rfl⟩ : ∃ n, maxIter = n + 1 := ⟨maxIter - 1, by omega⟩
  apply bindE (fun p : LS α δ × Bool => (p.1.er, p.2)) _ _ _ _ _ ?_
  · rintro ⟨p1, p2⟩ ⟨q1, q2⟩ hpq
    simp only [Prod.mk.injEq] at hpq
    obtain ⟨h1, h2⟩ := hpq
    obtain ⟨lg, ol, rfl⟩ := LS.exists_ghost h1
    subst h2
    dsimp only
    split
    · simp [pure, Except.pure, Except.map, SF.er]
    · split
      · split <;> simp [pure, Except.pure, Except.map, SF.er]
      · simp only [pure, Except.pure]
        split <;> simp [Except.map, SF.er]
  · simp only [lsLoop]
    apply bindE (fun p : LS α δ × Bool => (p.1.er, p.2)) _ _ _ _ _
      (lsStep_fresh u o x0 d c.lb c.ub _ sfB olog' hr hfg (by rw [hx]; exact hp))
    intro p q hpq
    simp only [Prod.mk.injEq] at hpq
    rw [← hpq.2]
    split
    · exact lsLoop_congr u o x0 d c.lb c.ub n _ _ hpq.1
    · simp [pure, Except.pure, Except.map, hpq.1]

end driver

/-! Part 3: one pass of the main loop, then the whole loop -/
section loop
variable [Add α] [Sub α] [Mul α] [Div α] [Neg α] [LT α] [DecidableLT α] [OfNat α 0] [OfNat α 1] [FloatLike α]

/-- the restart's loop state: the state the checkpoint was taken from, with another wrapper (same point
and counters, empty cache) and other ghost logs -/
def reState (s : St α) (sfB : SF α) (cbs : List (Result α)) (ol : List (OReq α)) : St α :=
  { s with sf := sfB, cbStates := cbs, olog := ol }

theorem iterBody_fresh (u : User α ε) (o : Oracles α δ) (hcb : ∀ r, u.callback r = .ok false) (c : Cfg α) (b : Bool)
    (s : St α) (sfB : SF α) (cbs : List (Result α)) (ol : List (OReq α)) (hr : SFR s.sf sfB) (hx : s.sf.x = s.x)
    (hfe : FirstEval o (c.cb b) s.x s.f s.g (vsub (o.xbar s.x s.g s.mats) s.x) s.nit
      (min c.maxls (c.maxfun - s.sf.nfev))) :
    (iterBody u o (c.cb b) s).map (fun p => (p.1.er, p.2)) =
    (iterBody u o (c.cb b) (reState s sfB cbs ol)).map (fun p => (p.1.er, p.2)) := by
  unfold iterBody reState
  dsimp only
  rw [← hr.nfev]
  apply bindE (fun p : SF α × Option α × List (OReq α) => (p.1.er, p.2.1, ([] : List (OReq α)))) _ _ _ _ _
    (lineSearch_fresh u o (c.cb b) _ _ _ _ _ s.sf sfB _ _ _ hr hx hfe)
  rintro ⟨p1, p2, p3⟩ ⟨q1, q2, q3⟩ hpq
  simp only [Prod.mk.injEq] at hpq
  obtain ⟨h1, h2, -⟩ := hpq
  subst h2
  dsimp only
  cases p2 with
  | none =>
    simp only [pure, Except.pure, Except.map, Except.ok.injEq]
    exact iterFail_congr _ _ (by simp [St.er, h1])
  | some stp =>
    exact iterStep_congr u hcb c b b _ _ _ stp s.f (by simp [St.er, h1])

/-- a state up to the ghost logs and the wrapper's cache -/
def St.er2 (s : St α) : St α :=
  { s with cbStates := [], olog := [], sf := { s.sf with log := [], f := 0, g := [], fUpd := false, gUpd := false } }

theorem St.er2_of_er {s t : St α} (h : s.er = t.er) : s.er2 = t.er2 := by
  obtain ⟨lg, cbs, ol, rfl⟩ := St.exists_ghost h
  rfl

theorem map_er2_of_er {ra rb : Except ε (St α)} (h : ra.map St.er = rb.map St.er) : ra.map St.er2 = rb.map St.er2 := by
  cases ra <;> cases rb <;> simp only [Except.map, Except.error.injEq, Except.ok.injEq, reduceCtorEq] at h ⊢
  · exact h
  · exact St.er2_of_er h

/-- the loop of the restart computes what the loop of the uninterrupted run computes from the state
the checkpoint was taken from (up to the ghost logs and the wrapper's cache) -/
theorem mainLoop_fresh (u : User α ε) (o : Oracles α δ) (hcb : ∀ r, u.callback r = .ok false) (c : Cfg α) (b : Bool)
    (fuel : Nat) (s : St α) (sfB : SF α) (cbs : List (Result α)) (ol : List (OReq α)) (hr : SFR s.sf sfB)
    (hx : s.sf.x = s.x)
    (hfe : guard (c.cb b) s = true → FirstEval o (c.cb b) s.x s.f s.g (vsub (o.xbar s.x s.g s.mats) s.x) s.nit
      (min c.maxls (c.maxfun - s.sf.nfev))) :
    (mainLoop u o (c.cb b) fuel s).map St.er2 = (mainLoop u o (c.cb b) fuel (reState s sfB cbs ol)).map St.er2 := by
  have hsame : s.er2 = (reState s sfB cbs ol).er2 := by
    obtain ⟨h1, h2, h3, h4, h5, h6, h7⟩ := hr
    cases hs : s.sf; cases sfB
    simp only [hs] at h1 h2 h3 h4 h5 h6 h7
    simp only [St.er2, reState, hs, St.mk.injEq, SF.mk.injEq]
    simp_all
  have hguard : guard (c.cb b) (reState s sfB cbs ol) = guard (c.cb b) s := by
    simp only [guard, reState, hr.nfev]
    rfl
  cases fuel with
  | zero => simp only [mainLoop, pure, Except.pure, Except.map, Except.ok.injEq]; exact hsame
  | succ n =>
    simp only [mainLoop]
    rw [hguard]
    split
    · rename_i hg
      apply map_er2_of_er
      apply bindE (fun p : St α × Flow => (p.1.er, p.2)) _ _ _ _ _ (iterBody_fresh u o hcb c b s sfB cbs ol hr hx (hfe hg))
      rintro ⟨p1, p2⟩ ⟨q1, q2⟩ hpq
      simp only [Prod.mk.injEq] at hpq
      obtain ⟨h1, h2⟩ := hpq
      subst h2
      cases p2 with
      | brk => simp [pure, Except.pure, Except.map, h1]
      | next => exact mainLoop_congr u o hcb c b b n _ _ h1
    · simp only [pure, Except.pure, Except.map, Except.ok.injEq]; exact hsame

end loop

end Lbfgsb
