/-
  Symbolic-execution summaries of the shell model (level U: `α` any linear order, arithmetic
  uninterpreted, user callables and oracles arbitrary). Each function of Model/Shell.lean gets
  one summary lemma stating everything the property theorems need; the theorems in Props/
  are derived from the summaries without unfolding the model again.
-/
import LbfgsbVerif.Model.Shell
import LbfgsbVerif.Proofs.SF
import LbfgsbVerif.Proofs.Count

namespace Lbfgsb
variable {α ε δ : Type}

section
variable [LinearOrder α] [Add α] [Sub α] [Mul α] [Div α] [Neg α] [OfNat α 0] [OfNat α 1]
  [FloatLike α]

/-- entries a line search from `x0` along `d` may add to the log -/
def LSCall (u : User α ε) (mode : GradMode) (x0 d lb ub : Vec α) (c : Call α) : Prop :=
  ∃ stp, EvalAt u.toSFUser mode (trial x0 d lb ub stp) c

/-- best-trial bookkeeping of the line search: the recorded best value never exceeds the
starting value, and a recorded best step is strictly below it and is the user's objective at
that trial point (times the scale) -/
def BestInv (u : User α ε) (x0 d lb ub : Vec α) (f0 scale : α) (fBest : α) (best : Option α) :
    Prop :=
  ¬ f0 < fBest ∧ ∀ stp, best = some stp →
    fBest < f0 ∧ ∃ v, u.F (trial x0 d lb ub stp) = .ok v ∧ fBest = v * scale

structure LSSum (u : User α ε) (x0 d lb ub : Vec α) (f0 : α) (fuel : Nat) (l l' : LS α δ) :
    Prop where
  coh : Coh u.toSFUser l'.sf
  mode : l'.sf.mode = l.sf.mode
  lb_eq : l'.sf.lb = l.sf.lb
  ub_eq : l'.sf.ub = l.sf.ub
  scale : l'.sf.scale = l.sf.scale
  log : LogExt (LSCall u l.sf.mode x0 d lb ub) l.sf.log l'.sf.log
  nfev_ge : l.sf.nfev ≤ l'.sf.nfev
  nfev_le : l.sf.mode = .callable → l'.sf.nfev ≤ l.sf.nfev + fuel
  ngev_ge : l.sf.ngev ≤ l'.sf.ngev
  best : BestInv u x0 d lb ub f0 l.sf.scale l'.fBest l'.best
  counted : ∀ n g, CountedFrom n g l.sf → CountedFrom n g l'.sf

theorem LSSum.refl' {u : User α ε} {x0 d lb ub : Vec α} {f0 : α} (fuel : Nat) {l l' : LS α δ}
    (hc : Coh u.toSFUser l.sf) (hb : BestInv u x0 d lb ub f0 l.sf.scale l.fBest l.best)
    (hsf : l'.sf = l.sf) (hfb : l'.fBest = l.fBest) (hbe : l'.best = l.best) :
    LSSum u x0 d lb ub f0 fuel l l' := by
  refine ⟨by rw [hsf]; exact hc, by rw [hsf], by rw [hsf], by rw [hsf], by rw [hsf],
    by rw [hsf]; exact LogExt.refl _, by rw [hsf]; exact Nat.le_refl _, fun _ => by rw [hsf]; omega,
    by rw [hsf]; exact Nat.le_refl _,
    by rw [hfb, hbe]; exact hb, fun n g h => by rw [hsf]; exact h⟩

theorem LSSum.trans {u : User α ε} {x0 d lb ub : Vec α} {f0 : α} {n m : Nat} {l1 l2 l3 : LS α δ}
    (h1 : LSSum u x0 d lb ub f0 n l1 l2) (h2 : LSSum u x0 d lb ub f0 m l2 l3) :
    LSSum u x0 d lb ub f0 (n + m) l1 l3 := by
  refine ⟨h2.coh, by rw [h2.mode, h1.mode], by rw [h2.lb_eq, h1.lb_eq], by rw [h2.ub_eq, h1.ub_eq],
    by rw [h2.scale, h1.scale], LogExt.trans h1.log (by rw [← h1.mode]; exact h2.log),
    Nat.le_trans h1.nfev_ge h2.nfev_ge, ?_, Nat.le_trans h1.ngev_ge h2.ngev_ge,
    by rw [← h1.scale]; exact h2.best, fun n g h => h2.counted n g (h1.counted n g h)⟩
  intro hm
  have a := h1.nfev_le hm
  have b := h2.nfev_le (by rw [h1.mode]; exact hm)
  omega

theorem lsStep_sum (u : User α ε) (o : Oracles α δ) (x0 d lb ub : Vec α) (f0 : α)
    (l l' : LS α δ) (cont : Bool) (hc : Coh u.toSFUser l.sf)
    (hb : BestInv u x0 d lb ub f0 l.sf.scale l.fBest l.best)
    (h : lsStep u o x0 d lb ub l = .ok (l', cont)) : LSSum u x0 d lb ub f0 1 l l' := by
  unfold lsStep at h
  simp only at h
  split at h
  · -- task FG: evaluate at the trial point
    cases h1 : l.sf.funAndGrad u.toSFUser
        (trial x0 d lb ub (o.dcIter l.dc l.stp0 l.fm1 l.dphim1 l.task).2.1) with
    | error e => simp [h1, bind, Except.bind] at h
    | ok e =>
      obtain ⟨sf1, f, g⟩ := e
      simp only [h1, bind, Except.bind, pure, Except.pure] at h
      obtain ⟨es, ⟨v, hv, hf⟩, -⟩ := funAndGrad_sum hc h1
      have hlog : LogExt (LSCall u l.sf.mode x0 d lb ub) l.sf.log sf1.log :=
        es.log.mono (fun c hc' => ⟨_, hc'⟩)
      by_cases hlt : f < l.fBest
      · simp only [hlt, if_true] at h
        injection h with h
        injection h with h _
        subst h
        refine ⟨es.coh, es.mode, es.lb, es.ub, es.scale, hlog, es.nfev_ge, es.nfev_le, es.ngev_ge, ?_,
          fun n g hcn => funAndGrad_counted hcn h1⟩
        refine ⟨fun hh => hb.1 (lt_trans hh hlt), ?_⟩
        intro stp hs
        simp only [Option.some.injEq] at hs
        subst hs
        exact ⟨lt_of_lt_of_le hlt (le_of_not_gt hb.1), v, hv, hf⟩
      · simp only [hlt, if_false] at h
        injection h with h
        injection h with h _
        subst h
        exact ⟨es.coh, es.mode, es.lb, es.ub, es.scale, hlog, es.nfev_ge, es.nfev_le, es.ngev_ge, hb,
          fun n g hcn => funAndGrad_counted hcn h1⟩
  · simp only [pure, Except.pure] at h
    injection h with h
    injection h with h _
    subst h
    exact LSSum.refl' 1 hc hb rfl rfl rfl

theorem lsLoop_sum (u : User α ε) (o : Oracles α δ) (x0 d lb ub : Vec α) (f0 : α) :
    ∀ (fuel : Nat) (l l' : LS α δ) (ex : Bool),
      Coh u.toSFUser l.sf → BestInv u x0 d lb ub f0 l.sf.scale l.fBest l.best →
      lsLoop u o x0 d lb ub fuel l = .ok (l', ex) → LSSum u x0 d lb ub f0 fuel l l' := by
  intro fuel
  induction fuel with
  | zero =>
    intro l l' ex hc hb h
    simp only [lsLoop, pure, Except.pure] at h
    injection h with h
    injection h with h _
    subst h
    exact LSSum.refl' 0 hc hb rfl rfl rfl
  | succ fuel ih =>
    intro l l' ex hc hb h
    simp only [lsLoop, bind, Except.bind] at h
    cases h1 : lsStep u o x0 d lb ub l with
    | error e => simp [h1] at h
    | ok r =>
      obtain ⟨l1, cont⟩ := r
      simp only [h1] at h
      have s1 := lsStep_sum u o x0 d lb ub f0 l l1 cont hc hb h1
      cases cont with
      | true =>
        simp only [if_true] at h
        have s2 := ih l1 l' ex s1.coh (by rw [s1.scale]; exact s1.best) h
        have := LSSum.trans s1 s2
        rwa [Nat.add_comm] at this
      | false =>
        simp only [Bool.false_eq_true, if_false, pure, Except.pure] at h
        injection h with h
        injection h with h _
        subst h
        have := LSSum.trans s1 (LSSum.refl' fuel s1.coh (by rw [s1.scale]; exact s1.best) rfl rfl rfl)
        rwa [Nat.add_comm] at this

/-- summary of a whole line search started at `(x0, f0)` along `d` -/
structure LineSearchSum (u : User α ε) (c : Cfg α) (x0 d : Vec α) (f0 : α) (maxIter : Nat)
    (sf sf' : SF α) (stp? : Option α) : Prop where
  coh : Coh u.toSFUser sf'
  mode : sf'.mode = sf.mode
  lb_eq : sf'.lb = sf.lb
  ub_eq : sf'.ub = sf.ub
  scale : sf'.scale = sf.scale
  log : LogExt (LSCall u sf.mode x0 d c.lb c.ub) sf.log sf'.log
  nfev_ge : sf.nfev ≤ sf'.nfev
  nfev_le : sf.mode = .callable → sf'.nfev ≤ sf.nfev + maxIter
  ngev_ge : sf.ngev ≤ sf'.ngev
  /-- a returned step is strictly downhill: the user's objective at the trial point (times
  the scale) is below the starting value -/
  downhill : ∀ stp, stp? = some stp →
    ∃ v, u.F (trial x0 d c.lb c.ub stp) = .ok v ∧ v * sf.scale < f0
  counted : ∀ n g, CountedFrom n g sf → CountedFrom n g sf'

theorem lineSearch_sum (u : User α ε) (o : Oracles α δ) (c : Cfg α) (x0 : Vec α) (f0 : α)
    (g0 d : Vec α) (nit : Nat) (sf sf' : SF α) (maxIter : Nat) (olog olog' : List (OReq α))
    (stp? : Option α) (hc : Coh u.toSFUser sf)
    (h : lineSearch u o c x0 f0 g0 d nit sf maxIter olog = .ok (sf', stp?, olog')) :
    LineSearchSum u c x0 d f0 maxIter sf sf' stp? := by
  unfold lineSearch at h
  simp only [bind, Except.bind] at h
  split at h
  · simp at h
  · rename_i r hr
    obtain ⟨l, ex⟩ := r
    have hb0 : BestInv u x0 d c.lb c.ub f0 sf.scale f0 none :=
      ⟨lt_irrefl _, fun stp hs => by simp at hs⟩
    have ls := lsLoop_sum u o x0 d c.lb c.ub f0 maxIter _ l ex hc hb0 hr
    have base : ∀ (hn : stp? = none ∨ stp? = l.best) (hsf : sf' = l.sf),
        LineSearchSum u c x0 d f0 maxIter sf sf' stp? := by
      intro hn hsf
      subst hsf
      refine ⟨ls.coh, ls.mode, ls.lb_eq, ls.ub_eq, ls.scale, ls.log, ls.nfev_ge, ls.nfev_le,
        ls.ngev_ge, ?_, ls.counted⟩
      intro stp hs
      rcases hn with hn | hn
      · rw [hn] at hs; simp at hs
      · rw [hn] at hs
        obtain ⟨hlt, v, hv, hf⟩ := ls.best.2 stp hs
        exact ⟨v, hv, by rw [← hf]; exact hlt⟩
    simp only [pure, Except.pure] at h
    repeat' split at h
    all_goals
      injection h with h; injection h with h1 h2; injection h2 with h2 h3
      first
        | exact base (Or.inl h2.symm) h1.symm
        | exact base (Or.inr h2.symm) h1.symm

end
end Lbfgsb
