/-
  C06/C07: the memory a restart rebuilds from the pairs of a state whose point ends its stored
  history IS that history, and the matrices snapshot is rebuilt from it (additive group, exact).
-/
import LbfgsbVerif.Props.C06

namespace Lbfgsb
variable {α : Type} [AddCommGroup α] [Mul α] [LT α] [DecidableLT α]

/-- what `initialize_X_and_G` followed by the re-insertion of the current point yields -/
def restartMemory (x g : Vec α) (sk yk : List (Vec α)) (maxcor : Nat) (eps : α) :
    List (Vec α) × List (Vec α) × Mats α :=
  let R := restoreXG x g sk yk maxcor
  if R.1.length > 0 then
    let m := updateMats x g R.1 R.2 maxcor none eps
    (m.1, m.2.1, m.2.2.1)
  else ([x], [g], none)

theorem restoreXG_of_history (X' G' : List (Vec α)) (x g : Vec α) (maxcor : Nat)
    (hX : AllLen x.length (X' ++ [x])) (hG : AllLen g.length (G' ++ [g])) (hlen : X'.length = G'.length)
    (hne : X' ≠ []) (hb : X'.length ≤ maxcor) :
    restoreXG x g (diffs (X' ++ [x])) (diffs (G' ++ [g])) maxcor = (X', G') := by
  have hd : (diffs (X' ++ [x])).isEmpty = false := by
    have : (diffs (X' ++ [x])).length = X'.length := by simp [diffs_length]
    cases hdx : diffs (X' ++ [x]) with
    | nil => rw [hdx] at this; simp at this; exact absurd (List.length_eq_zero_iff.1 this.symm) hne
    | cons a as => rfl
  have key : ∀ (P : List (Vec α)) (p : Vec α), AllLen p.length (P ++ [p]) → P.length ≤ maxcor →
      pushBounded maxcor [] ((revCumsum (diffs (P ++ [p]))).map (vsub p ·)) = P := by
    intro P p hP hPb
    have hrt := C06.restore_roundtrip P p hP
    have hmap : (revCumsum (diffs (P ++ [p]))).map (vsub p ·) = P := List.append_cancel_right hrt
    rw [hmap, pushBounded_eq maxcor P [] (by simp)]
    simp only [List.nil_append]
    have : P.length - (maxcor + 1) = 0 := by omega
    rw [this]; rfl
  simp only [restoreXG, hd, Bool.false_eq_true, if_false]
  rw [key X' x hX hb, key G' g hG (by rw [← hlen]; exact hb)]

/-- **the restart holds the memory of the run** -/
theorem restartMemory_of_history (X' G' : List (Vec α)) (x g : Vec α) (maxcor : Nat) (eps : α)
    (hX : AllLen x.length (X' ++ [x])) (hG : AllLen g.length (G' ++ [g])) (hlen : X'.length = G'.length)
    (hb : X'.length ≤ maxcor)
    (hcurv : X' ≠ [] → curvOk x g (lastD X') (lastD G') eps = true) :
    restartMemory x g (diffs (X' ++ [x])) (diffs (G' ++ [g])) maxcor eps =
      (X' ++ [x], G' ++ [g], if (X' ++ [x]).length > 1 then some (X' ++ [x], G' ++ [g]) else none) := by
  unfold restartMemory
  dsimp only
  by_cases hne : X' = []
  · subst hne
    have hG' : G' = [] := List.length_eq_zero_iff.1 (by simpa using hlen.symm)
    subst hG'
    simp [diffs, restoreXG]
  · rw [restoreXG_of_history X' G' x g maxcor hX hG hlen hne hb]
    have hpos : X'.length > 0 := List.length_pos_iff.2 hne
    rw [if_pos hpos]
    unfold updateMats
    rw [if_pos (hcurv hne)]
    have hnd : ¬ (X' ++ [x]).length > maxcor + 1 := by simp; omega
    simp only [hnd, if_false]
    have : (X' ++ [x]).length > 1 := by simp; omega
    rw [if_pos this]

end Lbfgsb
