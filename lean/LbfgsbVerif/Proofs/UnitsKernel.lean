/-
  Change of units for the kernel inputs built from a stored history: differences, scale `θ`, pairs and gradient padding of the history
  in other units (`X → b X`, `G → (a/b) G`).
-/
import LbfgsbVerif.Proofs.UnitsSub
import LbfgsbVerif.Proofs.KernelCtxB
import LbfgsbVerif.Props.C10Units

set_option linter.unusedSectionVars false

namespace Lbfgsb.Units
open Lbfgsb Matrix CompactKernel
variable {K : Type} [Field K] [LinearOrder K] [IsStrictOrderedRing K]

theorem dot_nil_left (v : List K) : dot ([] : List K) v = 0 := by simp [dot, vzip]
theorem dot_nil_right (v : List K) : dot v ([] : List K) = 0 := by cases v <;> simp [dot, vzip]

theorem dot_smul_smul (c d : K) (u v : List K) : dot (smul c u) (smul d v) = c * d * dot u v := by
  induction u generalizing v with
  | nil => simp [smul, dot_nil_left]
  | cons x xs ih =>
    cases v with
    | nil => simp [smul, dot_nil_right]
    | cons y ys =>
      have := ih ys
      simp only [smul, List.map_cons] at this ⊢
      rw [dot_cons, dot_cons, this]
      ring

theorem vsub_smul (c : K) (u v : Vec K) : vsub (smul c u) (smul c v) = smul c (vsub u v) := by
  induction u generalizing v with
  | nil => simp [vsub, smul, vzip]
  | cons x xs ih =>
    cases v with
    | nil => simp [vsub, smul, vzip]
    | cons y ys =>
      have := ih ys
      simp only [vsub, smul, List.map_cons, vzip] at this ⊢
      rw [this, mul_sub]

theorem diffs_map_smul (c : K) (X : List (Vec K)) : diffs (X.map (smul c)) = (diffs X).map (smul c) := by
  induction X with
  | nil => rfl
  | cons a rest ih =>
    cases rest with
    | nil => rfl
    | cons b rest' =>
      simp only [List.map_cons, diffs] at ih ⊢
      rw [vsub_smul, ih]

theorem getD_smul (c : K) (v : List K) (j : Nat) : (smul c v).getD j 0 = c * v.getD j 0 := by
  simp only [smul, List.getD_eq_getElem?_getD, List.getElem?_map]
  cases v[j]? <;> simp

theorem vec_smul' (n : Nat) (c : K) (v : List K) : vec n (smul c v) = c • vec n v := by
  funext r
  simp only [vec, Pi.smul_apply, smul_eq_mul, getD_smul]

theorem fitTo_smul (b c : K) (x g : Vec K) : fitTo (smul b x) (smul c g) = smul c (fitTo x g) := by
  unfold fitTo
  rw [smul_length]
  simp only [smul, List.map_map]
  apply List.map_congr_left
  intro j _
  simp only [Function.comp]
  exact getD_smul c g j

theorem getD_map_smul (c : K) (L : List (Vec K)) (j : Nat) : (L.map (smul c)).getD j [] = smul c (L.getD j []) := by
  simp only [List.getD_eq_getElem?_getD, List.getElem?_map]
  cases L[j]? <;> simp [smul]

theorem pairsOf_units (n : Nat) (b c : K) (S Y : List (Vec K)) :
    pairsOf n (S.map (smul b)) (Y.map (smul c)) = (pairsOf n S Y).map fun p => (b • p.1, c • p.2) := by
  unfold pairsOf
  rw [List.zip_map, List.map_map, List.map_map]
  apply List.map_congr_left
  intro p _
  simp only [Function.comp, Prod.map, vec_smul']

theorem thetaOf_units (a b : K) (ha : a ≠ 0) (hb : b ≠ 0) (X G : List (Vec K)) (hX : X.length > 1) (hXG : X.length = G.length) :
    thetaOf (X.map (smul b)) (G.map (smul (a / b))) = a / (b * b) * thetaOf X G := by
  unfold thetaOf
  rw [diffs_map_smul, diffs_map_smul, List.getLast?_map, List.getLast?_map]
  have h1 : (diffs X).length = X.length - 1 := diffs_length X
  have h2 : (diffs G).length = G.length - 1 := diffs_length G
  cases hs : (diffs X).getLast? with
  | none =>
    rw [List.getLast?_eq_none_iff] at hs
    rw [hs] at h1; simp at h1; omega
  | some s =>
    cases hy : (diffs G).getLast? with
    | none =>
      rw [List.getLast?_eq_none_iff] at hy
      rw [hy] at h2; simp at h2; omega
    | some y =>
      simp only [Option.map_some]
      rw [dot_smul_smul, dot_smul_smul]
      by_cases h0 : dot s y = 0
      · simp [h0]
      · field_simp

end Lbfgsb.Units
