/-
  C08: the generalized Cauchy point computed by the model `cauchy` lies on the projected path:
  it is `P(x − t g)` for some `t ≥ 0` (ordered field). Invariant of the breakpoint loop: the
  variables pinned so far sit on the bound they were heading to, have a zero direction component
  and a breakpoint `≤ t_old`; the others are where they started with their initial direction.
-/
import LbfgsbVerif.Proofs.Pointwise
import LbfgsbVerif.Props.C08
import LbfgsbVerif.Props.C11
import Mathlib.Tactic.Linarith
import Mathlib.Tactic.Ring
import Mathlib.Tactic.FieldSimp

namespace Lbfgsb
variable {K : Type} [Field K] [LinearOrder K] [IsStrictOrderedRing K]

theorem getD_breakpoints (x g lb ub : Vec K) (j : Nat) (hj : j < x.length) (h1 : g.length = x.length)
    (h2 : lb.length = x.length) (h3 : ub.length = x.length) :
    (breakpoints x g lb ub).getD j none =
      C01.bp1 (x.getD j 0) (g.getD j 0) (lb.getD j 0) (ub.getD j 0) := by
  induction x generalizing g lb ub j with
  | nil => simp at hj
  | cons a as ih =>
    cases g with
    | nil => simp at h1
    | cons b bs =>
      cases lb with
      | nil => simp at h2
      | cons l ls =>
        cases ub with
        | nil => simp at h3
        | cons u us =>
          cases j with
          | zero => simp [breakpoints, C01.bp1]
          | succ j' =>
            simp only [breakpoints, List.getD_cons_succ]
            exact ih bs ls us j' (by simpa using hj) (by simpa using h1) (by simpa using h2) (by simpa using h3)

theorem getD_cauchyD0 (t : List (Option K)) (g : Vec K) (j : Nat) (hj : j < g.length) (h : t.length = g.length) :
    (cauchyD0 t g).getD j 0 = C01.d01 (t.getD j none) (g.getD j 0) := by
  induction t generalizing g j with
  | nil => cases g <;> simp_all
  | cons a as ih =>
    cases g with
    | nil => simp at h
    | cons b bs =>
      cases j with
      | zero => rw [C01.cauchyD0_cons]; simp
      | succ j' =>
        rw [C01.cauchyD0_cons]
        simp only [List.getD_cons_succ]
        exact ih bs j' (by simpa using hj) (by simpa using h)

/-- the bound variable `j` heads to (`d = −g`: upper bound when `g < 0`, lower bound otherwise) -/
def headBound (i : CauchyIn K) (j : Nat) : K :=
  if i.g.getD j 0 < 0 then i.ub.getD j 0 else i.lb.getD j 0

/-- invariant of the breakpoint loop; `P` = the variables pinned so far -/
structure PathInv (i : CauchyIn K) (t : List (Option K)) (d0 : Vec K) (s : CauchySt K) (P : List Nat) : Prop where
  len_x : s.xcp.length = i.x.length
  len_d : s.d.length = i.x.length
  tOld_nonneg : 0 ≤ s.tOld
  pinned : ∀ j ∈ P, j < i.x.length ∧ ∃ v, t.getD j none = some v ∧ 0 < v ∧ v ≤ s.tOld ∧
    s.d.getD j 0 = 0 ∧ s.xcp.getD j 0 = headBound i j
  free : ∀ j, j < i.x.length → j ∉ P → s.xcp.getD j 0 = i.x.getD j 0 ∧ s.d.getD j 0 = d0.getD j 0

/-- one pass of the loop for a breakpoint index `ib` that is positive, not yet pinned, and not
smaller than the breakpoints already passed -/
theorem cauchyStep_inv (i : CauchyIn K) (t : List (Option K)) (d0 : Vec K) (f2org : K) (s : CauchySt K)
    (P : List Nat) (ib : Nat) (hi : PathInv i t d0 s P) (hib : ib < i.x.length) (hnp : ib ∉ P)
    (hpos : bpPos (t.getD ib none) = true)
    (hd0 : ∀ v, t.getD ib none = some v → d0.getD ib 0 = -(i.g.getD ib 0) ∧ i.g.getD ib 0 ≠ 0)
    (hge : ∀ v, t.getD ib none = some v → s.tOld ≤ v ∨ s.found = true) :
    (PathInv i t d0 (cauchyStep i t f2org s ib) P ∨
     PathInv i t d0 (cauchyStep i t f2org s ib) (ib :: P)) ∧
    ((cauchyStep i t f2org s ib).found = true ∨
      ∃ v, t.getD ib none = some v ∧ (cauchyStep i t f2org s ib).tOld = v) := by
  unfold cauchyStep
  split
  · rename_i hf; exact ⟨Or.inl hi, Or.inl hf⟩
  · rename_i hnf
    split
    · exact ⟨Or.inl ⟨hi.len_x, hi.len_d, hi.tOld_nonneg, hi.pinned, hi.free⟩, Or.inl rfl⟩
    · rename_i tcur htc
      have htcur : 0 < tcur := by rw [htc] at hpos; simpa [bpPos] using hpos
      dsimp only
      split
      · exact ⟨Or.inl ⟨hi.len_x, hi.len_d, hi.tOld_nonneg, hi.pinned, hi.free⟩, Or.inl rfl⟩
      · refine ⟨Or.inr ?_, Or.inr ⟨tcur, htc, rfl⟩⟩
        obtain ⟨hdd, hgne⟩ := hd0 tcur htc
        have hle : s.tOld ≤ tcur := by
          rcases hge tcur htc with h | h
          · exact h
          · exact absurd h hnf
        obtain ⟨hfx, hfd⟩ := hi.free ib hib hnp
        have hdb : s.d.getD ib 0 = -(i.g.getD ib 0) := by rw [hfd, hdd]
        refine ⟨by simp [hi.len_x], by simp [hi.len_d], le_of_lt htcur, ?_, ?_⟩
        · intro j hj
          rcases List.mem_cons.1 hj with rfl | hj
          · refine ⟨hib, tcur, htc, htcur, le_refl _, ?_, ?_⟩
            · rw [getD_set, if_pos ⟨rfl, by rw [hi.len_d]; exact hib⟩]
            · rw [getD_set, if_pos ⟨rfl, by rw [hi.len_x]; exact hib⟩, hdb]
              unfold headBound
              by_cases hg : i.g.getD j 0 < 0
              · rw [if_pos (by linarith), if_pos hg]
              · have hgp : 0 < i.g.getD j 0 := lt_of_le_of_ne (not_lt.1 hg) (Ne.symm hgne)
                rw [if_neg (by linarith), if_pos (by linarith), if_neg hg]
          · obtain ⟨hjn, v, hv, hv0, hvt, hdj, hxj⟩ := hi.pinned j hj
            have hne : ib ≠ j := fun h => hnp (h ▸ hj)
            refine ⟨hjn, v, hv, hv0, le_trans hvt hle, ?_, ?_⟩
            · rw [getD_set, if_neg (fun h => hne h.1)]; exact hdj
            · rw [getD_set, if_neg (fun h => hne h.1)]; exact hxj
        · intro j hj hjn
          have hne : ib ≠ j := fun h => hjn (h ▸ List.mem_cons_self ..)
          have hjP : j ∉ P := fun h => hjn (List.mem_cons_of_mem _ h)
          obtain ⟨h1, h2⟩ := hi.free j hj hjP
          constructor
          · rw [getD_set, if_neg (fun h => hne h.1)]; exact h1
          · rw [getD_set, if_neg (fun h => hne h.1)]; exact h2

/-- the whole loop -/
theorem fold_inv (i : CauchyIn K) (t : List (Option K)) (d0 : Vec K) (f2org : K) :
    ∀ (rest : List Nat) (s : CauchySt K) (P : List Nat), PathInv i t d0 s P →
      (∀ ib ∈ rest, ib < i.x.length ∧ ib ∉ P ∧ bpPos (t.getD ib none) = true ∧
        ∀ v, t.getD ib none = some v → d0.getD ib 0 = -(i.g.getD ib 0) ∧ i.g.getD ib 0 ≠ 0) →
      rest.Nodup → rest.Pairwise (fun a b => bpLe (t.getD a none) (t.getD b none) = true) →
      (s.found = true ∨ ∀ k ∈ rest, ∀ v, t.getD k none = some v → s.tOld ≤ v) →
      ∃ P', PathInv i t d0 (rest.foldl (cauchyStep i t f2org) s) P' := by
  intro rest
  induction rest with
  | nil => intro s P hi _ _ _ _; exact ⟨P, hi⟩
  | cons ib tl ih =>
    intro s P hi hall hnd hsort hq
    simp only [List.foldl_cons]
    obtain ⟨hib, hnp, hpos, hd0⟩ := hall ib (List.mem_cons_self ..)
    have hge : ∀ v, t.getD ib none = some v → s.tOld ≤ v ∨ s.found = true := by
      intro v hv
      rcases hq with h | h
      · exact Or.inr h
      · exact Or.inl (h ib (List.mem_cons_self ..) v hv)
    obtain ⟨hinv, hnext⟩ := cauchyStep_inv i t d0 f2org s P ib hi hib hnp hpos hd0 hge
    have hnd' := (List.nodup_cons.1 hnd)
    have hsort' := List.pairwise_cons.1 hsort
    -- the condition on the upcoming breakpoints
    have hq' : (cauchyStep i t f2org s ib).found = true ∨
        ∀ k ∈ tl, ∀ v, t.getD k none = some v → (cauchyStep i t f2org s ib).tOld ≤ v := by
      rcases hnext with h | ⟨v0, hv0, ht0⟩
      · exact Or.inl h
      · right
        intro k hk v hv
        have := hsort'.1 k hk
        rw [hv0, hv] at this
        rw [ht0]
        simpa [bpLe] using this
    rcases hinv with h | h
    · refine ih _ P h (fun k hk => ?_) hnd'.2 hsort'.2 hq'
      exact hall k (List.mem_cons_of_mem _ hk)
    · refine ih _ (ib :: P) h (fun k hk => ?_) hnd'.2 hsort'.2 hq'
      obtain ⟨a, b, c, d⟩ := hall k (List.mem_cons_of_mem _ hk)
      refine ⟨a, ?_, c, d⟩
      intro hmem
      rcases List.mem_cons.1 hmem with rfl | hmem
      · exact hnd'.1 hk
      · exact b hmem

/-- `lb ≤ p ≤ ub` read coordinate-wise -/
theorem inBoxF_getD {lb ub p : Vec K} (h : InBoxF lb ub p) (j : Nat) (hj : j < p.length) :
    lb.getD j 0 ≤ p.getD j 0 ∧ p.getD j 0 ≤ ub.getD j 0 := by
  induction lb generalizing ub p j with
  | nil => cases ub <;> cases p <;> simp_all [InBoxF]
  | cons l ls ih =>
    cases ub with
    | nil => simp [InBoxF] at h
    | cons u us =>
      cases p with
      | nil => simp at hj
      | cons q qs =>
        simp only [InBoxF] at h
        cases j with
        | zero => simpa using h.1
        | succ j' => simpa using ih h.2 j' (by simpa using hj)

theorem inBoxF_lengths {lb ub p : Vec K} (h : InBoxF lb ub p) : lb.length = p.length ∧ ub.length = p.length := by
  induction lb generalizing ub p with
  | nil => cases ub <;> cases p <;> simp_all [InBoxF]
  | cons l ls ih =>
    cases ub with
    | nil => simp [InBoxF] at h
    | cons u us =>
      cases p with
      | nil => simp [InBoxF] at h
      | cons q qs =>
        simp only [InBoxF] at h
        obtain ⟨h1, h2⟩ := ih h.2
        simp [h1, h2]

/-- the coordinate-wise heart of the path property -/
theorem path_coord (x g l u tF : K) (hl : l ≤ x) (hu : x ≤ u) (htF : 0 ≤ tF) (xcp d : K)
    (h : (∃ v, C01.bp1 x g l u = some v ∧ 0 < v ∧ v ≤ tF ∧ d = 0 ∧ xcp = (if g < 0 then u else l)) ∨
         (xcp = x ∧ d = C01.d01 (C01.bp1 x g l u) g)) :
    clip1 l u (xcp + tF * d) = clip1 l u (x - tF * g) := by
  have hlu : l ≤ u := le_trans hl hu
  rcases h with ⟨v, hv, hv0, hvt, hd, hx⟩ | ⟨hx, hd⟩
  · subst hd hx
    unfold C01.bp1 at hv
    by_cases hg0 : g = 0
    · rw [if_pos ((C01.feq_zero_iff g).2 hg0)] at hv; cases hv
    · rw [if_neg (fun h => hg0 ((C01.feq_zero_iff g).1 h))] at hv
      by_cases hg : g < 0
      · rw [if_pos hg] at hv
        simp only [Option.some.injEq] at hv
        rw [if_pos hg, mul_zero, add_zero]
        have h1 : u ≤ x - tF * g := by
          have : tF * g ≤ v * g := mul_le_mul_of_nonpos_right hvt (le_of_lt hg)
          have hvg : v * g = x - u := by rw [← hv]; field_simp
          linarith
        unfold clip1
        rw [if_neg (not_lt.2 hlu), if_neg (lt_irrefl u), if_neg (not_lt.2 (le_trans hlu h1))]
        split
        · rfl
        · exact le_antisymm h1 (not_lt.1 ‹_›)
      · rw [if_neg hg] at hv
        simp only [Option.some.injEq] at hv
        have hgp : 0 < g := lt_of_le_of_ne (not_lt.1 hg) (Ne.symm hg0)
        rw [if_neg hg, mul_zero, add_zero]
        have h1 : x - tF * g ≤ l := by
          have : v * g ≤ tF * g := mul_le_mul_of_nonneg_right hvt (le_of_lt hgp)
          have hvg : v * g = x - l := by rw [← hv]; field_simp
          linarith
        unfold clip1
        rw [if_neg (lt_irrefl l)]
        rw [if_neg (not_lt.2 hlu)]
        split
        · rfl
        · rename_i hnl
          have : x - tF * g = l := le_antisymm h1 (not_lt.1 hnl)
          rw [this, if_neg (not_lt.2 hlu)]
  · rw [hx, hd]
    unfold C01.bp1
    by_cases hg0 : g = 0
    · subst hg0
      rw [if_pos ((C01.feq_zero_iff (0 : K)).2 rfl)]
      simp [C01.d01]
    · rw [if_neg (fun h => hg0 ((C01.feq_zero_iff g).1 h))]
      by_cases hg : g < 0
      · rw [if_pos hg]
        simp only [C01.d01]
        by_cases hz : (x - u) / g = 0
        · rw [if_pos ((C01.feq_zero_iff _).2 hz), mul_zero, add_zero]
          have hxu : x = u := by
            rcases div_eq_zero_iff.1 hz with h' | h'
            · linarith
            · exact absurd h' hg0
          have h1 : u ≤ x - tF * g := by
            have : tF * g ≤ 0 := mul_nonpos_of_nonneg_of_nonpos htF (le_of_lt hg)
            linarith
          rw [hxu] at h1 ⊢
          unfold clip1
          rw [if_neg (not_lt.2 hlu), if_neg (lt_irrefl u), if_neg (not_lt.2 (le_trans hlu h1))]
          split
          · rfl
          · exact le_antisymm h1 (not_lt.1 ‹_›)
        · rw [if_neg (fun h => hz ((C01.feq_zero_iff _).1 h))]
          congr 1; ring
      · rw [if_neg hg]
        have hgp : 0 < g := lt_of_le_of_ne (not_lt.1 hg) (Ne.symm hg0)
        simp only [C01.d01]
        by_cases hz : (x - l) / g = 0
        · rw [if_pos ((C01.feq_zero_iff _).2 hz), mul_zero, add_zero]
          have hxl : x = l := by
            rcases div_eq_zero_iff.1 hz with h' | h'
            · linarith
            · exact absurd h' hg0
          have h1 : x - tF * g ≤ l := by
            have : 0 ≤ tF * g := mul_nonneg htF (le_of_lt hgp)
            linarith
          rw [hxl] at h1 ⊢
          unfold clip1
          rw [if_neg (lt_irrefl l), if_neg (not_lt.2 hlu)]
          split
          · rfl
          · rename_i hnl
            have : l - tF * g = l := le_antisymm h1 (not_lt.1 hnl)
            rw [this, if_neg (not_lt.2 hlu)]
        · rw [if_neg (fun h => hz ((C01.feq_zero_iff _).1 h))]
          congr 1; ring

/-- the tail of `cauchy` (loop, final step, projection) started from any state at `x` with the
initial direction -/
theorem loop_on_path (i : CauchyIn K) (hx : InBoxF i.lb i.ub i.x) (hg : i.g.length = i.x.length)
    (s0 : CauchySt K) (f2org : K) (h1 : s0.xcp = i.x)
    (h2 : s0.d = cauchyD0 (breakpoints i.x i.g i.lb i.ub) i.g) (h3 : s0.tOld = 0) (h4 : s0.found = false) :
    let s := (bpOrder (breakpoints i.x i.g i.lb i.ub)).foldl (cauchyStep i (breakpoints i.x i.g i.lb i.ub) f2org) s0
    let dtm := if s.dtm < 0 then 0 else s.dtm
    let dtm := if s.d.all (fun a => feq a 0) then 0 else dtm
    ∃ tF, 0 ≤ tF ∧ clip (vadd s.xcp (smul (s.tOld + dtm) s.d)) i.lb i.ub = clip (vsub i.x (smul tF i.g)) i.lb i.ub := by
  obtain ⟨hll, hul⟩ := inBoxF_lengths hx
  have hbt : (breakpoints i.x i.g i.lb i.ub).length = i.x.length :=
    C08.breakpoints_length _ _ _ _ hg hll hul
  have hd0l : (cauchyD0 (breakpoints i.x i.g i.lb i.ub) i.g).length = i.x.length := by
    rw [C08.cauchyD0_length _ _ (by rw [hbt, hg]), hg]
  set t := breakpoints i.x i.g i.lb i.ub with ht
  set d0 := cauchyD0 t i.g with hd0
  -- the final comparison, for any state satisfying the invariant and any total step
  have final : ∀ (s : CauchySt K) (P : List Nat) (tF : K), PathInv i t d0 s P → s.tOld ≤ tF →
      clip (vadd s.xcp (smul tF s.d)) i.lb i.ub = clip (vsub i.x (smul tF i.g)) i.lb i.ub := by
    intro s P tF hi hle
    have htF : 0 ≤ tF := le_trans hi.tOld_nonneg hle
    have l1 : (vadd s.xcp (smul tF s.d)).length = i.x.length := by
      simp only [vadd, smul, vzip_length', List.length_map, hi.len_x, hi.len_d, Nat.min_self]
    have l2 : (vsub i.x (smul tF i.g)).length = i.x.length := by
      simp only [vsub, smul, vzip_length', List.length_map, hg, Nat.min_self]
    apply ext_getD (0 : K)
    · rw [clip_length, clip_length, l1, l2]
    · intro j hj
      rw [clip_length, l1] at hj
      rw [getD_clip _ _ _ _ j (by rw [l1]; exact hj) (by rw [l1]; exact hll) (by rw [l1]; exact hul),
          getD_clip _ _ _ _ j (by rw [l2]; exact hj) (by rw [l2]; exact hll) (by rw [l2]; exact hul)]
      simp only [vadd, vsub, smul]
      rw [getD_vzip _ _ _ _ j (by rw [hi.len_x]; exact hj) (by simp [hi.len_d, hj]),
          getD_vzip _ _ _ _ j hj (by simp [hg, hj]),
          getD_map _ _ _ j (by rw [hi.len_d]; exact hj), getD_map _ _ _ j (by rw [hg]; exact hj)]
      obtain ⟨hlj, huj⟩ := inBoxF_getD hx j hj
      apply path_coord _ _ _ _ tF hlj huj htF
      by_cases hjP : j ∈ P
      · left
        obtain ⟨-, v, hv, hv0, hvt, hdj, hxj⟩ := hi.pinned j hjP
        refine ⟨v, ?_, hv0, le_trans hvt hle, hdj, ?_⟩
        · rw [← getD_breakpoints _ _ _ _ j hj hg hll hul]; exact hv
        · rw [hxj]; rfl
      · right
        obtain ⟨h1', h2'⟩ := hi.free j hj hjP
        refine ⟨h1', ?_⟩
        rw [h2', hd0, getD_cauchyD0 _ _ j (by rw [hg]; exact hj) (by rw [hbt, hg]),
          getD_breakpoints _ _ _ _ j hj hg hll hul]
  have h0 : PathInv i t d0 s0 [] :=
    ⟨by rw [h1], by rw [h2]; exact hd0l, by rw [h3], by simp, fun j _ _ => ⟨by rw [h1], by rw [h2]⟩⟩
  have hall : ∀ ib ∈ bpOrder t, ib < i.x.length ∧ ib ∉ ([] : List Nat) ∧ bpPos (t.getD ib none) = true ∧
      ∀ v, t.getD ib none = some v → d0.getD ib 0 = -(i.g.getD ib 0) ∧ i.g.getD ib 0 ≠ 0 := by
    intro ib hib
    obtain ⟨hb1, hb2⟩ := (C08.order_positive t ib).1 hib
    rw [hbt] at hb1
    refine ⟨hb1, by simp, hb2, ?_⟩
    intro v hv
    have hb := getD_breakpoints i.x i.g i.lb i.ub ib hb1 hg hll hul
    rw [← ht, hv] at hb
    have hvpos : 0 < v := by rw [hv] at hb2; simpa [bpPos] using hb2
    have hgne : i.g.getD ib 0 ≠ 0 := by
      intro h0'
      unfold C01.bp1 at hb
      rw [if_pos ((C01.feq_zero_iff _).2 h0')] at hb
      cases hb
    refine ⟨?_, hgne⟩
    rw [hd0, getD_cauchyD0 _ _ ib (by rw [hg]; exact hb1) (by rw [hbt, hg]), hv]
    simp only [C01.d01]
    rw [if_neg (fun h => (ne_of_gt hvpos) ((C01.feq_zero_iff v).1 h))]
  have hq : (s0.found = true) ∨ ∀ k ∈ bpOrder t, ∀ v, t.getD k none = some v → s0.tOld ≤ v := by
    right
    intro k hk v hv
    have := ((C08.order_positive t k).1 hk).2
    rw [hv] at this
    rw [h3]
    exact le_of_lt (by simpa [bpPos] using this)
  obtain ⟨P', hP'⟩ := fold_inv i t d0 f2org (bpOrder t) s0 [] h0 hall (C08.order_nodup t) (C08.order_sorted t) hq
  intro s dtm dtm'
  have hdn : 0 ≤ dtm' := by
    simp only [dtm', dtm]
    split
    · exact le_refl _
    · split
      · exact le_refl _
      · exact not_lt.1 ‹_›
  exact ⟨s.tOld + dtm', add_nonneg hP'.tOld_nonneg hdn, final s P' _ hP' (le_add_of_nonneg_right hdn)⟩

/-- **the generalized Cauchy point is a point of the projected path** -/
theorem cauchy_on_path (i : CauchyIn K) (hx : InBoxF i.lb i.ub i.x) (hg : i.g.length = i.x.length) :
    ∃ tF, 0 ≤ tF ∧ (cauchy i).1 = clip (vsub i.x (smul tF i.g)) i.lb i.ub := by
  obtain ⟨hll, hul⟩ := inBoxF_lengths hx
  unfold cauchy
  dsimp only
  split
  · -- no positive breakpoint: the point is x itself = P(x − 0·g)
    refine ⟨0, le_refl _, ?_⟩
    have : vsub i.x (smul 0 i.g) = i.x := by
      apply ext_getD (0 : K)
      · simp only [vsub, smul, vzip_length', List.length_map, hg, Nat.min_self]
      · intro j hj
        have hj' : j < i.x.length := by
          simpa only [vsub, smul, vzip_length', List.length_map, hg, Nat.min_self] using hj
        simp only [vsub, smul]
        rw [getD_vzip _ _ _ _ j hj' (by simp [hg, hj']), getD_map _ _ _ j (by rw [hg]; exact hj')]
        ring
    rw [this]
    exact (clip_of_inBox (C11.inBox_of_inBoxF hx)).symm
  · exact loop_on_path i hx hg _ _ rfl rfl rfl rfl

end Lbfgsb
