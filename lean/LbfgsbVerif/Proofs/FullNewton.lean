/-
  When no bound interferes the subspace step of the model is the full (quasi-)Newton step:
    * `alphaStar_eq_one`: the truncation factor α* is 1 when `x_cp + d` is feasible;
    * `freeMask_strict`: every variable strictly inside its bounds at `x_cp` is free;
    * `full_step_of_spec`: from the specification `SubSpec` of `subspaceMin`, with every variable free and
      `x_cp + d̂` feasible: `subspaceMin = x_cp + d̂` and `B (x̄ − x) = −g`.
-/
import LbfgsbVerif.Proofs.SubspaceBridge
import LbfgsbVerif.Proofs.GaussBridge

set_option linter.unusedSectionVars false

namespace Lbfgsb.FullNewton
open Lbfgsb Matrix Lbfgsb.C11
variable {K : Type} [Field K] [LinearOrder K] [IsStrictOrderedRing K]

theorem foldl_fmin_of_le (l : List K) (a : K) (hl : ∀ t ∈ l, a ≤ t) : l.foldl fmin a = a := by
  induction l with
  | nil => rfl
  | cons t ts ih =>
    simp only [List.foldl_cons]
    have h1 : fmin a t = a := by
      unfold fmin
      rw [if_neg (not_lt.2 (hl t (List.mem_cons_self ..)))]
    rw [h1]
    exact ih (fun u hu => hl u (List.mem_cons_of_mem _ hu))

theorem vadd_cons (x d : K) (xs ds : Vec K) : vadd (x :: xs) (d :: ds) = (x + d) :: vadd xs ds := rfl

/-- every candidate step is at least 1 when `x_cp + d` is feasible -/
theorem alphaStar_cand_ge_one (xc d lb ub : Vec K) (mask : List Bool) (hd : d.length = xc.length)
    (hf : InBoxF lb ub (vadd xc d)) :
    ∀ t ∈ alphaStar.cand xc d lb ub mask, 1 ≤ t := by
  induction xc generalizing d lb ub mask with
  | nil => intro t ht; cases d <;> cases lb <;> cases ub <;> cases mask <;> simp [alphaStar.cand] at ht
  | cons xi xs ih =>
    intro t ht
    cases d with
    | nil => simp [alphaStar.cand] at ht
    | cons di ds =>
      cases lb with
      | nil => simp [alphaStar.cand] at ht
      | cons li ls =>
        cases ub with
        | nil => simp [alphaStar.cand] at ht
        | cons ui us =>
          cases mask with
          | nil => simp [alphaStar.cand] at ht
          | cons m ms =>
            rw [vadd_cons] at hf
            simp only [InBoxF] at hf
            obtain ⟨⟨hl, hu⟩, hrest⟩ := hf
            have hds : ds.length = xs.length := by simpa using hd
            simp only [alphaStar.cand] at ht
            split at ht
            · exact ih ds ls us ms hds hrest t ht
            · rename_i hcond
              rcases List.mem_cons.1 ht with rfl | ht
              · split
                · rename_i hpos
                  rw [le_div_iff₀ hpos]; linarith
                · rename_i hnpos
                  have hne : di ≠ 0 := by
                    cases hm : m <;> simp [hm] at hcond ⊢
                    exact hcond
                  have hneg : di < 0 := lt_of_le_of_ne (not_lt.1 hnpos) hne
                  rw [le_div_iff_of_neg hneg]; linarith
              · exact ih ds ls us ms hds hrest t ht

/-- **α\* = 1** when the full step is feasible -/
theorem alphaStar_eq_one (xc d lb ub : Vec K) (mask : List Bool) (hd : d.length = xc.length)
    (hf : InBoxF lb ub (vadd xc d)) : alphaStar xc d lb ub mask = 1 := by
  unfold alphaStar
  exact foldl_fmin_of_le _ 1 (alphaStar_cand_ge_one xc d lb ub mask hd hf)

/-- strictly inside the box, component-wise -/
def StrictIn : Vec K → Vec K → Vec K → Prop
  | [], [], [] => True
  | l :: ls, u :: us, p :: ps => (l < p ∧ p < u) ∧ StrictIn ls us ps
  | _, _, _ => False

theorem freeMask_strict (xc lb ub : Vec K) (h : StrictIn lb ub xc) :
    freeMask xc lb ub = List.replicate xc.length true := by
  induction xc generalizing lb ub with
  | nil => cases lb <;> cases ub <;> simp [freeMask]
  | cons a as ih =>
    cases lb with
    | nil => cases ub <;> simp [StrictIn] at h
    | cons l ls =>
      cases ub with
      | nil => simp [StrictIn] at h
      | cons u us =>
        simp only [StrictIn] at h
        obtain ⟨⟨h1, h2⟩, hr⟩ := h
        simp only [freeMask, List.length_cons, List.replicate_succ]
        rw [ih ls us hr]
        congr 1
        unfold isFree feq
        simp [h1, h2, not_lt.2 (le_of_lt h1), not_lt.2 (le_of_lt h2)]

theorem inBoxF_of_strict {lb ub p : Vec K} (h : StrictIn lb ub p) : InBoxF lb ub p := by
  induction p generalizing lb ub with
  | nil => cases lb <;> cases ub <;> simp [StrictIn] at h ⊢ <;> trivial
  | cons a as ih =>
    cases lb with
    | nil => cases ub <;> simp [StrictIn] at h
    | cons l ls =>
      cases ub with
      | nil => simp [StrictIn] at h
      | cons u us =>
        simp only [StrictIn] at h
        simp only [InBoxF]
        exact ⟨⟨le_of_lt h.1.1, le_of_lt h.1.2⟩, ih h.2⟩

theorem smul_one' (d : Vec K) : smul 1 d = d := by
  unfold smul
  induction d with
  | nil => rfl
  | cons a as ih => simp [ih]

theorem inBoxF_of_pointwise (n : Nat) (lb ub p : Vec K) (hl : lb.length = n) (hu : ub.length = n) (hp : p.length = n)
    (h : ∀ j, j < n → lb.getD j 0 ≤ p.getD j 0 ∧ p.getD j 0 ≤ ub.getD j 0) : InBoxF lb ub p := by
  induction n generalizing lb ub p with
  | zero =>
    rw [List.length_eq_zero_iff] at hl hu hp
    subst hl hu hp
    trivial
  | succ n ih =>
    cases lb with
    | nil => simp at hl
    | cons l ls =>
      cases ub with
      | nil => simp at hu
      | cons u us =>
        cases p with
        | nil => simp at hp
        | cons a as =>
          simp only [InBoxF]
          refine ⟨by simpa using h 0 (Nat.succ_pos n), ?_⟩
          apply ih ls us as (by simpa using hl) (by simpa using hu) (by simpa using hp)
          intro j hj
          simpa using h (j + 1) (Nat.succ_lt_succ hj)

/-- **the full step** from the specification of the model: all variables free at `x_cp`, `x_cp + d̂` feasible -/
theorem full_step_of_spec (i : SubIn K) (n k : Nat) (Mm : Matrix (Fin k) (Fin k) K) (h : SubSpec i n k Mm)
    (hn : 0 < n) (hx : i.x.length = n) (hxc : i.xc.length = n) (hint : StrictIn i.lb i.ub i.xc)
    (hfeas : InBoxF i.lb i.ub (vadd i.xc (subD i))) :
    subspaceMin i = vadd i.xc (subD i) ∧
      bmat i.theta (wmat n k i.W) Mm *ᵥ (vec n (subspaceMin i) - vec n i.x) = -vec n i.g := by
  obtain ⟨-, hnewt, hDl, -⟩ := h
  have hmask : subMask i = List.replicate n true := by
    unfold subMask; rw [freeMask_strict _ _ _ hint, hxc]
  have he : subspaceMin i = vadd i.xc (subD i) := by
    rw [subspaceMin_eq, hmask]
    have hany : (List.replicate n true).any id = true := by
      cases n with
      | zero => omega
      | succ m => simp [List.replicate_succ]
    rw [hany]
    simp only [Bool.not_true, Bool.false_eq_true, if_false]
    rw [← hmask, alphaStar_eq_one _ _ _ _ _ (by rw [hDl, hxc]) hfeas, smul_one']
    exact clip_of_inBox (inBox_of_inBoxF hfeas)
  refine ⟨he, ?_⟩
  rw [he, vec_vadd n _ _ hxc hDl]
  funext r
  have hr : maskF n (subMask i) r = true := by
    unfold maskF; rw [hmask]
    simp [List.getD_eq_getElem?_getD, r.2]
  have := hnewt r hr
  simp only [Pi.add_apply, Pi.neg_apply] at this ⊢
  have e : vec n i.xc + vec n (subD i) - vec n i.x = vec n i.xc - vec n i.x + vec n (subD i) := by abel
  rw [e]
  linarith

end Lbfgsb.FullNewton
