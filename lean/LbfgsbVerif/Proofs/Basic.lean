/-
  Helper lemmas about `Model/Basic.lean` over an arbitrary linear order
  (level U: nothing is assumed about arithmetic).
-/
import LbfgsbVerif.Model.Basic
import Mathlib.Order.Defs.LinearOrder

namespace Lbfgsb
variable {α : Type} [LinearOrder α]

@[simp] theorem feq_iff (a b : α) : feq a b = true ↔ a = b := by
  unfold feq
  simp only [Bool.and_eq_true, Bool.not_eq_true', decide_eq_false_iff_not]
  constructor
  · rintro ⟨h1, h2⟩; exact le_antisymm (le_of_not_gt h2) (le_of_not_gt h1)
  · rintro rfl; exact ⟨lt_irrefl _, lt_irrefl _⟩

@[simp] theorem veq_iff (a b : Vec α) : veq a b = true ↔ a = b := by
  induction a generalizing b with
  | nil => cases b <;> simp [veq]
  | cons x xs ih => cases b <;> simp [veq, ih]

theorem veq_refl (a : Vec α) : veq a a = true := (veq_iff a a).2 rfl

theorem clip1_ge {lo hi : α} (h : ¬ hi < lo) (x : α) : ¬ clip1 lo hi x < lo := by
  unfold clip1
  split
  · exact lt_irrefl _
  · split
    · exact h
    · assumption

theorem clip1_le {lo hi : α} (h : ¬ hi < lo) (x : α) : ¬ hi < clip1 lo hi x := by
  unfold clip1
  split
  · exact h
  · split
    · exact lt_irrefl _
    · assumption

/-- a degenerate side `lo = hi` pins the component -/
theorem clip1_eq_of_eq (lo x : α) : clip1 lo lo x = lo := by
  unfold clip1
  split
  · rfl
  · split
    · rfl
    · rename_i h1 h2
      exact le_antisymm (le_of_not_gt h2) (le_of_not_gt h1)

/-- clipping a point that is already inside changes nothing -/
theorem clip1_of_mem {lo hi x : α} (h1 : ¬ x < lo) (h2 : ¬ hi < x) : clip1 lo hi x = x := by
  unfold clip1; simp [h1, h2]

theorem clip_length (x lb ub : Vec α) : (clip x lb ub).length = x.length := by
  induction x generalizing lb ub with
  | nil => simp [clip]
  | cons a as ih =>
    cases lb with
    | nil => simp [clip]
    | cons l ls => cases ub with
      | nil => simp [clip]
      | cons u us => simp [clip, ih]

/-- the key U-level fact: whatever `x` is (rounding included), `clip x lb ub` is in the box. -/
theorem clip_inBox {lb ub : Vec α} (hb : BoxOk lb ub) (x : Vec α) (hx : x.length = lb.length) :
    InBox lb ub (clip x lb ub) := by
  induction x generalizing lb ub with
  | nil =>
    cases lb with
    | nil => cases ub <;> simp_all [BoxOk, InBox, clip]
    | cons l ls => simp at hx
  | cons a as ih =>
    cases lb with
    | nil => simp at hx
    | cons l ls =>
      cases ub with
      | nil => simp [BoxOk] at hb
      | cons u us =>
        simp only [BoxOk] at hb
        simp only [clip, InBox]
        refine ⟨⟨clip1_ge hb.1 a, clip1_le hb.1 a⟩, ih hb.2 ?_⟩
        simpa using hx

theorem inBox_length {lb ub p : Vec α} (h : InBox lb ub p) : p.length = lb.length ∧ ub.length = lb.length := by
  induction p generalizing lb ub with
  | nil => cases lb <;> cases ub <;> simp_all [InBox]
  | cons a as ih =>
    cases lb with
    | nil => cases ub <;> simp_all [InBox]
    | cons l ls =>
      cases ub with
      | nil => simp_all [InBox]
      | cons u us =>
        simp only [InBox] at h
        have := ih h.2
        simp [this.1, this.2]

theorem clip_of_inBox {lb ub p : Vec α} (h : InBox lb ub p) : clip p lb ub = p := by
  induction p generalizing lb ub with
  | nil => simp [clip]
  | cons a as ih =>
    cases lb with
    | nil => simp [clip]
    | cons l ls =>
      cases ub with
      | nil => simp [clip]
      | cons u us =>
        simp only [InBox] at h
        simp [clip, clip1_of_mem h.1.1 h.1.2, ih h.2]

end Lbfgsb

namespace Lbfgsb
theorem vzip_length' {α : Type} (f : α → α → α) (a b : Vec α) :
    (vzip f a b).length = min a.length b.length := by
  induction a generalizing b with
  | nil => simp [vzip]
  | cons x xs ih =>
    cases b with
    | nil => simp [vzip]
    | cons y ys => simp [vzip, ih, Nat.succ_min_succ]
end Lbfgsb
