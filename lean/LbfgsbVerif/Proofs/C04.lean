/-
  Invariants of the shell used by the C04 theorems (termination report, budgets).
  Level U.
-/
import LbfgsbVerif.Proofs.Shell

namespace Lbfgsb
variable {α ε δ : Type}
variable [LinearOrder α] [Add α] [Sub α] [Mul α] [Div α] [Neg α] [OfNat α 0] [OfNat α 1]
  [FloatLike α]

omit [Add α] [Sub α] [Mul α] [Div α] [Neg α] [FloatLike α] in
theorem new_coh' (u : SFUser α ε) (mode : GradMode) (x0 lb ub : Vec α) :
    Coh u (SF.new mode x0 lb ub) := by
  simp [Coh, SF.new]

/-- log entries that are not evaluations of the stop thresholds -/
def NotThresh (c : Call α) : Prop := c.kind ≠ .ftarget ∧ c.kind ≠ .gtol

/-- the only callables the loop invokes: objective, gradient, update function, callback -/
def LoopCall (c : Call α) : Prop :=
  c.kind = .F ∨ c.kind = .G ∨ c.kind = .update ∨ c.kind = .callback

omit [LinearOrder α] [Add α] [Sub α] [Mul α] [Div α] [Neg α] [OfNat α 0] [OfNat α 1]
  [FloatLike α] in
theorem LoopCall.notThresh {c : Call α} (h : LoopCall c) : NotThresh c := by
  rcases h with h | h | h | h <;> simp [NotThresh, h]

/-- what never changes once the loop has started -/
structure SameEnv (s s' : St α) : Prop where
  gtol : s'.gtol = s.gtol
  ftarget : s'.ftarget = s.ftarget
  scale : s'.sf.scale = s.sf.scale
  mode : s'.sf.mode = s.sf.mode

theorem SameEnv.rfl' (s : St α) : SameEnv s s := ⟨rfl, rfl, rfl, rfl⟩

theorem SameEnv.trans {s1 s2 s3 : St α} (a : SameEnv s1 s2) (b : SameEnv s2 s3) : SameEnv s1 s3 :=
  ⟨by rw [b.gtol, a.gtol], by rw [b.ftarget, a.ftarget], by rw [b.scale, a.scale],
   by rw [b.mode, a.mode]⟩

/-- state invariant behind the truthfulness of the report -/
structure Inv4 (u : User α ε) (s : St α) : Prop where
  coh : Coh u.toSFUser s.sf
  succ_task : s.success = true → s.task = .target ∨ s.task = .ftol ∨ s.task = .userCallback
  task_succ : s.task = .target ∨ s.task = .ftol ∨ s.task = .userCallback → s.success = true
  target_true : s.task = .target → targetReached (s.f / s.sf.scale) s.ftarget = true
  cb_true : s.task = .userCallback → ∃ cb ∈ s.cbStates, u.callback cb = .ok true
  abn : s.task = .abnormal → s.success = false

/-- what one pass of the loop body guarantees -/
structure Pass (u : User α ε) (c : Cfg α) (s s' : St α) (flow : Flow) : Prop where
  inv : Inv4 u s'
  env : SameEnv s s'
  nit_next : flow = .next → s'.nit = s.nit + 1
  nit_brk : flow = .brk → s'.nit = s.nit ∧
    (s'.task = .abnormal ∨ s'.task = .target ∨ s'.task = .ftol)
  nfev_ge : s.sf.nfev ≤ s'.sf.nfev
  nfev_le : s.sf.mode = .callable →
    s'.sf.nfev ≤ s.sf.nfev + min c.maxls (c.maxfun - s.sf.nfev) + 1
  log : LogExt LoopCall s.sf.log s'.sf.log

omit [LinearOrder α] [Add α] [Sub α] [Mul α] [Div α] [Neg α] [OfNat α 0] [OfNat α 1]
  [FloatLike α] in
theorem evalAt_loopCall {u : SFUser α ε} {m : GradMode} {x : Vec α} {c : Call α}
    (h : EvalAt u m x c) : LoopCall c := by
  rcases h.1 with h | h <;> simp [LoopCall, h]

omit [LinearOrder α] [Add α] [Sub α] [Mul α] [Div α] [Neg α] [OfNat α 0] [OfNat α 1]
  [FloatLike α] in
theorem evalAt_notThresh {u : SFUser α ε} {m : GradMode} {x : Vec α} {c : Call α}
    (h : EvalAt u m x c) : NotThresh c := (evalAt_loopCall h).notThresh

omit [Div α] [Neg α] [OfNat α 1] [FloatLike α] in
theorem lsCall_loopCall {u : User α ε} {m : GradMode} {x0 d lb ub : Vec α} {c : Call α}
    (h : LSCall u m x0 d lb ub c) : LoopCall c := by
  obtain ⟨_, h⟩ := h
  exact evalAt_loopCall h

theorem iterFail_pass (u : User α ε) (c : Cfg α) (s s' : St α) (flow : Flow)
    (hi : Inv4 u s) (hs : s.success = false) (h : iterFail s = (s', flow)) :
    Pass u c s s' flow := by
  unfold iterFail at h
  split at h
  · injection h with h1 h2
    subst h1; subst h2
    refine ⟨⟨hi.coh, by simp, by simp, by simp, by simp, by simp⟩, ⟨rfl, rfl, rfl, rfl⟩,
      by simp, fun _ => ⟨rfl, Or.inl rfl⟩, Nat.le_refl _, fun _ => by simp; omega, LogExt.refl _⟩
  · injection h with h1 h2
    subst h1; subst h2
    refine ⟨⟨hi.coh, by simp [hs], by simp, by simp, by simp, by simp⟩, ⟨rfl, rfl, rfl, rfl⟩,
      fun _ => rfl, by simp, Nat.le_refl _, fun _ => by simp; omega, LogExt.refl _⟩

omit [Add α] [Mul α] [FloatLike α] in
theorem stopTests_spec {c : Cfg α} {s s' : St α} {f0Old : α} {stop : Bool}
    (h : stopTests c s f0Old = (s', stop)) :
    s'.sf = s.sf ∧ s'.nit = s.nit ∧ s'.gtol = s.gtol ∧ s'.ftarget = s.ftarget ∧ s'.f = s.f ∧
    s'.cbStates = s.cbStates ∧
    (stop = false → s' = s) ∧
    (stop = true → s'.success = true ∧
      ((s'.task = .target ∧ targetReached (s.f / s.sf.scale) s.ftarget = true) ∨ s'.task = .ftol)) := by
  unfold stopTests at h
  split at h
  · rename_i ht
    injection h with h1 h2
    subst h1; subst h2
    exact ⟨rfl, rfl, rfl, rfl, rfl, rfl, by simp, fun _ => ⟨rfl, Or.inl ⟨rfl, ht⟩⟩⟩
  · split at h
    · injection h with h1 h2
      subst h1; subst h2
      exact ⟨rfl, rfl, rfl, rfl, rfl, rfl, by simp, fun _ => ⟨rfl, Or.inr rfl⟩⟩
    · injection h with h1 h2
      subst h1; subst h2
      exact ⟨rfl, rfl, rfl, rfl, rfl, rfl, fun _ => rfl, by simp⟩

omit [Add α] [Sub α] [Mul α] [Div α] [Neg α] [OfNat α 1] [FloatLike α] in
theorem coh_logCall {u : User α ε} {s : St α} (k : CallKind) (a : Vec α)
    (h : Coh u.toSFUser s.sf) : Coh u.toSFUser (s.logCall k a).sf := by
  simpa [St.logCall, Coh] using h

theorem stopTests_frame' {c : Cfg α} {s s' : St α} {f0Old : α} {stop : Bool}
    (h : stopTests c s f0Old = (s', stop)) :
    s'.f = s.f ∧ s'.cbStates = s.cbStates ∧ s'.x = s.x ∧ s'.g = s.g ∧ s'.sf = s.sf ∧
      s'.nit = s.nit := by
  unfold stopTests at h
  split at h
  · injection h with h1 _; subst h1; exact ⟨rfl, rfl, rfl, rfl, rfl, rfl⟩
  · split at h <;> (injection h with h1 _; subst h1; exact ⟨rfl, rfl, rfl, rfl, rfl, rfl⟩)

/-- summary of `afterEval` -/
structure AfterEval (u : User α ε) (s s' : St α) (stop : Bool) : Prop where
  coh : Coh u.toSFUser s'.sf
  env : SameEnv s s'
  nit : s'.nit = s.nit
  nfev : s'.sf.nfev = s.sf.nfev
  cbs : s'.cbStates = s.cbStates
  log : LogExt LoopCall s.sf.log s'.sf.log
  cont : stop = false → s'.task = s.task ∧ s'.success = s.success
  halt : stop = true → s'.success = true ∧
    ((s'.task = .target ∧ targetReached (s'.f / s'.sf.scale) s'.ftarget = true) ∨ s'.task = .ftol)

theorem afterEval_sum (u : User α ε) (c : Cfg α) (s s' : St α) (f0Old : α) (stop : Bool)
    (hc : Coh u.toSFUser s.sf) (h : afterEval u c s f0Old = .ok (s', stop)) :
    AfterEval u s s' stop := by
  unfold afterEval at h
  split at h
  · -- with an update function
    simp only [bind, Except.bind] at h
    split at h
    · simp at h
    · rename_i r hr
      simp only [pure, Except.pure] at h
      injection h with h
      have hsp := stopTests_spec h
      obtain ⟨hsf, hnit, hgt, hft, hf, hcb, hcont, hhalt⟩ := hsp
      have hlog : LogExt LoopCall s.sf.log s'.sf.log := by
        rw [hsf]
        exact LogExt.single _ _ (by simp [LoopCall])
      have hcoh1 : Coh u.toSFUser s'.sf := by
        rw [hsf]; simpa [St.logCall, Coh] using hc
      refine ⟨hcoh1, ⟨hgt, hft, by rw [hsf]; rfl, by rw [hsf]; rfl⟩, hnit, by rw [hsf]; rfl, hcb,
        hlog, fun hst => by rw [hcont hst]; exact ⟨rfl, rfl⟩, fun hst => ?_⟩
      obtain ⟨hs, ht⟩ := hhalt hst
      refine ⟨hs, ?_⟩
      rcases ht with ⟨ht, hr'⟩ | ht
      · left; refine ⟨ht, ?_⟩
        rw [hf, hsf, hft]; exact hr'
      · right; exact ht
  · simp only [pure, Except.pure] at h
    injection h with h
    have hsp := stopTests_spec h
    obtain ⟨hsf, hnit, hgt, hft, hf, hcb, hcont, hhalt⟩ := hsp
    refine ⟨by rw [hsf]; exact hc, ⟨hgt, hft, by rw [hsf], by rw [hsf]⟩, hnit, by rw [hsf], hcb,
      by rw [hsf]; exact LogExt.refl _, fun hst => by rw [hcont hst]; exact ⟨rfl, rfl⟩, ?_⟩
    intro hst
    obtain ⟨hs, ht⟩ := hhalt hst
    refine ⟨hs, ?_⟩
    rcases ht with ⟨ht, hr'⟩ | ht
    · left; refine ⟨ht, ?_⟩
      rw [hf, hsf, hft]; exact hr'
    · right; exact ht

/-- summary of `doCallback` for a state that has not succeeded yet -/
structure AfterCb (u : User α ε) (s s' : St α) : Prop where
  coh : Coh u.toSFUser s'.sf
  env : SameEnv s s'
  nit : s'.nit = s.nit
  nfev : s'.sf.nfev = s.sf.nfev
  f_eq : s'.f = s.f
  log : LogExt LoopCall s.sf.log s'.sf.log
  alt : (s'.task = s.task ∧ s'.success = s.success ∧
          (∀ cb ∈ s.cbStates, cb ∈ s'.cbStates)) ∨
        (s'.task = .userCallback ∧ s'.success = true ∧
          ∃ cb ∈ s'.cbStates, u.callback cb = .ok true)

theorem doCallback_sum (u : User α ε) (c : Cfg α) (s s' : St α)
    (hc : Coh u.toSFUser s.sf) (h : doCallback u c s = .ok s') : AfterCb u s s' := by
  unfold doCallback at h
  split at h
  · simp only [bind, Except.bind] at h
    split at h
    · simp at h
    · rename_i b hb
      simp only [pure, Except.pure] at h
      injection h with h
      have hlog : LogExt LoopCall s.sf.log (s.logCall .callback s.x).sf.log :=
        LogExt.single _ _ (by simp [LoopCall])
      cases b with
      | true =>
        simp only [if_true] at h
        subst h
        refine ⟨by simpa [St.logCall, Coh] using hc, ⟨rfl, rfl, rfl, rfl⟩, rfl, rfl, rfl, hlog,
          Or.inr ⟨rfl, rfl, _, ?_, hb⟩⟩
        simp
      | false =>
        simp only [Bool.false_eq_true, if_false] at h
        subst h
        refine ⟨by simpa [St.logCall, Coh] using hc, ⟨rfl, rfl, rfl, rfl⟩, rfl, rfl, rfl, hlog,
          Or.inl ⟨rfl, rfl, ?_⟩⟩
        intro cb hcb
        simp [hcb]
  · simp only [pure, Except.pure] at h
    injection h with h
    subst h
    exact ⟨hc, SameEnv.rfl' _, rfl, rfl, rfl, LogExt.refl _, Or.inl ⟨rfl, rfl, fun _ h => h⟩⟩

theorem iterStep_pass (u : User α ε) (c : Cfg α) (s s' : St α) (d : Vec α) (stp f0Old : α)
    (flow : Flow) (hi : Inv4 u s) (hs : s.success = false)
    (h : iterStep u c s d stp f0Old = .ok (s', flow)) :
    Pass u c s s' flow ∧ (s.sf.mode = .callable → s'.sf.nfev ≤ s.sf.nfev + 1) := by
  unfold iterStep at h
  simp only [bind, Except.bind] at h
  split at h
  · simp at h
  · rename_i e he
    obtain ⟨es, -, -⟩ := funAndGrad_sum hi.coh he
    split at h
    · simp at h
    · rename_i r hr
      obtain ⟨s1, stop⟩ := r
      have ae := afterEval_sum u c _ s1 f0Old stop (by simpa using es.coh) hr
      have hlog1 : LogExt LoopCall s.sf.log s1.sf.log :=
        LogExt.trans (es.log.mono (fun _ h => evalAt_loopCall h)) (by simpa using ae.log)
      have henv1 : SameEnv s s1 :=
        ⟨by simpa using ae.env.gtol, by simpa using ae.env.ftarget,
         by rw [ae.env.scale]; simpa using es.scale, by rw [ae.env.mode]; simpa using es.mode⟩
      have hnf1 : s1.sf.nfev = e.1.nfev := by simpa using ae.nfev
      cases stop with
      | true =>
        simp only [if_true, pure, Except.pure] at h
        injection h with h; injection h with h1 h2
        subst h1; subst h2
        obtain ⟨hsu, ht⟩ := ae.halt rfl
        have hcbs : s1.cbStates = s.cbStates := by simpa using ae.cbs
        refine ⟨⟨⟨ae.coh, ?_, fun _ => hsu, ?_, ?_, ?_⟩, henv1, by simp, fun _ => ⟨by simpa using ae.nit, ?_⟩,
          by rw [hnf1]; exact es.nfev_ge, fun hm => by rw [hnf1]; have := es.nfev_le hm; omega, hlog1⟩,
          fun hm => by rw [hnf1]; exact es.nfev_le hm⟩
        · intro _; rcases ht with ⟨ht, -⟩ | ht
          · exact Or.inl ht
          · exact Or.inr (Or.inl ht)
        · intro htt; rcases ht with ⟨-, hr'⟩ | ht
          · exact hr'
          · rw [ht] at htt; cases htt
        · intro hcb; rcases ht with ⟨ht, -⟩ | ht <;> rw [ht] at hcb <;> cases hcb
        · intro hab; rcases ht with ⟨ht, -⟩ | ht <;> rw [ht] at hab <;> cases hab
        · rcases ht with ⟨ht, -⟩ | ht
          · exact Or.inr (Or.inl ht)
          · exact Or.inr (Or.inr ht)
      | false =>
        simp only [Bool.false_eq_true, if_false] at h
        obtain ⟨htask, hsucc⟩ := ae.cont rfl
        simp only at htask hsucc
        -- the memory update (`memStep`) does not touch anything the invariant talks about
        split at h
        · simp at h
        · rename_i s2 hs2
          simp only [pure, Except.pure] at h
          injection h with h; injection h with h1 h2
          subst h1; subst h2
          have cb0 := doCallback_sum u c (memStep c s1) s2 ae.coh hs2
          -- `memStep` changes `X`, `G`, `mats` only: restate the summary for `s1`
          have cb : AfterCb u s1 s2 :=
            ⟨cb0.coh, ⟨cb0.env.gtol, cb0.env.ftarget, cb0.env.scale, cb0.env.mode⟩, cb0.nit, cb0.nfev,
             cb0.f_eq, cb0.log, cb0.alt⟩
          have hnf2 : s2.sf.nfev = e.1.nfev := by rw [cb.nfev]; exact hnf1
          have henv2 : SameEnv s s2 :=
            SameEnv.trans henv1 ⟨cb.env.gtol, cb.env.ftarget, cb.env.scale, cb.env.mode⟩
          have hn1 : s1.nit = s.nit := ae.nit
          refine ⟨⟨⟨cb.coh, ?_, ?_, ?_, ?_, ?_⟩, ⟨henv2.gtol, henv2.ftarget, henv2.scale, henv2.mode⟩,
            fun _ => by simp only; rw [cb.nit, hn1], by simp,
            by simp only; rw [hnf2]; exact es.nfev_ge,
            fun hm => by simp only; rw [hnf2]; have := es.nfev_le hm; omega,
            LogExt.trans hlog1 cb.log⟩,
            fun hm => by simp only; rw [hnf2]; exact es.nfev_le hm⟩
          all_goals simp only
          · intro hsu
            rcases cb.alt with ⟨-, h2, -⟩ | ⟨h1, -, -⟩
            · rw [h2, hsucc, hs] at hsu; cases hsu
            · exact Or.inr (Or.inr h1)
          · intro htt
            rcases cb.alt with ⟨h1, -, -⟩ | ⟨-, h2, -⟩
            · have : s.task = .target ∨ s.task = .ftol ∨ s.task = .userCallback := by
                rw [← htask, ← h1]; exact htt
              have := hi.task_succ this
              rw [hs] at this; cases this
            · exact h2
          · intro htt
            rcases cb.alt with ⟨h1, -, -⟩ | ⟨h1, -, -⟩
            · have := hi.task_succ (Or.inl (by rw [← htask, ← h1]; exact htt))
              rw [hs] at this; cases this
            · rw [h1] at htt; cases htt
          · intro htt
            rcases cb.alt with ⟨h1, -, -⟩ | ⟨-, -, h3⟩
            · have := hi.task_succ (Or.inr (Or.inr (by rw [← htask, ← h1]; exact htt)))
              rw [hs] at this; cases this
            · exact h3
          · intro htt
            rcases cb.alt with ⟨-, h2, -⟩ | ⟨h1, -, -⟩
            · rw [h2, hsucc]; exact hs
            · rw [h1] at htt; cases htt

theorem iterBody_pass (u : User α ε) (o : Oracles α δ) (c : Cfg α) (s s' : St α) (flow : Flow)
    (hi : Inv4 u s) (hs : s.success = false) (h : iterBody u o c s = .ok (s', flow)) :
    Pass u c s s' flow := by
  unfold iterBody at h
  simp only [bind, Except.bind] at h
  split at h
  · simp at h
  · rename_i r hr
    obtain ⟨sfL, stp?, olog⟩ := r
    have ls := lineSearch_sum u o c _ _ _ _ _ _ sfL _ _ olog stp? hi.coh hr
    simp only at h
    -- the state handed to the second half of the pass
    have hmid : Inv4 u { s with sf := sfL, olog := olog } :=
      ⟨ls.coh, hi.succ_task, hi.task_succ, fun ht => by have := hi.target_true ht; simpa [ls.scale] using this,
       hi.cb_true, hi.abn⟩
    have hlogL : LogExt LoopCall s.sf.log sfL.log := ls.log.mono (fun _ h => lsCall_loopCall h)
    cases stp? with
    | none =>
      simp only [pure, Except.pure] at h
      injection h with h
      have p := iterFail_pass u c _ s' flow hmid hs h
      refine ⟨p.inv, ⟨p.env.gtol, p.env.ftarget, by rw [p.env.scale]; exact ls.scale,
        by rw [p.env.mode]; exact ls.mode⟩, p.nit_next, p.nit_brk, ?_, ?_, LogExt.trans hlogL p.log⟩
      · have := p.nfev_ge; have := ls.nfev_ge; simp only at *; omega
      · intro hm
        have a := ls.nfev_le hm
        have b : s'.sf.nfev = sfL.nfev := by
          unfold iterFail at h
          split at h <;> (injection h with h1 _; subst h1; rfl)
        omega
    | some stp =>
      simp only at h
      obtain ⟨p, hle⟩ := iterStep_pass u c _ s' _ stp s.f flow hmid hs h
      refine ⟨p.inv, ⟨p.env.gtol, p.env.ftarget, by rw [p.env.scale]; exact ls.scale,
        by rw [p.env.mode]; exact ls.mode⟩, p.nit_next, p.nit_brk, ?_, ?_, LogExt.trans hlogL p.log⟩
      · have := p.nfev_ge; have := ls.nfev_ge; simp only at *; omega
      · intro hm
        have a := ls.nfev_le hm
        have b := hle (by simpa [ls.mode] using hm)
        simp only at b
        omega

/-- the loop guard is false, or the pass left with `break`, or the iteration budget is used up -/
def LoopExit (c : Cfg α) (s : St α) : Prop :=
  guard c s = false ∨ (s.task = .abnormal ∨ s.task = .target ∨ s.task = .ftol) ∨ c.maxiter ≤ s.nit

/-- what the whole loop guarantees -/
structure LoopSum (u : User α ε) (c : Cfg α) (s s' : St α) : Prop where
  inv : Inv4 u s'
  env : SameEnv s s'
  exit : LoopExit c s'
  nit_ge : s.nit ≤ s'.nit
  nit_le : s'.nit ≤ max c.maxiter s.nit
  nfev_ge : s.sf.nfev ≤ s'.sf.nfev
  nfev_le : s.sf.mode = .callable → s'.sf.nfev ≤ max c.maxfun s.sf.nfev + 1
  log : LogExt LoopCall s.sf.log s'.sf.log

theorem mainLoop_sum (u : User α ε) (o : Oracles α δ) (c : Cfg α) :
    ∀ (fuel : Nat) (s s' : St α), Inv4 u s → c.maxiter ≤ fuel + s.nit →
      (s.sf.mode = .callable → s.sf.nfev ≤ max c.maxfun s.sf.nfev) →
      mainLoop u o c fuel s = .ok s' → LoopSum u c s s' := by
  intro fuel
  induction fuel with
  | zero =>
    intro s s' hi hf _ h
    simp only [mainLoop, pure, Except.pure] at h
    injection h with h
    subst h
    exact ⟨hi, SameEnv.rfl' _, Or.inr (Or.inr (by omega)), Nat.le_refl _, Nat.le_max_right _ _,
      Nat.le_refl _, fun _ => by omega, LogExt.refl _⟩
  | succ fuel ih =>
    intro s s' hi hf _ h
    simp only [mainLoop] at h
    split at h
    · rename_i hg
      simp only [bind, Except.bind] at h
      split at h
      · simp at h
      · rename_i r hr
        obtain ⟨s1, flow⟩ := r
        have hsucc : s.success = false := by
          simp only [guard, Bool.and_eq_true, Bool.not_eq_true'] at hg
          exact hg.2
        have hnit : s.nit < c.maxiter := by
          simp only [guard, Bool.and_eq_true, decide_eq_true_eq] at hg
          exact hg.1.1.2
        have hnf : s.sf.nfev < c.maxfun := by
          simp only [guard, Bool.and_eq_true, decide_eq_true_eq] at hg
          exact hg.1.2
        have p := iterBody_pass u o c s s1 flow hi hsucc hr
        cases flow with
        | brk =>
          simp only [pure, Except.pure] at h
          injection h with h
          subst h
          obtain ⟨hn, ht⟩ := p.nit_brk rfl
          refine ⟨p.inv, p.env, Or.inr (Or.inl ht), by omega, by rw [hn]; exact Nat.le_max_right _ _,
            p.nfev_ge, ?_, p.log⟩
          intro hm
          have := p.nfev_le hm
          have : min c.maxls (c.maxfun - s.sf.nfev) ≤ c.maxfun - s.sf.nfev := Nat.min_le_right _ _
          have : c.maxfun ≤ max c.maxfun s.sf.nfev := Nat.le_max_left _ _
          omega
        | next =>
          simp only at h
          have hn := p.nit_next rfl
          have l2 := ih s1 s' p.inv (by omega) (fun _ => Nat.le_max_right _ _) h
          refine ⟨l2.inv, SameEnv.trans p.env l2.env, l2.exit, by have := l2.nit_ge; omega, ?_,
            Nat.le_trans p.nfev_ge l2.nfev_ge, ?_, LogExt.trans p.log l2.log⟩
          · have := l2.nit_le
            have : max c.maxiter s1.nit ≤ max c.maxiter s.nit := by
              rw [hn]; omega
            omega
          · intro hm
            have a := p.nfev_le hm
            have b := l2.nfev_le (by rw [p.env.mode]; exact hm)
            have : min c.maxls (c.maxfun - s.sf.nfev) ≤ c.maxfun - s.sf.nfev := Nat.min_le_right _ _
            -- after the pass nfev ≤ maxfun + 1; either the loop stops at once or nfev < maxfun
            rcases Nat.lt_or_ge s1.sf.nfev c.maxfun with hlt | hge
            · have : max c.maxfun s1.sf.nfev = c.maxfun := Nat.max_eq_left (Nat.le_of_lt hlt)
              have : c.maxfun ≤ max c.maxfun s.sf.nfev := Nat.le_max_left _ _
              omega
            · -- guard false at the next head: the loop returns s1 unchanged
              have : max c.maxfun s1.sf.nfev = s1.sf.nfev := Nat.max_eq_right hge
              have : c.maxfun ≤ max c.maxfun s.sf.nfev := Nat.le_max_left _ _
              have hstop : s'.sf.nfev = s1.sf.nfev := by
                cases fuel with
                | zero =>
                  simp only [mainLoop, pure, Except.pure] at h
                  injection h with h; subst h; rfl
                | succ fuel =>
                  simp only [mainLoop] at h
                  have hg1 : guard c s1 = false := by
                    simp only [guard, Bool.and_eq_false_iff, decide_eq_false_iff_not]
                    left; right; omega
                  simp only [hg1, Bool.false_eq_true, if_false, pure, Except.pure] at h
                  injection h with h; subst h; rfl
              omega
    · simp only [pure, Except.pure] at h
      injection h with h
      subst h
      rename_i hg
      exact ⟨hi, SameEnv.rfl' _, Or.inl (by simpa using hg), Nat.le_refl _, Nat.le_max_right _ _,
        Nat.le_refl _, fun _ => by have := Nat.le_max_right c.maxfun s.sf.nfev; omega, LogExt.refl _⟩

/-- number of log entries of a given kind -/
def countK (k : CallKind) (l : List (Call α)) : Nat := (l.filter (fun c => c.kind = k)).length

omit [LinearOrder α] [Add α] [Sub α] [Mul α] [Div α] [Neg α] [OfNat α 0] [OfNat α 1]
  [FloatLike α] in
theorem countK_ext {l l' : List (Call α)} (h : LogExt NotThresh l l') :
    countK .ftarget l' = countK .ftarget l ∧ countK .gtol l' = countK .gtol l := by
  obtain ⟨d, rfl, hd⟩ := h
  simp only [countK, List.filter_append, List.length_append]
  have h1 : (d.filter (fun c => c.kind = CallKind.ftarget)).length = 0 := by
    rw [List.length_eq_zero_iff, List.filter_eq_nil_iff]
    intro c hc; simpa using (hd c hc).1
  have h2 : (d.filter (fun c => c.kind = CallKind.gtol)).length = 0 := by
    rw [List.length_eq_zero_iff, List.filter_eq_nil_iff]
    intro c hc; simpa using (hd c hc).2
  omega

/-- the value a threshold evaluates to -/
def ThreshVal (fn : Unit → Except ε α) (t : Thresh α) (a : α) : Prop :=
  match t with
  | .const b => a = b
  | .callable => fn () = .ok a

def isCallableT : Thresh α → Bool
  | .callable => true
  | .const _ => false

omit [LinearOrder α] [Add α] [Sub α] [Mul α] [Div α] [Neg α] [OfNat α 0] [OfNat α 1]
  [FloatLike α] in
theorem evalThresh_spec (fn : Unit → Except ε α) (k : CallKind) (sf sf' : SF α) (t : Thresh α)
    (a : α) (h : evalThresh fn k sf t = .ok (sf', a)) :
    ThreshVal fn t a ∧
    sf' = (if isCallableT t then { sf with log := sf.log ++ [Call.mk k []] } else sf) := by
  cases t with
  | const b =>
    simp only [evalThresh, pure, Except.pure] at h
    injection h with h; injection h with h1 h2
    exact ⟨h2.symm, h1.symm⟩
  | callable =>
    simp only [evalThresh, bind, Except.bind] at h
    split at h
    · simp at h
    · rename_i v hv
      simp only [pure, Except.pure] at h
      injection h with h; injection h with h1 h2
      subst h2
      exact ⟨hv, h1.symm⟩

/-- counters and iteration number a run starts from -/
def nit0 (c : Cfg α) : Nat := match c.checkpoint with | none => 0 | some ck => ck.nit
/-- `n0` of the property: 1, or the checkpoint's count -/
def nfev0 (c : Cfg α) : Nat := match c.checkpoint with | none => 1 | some ck => ck.nfev

structure InitSum (u : User α ε) (c : Cfg α) (i : Init α) : Prop where
  coh : Coh u.toSFUser i.sf
  mode : i.sf.mode = c.mode
  nit : i.nit = nit0 c
  nfev : i.sf.nfev = nfev0 c
  gtol : ThreshVal u.gtolFn c.gtol i.gtol
  ftarget : match c.ftarget with
    | none => i.ftarget = none
    | some t => ∃ a, i.ftarget = some a ∧ ThreshVal u.ftargetFn t a
  n_gtol : countK .gtol i.sf.log = if isCallableT c.gtol then 1 else 0
  n_ftarget : countK .ftarget i.sf.log =
    match c.ftarget with | some t => (if isCallableT t then 1 else 0) | none => 0
  f0_ck : ∀ ck, c.checkpoint = some ck → i.f0 = ck.f
  scale1 : i.sf.scale = 1

theorem firstEval_sum (u : User α ε) (c : Cfg α) (e : SF α × α) (h : firstEval u c = .ok e) :
    Coh u.toSFUser e.1 ∧ e.1.mode = c.mode ∧ e.1.nfev = nfev0 c ∧
      countK .gtol e.1.log = 0 ∧ countK .ftarget e.1.log = 0 ∧
      (∀ ck, c.checkpoint = some ck → e.2 = ck.f) ∧ e.1.scale = 1 := by
  unfold firstEval at h
  simp only at h
  cases hck : c.checkpoint with
  | none =>
    simp only [hck] at h
    obtain ⟨sf1, f⟩ := e
    obtain ⟨es, -⟩ := funv_sum (new_coh' u.toSFUser c.mode _ c.lb c.ub) h
    have hl := countK_ext (es.log.mono (fun _ h => evalAt_notThresh h))
    refine ⟨es.coh, by rw [es.mode]; rfl, ?_, by rw [hl.2]; rfl, by rw [hl.1]; rfl,
      (fun ck h' => by cases h'), by rw [es.scale]; rfl⟩
    -- exactly one objective call from a fresh wrapper
    simp only [SF.funv, bind, Except.bind] at h
    split at h
    · simp at h
    · rename_i s1 hs1
      simp only [pure, Except.pure] at h
      injection h with h; injection h with he1 _
      subst he1
      have hux := updateX_spec (SF.new c.mode (clip c.x0 c.lb c.ub) c.lb c.ub) (clip c.x0 c.lb c.ub)
      have hsame := hux.2.2.2.2.2.2.2.2 rfl
      rw [hsame] at hs1
      obtain ⟨-, -, -, -, -, -, -, -, -, -, -, -, hnew⟩ :=
        updFun_ok (new_coh' u.toSFUser c.mode _ c.lb c.ub) hs1
      simp only [nfev0, hck]
      exact (hnew rfl).1
  | some ck =>
    simp only [hck, pure, Except.pure] at h
    injection h with h
    subst h
    exact ⟨by simp [Coh, SF.new], rfl, by simp [nfev0, hck], rfl, rfl,
      (fun ck' h' => by injection h' with h'; rw [h']), rfl⟩

theorem evalFtarget_sum (u : User α ε) (c : Cfg α) (sf : SF α) (t : SF α × Option α)
    (hc : Coh u.toSFUser sf) (hg : countK .gtol sf.log = 0) (hf : countK .ftarget sf.log = 0)
    (h : evalFtarget u c sf = .ok t) :
    Coh u.toSFUser t.1 ∧ t.1.mode = sf.mode ∧ t.1.scale = sf.scale ∧ t.1.nfev = sf.nfev ∧
      countK .gtol t.1.log = 0 ∧
      (countK .ftarget t.1.log =
        match c.ftarget with | some th => (if isCallableT th then 1 else 0) | none => 0) ∧
      (match c.ftarget with
        | none => t.2 = none
        | some th => ∃ a, t.2 = some a ∧ ThreshVal u.ftargetFn th a) := by
  unfold evalFtarget at h
  cases hft : c.ftarget with
  | none =>
    simp only [hft, pure, Except.pure] at h
    injection h with h
    subst h
    exact ⟨hc, rfl, rfl, rfl, hg, hf, rfl⟩
  | some th =>
    simp only [hft, bind, Except.bind] at h
    split at h
    · simp at h
    · rename_i r hr
      simp only [pure, Except.pure] at h
      injection h with h
      subst h
      obtain ⟨hv, hsf⟩ := evalThresh_spec _ _ _ _ _ _ hr
      cases th with
      | const b =>
        simp only [isCallableT, Bool.false_eq_true, if_false] at hsf
        rw [hsf]
        exact ⟨hc, rfl, rfl, rfl, hg, by simpa [isCallableT] using hf, r.2, rfl, hv⟩
      | callable =>
        simp only [isCallableT, if_true] at hsf
        rw [hsf]
        refine ⟨by simpa [Coh] using hc, rfl, rfl, rfl, ?_, ?_, r.2, rfl, hv⟩
        · simpa [countK] using hg
        · simp only [countK] at hf ⊢
          simp [isCallableT, List.filter_append, hf]

theorem evalGtol_sum (u : User α ε) (sf sf' : SF α) (th : Thresh α) (a : α)
    (hc : Coh u.toSFUser sf) (hg : countK .gtol sf.log = 0)
    (h : evalThresh u.gtolFn .gtol sf th = .ok (sf', a)) :
    ThreshVal u.gtolFn th a ∧ Coh u.toSFUser sf' ∧ sf'.mode = sf.mode ∧ sf'.scale = sf.scale ∧
      sf'.nfev = sf.nfev ∧
      countK .gtol sf'.log = (if isCallableT th then 1 else 0) ∧
      countK .ftarget sf'.log = countK .ftarget sf.log := by
  obtain ⟨hv, hsf⟩ := evalThresh_spec _ _ _ _ _ _ h
  cases th with
  | const b =>
    simp only [isCallableT, Bool.false_eq_true, if_false] at hsf
    subst hsf
    exact ⟨hv, hc, rfl, rfl, rfl, by simpa [isCallableT] using hg, rfl⟩
  | callable =>
    simp only [isCallableT, if_true] at hsf
    subst hsf
    refine ⟨hv, by simpa [Coh] using hc, rfl, rfl, rfl, ?_, ?_⟩
    · simp only [countK] at hg ⊢
      simp [isCallableT, List.filter_append, hg]
    · simp [countK, List.filter_append]

theorem initEval_sum (u : User α ε) (c : Cfg α) (i : Init α) (h : initEval u c = .ok i) :
    InitSum u c i := by
  unfold initEval at h
  simp only [bind, Except.bind] at h
  split at h
  · simp at h
  · rename_i e he
    obtain ⟨hEc, hEm, hEn, hEg, hEf, hEk, hEs⟩ := firstEval_sum u c e he
    split at h
    · simp at h
    · rename_i t ht
      obtain ⟨hTc, hTm, hTs, hTn, hTg, hTf, hTv⟩ := evalFtarget_sum u c e.1 t hEc hEg hEf ht
      split at h
      · simp at h
      · rename_i gt hgt
        simp only [pure, Except.pure] at h
        injection h with h
        subst h
        obtain ⟨hv, hGc, hGm, hGs, hGn, hGg, hGf⟩ := evalGtol_sum u t.1 gt.1 c.gtol gt.2 hTc hTg hgt
        exact ⟨hGc, by simp only; rw [hGm, hTm, hEm], rfl, by simp only; rw [hGn, hTn, hEn], hv, hTv,
          hGg, by simp only; rw [hGf]; exact hTf, hEk, by simp only; rw [hGs, hTs, hEs]⟩

/-- frame of the steps between the first evaluation and the loop: only the wrapper's log,
scale and cache, and the numerical fields change -/
structure PrepFrame (u : User α ε) (s s' : St α) : Prop where
  coh : Coh u.toSFUser s'.sf
  task : s'.task = s.task
  success : s'.success = s.success
  nit : s'.nit = s.nit
  gtol : s'.gtol = s.gtol
  ftarget : s'.ftarget = s.ftarget
  cbs : s'.cbStates = s.cbStates
  mode : s'.sf.mode = s.sf.mode
  nfev : s'.sf.nfev = s.sf.nfev
  log : LogExt NotThresh s.sf.log s'.sf.log

theorem PrepFrame.trans {u : User α ε} {s1 s2 s3 : St α} (a : PrepFrame u s1 s2)
    (b : PrepFrame u s2 s3) : PrepFrame u s1 s3 :=
  ⟨b.coh, by rw [b.task, a.task], by rw [b.success, a.success], by rw [b.nit, a.nit],
   by rw [b.gtol, a.gtol], by rw [b.ftarget, a.ftarget], by rw [b.cbs, a.cbs],
   by rw [b.mode, a.mode], by rw [b.nfev, a.nfev], LogExt.trans a.log b.log⟩

theorem applyScaler_sum (u : User α ε) (c : Cfg α) (s s' : St α) (grad : Vec α)
    (hc : Coh u.toSFUser s.sf) (h : applyScaler u c s grad = .ok s') : PrepFrame u s s' := by
  unfold applyScaler at h
  split at h
  · simp only [bind, Except.bind] at h
    split at h
    · simp at h
    · simp only [pure, Except.pure] at h
      injection h with h
      subst h
      exact ⟨by simpa [St.logCall, Coh] using hc, rfl, rfl, rfl, rfl, rfl, rfl, rfl, rfl,
        LogExt.single _ _ (by simp [NotThresh])⟩
  · simp only [pure, Except.pure] at h
    injection h with h
    subst h
    exact ⟨hc, rfl, rfl, rfl, rfl, rfl, rfl, rfl, rfl, LogExt.refl _⟩

theorem applyUpdate0_sum (u : User α ε) (c : Cfg α) (s s' : St α)
    (hc : Coh u.toSFUser s.sf) (h : applyUpdate0 u c s = .ok s') : PrepFrame u s s' := by
  unfold applyUpdate0 at h
  split at h
  · simp only [bind, Except.bind] at h
    split at h
    · simp at h
    · simp only [pure, Except.pure] at h
      injection h with h
      subst h
      exact ⟨by simpa [St.logCall, Coh] using hc, rfl, rfl, rfl, rfl, rfl, rfl, rfl, rfl,
        LogExt.single _ _ (by simp [NotThresh])⟩
  · simp only [pure, Except.pure] at h
    injection h with h
    subst h
    exact ⟨hc, rfl, rfl, rfl, rfl, rfl, rfl, rfl, rfl, LogExt.refl _⟩

theorem initMemory_sum (u : User α ε) (c : Cfg α) (s : St α) (hc : Coh u.toSFUser s.sf) :
    PrepFrame u s (initMemory c s) := by
  unfold initMemory
  split <;> exact ⟨hc, rfl, rfl, rfl, rfl, rfl, rfl, rfl, rfl, LogExt.refl _⟩

theorem firstGrad_sum (u : User α ε) (c : Cfg α) (i : Init α) (e : SF α × Vec α)
    (hc : Coh u.toSFUser i.sf) (h : firstGrad u c i = .ok e) :
    Coh u.toSFUser e.1 ∧ e.1.mode = i.sf.mode ∧ e.1.scale = i.sf.scale ∧ i.sf.nfev ≤ e.1.nfev ∧
      (i.sf.mode = .callable → e.1.nfev = i.sf.nfev) ∧ LogExt NotThresh i.sf.log e.1.log := by
  unfold firstGrad at h
  cases hck : c.checkpoint with
  | none =>
    simp only [hck] at h
    obtain ⟨sf1, g⟩ := e
    obtain ⟨es, -⟩ := gradv_sum hc h
    refine ⟨es.coh, es.mode, es.scale, es.nfev_ge, ?_, es.log.mono (fun _ h => evalAt_notThresh h)⟩
    intro hm
    -- a callable gradient does not evaluate the objective
    simp only [SF.gradv, bind, Except.bind] at h
    split at h
    · simp at h
    · rename_i s1 hs1
      simp only [pure, Except.pure] at h
      injection h with h; injection h with h1 _
      subst h1
      obtain ⟨-, -, hcal, -, -⟩ := updGrad_log hs1
      have hux := updateX_spec i.sf i.x
      rw [hcal (by rw [hux.2.1]; exact hm)]
      exact hux.2.2.2.2.2.1
  | some ck =>
    simp only [hck, pure, Except.pure] at h
    injection h with h
    subst h
    exact ⟨hc, rfl, rfl, Nat.le_refl _, fun _ => rfl, LogExt.refl _⟩

/-- the state the loop starts from -/
structure PrepSum (u : User α ε) (c : Cfg α) (i : Init α) (s : St α) : Prop where
  inv : Inv4 u s
  success : s.success = false
  nit : s.nit = i.nit
  gtol : s.gtol = i.gtol
  ftarget : s.ftarget = i.ftarget
  mode : s.sf.mode = i.sf.mode
  nfev_ge : i.sf.nfev ≤ s.sf.nfev
  nfev_eq : i.sf.mode = .callable → s.sf.nfev = i.sf.nfev
  log : LogExt NotThresh i.sf.log s.sf.log

theorem prepare_sum (u : User α ε) (c : Cfg α) (i : Init α) (s : St α)
    (hc : Coh u.toSFUser i.sf) (h : prepare u c i = .ok s) : PrepSum u c i s := by
  unfold prepare at h
  simp only [bind, Except.bind] at h
  split at h
  · simp at h
  · rename_i e he
    obtain ⟨hGc, hGm, -, hGn, hGe, hGl⟩ := firstGrad_sum u c i e hc he
    split at h
    · simp at h
    · rename_i s1 hs1
      have f1 := applyScaler_sum u c _ s1 e.2 (by simpa using hGc) hs1
      split at h
      · simp at h
      · rename_i s2 hs2
        have f2 := applyUpdate0_sum u c _ s2 (by simpa using f1.coh) hs2
        simp only [pure, Except.pure] at h
        injection h with h
        subst h
        have f3 := initMemory_sum u c s2 f2.coh
        have hsuc : (initMemory c s2).success = false := by
          rw [f3.success, f2.success]; simp only; rw [f1.success]; rfl
        have htask : (initMemory c s2).task = .start := by
          rw [f3.task, f2.task]; simp only; rw [f1.task]; rfl
        refine ⟨⟨f3.coh, ?_, ?_, ?_, ?_, ?_⟩, hsuc, ?_, ?_, ?_, ?_, ?_, ?_, ?_⟩
        · intro hh; rw [hsuc] at hh; cases hh
        · intro hh; rw [htask] at hh; rcases hh with hh | hh | hh <;> cases hh
        · intro hh; rw [htask] at hh; cases hh
        · intro hh; rw [htask] at hh; cases hh
        · intro _; exact hsuc
        · rw [f3.nit, f2.nit]; simp only; rw [f1.nit]; rfl
        · rw [f3.gtol, f2.gtol]; simp only; rw [f1.gtol]; rfl
        · rw [f3.ftarget, f2.ftarget]; simp only; rw [f1.ftarget]; rfl
        · rw [f3.mode, f2.mode]; simp only; rw [f1.mode]; exact hGm
        · rw [f3.nfev, f2.nfev]; simp only; rw [f1.nfev]; exact hGn
        · intro hm; rw [f3.nfev, f2.nfev]; simp only; rw [f1.nfev]; exact hGe hm
        · have l1 : LogExt NotThresh e.1.log s1.sf.log := by simpa using f1.log
          have l2 : LogExt NotThresh s1.sf.log s2.sf.log := by simpa using f2.log
          exact LogExt.trans hGl (LogExt.trans l1 (LogExt.trans l2 f3.log))

/-- the two ways a run can end -/
theorem minimize_cases (u : User α ε) (o : Oracles α δ) (c : Cfg α) (r : Result α) (s : St α)
    (h : minimize u o c = .ok (r, s)) :
    ∃ i, InitSum u c i ∧
      ((targetReached (i.f0 / i.sf.scale) i.ftarget = true ∧ (r, s) = earlyResult c i) ∨
       (targetReached (i.f0 / i.sf.scale) i.ftarget = false ∧
         ∃ s0 s1, PrepSum u c i s0 ∧ LoopSum u c s0 s1 ∧ s = classify c s1 ∧ r = s.result)) := by
  unfold minimize at h
  simp only [bind, Except.bind] at h
  split at h
  · simp at h
  · rename_i i hi
    have is := initEval_sum u c i hi
    refine ⟨i, is, ?_⟩
    split at h
    · rename_i ht
      simp only [pure, Except.pure] at h
      injection h with h
      exact Or.inl ⟨ht, h.symm⟩
    · rename_i ht
      split at h
      · simp at h
      · rename_i s0 hs0
        have ps := prepare_sum u c i s0 is.coh hs0
        split at h
        · simp at h
        · rename_i s1 hs1
          simp only [pure, Except.pure] at h
          injection h with h; injection h with h1 h2
          have ls := mainLoop_sum u o c (c.maxiter - s0.nit) s0 s1 ps.inv (by omega)
            (fun _ => Nat.le_max_right _ _) hs1
          exact Or.inr ⟨by simpa using ht, s0, s1, ps, ls, h2.symm, by rw [← h2]; exact h1.symm⟩

end Lbfgsb
