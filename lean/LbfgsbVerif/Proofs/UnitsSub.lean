/-
  Change of units for the subspace step: the free set, the truncation factor `α*` and the projection are invariant / equivariant under a
  positive rescaling of the variables, and the masked Newton step is determined by its specification when the model is positive
  definite — so `subspaceMin` of the same problem in other units is the rescaled point.
-/
import LbfgsbVerif.Proofs.Units
import LbfgsbVerif.Proofs.SubspaceBridge

set_option linter.unusedSectionVars false

namespace Lbfgsb.Units
open Lbfgsb Matrix
variable {K : Type} [Field K] [LinearOrder K] [IsStrictOrderedRing K]

theorem feq_smul (b x y : K) (hb : 0 < b) : feq (b * x) (b * y) = feq x y := by
  unfold feq
  have h1 : (b * x < b * y) ↔ (x < y) := ⟨fun h => lt_of_mul_lt_mul_left h (le_of_lt hb), fun h => mul_lt_mul_of_pos_left h hb⟩
  have h2 : (b * y < b * x) ↔ (y < x) := ⟨fun h => lt_of_mul_lt_mul_left h (le_of_lt hb), fun h => mul_lt_mul_of_pos_left h hb⟩
  simp only [h1, h2]

theorem freeMask_smul (b : K) (hb : 0 < b) (xc lb ub : Vec K) :
    freeMask (smul b xc) (smul b lb) (smul b ub) = freeMask xc lb ub := by
  induction xc generalizing lb ub with
  | nil => cases lb <;> cases ub <;> simp [freeMask, smul]
  | cons x xs ih =>
    cases lb with
    | nil => simp [freeMask, smul]
    | cons l ls =>
      cases ub with
      | nil => simp [freeMask, smul]
      | cons u us =>
        have := ih ls us
        simp only [smul, List.map_cons, freeMask] at this ⊢
        rw [this]
        congr 1
        unfold isFree
        rw [feq_smul b x u hb, feq_smul b x l hb]

theorem alphaStar_cand_smul (b : K) (hb : 0 < b) (xc d lb ub : Vec K) (mask : List Bool) :
    alphaStar.cand (smul b xc) (smul b d) (smul b lb) (smul b ub) mask = alphaStar.cand xc d lb ub mask := by
  have hbne : b ≠ 0 := ne_of_gt hb
  induction xc generalizing d lb ub mask with
  | nil => cases d <;> cases lb <;> cases ub <;> cases mask <;> simp [alphaStar.cand, smul]
  | cons x xs ih =>
    cases d with
    | nil => simp [alphaStar.cand, smul]
    | cons di ds =>
      cases lb with
      | nil => simp [alphaStar.cand, smul]
      | cons l ls =>
        cases ub with
        | nil => simp [alphaStar.cand, smul]
        | cons u us =>
          cases mask with
          | nil => simp [alphaStar.cand, smul]
          | cons m ms =>
            have := ih ds ls us ms
            simp only [smul, List.map_cons, alphaStar.cand] at this ⊢
            rw [this]
            have hz : feq (b * di) 0 = feq di 0 := by
              have := feq_smul b di 0 hb
              rwa [mul_zero] at this
            have hp : (0 < b * di) ↔ (0 < di) := by
              constructor
              · intro h
                by_contra hn
                have : b * di ≤ 0 := mul_nonpos_of_nonneg_of_nonpos (le_of_lt hb) (not_lt.1 hn)
                exact absurd h (not_lt.2 this)
              · intro h; exact mul_pos hb h
            rw [hz]
            split
            · rfl
            · congr 1
              by_cases hd : 0 < di
              · rw [if_pos hd, if_pos (hp.2 hd)]
                rw [← mul_sub, mul_div_mul_left _ _ hbne]
              · rw [if_neg hd, if_neg (fun h => hd (hp.1 h))]
                rw [← mul_sub, mul_div_mul_left _ _ hbne]

theorem alphaStar_smul (b : K) (hb : 0 < b) (xc d lb ub : Vec K) (mask : List Bool) :
    alphaStar (smul b xc) (smul b d) (smul b lb) (smul b ub) mask = alphaStar xc d lb ub mask := by
  unfold alphaStar
  rw [alphaStar_cand_smul b hb]

theorem smul_smul' (a b : K) (v : Vec K) : smul a (smul b v) = smul (a * b) v := by
  simp [smul, mul_assoc]

theorem vadd_smul_dist (b : K) (x y : Vec K) : vadd (smul b x) (smul b y) = smul b (vadd x y) := by
  induction x generalizing y with
  | nil => simp [vadd, smul, vzip]
  | cons a as ih =>
    cases y with
    | nil => simp [vadd, smul, vzip]
    | cons c cs =>
      have := ih cs
      simp only [vadd, smul, List.map_cons, vzip] at this ⊢
      rw [this, mul_add]

/-- two vectors that vanish off the mask and satisfy the same Newton condition on it coincide when the model is positive definite -/
theorem masked_newton_unique {n : Nat} (B : Matrix (Fin n) (Fin n) K)
    (pd : ∀ a : Fin n → K, a ≠ 0 → 0 < a ⬝ᵥ (B *ᵥ a)) (m : Fin n → Bool) (r0 D1 D2 : Fin n → K)
    (z1 : ∀ r, m r = false → D1 r = 0) (z2 : ∀ r, m r = false → D2 r = 0)
    (n1 : ∀ r, m r = true → (r0 + B *ᵥ D1) r = 0) (n2 : ∀ r, m r = true → (r0 + B *ᵥ D2) r = 0) : D1 = D2 := by
  by_contra hne
  have hE : D1 - D2 ≠ 0 := sub_ne_zero.2 hne
  have hpos := pd _ hE
  have hzero : (D1 - D2) ⬝ᵥ (B *ᵥ (D1 - D2)) = 0 := by
    unfold dotProduct
    apply Finset.sum_eq_zero
    intro r _
    cases hm : m r with
    | false => simp [z1 r hm, z2 r hm]
    | true =>
      have e1 := n1 r hm
      have e2 := n2 r hm
      simp only [Pi.add_apply] at e1 e2
      have : (B *ᵥ (D1 - D2)) r = 0 := by
        rw [mulVec_sub]
        simp only [Pi.sub_apply]
        linarith
      rw [this, mul_zero]
  rw [hzero] at hpos
  exact lt_irrefl _ hpos

theorem smul_comm' (a b : K) (v : Vec K) : smul a (smul b v) = smul b (smul a v) := by
  induction v with
  | nil => rfl
  | cons c cs ih =>
    simp only [smul, List.map_cons] at ih ⊢
    rw [ih, mul_left_comm]

/-- **the subspace point in other units is the subspace point, in those units** — from the specifications of the two calls -/
theorem subspace_units (a b : K) (ha : 0 < a) (hb : 0 < b) (i i' : SubIn K) (n k k' : Nat)
    (Mm : Matrix (Fin k) (Fin k) K) (Mm' : Matrix (Fin k') (Fin k') K)
    (h : SameProblem a b i.toCauchyIn i'.toCauchyIn) (hxc : i'.xc = smul b i.xc)
    (hx : i.x.length = n) (hg : i.g.length = n) (hxcl : i.xc.length = n)
    (spec : SubSpec i n k Mm) (spec' : SubSpec i' n k' Mm')
    (hB : bmat i'.theta (wmat n k' i'.W) Mm' = (a / (b * b)) • bmat i.theta (wmat n k i.W) Mm)
    (pd : ∀ v : Fin n → K, v ≠ 0 → 0 < v ⬝ᵥ (bmat i.theta (wmat n k i.W) Mm *ᵥ v)) :
    subspaceMin i' = smul b (subspaceMin i) := by
  have hbne : b ≠ 0 := ne_of_gt hb
  have hmask : subMask i' = subMask i := by
    unfold subMask
    rw [hxc, h.hlb, h.hub]
    exact freeMask_smul b hb _ _ _
  obtain ⟨z, newt, hDl, -⟩ := spec
  obtain ⟨z', newt', hDl', -⟩ := spec'
  -- the Newton step of the second call, divided by b, satisfies the specification of the first
  have hD : vec n (subD i') = b • vec n (subD i) := by
    have huniq := masked_newton_unique (bmat i.theta (wmat n k i.W) Mm) pd (maskF n (subMask i))
      (vec n i.g + bmat i.theta (wmat n k i.W) Mm *ᵥ (vec n i.xc - vec n i.x)) (vec n (subD i)) (b⁻¹ • vec n (subD i'))
      z (by
        intro r hr
        have := z' r (by rw [hmask]; exact hr)
        simp only [Pi.smul_apply, this, smul_zero])
      (by
        intro r hr
        have := newt r hr
        rw [mulVec_add, ← add_assoc] at this
        exact this)
      (by
        intro r hr
        have e := newt' r (by rw [hmask]; exact hr)
        rw [hB, h.hg, h.hx, hxc, vec_smul n _ _ hg, vec_smul n _ _ hx, vec_smul n _ _ hxcl] at e
        simp only [Pi.add_apply, Pi.smul_apply, smul_mulVec, mulVec_add, mulVec_smul, mulVec_sub, smul_eq_mul, Pi.sub_apply] at e ⊢
        have hc : a / b ≠ 0 := ne_of_gt (div_pos ha hb)
        have : (a / b) * (vec n i.g r + ((bmat i.theta (wmat n k i.W) Mm *ᵥ vec n i.xc) r - (bmat i.theta (wmat n k i.W) Mm *ᵥ vec n i.x) r)
            + b⁻¹ * (bmat i.theta (wmat n k i.W) Mm *ᵥ vec n (subD i')) r) = 0 := by
          rw [← e]
          field_simp
          ring
        rcases mul_eq_zero.1 this with h0 | h0
        · exact absurd h0 hc
        · linarith)
    rw [huniq, smul_smul, mul_inv_cancel₀ hbne, one_smul]
  have hDlist : subD i' = smul b (subD i) := by
    apply ext_getD (0 : K)
    · rw [hDl', smul_length, hDl]
    · intro j hj
      rw [hDl'] at hj
      have := congrFun hD ⟨j, hj⟩
      rw [← vec_smul n b _ hDl] at this
      exact this
  rw [subspaceMin_eq, subspaceMin_eq, hmask]
  split
  · exact hxc
  · rw [hDlist, hxc, h.hlb, h.hub, alphaStar_smul b hb, smul_comm', vadd_smul_dist, clip_smul b hb]

end Lbfgsb.Units
