/-
  For a kernel input built from positive-curvature pairs: the context of the Cauchy theorems, the identification of the model matrix and
  the specification of the subspace step on the Cauchy point the model computes, with one and the same inverse `Mm` of the middle
  matrix (the construction is the one inside `complete_iteration_descent_curv`, Props/C01Curv, with the facts exposed).
-/
import LbfgsbVerif.Props.C01Curv

set_option linter.unusedSectionVars false

namespace Lbfgsb.C01
open Lbfgsb Matrix CompactKernel CompactBridge CompactBfgs Lbfgsb.Gauss
variable {K : Type} [Field K] [LinearOrder K] [IsStrictOrderedRing K]

theorem kernel_subspec (lb ub : Vec K) (e : K) (x g : Vec K) (X G : List (Vec K))
    (hX : X.length > 1) (hXG : X.length = G.length) (hn : 0 < x.length)
    (hS : ∀ j, j < (diffs X).length → ((diffs X).getD j []).length = x.length)
    (hY : ∀ j, j < (diffs X).length → ((diffs G).getD j []).length = x.length)
    (hcurv : ∀ j, j < (diffs X).length → vec x.length ((diffs X).getD j []) ≠ 0 ∧
      0 < vec x.length ((diffs X).getD j []) ⬝ᵥ vec x.length ((diffs G).getD j []))
    (hθ : 0 < thetaOf X G) (box : InBoxF lb ub x)
    (floor : ∀ dd : Fin x.length → K, dd ≠ 0 →
      (∀ r, dd r = 0 ∨ dd r = vec x.length (cauchyD0 (breakpoints x (fitTo x g) lb ub) (fitTo x g)) r) →
      e * f2orgOf (kernelInput x g lb ub (some (X, G)) e) ≤
        dd ⬝ᵥ (C10.bfgsChain ((thetaOf X G) • (1 : Matrix (Fin x.length) (Fin x.length) K))
          (pairsOf x.length (diffs X) (diffs G)) *ᵥ dd)) :
    ∃ Mm : Matrix (Fin ((lOf x.length (diffs X) (diffs G)).length + (lOf x.length (diffs X) (diffs G)).length))
        (Fin ((lOf x.length (diffs X) (diffs G)).length + (lOf x.length (diffs X) (diffs G)).length)) K,
      kOf (kernelInput x g lb ub (some (X, G)) e) =
        (lOf x.length (diffs X) (diffs G)).length + (lOf x.length (diffs X) (diffs G)).length ∧
      MinCtx (kernelInput x g lb ub (some (X, G)) e) x.length _ Mm (f2orgOf (kernelInput x g lb ub (some (X, G)) e)) ∧
      bmat (kernelInput x g lb ub (some (X, G)) e).theta (wmat x.length _ (kernelInput x g lb ub (some (X, G)) e).W) Mm =
        C10.bfgsChain ((thetaOf X G) • (1 : Matrix (Fin x.length) (Fin x.length) K)) (pairsOf x.length (diffs X) (diffs G)) ∧
      SubSpec (subInOf (kernelInput x g lb ub (some (X, G)) e)) x.length _ Mm := by
  have hi : kernelInput x g lb ub (some (X, G)) e =
      { x, g := fitTo x g, lb, ub, theta := thetaOf X G, W := buildW x.length (thetaOf X G) (diffs X) (diffs G),
        Minv := buildMinv (thetaOf X G) (diffs X) (diffs G), useFactor := true, epsFsec := e } := by
    simp only [kernelInput, hX, if_true]
  have hSY : (diffs X).length = (diffs G).length := by rw [diffs_length, diffs_length, hXG]
  have hm := lOf_length x.length (diffs X) (diffs G) hSY
  obtain ⟨Mm, hM⟩ := kernel_minv_invertible x.length (thetaOf X G) (diffs X) (diffs G) hθ hSY hS hY hcurv
  obtain ⟨hB, hspd⟩ := C10.kernel_matrix_is_bfgs x.length (thetaOf X G) (diffs X) (diffs G) hθ hSY hS hY hcurv Mm hM
  -- sizes of the kernel input
  obtain ⟨sW, srow, sk, -, -, -⟩ := kernelInput_sizes x g lb ub X G e hX hXG hn
  have hkk : 2 * (X.length - 1) = (lOf x.length (diffs X) (diffs G)).length + (lOf x.length (diffs X) (diffs G)).length := by
    rw [hm, diffs_length]; omega
  have hg : (fitTo x g).length = x.length := fitTo_length x g
  rw [hi] at sW srow sk
  have hsym : (wmat ((lOf x.length (diffs X) (diffs G)).length + (lOf x.length (diffs X) (diffs G)).length)
      ((lOf x.length (diffs X) (diffs G)).length + (lOf x.length (diffs X) (diffs G)).length)
      (buildMinv (thetaOf X G) (diffs X) (diffs G)))ᵀ =
      wmat _ _ (buildMinv (thetaOf X G) (diffs X) (diffs G)) := by
    funext a b
    simp only [transpose_apply, wmat]
    exact buildMinv_symm _ _ _ b a (by have := b.2; omega) (by have := a.2; omega)
  have hMl : (buildMinv (thetaOf X G) (diffs X) (diffs G)).length =
      (lOf x.length (diffs X) (diffs G)).length + (lOf x.length (diffs X) (diffs G)).length := by
    rw [C10.buildMinv_length, hm]
  have hMrow : ∀ r, r < (lOf x.length (diffs X) (diffs G)).length + (lOf x.length (diffs X) (diffs G)).length →
      ((buildMinv (thetaOf X G) (diffs X) (diffs G)).getD r []).length =
        (lOf x.length (diffs X) (diffs G)).length + (lOf x.length (diffs X) (diffs G)).length := by
    intro r hr
    rw [hm]
    apply C10.buildMinv_rows
    rw [List.getD_eq_getElem?_getD, List.getElem?_eq_getElem (by rw [C10.buildMinv_length, ← hm]; exact hr)]
    exact List.getElem_mem _
  -- the context of the Cauchy theorems
  have hq : QCtx (kernelInput x g lb ub (some (X, G)) e) x.length _ Mm := by
    rw [hi]
    exact C09.qctx_of_pivots _ x.length _ Mm rfl hg sW (fun r hr => by rw [srow r hr, hkk]) rfl hMl hMrow hM hsym
  have hpd : ∀ a : Fin x.length → K, a ≠ 0 →
      0 < a ⬝ᵥ (bmat (thetaOf X G) (wmat x.length _ (buildW x.length (thetaOf X G) (diffs X) (diffs G))) Mm *ᵥ a) := by
    intro a ha; rw [hB]; exact hspd.2 a ha
  have hmin : MinCtx (kernelInput x g lb ub (some (X, G)) e) x.length _ Mm (f2orgOf (kernelInput x g lb ub (some (X, G)) e)) := by
    refine ⟨hq, ?_, ?_, ?_⟩
    · rw [hi]; exact box
    · rw [hi]; exact hpd
    · intro dd hne hpat
      have := floor dd hne (by rw [hi] at hpat; exact hpat)
      rw [hi]
      show e * _ ≤ dd ⬝ᵥ (bmat (thetaOf X G) _ Mm *ᵥ dd)
      rw [hB]
      rw [hi] at this
      exact this
  have hk : kOf (kernelInput x g lb ub (some (X, G)) e) =
      (lOf x.length (diffs X) (diffs G)).length + (lOf x.length (diffs X) (diffs G)).length := by
    rw [hi, sk, hkk]
  -- the Cauchy step and the context of the subspace theorems
  obtain ⟨tF, -, -, -, hcp, hcv⟩ := C08.gcp_first_local_min _ x.length _ Mm hk hmin
  have hcl := cauchy_c_length _ x.length _ Mm hk hmin
  have hboxc : InBoxF lb ub (cauchy (kernelInput x g lb ub (some (X, G)) e)).1 := by
    have hbx := C11.inBox_of_inBoxF box
    have := C08.gcp_in_box (kernelInput x g lb ub (some (X, G)) e) (by rw [hi]; exact boxOk_of_inBox hbx)
      (by rw [hi]; exact hbx) (by rw [hi]; exact hg)
    rw [hi] at this ⊢
    exact inBoxF_of_inBox this
  have hxcl : (cauchy (kernelInput x g lb ub (some (X, G)) e)).1.length = x.length := by
    have := (inBoxF_lengths hboxc).1
    rw [← this, (inBoxF_lengths box).1]
  have hsub : SubCtxP (subInOf (kernelInput x g lb ub (some (X, G)) e)) x.length _ Mm := by
    apply SubCtxP.of_pd
    · show (kernelInput x g lb ub (some (X, G)) e).x.length = x.length
      rw [hi]
    · show (kernelInput x g lb ub (some (X, G)) e).g.length = x.length
      rw [hi]; exact hg
    · exact hxcl
    · show (kernelInput x g lb ub (some (X, G)) e).W.length = x.length
      rw [hi]; exact sW
    · intro r hr
      show ((kernelInput x g lb ub (some (X, G)) e).W.getD r []).length = _
      rw [hi]; rw [srow r hr, hkk]
    · exact hcl
    · show InBoxF (kernelInput x g lb ub (some (X, G)) e).lb (kernelInput x g lb ub (some (X, G)) e).ub _
      rw [hi] at hboxc ⊢
      exact hboxc
    · show (kernelInput x g lb ub (some (X, G)) e).theta ≠ 0
      rw [hi]; exact ne_of_gt hθ
    · show (kernelInput x g lb ub (some (X, G)) e).useFactor = true
      rw [hi]
    · show subK (subInOf (kernelInput x g lb ub (some (X, G)) e)) = _
      exact hk
    · show (kernelInput x g lb ub (some (X, G)) e).Minv.length = _
      rw [hi]; exact hMl
    · show ∀ r, r < _ → ((kernelInput x g lb ub (some (X, G)) e).Minv.getD r []).length = _
      rw [hi]; exact hMrow
    · show Mm * wmat _ _ (kernelInput x g lb ub (some (X, G)) e).Minv = 1
      rw [hi]; exact hM
    · show vec _ (cauchy (kernelInput x g lb ub (some (X, G)) e)).2 =
        (wmat x.length _ (kernelInput x g lb ub (some (X, G)) e).W)ᵀ *ᵥ
          (vec x.length (cauchy (kernelInput x g lb ub (some (X, G)) e)).1 - vec x.length (kernelInput x g lb ub (some (X, G)) e).x)
      rw [hcv, hcp]
    · show ∀ a : Fin x.length → K, a ≠ 0 → 0 < a ⬝ᵥ (bmat (kernelInput x g lb ub (some (X, G)) e).theta
        (wmat x.length _ (kernelInput x g lb ub (some (X, G)) e).W) Mm *ᵥ a)
      rw [hi]; exact hpd
  refine ⟨Mm, hk, hmin, ?_, subspace_spec _ x.length _ Mm _ hsub.toSubCtx⟩
  rw [hi]
  exact hB

/-- the same, with the dimension as a parameter (so that two inputs of equal length can be spoken of over one index type) -/
theorem kernel_subspec_n (n : Nat) (lb ub : Vec K) (e : K) (x g : Vec K) (X G : List (Vec K)) (hxn : x.length = n)
    (hX : X.length > 1) (hXG : X.length = G.length) (hn : 0 < n)
    (hS : ∀ j, j < (diffs X).length → ((diffs X).getD j []).length = n)
    (hY : ∀ j, j < (diffs X).length → ((diffs G).getD j []).length = n)
    (hcurv : ∀ j, j < (diffs X).length → vec n ((diffs X).getD j []) ≠ 0 ∧
      0 < vec n ((diffs X).getD j []) ⬝ᵥ vec n ((diffs G).getD j []))
    (hθ : 0 < thetaOf X G) (box : InBoxF lb ub x)
    (floor : ∀ dd : Fin n → K, dd ≠ 0 →
      (∀ r, dd r = 0 ∨ dd r = vec n (cauchyD0 (breakpoints x (fitTo x g) lb ub) (fitTo x g)) r) →
      e * f2orgOf (kernelInput x g lb ub (some (X, G)) e) ≤
        dd ⬝ᵥ (C10.bfgsChain ((thetaOf X G) • (1 : Matrix (Fin n) (Fin n) K))
          (pairsOf n (diffs X) (diffs G)) *ᵥ dd)) :
    ∃ Mm : Matrix (Fin ((lOf n (diffs X) (diffs G)).length + (lOf n (diffs X) (diffs G)).length))
        (Fin ((lOf n (diffs X) (diffs G)).length + (lOf n (diffs X) (diffs G)).length)) K,
      kOf (kernelInput x g lb ub (some (X, G)) e) =
        (lOf n (diffs X) (diffs G)).length + (lOf n (diffs X) (diffs G)).length ∧
      MinCtx (kernelInput x g lb ub (some (X, G)) e) n _ Mm (f2orgOf (kernelInput x g lb ub (some (X, G)) e)) ∧
      bmat (kernelInput x g lb ub (some (X, G)) e).theta (wmat n _ (kernelInput x g lb ub (some (X, G)) e).W) Mm =
        C10.bfgsChain ((thetaOf X G) • (1 : Matrix (Fin n) (Fin n) K)) (pairsOf n (diffs X) (diffs G)) ∧
      SubSpec (subInOf (kernelInput x g lb ub (some (X, G)) e)) n _ Mm := by
  subst hxn
  exact kernel_subspec lb ub e x g X G hX hXG hn hS hY hcurv hθ box floor

end Lbfgsb.C01
