/-
  Calculus helpers for C19: derivative, with respect to one coordinate, of sums whose terms
  depend on one or two neighbouring coordinates.
-/
import Mathlib.Analysis.Calculus.Deriv.Add
import Mathlib.Analysis.Calculus.Deriv.Mul
import Mathlib.Analysis.Calculus.Deriv.Pow
import Mathlib.Analysis.Calculus.Deriv.Comp
import Mathlib.Analysis.SpecialFunctions.Trigonometric.Deriv
import Mathlib.Analysis.SpecialFunctions.ExpDeriv
import Mathlib.Analysis.SpecialFunctions.Sqrt
import Mathlib.Algebra.BigOperators.Intervals

namespace Lbfgsb.Deriv
open Finset

/-- the `i`-th coordinate of `update x k t` as a function of `t` -/
theorem hasDerivAt_update (x : ℕ → ℝ) (k i : ℕ) (t : ℝ) :
    HasDerivAt (fun t => Function.update x k t i) (if i = k then 1 else 0) t := by
  by_cases h : i = k
  · subst h
    simp only [Function.update_self, if_true]
    exact hasDerivAt_id' t
  · simp only [Function.update_of_ne h, h, if_false]
    exact hasDerivAt_const t (x i)

/-- separable sums: only the `k`-th term depends on the `k`-th coordinate -/
theorem sum_separable (n k : ℕ) (hk : k < n) (x : ℕ → ℝ) (g : ℕ → ℝ → ℝ) (g' : ℝ)
    (hg : HasDerivAt (g k) g' (x k)) :
    HasDerivAt (fun t => ∑ i ∈ range n, g i (Function.update x k t i)) g' (x k) := by
  have h : ∀ i ∈ range n, HasDerivAt (fun t => g i (Function.update x k t i))
      (if i = k then g' else 0) (x k) := by
    intro i _
    by_cases hik : i = k
    · subst hik
      simp only [Function.update_self, if_true]
      exact hg
    · simp only [Function.update_of_ne hik, hik, if_false]
      exact hasDerivAt_const (x k) (g i (x i))
  have := HasDerivAt.fun_sum h
  rw [Finset.sum_ite_eq' (range n) k, if_pos (mem_range.2 hk)] at this
  exact this

/-- chained sums: term `i` depends on coordinates `i` and `i + 1`. `g i a b` is the term as a
function of `a = x i`, `b = x (i+1)`; `ga`/`gb` its partial derivatives. -/
theorem sum_chained (m k : ℕ) (x : ℕ → ℝ) (g : ℕ → ℝ → ℝ → ℝ) (ga gb : ℕ → ℝ)
    (hga : ∀ i, HasDerivAt (fun a => g i a (x (i + 1))) (ga i) (x i))
    (hgb : ∀ i, HasDerivAt (fun b => g i (x i) b) (gb i) (x (i + 1))) :
    HasDerivAt (fun t => ∑ i ∈ range m, g i (Function.update x k t i) (Function.update x k t (i + 1)))
      ((if k < m then ga k else 0) + (if 1 ≤ k ∧ k - 1 < m then gb (k - 1) else 0)) (x k) := by
  have h : ∀ i ∈ range m, HasDerivAt
      (fun t => g i (Function.update x k t i) (Function.update x k t (i + 1)))
      ((if i = k then ga i else 0) + (if i + 1 = k then gb i else 0)) (x k) := by
    intro i _
    by_cases h1 : i = k
    · subst h1
      have h2 : ¬ (i + 1 = i) := by omega
      simp only [Function.update_self, Function.update_of_ne h2, if_true, h2, if_false, add_zero]
      exact hga i
    · by_cases h2 : i + 1 = k
      · subst h2
        simp only [Function.update_self, Function.update_of_ne h1, h1, if_false, if_true, zero_add]
        exact hgb i
      · simp only [Function.update_of_ne h1, Function.update_of_ne h2, h1, h2, if_false, add_zero]
        exact hasDerivAt_const _ _
  have := HasDerivAt.fun_sum h
  refine this.congr_deriv ?_
  rw [Finset.sum_add_distrib, Finset.sum_ite_eq' (range m) k]
  simp only [mem_range]
  congr 1
  by_cases hk : 1 ≤ k ∧ k - 1 < m
  · rw [if_pos hk]
    rw [Finset.sum_eq_single (k - 1)]
    · have : k - 1 + 1 = k := by omega
      simp [this]
    · intro i _ hne
      have : ¬ (i + 1 = k) := by omega
      simp [this]
    · intro hnm
      exact absurd (mem_range.2 hk.2) hnm
  · rw [if_neg hk]
    apply Finset.sum_eq_zero
    intro i hi
    have hi' := mem_range.1 hi
    have : ¬ (i + 1 = k) := by omega
    simp [this]

/-- separable products: only the `k`-th factor depends on the `k`-th coordinate -/
theorem prod_separable (n k : ℕ) (hk : k < n) (x : ℕ → ℝ) (h : ℕ → ℝ → ℝ) (h' : ℝ)
    (hh : HasDerivAt (h k) h' (x k)) :
    HasDerivAt (fun t => ∏ i ∈ range n, h i (Function.update x k t i))
      (h' * ∏ i ∈ range n \ {k}, h i (x i)) (x k) := by
  have hmem : k ∈ range n := mem_range.2 hk
  have key : ∀ t, (∏ i ∈ range n, h i (Function.update x k t i))
      = h k t * ∏ i ∈ range n \ {k}, h i (x i) := by
    intro t
    have : ∀ i, h i (Function.update x k t i) = Function.update (fun i => h i (x i)) k (h k t) i := by
      intro i
      by_cases hik : i = k
      · subst hik; simp
      · simp [Function.update_of_ne hik]
    simp only [this]
    exact Finset.prod_update_of_mem hmem _ _
  simp only [key]
  exact hh.mul_const _

theorem prod_split (n k : ℕ) (hk : k < n) (f : ℕ → ℝ) :
    (∏ i ∈ range n, f i) = f k * ∏ i ∈ range n \ {k}, f i := by
  have hmem : k ∈ range n := mem_range.2 hk
  have := Finset.prod_update_of_mem hmem f (f k)
  simpa using this

end Lbfgsb.Deriv
