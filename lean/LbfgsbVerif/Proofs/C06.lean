/-
  Lemmas for C06 (restart restores the curvature memory). Level F: exact arithmetic in a
  commutative additive group (the property says "up to rounding": in floating point the
  reconstruction `x - Σ s` is not exact; the correspondence check replays `restoreXG` bit for
  bit instead).
-/
import LbfgsbVerif.Model.Memory
import Mathlib.Tactic.Abel
import Mathlib.Algebra.Group.Defs

namespace Lbfgsb
variable {α : Type} [AddCommGroup α]

/-- all vectors of a list have length `n` -/
def AllLen (n : Nat) (l : List (Vec α)) : Prop := ∀ v ∈ l, v.length = n

theorem vzip_len (f : α → α → α) (a b : Vec α) (h : a.length = b.length) :
    (vzip f a b).length = a.length := by
  induction a generalizing b with
  | nil => simp [vzip]
  | cons x xs ih =>
    cases b with
    | nil => simp at h
    | cons y ys => simp [vzip, ih ys (by simpa using h)]

theorem vsub_self_sub (x c : Vec α) (h : c.length = x.length) : vsub x (vsub x c) = c := by
  induction x generalizing c with
  | nil => cases c <;> simp_all [vsub, vzip]
  | cons a as ih =>
    cases c with
    | nil => simp at h
    | cons b bs =>
      simp only [vsub, vzip] at ih ⊢
      rw [ih bs (by simpa using h)]
      congr 1
      abel

theorem vsub_vsub_cancel (x a s : Vec α) (h1 : a.length = x.length) (h2 : s.length = x.length) :
    vsub (vsub x a) (vsub x (vadd a s)) = s := by
  induction x generalizing a s with
  | nil => cases a <;> cases s <;> simp_all [vsub, vadd, vzip]
  | cons p ps ih =>
    cases a with
    | nil => simp at h1
    | cons b bs =>
      cases s with
      | nil => simp at h2
      | cons t ts =>
        simp only [vsub, vadd, vzip] at ih ⊢
        rw [ih bs ts (by simpa using h1) (by simpa using h2)]
        congr 1
        abel

theorem revCumsum_ne_nil (a : Vec α) (rest : List (Vec α)) : revCumsum (a :: rest) ≠ [] := by
  simp only [revCumsum]
  split <;> simp

theorem revCumsum_allLen (n : Nat) (l : List (Vec α)) (h : AllLen n l) : AllLen n (revCumsum l) := by
  induction l with
  | nil => simp [revCumsum, AllLen]
  | cons a rest ih =>
    have hr : AllLen n rest := fun v hv => h v (List.mem_cons_of_mem _ hv)
    have ha : a.length = n := h a (List.mem_cons_self ..)
    simp only [revCumsum]
    split
    · intro v hv; simp at hv; rw [hv]; exact ha
    · rename_i c cs hc
      have ihc := ih hr
      rw [hc] at ihc
      intro v hv
      rcases List.mem_cons.1 hv with rfl | hv
      · have hcl : c.length = n := ihc c (List.mem_cons_self ..)
        simp [vadd, vzip_len _ c a (by rw [hcl, ha]), hcl]
      · exact ihc v hv

/-- **telescoping**: the differences of the reconstructed history followed by the current
point are the stored pairs, in chronological order. -/
theorem diffs_restore (x : Vec α) (sk : List (Vec α)) (h : AllLen x.length sk) :
    diffs ((revCumsum sk).map (vsub x ·) ++ [x]) = sk := by
  induction sk with
  | nil => simp [revCumsum, diffs]
  | cons a rest ih =>
    have hr : AllLen x.length rest := fun v hv => h v (List.mem_cons_of_mem _ hv)
    have ha : a.length = x.length := h a (List.mem_cons_self ..)
    have ihr := ih hr
    simp only [revCumsum]
    split
    · rename_i hnil
      -- `rest` is empty
      have : rest = [] := by
        cases rest with
        | nil => rfl
        | cons b bs => exact absurd hnil (revCumsum_ne_nil b bs)
      subst this
      simp [diffs, vsub_self_sub x a ha]
    · rename_i c cs hc
      rw [hc] at ihr
      have hcl : c.length = x.length := by
        have := revCumsum_allLen x.length rest hr
        rw [hc] at this
        exact this c (List.mem_cons_self ..)
      simp only [List.map_cons, List.cons_append, diffs] at ihr ⊢
      rw [vsub_vsub_cancel x c a hcl ha]
      congr 1

end Lbfgsb

namespace Lbfgsb
variable {α : Type}

/-- consecutive differences of a suffix are the suffix of the consecutive differences -/
theorem diffs_drop [Sub α] (l : List (Vec α)) (k : Nat) : diffs (l.drop k) = (diffs l).drop k := by
  induction k generalizing l with
  | zero => simp
  | succ k ih =>
    cases l with
    | nil => simp [diffs]
    | cons a rest =>
      cases rest with
      | nil => simp [diffs]
      | cons b rest' =>
        simp only [List.drop_succ_cons, diffs]
        exact ih (b :: rest')

theorem diffs_length [Sub α] (l : List (Vec α)) : (diffs l).length = l.length - 1 := by
  induction l with
  | nil => simp [diffs]
  | cons a rest ih =>
    cases rest with
    | nil => simp [diffs]
    | cons b rest' => simp only [diffs, List.length_cons] at ih ⊢; omega

/-- the bounded push keeps the last `maxcor + 1` entries -/
theorem pushBounded_eq (mc : Nat) (l acc : List (Vec α)) (h : acc.length ≤ mc + 1) :
    pushBounded mc acc l = (acc ++ l).drop ((acc ++ l).length - (mc + 1)) := by
  induction l generalizing acc with
  | nil =>
    simp only [pushBounded, List.append_nil]
    have : acc.length - (mc + 1) = 0 := by omega
    rw [this]; rfl
  | cons p ps ih =>
    simp only [pushBounded]
    by_cases hgt : acc.length > mc
    · simp only [hgt, if_true]
      have hl : acc.length = mc + 1 := by omega
      rw [ih (acc.drop 1 ++ [p]) (by simp; omega)]
      have e1 : acc.drop 1 ++ [p] ++ ps = (acc ++ p :: ps).drop 1 := by
        cases acc with
        | nil => simp at hl
        | cons a as => simp
      rw [e1, List.drop_drop]
      congr 1
      simp only [List.length_drop, List.length_append, List.length_cons]
      omega
    · simp only [hgt, if_false]
      rw [ih (acc ++ [p]) (by simp; omega)]
      simp

end Lbfgsb

namespace Lbfgsb
variable {α : Type} [Add α]

theorem revCumsum_length (l : List (Vec α)) : (revCumsum l).length = l.length := by
  induction l with
  | nil => simp [revCumsum]
  | cons a rest ih =>
    simp only [revCumsum]
    split
    · rename_i h
      rw [h] at ih
      simp at ih
      simp [← ih]
    · rename_i c cs h
      rw [h] at ih
      simp only [List.length_cons] at ih ⊢
      omega

end Lbfgsb
