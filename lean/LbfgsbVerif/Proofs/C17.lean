/-
  Lemmas for C17 (gradient scaler): where and how often the scaler is invoked, and with what.
-/
import LbfgsbVerif.Proofs.C05

namespace Lbfgsb
variable {α ε δ : Type}
variable [LinearOrder α] [Add α] [Sub α] [Mul α] [Div α] [Neg α] [OfNat α 0] [OfNat α 1]
  [FloatLike α]

omit [LinearOrder α] [Add α] [Sub α] [Mul α] [Div α] [Neg α] [OfNat α 0] [OfNat α 1]
  [FloatLike α] in
/-- entries of other kinds do not change the count of kind `k` -/
theorem countK_ext_of (k : CallKind) {P : Call α → Prop} (hP : ∀ c, P c → c.kind ≠ k)
    {l l' : List (Call α)} (h : LogExt P l l') : countK k l' = countK k l := by
  obtain ⟨d, rfl, hd⟩ := h
  simp only [countK, List.filter_append, List.length_append]
  have : (d.filter (fun c => c.kind = k)).length = 0 := by
    rw [List.length_eq_zero_iff, List.filter_eq_nil_iff]
    intro c hc; simpa using hP c (hd c hc)
  omega

omit [LinearOrder α] [Add α] [Sub α] [Mul α] [Div α] [Neg α] [OfNat α 0] [OfNat α 1]
  [FloatLike α] in
theorem LoopCall.notScaler {c : Call α} (h : LoopCall c) : c.kind ≠ .scaler := by
  rcases h with h | h | h | h <;> simp [h]

/-- what `prepare` does with the scaler, on a fresh start (no checkpoint) -/
theorem prepare_scaler (u : User α ε) (c : Cfg α) (hck : c.checkpoint = none) (i : Init α)
    (s : St α) (hc : Coh u.toSFUser i.sf) (h : prepare u c i = .ok s) :
    ∃ g0, gradSpec u.toSFUser i.sf.lb i.sf.ub i.sf.mode i.x = .ok g0 ∧
      (c.hasScaler = true →
        u.scaler i.x (vscale g0 i.sf.scale) = .ok s.sf.scale ∧
        countK .scaler s.sf.log = countK .scaler i.sf.log + 1) ∧
      (c.hasScaler = false →
        s.sf.scale = i.sf.scale ∧ countK .scaler s.sf.log = countK .scaler i.sf.log) := by
  unfold prepare at h
  simp only [bind, Except.bind] at h
  split at h
  · simp at h
  · rename_i e he
    unfold firstGrad at he
    simp only [hck] at he
    obtain ⟨es, g0, hg0, hg⟩ := gradv_sum hc he
    have hcntE : countK .scaler e.1.log = countK .scaler i.sf.log :=
      countK_ext_of .scaler (fun c hc' => by rcases hc'.1 with h' | h' <;> simp [h']) es.log
    refine ⟨g0, hg0, ?_⟩
    split at h
    · simp at h
    · rename_i s1 hs1
      split at h
      · simp at h
      · rename_i s2 hs2
        simp only [pure, Except.pure] at h
        injection h with h; subst h
        -- the update function and the memory initialisation add no scaler entry and keep the scale
        have h2 : s2.sf.scale = s1.sf.scale ∧ countK .scaler s2.sf.log = countK .scaler s1.sf.log := by
          unfold applyUpdate0 at hs2
          split at hs2
          · simp only [bind, Except.bind] at hs2
            split at hs2
            · simp at hs2
            · simp only [pure, Except.pure] at hs2
              injection hs2 with hs2; subst hs2
              simp [St.logCall, countK, List.filter_append]
          · simp only [pure, Except.pure] at hs2
            injection hs2 with hs2; subst hs2
            exact ⟨rfl, rfl⟩
        have h3 : (initMemory c s2).sf = s2.sf := by
          unfold initMemory; split <;> rfl
        rw [h3, h2.1, h2.2]
        unfold applyScaler at hs1
        constructor
        · intro hS
          simp only [hS, if_true, bind, Except.bind] at hs1
          split at hs1
          · simp at hs1
          · rename_i sc hsc
            simp only [pure, Except.pure] at hs1
            injection hs1 with hs1; subst hs1
            refine ⟨by simpa [St.logCall, Init.state, hg] using hsc, ?_⟩
            rw [← hcntE]
            simp [St.logCall, Init.state, countK, List.filter_append]
        · intro hS
          simp only [hS, Bool.false_eq_true, if_false, pure, Except.pure] at hs1
          injection hs1 with hs1; subst hs1
          exact ⟨es.scale, hcntE⟩

end Lbfgsb

namespace Lbfgsb
variable {α ε δ : Type}
variable [LinearOrder α] [Add α] [Sub α] [Mul α] [Div α] [Neg α] [OfNat α 0] [OfNat α 1]
  [FloatLike α]

/-- nothing logged before the first gradient is a scaler call -/
theorem initEval_no_scaler (u : User α ε) (c : Cfg α) (i : Init α) (h : initEval u c = .ok i) :
    countK .scaler i.sf.log = 0 := by
  unfold initEval at h
  simp only [bind, Except.bind] at h
  split at h
  · simp at h
  · rename_i e he
    have hE : countK .scaler e.1.log = 0 := by
      unfold firstEval at he
      simp only at he
      split at he
      · obtain ⟨es, -⟩ := funv_sum (new_coh' u.toSFUser c.mode _ c.lb c.ub) he
        rw [countK_ext_of .scaler (fun c hc' => by rcases hc'.1 with h' | h' <;> simp [h']) es.log]
        simp [countK, SF.new]
      · simp only [pure, Except.pure] at he
        injection he with he; subst he
        simp [countK, SF.new]
    split at h
    · simp at h
    · rename_i t ht
      have hT : countK .scaler t.1.log = 0 := by
        unfold evalFtarget at ht
        split at ht
        · simp only [pure, Except.pure] at ht
          injection ht with ht; subst ht; exact hE
        · simp only [bind, Except.bind] at ht
          split at ht
          · simp at ht
          · rename_i r hr
            simp only [pure, Except.pure] at ht
            injection ht with ht; subst ht
            obtain ⟨-, hsf⟩ := evalThresh_spec _ _ _ _ _ _ hr
            simp only
            rw [hsf]
            split
            · simpa [countK, List.filter_append] using hE
            · exact hE
      split at h
      · simp at h
      · rename_i gt hgt
        simp only [pure, Except.pure] at h
        injection h with h; subst h
        obtain ⟨-, hsf⟩ := evalThresh_spec _ _ _ _ _ _ hgt
        simp only
        rw [hsf]
        split
        · simpa [countK, List.filter_append] using hT
        · exact hT

end Lbfgsb
