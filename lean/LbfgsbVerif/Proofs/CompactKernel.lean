/-
  The matrices the list model builds for the kernels (`buildW`, `buildMinv`, Model/Kernels.lean) are the block form of
  the compact representation of the stored pairs. Hence (Proofs/CompactBridge.lean, Byrd–Nocedal–Schnabel) the model
  `B = θI − W Mm Wᵀ` of the kernels — `Mm` any left inverse of the matrix of `buildMinv` — is the dense BFGS matrix of the
  pairs and is positive definite when every stored pair has positive curvature: the hypothesis `pd` of the kernel theorems.
-/
import LbfgsbVerif.Proofs.CompactBridge
import LbfgsbVerif.Props.Kernels

set_option linter.unusedSectionVars false

namespace Lbfgsb.CompactKernel
open Matrix Lbfgsb CompactBfgs CompactBridge
variable {K : Type} [Field K] [LinearOrder K] [IsStrictOrderedRing K]

/-- the pairs of two lists of vectors, as functions on `Fin nn` (oldest first) -/
def pairsOf (nn : Nat) (S Y : List (Vec K)) : List ((Fin nn → K) × (Fin nn → K)) :=
  (S.zip Y).map fun p => (vec nn p.1, vec nn p.2)

theorem pairsOf_length (nn : Nat) (S Y : List (Vec K)) (h : S.length = Y.length) : (pairsOf nn S Y).length = S.length := by
  simp [pairsOf, h]

/-- the `s` of pair `j` (from the oldest) of a list given newest first -/
theorem sOf_getD {n : Type} [Fintype n] [DecidableEq n] (l : List ((n → K) × (n → K))) (j : Nat) (hj : j < l.length) :
    sOf l ⟨j, hj⟩ = (l.getD (l.length - 1 - j) (0, 0)).1 := by
  induction l generalizing j with
  | nil => simp at hj
  | cons p l' ih =>
    by_cases hjl : j = l'.length
    · subst hjl
      have : (⟨l'.length, hj⟩ : Fin (p :: l').length) = Fin.last _ := rfl
      rw [this, sOf_last]
      simp
    · have hj' : j < l'.length := by simp at hj; omega
      have : (⟨j, hj⟩ : Fin (p :: l').length) = Fin.castSucc ⟨j, hj'⟩ := rfl
      rw [this, sOf_castSucc, ih j hj']
      have e : (p :: l').length - 1 - j = (l'.length - 1 - j) + 1 := by simp; omega
      rw [e, List.getD_cons_succ]

theorem yOf_getD {n : Type} [Fintype n] [DecidableEq n] (l : List ((n → K) × (n → K))) (j : Nat) (hj : j < l.length) :
    yOf l ⟨j, hj⟩ = (l.getD (l.length - 1 - j) (0, 0)).2 := by
  induction l generalizing j with
  | nil => simp at hj
  | cons p l' ih =>
    by_cases hjl : j = l'.length
    · subst hjl
      have : (⟨l'.length, hj⟩ : Fin (p :: l').length) = Fin.last _ := rfl
      rw [this, yOf_last]
      simp
    · have hj' : j < l'.length := by simp at hj; omega
      have : (⟨j, hj⟩ : Fin (p :: l').length) = Fin.castSucc ⟨j, hj'⟩ := rfl
      rw [this, yOf_castSucc, ih j hj']
      have e : (p :: l').length - 1 - j = (l'.length - 1 - j) + 1 := by simp; omega
      rw [e, List.getD_cons_succ]

theorem pairs_rev_getD (nn : Nat) (S Y : List (Vec K)) (h : S.length = Y.length) (j : Nat) (hj : j < S.length) :
    ((pairsOf nn S Y).reverse.getD ((pairsOf nn S Y).reverse.length - 1 - j) (0, 0)) =
      (vec nn (S.getD j []), vec nn (Y.getD j [])) := by
  have hl := pairsOf_length nn S Y h
  have hjl : j < (pairsOf nn S Y).length := by rw [hl]; exact hj
  rw [List.getD_eq_getElem?_getD, List.getElem?_reverse (by rw [List.length_reverse]; omega), List.length_reverse]
  have e : (pairsOf nn S Y).length - 1 - ((pairsOf nn S Y).length - 1 - j) = j := by omega
  rw [e]
  unfold pairsOf
  rw [List.getElem?_map, List.getElem?_eq_getElem (by rw [List.length_zip, ← h, Nat.min_self]; exact hj)]
  simp only [Option.map_some, Option.getD_some, List.getElem_zip]
  rw [List.getD_eq_getElem?_getD, List.getD_eq_getElem?_getD, List.getElem?_eq_getElem hj,
    List.getElem?_eq_getElem (show j < Y.length by rw [← h]; exact hj)]
  rfl

section bridge
variable (nn : Nat) (θ : K) (S Y : List (Vec K))

/-- the pairs, newest first -/
abbrev lOf : List ((Fin nn → K) × (Fin nn → K)) := (pairsOf nn S Y).reverse

theorem lOf_length (h : S.length = Y.length) : (lOf nn S Y).length = S.length := by
  rw [List.length_reverse, pairsOf_length nn S Y h]

theorem sOf_lOf (h : S.length = Y.length) (j : Fin (lOf nn S Y).length) : sOf (lOf nn S Y) j = vec nn (S.getD j []) := by
  have hj : (j : Nat) < S.length := by rw [← lOf_length nn S Y h]; exact j.2
  have := sOf_getD (lOf nn S Y) j j.2
  rw [pairs_rev_getD nn S Y h j hj] at this
  exact this

theorem yOf_lOf (h : S.length = Y.length) (j : Fin (lOf nn S Y).length) : yOf (lOf nn S Y) j = vec nn (Y.getD j []) := by
  have hj : (j : Nat) < S.length := by rw [← lOf_length nn S Y h]; exact j.2
  have := yOf_getD (lOf nn S Y) j j.2
  rw [pairs_rev_getD nn S Y h j hj] at this
  exact this

/-- **`buildW` is the block `W = [Y θS]`** -/
theorem buildW_block (h : S.length = Y.length) (r : Fin nn) (c : Fin (lOf nn S Y).length ⊕ Fin (lOf nn S Y).length) :
    wmat nn ((lOf nn S Y).length + (lOf nn S Y).length) (buildW nn θ S Y) r (finSumFinEquiv c) =
      Compact.W (Smat (lOf nn S Y)) (Ymat (lOf nn S Y)) θ r c := by
  have hm := lOf_length nn S Y h
  unfold wmat buildW
  rw [getD_map_range _ _ _ _ r.2]
  cases c with
  | inl j =>
    have hj : (j : Nat) < Y.length := by rw [← h, ← hm]; exact j.2
    rw [finSumFinEquiv_apply_left, Fin.coe_castAdd, List.getD_append _ _ _ _ (by rw [List.length_map]; exact hj),
      getD_map' Y (fun y => y.getD r 0) j hj]
    simp only [Compact.W, fromCols_apply_inl, Ymat, of_apply]
    rw [yOf_lOf nn S Y h j]
    simp [vec, List.getD_eq_getElem?_getD, List.getElem?_eq_getElem hj]
  | inr j =>
    have hj : (j : Nat) < S.length := by rw [← hm]; exact j.2
    rw [finSumFinEquiv_apply_right, Fin.coe_natAdd,
      List.getD_append_right _ _ _ _ (by rw [List.length_map, ← h, ← hm]; omega)]
    have e : (lOf nn S Y).length + (j : Nat) - (List.map (fun y => y.getD (↑r) 0) Y).length = j := by
      rw [List.length_map, ← h, ← hm]; omega
    rw [e, getD_map' S (fun s => θ * s.getD r 0) j hj]
    simp only [Compact.W, fromCols_apply_inr, smul_apply, smul_eq_mul, Smat, of_apply]
    rw [sOf_lOf nn S Y h j]
    simp [vec, List.getD_eq_getElem?_getD, List.getElem?_eq_getElem hj]

/-- **`buildMinv` is the block `N = [[−D, Lᵀ],[L, θSᵀS]]`** -/
theorem buildMinv_block (h : S.length = Y.length)
    (hS : ∀ j, j < S.length → (S.getD j []).length = nn) (hY : ∀ j, j < S.length → (Y.getD j []).length = nn)
    (c d : Fin (lOf nn S Y).length ⊕ Fin (lOf nn S Y).length) :
    wmat ((lOf nn S Y).length + (lOf nn S Y).length) ((lOf nn S Y).length + (lOf nn S Y).length) (buildMinv θ S Y)
        (finSumFinEquiv c) (finSumFinEquiv d) =
      Compact.N (Smat (lOf nn S Y)) (Ymat (lOf nn S Y)) θ c d := by
  have hm := lOf_length nn S Y h
  rw [N_eq_Nent]
  unfold wmat
  have hb : ∀ x : Fin ((lOf nn S Y).length + (lOf nn S Y).length), (x : Nat) < 2 * S.length := by
    intro x; have := x.2; omega
  rw [buildMinv_entry θ S Y _ _ (hb _) (hb _)]
  unfold minvEntry
  dsimp only
  have hdot : ∀ (a b : Vec K), a.length = nn → b.length = nn → dot a b = vec nn a ⬝ᵥ vec nn b :=
    fun a b ha hb => dot_vec nn a b ha hb
  cases c with
  | inl i =>
    have hi : (i : Nat) < S.length := by rw [← hm]; exact i.2
    rw [finSumFinEquiv_apply_left, Fin.coe_castAdd, if_pos hi]
    cases d with
    | inl j =>
      have hj : (j : Nat) < S.length := by rw [← hm]; exact j.2
      rw [finSumFinEquiv_apply_left, Fin.coe_castAdd, if_pos hj]
      simp only [Nent, sOf_lOf nn S Y h, yOf_lOf nn S Y h]
      rw [hdot _ _ (hS i hi) (hY i hi)]
      by_cases hij : i = j
      · subst hij; simp
      · have : ¬ (i : Nat) = j := fun e => hij (Fin.ext e)
        rw [if_neg this, if_neg hij]
    | inr j =>
      have hj : (j : Nat) < S.length := by rw [← hm]; exact j.2
      have hnj : ¬ (lOf nn S Y).length + (j : Nat) < S.length := by omega
      have ej : (lOf nn S Y).length + (j : Nat) - S.length = j := by omega
      rw [finSumFinEquiv_apply_right, Fin.coe_natAdd, if_neg hnj, ej]
      simp only [Nent, sOf_lOf nn S Y h, yOf_lOf nn S Y h]
      rw [hdot _ _ (hS j hj) (hY i hi)]
      by_cases hij : i < j
      · rw [if_pos hij, if_pos (show (j : Nat) > i from hij)]
      · rw [if_neg hij, if_neg (show ¬ (j : Nat) > i from hij)]
  | inr i =>
    have hi : (i : Nat) < S.length := by rw [← hm]; exact i.2
    have hni : ¬ (lOf nn S Y).length + (i : Nat) < S.length := by omega
    have ei : (lOf nn S Y).length + (i : Nat) - S.length = i := by omega
    rw [finSumFinEquiv_apply_right, Fin.coe_natAdd, if_neg hni, ei]
    cases d with
    | inl j =>
      have hj : (j : Nat) < S.length := by rw [← hm]; exact j.2
      rw [finSumFinEquiv_apply_left, Fin.coe_castAdd, if_pos hj]
      simp only [Nent, sOf_lOf nn S Y h, yOf_lOf nn S Y h]
      rw [hdot _ _ (hS i hi) (hY j hj)]
      by_cases hij : j < i
      · rw [if_pos hij, if_pos (show (i : Nat) > j from hij)]
      · rw [if_neg hij, if_neg (show ¬ (i : Nat) > j from hij)]
    | inr j =>
      have hj : (j : Nat) < S.length := by rw [← hm]; exact j.2
      have hnj : ¬ (lOf nn S Y).length + (j : Nat) < S.length := by omega
      have ej : (lOf nn S Y).length + (j : Nat) - S.length = j := by omega
      rw [finSumFinEquiv_apply_right, Fin.coe_natAdd, if_neg hnj, ej]
      simp only [Nent, sOf_lOf nn S Y h]
      rw [hdot _ _ (hS i hi) (hS j hj)]

/-- **the model of the kernels is the BFGS matrix of the stored pairs.** `S`, `Y`: the stored differences (oldest first,
vectors of length `nn`), every pair with `s ≠ 0`, `sᵀy > 0`; `θ > 0`; `Mm` any left inverse of the matrix `buildMinv` builds.
Then `θI − W Mm Wᵀ` with `W` the matrix `buildW` builds is the dense BFGS recursion from `θI`, symmetric positive definite. -/
theorem kernel_model_eq_bfgs (hθ : 0 < θ) (h : S.length = Y.length)
    (hS : ∀ j, j < S.length → (S.getD j []).length = nn) (hY : ∀ j, j < S.length → (Y.getD j []).length = nn)
    (hcurv : ∀ j, j < S.length → vec nn (S.getD j []) ≠ 0 ∧ 0 < vec nn (S.getD j []) ⬝ᵥ vec nn (Y.getD j []))
    (Mm : Matrix (Fin ((lOf nn S Y).length + (lOf nn S Y).length)) (Fin ((lOf nn S Y).length + (lOf nn S Y).length)) K)
    (hM : Mm * wmat ((lOf nn S Y).length + (lOf nn S Y).length) ((lOf nn S Y).length + (lOf nn S Y).length)
      (buildMinv θ S Y) = 1) :
    bmat θ (wmat nn ((lOf nn S Y).length + (lOf nn S Y).length) (buildW nn θ S Y)) Mm =
        C10.bfgsChain (θ • (1 : Matrix (Fin nn) (Fin nn) K)) (pairsOf nn S Y) ∧
    C10.SPD (C10.bfgsChain (θ • (1 : Matrix (Fin nn) (Fin nn) K)) (pairsOf nn S Y)) := by
  have hp : ∀ p ∈ pairsOf nn S Y, p.1 ≠ 0 ∧ 0 < p.1 ⬝ᵥ p.2 := by
    intro p hpm
    unfold pairsOf at hpm
    rw [List.mem_map] at hpm
    obtain ⟨q, hq, rfl⟩ := hpm
    obtain ⟨j, hj, hqj⟩ := List.mem_iff_getElem.mp hq
    have hjS : j < S.length := by rw [List.length_zip, ← h, Nat.min_self] at hj; exact hj
    have hjY : j < Y.length := by rw [← h]; exact hjS
    rw [List.getElem_zip] at hqj
    have e1 : S.getD j [] = S[j] := by rw [List.getD_eq_getElem?_getD, List.getElem?_eq_getElem hjS]; rfl
    have e2 : Y.getD j [] = Y[j] := by rw [List.getD_eq_getElem?_getD, List.getElem?_eq_getElem hjY]; rfl
    have := hcurv j hjS
    rw [e1, e2] at this
    rw [← hqj]
    exact this
  have hWb : Compact.W (Smat (lOf nn S Y)) (Ymat (lOf nn S Y)) θ =
      (wmat nn ((lOf nn S Y).length + (lOf nn S Y).length) (buildW nn θ S Y)).submatrix id finSumFinEquiv := by
    funext r c
    rw [submatrix_apply]
    exact (buildW_block nn θ S Y h r c).symm
  have hNb : Compact.N (Smat (lOf nn S Y)) (Ymat (lOf nn S Y)) θ =
      (wmat ((lOf nn S Y).length + (lOf nn S Y).length) ((lOf nn S Y).length + (lOf nn S Y).length)
        (buildMinv θ S Y)).submatrix finSumFinEquiv finSumFinEquiv := by
    funext c d
    rw [submatrix_apply]
    exact (buildMinv_block nn θ S Y h hS hY c d).symm
  have hMb : Mm.submatrix finSumFinEquiv finSumFinEquiv * Compact.N (Smat (lOf nn S Y)) (Ymat (lOf nn S Y)) θ = 1 := by
    rw [hNb, submatrix_mul_equiv, hM, submatrix_one_equiv]
  obtain ⟨h1, h2⟩ := block_compact_eq_bfgs θ hθ (pairsOf nn S Y) hp (Mm.submatrix finSumFinEquiv finSumFinEquiv) hMb
  refine ⟨?_, h2⟩
  rw [← h1, hWb, transpose_submatrix, submatrix_mul_equiv, submatrix_mul_equiv]
  rfl

/-- in particular the hypothesis `pd` of the kernel theorems -/
theorem kernel_model_pd (hθ : 0 < θ) (h : S.length = Y.length)
    (hS : ∀ j, j < S.length → (S.getD j []).length = nn) (hY : ∀ j, j < S.length → (Y.getD j []).length = nn)
    (hcurv : ∀ j, j < S.length → vec nn (S.getD j []) ≠ 0 ∧ 0 < vec nn (S.getD j []) ⬝ᵥ vec nn (Y.getD j []))
    (Mm : Matrix (Fin ((lOf nn S Y).length + (lOf nn S Y).length)) (Fin ((lOf nn S Y).length + (lOf nn S Y).length)) K)
    (hM : Mm * wmat ((lOf nn S Y).length + (lOf nn S Y).length) ((lOf nn S Y).length + (lOf nn S Y).length)
      (buildMinv θ S Y) = 1) :
    ∀ a : Fin nn → K, a ≠ 0 →
      0 < a ⬝ᵥ (bmat θ (wmat nn ((lOf nn S Y).length + (lOf nn S Y).length) (buildW nn θ S Y)) Mm *ᵥ a) := by
  obtain ⟨h1, h2⟩ := kernel_model_eq_bfgs nn θ S Y hθ h hS hY hcurv Mm hM
  intro a ha
  rw [h1]
  exact h2.2 a ha

end bridge

end Lbfgsb.CompactKernel
