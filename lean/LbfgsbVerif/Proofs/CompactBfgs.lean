/-
  Byrd–Nocedal–Schnabel: the compact representation `θ I − W N⁻¹ Wᵀ` IS the BFGS matrix of the
  stored pairs. Proved by bordering: adding a pair `(s, y)` to a representation `(W, N, N⁻¹)`
  of `B` appends the columns `θ s`, `y` to `W`, borders `N` with the column `w = Wᵀ s`, the
  diagonal entries `θ sᵀs` and `−sᵀy`, and the inverse of the bordered matrix is explicit (Schur
  complement `σ = sᵀ B s`); the resulting `θ I − W' N'⁻¹ W'ᵀ` is the BFGS update of `B`.
-/
import LbfgsbVerif.Props.C10
import Mathlib.Data.Matrix.Block
import Mathlib.Algebra.BigOperators.Ring.Finset

namespace Lbfgsb.CompactBfgs
open Matrix
variable {n : Type} [Fintype n] [DecidableEq n]
variable {K : Type} [Field K] [LinearOrder K] [IsStrictOrderedRing K]
variable {κ : Type} [Fintype κ] [DecidableEq κ]

/-- index type after adding one pair: the old indices, one for the new `θ s` column, one for the new `y` column -/
abbrev Ext (κ : Type) := (κ ⊕ Unit) ⊕ Unit

/-- `W' = [W  θs  y]` -/
def extW (W : Matrix n κ K) (θ : K) (s y : n → K) : Matrix n (Ext κ) K :=
  Matrix.of fun i c => match c with
    | .inl (.inl a) => W i a
    | .inl (.inr _) => θ * s i
    | .inr _ => y i

/-- the bordered middle matrix: `w = Wᵀ s` between the old indices and the new `s` index, `θ sᵀs` and
`−sᵀy` on the diagonal, zeros elsewhere -/
def extN (W : Matrix n κ K) (N : Matrix κ κ K) (θ : K) (s y : n → K) : Matrix (Ext κ) (Ext κ) K :=
  Matrix.of fun c d => match c, d with
    | .inl (.inl a), .inl (.inl b) => N a b
    | .inl (.inl a), .inl (.inr _) => (Wᵀ *ᵥ s) a
    | .inl (.inr _), .inl (.inl b) => (Wᵀ *ᵥ s) b
    | .inl (.inr _), .inl (.inr _) => θ * (s ⬝ᵥ s)
    | .inr _, .inr _ => -(s ⬝ᵥ y)
    | _, _ => 0

/-- its inverse (Schur complement `σ = θ sᵀs − wᵀ N⁻¹ w = sᵀ B s`) -/
noncomputable def extNinv (W : Matrix n κ K) (Ninv : Matrix κ κ K) (θ : K) (s y : n → K) : Matrix (Ext κ) (Ext κ) K :=
  let u := Ninv *ᵥ (Wᵀ *ᵥ s)
  let σ := θ * (s ⬝ᵥ s) - (Wᵀ *ᵥ s) ⬝ᵥ u
  Matrix.of fun c d => match c, d with
    | .inl (.inl a), .inl (.inl b) => Ninv a b + u a * u b / σ
    | .inl (.inl a), .inl (.inr _) => -(u a) / σ
    | .inl (.inr _), .inl (.inl b) => -(u b) / σ
    | .inl (.inr _), .inl (.inr _) => 1 / σ
    | .inr _, .inr _ => -(1 / (s ⬝ᵥ y))
    | _, _ => 0

/-- sums over the extended index type -/
theorem sum_ext (f : Ext κ → K) :
    ∑ c, f c = (∑ a, f (.inl (.inl a))) + f (.inl (.inr ())) + f (.inr ()) := by
  rw [Fintype.sum_sum_type, Fintype.sum_sum_type]
  simp

section step
variable (W : Matrix n κ K) (N Ninv : Matrix κ κ K) (θ : K) (s y : n → K)

/-- `w = Wᵀ s` -/
abbrev wv : κ → K := Wᵀ *ᵥ s
/-- `u = N⁻¹ w` -/
abbrev uv : κ → K := Ninv *ᵥ (Wᵀ *ᵥ s)
/-- the Schur complement -/
abbrev sig : K := θ * (s ⬝ᵥ s) - (Wᵀ *ᵥ s) ⬝ᵥ (Ninv *ᵥ (Wᵀ *ᵥ s))

theorem N_u (hinv : N * Ninv = 1) (a : κ) : ∑ b, N a b * uv W Ninv s b = wv W s a := by
  have : N *ᵥ (Ninv *ᵥ (Wᵀ *ᵥ s)) = Wᵀ *ᵥ s := by rw [mulVec_mulVec, hinv, one_mulVec]
  exact congrFun this a

theorem N_Ninv (hinv : N * Ninv = 1) (a d : κ) : ∑ b, N a b * Ninv b d = if a = d then 1 else 0 := by
  have := congrFun (congrFun hinv a) d
  rw [Matrix.mul_apply, Matrix.one_apply] at this
  exact this

theorem w_Ninv (hsym : Ninvᵀ = Ninv) (d : κ) : ∑ b, wv W s b * Ninv b d = uv W Ninv s d := by
  simp only [uv, mulVec, dotProduct]
  apply Finset.sum_congr rfl
  intro b _
  have : Ninv b d = Ninv d b := by
    have := congrFun (congrFun hsym d) b
    simpa [Matrix.transpose_apply] using this
  rw [this]; ring

theorem sum_affine (f g h : κ → K) (c : K) :
    ∑ b, f b * (g b + h b * c) = (∑ b, f b * g b) + (∑ b, f b * h b) * c := by
  rw [Finset.sum_mul, ← Finset.sum_add_distrib]
  apply Finset.sum_congr rfl; intro b _; ring

theorem sum_scale (f h : κ → K) (c : K) : ∑ b, f b * (h b * c) = (∑ b, f b * h b) * c := by
  rw [Finset.sum_mul]; apply Finset.sum_congr rfl; intro b _; ring

theorem ext_inv (hinv : N * Ninv = 1) (hsym : Ninvᵀ = Ninv) (hσ : sig W Ninv θ s ≠ 0) (hρ : s ⬝ᵥ y ≠ 0) :
    extN W N θ s y * extNinv W Ninv θ s y = 1 := by
  have hwu : (∑ b, wv W s b * uv W Ninv s b) = θ * (s ⬝ᵥ s) - sig W Ninv θ s := by
    simp only [sig, dotProduct]; ring
  ext c d
  rw [Matrix.mul_apply, sum_ext]
  rcases c with (a | ⟨⟩) | ⟨⟩ <;> rcases d with (d | ⟨⟩) | ⟨⟩ <;>
    simp only [extN, extNinv, Matrix.of_apply, Matrix.one_apply, mul_zero, zero_mul, add_zero, zero_add,
      Finset.sum_const_zero, Sum.inl.injEq, reduceCtorEq, if_false, if_true]
  · -- (old, old)
    have h1 := N_Ninv N Ninv hinv a d
    have h2 := N_u W N Ninv s hinv a
    have e : ∀ b, N a b * (Ninv b d + uv W Ninv s b * uv W Ninv s d / sig W Ninv θ s) =
        N a b * (Ninv b d + uv W Ninv s b * (uv W Ninv s d / sig W Ninv θ s)) := by intro b; ring
    rw [Finset.sum_congr rfl (fun b _ => e b), sum_affine, h1, h2]
    ring
  · -- (old, new s)
    have h2 := N_u W N Ninv s hinv a
    have e : ∀ b, N a b * (-(uv W Ninv s b) / sig W Ninv θ s) = N a b * (uv W Ninv s b * (-1 / sig W Ninv θ s)) := by
      intro b; ring
    rw [Finset.sum_congr rfl (fun b _ => e b), sum_scale, h2]
    ring
  · -- (new s, old)
    have h3 := w_Ninv W Ninv s hsym d
    have e : ∀ b, wv W s b * (Ninv b d + uv W Ninv s b * uv W Ninv s d / sig W Ninv θ s) =
        wv W s b * (Ninv b d + uv W Ninv s b * (uv W Ninv s d / sig W Ninv θ s)) := by intro b; ring
    rw [Finset.sum_congr rfl (fun b _ => e b), sum_affine, h3, hwu]
    field_simp
    ring
  · -- (new s, new s)
    have e : ∀ b, wv W s b * (-(uv W Ninv s b) / sig W Ninv θ s) = wv W s b * (uv W Ninv s b * (-1 / sig W Ninv θ s)) := by
      intro b; ring
    rw [Finset.sum_congr rfl (fun b _ => e b), sum_scale, hwu]
    field_simp
    ring
  · -- (new y, new y)
    field_simp

theorem ext_symm (hsym : Ninvᵀ = Ninv) : (extNinv W Ninv θ s y)ᵀ = extNinv W Ninv θ s y := by
  ext c d
  have hs : ∀ a b, Ninv b a = Ninv a b := by
    intro a b
    have := congrFun (congrFun hsym a) b
    simpa [Matrix.transpose_apply] using this
  rcases c with (a | ⟨⟩) | ⟨⟩ <;> rcases d with (d | ⟨⟩) | ⟨⟩ <;>
    simp only [extNinv, Matrix.transpose_apply, Matrix.of_apply]
  rw [hs]; ring

/-- the matrix represented -/
abbrev Bof : Matrix n n K := θ • (1 : Matrix n n K) - W * Ninv * Wᵀ

theorem B_s : Bof W Ninv θ *ᵥ s = θ • s - W *ᵥ uv W Ninv s := by
  rw [sub_mulVec, smul_mulVec, one_mulVec, ← mulVec_mulVec, ← mulVec_mulVec]

theorem s_B_s : s ⬝ᵥ (Bof W Ninv θ *ᵥ s) = sig W Ninv θ s := by
  rw [B_s, dotProduct_sub, dotProduct_smul, smul_eq_mul, dotProduct_mulVec]
  simp only [sig]
  congr 1
  rw [← mulVec_transpose]

theorem ext_B (hσ : sig W Ninv θ s ≠ 0) (hρ : s ⬝ᵥ y ≠ 0) :
    θ • (1 : Matrix n n K) - extW W θ s y * extNinv W Ninv θ s y * (extW W θ s y)ᵀ =
      C10.bfgs (Bof W Ninv θ) s y := by
  unfold C10.bfgs
  rw [s_B_s, B_s]
  ext i j
  have hA : ∀ k, (W *ᵥ uv W Ninv s) k = ∑ a, W k a * uv W Ninv s a := fun k => rfl
  simp only [Matrix.sub_apply, Matrix.add_apply, Matrix.smul_apply, Matrix.one_apply, smul_eq_mul, vecMulVec_apply,
    Pi.sub_apply, Pi.smul_apply, hA]
  rw [Matrix.mul_apply, sum_ext]
  simp only [Matrix.mul_apply, sum_ext, extW, extNinv, Matrix.of_apply, Matrix.transpose_apply, mul_zero, add_zero, zero_add,
    Finset.sum_const_zero, uv, sig] at hσ ⊢
  -- name the pieces
  generalize hu : Ninv *ᵥ Wᵀ *ᵥ s = u at hσ ⊢
  generalize hsg : θ * s ⬝ᵥ s - Wᵀ *ᵥ s ⬝ᵥ u = σ at hσ ⊢
  generalize hr : s ⬝ᵥ y = ρ at hρ ⊢
  set A_i := ∑ a, W i a * u a with hAi
  set A_j := ∑ a, W j a * u a with hAj
  have e1 : ∀ b, (∑ a, W i a * (Ninv a b + u a * u b / σ)) = (∑ a, W i a * Ninv a b) + A_i * (u b / σ) := by
    intro b
    have e : ∀ a, W i a * (Ninv a b + u a * u b / σ) = W i a * (Ninv a b + u a * (u b / σ)) := by intro a; ring
    rw [Finset.sum_congr rfl (fun a _ => e a), sum_affine]
  have e2 : (∑ a, W i a * (-(u a) / σ)) = A_i * (-1 / σ) := by
    have e : ∀ a, W i a * (-(u a) / σ) = W i a * (u a * (-1 / σ)) := by intro a; ring
    rw [Finset.sum_congr rfl (fun a _ => e a), sum_scale]
  simp only [e1, e2]
  have e3 : (∑ b, ((∑ a, W i a * Ninv a b) + A_i * (u b / σ) + θ * s i * (-(u b) / σ)) * W j b) =
      (∑ b, (∑ a, W i a * Ninv a b) * W j b) + (A_i - θ * s i) * A_j / σ := by
    have e : ∀ b, ((∑ a, W i a * Ninv a b) + A_i * (u b / σ) + θ * s i * (-(u b) / σ)) * W j b =
        (∑ a, W i a * Ninv a b) * W j b + W j b * (u b * ((A_i - θ * s i) / σ)) := by
      intro b; ring
    rw [Finset.sum_congr rfl (fun b _ => e b), Finset.sum_add_distrib, sum_scale]
    ring
  rw [e3]
  field_simp
  ring

end step
/-! ### the whole memory: pairs listed newest first -/
section chain

/-- index type of the representation of a list of pairs -/
def Idx : List ((n → K) × (n → K)) → Type
  | [] => PEmpty
  | _ :: l => Ext (Idx l)

instance instFintypeIdx : (l : List ((n → K) × (n → K))) → Fintype (Idx l)
  | [] => inferInstanceAs (Fintype PEmpty)
  | _ :: l => by
    haveI := instFintypeIdx l
    exact inferInstanceAs (Fintype ((Idx l ⊕ Unit) ⊕ Unit))

instance instDecEqIdx : (l : List ((n → K) × (n → K))) → DecidableEq (Idx l)
  | [] => inferInstanceAs (DecidableEq PEmpty)
  | _ :: l => by
    haveI := instDecEqIdx l
    exact inferInstanceAs (DecidableEq ((Idx l ⊕ Unit) ⊕ Unit))

/-- `W`, the middle matrix `N` and its inverse for a list of pairs (newest first), built by bordering -/
noncomputable def Wl (θ : K) : (l : List ((n → K) × (n → K))) → Matrix n (Idx l) K
  | [] => 0
  | p :: l => extW (Wl θ l) θ p.1 p.2

noncomputable def Nl (θ : K) : (l : List ((n → K) × (n → K))) → Matrix (Idx l) (Idx l) K
  | [] => 0
  | p :: l => extN (Wl θ l) (Nl θ l) θ p.1 p.2

noncomputable def Ninvl (θ : K) : (l : List ((n → K) × (n → K))) → Matrix (Idx l) (Idx l) K
  | [] => 0
  | p :: l => extNinv (Wl θ l) (Ninvl θ l) θ p.1 p.2

/-- the BFGS matrix of a list of pairs (newest first) started from `θ I` -/
noncomputable def bfgsRev (θ : K) : List ((n → K) × (n → K)) → Matrix n n K
  | [] => θ • 1
  | p :: l => C10.bfgs (bfgsRev θ l) p.1 p.2

/-- no update is degenerate: `sᵀ B s ≠ 0` and `sᵀ y ≠ 0` for every pair against the matrix of the older ones -/
def NonDeg (θ : K) : List ((n → K) × (n → K)) → Prop
  | [] => True
  | p :: l => p.1 ⬝ᵥ (bfgsRev θ l *ᵥ p.1) ≠ 0 ∧ p.1 ⬝ᵥ p.2 ≠ 0 ∧ NonDeg θ l

/-- **Byrd–Nocedal–Schnabel** -/
theorem compact_eq_bfgs (θ : K) (l : List ((n → K) × (n → K))) (h : NonDeg θ l) :
    Nl θ l * Ninvl θ l = 1 ∧ (Ninvl θ l)ᵀ = Ninvl θ l ∧
    θ • (1 : Matrix n n K) - Wl θ l * Ninvl θ l * (Wl θ l)ᵀ = bfgsRev θ l := by
  induction l with
  | nil =>
    refine ⟨by ext i; exact i.elim, by ext i; exact i.elim, ?_⟩
    simp only [Wl, Ninvl, bfgsRev]
    rw [Matrix.zero_mul, Matrix.zero_mul, sub_zero]
  | cons p l ih =>
    obtain ⟨hσ, hρ, hl⟩ := h
    obtain ⟨h1, h2, h3⟩ := ih hl
    have hσ' : sig (Wl θ l) (Ninvl θ l) θ p.1 ≠ 0 := by
      rw [← s_B_s]; unfold Bof; rw [h3]; exact hσ
    refine ⟨ext_inv _ _ _ θ p.1 p.2 h1 h2 hσ' hρ, ext_symm _ _ θ p.1 p.2 h2, ?_⟩
    have := ext_B (Wl θ l) (Ninvl θ l) θ p.1 p.2 hσ' hρ
    unfold Bof at this
    rw [h3] at this
    exact this

end chain
end Lbfgsb.CompactBfgs
