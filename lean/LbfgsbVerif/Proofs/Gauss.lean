/-
  Correctness of the Gauss–Jordan elimination of the model (`gaussSolve`, Model/Compact.lean) over a field:
  when no pivot vanishes, the vector it returns solves the system. The proof does not depend on which row
  the partial pivoting selects.

    * every step maps the solution set of the system of the rows onto itself (forwards for any pivot,
      backwards for a non-zero pivot);
    * after step `k` the columns `0..k` of the left block are unit vectors;
    * after `n` steps the left block is the identity, so the last column solves the final system, hence the
      original one.
-/
import Mathlib.Algebra.BigOperators.Fin
import Mathlib.Algebra.BigOperators.Field
import Mathlib.Tactic.LinearCombination
import Mathlib.Algebra.Order.Field.Basic
import Mathlib.Tactic.Ring
import Mathlib.Tactic.FieldSimp
import LbfgsbVerif.Model.Compact
import LbfgsbVerif.Proofs.Pointwise
import Mathlib.Data.List.GetD

set_option linter.unusedSectionVars false

namespace Lbfgsb.Gauss
open Lbfgsb
variable {K : Type} [Field K] [LinearOrder K]

/-- entry `(i, j)` of a list of rows -/
def ent (M : List (Vec K)) (i j : Nat) : K := (M.getD i []).getD j 0

/-- `n` rows of length `n + 1` -/
structure WF (n : Nat) (M : List (Vec K)) : Prop where
  len : M.length = n
  row : ∀ i, i < n → (M.getD i []).length = n + 1

theorem getD_set_rows (M : List (Vec K)) (i r : Nat) (v : Vec K) (hi : i < M.length) :
    (M.set i v).getD r [] = if r = i then v else M.getD r [] := by
  simp only [List.getD_eq_getElem?_getD, List.getElem?_set]
  by_cases h : i = r
  · subst h; simp [hi]
  · have h' : ¬ r = i := fun e => h e.symm
    simp [h, h']

theorem swapRows_getD (M : List (Vec K)) (i j r : Nat) (hi : i < M.length) (hj : j < M.length) :
    (swapRows M i j).getD r [] = if r = j then M.getD i [] else if r = i then M.getD j [] else M.getD r [] := by
  unfold swapRows
  rw [getD_set_rows _ _ _ _ (by rw [List.length_set]; exact hj), getD_set_rows _ _ _ _ hi]

theorem swapRows_length (M : List (Vec K)) (i j : Nat) : (swapRows M i j).length = M.length := by
  simp [swapRows]

theorem swapRows_wf {n : Nat} {M : List (Vec K)} (h : WF n M) (i j : Nat) (hi : i < n) (hj : j < n) :
    WF n (swapRows M i j) := by
  refine ⟨by rw [swapRows_length, h.len], fun r hr => ?_⟩
  rw [swapRows_getD M i j r (by rw [h.len]; exact hi) (by rw [h.len]; exact hj)]
  split
  · exact h.row i hi
  · split
    · exact h.row j hj
    · exact h.row r hr

theorem pivotIdx_range (M : List (Vec K)) (k n : Nat) (hk : k < n) :
    k ≤ pivotIdx M k n ∧ pivotIdx M k n < n := by
  unfold pivotIdx
  have : ∀ (l : List Nat) (p0 : Nat), (∀ i ∈ l, k ≤ i ∧ i < n) → k ≤ p0 ∧ p0 < n →
      k ≤ l.foldl (fun piv i => if fabs ((M.getD piv []).getD k 0) < fabs ((M.getD i []).getD k 0) then i else piv) p0 ∧
      l.foldl (fun piv i => if fabs ((M.getD piv []).getD k 0) < fabs ((M.getD i []).getD k 0) then i else piv) p0 < n := by
    intro l
    induction l with
    | nil => intro p0 _ h0; exact h0
    | cons a t ih =>
      intro p0 hl h0
      simp only [List.foldl_cons]
      apply ih
      · intro i hi; exact hl i (List.mem_cons_of_mem _ hi)
      · split
        · exact hl a List.mem_cons_self
        · exact h0
  apply this
  · intro i hi
    rw [List.mem_range'_1] at hi
    omega
  · exact ⟨Nat.le_refl _, hk⟩

theorem getD_mapIdx_rows (M : List (Vec K)) (f : Nat → Vec K → Vec K) (r : Nat) (hr : r < M.length) :
    (M.mapIdx f).getD r [] = f r (M.getD r []) := by
  simp [List.getD_eq_getElem?_getD, List.getElem?_mapIdx, List.getElem?_eq_getElem hr]

theorem getD_zipmap (a b : Vec K) (g : K × K → K) (j : Nat) (ha : j < a.length) (hb : j < b.length) :
    ((a.zip b).map g).getD j 0 = g (a.getD j 0, b.getD j 0) := by
  have hz : j < (a.zip b).length := by rw [List.length_zip]; omega
  rw [List.getD_eq_getElem?_getD, List.getElem?_map, List.getElem?_eq_getElem hz, List.getElem_zip,
    List.getD_eq_getElem?_getD, List.getD_eq_getElem?_getD, List.getElem?_eq_getElem ha, List.getElem?_eq_getElem hb]
  rfl

/-- entries of the matrix after step `k` -/
theorem gjStep_ent {n : Nat} {M : List (Vec K)} (h : WF n M) (k : Nat) (hk : k < n) (r j : Nat) (hr : r < n)
    (hj : j < n + 1) :
    ent (gjStep M k n) r j =
      if r = k then ent (swapRows M k (pivotIdx M k n)) k j / pivotOf M k n
      else ent (swapRows M k (pivotIdx M k n)) r j -
        ent (swapRows M k (pivotIdx M k n)) r k * (ent (swapRows M k (pivotIdx M k n)) k j / pivotOf M k n) := by
  obtain ⟨hp1, hp2⟩ := pivotIdx_range M k n hk
  have hw := swapRows_wf h k (pivotIdx M k n) hk hp2
  have hrl : r < (swapRows M k (pivotIdx M k n)).length := by rw [hw.len]; exact hr
  unfold gjStep ent pivotOf
  dsimp only
  rw [getD_mapIdx_rows _ _ _ hrl]
  split
  · rw [getD_map (fun a => a / _) _ 0 j (by rw [hw.row k hk]; exact hj)]
  · rw [getD_zipmap _ _ _ j (by rw [hw.row r hr]; exact hj) (by rw [List.length_map, hw.row k hk]; exact hj),
      getD_map (fun a => a / _) _ 0 j (by rw [hw.row k hk]; exact hj)]

theorem gjStep_wf {n : Nat} {M : List (Vec K)} (h : WF n M) (k : Nat) (hk : k < n) : WF n (gjStep M k n) := by
  obtain ⟨hp1, hp2⟩ := pivotIdx_range M k n hk
  have hw := swapRows_wf h k (pivotIdx M k n) hk hp2
  refine ⟨by simp [gjStep, hw.len], fun r hr => ?_⟩
  have hrl : r < (swapRows M k (pivotIdx M k n)).length := by rw [hw.len]; exact hr
  unfold gjStep
  dsimp only
  rw [getD_mapIdx_rows _ _ _ hrl]
  split
  · rw [List.length_map, hw.row k hk]
  · rw [List.length_map, List.length_zip, List.length_map, hw.row k hk, hw.row r hr, Nat.min_self]

theorem swap_ent {n : Nat} {M : List (Vec K)} (h : WF n M) (k piv : Nat) (hk : k < n) (hp : piv < n) (r j : Nat) :
    ent (swapRows M k piv) r j = if r = piv then ent M k j else if r = k then ent M piv j else ent M r j := by
  unfold ent
  rw [swapRows_getD M k piv r (by rw [h.len]; exact hk) (by rw [h.len]; exact hp)]
  split
  · rfl
  · split <;> rfl

/-- `x` satisfies every equation of the system whose augmented matrix is `M` -/
def Sat (n : Nat) (x : Nat → K) (M : List (Vec K)) : Prop :=
  ∀ r, r < n → ∑ j ∈ Finset.range n, ent M r j * x j = ent M r n

theorem swap_sat {n : Nat} {M : List (Vec K)} (h : WF n M) (k piv : Nat) (hk : k < n) (hp : piv < n) (x : Nat → K) :
    Sat n x (swapRows M k piv) ↔ Sat n x M := by
  constructor
  · intro hs r hr
    by_cases h1 : r = k
    · have := hs piv hp
      simp only [swap_ent h k piv hk hp, if_true] at this
      rw [h1]; exact this
    · by_cases h2 : r = piv
      · have := hs k hk
        simp only [swap_ent h k piv hk hp] at this
        by_cases h3 : k = piv
        · rw [h2, ← h3]; simpa [h3] using this
        · simp only [h3, if_false, if_true] at this
          rw [h2]; exact this
      · have := hs r hr
        simp only [swap_ent h k piv hk hp, h1, h2, if_false] at this
        exact this
  · intro hs r hr
    simp only [swap_ent h k piv hk hp]
    by_cases h2 : r = piv
    · simp only [h2, if_true]; exact hs k hk
    · by_cases h1 : r = k
      · simp only [h2, h1, if_false, if_true]
        by_cases h3 : k = piv
        · exact absurd (h1.trans h3) h2
        · simp only [h3, if_false]; exact hs piv hp
      · simp only [h2, h1, if_false]; exact hs r hr

theorem step_sat_fwd {n : Nat} {M : List (Vec K)} (h : WF n M) (k : Nat) (hk : k < n) (x : Nat → K)
    (hs : Sat n x M) : Sat n x (gjStep M k n) := by
  obtain ⟨hp1, hp2⟩ := pivotIdx_range M k n hk
  have hs1 := (swap_sat h k (pivotIdx M k n) hk hp2 x).mpr hs
  intro r hr
  rw [gjStep_ent h k hk r n hr (Nat.lt_succ_self n)]
  have hsum : ∀ j ∈ Finset.range n, ent (gjStep M k n) r j * x j =
      (if r = k then ent (swapRows M k (pivotIdx M k n)) k j / pivotOf M k n
       else ent (swapRows M k (pivotIdx M k n)) r j -
        ent (swapRows M k (pivotIdx M k n)) r k * (ent (swapRows M k (pivotIdx M k n)) k j / pivotOf M k n)) * x j := by
    intro j hj
    rw [gjStep_ent h k hk r j hr (by have := Finset.mem_range.mp hj; omega)]
  rw [Finset.sum_congr rfl hsum]
  by_cases hrk : r = k
  · simp only [hrk, if_true]
    rw [← hs1 k hk, Finset.sum_div]
    apply Finset.sum_congr rfl
    intro j _; ring
  · simp only [hrk, if_false]
    rw [← hs1 k hk, ← hs1 r hr]
    simp only [sub_mul, Finset.sum_sub_distrib]
    congr 1
    rw [Finset.sum_div, Finset.mul_sum]
    apply Finset.sum_congr rfl
    intro j _; ring

theorem step_sat_bwd {n : Nat} {M : List (Vec K)} (h : WF n M) (k : Nat) (hk : k < n) (x : Nat → K)
    (hp : pivotOf M k n ≠ 0) (hs : Sat n x (gjStep M k n)) : Sat n x M := by
  obtain ⟨hp1, hp2⟩ := pivotIdx_range M k n hk
  apply (swap_sat h k (pivotIdx M k n) hk hp2 x).mp
  have hrow : ∀ r, r < n → ∑ j ∈ Finset.range n, ent (gjStep M k n) r j * x j =
      ∑ j ∈ Finset.range n, (if r = k then ent (swapRows M k (pivotIdx M k n)) k j / pivotOf M k n
       else ent (swapRows M k (pivotIdx M k n)) r j -
        ent (swapRows M k (pivotIdx M k n)) r k * (ent (swapRows M k (pivotIdx M k n)) k j / pivotOf M k n)) * x j := by
    intro r hr
    apply Finset.sum_congr rfl
    intro j hj
    rw [gjStep_ent h k hk r j hr (by have := Finset.mem_range.mp hj; omega)]
  have hk' : ∑ j ∈ Finset.range n, ent (swapRows M k (pivotIdx M k n)) k j * x j =
      ent (swapRows M k (pivotIdx M k n)) k n := by
    have := hs k hk
    rw [hrow k hk, gjStep_ent h k hk k n hk (Nat.lt_succ_self n)] at this
    simp only [if_true] at this
    have h2 : ∑ j ∈ Finset.range n, ent (swapRows M k (pivotIdx M k n)) k j / pivotOf M k n * x j =
        (∑ j ∈ Finset.range n, ent (swapRows M k (pivotIdx M k n)) k j * x j) / pivotOf M k n := by
      rw [Finset.sum_div]; apply Finset.sum_congr rfl; intro j _; ring
    rw [h2] at this
    field_simp at this
    exact this
  intro r hr
  by_cases hrk : r = k
  · rw [hrk]; exact hk'
  · have := hs r hr
    rw [hrow r hr, gjStep_ent h k hk r n hr (Nat.lt_succ_self n)] at this
    simp only [hrk, if_false] at this
    have h2 : ∑ j ∈ Finset.range n, (ent (swapRows M k (pivotIdx M k n)) r j -
        ent (swapRows M k (pivotIdx M k n)) r k * (ent (swapRows M k (pivotIdx M k n)) k j / pivotOf M k n)) * x j =
        (∑ j ∈ Finset.range n, ent (swapRows M k (pivotIdx M k n)) r j * x j) -
        ent (swapRows M k (pivotIdx M k n)) r k *
          ((∑ j ∈ Finset.range n, ent (swapRows M k (pivotIdx M k n)) k j * x j) / pivotOf M k n) := by
      simp only [sub_mul, Finset.sum_sub_distrib]
      congr 1
      rw [Finset.sum_div, Finset.mul_sum]
      apply Finset.sum_congr rfl
      intro j _; ring
    rw [h2, hk'] at this
    linear_combination this

/-- the first `k` columns of the left block are unit vectors -/
def Col (n k : Nat) (M : List (Vec K)) : Prop :=
  ∀ r, r < n → ∀ j, j < k → ent M r j = if r = j then 1 else 0

theorem step_col {n : Nat} {M : List (Vec K)} (h : WF n M) (k : Nat) (hk : k < n) (hc : Col n k M)
    (hp : pivotOf M k n ≠ 0) : Col n (k + 1) (gjStep M k n) := by
  obtain ⟨hp1, hp2⟩ := pivotIdx_range M k n hk
  have hpiv : pivotOf M k n = ent (swapRows M k (pivotIdx M k n)) k k := rfl
  -- the exchange of two rows `≥ k` keeps the first `k` columns
  have hc1 : ∀ r, r < n → ∀ j, j < k → ent (swapRows M k (pivotIdx M k n)) r j = if r = j then 1 else 0 := by
    intro r hr j hj
    rw [swap_ent h k _ hk hp2]
    by_cases h1 : r = pivotIdx M k n
    · simp only [h1, if_true]
      rw [hc k hk j hj, if_neg (show ¬ k = j by omega), if_neg (show ¬ pivotIdx M k n = j by omega)]
    · by_cases h2 : r = k
      · subst h2
        simp only [h1, if_false, if_true]
        rw [hc _ hp2 j hj, if_neg (show ¬ pivotIdx M r n = j by omega), if_neg (show ¬ r = j by omega)]
      · simp only [h1, h2, if_false]; exact hc r hr j hj
  intro r hr j hj
  rw [gjStep_ent h k hk r j hr (by omega)]
  by_cases hjk : j < k
  · have hkj : ent (swapRows M k (pivotIdx M k n)) k j = 0 := by rw [hc1 k hk j hjk, if_neg (by omega)]
    by_cases hrk : r = k
    · simp only [hrk, if_true, hkj, zero_div]
      rw [if_neg (by omega)]
    · simp only [hrk, if_false, hkj, zero_div, mul_zero, sub_zero]
      exact hc1 r hr j hjk
  · have hjk' : j = k := by omega
    subst hjk'
    by_cases hrk : r = j
    · simp only [hrk, if_true]
      rw [← hpiv]; exact div_self hp
    · simp only [hrk, if_false]
      rw [← hpiv, div_self hp]; ring

theorem gjLoop_wf (n : Nat) : ∀ (fuel k : Nat) (M : List (Vec K)), k + fuel ≤ n → WF n M → WF n (gjLoop n fuel k M) := by
  intro fuel
  induction fuel with
  | zero => intro k M _ h; exact h
  | succ f ih =>
    intro k M hkf h
    simp only [gjLoop]
    exact ih (k + 1) _ (by omega) (gjStep_wf h k (by omega))

/-- all the steps: the columns become unit vectors and the solution set is unchanged -/
theorem gjLoop_spec (n : Nat) : ∀ (fuel k : Nat) (M : List (Vec K)), k + fuel ≤ n → WF n M → Col n k M →
    (∀ p ∈ gjPivots n fuel k M, p ≠ 0) →
    Col n (k + fuel) (gjLoop n fuel k M) ∧ ∀ x : Nat → K, Sat n x (gjLoop n fuel k M) ↔ Sat n x M := by
  intro fuel
  induction fuel with
  | zero => intro k M _ _ hc _; exact ⟨hc, fun _ => Iff.rfl⟩
  | succ f ih =>
    intro k M hkf h hc hp
    simp only [gjLoop]
    simp only [gjPivots, List.mem_cons, forall_eq_or_imp] at hp
    have hk : k < n := by omega
    obtain ⟨h1, h2⟩ := ih (k + 1) (gjStep M k n) (by omega) (gjStep_wf h k hk) (step_col h k hk hc hp.1) hp.2
    refine ⟨by rw [show k + (f + 1) = k + 1 + f by omega]; exact h1, fun x => ?_⟩
    rw [h2 x]
    exact ⟨step_sat_bwd h k hk x hp.1, step_sat_fwd h k hk x⟩

/-- with the identity as left block the system says `x = last column` -/
theorem sat_of_col {n : Nat} {M : List (Vec K)} (hc : Col n n M) (x : Nat → K) :
    Sat n x M ↔ ∀ r, r < n → x r = ent M r n := by
  have hsum : ∀ r, r < n → ∑ j ∈ Finset.range n, ent M r j * x j = x r := by
    intro r hr
    have : ∀ j ∈ Finset.range n, ent M r j * x j = if r = j then x j else 0 := by
      intro j hj
      rw [hc r hr j (Finset.mem_range.mp hj)]
      split <;> simp
    rw [Finset.sum_congr rfl this, Finset.sum_ite_eq, if_pos (Finset.mem_range.mpr hr)]
  constructor
  · intro hs r hr; rw [← hs r hr, hsum r hr]
  · intro hx r hr; rw [hsum r hr, hx r hr]

theorem augment_row (A : List (Vec K)) (b : Vec K) (n : Nat) (hb : b.length = n) (hA : A.length = n)
    (r : Nat) (hr : r < n) : (augment A b).getD r [] = A.getD r [] ++ [b.getD r 0] := by
  unfold augment
  have hz : r < (A.zip b).length := by rw [List.length_zip, hA, hb, Nat.min_self]; exact hr
  have ha : r < A.length := by rw [hA]; exact hr
  have hbb : r < b.length := by rw [hb]; exact hr
  rw [List.getD_eq_getElem?_getD, List.getElem?_map, List.getElem?_eq_getElem hz, List.getD_eq_getElem?_getD,
    List.getD_eq_getElem?_getD, List.getElem?_eq_getElem ha, List.getElem?_eq_getElem hbb]
  simp [List.getElem_zip]

theorem augment_wf (A : List (Vec K)) (b : Vec K) (n : Nat) (hb : b.length = n) (hA : A.length = n)
    (hrow : ∀ i, i < n → (A.getD i []).length = n) : WF n (augment A b) := by
  refine ⟨by simp [augment, hA, hb], fun i hi => ?_⟩
  rw [augment_row A b n hb hA i hi, List.length_append, hrow i hi]; rfl

theorem augment_ent_left (A : List (Vec K)) (b : Vec K) (n : Nat) (hb : b.length = n) (hA : A.length = n)
    (hrow : ∀ i, i < n → (A.getD i []).length = n) (r j : Nat) (hr : r < n) (hj : j < n) :
    ent (augment A b) r j = (A.getD r []).getD j 0 := by
  unfold ent
  rw [augment_row A b n hb hA r hr, List.getD_append _ _ _ _ (by rw [hrow r hr]; exact hj)]

theorem augment_ent_right (A : List (Vec K)) (b : Vec K) (n : Nat) (hb : b.length = n) (hA : A.length = n)
    (hrow : ∀ i, i < n → (A.getD i []).length = n) (r : Nat) (hr : r < n) :
    ent (augment A b) r n = b.getD r 0 := by
  unfold ent
  rw [augment_row A b n hb hA r hr, List.getD_append_right _ _ _ _ (by rw [hrow r hr]), hrow r hr, Nat.sub_self]
  rfl

/-- **the elimination solves the system**: when no pivot vanishes the returned vector `x` satisfies `A x = b` -/
theorem gaussSolve_solves (A : List (Vec K)) (b : Vec K) (n : Nat) (hb : b.length = n) (hA : A.length = n)
    (hrow : ∀ i, i < n → (A.getD i []).length = n) (hp : ∀ p ∈ gjPivots n n 0 (augment A b), p ≠ 0) :
    (gaussSolve A b).length = n ∧
    ∀ r, r < n → ∑ j ∈ Finset.range n, (A.getD r []).getD j 0 * (gaussSolve A b).getD j 0 = b.getD r 0 := by
  have hw := augment_wf A b n hb hA hrow
  have hwf := gjLoop_wf n n 0 (augment A b) (by omega) hw
  obtain ⟨hc, hs⟩ := gjLoop_spec n n 0 (augment A b) (by omega) hw (fun _ _ j hj => absurd hj (Nat.not_lt_zero j)) hp
  rw [Nat.zero_add] at hc
  have hlen : (gaussSolve A b).length = n := by simp [gaussSolve, hb, hwf.len]
  refine ⟨hlen, ?_⟩
  have hx : ∀ r, r < n → (gaussSolve A b).getD r 0 = ent (gjLoop n n 0 (augment A b)) r n := by
    intro r hr
    unfold gaussSolve ent
    rw [hb, List.getD_eq_getElem?_getD, List.getElem?_map, List.getElem?_eq_getElem (by rw [hwf.len]; exact hr),
      List.getD_eq_getElem?_getD (l := gjLoop n n 0 (augment A b)), List.getElem?_eq_getElem (by rw [hwf.len]; exact hr)]
    rfl
  have hsat := (hs fun j => (gaussSolve A b).getD j 0).mp ((sat_of_col hc _).mpr hx)
  intro r hr
  have := hsat r hr
  rw [augment_ent_right A b n hb hA hrow r hr] at this
  rw [← this]
  apply Finset.sum_congr rfl
  intro j hj
  rw [augment_ent_left A b n hb hA hrow r j hr (Finset.mem_range.mp hj)]

/-- and it is the only solution -/
theorem gaussSolve_unique (A : List (Vec K)) (b : Vec K) (n : Nat) (hb : b.length = n) (hA : A.length = n)
    (hrow : ∀ i, i < n → (A.getD i []).length = n) (hp : ∀ p ∈ gjPivots n n 0 (augment A b), p ≠ 0)
    (x : Nat → K) (hx : ∀ r, r < n → ∑ j ∈ Finset.range n, (A.getD r []).getD j 0 * x j = b.getD r 0) :
    ∀ r, r < n → x r = (gaussSolve A b).getD r 0 := by
  have hw := augment_wf A b n hb hA hrow
  have hwf := gjLoop_wf n n 0 (augment A b) (by omega) hw
  obtain ⟨hc, hs⟩ := gjLoop_spec n n 0 (augment A b) (by omega) hw (fun _ _ j hj => absurd hj (Nat.not_lt_zero j)) hp
  rw [Nat.zero_add] at hc
  have h0 : Sat n x (augment A b) := by
    intro r hr
    rw [augment_ent_right A b n hb hA hrow r hr, ← hx r hr]
    apply Finset.sum_congr rfl
    intro j hj
    rw [augment_ent_left A b n hb hA hrow r j hr (Finset.mem_range.mp hj)]
  have h1 := (sat_of_col hc x).mp ((hs x).mpr h0)
  intro r hr
  rw [h1 r hr]
  unfold gaussSolve ent
  rw [hb, List.getD_eq_getElem?_getD (l := List.map _ _), List.getElem?_map, List.getElem?_eq_getElem (by rw [hwf.len]; exact hr),
    List.getD_eq_getElem?_getD (l := gjLoop n n 0 (augment A b)), List.getElem?_eq_getElem (by rw [hwf.len]; exact hr)]
  rfl

/-! ### a regular matrix has no vanishing pivot -/
section regular
variable [IsStrictOrderedRing K]

theorem fabs_nonneg (a : K) : 0 ≤ fabs a := by
  unfold fabs; split
  · rename_i h; exact le_of_lt (neg_pos.mpr h)
  · rename_i h; exact not_lt.mp h

theorem fabs_eq_zero {a : K} (h : fabs a = 0) : a = 0 := by
  unfold fabs at h; split at h
  · exact neg_eq_zero.mp h
  · exact h

/-- the pivot row carries the largest modulus of column `k` among the rows `k..n-1` -/
theorem pivotIdx_max (M : List (Vec K)) (k n : Nat) (i : Nat) (hki : k ≤ i) (hin : i < n) :
    fabs (ent M i k) ≤ fabs (ent M (pivotIdx M k n) k) := by
  unfold pivotIdx
  have key : ∀ (l : List Nat) (p0 : Nat),
      fabs (ent M p0 k) ≤ fabs (ent M (l.foldl (fun piv i => if fabs ((M.getD piv []).getD k 0) < fabs ((M.getD i []).getD k 0) then i else piv) p0) k) ∧
      ∀ j ∈ l, fabs (ent M j k) ≤ fabs (ent M (l.foldl (fun piv i => if fabs ((M.getD piv []).getD k 0) < fabs ((M.getD i []).getD k 0) then i else piv) p0) k) := by
    intro l
    induction l with
    | nil => intro p0; exact ⟨le_refl _, fun j hj => absurd hj List.not_mem_nil⟩
    | cons a t ih =>
      intro p0
      simp only [List.foldl_cons]
      obtain ⟨h1, h2⟩ := ih (if fabs ((M.getD p0 []).getD k 0) < fabs ((M.getD a []).getD k 0) then a else p0)
      have hp0 : fabs (ent M p0 k) ≤ fabs (ent M (if fabs ((M.getD p0 []).getD k 0) < fabs ((M.getD a []).getD k 0) then a else p0) k) := by
        split
        · rename_i hlt; exact le_of_lt hlt
        · exact le_refl _
      have ha : fabs (ent M a k) ≤ fabs (ent M (if fabs ((M.getD p0 []).getD k 0) < fabs ((M.getD a []).getD k 0) then a else p0) k) := by
        split
        · exact le_refl _
        · rename_i hnlt; exact not_lt.mp hnlt
      refine ⟨le_trans hp0 h1, fun j hj => ?_⟩
      rcases List.mem_cons.mp hj with rfl | hj
      · exact le_trans ha h1
      · exact h2 j hj
  have := (key (List.range' k (n - k)) k).2 i (by rw [List.mem_range'_1]; omega)
  exact this

/-- the right-hand side column is zero -/
def RhsZero (n : Nat) (M : List (Vec K)) : Prop := ∀ r, r < n → ent M r n = 0

theorem step_rhsZero {n : Nat} {M : List (Vec K)} (h : WF n M) (k : Nat) (hk : k < n) (hz : RhsZero n M) :
    RhsZero n (gjStep M k n) := by
  obtain ⟨hp1, hp2⟩ := pivotIdx_range M k n hk
  have hz1 : ∀ r, r < n → ent (swapRows M k (pivotIdx M k n)) r n = 0 := by
    intro r hr
    rw [swap_ent h k _ hk hp2]
    split
    · exact hz k hk
    · split
      · exact hz _ hp2
      · exact hz r hr
  intro r hr
  rw [gjStep_ent h k hk r n hr (Nat.lt_succ_self n)]
  split
  · rw [hz1 k hk, zero_div]
  · rw [hz1 r hr, hz1 k hk, zero_div, mul_zero, sub_zero]

/-- if the pivot of step `k` vanishes, the homogeneous system of the rows has a solution with `x k = 1` -/
theorem kernel_of_zero_pivot {n : Nat} {M : List (Vec K)} (h : WF n M) (k : Nat) (hk : k < n) (hc : Col n k M)
    (hz : RhsZero n M) (hp : pivotOf M k n = 0) :
    Sat n (fun j => if j < k then -ent M j k else if j = k then 1 else 0) M := by
  obtain ⟨hp1, hp2⟩ := pivotIdx_range M k n hk
  -- the whole column `k` vanishes below the diagonal
  have hpiv : ent M (pivotIdx M k n) k = 0 := by
    have : pivotOf M k n = ent (swapRows M k (pivotIdx M k n)) k k := rfl
    rw [this, swap_ent h k _ hk hp2] at hp
    split at hp
    · rename_i e; rw [← e]; exact hp
    · simpa using hp
  have hcol : ∀ i, k ≤ i → i < n → ent M i k = 0 := by
    intro i hki hin
    have := pivotIdx_max M k n i hki hin
    rw [hpiv] at this
    have h0 : fabs (0 : K) = 0 := by simp [fabs]
    rw [h0] at this
    exact fabs_eq_zero (le_antisymm this (fabs_nonneg _))
  intro r hr
  rw [hz r hr]
  have hterm : ∀ j ∈ Finset.range n, ent M r j * (if j < k then -ent M j k else if j = k then 1 else 0) =
      (if r = j then (if j < k then -ent M j k else 0) else 0) + (if k = j then ent M r k else 0) := by
    intro j hj
    have hjn := Finset.mem_range.mp hj
    by_cases hjk : j < k
    · rw [if_pos hjk, hc r hr j hjk, if_pos hjk, if_neg (by omega : ¬ k = j)]
      split <;> simp
    · rw [if_neg hjk]
      by_cases hjk' : j = k
      · subst hjk'
        simp
      · rw [if_neg hjk', if_neg (by omega : ¬ k = j), if_neg hjk]
        simp
  rw [Finset.sum_congr rfl hterm, Finset.sum_add_distrib, Finset.sum_ite_eq, Finset.sum_ite_eq,
    if_pos (Finset.mem_range.mpr hr), if_pos (Finset.mem_range.mpr hk)]
  by_cases hrk : r < k
  · rw [if_pos hrk]; ring
  · rw [if_neg hrk, hcol r (by omega) hr]; ring

/-- when the homogeneous system of the rows has only the zero solution, no pivot vanishes -/
theorem gjPivots_ne_zero (n : Nat) : ∀ (fuel k : Nat) (M : List (Vec K)), k + fuel ≤ n → WF n M → Col n k M → RhsZero n M →
    (∀ x : Nat → K, Sat n x M → ∀ j, j < n → x j = 0) → ∀ p ∈ gjPivots n fuel k M, p ≠ 0 := by
  intro fuel
  induction fuel with
  | zero => intro k M _ _ _ _ _ p hp; simp [gjPivots] at hp
  | succ f ih =>
    intro k M hkf h hc hz hinj p hp
    have hk : k < n := by omega
    have hpk : pivotOf M k n ≠ 0 := by
      intro h0
      have := hinj _ (kernel_of_zero_pivot h k hk hc hz h0) k hk
      simp at this
    simp only [gjPivots, List.mem_cons] at hp
    rcases hp with rfl | hp
    · exact hpk
    · exact ih (k + 1) (gjStep M k n) (by omega) (gjStep_wf h k hk) (step_col h k hk hc hpk) (step_rhsZero h k hk hz)
        (fun x hs => hinj x (step_sat_bwd h k hk x hpk hs)) p hp

end regular

end Lbfgsb.Gauss
