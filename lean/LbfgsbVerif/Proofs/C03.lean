/-
  Invariants of the shell used by the C03 theorems (the objective never increases between
  accepted iterates). Level U: only the order is used; `*` (scaling) is uninterpreted.
-/
import LbfgsbVerif.Proofs.C04

namespace Lbfgsb
variable {α ε δ : Type}
variable [LinearOrder α] [Add α] [Sub α] [Mul α] [Div α] [Neg α] [OfNat α 0] [OfNat α 1]
  [FloatLike α]

/-- a non-increasing list -/
def NonInc : List α → Prop
  | a :: b :: rest => ¬ a < b ∧ NonInc (b :: rest)
  | _ => True

omit [Add α] [Sub α] [Mul α] [Div α] [Neg α] [OfNat α 0] [OfNat α 1] [FloatLike α] in
/-- replacing the last element by something not larger keeps the list non-increasing -/
theorem NonInc.replace_last (l : List α) (a b : α) (h : NonInc (l ++ [a])) (hba : ¬ a < b) :
    NonInc (l ++ [b]) := by
  induction l with
  | nil => simp [NonInc]
  | cons x xs ih =>
    cases xs with
    | nil =>
      simp only [List.cons_append, List.nil_append, NonInc] at h ⊢
      exact ⟨fun hh => h.1 (lt_of_lt_of_le hh (le_of_not_gt hba)), trivial⟩
    | cons y ys =>
      simp only [List.cons_append, NonInc] at h ⊢
      exact ⟨h.1, ih h.2⟩

omit [Add α] [Sub α] [Mul α] [Div α] [Neg α] [OfNat α 0] [OfNat α 1] [FloatLike α] in
/-- duplicating the last element keeps the list non-increasing -/
theorem NonInc.dup_last (l : List α) (a : α) (h : NonInc (l ++ [a])) : NonInc (l ++ [a] ++ [a]) := by
  induction l with
  | nil => simp [NonInc]
  | cons x xs ih =>
    cases xs with
    | nil =>
      simp only [List.cons_append, List.nil_append, NonInc] at h ⊢
      exact ⟨h.1, lt_irrefl _, trivial⟩
    | cons y ys =>
      simp only [List.cons_append, NonInc] at h ⊢
      exact ⟨h.1, ih h.2⟩

/-- the chain of objective values: start, callback states, current -/
def chain (fstart : α) (s : St α) : List α := fstart :: (s.cbStates.map (·.f) ++ [s.f])

def Inv3 (fstart : α) (s : St α) : Prop := NonInc (chain fstart s)

/-- what a pass does to the chain (no update function): either nothing changes, or the
objective value strictly decreases and at most one callback state carrying the new value is
appended -/
structure Pass3 (s s' : St α) : Prop where
  alt : (s'.f = s.f ∧ s'.cbStates = s.cbStates ∧ s'.x = s.x ∧ s'.g = s.g) ∨
        (s'.f < s.f ∧ (s'.cbStates = s.cbStates ∨
          ∃ cb, s'.cbStates = s.cbStates ++ [cb] ∧ cb.f = s'.f))

omit [Add α] [Sub α] [Mul α] [Div α] [Neg α] [OfNat α 0] [OfNat α 1] [FloatLike α] in
theorem Pass3.inv {fstart : α} {s s' : St α} (p : Pass3 s s') (hi : Inv3 fstart s) :
    Inv3 fstart s' := by
  unfold Inv3 chain at *
  rcases p.alt with ⟨hf, hc, -, -⟩ | ⟨hlt, hc | ⟨cb, hc, hcf⟩⟩
  · rw [hf, hc]; exact hi
  · rw [hc]
    have := NonInc.replace_last (fstart :: s.cbStates.map (·.f)) s.f s'.f (by simpa using hi)
      (not_lt_of_gt hlt)
    simpa using this
  · rw [hc]
    have h1 := NonInc.replace_last (fstart :: s.cbStates.map (·.f)) s.f s'.f (by simpa using hi)
      (not_lt_of_gt hlt)
    have h2 := NonInc.dup_last _ _ h1
    simpa [hcf] using h2

theorem stopTests_frame {c : Cfg α} {s s' : St α} {f0Old : α} {stop : Bool}
    (h : stopTests c s f0Old = (s', stop)) :
    s'.f = s.f ∧ s'.cbStates = s.cbStates ∧ s'.x = s.x ∧ s'.g = s.g ∧ s'.sf = s.sf ∧
      s'.nit = s.nit := by
  unfold stopTests at h
  split at h
  · injection h with h1 _; subst h1; exact ⟨rfl, rfl, rfl, rfl, rfl, rfl⟩
  · split at h <;> (injection h with h1 _; subst h1; exact ⟨rfl, rfl, rfl, rfl, rfl, rfl⟩)

theorem iterStep_pass3 (u : User α ε) (c : Cfg α) (hU : c.hasUpdate = false) (s s' : St α)
    (d : Vec α) (stp f0Old : α) (flow : Flow) (hcoh : Coh u.toSFUser s.sf)
    (hdown : ∃ v, u.F (trial s.x d c.lb c.ub stp) = .ok v ∧ v * s.sf.scale < s.f)
    (h : iterStep u c s d stp f0Old = .ok (s', flow)) : Pass3 s s' := by
  unfold iterStep at h
  simp only [bind, Except.bind] at h
  split at h
  · simp at h
  · rename_i e he
    obtain ⟨es, ⟨v', hv', hf'⟩, -⟩ := funAndGrad_sum hcoh he
    obtain ⟨v, hv, hlt⟩ := hdown
    have hvv : v' = v := by rw [hv] at hv'; injection hv' with h'; exact h'.symm
    have hdec : e.2.1 < s.f := by rw [hf', hvv]; exact hlt
    split at h
    · simp at h
    · rename_i r hr
      obtain ⟨s1, stop⟩ := r
      have hfr : s1.f = e.2.1 ∧ s1.cbStates = s.cbStates := by
        unfold afterEval at hr
        simp only [hU, Bool.false_eq_true, if_false, pure, Except.pure] at hr
        injection hr with hr
        obtain ⟨h1, h2, -⟩ := stopTests_frame hr
        exact ⟨h1, h2⟩
      cases stop with
      | true =>
        simp only [if_true, pure, Except.pure] at h
        injection h with h; injection h with h1 _; subst h1
        exact ⟨Or.inr ⟨by rw [hfr.1]; exact hdec, Or.inl hfr.2⟩⟩
      | false =>
        simp only [Bool.false_eq_true, if_false] at h
        split at h
        · simp at h
        · rename_i s2 hs2
          simp only [pure, Except.pure] at h
          injection h with h; injection h with h1 _; subst h1
          refine ⟨Or.inr ?_⟩
          have hfr' : (memStep c s1).f = e.2.1 ∧ (memStep c s1).cbStates = s.cbStates := hfr
          generalize memStep c s1 = sm at hs2 hfr'
          unfold doCallback at hs2
          split at hs2
          · simp only [bind, Except.bind] at hs2
            split at hs2
            · simp at hs2
            · rename_i b hb
              simp only [pure, Except.pure] at hs2
              injection hs2 with hs2
              cases b <;>
                (simp only [if_true, Bool.false_eq_true, if_false] at hs2; subst hs2;
                 exact ⟨by simp only [St.logCall]; rw [hfr'.1]; exact hdec,
                   Or.inr ⟨_, by simp only [St.logCall]; rw [hfr'.2], by simp [St.result, St.logCall]⟩⟩)
          · simp only [pure, Except.pure] at hs2
            injection hs2 with hs2; subst hs2
            exact ⟨by simp only; rw [hfr'.1]; exact hdec, Or.inl (by simp only; exact hfr'.2)⟩

theorem iterBody_pass3 (u : User α ε) (o : Oracles α δ) (c : Cfg α) (hU : c.hasUpdate = false)
    (s s' : St α) (flow : Flow) (hcoh : Coh u.toSFUser s.sf)
    (h : iterBody u o c s = .ok (s', flow)) : Pass3 s s' := by
  unfold iterBody at h
  simp only [bind, Except.bind] at h
  split at h
  · simp at h
  · rename_i r hr
    obtain ⟨sfL, stp?, olog⟩ := r
    have ls := lineSearch_sum u o c _ _ _ _ _ _ sfL _ _ olog stp? hcoh hr
    simp only at h
    cases stp? with
    | none =>
      simp only [pure, Except.pure] at h
      injection h with h
      unfold iterFail at h
      split at h <;> (injection h with h1 _; subst h1; exact ⟨Or.inl ⟨rfl, rfl, rfl, rfl⟩⟩)
    | some stp =>
      simp only at h
      obtain ⟨v, hv, hlt⟩ := ls.downhill stp rfl
      have p := iterStep_pass3 u c hU { s with sf := sfL, olog := olog } s' _ stp s.f flow ls.coh
        ⟨v, hv, by simpa [ls.scale] using hlt⟩ h
      exact ⟨by simpa using p.alt⟩

theorem mainLoop_inv3 (u : User α ε) (o : Oracles α δ) (c : Cfg α) (hU : c.hasUpdate = false)
    (fstart : α) :
    ∀ (fuel : Nat) (s s' : St α), Inv3 fstart s → Inv4 u s →
      mainLoop u o c fuel s = .ok s' → Inv3 fstart s' := by
  intro fuel
  induction fuel with
  | zero =>
    intro s s' hi _ h
    simp only [mainLoop, pure, Except.pure] at h
    injection h with h; subst h; exact hi
  | succ fuel ih =>
    intro s s' hi h4 h
    simp only [mainLoop] at h
    split at h
    · rename_i hg
      simp only [bind, Except.bind] at h
      split at h
      · simp at h
      · rename_i r hr
        obtain ⟨s1, flow⟩ := r
        have hsucc : s.success = false := by
          simp only [guard, Bool.and_eq_true, Bool.not_eq_true'] at hg
          exact hg.2
        have p4 := iterBody_pass u o c s s1 flow h4 hsucc hr
        have p3 := iterBody_pass3 u o c hU s s1 flow h4.coh hr
        cases flow with
        | brk =>
          simp only [pure, Except.pure] at h
          injection h with h; subst h
          exact p3.inv hi
        | next =>
          simp only at h
          exact ih s1 s' (p3.inv hi) p4.inv h
    · simp only [pure, Except.pure] at h
      injection h with h; subst h; exact hi

end Lbfgsb

namespace Lbfgsb
variable {α ε δ : Type}
variable [LinearOrder α] [Add α] [Sub α] [Mul α] [Div α] [Neg α] [OfNat α 0] [OfNat α 1]
  [FloatLike α]

/-- the loop starts without callback states -/
theorem prepare_cbs (u : User α ε) (c : Cfg α) (i : Init α) (s : St α)
    (h : prepare u c i = .ok s) : s.cbStates = [] := by
  unfold prepare at h
  simp only [bind, Except.bind] at h
  split at h
  · simp at h
  · rename_i e he
    split at h
    · simp at h
    · rename_i s1 hs1
      have h1 : s1.cbStates = [] := by
        unfold applyScaler at hs1
        split at hs1
        · simp only [bind, Except.bind] at hs1
          split at hs1
          · simp at hs1
          · simp only [pure, Except.pure] at hs1
            injection hs1 with hs1; subst hs1; rfl
        · simp only [pure, Except.pure] at hs1
          injection hs1 with hs1; subst hs1; rfl
      split at h
      · simp at h
      · rename_i s2 hs2
        simp only [pure, Except.pure] at h
        injection h with h; subst h
        have h2 : s2.cbStates = [] := by
          unfold applyUpdate0 at hs2
          split at hs2
          · simp only [bind, Except.bind] at hs2
            split at hs2
            · simp at hs2
            · simp only [pure, Except.pure] at hs2
              injection hs2 with hs2; subst hs2; exact h1
          · simp only [pure, Except.pure] at hs2
            injection hs2 with hs2; subst hs2; exact h1
        unfold initMemory
        split <;> exact h2

end Lbfgsb
