/-
  Lemmas about the memoising wrapper model `Model/SF.lean` (level U).
-/
import LbfgsbVerif.Model.SF
import LbfgsbVerif.Proofs.Basic

namespace Lbfgsb
variable {α ε : Type}

/-- the stateless specification of a gradient request (unscaled) -/
def gradSpec [LT α] [DecidableLT α] [OfNat α 0] (u : SFUser α ε) (lb ub : Vec α) :
    GradMode → Vec α → Except ε (Vec α)
  | .callable, x => u.Gr x
  | .fd, x => do
    let f ← u.F x
    let vs ← (u.fdPts x f).mapM u.F
    pure (zeroFixed lb ub (u.fdComb x f vs))

/-- cache coherence: what is flagged as up to date is what the user's functions return at
the cached point -/
def Coh [LT α] [DecidableLT α] [OfNat α 0] (u : SFUser α ε) (s : SF α) : Prop :=
  (s.fUpd = true → u.F s.x = .ok s.f) ∧
    (s.gUpd = true → gradSpec u s.lb s.ub s.mode s.x = .ok s.g)

def fcalls (ps : List (Vec α)) : List (Call α) := ps.map (Call.mk .F)

theorem callF_ok {u : SFUser α ε} {s s' : SF α} {p : Vec α} {v : α}
    (h : s.callF u p = .ok (s', v)) :
    u.F p = .ok v ∧ s' = { s with nfev := s.nfev + 1, log := s.log ++ [Call.mk .F p] } := by
  unfold SF.callF at h
  cases hF : u.F p with
  | error e => simp [hF, bind, Except.bind] at h
  | ok w =>
    simp [hF, bind, Except.bind, pure, Except.pure] at h
    exact ⟨by rw [h.2], h.1.symm⟩

theorem callFs_ok {u : SFUser α ε} {ps : List (Vec α)} {s s' : SF α} {vs : List α}
    (h : SF.callFs u s ps = .ok (s', vs)) :
    ps.mapM u.F = .ok vs ∧
      s' = { s with nfev := s.nfev + ps.length, log := s.log ++ fcalls ps } := by
  induction ps generalizing s s' vs with
  | nil =>
    simp [SF.callFs, pure, Except.pure] at h
    simp [h.1.symm, h.2.symm, fcalls, pure, Except.pure]
  | cons p ps ih =>
    unfold SF.callFs at h
    cases h1 : s.callF u p with
    | error e => simp [h1, bind, Except.bind] at h
    | ok r =>
      obtain ⟨s1, v⟩ := r
      cases h2 : SF.callFs u s1 ps with
      | error e => simp [h1, h2, bind, Except.bind] at h
      | ok r2 =>
        obtain ⟨s2, vs2⟩ := r2
        simp [h1, h2, bind, Except.bind, pure, Except.pure] at h
        obtain ⟨hF, hs1⟩ := callF_ok h1
        obtain ⟨hM, hs2⟩ := ih h2
        refine ⟨?_, ?_⟩
        · simp [List.mapM_cons, hF, hM, bind, Except.bind, pure, Except.pure, h.2.symm]
        · rw [← h.1, hs2, hs1]
          simp [fcalls, Nat.add_assoc, Nat.add_comm 1]

section
variable [LinearOrder α] [OfNat α 0]

theorem updateX_spec (s : SF α) (x : Vec α) :
    (s.updateX x).x = x ∧ (s.updateX x).mode = s.mode ∧ (s.updateX x).lb = s.lb ∧
    (s.updateX x).ub = s.ub ∧ (s.updateX x).scale = s.scale ∧
    (s.updateX x).nfev = s.nfev ∧ (s.updateX x).ngev = s.ngev ∧ (s.updateX x).log = s.log ∧
    (x = s.x → s.updateX x = s) := by
  unfold SF.updateX
  by_cases h : x = s.x
  · simp [h, veq_refl]
  · have : veq x s.x = false := by
      cases hv : veq x s.x with
      | false => rfl
      | true => exact absurd ((veq_iff _ _).1 hv) h
    simp [this, h]

theorem updateX_coh {u : SFUser α ε} {s : SF α} (h : Coh u s) (x : Vec α) :
    Coh u (s.updateX x) := by
  unfold SF.updateX
  split
  · exact h
  · simp [Coh]

theorem updFun_ok {u : SFUser α ε} {s s' : SF α} (hc : Coh u s) (h : s.updFun u = .ok s') :
    Coh u s' ∧ s'.fUpd = true ∧ u.F s.x = .ok s'.f ∧ s'.x = s.x ∧ s'.mode = s.mode ∧
    s'.lb = s.lb ∧ s'.ub = s.ub ∧
    s'.scale = s.scale ∧ s'.ngev = s.ngev ∧ s'.gUpd = s.gUpd ∧ s'.g = s.g ∧
    (s.fUpd = true → s' = s) ∧
    (s.fUpd = false → s'.nfev = s.nfev + 1 ∧ s'.log = s.log ++ [Call.mk .F s.x]) := by
  unfold SF.updFun at h
  by_cases hf : s.fUpd = true
  · simp [hf, pure, Except.pure] at h
    subst h
    exact ⟨hc, hf, hc.1 hf, rfl, rfl, rfl, rfl, rfl, rfl, rfl, rfl, fun _ => rfl, fun h' => by simp [hf] at h'⟩
  · have hf' : s.fUpd = false := by simpa using hf
    simp only [hf', Bool.false_eq_true, if_false] at h
    cases h1 : s.callF u s.x with
    | error e => simp [h1, bind, Except.bind] at h
    | ok r =>
      obtain ⟨s1, v⟩ := r
      simp [h1, bind, Except.bind, pure, Except.pure] at h
      obtain ⟨hF, hs1⟩ := callF_ok h1
      subst h
      subst hs1
      refine ⟨⟨fun _ => hF, ?_⟩, rfl, hF, rfl, rfl, rfl, rfl, rfl, rfl, rfl, rfl, ?_, fun _ => ⟨rfl, rfl⟩⟩
      · exact hc.2
      · intro h'; simp [hf'] at h'

theorem updGrad_ok {u : SFUser α ε} {s s' : SF α} (hc : Coh u s) (h : s.updGrad u = .ok s') :
    Coh u s' ∧ s'.gUpd = true ∧ gradSpec u s.lb s.ub s.mode s.x = .ok s'.g ∧ s'.x = s.x ∧
    s'.mode = s.mode ∧ s'.lb = s.lb ∧ s'.ub = s.ub ∧ s'.scale = s.scale ∧
    (s.gUpd = true → s' = s) ∧
    (s.fUpd = true → s'.f = s.f ∧ s'.fUpd = true) := by
  unfold SF.updGrad at h
  by_cases hg : s.gUpd = true
  · simp [hg, pure, Except.pure] at h
    subst h
    exact ⟨hc, hg, hc.2 hg, rfl, rfl, rfl, rfl, rfl, fun _ => rfl, fun h => ⟨rfl, h⟩⟩
  · have hg' : s.gUpd = false := by simpa using hg
    simp only [hg', Bool.false_eq_true, if_false] at h
    cases hm : s.mode with
    | callable =>
      simp only [hm] at h
      cases hG : u.Gr s.x with
      | error e => simp [hG, bind, Except.bind] at h
      | ok g =>
        simp [hG, bind, Except.bind, pure, Except.pure] at h
        subst h
        refine ⟨⟨fun hf => ?_, fun _ => ?_⟩, rfl, ?_, rfl, hm.symm ▸ rfl, rfl, rfl, rfl, ?_, fun hf => ⟨rfl, hf⟩⟩
        · exact hc.1 hf
        · simp [gradSpec, hm, hG]
        · simp [gradSpec, hG]
        · intro h'; simp [hg'] at h'
    | fd =>
      simp only [hm] at h
      cases h1 : s.updFun u with
      | error e => simp [h1, bind, Except.bind] at h
      | ok s1 =>
        obtain ⟨hc1, hf1, hF1, hx1, hm1, hlb1, hub1, hsc1, -, -, -, hsame, -⟩ := updFun_ok hc h1
        cases h2 : SF.callFs u { s1 with ngev := s1.ngev + 1 } (u.fdPts s1.x s1.f) with
        | error e => simp [h1, h2, bind, Except.bind] at h
        | ok r =>
          obtain ⟨s2, vs⟩ := r
          simp [h1, h2, bind, Except.bind, pure, Except.pure] at h
          obtain ⟨hM, hs2⟩ := callFs_ok h2
          subst h
          subst hs2
          have hspec : gradSpec u s.lb s.ub .fd s.x =
              .ok (zeroFixed s1.lb s1.ub (u.fdComb s1.x s1.f vs)) := by
            simp only [gradSpec, hF1, bind, Except.bind]
            rw [← hx1, hM, hlb1, hub1]
            rfl
          refine ⟨⟨fun _ => ?_, fun _ => ?_⟩, rfl, ?_, hx1, ?_, hlb1, hub1, hsc1, ?_, ?_⟩
          · simpa [hx1] using hF1
          · simpa [hm1, hm, hx1, hlb1, hub1] using hspec
          · simpa using hspec
          · simpa [hm] using hm1
          · intro h'; simp [hg'] at h'
          · intro hf
            have := hsame hf
            subst this
            exact ⟨rfl, hf⟩

end
end Lbfgsb
