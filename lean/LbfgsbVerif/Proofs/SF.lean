/-
  Lemmas about the memoising wrapper model `Model/SF.lean` (level U).
-/
import LbfgsbVerif.Model.SF
import LbfgsbVerif.Proofs.Basic

namespace Lbfgsb
variable {α ε : Type}

/-- the stateless specification of a gradient request (unscaled) -/
def gradSpec [LT α] [DecidableLT α] [OfNat α 0] (u : SFUser α ε) (lb ub : Vec α) :
    GradMode → Vec α → Except ε (Vec α)
  | .callable, x => u.Gr x
  | .fd, x => do
    let f ← u.F x
    let vs ← (u.fdPts x f).mapM u.F
    pure (zeroFixed lb ub (u.fdComb x f vs))

/-- cache coherence: what is flagged as up to date is what the user's functions return at
the cached point -/
def Coh [LT α] [DecidableLT α] [OfNat α 0] (u : SFUser α ε) (s : SF α) : Prop :=
  (s.fUpd = true → u.F s.x = .ok s.f) ∧
    (s.gUpd = true → gradSpec u s.lb s.ub s.mode s.x = .ok s.g)

def fcalls (ps : List (Vec α)) : List (Call α) := ps.map (Call.mk .F)

theorem callF_ok {u : SFUser α ε} {s s' : SF α} {p : Vec α} {v : α}
    (h : s.callF u p = .ok (s', v)) :
    u.F p = .ok v ∧ s' = { s with nfev := s.nfev + 1, log := s.log ++ [Call.mk .F p] } := by
  unfold SF.callF at h
  cases hF : u.F p with
  | error e => simp [hF, bind, Except.bind] at h
  | ok w =>
    simp [hF, bind, Except.bind, pure, Except.pure] at h
    exact ⟨by rw [h.2], h.1.symm⟩

theorem callFs_ok {u : SFUser α ε} {ps : List (Vec α)} {s s' : SF α} {vs : List α}
    (h : SF.callFs u s ps = .ok (s', vs)) :
    ps.mapM u.F = .ok vs ∧
      s' = { s with nfev := s.nfev + ps.length, log := s.log ++ fcalls ps } := by
  induction ps generalizing s s' vs with
  | nil =>
    simp [SF.callFs, pure, Except.pure] at h
    simp [h.1.symm, h.2.symm, fcalls, pure, Except.pure]
  | cons p ps ih =>
    unfold SF.callFs at h
    cases h1 : s.callF u p with
    | error e => simp [h1, bind, Except.bind] at h
    | ok r =>
      obtain ⟨s1, v⟩ := r
      cases h2 : SF.callFs u s1 ps with
      | error e => simp [h1, h2, bind, Except.bind] at h
      | ok r2 =>
        obtain ⟨s2, vs2⟩ := r2
        simp [h1, h2, bind, Except.bind, pure, Except.pure] at h
        obtain ⟨hF, hs1⟩ := callF_ok h1
        obtain ⟨hM, hs2⟩ := ih h2
        refine ⟨?_, ?_⟩
        · simp [List.mapM_cons, hF, hM, bind, Except.bind, pure, Except.pure, h.2.symm]
        · rw [← h.1, hs2, hs1]
          simp [fcalls, Nat.add_assoc, Nat.add_comm 1]

section
variable [LinearOrder α] [OfNat α 0]

theorem updateX_spec (s : SF α) (x : Vec α) :
    (s.updateX x).x = x ∧ (s.updateX x).mode = s.mode ∧ (s.updateX x).lb = s.lb ∧
    (s.updateX x).ub = s.ub ∧ (s.updateX x).scale = s.scale ∧
    (s.updateX x).nfev = s.nfev ∧ (s.updateX x).ngev = s.ngev ∧ (s.updateX x).log = s.log ∧
    (x = s.x → s.updateX x = s) := by
  unfold SF.updateX
  by_cases h : x = s.x
  · simp [h, veq_refl]
  · have : veq x s.x = false := by
      cases hv : veq x s.x with
      | false => rfl
      | true => exact absurd ((veq_iff _ _).1 hv) h
    simp [this, h]

theorem updateX_coh {u : SFUser α ε} {s : SF α} (h : Coh u s) (x : Vec α) :
    Coh u (s.updateX x) := by
  unfold SF.updateX
  split
  · exact h
  · simp [Coh]

theorem updFun_ok {u : SFUser α ε} {s s' : SF α} (hc : Coh u s) (h : s.updFun u = .ok s') :
    Coh u s' ∧ s'.fUpd = true ∧ u.F s.x = .ok s'.f ∧ s'.x = s.x ∧ s'.mode = s.mode ∧
    s'.lb = s.lb ∧ s'.ub = s.ub ∧
    s'.scale = s.scale ∧ s'.ngev = s.ngev ∧ s'.gUpd = s.gUpd ∧ s'.g = s.g ∧
    (s.fUpd = true → s' = s) ∧
    (s.fUpd = false → s'.nfev = s.nfev + 1 ∧ s'.log = s.log ++ [Call.mk .F s.x]) := by
  unfold SF.updFun at h
  by_cases hf : s.fUpd = true
  · simp [hf, pure, Except.pure] at h
    subst h
    exact ⟨hc, hf, hc.1 hf, rfl, rfl, rfl, rfl, rfl, rfl, rfl, rfl, fun _ => rfl, fun h' => by simp [hf] at h'⟩
  · have hf' : s.fUpd = false := by simpa using hf
    simp only [hf', Bool.false_eq_true, if_false] at h
    cases h1 : s.callF u s.x with
    | error e => simp [h1, bind, Except.bind] at h
    | ok r =>
      obtain ⟨s1, v⟩ := r
      simp [h1, bind, Except.bind, pure, Except.pure] at h
      obtain ⟨hF, hs1⟩ := callF_ok h1
      subst h
      subst hs1
      refine ⟨⟨fun _ => hF, ?_⟩, rfl, hF, rfl, rfl, rfl, rfl, rfl, rfl, rfl, rfl, ?_, fun _ => ⟨rfl, rfl⟩⟩
      · exact hc.2
      · intro h'; simp [hf'] at h'

theorem updGrad_ok {u : SFUser α ε} {s s' : SF α} (hc : Coh u s) (h : s.updGrad u = .ok s') :
    Coh u s' ∧ s'.gUpd = true ∧ gradSpec u s.lb s.ub s.mode s.x = .ok s'.g ∧ s'.x = s.x ∧
    s'.mode = s.mode ∧ s'.lb = s.lb ∧ s'.ub = s.ub ∧ s'.scale = s.scale ∧
    (s.gUpd = true → s' = s) ∧
    (s.fUpd = true → s'.f = s.f ∧ s'.fUpd = true) := by
  unfold SF.updGrad at h
  by_cases hg : s.gUpd = true
  · simp [hg, pure, Except.pure] at h
    subst h
    exact ⟨hc, hg, hc.2 hg, rfl, rfl, rfl, rfl, rfl, fun _ => rfl, fun h => ⟨rfl, h⟩⟩
  · have hg' : s.gUpd = false := by simpa using hg
    simp only [hg', Bool.false_eq_true, if_false] at h
    cases hm : s.mode with
    | callable =>
      simp only [hm] at h
      cases hG : u.Gr s.x with
      | error e => simp [hG, bind, Except.bind] at h
      | ok g =>
        simp [hG, bind, Except.bind, pure, Except.pure] at h
        subst h
        refine ⟨⟨fun hf => ?_, fun _ => ?_⟩, rfl, ?_, rfl, hm.symm ▸ rfl, rfl, rfl, rfl, ?_, fun hf => ⟨rfl, hf⟩⟩
        · exact hc.1 hf
        · simp [gradSpec, hm, hG]
        · simp [gradSpec, hG]
        · intro h'; simp [hg'] at h'
    | fd =>
      simp only [hm] at h
      cases h1 : s.updFun u with
      | error e => simp [h1, bind, Except.bind] at h
      | ok s1 =>
        obtain ⟨hc1, hf1, hF1, hx1, hm1, hlb1, hub1, hsc1, -, -, -, hsame, -⟩ := updFun_ok hc h1
        cases h2 : SF.callFs u { s1 with ngev := s1.ngev + 1 } (u.fdPts s1.x s1.f) with
        | error e => simp [h1, h2, bind, Except.bind] at h
        | ok r =>
          obtain ⟨s2, vs⟩ := r
          simp [h1, h2, bind, Except.bind, pure, Except.pure] at h
          obtain ⟨hM, hs2⟩ := callFs_ok h2
          subst h
          subst hs2
          have hspec : gradSpec u s.lb s.ub .fd s.x =
              .ok (zeroFixed s1.lb s1.ub (u.fdComb s1.x s1.f vs)) := by
            simp only [gradSpec, hF1, bind, Except.bind]
            rw [← hx1, hM, hlb1, hub1]
            rfl
          refine ⟨⟨fun _ => ?_, fun _ => ?_⟩, rfl, ?_, hx1, ?_, hlb1, hub1, hsc1, ?_, ?_⟩
          · simpa [hx1] using hF1
          · simpa [hm1, hm, hx1, hlb1, hub1] using hspec
          · simpa using hspec
          · simpa [hm] using hm1
          · intro h'; simp [hg'] at h'
          · intro hf
            have := hsame hf
            subst this
            exact ⟨rfl, hf⟩

end
end Lbfgsb

/-! ### Summaries used by the shell proofs -/
namespace Lbfgsb
variable {α ε : Type}

/-- `l'` extends `l` by entries that all satisfy `P` -/
def LogExt (P : Call α → Prop) (l l' : List (Call α)) : Prop :=
  ∃ d, l' = l ++ d ∧ ∀ c ∈ d, P c

theorem LogExt.refl {P : Call α → Prop} (l : List (Call α)) : LogExt P l l :=
  ⟨[], by simp, by simp⟩

theorem LogExt.trans {P : Call α → Prop} {l1 l2 l3 : List (Call α)}
    (h1 : LogExt P l1 l2) (h2 : LogExt P l2 l3) : LogExt P l1 l3 := by
  obtain ⟨d1, rfl, p1⟩ := h1
  obtain ⟨d2, rfl, p2⟩ := h2
  refine ⟨d1 ++ d2, by simp, ?_⟩
  intro c hc
  rcases List.mem_append.1 hc with h | h
  · exact p1 c h
  · exact p2 c h

theorem LogExt.mono {P Q : Call α → Prop} {l l' : List (Call α)} (h : LogExt P l l')
    (hpq : ∀ c, P c → Q c) : LogExt Q l l' := by
  obtain ⟨d, rfl, p⟩ := h
  exact ⟨d, rfl, fun c hc => hpq c (p c hc)⟩

theorem LogExt.single {P : Call α → Prop} (l : List (Call α)) (c : Call α) (h : P c) :
    LogExt P l (l ++ [c]) :=
  ⟨[c], rfl, by simpa using h⟩

/-- a property of all entries is preserved by an extension whose new entries satisfy it -/
theorem LogExt.all {P : Call α → Prop} {l l' : List (Call α)} (h : LogExt P l l')
    (hl : ∀ c ∈ l, P c) : ∀ c ∈ l', P c := by
  obtain ⟨d, rfl, p⟩ := h
  intro c hc
  rcases List.mem_append.1 hc with h | h
  · exact hl c h
  · exact p c h

/-- what one objective/gradient request at `x` may append to the log: objective calls, and
— with a callable gradient — only at the requested point -/
def EvalAt (u : SFUser α ε) (mode : GradMode) (x : Vec α) (c : Call α) : Prop :=
  (c.kind = .F ∨ c.kind = .G) ∧
    (c.arg = x ∨ (mode = .fd ∧ ∃ f, c.arg ∈ u.fdPts x f))

theorem fcalls_evalAt_fd (u : SFUser α ε) (x : Vec α) (f : α) :
    ∀ c ∈ fcalls (u.fdPts x f), EvalAt u .fd x c := by
  intro c hc
  simp only [fcalls, List.mem_map] at hc
  obtain ⟨p, hp, rfl⟩ := hc
  exact ⟨Or.inl rfl, Or.inr ⟨rfl, f, hp⟩⟩

section
variable [LinearOrder α] [OfNat α 0]

theorem updFun_log {u : SFUser α ε} {s s' : SF α} (h : s.updFun u = .ok s') :
    LogExt (EvalAt u s.mode s.x) s.log s'.log ∧ s.nfev ≤ s'.nfev ∧ s'.nfev ≤ s.nfev + 1 ∧
      s'.ngev = s.ngev := by
  unfold SF.updFun at h
  by_cases hf : s.fUpd = true
  · simp [hf, pure, Except.pure] at h
    subst h
    exact ⟨LogExt.refl _, Nat.le_refl _, Nat.le_succ _, rfl⟩
  · have hf' : s.fUpd = false := by simpa using hf
    simp only [hf', Bool.false_eq_true, if_false] at h
    cases h1 : s.callF u s.x with
    | error e => simp [h1, bind, Except.bind] at h
    | ok r =>
      obtain ⟨s1, v⟩ := r
      simp [h1, bind, Except.bind, pure, Except.pure] at h
      obtain ⟨-, hs1⟩ := callF_ok h1
      subst h; subst hs1
      exact ⟨LogExt.single _ _ ⟨Or.inl rfl, Or.inl rfl⟩, Nat.le_succ _, Nat.le_refl _, rfl⟩

/-- frame of `updFun` that needs no coherence hypothesis -/
theorem updFun_ok' {u : SFUser α ε} {s s' : SF α} (h : s.updFun u = .ok s') :
    s'.mode = s.mode ∧ s'.lb = s.lb ∧ s'.ub = s.ub ∧ s'.x = s.x ∧ s'.scale = s.scale := by
  unfold SF.updFun at h
  by_cases hf : s.fUpd = true
  · simp [hf, pure, Except.pure] at h
    subst h
    exact ⟨rfl, rfl, rfl, rfl, rfl⟩
  · have hf' : s.fUpd = false := by simpa using hf
    simp only [hf', Bool.false_eq_true, if_false] at h
    cases h1 : s.callF u s.x with
    | error e => simp [h1, bind, Except.bind] at h
    | ok r =>
      obtain ⟨s1, v⟩ := r
      simp [h1, bind, Except.bind, pure, Except.pure] at h
      obtain ⟨-, hs1⟩ := callF_ok h1
      subst h; subst hs1
      exact ⟨rfl, rfl, rfl, rfl, rfl⟩

theorem updGrad_log {u : SFUser α ε} {s s' : SF α} (h : s.updGrad u = .ok s') :
    LogExt (EvalAt u s.mode s.x) s.log s'.log ∧ s.nfev ≤ s'.nfev ∧
      (s.mode = .callable → s'.nfev = s.nfev) ∧ s.ngev ≤ s'.ngev ∧ s'.ngev ≤ s.ngev + 1 := by
  unfold SF.updGrad at h
  by_cases hg : s.gUpd = true
  · simp [hg, pure, Except.pure] at h
    subst h
    exact ⟨LogExt.refl _, Nat.le_refl _, fun _ => rfl, Nat.le_refl _, Nat.le_succ _⟩
  · have hg' : s.gUpd = false := by simpa using hg
    simp only [hg', Bool.false_eq_true, if_false] at h
    cases hm : s.mode with
    | callable =>
      simp only [hm] at h
      cases hG : u.Gr s.x with
      | error e => simp [hG, bind, Except.bind] at h
      | ok g =>
        simp [hG, bind, Except.bind, pure, Except.pure] at h
        subst h
        exact ⟨LogExt.single _ _ ⟨Or.inr rfl, Or.inl rfl⟩, Nat.le_refl _, fun _ => rfl,
          Nat.le_succ _, Nat.le_refl _⟩
    | fd =>
      simp only [hm] at h
      cases h1 : s.updFun u with
      | error e => simp [h1, bind, Except.bind] at h
      | ok s1 =>
        obtain ⟨hl1, hn1, -, hg1⟩ := updFun_log h1
        obtain ⟨-, -, -, hx1', -⟩ := updFun_ok' h1
        cases h2 : SF.callFs u { s1 with ngev := s1.ngev + 1 } (u.fdPts s1.x s1.f) with
        | error e => simp [h1, h2, bind, Except.bind] at h
        | ok r =>
          obtain ⟨s2, vs⟩ := r
          simp [h1, h2, bind, Except.bind, pure, Except.pure] at h
          obtain ⟨-, hs2⟩ := callFs_ok h2
          subst h; subst hs2
          rw [hm] at hl1
          refine ⟨LogExt.trans hl1 ⟨_, rfl, by rw [hx1']; exact fcalls_evalAt_fd u s.x s1.f⟩, ?_,
            (fun h => by cases h), ?_, ?_⟩
          · simp; omega
          · simp [hg1]
          · simp [hg1]

end
end Lbfgsb

namespace Lbfgsb
variable {α ε : Type} [LinearOrder α] [OfNat α 0]

/-- everything the shell needs to know about one request to the wrapper at the point `x` -/
structure EvalSum (u : SFUser α ε) (s s' : SF α) (x : Vec α) : Prop where
  coh : Coh u s'
  x_eq : s'.x = x
  mode : s'.mode = s.mode
  lb : s'.lb = s.lb
  ub : s'.ub = s.ub
  scale : s'.scale = s.scale
  log : LogExt (EvalAt u s.mode x) s.log s'.log
  nfev_ge : s.nfev ≤ s'.nfev
  nfev_le : s.mode = .callable → s'.nfev ≤ s.nfev + 1
  ngev_ge : s.ngev ≤ s'.ngev

variable [Mul α]

theorem funv_sum {u : SFUser α ε} {s s' : SF α} {x : Vec α} {f : α} (hc : Coh u s)
    (h : s.funv u x = .ok (s', f)) :
    EvalSum u s s' x ∧ ∃ f0, u.F x = .ok f0 ∧ f = f0 * s.scale := by
  simp only [SF.funv] at h
  obtain ⟨hx, hm, hlb, hub, hsc, hn, hg, hl, -⟩ := updateX_spec s x
  cases h1 : (s.updateX x).updFun u with
  | error e => simp [h1, bind, Except.bind] at h
  | ok s1 =>
    simp [h1, bind, Except.bind, pure, Except.pure] at h
    obtain ⟨rfl, rfl⟩ := h
    obtain ⟨hc1, -, hF, hx1, hm1, hlb1, hub1, hsc1, -⟩ := updFun_ok (updateX_coh hc x) h1
    obtain ⟨hlog, hge, hle, hng⟩ := updFun_log h1
    rw [hx] at hF
    rw [hm, hx, hl] at hlog
    refine ⟨⟨hc1, by rw [hx1, hx], by rw [hm1, hm], by rw [hlb1, hlb], by rw [hub1, hub],
      by rw [hsc1, hsc], hlog, by omega, fun _ => by omega, by omega⟩, s1.f, hF, by rw [hsc1, hsc]⟩

theorem gradv_sum {u : SFUser α ε} {s s' : SF α} {x : Vec α} {g : Vec α} (hc : Coh u s)
    (h : s.gradv u x = .ok (s', g)) :
    EvalSum u s s' x ∧ ∃ g0, gradSpec u s.lb s.ub s.mode x = .ok g0 ∧ g = vscale g0 s.scale := by
  simp only [SF.gradv] at h
  obtain ⟨hx, hm, hlb, hub, hsc, hn, hg, hl, -⟩ := updateX_spec s x
  cases h1 : (s.updateX x).updGrad u with
  | error e => simp [h1, bind, Except.bind] at h
  | ok s1 =>
    simp [h1, bind, Except.bind, pure, Except.pure] at h
    obtain ⟨rfl, rfl⟩ := h
    obtain ⟨hc1, -, hG, hx1, hm1, hlb1, hub1, hsc1, -⟩ := updGrad_ok (updateX_coh hc x) h1
    obtain ⟨hlog, hge, hcal, hng, -⟩ := updGrad_log h1
    rw [hx, hm, hlb, hub] at hG
    rw [hm, hx, hl] at hlog
    rw [hm] at hcal
    refine ⟨⟨hc1, by rw [hx1, hx], by rw [hm1, hm], by rw [hlb1, hlb], by rw [hub1, hub],
      by rw [hsc1, hsc], hlog, by omega, fun hmm => by have := hcal hmm; omega, by omega⟩,
      s1.g, hG, by rw [hsc1, hsc]⟩

theorem funAndGrad_sum {u : SFUser α ε} {s s' : SF α} {x : Vec α} {f : α} {g : Vec α}
    (hc : Coh u s) (h : s.funAndGrad u x = .ok (s', f, g)) :
    EvalSum u s s' x ∧ (∃ f0, u.F x = .ok f0 ∧ f = f0 * s.scale) ∧
      ∃ g0, gradSpec u s.lb s.ub s.mode x = .ok g0 ∧ g = vscale g0 s.scale := by
  simp only [SF.funAndGrad] at h
  obtain ⟨hx, hm, hlb, hub, hsc, hn, hg, hl, -⟩ := updateX_spec s x
  cases h1 : (s.updateX x).updFun u with
  | error e => simp [h1, bind, Except.bind] at h
  | ok s1 =>
    obtain ⟨hc1, hf1, hF, hx1, hm1, hlb1, hub1, hsc1, -⟩ := updFun_ok (updateX_coh hc x) h1
    obtain ⟨hlog1, hge1, hle1, hng1⟩ := updFun_log h1
    cases h2 : s1.updGrad u with
    | error e => simp [h1, h2, bind, Except.bind] at h
    | ok s2 =>
      simp [h1, h2, bind, Except.bind, pure, Except.pure] at h
      obtain ⟨rfl, rfl, rfl⟩ := h
      obtain ⟨hc2, -, hG, hx2, hm2, hlb2, hub2, hsc2, -, hkeep⟩ := updGrad_ok hc1 h2
      obtain ⟨hlog2, hge2, hcal2, hng2, -⟩ := updGrad_log h2
      obtain ⟨hf2, -⟩ := hkeep hf1
      rw [hx] at hF
      rw [hx1, hx, hm1, hm, hlb1, hlb, hub1, hub] at hG
      rw [hm, hx, hl] at hlog1
      rw [hm1, hm, hx1, hx] at hlog2
      rw [hm1, hm] at hcal2
      refine ⟨⟨hc2, by rw [hx2, hx1, hx], by rw [hm2, hm1, hm], by rw [hlb2, hlb1, hlb],
        by rw [hub2, hub1, hub], by rw [hsc2, hsc1, hsc], LogExt.trans hlog1 hlog2, by omega,
        fun hmm => by have := hcal2 hmm; omega, by omega⟩,
        ⟨s1.f, hF, by rw [hf2, hsc2, hsc1, hsc]⟩, s2.g, hG, by rw [hsc2, hsc1, hsc]⟩

end Lbfgsb
