/-
  Bridge between the list vectors of the executable models and Mathlib's `Fin n → K` vectors
  (`dotProduct`, `Matrix.mulVec`): the bilinear algebra of the Cauchy search is done there.
-/
import LbfgsbVerif.Proofs.Pointwise
import LbfgsbVerif.Proofs.Basic
import Mathlib.Data.Matrix.Mul
import Mathlib.Algebra.BigOperators.Fin
import Mathlib.Data.Matrix.Basis
import Mathlib.Tactic.Ring

namespace Lbfgsb
open Matrix
variable {K : Type} [Field K]

/-- a list read as a vector of dimension `n` (missing entries are `0`) -/
def vec (n : Nat) (l : List K) : Fin n → K := fun r => l.getD r 0

theorem foldl_add_shift (l : List K) (a : K) : l.foldl (· + ·) a = a + l.foldl (· + ·) 0 := by
  induction l generalizing a with
  | nil => simp
  | cons x xs ih =>
    simp only [List.foldl_cons]
    rw [ih (a + x), ih (0 + x)]
    ring

theorem dot_cons (x y : K) (xs ys : List K) : dot (x :: xs) (y :: ys) = x * y + dot xs ys := by
  unfold dot
  simp only [vzip, List.foldl_cons]
  rw [foldl_add_shift]
  ring

theorem dot_vec (n : Nat) (a b : List K) (ha : a.length = n) (hb : b.length = n) :
    dot a b = vec n a ⬝ᵥ vec n b := by
  induction n generalizing a b with
  | zero =>
    have : a = [] := List.length_eq_zero_iff.1 ha
    subst this
    simp [dot, vzip, dotProduct]
  | succ m ih =>
    cases a with
    | nil => simp at ha
    | cons x xs =>
      cases b with
      | nil => simp at hb
      | cons y ys =>
        rw [dot_cons, ih xs ys (by simpa using ha) (by simpa using hb)]
        simp only [dotProduct]
        rw [Fin.sum_univ_succ]
        rfl

theorem vec_vadd (n : Nat) (a b : List K) (ha : a.length = n) (hb : b.length = n) :
    vec n (vadd a b) = vec n a + vec n b := by
  funext r
  simp only [vec, vadd, Pi.add_apply]
  exact getD_vzip _ _ _ _ r (by rw [ha]; exact r.2) (by rw [hb]; exact r.2)

theorem vec_vsub (n : Nat) (a b : List K) (ha : a.length = n) (hb : b.length = n) :
    vec n (vsub a b) = vec n a - vec n b := by
  funext r
  simp only [vec, vsub, Pi.sub_apply]
  exact getD_vzip _ _ _ _ r (by rw [ha]; exact r.2) (by rw [hb]; exact r.2)

theorem vec_smul (n : Nat) (k : K) (a : List K) (ha : a.length = n) :
    vec n (smul k a) = k • vec n a := by
  funext r
  simp only [vec, smul, Pi.smul_apply, smul_eq_mul]
  exact getD_map _ _ _ r (by rw [ha]; exact r.2)

theorem vec_set (n : Nat) (a : List K) (ib : Fin n) (v : K) (ha : a.length = n) :
    vec n (a.set ib v) = Function.update (vec n a) ib v := by
  funext r
  simp only [vec, Function.update_apply]
  rw [getD_set]
  by_cases h : r = ib
  · subst h; rw [if_pos ⟨rfl, by rw [ha]; exact r.2⟩, if_pos rfl]
  · rw [if_neg (fun hh => h (Fin.ext hh.1.symm)), if_neg h]

theorem vadd_length (a b : List K) : (vadd a b).length = min a.length b.length := by
  simp [vadd, vzip_length']

theorem smul_length (k : K) (a : List K) : (smul k a).length = a.length := by simp [smul]

/-- `W` (list of rows) as an `n × k` matrix -/
def wmat (n k : Nat) (W : List (List K)) : Matrix (Fin n) (Fin k) K :=
  fun r j => (W.getD r []).getD j 0

theorem wtv_length (W : List (List K)) (v : List K) (k : Nat) : (wtv W v k).length = k := by
  simp [wtv]

theorem vec_wtv (n k : Nat) (W : List (List K)) (v : List K) (hW : W.length = n) (hv : v.length = n) :
    vec k (wtv W v k) = (wmat n k W)ᵀ *ᵥ vec n v := by
  funext j
  simp only [vec, wtv]
  rw [List.getD_eq_getElem?_getD, List.getElem?_map, List.getElem?_range j.2]
  simp only [Option.map_some, Option.getD_some]
  rw [dot_vec n _ v (by simpa using hW) hv]
  simp only [mulVec, dotProduct, transpose_apply, wmat, vec]
  apply Finset.sum_congr rfl
  intro r _
  congr 1
  rw [List.getD_eq_getElem?_getD, List.getElem?_map]
  have : (r : Nat) < W.length := by rw [hW]; exact r.2
  simp [List.getElem?_eq_getElem this, List.getD_eq_getElem?_getD]

theorem vec_row (n k : Nat) (W : List (List K)) (ib : Fin n) :
    vec k (W.getD ib []) = wmat n k W ib := rfl

end Lbfgsb
