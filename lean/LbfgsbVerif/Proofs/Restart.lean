/-
  C06: a restart that performs no iteration — checkpoint `ck`, `maxiter ≤ ck.nit`, no scaler, no
  update function, no target — returns the history `initialize_X_and_G` rebuilds followed by the
  re-insertion of the current point (level U + `a·1 = a`).
-/
import LbfgsbVerif.Model.Shell
import LbfgsbVerif.Proofs.Basic

namespace Lbfgsb
variable {α ε δ : Type}
variable [LinearOrder α] [Add α] [Sub α] [Mul α] [Div α] [Neg α] [OfNat α 0] [OfNat α 1] [FloatLike α]

theorem vscale_one_r (hmul1 : ∀ a : α, a * 1 = a) (v : Vec α) : vscale v 1 = v := by
  unfold vscale
  induction v with
  | nil => rfl
  | cons a as ih => rw [List.map_cons, hmul1, ih]

theorem evalThresh_scale (fn : Unit → Except ε α) (k : CallKind) (sf sf' : SF α) (th : Thresh α) (a : α)
    (h : evalThresh fn k sf th = .ok (sf', a)) : sf'.scale = sf.scale := by
  unfold evalThresh at h
  split at h
  · simp only [pure, Except.pure, Except.ok.injEq, Prod.mk.injEq] at h
    rw [← h.1]
  · simp only [bind, Except.bind] at h
    split at h
    · simp at h
    · simp only [pure, Except.pure, Except.ok.injEq, Prod.mk.injEq] at h
      rw [← h.1]

/-- what `initEval` yields on a restart without target -/
theorem initEval_restart (u : User α ε) (c : Cfg α) (ck : Result α) (hck : c.checkpoint = some ck)
    (hT : c.ftarget = none) (i : Init α) (h : initEval u c = .ok i) :
    i.x = clip c.x0 c.lb c.ub ∧
    (i.X, i.G) = restoreXG (clip c.x0 c.lb c.ub) ck.jac ck.sk ck.yk c.maxcor ∧
    i.nit = ck.nit ∧ i.ftarget = none ∧ i.sf.scale = 1 ∧ i.f0 = ck.f := by
  unfold initEval firstEval evalFtarget at h
  simp only [hck, hT, bind, Except.bind, pure, Except.pure] at h
  split at h
  · simp at h
  · rename_i gt hgt
    obtain ⟨sfg, gv⟩ := gt
    simp only [Except.ok.injEq] at h
    have hs := evalThresh_scale _ _ _ _ _ _ hgt
    rw [← h]
    exact ⟨rfl, rfl, rfl, rfl, by rw [hs]; rfl, rfl⟩

/-- the state with which the main loop is entered on such a restart -/
theorem prepare_restart (u : User α ε) (c : Cfg α) (ck : Result α) (hck : c.checkpoint = some ck)
    (hS : c.hasScaler = false) (hU : c.hasUpdate = false) (hmul1 : ∀ a : α, a * 1 = a)
    (i : Init α) (hsc : i.sf.scale = 1) (s : St α) (h : prepare u c i = .ok s) :
    s = initMemory c { i.state with sf := i.sf, f := i.f0, g := ck.jac } := by
  unfold prepare firstGrad applyScaler applyUpdate0 at h
  simp only [hck, hS, hU, bind, Except.bind, pure, Except.pure, Bool.false_eq_true, if_false,
    Except.ok.injEq] at h
  rw [← h, hsc, vscale_one_r hmul1, hmul1]

theorem classify_fields (c : Cfg α) (s : St α) :
    (classify c s).X = s.X ∧ (classify c s).G = s.G ∧ (classify c s).nit = s.nit ∧ (classify c s).x = s.x := by
  unfold classify
  repeat' split
  all_goals exact ⟨rfl, rfl, rfl, rfl⟩

theorem minimize_restart_noiter (u : User α ε) (o : Oracles α δ) (c : Cfg α) (ck : Result α)
    (hck : c.checkpoint = some ck) (hT : c.ftarget = none) (hS : c.hasScaler = false)
    (hU : c.hasUpdate = false) (hmul1 : ∀ a : α, a * 1 = a) (hnit : c.maxiter ≤ ck.nit)
    (r : Result α) (s : St α) (h : minimize u o c = .ok (r, s)) :
    let x := clip c.x0 c.lb c.ub
    let R := restoreXG x ck.jac ck.sk ck.yk c.maxcor
    let m := updateMats x ck.jac R.1 R.2 c.maxcor none c.epsSY
    r.x = x ∧ r.nit = ck.nit ∧
      r.sk = diffs (if R.1.length > 0 then m.1 else [x]) ∧
      r.yk = diffs (if R.1.length > 0 then m.2.1 else [ck.jac]) := by
  intro x R m
  unfold minimize at h
  simp only [bind, Except.bind] at h
  split at h
  · simp at h
  · rename_i i hi
    obtain ⟨hx, hXG, hn, hft, hsc, hf0⟩ := initEval_restart u c ck hck hT i hi
    have htr : targetReached (i.f0 / i.sf.scale) i.ftarget = false := by rw [hft]; rfl
    simp only [htr, Bool.false_eq_true, if_false] at h
    split at h
    · simp at h
    · rename_i s0 hs0
      have hs0' := prepare_restart u c ck hck hS hU hmul1 i hsc s0 hs0
      have hnit0 : s0.nit = ck.nit := by
        rw [hs0']; unfold initMemory; split <;> exact hn
      have hfuel : c.maxiter - s0.nit = 0 := by rw [hnit0]; exact Nat.sub_eq_zero_of_le hnit
      rw [hfuel] at h
      simp only [mainLoop, pure, Except.pure, Except.ok.injEq, Prod.mk.injEq] at h
      obtain ⟨hc1, hc2, hc3, hc4⟩ := classify_fields c s0
      have hX : i.X = R.1 := congrArg Prod.fst hXG
      have hG : i.G = R.2 := congrArg Prod.snd hXG
      rw [← h.1]
      refine ⟨?_, ?_, ?_, ?_⟩
      · show (classify c s0).x = x
        rw [hc4, hs0']; unfold initMemory; split <;> exact hx
      · show (classify c s0).nit = ck.nit
        rw [hc3]; exact hnit0
      · show diffs (classify c s0).X = _
        rw [hc1, hs0']
        unfold initMemory
        simp only [Init.state, hX, hG, hx]
        split <;> rfl
      · show diffs (classify c s0).G = _
        rw [hc2, hs0']
        unfold initMemory
        simp only [Init.state, hX, hG, hx]
        split <;> rfl

end Lbfgsb
