/-
  The compact representation `B = θ I − W N⁻¹ Wᵀ`, `W = [Y  θS]`,
  `N = [[−D, Lᵀ], [L, θ SᵀS]]` (`D` the diagonal and `L` the strictly lower part of `SᵀY`)
  satisfies the secant equation of the NEWEST pair, `B s = y`, whenever `N` is invertible — a
  direct computation (any field): `Wᵀ s = N (e₂ − e₁)` for the unit vectors of the newest pair.
-/
import Mathlib.Data.Matrix.Block
import Mathlib.Data.Matrix.Mul
import Mathlib.Data.Matrix.ColumnRowPartitioned
import Mathlib.Order.Defs.LinearOrder
import Mathlib.Tactic.Ring
import Mathlib.Tactic.Module

namespace Lbfgsb.Compact
open Matrix

variable {n ι K : Type} [Fintype n] [Fintype ι] [DecidableEq n] [DecidableEq ι] [LinearOrder ι] [Field K]

/-- `SᵀY` -/
def A (S Y : Matrix n ι K) : Matrix ι ι K := Sᵀ * Y
/-- its diagonal -/
def D (S Y : Matrix n ι K) : Matrix ι ι K := Matrix.diagonal fun i => A S Y i i
/-- its strictly lower triangular part -/
def L (S Y : Matrix n ι K) : Matrix ι ι K := Matrix.of fun i j => if j < i then A S Y i j else 0
/-- the middle matrix (inverse of `M`) -/
def N (S Y : Matrix n ι K) (θ : K) : Matrix (ι ⊕ ι) (ι ⊕ ι) K :=
  Matrix.fromBlocks (-(D S Y)) (L S Y)ᵀ (L S Y) (θ • (Sᵀ * S))
/-- `W = [Y  θS]` -/
def W (S Y : Matrix n ι K) (θ : K) : Matrix n (ι ⊕ ι) K := Matrix.fromCols Y (θ • S)

/-- the key identity: `Wᵀ s = N (e₂ − e₁)` for the newest pair `j0` (the largest index) -/
theorem key (S Y : Matrix n ι K) (θ : K) (j0 : ι) (hmax : ∀ i, i ≤ j0) :
    (W S Y θ)ᵀ *ᵥ (fun k => S k j0) =
      N S Y θ *ᵥ (Sum.elim (fun i => -(Pi.single j0 (1 : K) : ι → K) i) (Pi.single j0 (1 : K))) := by
  funext c
  cases c with
  | inl i =>
    simp only [W, N, mulVec, dotProduct, transpose_apply, fromCols_apply_inl, Fintype.sum_sum_type, Sum.elim_inl,
      Sum.elim_inr, fromBlocks_apply₁₁, fromBlocks_apply₁₂, neg_apply, D, diagonal_apply, L, of_apply, A, mul_apply]
    rw [Finset.sum_eq_single j0 (by intro b _ hb; simp [Pi.single_eq_of_ne hb]) (by simp),
        Finset.sum_eq_single j0 (by intro b _ hb; simp [Pi.single_eq_of_ne hb]) (by simp)]
    simp only [Pi.single_eq_same, mul_one, mul_neg, neg_neg, Matrix.neg_apply, Matrix.diagonal_apply]
    by_cases hi : i = j0
    · subst hi
      simp only [if_true, lt_irrefl, if_false, add_zero, neg_neg]
      apply Finset.sum_congr rfl; intro k _; ring
    · have hlt : i < j0 := lt_of_le_of_ne (hmax i) hi
      simp only [hi, if_false, hlt, if_true, neg_zero, zero_add]
      apply Finset.sum_congr rfl; intro k _; ring
  | inr i =>
    simp only [W, N, mulVec, dotProduct, transpose_apply, fromCols_apply_inr, Fintype.sum_sum_type, Sum.elim_inl,
      Sum.elim_inr, fromBlocks_apply₂₁, fromBlocks_apply₂₂, smul_apply, smul_eq_mul, L, of_apply, A, mul_apply]
    rw [Finset.sum_eq_single j0 (by intro b _ hb; simp [Pi.single_eq_of_ne hb]) (by simp),
        Finset.sum_eq_single j0 (by intro b _ hb; simp [Pi.single_eq_of_ne hb]) (by simp)]
    have hnl : ¬ j0 < i := not_lt.2 (hmax i)
    simp only [Pi.single_eq_same, mul_one, hnl, if_false, mul_neg, mul_zero, neg_zero, zero_add]
    rw [Finset.mul_sum]
    apply Finset.sum_congr rfl; intro k _; ring

/-- **secant equation of the compact representation** for the newest pair -/
theorem compact_secant (S Y : Matrix n ι K) (θ : K) (Ninv : Matrix (ι ⊕ ι) (ι ⊕ ι) K)
    (hN : Ninv * N S Y θ = 1) (j0 : ι) (hmax : ∀ i, i ≤ j0) :
    (θ • (1 : Matrix n n K) - W S Y θ * Ninv * (W S Y θ)ᵀ) *ᵥ (fun k => S k j0) = fun k => Y k j0 := by
  have h1 : Ninv *ᵥ ((W S Y θ)ᵀ *ᵥ (fun k => S k j0)) =
      Sum.elim (fun i => -(Pi.single j0 (1 : K) : ι → K) i) (Pi.single j0 (1 : K)) := by
    rw [key S Y θ j0 hmax, mulVec_mulVec, hN, one_mulVec]
  rw [sub_mulVec, smul_mulVec, one_mulVec, ← mulVec_mulVec, ← mulVec_mulVec, h1]
  funext k
  simp only [Pi.sub_apply, Pi.smul_apply, smul_eq_mul, W, mulVec, dotProduct, fromCols_apply_inl, fromCols_apply_inr,
    Fintype.sum_sum_type, Sum.elim_inl, Sum.elim_inr, smul_apply]
  rw [Finset.sum_eq_single j0 (by intro b _ hb; simp [Pi.single_eq_of_ne hb]) (by simp),
      Finset.sum_eq_single j0 (by intro b _ hb; simp [Pi.single_eq_of_ne hb]) (by simp)]
  simp only [Pi.single_eq_same]
  ring

end Lbfgsb.Compact
