/-
  C09: the executable model `subspaceMin` (lists) computes the masked Sherman–Morrison–Woodbury
  direction of Props/C09Model (Mathlib matrices): bridge lemmas and the specification of the model.
-/
import LbfgsbVerif.Model.Subspace
import LbfgsbVerif.Props.C09Model

namespace Lbfgsb
open Matrix
variable {K : Type} [Field K] [LinearOrder K] [IsStrictOrderedRing K]

/-! ### the let-chain of `subspaceMin`, named -/

def subMask (i : SubIn K) : List Bool := freeMask i.xc i.lb i.ub
def subK (i : SubIn K) : Nat := match i.W with | r :: _ => r.length | [] => 0
def subR (i : SubIn K) : Vec K :=
  let r0 := vadd i.g (smul i.theta (vsub i.xc i.x))
  if i.useFactor then vsub r0 (i.W.map fun row => dot row (i.toCauchyIn.mv i.c)) else r0
def subRHat (i : SubIn K) : Vec K := ((subR i).zip (subMask i)).map fun (a, m) => if m then a else 0
def subWz (i : SubIn K) : List (Vec K) :=
  (i.W.zip (subMask i)).map fun (row, m) => if m then row else row.map fun _ => 0
def subV0 (i : SubIn K) : Vec K := wtv (subWz i) (subRHat i) (subK i)
def subN (i : SubIn K) : List (Vec K) :=
  let k := subK i
  let Wz := subWz i
  let WtZZtW : List (Vec K) := (List.range k).map fun a => (List.range k).map fun b =>
    dot (Wz.map fun row => row.getD a 0) (Wz.map fun row => row.getD b 0)
  (i.Minv.zip WtZZtW).map fun (ra, rb) => vsub ra (smul (1 / i.theta) rb)
def subV (i : SubIn K) : Vec K :=
  if i.useFactor then gaussSolve (subN i) (subV0 i) else (subV0 i).map fun _ => 0
def subD0 (i : SubIn K) : Vec K :=
  ((subRHat i).zip ((subWz i).map fun row => dot row (subV i))).map
    fun (a, b) => -((1 / i.theta) * (a + (1 / i.theta) * b))
def subD (i : SubIn K) : Vec K := ((subD0 i).zip (subMask i)).map fun (a, m) => if m then a else 0

theorem subspaceMin_eq (i : SubIn K) :
    subspaceMin i = if !((subMask i).any id) then i.xc else
      clip (vadd i.xc (smul (alphaStar i.xc (subD i) i.lb i.ub (subMask i)) (subD i))) i.lb i.ub := rfl

/-! ### bridge lemmas -/

theorem getD_map' {A : Type} (W : List A) (f : A → K) (j : Nat) (hj : j < W.length) :
    (W.map f).getD j 0 = f W[j] := by
  simp [List.getD_eq_getElem?_getD, List.getElem?_map, List.getElem?_eq_getElem hj]


/-- the free mask as a function -/
def maskF (n : Nat) (m : List Bool) : Fin n → Bool := fun r => m.getD r false

theorem getD_zip_map {A B C : Type} (f : A × B → C) (a : List A) (b : List B) (j : Nat) (da : A) (db : B) (dc : C)
    (ha : j < a.length) (hb : j < b.length) :
    ((a.zip b).map f).getD j dc = f (a.getD j da, b.getD j db) := by
  simp [List.getD_eq_getElem?_getD, List.getElem?_map, List.getElem?_zip_eq_some, ha, hb,
    List.getElem?_eq_getElem]

theorem vec_mask (n : Nat) (a : List K) (m : List Bool) (ha : a.length = n) (hm : m.length = n) :
    vec n ((a.zip m).map fun (p : K × Bool) => if p.2 then p.1 else 0) = C09.maskVec (maskF n m) (vec n a) := by
  funext r
  simp only [vec, C09.maskVec, maskF]
  rw [getD_zip_map _ a m r 0 false 0 (by rw [ha]; exact r.2) (by rw [hm]; exact r.2)]
  rfl

theorem vec_rows_dot (n k : Nat) (W : List (Vec K)) (v : Vec K) (hW : W.length = n)
    (hrow : ∀ r, r < n → (W.getD r []).length = k) (hv : v.length = k) :
    vec n (W.map fun row => dot row v) = wmat n k W *ᵥ vec k v := by
  funext r
  have hr : (r : Nat) < W.length := by rw [hW]; exact r.2
  simp only [vec, mulVec]
  rw [getD_map' W (fun row => dot row v) r hr]
  rw [dot_vec k _ v (by
    have := hrow r r.2
    simpa [List.getD_eq_getElem?_getD, List.getElem?_eq_getElem hr] using this) hv]
  simp only [dotProduct, wmat, vec, List.getD_eq_getElem?_getD, List.getElem?_eq_getElem hr, Option.getD_some]

theorem subWz_length (i : SubIn K) (n : Nat) (hW : i.W.length = n) (hm : (subMask i).length = n) :
    (subWz i).length = n := by
  simp [subWz, hW, hm]

theorem subWz_getD (i : SubIn K) (n : Nat) (hW : i.W.length = n) (hm : (subMask i).length = n) (r : Nat) (hr : r < n) :
    (subWz i).getD r [] = if (subMask i).getD r false then i.W.getD r [] else (i.W.getD r []).map fun _ => 0 := by
  unfold subWz
  rw [getD_zip_map _ i.W (subMask i) r [] false [] (by rw [hW]; exact hr) (by rw [hm]; exact hr)]

theorem wmat_subWz (i : SubIn K) (n k : Nat) (hW : i.W.length = n) (hm : (subMask i).length = n) :
    wmat n k (subWz i) = C09.maskRows (maskF n (subMask i)) (wmat n k i.W) := by
  funext r j
  simp only [wmat, C09.maskRows, Matrix.of_apply]
  rw [subWz_getD i n hW hm r r.2]
  have e : (subMask i).getD (r : Nat) false = maskF n (subMask i) r := rfl
  rw [e]
  cases maskF n (subMask i) r with
  | true => simp
  | false =>
    simp only [Bool.false_eq_true, if_false, List.getD_eq_getElem?_getD, List.getElem?_map]
    cases (i.W[(r : Nat)]?.getD [])[(j : Nat)]? <;> simp

theorem subWz_rows (i : SubIn K) (n k : Nat) (hW : i.W.length = n) (hm : (subMask i).length = n)
    (hrow : ∀ r, r < n → (i.W.getD r []).length = k) : ∀ r, r < n → ((subWz i).getD r []).length = k := by
  intro r hr
  rw [subWz_getD i n hW hm r hr]
  split
  · exact hrow r hr
  · rw [List.length_map]; exact hrow r hr

theorem vec_subD0 (i : SubIn K) (n : Nat) (a b : List K) (ha : a.length = n) (hb : b.length = n) :
    vec n ((a.zip b).map fun (p : K × K) => -((1 / i.theta) * (p.1 + (1 / i.theta) * p.2))) =
      -(1 / i.theta) • (vec n a + (1 / i.theta) • vec n b) := by
  funext r
  simp only [vec, Pi.smul_apply, Pi.add_apply, smul_eq_mul]
  rw [getD_zip_map _ a b r 0 0 0 (by rw [ha]; exact r.2) (by rw [hb]; exact r.2)]
  ring

/-- `α* ≥ 0` for a feasible Cauchy point -/
theorem alphaStar_cand_nonneg (xc d lb ub : Vec K) (mask : List Bool) (hx : InBoxF lb ub xc) :
    ∀ t ∈ alphaStar.cand xc d lb ub mask, 0 ≤ t := by
  induction xc generalizing d lb ub mask with
  | nil => intro t ht; cases d <;> cases lb <;> cases ub <;> cases mask <;> simp [alphaStar.cand] at ht
  | cons xi xs ih =>
    intro t ht
    cases d with
    | nil => simp [alphaStar.cand] at ht
    | cons di ds =>
      cases lb with
      | nil => simp [alphaStar.cand] at ht
      | cons li ls =>
        cases ub with
        | nil => simp [alphaStar.cand] at ht
        | cons ui us =>
          cases mask with
          | nil => simp [alphaStar.cand] at ht
          | cons m ms =>
            simp only [InBoxF] at hx
            obtain ⟨⟨hl, hu⟩, hrest⟩ := hx
            simp only [alphaStar.cand] at ht
            split at ht
            · exact ih ds ls us ms hrest t ht
            · rename_i hcond
              rcases List.mem_cons.1 ht with rfl | ht
              · split
                · rename_i hpos; exact div_nonneg (by linarith) (le_of_lt hpos)
                · rename_i hnpos
                  exact div_nonneg_of_nonpos (by linarith) (not_lt.1 hnpos)
              · exact ih ds ls us ms hrest t ht

theorem foldl_fmin_nonneg (l : List K) (a : K) (ha : 0 ≤ a) (hl : ∀ t ∈ l, 0 ≤ t) : 0 ≤ l.foldl fmin a := by
  induction l generalizing a with
  | nil => exact ha
  | cons t ts ih =>
    simp only [List.foldl_cons]
    apply ih
    · unfold fmin; split
      · exact hl t (List.mem_cons_self ..)
      · exact ha
    · intro u hu; exact hl u (List.mem_cons_of_mem _ hu)

theorem alphaStar_nonneg (xc d lb ub : Vec K) (mask : List Bool) (hx : InBoxF lb ub xc) :
    0 ≤ alphaStar xc d lb ub mask := by
  unfold alphaStar
  exact foldl_fmin_nonneg _ 1 zero_le_one (alphaStar_cand_nonneg xc d lb ub mask hx)


/-! ### specification of the model -/

/-- hypotheses: sizes, a feasible Cauchy point, a non-empty memory whose middle-matrix product and
small dense solve are exact, and the auxiliary vector handed over by the Cauchy step -/
structure SubCtx (i : SubIn K) (n k : Nat) (Mm Minvm : Matrix (Fin k) (Fin k) K) : Prop where
  hx : i.x.length = n
  hg : i.g.length = n
  hxc : i.xc.length = n
  hW : i.W.length = n
  hrow : ∀ r, r < n → (i.W.getD r []).length = k
  hcl : i.c.length = k
  box : InBoxF i.lb i.ub i.xc
  hθ : i.theta ≠ 0
  uf : i.useFactor = true
  /-- the product of the middle matrix with the auxiliary vector is exact -/
  hmvc : (i.toCauchyIn.mv i.c).length = k ∧ vec k (i.toCauchyIn.mv i.c) = Mm *ᵥ vec k i.c
  hM : Mm * Minvm = 1
  /-- `c = Wᵀ(x_cp − x)`: what C08 `gcp_first_local_min` proves of the Cauchy step -/
  hc : vec k i.c = (wmat n k i.W)ᵀ *ᵥ (vec n i.xc - vec n i.x)
  /-- the small `2m × 2m` system is solved exactly -/
  hsolve : (subV i).length = k ∧
    (Minvm - (1 / i.theta) • ((C09.maskRows (maskF n (subMask i)) (wmat n k i.W))ᵀ *
        C09.maskRows (maskF n (subMask i)) (wmat n k i.W))) *ᵥ vec k (subV i) =
      (C09.maskRows (maskF n (subMask i)) (wmat n k i.W))ᵀ *ᵥ C09.maskVec (maskF n (subMask i)) (vec n (subR i))

theorem vadd_smul_zero (xc d : Vec K) (h : d.length = xc.length) : vadd xc (smul 0 d) = xc := by
  apply ext_getD (0 : K)
  · simp [vadd, smul, vzip_length', h]
  · intro j hj
    have hj' : j < xc.length := by simpa [vadd, smul, vzip_length', h] using hj
    simp only [vadd, smul]
    rw [getD_vzip _ _ _ _ j hj' (by simp [h, hj']), getD_map _ _ _ j (by rw [h]; exact hj')]
    ring

/-- what the specification says of the model's output -/
def SubSpec (i : SubIn K) (n k : Nat) (Mm : Matrix (Fin k) (Fin k) K) : Prop :=
    (∀ r, maskF n (subMask i) r = false → vec n (subD i) r = 0) ∧
    (∀ r, maskF n (subMask i) r = true →
      (vec n i.g + bmat i.theta (wmat n k i.W) Mm *ᵥ ((vec n i.xc - vec n i.x) + vec n (subD i))) r = 0) ∧
    (subD i).length = n ∧
    ∃ al, 0 ≤ al ∧ al ≤ 1 ∧ subspaceMin i = vadd i.xc (smul al (subD i)) ∧ InBoxF i.lb i.ub (subspaceMin i)

theorem subspace_spec (i : SubIn K) (n k : Nat) (Mm Minvm : Matrix (Fin k) (Fin k) K) (h : SubCtx i n k Mm Minvm) :
    SubSpec i n k Mm := by
  unfold SubSpec
  obtain ⟨hll, hul⟩ := inBoxF_lengths h.box
  have hml : (subMask i).length = n := by
    unfold subMask; rw [C09.freeMask_length i.xc i.lb i.ub hll hul, h.hxc]
  -- the reduced gradient
  have hr0l : (vadd i.g (smul i.theta (vsub i.xc i.x))).length = n := by
    simp [vadd, vsub, smul, vzip_length', h.hg, h.hxc, h.hx]
  obtain ⟨hmvl, hmvv⟩ := h.hmvc
  have hRl : (subR i).length = n := by
    unfold subR; dsimp only; rw [if_pos h.uf]
    show (vzip (· - ·) (vadd i.g (smul i.theta (vsub i.xc i.x))) _).length = n
    rw [vzip_length', hr0l, List.length_map, h.hW, Nat.min_self]
  have hR : vec n (subR i) = vec n i.g + bmat i.theta (wmat n k i.W) Mm *ᵥ (vec n i.xc - vec n i.x) := by
    unfold subR; dsimp only; rw [if_pos h.uf]
    rw [vec_vsub n _ _ hr0l (by simp [h.hW]), vec_vadd n _ _ h.hg (by simp [smul, vsub, vzip_length', h.hxc, h.hx]),
      vec_smul n _ _ (by simp [vsub, vzip_length', h.hxc, h.hx]), vec_vsub n _ _ h.hxc h.hx,
      vec_rows_dot n k i.W _ h.hW h.hrow hmvl, hmvv, h.hc, bmat_mulVec]
    abel
  -- masked quantities
  have hRHat : vec n (subRHat i) = C09.maskVec (maskF n (subMask i)) (vec n (subR i)) :=
    vec_mask n (subR i) (subMask i) hRl hml
  have hRHatl : (subRHat i).length = n := by simp [subRHat, hRl, hml]
  have hWzl := subWz_length i n h.hW hml
  have hWzm := wmat_subWz i n k h.hW hml
  have hWzr := subWz_rows i n k h.hW hml h.hrow
  obtain ⟨hvl, hsol⟩ := h.hsolve
  have hZtWv : vec n ((subWz i).map fun row => dot row (subV i)) =
      C09.maskRows (maskF n (subMask i)) (wmat n k i.W) *ᵥ vec k (subV i) := by
    rw [vec_rows_dot n k (subWz i) _ hWzl hWzr hvl, hWzm]
  have hZl : ((subWz i).map fun row => dot row (subV i)).length = n := by simp [hWzl]
  have hD0 : vec n (subD0 i) = -(1 / i.theta) • (C09.maskVec (maskF n (subMask i)) (vec n (subR i)) +
      (1 / i.theta) • (C09.maskRows (maskF n (subMask i)) (wmat n k i.W) *ᵥ vec k (subV i))) := by
    have := vec_subD0 i n (subRHat i) _ hRHatl hZl
    rw [hRHat, hZtWv] at this
    exact this
  have hD0l : (subD0 i).length = n := by simp [subD0, hRHatl, hZl]
  obtain ⟨hz, hnewt⟩ := C09.masked_smw i.theta h.hθ (wmat n k i.W) Mm Minvm h.hM (maskF n (subMask i))
    (vec n (subR i)) (vec k (subV i)) hsol
  rw [← hD0] at hz hnewt
  have hD : vec n (subD i) = vec n (subD0 i) := by
    have := vec_mask n (subD0 i) (subMask i) hD0l hml
    show vec n (((subD0 i).zip (subMask i)).map fun (p : K × Bool) => if p.2 then p.1 else 0) = _
    rw [this]
    funext r
    simp only [C09.maskVec]
    cases hm : maskF n (subMask i) r with
    | true => simp
    | false => simp [hz r hm]
  have hDl : (subD i).length = n := by simp [subD, hD0l, hml]
  refine ⟨fun r hr => by rw [hD]; exact hz r hr, ?_, hDl, ?_⟩
  · intro r hr
    rw [hD, mulVec_add, ← add_assoc]
    have e1 := congrFun hR r
    have e2 := hnewt r hr
    simp only [Pi.add_apply] at e1 ⊢
    rw [← e1, e2]
    ring
  · rw [subspaceMin_eq]
    split
    · refine ⟨0, le_refl _, zero_le_one, (vadd_smul_zero i.xc (subD i) (by rw [hDl, h.hxc])).symm, h.box⟩
    · have hshape : subD i = ((subD0 i).zip (subMask i)).map fun (p : K × Bool) => if p.2 then p.1 else 0 := rfl
      obtain ⟨hin, hle1⟩ := C09.alpha_star_feasible i.xc (subD0 i) i.lb i.ub (subMask i) h.box
        (by rw [hD0l, h.hxc]) (by rw [hml, h.hxc])
        (alphaStar i.xc (subD i) i.lb i.ub (subMask i))
        (alphaStar_nonneg i.xc (subD i) i.lb i.ub (subMask i) h.box) (by rw [hshape])
      rw [← hshape] at hin hle1
      refine ⟨_, alphaStar_nonneg i.xc (subD i) i.lb i.ub (subMask i) h.box, hle1, ?_, ?_⟩
      · exact clip_of_inBox (C11.inBox_of_inBoxF hin)
      · rw [clip_of_inBox (C11.inBox_of_inBoxF hin)]; exact hin


/-- the same for an empty memory (`use_factor = False`: `B = θI`, nothing is solved) -/
structure SubCtx0 (i : SubIn K) (n k : Nat) : Prop where
  hx : i.x.length = n
  hg : i.g.length = n
  hxc : i.xc.length = n
  hW : i.W.length = n
  hrow : ∀ r, r < n → (i.W.getD r []).length = k
  box : InBoxF i.lb i.ub i.xc
  hθ : i.theta ≠ 0
  uf : i.useFactor = false

theorem subspace_spec0 (i : SubIn K) (n k : Nat) (h : SubCtx0 i n k) :
    SubSpec i n k (0 : Matrix (Fin k) (Fin k) K) := by
  unfold SubSpec
  obtain ⟨hll, hul⟩ := inBoxF_lengths h.box
  have hml : (subMask i).length = n := by
    unfold subMask; rw [C09.freeMask_length i.xc i.lb i.ub hll hul, h.hxc]
  have hr0l : (vadd i.g (smul i.theta (vsub i.xc i.x))).length = n := by
    simp [vadd, vsub, smul, vzip_length', h.hg, h.hxc, h.hx]
  have hufn : ¬ i.useFactor = true := by rw [h.uf]; simp
  have hRl : (subR i).length = n := by
    unfold subR; dsimp only; rw [if_neg hufn]; exact hr0l
  have hB : ∀ a : Fin n → K, bmat i.theta (wmat n k i.W) (0 : Matrix (Fin k) (Fin k) K) *ᵥ a = i.theta • a := by
    intro a
    rw [bmat_mulVec, zero_mulVec, mulVec_zero, sub_zero]
  have hR : vec n (subR i) = vec n i.g + bmat i.theta (wmat n k i.W) (0 : Matrix (Fin k) (Fin k) K) *ᵥ (vec n i.xc - vec n i.x) := by
    unfold subR; dsimp only; rw [if_neg hufn]
    rw [vec_vadd n _ _ h.hg (by simp [smul, vsub, vzip_length', h.hxc, h.hx]),
      vec_smul n _ _ (by simp [vsub, vzip_length', h.hxc, h.hx]), vec_vsub n _ _ h.hxc h.hx, hB]
  have hRHat : vec n (subRHat i) = C09.maskVec (maskF n (subMask i)) (vec n (subR i)) :=
    vec_mask n (subR i) (subMask i) hRl hml
  have hRHatl : (subRHat i).length = n := by simp [subRHat, hRl, hml]
  have hWzl := subWz_length i n h.hW hml
  have hV : subV i = (subV0 i).map fun _ => (0 : K) := by unfold subV; rw [if_neg hufn]
  have hZ0 : vec n ((subWz i).map fun row => dot row (subV i)) = 0 := by
    funext r
    have hr : (r : Nat) < (subWz i).length := by rw [hWzl]; exact r.2
    simp only [vec, Pi.zero_apply]
    rw [getD_map' (subWz i) (fun row => dot row (subV i)) r hr, hV, dot_zeros]
  have hZl : ((subWz i).map fun row => dot row (subV i)).length = n := by simp [hWzl]
  have hD0 : vec n (subD0 i) = -(1 / i.theta) • C09.maskVec (maskF n (subMask i)) (vec n (subR i)) := by
    have := vec_subD0 i n (subRHat i) _ hRHatl hZl
    rw [hRHat, hZ0, smul_zero, add_zero] at this
    exact this
  have hD0l : (subD0 i).length = n := by simp [subD0, hRHatl, hZl]
  have hz : ∀ r, maskF n (subMask i) r = false → vec n (subD0 i) r = 0 := by
    intro r hr
    rw [hD0]
    simp [C09.maskVec, hr]
  have hD : vec n (subD i) = vec n (subD0 i) := by
    have := vec_mask n (subD0 i) (subMask i) hD0l hml
    show vec n (((subD0 i).zip (subMask i)).map fun (p : K × Bool) => if p.2 then p.1 else 0) = _
    rw [this]
    funext r
    simp only [C09.maskVec]
    cases hm : maskF n (subMask i) r with
    | true => simp
    | false => simp [hz r hm]
  have hDl : (subD i).length = n := by simp [subD, hD0l, hml]
  refine ⟨fun r hr => by rw [hD]; exact hz r hr, ?_, hDl, ?_⟩
  · intro r hr
    rw [hD, mulVec_add, ← add_assoc]
    have e1 := congrFun hR r
    simp only [Pi.add_apply] at e1 ⊢
    rw [← e1, hB, hD0]
    simp only [Pi.smul_apply, smul_eq_mul, C09.maskVec, hr, if_true]
    field_simp [h.hθ]
    ring
  · rw [subspaceMin_eq]
    split
    · refine ⟨0, le_refl _, zero_le_one, (vadd_smul_zero i.xc (subD i) (by rw [hDl, h.hxc])).symm, h.box⟩
    · have hshape : subD i = ((subD0 i).zip (subMask i)).map fun (p : K × Bool) => if p.2 then p.1 else 0 := rfl
      obtain ⟨hin, hle1⟩ := C09.alpha_star_feasible i.xc (subD0 i) i.lb i.ub (subMask i) h.box
        (by rw [hD0l, h.hxc]) (by rw [hml, h.hxc])
        (alphaStar i.xc (subD i) i.lb i.ub (subMask i))
        (alphaStar_nonneg i.xc (subD i) i.lb i.ub (subMask i) h.box) (by rw [hshape])
      rw [← hshape] at hin hle1
      refine ⟨_, alphaStar_nonneg i.xc (subD i) i.lb i.ub (subMask i) h.box, hle1, ?_, ?_⟩
      · exact clip_of_inBox (C11.inBox_of_inBoxF hin)
      · rw [clip_of_inBox (C11.inBox_of_inBoxF hin)]; exact hin

end Lbfgsb
