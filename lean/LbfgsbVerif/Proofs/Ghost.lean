/-
  The logs of the model (`SF.log`: every request to a user callable; `St.cbStates`: the states
  handed to the callback) are *ghost*: nothing the driver computes depends on them. Stated as a
  congruence: two states that agree up to these logs are mapped by every operation to results
  that agree up to these logs (same error, or same values and states equal up to the logs).
-/
import LbfgsbVerif.Model.Shell

namespace Lbfgsb
variable {α ε δ : Type}

/-- forget the call log -/
def SF.er (s : SF α) : SF α := { s with log := [] }

theorem SF.er_eq_iff (a b : SF α) : a.er = b.er ↔
    a.mode = b.mode ∧ a.lb = b.lb ∧ a.ub = b.ub ∧ a.x = b.x ∧ a.f = b.f ∧ a.g = b.g ∧ a.fUpd = b.fUpd ∧
    a.gUpd = b.gUpd ∧ a.nfev = b.nfev ∧ a.ngev = b.ngev ∧ a.scale = b.scale := by
  cases a; cases b
  simp [SF.er]

theorem exists_log {a b : SF α} (h : a.er = b.er) : ∃ l, b = { a with log := l } := by
  refine ⟨b.log, ?_⟩
  cases a; cases b
  simp only [SF.er, SF.mk.injEq] at h
  obtain ⟨h1, h2, h3, h4, h5, h6, h7, h8, h9, h10, h11, -⟩ := h
  subst h1 h2 h3 h4 h5 h6 h7 h8 h9 h10 h11
  rfl

section sf
variable [LT α] [DecidableLT α]

theorem updateX_congr (a b : SF α) (x : Vec α) (h : a.er = b.er) : (a.updateX x).er = (b.updateX x).er := by
  rw [SF.er_eq_iff] at h ⊢
  obtain ⟨h1, h2, h3, h4, h5, h6, h7, h8, h9, h10, h11⟩ := h
  unfold SF.updateX
  rw [h4]
  split <;> simp_all

/-- results of wrapper operations compared up to the log -/
def erR {β : Type} (r : Except ε (SF α × β)) : Except ε (SF α × β) := r.map fun p => (p.1.er, p.2)
def erS (r : Except ε (SF α)) : Except ε (SF α) := r.map SF.er

theorem callF_congr (u : SFUser α ε) (a b : SF α) (p : Vec α) (h : a.er = b.er) :
    erR (a.callF u p) = erR (b.callF u p) := by
  rw [SF.er_eq_iff] at h
  obtain ⟨h1, h2, h3, h4, h5, h6, h7, h8, h9, h10, h11⟩ := h
  unfold SF.callF erR
  cases u.F p with
  | error e => rfl
  | ok v =>
    simp only [bind, Except.bind, pure, Except.pure, Except.map]
    congr 2
    rw [SF.er_eq_iff]
    simp_all

theorem updFun_congr (u : SFUser α ε) (a b : SF α) (h : a.er = b.er) :
    erS (a.updFun u) = erS (b.updFun u) := by
  have hc := callF_congr u a b a.x h
  have h' := (SF.er_eq_iff a b).1 h
  obtain ⟨h1, h2, h3, h4, h5, h6, h7, h8, h9, h10, h11⟩ := h'
  unfold SF.updFun erS
  rw [← h7]
  split
  · simp only [pure, Except.pure, Except.map]; rw [h]
  · rw [← h4]
    unfold erR at hc
    cases ha : a.callF u a.x with
    | error e =>
      cases hb : b.callF u a.x with
      | error e' => rw [ha, hb] at hc; simp only [Except.map] at hc; simp [bind, Except.bind, Except.map]; injection hc
      | ok r => rw [ha, hb] at hc; simp [Except.map] at hc
    | ok r =>
      cases hb : b.callF u a.x with
      | error e' => rw [ha, hb] at hc; simp [Except.map] at hc
      | ok r' =>
        rw [ha, hb] at hc
        simp only [Except.map, Except.ok.injEq, Prod.mk.injEq] at hc
        simp only [bind, Except.bind, pure, Except.pure, Except.map, Except.ok.injEq]
        have := (SF.er_eq_iff r.1 r'.1).1 hc.1
        rw [SF.er_eq_iff]
        simp_all

/-! generic composition lemmas -/

theorem erS_bind_S (ra rb : Except ε (SF α)) (ka kb : SF α → Except ε (SF α)) (h : erS ra = erS rb)
    (hk : ∀ p q, p.er = q.er → erS (ka p) = erS (kb q)) : erS (ra >>= ka) = erS (rb >>= kb) := by
  cases ra <;> cases rb <;> simp only [erS, Except.map, Except.error.injEq, Except.ok.injEq, reduceCtorEq] at h
  · subst h; rfl
  · exact hk _ _ h

theorem erR_bind_S {β : Type} (ra rb : Except ε (SF α)) (ka kb : SF α → Except ε (SF α × β)) (h : erS ra = erS rb)
    (hk : ∀ p q, p.er = q.er → erR (ka p) = erR (kb q)) : erR (ra >>= ka) = erR (rb >>= kb) := by
  cases ra <;> cases rb <;> simp only [erS, Except.map, Except.error.injEq, Except.ok.injEq, reduceCtorEq] at h
  · subst h; rfl
  · exact hk _ _ h

theorem erS_bind_R {β : Type} (ra rb : Except ε (SF α × β)) (ka kb : SF α × β → Except ε (SF α)) (h : erR ra = erR rb)
    (hk : ∀ p q, p.1.er = q.1.er → p.2 = q.2 → erS (ka p) = erS (kb q)) : erS (ra >>= ka) = erS (rb >>= kb) := by
  cases ra <;> cases rb <;> simp only [erR, Except.map, Except.error.injEq, Except.ok.injEq, reduceCtorEq, Prod.mk.injEq] at h
  · subst h; rfl
  · exact hk _ _ h.1 h.2

theorem erR_bind_R {β γ : Type} (ra rb : Except ε (SF α × β)) (ka kb : SF α × β → Except ε (SF α × γ)) (h : erR ra = erR rb)
    (hk : ∀ p q, p.1.er = q.1.er → p.2 = q.2 → erR (ka p) = erR (kb q)) : erR (ra >>= ka) = erR (rb >>= kb) := by
  cases ra <;> cases rb <;> simp only [erR, Except.map, Except.error.injEq, Except.ok.injEq, reduceCtorEq, Prod.mk.injEq] at h
  · subst h; rfl
  · exact hk _ _ h.1 h.2

theorem callFs_congr (u : SFUser α ε) (pts : List (Vec α)) :
    ∀ (a b : SF α), a.er = b.er → erR (SF.callFs u a pts) = erR (SF.callFs u b pts) := by
  induction pts with
  | nil => intro a b h; simp [SF.callFs, erR, Except.map, pure, Except.pure, h]
  | cons p ps ih =>
    intro a b h
    simp only [SF.callFs]
    apply erR_bind_R _ _ _ _ (callF_congr u a b p h)
    intro r r' h1 h2
    apply erR_bind_R _ _ _ _ (ih r.1 r'.1 h1)
    intro t t' h3 h4
    simp [erR, Except.map, pure, Except.pure, h3, h4, h2]

theorem updGrad_congr [OfNat α 0] (u : SFUser α ε) (a b : SF α) (h : a.er = b.er) :
    erS (a.updGrad u) = erS (b.updGrad u) := by
  obtain ⟨l, rfl⟩ := exists_log h
  unfold SF.updGrad
  dsimp only
  split
  · simp only [erS, pure, Except.pure, Except.map]; rw [h]
  · split
    · -- callable gradient
      cases u.Gr a.x with
      | error e => rfl
      | ok g => simp [erS, bind, Except.bind, pure, Except.pure, Except.map, SF.er]
    · -- finite differences
      apply erS_bind_S _ _ _ _ (updFun_congr u a _ h)
      intro p q hpq
      obtain ⟨l', rfl⟩ := exists_log hpq
      dsimp only
      apply erS_bind_R _ _ _ _ (callFs_congr u _ _ _ (by simp [SF.er]))
      intro r r' hr hv
      obtain ⟨l'', hr''⟩ := exists_log hr
      simp only [erS, pure, Except.pure, Except.map, Except.ok.injEq]
      rw [hr'', hv]
      simp [SF.er]

variable [Mul α] [OfNat α 0]

theorem funv_congr (u : SFUser α ε) (a b : SF α) (x : Vec α) (h : a.er = b.er) :
    erR (a.funv u x) = erR (b.funv u x) := by
  unfold SF.funv
  apply erR_bind_S _ _ _ _ (updFun_congr u _ _ (updateX_congr a b x h))
  intro p q hpq
  have hp := (SF.er_eq_iff p q).1 hpq
  simp only [erR, pure, Except.pure, Except.map, Except.ok.injEq, Prod.mk.injEq]
  exact ⟨hpq, by rw [hp.2.2.2.2.1, hp.2.2.2.2.2.2.2.2.2.2]⟩

theorem gradv_congr (u : SFUser α ε) (a b : SF α) (x : Vec α) (h : a.er = b.er) :
    erR (a.gradv u x) = erR (b.gradv u x) := by
  unfold SF.gradv
  apply erR_bind_S _ _ _ _ (updGrad_congr u _ _ (updateX_congr a b x h))
  intro p q hpq
  have hp := (SF.er_eq_iff p q).1 hpq
  simp only [erR, pure, Except.pure, Except.map, Except.ok.injEq, Prod.mk.injEq]
  exact ⟨hpq, by rw [hp.2.2.2.2.2.1, hp.2.2.2.2.2.2.2.2.2.2]⟩

theorem funAndGrad_congr (u : SFUser α ε) (a b : SF α) (x : Vec α) (h : a.er = b.er) :
    erR (a.funAndGrad u x) = erR (b.funAndGrad u x) := by
  unfold SF.funAndGrad
  apply erR_bind_S _ _ _ _ (updFun_congr u _ _ (updateX_congr a b x h))
  intro p q hpq
  apply erR_bind_S _ _ _ _ (updGrad_congr u _ _ hpq)
  intro p' q' hpq'
  have hp := (SF.er_eq_iff p' q').1 hpq'
  simp only [erR, pure, Except.pure, Except.map, Except.ok.injEq, Prod.mk.injEq]
  exact ⟨hpq', by rw [hp.2.2.2.2.1, hp.2.2.2.2.2.2.2.2.2.2], by rw [hp.2.2.2.2.2.1, hp.2.2.2.2.2.2.2.2.2.2]⟩

end sf

/-! ## the driver -/

/-- generic composition: erased equality is preserved by `>>=` -/
theorem bindE {T U : Type} (erT : T → T) (erU : U → U) (ra rb : Except ε T) (ka kb : T → Except ε U)
    (h : ra.map erT = rb.map erT) (hk : ∀ p q, erT p = erT q → (ka p).map erU = (kb q).map erU) :
    (ra >>= ka).map erU = (rb >>= kb).map erU := by
  cases ra <;> cases rb <;> simp only [Except.map, Except.error.injEq, Except.ok.injEq, reduceCtorEq] at h
  · subst h; rfl
  · exact hk _ _ h

def LS.er (l : LS α δ) : LS α δ := { l with sf := l.sf.er, olog := [] }
def St.er (s : St α) : St α := { s with cbStates := [], sf := s.sf.er, olog := [] }

theorem LS.exists_ghost {a b : LS α δ} (h : a.er = b.er) :
    ∃ l ol, b = { a with sf := { a.sf with log := l }, olog := ol } := by
  refine ⟨b.sf.log, b.olog, ?_⟩
  cases a; cases b
  simp only [LS.er, LS.mk.injEq, and_true] at h
  obtain ⟨h1, h2, h3, h4, h5, h6, h7, h8, h9⟩ := h
  obtain ⟨l, hl⟩ := exists_log h1
  subst h2 h3 h4 h5 h6 h7 h8 h9
  simp only [LS.mk.injEq, and_true]
  rw [hl]

theorem St.exists_ghost {a b : St α} (h : a.er = b.er) :
    ∃ l cbs ol, b = { a with cbStates := cbs, sf := { a.sf with log := l }, olog := ol } := by
  refine ⟨b.sf.log, b.cbStates, b.olog, ?_⟩
  cases a; cases b
  simp only [St.er, St.mk.injEq, and_true] at h
  obtain ⟨h1, h2, h3, h4, h5, h6, h7, h8, h9, h10, h11, h12, h13⟩ := h
  obtain ⟨l, hl⟩ := exists_log h7
  subst h1 h2 h3 h4 h5 h6 h8 h9 h10 h11 h12 h13
  simp only [St.mk.injEq, true_and, and_true]
  rw [hl]

section driver
variable [Add α] [Sub α] [Mul α] [Div α] [Neg α] [LT α] [DecidableLT α] [OfNat α 0] [OfNat α 1] [FloatLike α]

theorem lsStep_congr (u : User α ε) (o : Oracles α δ) (x0 d lb ub : Vec α) (l l' : LS α δ) (h : l.er = l'.er) :
    (lsStep u o x0 d lb ub l).map (fun p => (p.1.er, p.2)) = (lsStep u o x0 d lb ub l').map (fun p => (p.1.er, p.2)) := by
  obtain ⟨lg, ol, rfl⟩ := LS.exists_ghost h
  unfold lsStep
  dsimp only
  split
  · apply bindE (fun p : SF α × α × Vec α => (p.1.er, p.2)) _ _ _ _ _
      (funAndGrad_congr u.toSFUser _ _ _ (by simp [SF.er]))
    intro p q hpq
    simp only [Prod.mk.injEq] at hpq
    obtain ⟨h1, h2⟩ := hpq
    obtain ⟨lg', h1'⟩ := exists_log h1
    simp only [pure, Except.pure, Except.map, Except.ok.injEq, Prod.mk.injEq, and_true]
    rw [← h2, h1']
    split <;> simp [LS.er, SF.er]
  · simp [pure, Except.pure, Except.map, LS.er, SF.er]

theorem lsLoop_congr (u : User α ε) (o : Oracles α δ) (x0 d lb ub : Vec α) :
    ∀ (fuel : Nat) (l l' : LS α δ), l.er = l'.er →
      (lsLoop u o x0 d lb ub fuel l).map (fun p => (p.1.er, p.2)) =
      (lsLoop u o x0 d lb ub fuel l').map (fun p => (p.1.er, p.2)) := by
  intro fuel
  induction fuel with
  | zero => intro l l' h; simp [lsLoop, pure, Except.pure, Except.map, h]
  | succ n ih =>
    intro l l' h
    simp only [lsLoop]
    apply bindE (fun p : LS α δ × Bool => (p.1.er, p.2)) _ _ _ _ _ (lsStep_congr u o x0 d lb ub l l' h)
    intro p q hpq
    simp only [Prod.mk.injEq] at hpq
    rw [← hpq.2]
    split
    · exact ih _ _ hpq.1
    · simp [pure, Except.pure, Except.map, hpq.1]

theorem lineSearch_congr (u : User α ε) (o : Oracles α δ) (c : Cfg α) (x0 : Vec α) (f0 : α) (g0 d : Vec α)
    (nit : Nat) (sf sf' : SF α) (maxIter : Nat) (olog olog' : List (OReq α)) (h : sf.er = sf'.er) :
    (lineSearch u o c x0 f0 g0 d nit sf maxIter olog).map (fun p => (p.1.er, p.2.1, ([] : List (OReq α)))) =
    (lineSearch u o c x0 f0 g0 d nit sf' maxIter olog').map (fun p => (p.1.er, p.2.1, ([] : List (OReq α)))) := by
  unfold lineSearch
  dsimp only
  apply bindE (fun p : LS α δ × Bool => (p.1.er, p.2)) _ _ _ _ _
    (lsLoop_congr u o x0 d c.lb c.ub maxIter _ _ (by simp [LS.er, h]))
  rintro ⟨p1, p2⟩ ⟨q1, q2⟩ hpq
  simp only [Prod.mk.injEq] at hpq
  obtain ⟨h1, h2⟩ := hpq
  obtain ⟨lg, ol, rfl⟩ := LS.exists_ghost h1
  subst h2
  dsimp only
  split
  · simp [pure, Except.pure, Except.map, SF.er]
  · split
    · split <;> simp [pure, Except.pure, Except.map, SF.er]
    · simp only [pure, Except.pure]
      split <;> simp [Except.map, SF.er]

/-- the same configuration with the callback switched on or off -/
abbrev Cfg.cb (c : Cfg α) (b : Bool) : Cfg α := { c with hasCallback := b }

theorem stopTests_congr (c : Cfg α) (b b' : Bool) (s t : St α) (f0Old : α) (h : s.er = t.er) :
    ((stopTests (c.cb b) s f0Old).1.er, (stopTests (c.cb b) s f0Old).2) =
    ((stopTests (c.cb b') t f0Old).1.er, (stopTests (c.cb b') t f0Old).2) := by
  obtain ⟨lg, cbs, ol, rfl⟩ := St.exists_ghost h
  unfold stopTests
  dsimp only
  split
  · rfl
  · split <;> rfl

theorem iterFail_congr (s t : St α) (h : s.er = t.er) :
    ((iterFail s).1.er, (iterFail s).2) = ((iterFail t).1.er, (iterFail t).2) := by
  obtain ⟨lg, cbs, ol, rfl⟩ := St.exists_ghost h
  unfold iterFail
  dsimp only
  split <;> rfl

theorem memStep_congr (c : Cfg α) (b b' : Bool) (s t : St α) (h : s.er = t.er) :
    (memStep (c.cb b) s).er = (memStep (c.cb b') t).er := by
  obtain ⟨lg, cbs, ol, rfl⟩ := St.exists_ghost h
  unfold memStep
  rfl

theorem classify_congr (c : Cfg α) (b b' : Bool) (s t : St α) (h : s.er = t.er) :
    (classify (c.cb b) s).er = (classify (c.cb b') t).er := by
  obtain ⟨lg, cbs, ol, rfl⟩ := St.exists_ghost h
  unfold classify
  dsimp only
  split
  · rfl
  · split
    · rfl
    · split <;> rfl

theorem guard_congr (c : Cfg α) (b b' : Bool) (s t : St α) (h : s.er = t.er) :
    guard (c.cb b) s = guard (c.cb b') t := by
  obtain ⟨lg, cbs, ol, rfl⟩ := St.exists_ghost h
  rfl

/-- a callback that always answers "go on" leaves no trace outside the logs -/
theorem doCallback_congr (u : User α ε) (hcb : ∀ r, u.callback r = .ok false) (c : Cfg α) (b b' : Bool)
    (s t : St α) (h : s.er = t.er) :
    (doCallback u (c.cb b) s).map St.er = (doCallback u (c.cb b') t).map St.er := by
  obtain ⟨lg, cbs, ol, rfl⟩ := St.exists_ghost h
  unfold doCallback
  dsimp only
  cases b <;> cases b' <;> cases hs : s.success <;>
    simp [hcb, hs, bind, Except.bind, pure, Except.pure, Except.map, St.er, SF.er, St.logCall]

theorem afterEval_congr (u : User α ε) (c : Cfg α) (b b' : Bool) (s t : St α) (f0Old : α) (h : s.er = t.er) :
    (afterEval u (c.cb b) s f0Old).map (fun p => (p.1.er, p.2)) =
    (afterEval u (c.cb b') t f0Old).map (fun p => (p.1.er, p.2)) := by
  obtain ⟨lg, cbs, ol, rfl⟩ := St.exists_ghost h
  unfold afterEval
  dsimp only
  split
  · simp only [St.logCall, bind, Except.bind]
    cases u.update { x := s.x, f0 := s.f, f0Old := f0Old, grad := s.g, X := s.X, G := s.G } with
    | error e => rfl
    | ok r =>
      simp only [pure, Except.pure, Except.map, Except.ok.injEq]
      exact stopTests_congr c b b' _ _ _ (by simp [St.er, SF.er])
  · simp only [pure, Except.pure, Except.map, Except.ok.injEq]
    exact stopTests_congr c b b' _ _ _ h

theorem iterStep_congr (u : User α ε) (hcb : ∀ r, u.callback r = .ok false) (c : Cfg α) (b b' : Bool)
    (s t : St α) (d : Vec α) (stp f0Old : α) (h : s.er = t.er) :
    (iterStep u (c.cb b) s d stp f0Old).map (fun p => (p.1.er, p.2)) =
    (iterStep u (c.cb b') t d stp f0Old).map (fun p => (p.1.er, p.2)) := by
  obtain ⟨lg, cbs, ol, rfl⟩ := St.exists_ghost h
  unfold iterStep
  dsimp only
  apply bindE (fun p : SF α × α × Vec α => (p.1.er, p.2)) _ _ _ _ _
    (funAndGrad_congr u.toSFUser _ _ _ (by simp [SF.er]))
  rintro ⟨p1, p2⟩ ⟨q1, q2⟩ hpq
  simp only [Prod.mk.injEq] at hpq
  obtain ⟨h1, h2⟩ := hpq
  subst h2
  dsimp only
  apply bindE (fun p : St α × Bool => (p.1.er, p.2)) _ _ _ _ _
    (afterEval_congr u c b b' _ _ f0Old (by simp [St.er, h1]))
  rintro ⟨r1, r2⟩ ⟨r1', r2'⟩ hr
  simp only [Prod.mk.injEq] at hr
  obtain ⟨e1, e2⟩ := hr
  subst e2
  dsimp only
  split
  · simp [pure, Except.pure, Except.map, e1]
  · apply bindE St.er _ _ _ _ _ (doCallback_congr u hcb c b b' _ _ (memStep_congr c b b' _ _ e1))
    intro w w' hw
    obtain ⟨lg', cbs', ol', rfl⟩ := St.exists_ghost hw
    simp [pure, Except.pure, Except.map, St.er, SF.er]

theorem iterBody_congr (u : User α ε) (o : Oracles α δ) (hcb : ∀ r, u.callback r = .ok false) (c : Cfg α)
    (b b' : Bool) (s t : St α) (h : s.er = t.er) :
    (iterBody u o (c.cb b) s).map (fun p => (p.1.er, p.2)) =
    (iterBody u o (c.cb b') t).map (fun p => (p.1.er, p.2)) := by
  obtain ⟨lg, cbs, ol, rfl⟩ := St.exists_ghost h
  unfold iterBody
  dsimp only
  apply bindE (fun p : SF α × Option α × List (OReq α) => (p.1.er, p.2.1, ([] : List (OReq α)))) _ _ _ _ _
    (lineSearch_congr u o (c.cb b) _ _ _ _ _ _ _ _ _ _ (by simp [SF.er]))
  rintro ⟨p1, p2, p3⟩ ⟨q1, q2, q3⟩ hpq
  simp only [Prod.mk.injEq] at hpq
  obtain ⟨h1, h2, -⟩ := hpq
  subst h2
  dsimp only
  cases p2 with
  | none =>
    simp only [pure, Except.pure, Except.map, Except.ok.injEq]
    exact iterFail_congr _ _ (by simp [St.er, h1])
  | some stp =>
    exact iterStep_congr u hcb c b b' _ _ _ stp s.f (by simp [St.er, h1])

theorem mainLoop_congr (u : User α ε) (o : Oracles α δ) (hcb : ∀ r, u.callback r = .ok false) (c : Cfg α)
    (b b' : Bool) : ∀ (fuel : Nat) (s t : St α), s.er = t.er →
      (mainLoop u o (c.cb b) fuel s).map St.er = (mainLoop u o (c.cb b') fuel t).map St.er := by
  intro fuel
  induction fuel with
  | zero => intro s t h; simp [mainLoop, pure, Except.pure, Except.map, h]
  | succ n ih =>
    intro s t h
    simp only [mainLoop]
    rw [guard_congr c b b' s t h]
    split
    · apply bindE (fun p : St α × Flow => (p.1.er, p.2)) _ _ _ _ _ (iterBody_congr u o hcb c b b' s t h)
      rintro ⟨p1, p2⟩ ⟨q1, q2⟩ hpq
      simp only [Prod.mk.injEq] at hpq
      obtain ⟨h1, h2⟩ := hpq
      subst h2
      cases p2 with
      | brk => simp [pure, Except.pure, Except.map, h1]
      | next => exact ih _ _ h1
    · simp [pure, Except.pure, Except.map, h]

theorem result_congr (s t : St α) (h : s.er = t.er) : s.result = t.result := by
  obtain ⟨lg, cbs, ol, rfl⟩ := St.exists_ghost h
  rfl

theorem initEval_cb (u : User α ε) (c : Cfg α) (b b' : Bool) : initEval u (c.cb b) = initEval u (c.cb b') := rfl
theorem prepare_cb (u : User α ε) (c : Cfg α) (b b' : Bool) (i : Init α) :
    prepare u (c.cb b) i = prepare u (c.cb b') i := rfl
theorem earlyResult_cb (c : Cfg α) (b b' : Bool) (i : Init α) :
    earlyResult (c.cb b) i = earlyResult (c.cb b') i := rfl

/-- the whole run: with a callback that always answers "go on", switching the callback on or off
does not change the result -/
theorem minimize_cb (u : User α ε) (o : Oracles α δ) (hcb : ∀ r, u.callback r = .ok false) (c : Cfg α)
    (b b' : Bool) :
    (minimize u o (c.cb b)).map (·.1) = (minimize u o (c.cb b')).map (·.1) := by
  unfold minimize
  rw [initEval_cb u c b b']
  cases initEval u (c.cb b') with
  | error e => rfl
  | ok i =>
    simp only [bind, Except.bind]
    split
    · rw [earlyResult_cb c b b']
    · rw [prepare_cb u c b b']
      cases prepare u (c.cb b') i with
      | error e => rfl
      | ok s0 =>
        dsimp only
        have hm := mainLoop_congr u o hcb c b b' ((c.cb b).maxiter - s0.nit) s0 s0 rfl
        have hfuel : (c.cb b).maxiter - s0.nit = (c.cb b').maxiter - s0.nit := rfl
        rw [hfuel] at hm
        cases h1 : mainLoop u o (c.cb b) ((c.cb b').maxiter - s0.nit) s0 with
        | error e =>
          cases h2 : mainLoop u o (c.cb b') ((c.cb b').maxiter - s0.nit) s0 with
          | error e' => rw [h1, h2] at hm; simp only [Except.map] at hm; injection hm with hm; subst hm; rfl
          | ok s2 => rw [h1, h2] at hm; simp [Except.map] at hm
        | ok s1 =>
          cases h2 : mainLoop u o (c.cb b') ((c.cb b').maxiter - s0.nit) s0 with
          | error e' => rw [h1, h2] at hm; simp [Except.map] at hm
          | ok s2 =>
            rw [h1, h2] at hm
            simp only [Except.map, Except.ok.injEq] at hm
            simp only [pure, Except.pure, Except.map, Except.ok.injEq]
            exact result_congr _ _ (classify_congr c b b' s1 s2 hm)

end driver
end Lbfgsb
