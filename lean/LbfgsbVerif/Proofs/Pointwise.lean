/-
  Pointwise (`getD`) description of the vector helpers, for proofs that reason coordinate by
  coordinate (C08: the generalized Cauchy point lies on the projected path).
-/
import LbfgsbVerif.Model.Cauchy
import LbfgsbVerif.Props.C01

namespace Lbfgsb
variable {α : Type}

theorem ext_getD {a b : List α} (d : α) (hl : a.length = b.length)
    (h : ∀ j, j < a.length → a.getD j d = b.getD j d) : a = b := by
  apply List.ext_getElem hl
  intro j h1 h2
  have := h j h1
  simpa [List.getD_eq_getElem?_getD, List.getElem?_eq_getElem h1, List.getElem?_eq_getElem h2] using this

theorem getD_vzip (f : α → α → α) (a b : List α) (d : α) (j : Nat) (ha : j < a.length) (hb : j < b.length) :
    (vzip f a b).getD j d = f (a.getD j d) (b.getD j d) := by
  induction a generalizing b j with
  | nil => simp at ha
  | cons x xs ih =>
    cases b with
    | nil => simp at hb
    | cons y ys =>
      cases j with
      | zero => simp [vzip]
      | succ j' =>
        simp only [vzip, List.getD_cons_succ]
        exact ih ys j' (by simpa using ha) (by simpa using hb)

theorem getD_map (f : α → α) (a : List α) (d : α) (j : Nat) (ha : j < a.length) :
    (a.map f).getD j d = f (a.getD j d) := by
  simp [List.getD_eq_getElem?_getD, List.getElem?_eq_getElem ha]

theorem getD_set (a : List α) (i j : Nat) (v d : α) :
    (a.set i v).getD j d = if i = j ∧ i < a.length then v else a.getD j d := by
  simp only [List.getD_eq_getElem?_getD, List.getElem?_set]
  by_cases h : i = j
  · subst h
    by_cases h2 : i < a.length
    · simp [h2]
    · simp [h2, List.getElem?_eq_none (Nat.le_of_not_lt h2)]
  · simp [h]

section order
variable [LT α] [DecidableLT α]

theorem getD_clip (p lb ub : Vec α) (d : α) (j : Nat) (hp : j < p.length) (hl : lb.length = p.length)
    (hu : ub.length = p.length) :
    (clip p lb ub).getD j d = clip1 (lb.getD j d) (ub.getD j d) (p.getD j d) := by
  induction p generalizing lb ub j with
  | nil => simp at hp
  | cons x xs ih =>
    cases lb with
    | nil => simp at hl
    | cons l ls =>
      cases ub with
      | nil => simp at hu
      | cons u us =>
        cases j with
        | zero => simp [clip]
        | succ j' =>
          simp only [clip, List.getD_cons_succ]
          exact ih ls us j' (by simpa using hp) (by simpa using hl) (by simpa using hu)

end order
end Lbfgsb
