/-
  Change of units (abstract part): if two inputs of the Cauchy routine describe the same problem in other units — objective
  multiplied by `a > 0`, variables by `b > 0` — then the model value along the projected path of the second is `a` times that of the
  first at the rescaled parameter, a first local minimiser is carried to a first local minimiser, and (by uniqueness) the Cauchy
  point of the second input is `b` times the Cauchy point of the first.
-/
import LbfgsbVerif.Props.C08Unique

set_option linter.unusedSectionVars false

namespace Lbfgsb.Units
open Lbfgsb Matrix Lbfgsb.C08
variable {K : Type} [Field K] [LinearOrder K] [IsStrictOrderedRing K]

theorem clip1_smul (b l u x : K) (hb : 0 < b) : clip1 (b * l) (b * u) (b * x) = b * clip1 l u x := by
  unfold clip1
  by_cases h1 : x < l
  · rw [if_pos h1, if_pos (mul_lt_mul_of_pos_left h1 hb)]
  · rw [if_neg h1, if_neg (by intro h; exact h1 (lt_of_mul_lt_mul_left h (le_of_lt hb)))]
    by_cases h2 : u < x
    · rw [if_pos h2, if_pos (mul_lt_mul_of_pos_left h2 hb)]
    · rw [if_neg h2, if_neg (by intro h; exact h2 (lt_of_mul_lt_mul_left h (le_of_lt hb)))]

theorem clip_smul (b : K) (hb : 0 < b) (p lb ub : Vec K) :
    clip (smul b p) (smul b lb) (smul b ub) = smul b (clip p lb ub) := by
  induction p generalizing lb ub with
  | nil => cases lb <;> cases ub <;> simp [clip, smul]
  | cons x xs ih =>
    cases lb with
    | nil => simp [clip, smul]
    | cons l ls =>
      cases ub with
      | nil => simp [clip, smul]
      | cons u us =>
        have := ih ls us
        simp only [smul, List.map_cons, clip] at this ⊢
        rw [clip1_smul b l u x hb, this]

theorem inBoxF_smul (b : K) (hb : 0 < b) (lb ub p : Vec K) (h : InBoxF lb ub p) : InBoxF (smul b lb) (smul b ub) (smul b p) := by
  induction p generalizing lb ub with
  | nil => cases lb <;> cases ub <;> simp_all [InBoxF, smul]
  | cons x xs ih =>
    cases lb with
    | nil => cases ub <;> simp [InBoxF] at h
    | cons l ls =>
      cases ub with
      | nil => simp [InBoxF] at h
      | cons u us =>
        simp only [InBoxF] at h
        have := ih ls us h.2
        simp only [smul, List.map_cons, InBoxF] at this ⊢
        exact ⟨⟨mul_le_mul_of_nonneg_left h.1.1 (le_of_lt hb), mul_le_mul_of_nonneg_left h.1.2 (le_of_lt hb)⟩, this⟩

/-- the two inputs describe the same problem in other units -/
structure SameProblem (a b : K) (i i' : CauchyIn K) : Prop where
  hx : i'.x = smul b i.x
  hg : i'.g = smul (a / b) i.g
  hlb : i'.lb = smul b i.lb
  hub : i'.ub = smul b i.ub

theorem vsub_smul_units (a b t : K) (hb : b ≠ 0) (x g : Vec K) :
    vsub (smul b x) (smul t (smul (a / b) g)) = smul b (vsub x (smul (a / (b * b) * t) g)) := by
  induction x generalizing g with
  | nil => simp [vsub, smul, vzip]
  | cons xi xs ih =>
    cases g with
    | nil => simp [vsub, smul, vzip]
    | cons gi gs =>
      have := ih gs
      simp only [vsub, smul, List.map_cons, vzip] at this ⊢
      rw [this]
      congr 1
      field_simp

theorem pathAt_units (a b : K) (hb : 0 < b) (i i' : CauchyIn K) (h : SameProblem a b i i') (t : K) :
    pathAt i' t = smul b (pathAt i (a / (b * b) * t)) := by
  unfold pathAt
  rw [h.hx, h.hg, h.hlb, h.hub, ← clip_smul b hb, vsub_smul_units a b t (ne_of_gt hb)]

/-- the model value along the path, in the other units -/
theorem phi_units (a b : K) (ha : 0 < a) (hb : 0 < b) (i i' : CauchyIn K) (n k k' : Nat)
    (Mm : Matrix (Fin k) (Fin k) K) (Mm' : Matrix (Fin k') (Fin k') K) (h : SameProblem a b i i')
    (hxl : i.x.length = n) (hgl : i.g.length = n)
    (hB : bmat i'.theta (wmat n k' i'.W) Mm' = (a / (b * b)) • bmat i.theta (wmat n k i.W) Mm) (t : K) :
    phi i' n k' Mm' t = a * phi i n k Mm (a / (b * b) * t) := by
  have hbne : b ≠ 0 := ne_of_gt hb
  unfold phi
  have hpl : (pathAt i (a / (b * b) * t)).length = n := by rw [pathAt_length i (by rw [hgl, hxl]), hxl]
  rw [pathAt_units a b hb i i' h t, hB, h.hg, h.hx, vec_smul n _ _ hpl, vec_smul n _ _ hxl, vec_smul n _ _ hgl]
  unfold qmodel
  rw [← smul_sub, dotProduct_smul, smul_dotProduct, mulVec_smul, smul_mulVec, dotProduct_smul, smul_dotProduct, dotProduct_smul]
  simp only [smul_eq_mul]
  field_simp

/-- a first local minimiser of the path value is carried to one in the other units -/
theorem firstLocalMin_units (a c : K) (ha : 0 < a) (hc : 0 < c) (φ φ' : K → K) (hφ : ∀ t, φ' t = a * φ (c * t)) (tF : K)
    (h : FirstLocalMin φ tF) : FirstLocalMin φ' (tF / c) := by
  obtain ⟨h0, hdec, δ, hδ, hmin⟩ := h
  have hcne : c ≠ 0 := ne_of_gt hc
  refine ⟨div_nonneg h0 (le_of_lt hc), ?_, δ / c, div_pos hδ hc, ?_⟩
  · intro p q hp hpq hq
    rw [hφ, hφ]
    have h1 : c * q ≤ tF := by
      have := mul_le_mul_of_nonneg_left hq (le_of_lt hc)
      rwa [mul_div_cancel₀ _ hcne] at this
    exact mul_lt_mul_of_pos_left (hdec (c * p) (c * q) (mul_nonneg (le_of_lt hc) hp) (mul_lt_mul_of_pos_left hpq hc) h1) ha
  · intro τ h1 h2
    rw [hφ, hφ, mul_div_cancel₀ _ hcne]
    have e1 : tF ≤ c * τ := by
      have := mul_le_mul_of_nonneg_left h1 (le_of_lt hc)
      rwa [mul_div_cancel₀ _ hcne] at this
    have e2 : c * τ ≤ tF + δ := by
      have := mul_le_mul_of_nonneg_left h2 (le_of_lt hc)
      rw [mul_add, mul_div_cancel₀ _ hcne, mul_div_cancel₀ _ hcne] at this
      exact this
    exact mul_le_mul_of_nonneg_left (hmin (c * τ) e1 e2) (le_of_lt ha)

/-- **the Cauchy point in other units is the Cauchy point, in those units** -/
theorem cauchy_units (a b : K) (ha : 0 < a) (hb : 0 < b) (i i' : CauchyIn K) (n k k' : Nat)
    (Mm : Matrix (Fin k) (Fin k) K) (Mm' : Matrix (Fin k') (Fin k') K) (h : SameProblem a b i i')
    (hk : kOf i = k) (hc : MinCtx i n k Mm (f2orgOf i)) (hk' : kOf i' = k') (hc' : MinCtx i' n k' Mm' (f2orgOf i'))
    (hB : bmat i'.theta (wmat n k' i'.W) Mm' = (a / (b * b)) • bmat i.theta (wmat n k i.W) Mm) :
    (cauchy i').1 = smul b (cauchy i).1 := by
  obtain ⟨tF, h0, hdec, hmin, hp, -⟩ := gcp_first_local_min i n k Mm hk hc
  have hcpos : 0 < a / (b * b) := div_pos ha (mul_pos hb hb)
  have hflm := firstLocalMin_units a (a / (b * b)) ha hcpos (phi i n k Mm) (phi i' n k' Mm')
    (fun t => phi_units a b ha hb i i' n k k' Mm Mm' h hc.q.hx hc.q.hg hB t) tF ⟨h0, hdec, hmin⟩
  rw [gcp_is_the_first_local_min i' n k' Mm' hk' hc' _ hflm, hp]
  have := pathAt_units a b hb i i' h (tF / (a / (b * b)))
  unfold pathAt at this
  rw [this, mul_div_cancel₀ _ (ne_of_gt hcpos)]

end Lbfgsb.Units
