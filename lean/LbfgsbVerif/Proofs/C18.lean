/-
  Invariant of the shell used by the C18 theorems: the stored history `(X, G)` is bounded,
  its members are coherent `(point, gradient the user returned there × scale)` pairs, and all
  consecutive members passed the curvature test. Level U (+ `a * 1 = a` through C05).
-/
import LbfgsbVerif.Proofs.C05

namespace Lbfgsb
variable {α ε δ : Type}

section mem
variable [Add α] [Sub α] [Mul α] [LT α] [DecidableLT α] [OfNat α 0]

/-- every stored point passed the curvature test against its predecessor when it entered
(orientation of `is_update_X_and_G`: newer against older) -/
def CurvChain (eps : α) : List (Vec α) → List (Vec α) → Prop
  | x1 :: x2 :: xs, g1 :: g2 :: gs =>
    curvOk x2 g2 x1 g1 eps = true ∧ CurvChain eps (x2 :: xs) (g2 :: gs)
  | _, _ => True

theorem curvChain_append (eps : α) (X G : List (Vec α)) (x g : Vec α) (hl : X.length = G.length)
    (hc : CurvChain eps X G) (hne : X ≠ [])
    (hk : curvOk x g (lastD X) (lastD G) eps = true) : CurvChain eps (X ++ [x]) (G ++ [g]) := by
  induction X generalizing G with
  | nil => exact absurd rfl hne
  | cons x1 xs ih =>
    cases G with
    | nil => simp at hl
    | cons g1 gs =>
      cases xs with
      | nil =>
        cases gs with
        | nil =>
          simp only [List.cons_append, List.nil_append, CurvChain, and_true]
          simpa [lastD] using hk
        | cons _ _ => simp at hl
      | cons x2 xs' =>
        cases gs with
        | nil => simp at hl
        | cons g2 gs' =>
          simp only [CurvChain] at hc
          simp only [List.cons_append, CurvChain]
          refine ⟨hc.1, ?_⟩
          have := ih (g2 :: gs') (by simpa using hl) hc.2 (by simp)
            (by simpa [lastD, List.getLastD] using hk)
          simpa using this

theorem curvChain_drop1 (eps : α) (X G : List (Vec α)) (hc : CurvChain eps X G) :
    CurvChain eps (X.drop 1) (G.drop 1) := by
  cases X with
  | nil => simp [CurvChain]
  | cons x1 xs =>
    cases G with
    | nil => cases xs <;> simp [CurvChain]
    | cons g1 gs =>
      cases xs with
      | nil => simp [CurvChain]
      | cons x2 xs' =>
        cases gs with
        | nil => simp [CurvChain]
        | cons g2 gs' =>
          simp only [CurvChain] at hc
          simpa using hc.2

/-- the stored history as the property reads it -/
structure MemOk (maxcor : Nat) (eps : α) (P : Vec α → Vec α → Prop) (X G : List (Vec α)) : Prop where
  len : X.length = G.length
  pos : X ≠ []
  bound : X.length ≤ maxcor + 1
  good : ∀ p ∈ X.zip G, P p.1 p.2
  chain : CurvChain eps X G

theorem lastD_zip_mem (X G : List (Vec α)) (hl : X.length = G.length) (hne : X ≠ []) :
    (lastD X, lastD G) ∈ X.zip G := by
  induction X generalizing G with
  | nil => exact absurd rfl hne
  | cons x xs ih =>
    cases G with
    | nil => simp at hl
    | cons g gs =>
      cases xs with
      | nil =>
        cases gs with
        | nil => simp [lastD]
        | cons _ _ => simp at hl
      | cons x2 xs' =>
        cases gs with
        | nil => simp at hl
        | cons g2 gs' =>
          have := ih (g2 :: gs') (by simpa using hl) (by simp)
          simp only [List.zip_cons_cons, List.mem_cons]
          right
          simpa [lastD, List.getLastD] using this

theorem MemOk.single (maxcor : Nat) (eps : α) (P : Vec α → Vec α → Prop) (x g : Vec α) (h : P x g) :
    MemOk maxcor eps P [x] [g] :=
  ⟨rfl, by simp, by simp, by simpa using h, by simp [CurvChain]⟩

/-- `updateMats` keeps the history well formed -/
theorem MemOk.update (maxcor : Nat) (eps : α) (P : Vec α → Vec α → Prop) (X G : List (Vec α))
    (x g : Vec α) (mats : Mats α) (h : MemOk maxcor eps P X G) (hp : P x g) :
    MemOk maxcor eps P (updateMats x g X G maxcor mats eps).1 (updateMats x g X G maxcor mats eps).2.1 := by
  unfold updateMats
  split
  · rename_i hk
    have hl : (X ++ [x]).length = (G ++ [g]).length := by simp [h.len]
    have hgood : ∀ p ∈ (X ++ [x]).zip (G ++ [g]), P p.1 p.2 := by
      intro p hp'
      rw [List.zip_append h.len] at hp'
      rcases List.mem_append.1 hp' with h1 | h1
      · exact h.good p h1
      · simp only [List.zip_cons_cons, List.zip_nil_right, List.mem_singleton] at h1
        subst h1; exact hp
    have hch := curvChain_append eps X G x g h.len h.chain h.pos hk
    simp only
    split
    · rename_i hgt
      refine ⟨by simp [h.len], ?_, ?_, ?_, curvChain_drop1 eps _ _ hch⟩
      · intro h0
        have := congrArg List.length h0
        have hp := List.length_pos_iff.mpr h.pos
        simp only [List.length_drop, List.length_append, List.length_singleton, List.length_nil] at this
        omega
      · simp only [List.length_drop, List.length_append, List.length_singleton] at hgt ⊢
        have := h.bound
        omega
      · intro p hp'
        have hz : (List.drop 1 (X ++ [x])).zip (List.drop 1 (G ++ [g])) = ((X ++ [x]).zip (G ++ [g])).drop 1 := by
          simp only [List.zip, List.drop_zipWith]
        rw [hz] at hp'
        exact hgood p (List.mem_of_mem_drop hp')
    · rename_i hle
      exact ⟨hl, by simp, by simpa using hle, hgood, hch⟩
  · exact h

end mem

section run
variable [LinearOrder α] [Add α] [Sub α] [Mul α] [Div α] [Neg α] [OfNat α 0] [OfNat α 1]
  [FloatLike α]

/-- a coherent (point, gradient) pair: the gradient is the one the user's callable (or the
finite-difference scheme over the user's objective) gives at the point, times the scale -/
def GradAt (u : User α ε) (c : Cfg α) (sc : α) (x g : Vec α) : Prop :=
  ∃ g0, gradSpec u.toSFUser c.lb c.ub c.mode x = .ok g0 ∧ g = vscale g0 sc

structure Inv18 (u : User α ε) (c : Cfg α) (sc : α) (n g : Nat) (s : St α) : Prop where
  i5 : Inv5 u c sc n g s
  mem : MemOk c.maxcor c.epsSY (GradAt u c sc) s.X s.G
  cbs : ∀ cb ∈ s.cbStates, ∃ X G, MemOk c.maxcor c.epsSY (GradAt u c sc) X G ∧
          cb.sk = diffs X ∧ cb.yk = diffs G


theorem stopTests_frameXG {c : Cfg α} {s s' : St α} {f0Old : α} {stop : Bool}
    (h : stopTests c s f0Old = (s', stop)) : s'.X = s.X ∧ s'.G = s.G := by
  unfold stopTests at h
  split at h
  · injection h with h1 _; subst h1; exact ⟨rfl, rfl⟩
  · split at h <;> (injection h with h1 _; subst h1; exact ⟨rfl, rfl⟩)

theorem doCallback_inv18 (u : User α ε) (c : Cfg α) (sc : α) (n g : Nat) (s s' : St α)
    (hi : Inv18 u c sc n g s) (h : doCallback u c s = .ok s') : Inv18 u c sc n g s' := by
  have i5 := doCallback_inv5 u c sc n g s s' hi.i5 h
  unfold doCallback at h
  split at h
  · simp only [bind, Except.bind] at h
    split at h
    · simp at h
    · rename_i b hb
      simp only [pure, Except.pure] at h
      injection h with h
      have hcbs : ∀ cb ∈ s.cbStates ++ [{ s.result with nit := s.nit + 1 }],
          ∃ X G, MemOk c.maxcor c.epsSY (GradAt u c sc) X G ∧ cb.sk = diffs X ∧ cb.yk = diffs G := by
        intro cb hcb
        rcases List.mem_append.1 hcb with h' | h'
        · exact hi.cbs cb h'
        · simp only [List.mem_singleton] at h'
          subst h'
          exact ⟨s.X, s.G, hi.mem, rfl, rfl⟩
      cases b
      all_goals
        simp only [if_true, Bool.false_eq_true, if_false] at h
        subst h
        exact ⟨i5, hi.mem, hcbs⟩
  · simp only [pure, Except.pure] at h
    injection h with h; subst h
    exact hi

theorem iterStep_inv18 (u : User α ε) (c : Cfg α) (hU : c.hasUpdate = false) (sc : α) (n g : Nat)
    (s s' : St α) (d : Vec α) (stp f0Old : α) (flow : Flow) (hi : Inv18 u c sc n g s)
    (h : iterStep u c s d stp f0Old = .ok (s', flow)) : Inv18 u c sc n g s' := by
  have i5' := iterStep_inv5 u c hU sc n g s s' d stp f0Old flow hi.i5 h
  unfold iterStep at h
  simp only [bind, Except.bind] at h
  split at h
  · simp at h
  · rename_i e he
    obtain ⟨es, ⟨v, hv, hf⟩, ⟨g0, hg0, hg⟩⟩ := funAndGrad_sum hi.i5.coh he
    rw [hi.i5.lb_eq, hi.i5.ub_eq, hi.i5.mode_eq] at hg0
    rw [hi.i5.scale_eq] at hg
    split at h
    · simp at h
    · rename_i r hr
      obtain ⟨s1, stop⟩ := r
      have hfr : s1.x = trial s.x d c.lb c.ub stp ∧ s1.g = e.2.2 ∧ s1.cbStates = s.cbStates ∧
          s1.X = s.X ∧ s1.G = s.G := by
        unfold afterEval at hr
        simp only [hU, Bool.false_eq_true, if_false, pure, Except.pure] at hr
        injection hr with hr
        obtain ⟨-, h2, h3, h4, -, -⟩ := stopTests_frame' hr
        obtain ⟨h7, h8⟩ := stopTests_frameXG hr
        exact ⟨h3, h4, h2, h7, h8⟩
      obtain ⟨hx1, hg1, hcb1, hX1, hG1⟩ := hfr
      have hmem1 : MemOk c.maxcor c.epsSY (GradAt u c sc) s1.X s1.G := by rw [hX1, hG1]; exact hi.mem
      have hcbs1 : ∀ cb ∈ s1.cbStates, ∃ X G, MemOk c.maxcor c.epsSY (GradAt u c sc) X G ∧
          cb.sk = diffs X ∧ cb.yk = diffs G := by rw [hcb1]; exact hi.cbs
      have hat : GradAt u c sc s1.x s1.g := by rw [hx1, hg1]; exact ⟨g0, hg0, hg⟩
      cases stop with
      | true =>
        simp only [if_true, pure, Except.pure] at h
        injection h with h; injection h with h1 _; subst h1
        exact ⟨i5', hmem1, hcbs1⟩
      | false =>
        simp only [Bool.false_eq_true, if_false] at h
        split at h
        · simp at h
        · rename_i s2 hs2
          simp only [pure, Except.pure] at h
          injection h with h; injection h with h1 _; subst h1
          -- Inv5 of the state after the memory update: the fields Inv5 reads are untouched
          have im5 : Inv5 u c sc n g (memStep c s1) := by
            -- recover it from the callback lemma's converse direction: doCallback leaves the
            -- Inv5 fields alone, so Inv5 of `s2` gives Inv5 of its argument's fields
            have : Inv5 u c sc n g { s2 with nit := s2.nit + 1 } := i5'
            unfold doCallback at hs2
            split at hs2
            · simp only [bind, Except.bind] at hs2
              split at hs2
              · simp at hs2
              · rename_i b hb
                simp only [pure, Except.pure] at hs2
                injection hs2 with hs2
                cases b
                all_goals
                  simp only [if_true, Bool.false_eq_true, if_false] at hs2
                  subst hs2
                  refine ⟨this.lb_eq, this.ub_eq, this.mode_eq, this.scale_eq,
                    by simpa [St.logCall, Coh] using this.coh, this.at_x, ?_,
                    fun cb hcb => this.cbs cb (by simp only [List.mem_append]; left; exact hcb)⟩
                  have hc := this.counted
                  simp only [St.logCall, CountedFrom] at hc ⊢
                  rw [nF_append_other _ _ _ (by decide), nG_append_other _ _ _ (by decide)] at hc
                  exact hc
            · simp only [pure, Except.pure] at hs2
              injection hs2 with hs2; subst hs2
              exact ⟨this.lb_eq, this.ub_eq, this.mode_eq, this.scale_eq, this.coh, this.at_x,
                this.counted, this.cbs⟩
          have im : Inv18 u c sc n g (memStep c s1) :=
            ⟨im5, MemOk.update c.maxcor c.epsSY _ s1.X s1.G s1.x s1.g s1.mats hmem1 hat, hcbs1⟩
          have i2 := doCallback_inv18 u c sc n g _ s2 im hs2
          exact ⟨i5', i2.mem, i2.cbs⟩

theorem iterBody_inv18 (u : User α ε) (o : Oracles α δ) (c : Cfg α) (hU : c.hasUpdate = false)
    (sc : α) (n g : Nat) (s s' : St α) (flow : Flow) (hi : Inv18 u c sc n g s)
    (h : iterBody u o c s = .ok (s', flow)) : Inv18 u c sc n g s' := by
  have i5' := iterBody_inv5 u o c hU sc n g s s' flow hi.i5 h
  unfold iterBody at h
  simp only [bind, Except.bind] at h
  split at h
  · simp at h
  · rename_i r hr
    obtain ⟨sfL, stp?, olog⟩ := r
    have ls := lineSearch_sum u o c _ _ _ _ _ _ sfL _ _ olog stp? hi.i5.coh hr
    have imid5 : Inv5 u c sc n g { s with sf := sfL, olog := olog } :=
      ⟨by simp only; rw [ls.lb_eq, hi.i5.lb_eq], by simp only; rw [ls.ub_eq, hi.i5.ub_eq],
       by simp only; rw [ls.mode, hi.i5.mode_eq], by simp only; rw [ls.scale, hi.i5.scale_eq], ls.coh,
       hi.i5.at_x, ls.counted n g hi.i5.counted, hi.i5.cbs⟩
    simp only at h
    cases stp? with
    | none =>
      simp only [pure, Except.pure] at h
      injection h with h
      unfold iterFail at h
      split at h
      · injection h with h1 _
        subst h1
        exact ⟨i5', hi.mem, hi.cbs⟩
      · injection h with h1 _
        subst h1
        refine ⟨i5', ?_, hi.cbs⟩
        exact MemOk.single _ _ _ _ _ (hi.mem.good _ (lastD_zip_mem s.X s.G hi.mem.len hi.mem.pos))
    | some stp =>
      simp only at h
      exact iterStep_inv18 u c hU sc n g _ s' _ stp s.f flow ⟨imid5, hi.mem, hi.cbs⟩ h

theorem mainLoop_inv18 (u : User α ε) (o : Oracles α δ) (c : Cfg α) (hU : c.hasUpdate = false)
    (sc : α) (n g : Nat) :
    ∀ (fuel : Nat) (s s' : St α), Inv18 u c sc n g s →
      mainLoop u o c fuel s = .ok s' → Inv18 u c sc n g s' := by
  intro fuel
  induction fuel with
  | zero =>
    intro s s' hi h
    simp only [mainLoop, pure, Except.pure] at h
    injection h with h; subst h; exact hi
  | succ fuel ih =>
    intro s s' hi h
    simp only [mainLoop] at h
    split at h
    · simp only [bind, Except.bind] at h
      split at h
      · simp at h
      · rename_i r hr
        obtain ⟨s1, flow⟩ := r
        have i1 := iterBody_inv18 u o c hU sc n g s s1 flow hi hr
        cases flow with
        | brk =>
          simp only [pure, Except.pure] at h
          injection h with h; subst h; exact i1
        | next =>
          simp only at h
          exact ih s1 s' i1 h
    · simp only [pure, Except.pure] at h
      injection h with h; subst h; exact hi


theorem initEval_fresh (u : User α ε) (c : Cfg α) (i : Init α) (hck : c.checkpoint = none)
    (h : initEval u c = .ok i) : i.X = [] ∧ i.G = [] := by
  unfold initEval at h
  simp only [bind, Except.bind] at h
  split at h
  · simp at h
  · split at h
    · simp at h
    · split at h
      · simp at h
      · simp only [pure, Except.pure] at h
        injection h with h; subst h
        simp [hck]

/-- on a fresh run the memory after `prepare` is the start point alone -/
theorem prepare_fresh (u : User α ε) (c : Cfg α) (hU : c.hasUpdate = false) (i : Init α) (s : St α)
    (hX : i.X = []) (hG : i.G = []) (h : prepare u c i = .ok s) :
    s.X = [s.x] ∧ s.G = [s.g] ∧ s.cbStates = [] := by
  unfold prepare at h
  simp only [bind, Except.bind] at h
  split at h
  · simp at h
  · rename_i e he
    split at h
    · simp at h
    · rename_i s1 hs1
      have h1 : s1.cbStates = [] ∧ s1.X = [] ∧ s1.G = [] := by
        unfold applyScaler at hs1
        split at hs1
        · simp only [bind, Except.bind] at hs1
          split at hs1
          · simp at hs1
          · simp only [pure, Except.pure] at hs1
            injection hs1 with hs1; subst hs1
            exact ⟨rfl, hX, hG⟩
        · simp only [pure, Except.pure] at hs1
          injection hs1 with hs1; subst hs1
          exact ⟨rfl, hX, hG⟩
      split at h
      · simp at h
      · rename_i s2 hs2
        simp only [pure, Except.pure] at h
        injection h with h; subst h
        unfold applyUpdate0 at hs2
        simp only [hU, Bool.false_eq_true, if_false, pure, Except.pure] at hs2
        injection hs2 with hs2; subst hs2
        unfold initMemory
        simp [h1.1, h1.2.1]

end run
end Lbfgsb
