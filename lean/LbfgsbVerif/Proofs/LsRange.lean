/-
  With the concrete Moré–Thuente stepper (Model/Dcsrch.lean) plugged into the line search of the
  driver model, the step the line search returns lies in `[0, max_allowed_steplength]` — any
  arithmetic (level U).
-/
import LbfgsbVerif.Proofs.Dcsrch
import LbfgsbVerif.Proofs.Shell

namespace Lbfgsb
open Dcsrch
variable {α ε : Type} [LinearOrder α] [Add α] [Sub α] [Mul α] [Div α] [Neg α] [OfNat α 0] [OfNat α 1]
  [FloatLike α] [DcOps α]

/-- the stepper oracle is the model of SciPy's DCSRCH -/
structure ConcreteStepper (o : Oracles α (DC α)) : Prop where
  new : ∀ x0 d ftol gtol xtol stpmax, o.dcNew x0 d ftol gtol xtol stpmax = DC.new ftol gtol xtol 0 stpmax
  iter : ∀ st stp f g task, o.dcIter st stp f g task = iterate st stp f g task

/-- invariant of the line-search loop -/
structure LsR (hi : α) (l : LS α (DC α)) : Prop where
  best : ∀ b, l.best = some b → InR hi b
  task : l.task = .start ∨ l.task = .fg
  fresh : l.task = .start → l.dc.stpmin = 0 ∧ l.dc.stpmax = hi
  run : l.task = .fg → Ok 0 hi l.dc ∧ InR hi l.stp0

theorem start_task (st : DC α) (stp f g : α) : (start st stp f g).2.2 = .fg ∨ (start st stp f g).2.2 = .error := by
  unfold start
  dsimp only
  split
  · right; rfl
  · left; rfl

theorem lsStep_range (u : User α ε) (o : Oracles α (DC α)) (ho : ConcreteStepper o) (x0 d lb ub : Vec α) (hi : α)
    (l l' : LS α (DC α)) (cont : Bool) (hl : LsR hi l) (h : lsStep u o x0 d lb ub l = .ok (l', cont)) :
    (∀ b, l'.best = some b → InR hi b) ∧ (cont = true → LsR hi l') := by
  unfold lsStep at h
  rw [ho.iter] at h
  dsimp only at h
  -- facts about the stepper's answer
  have hr : (iterate l.dc l.stp0 l.fm1 l.dphim1 l.task).2.2 = .fg →
      Ok 0 hi (iterate l.dc l.stp0 l.fm1 l.dphim1 l.task).1 ∧ InR hi (iterate l.dc l.stp0 l.fm1 l.dphim1 l.task).2.1 := by
    intro hfg
    rcases hl.task with ht | ht
    · obtain ⟨e1, e2⟩ := hl.fresh ht
      rw [ht] at hfg ⊢
      have : iterate l.dc l.stp0 l.fm1 l.dphim1 .start = start l.dc l.stp0 l.fm1 l.dphim1 := by simp [iterate]
      rw [this] at hfg ⊢
      have := start_ok l.dc l.stp0 l.fm1 l.dphim1 hfg
      rw [e1, e2] at this
      exact this
    · obtain ⟨o1, o2⟩ := hl.run ht
      exact iterate_ok 0 hi l.dc l.stp0 l.fm1 l.dphim1 l.task (by rw [ht]; decide) o1 o2
  split at h
  · rename_i hfg
    obtain ⟨hok, hin⟩ := hr hfg
    simp only [bind, Except.bind] at h
    split at h
    · simp at h
    · rename_i e he
      simp only [pure, Except.pure, Except.ok.injEq, Prod.mk.injEq] at h
      obtain ⟨h1, h2⟩ := h
      subst h2
      have hb : ∀ b, l'.best = some b → InR hi b := by
        intro b hb
        rw [← h1] at hb
        split at hb
        · simp only [Option.some.injEq] at hb; rw [← hb]; exact hin
        · exact hl.best b hb
      refine ⟨hb, fun _ => ⟨hb, ?_, ?_, ?_⟩⟩
      · right; rw [← h1]; split <;> exact hfg
      · intro hs; rw [← h1] at hs; exfalso
        have : (iterate l.dc l.stp0 l.fm1 l.dphim1 l.task).2.2 = .start := by
          split at hs <;> exact hs
        rw [hfg] at this; cases this
      · intro _; rw [← h1]; split <;> exact ⟨hok, hin⟩
  · simp only [pure, Except.pure, Except.ok.injEq, Prod.mk.injEq] at h
    obtain ⟨h1, h2⟩ := h
    subst h2
    refine ⟨fun b hb => hl.best b (by rw [← h1] at hb; exact hb), fun hc => by cases hc⟩

theorem lsLoop_range (u : User α ε) (o : Oracles α (DC α)) (ho : ConcreteStepper o) (x0 d lb ub : Vec α) (hi : α) :
    ∀ (fuel : Nat) (l l' : LS α (DC α)) (ex : Bool), LsR hi l → lsLoop u o x0 d lb ub fuel l = .ok (l', ex) →
      ∀ b, l'.best = some b → InR hi b := by
  intro fuel
  induction fuel with
  | zero =>
    intro l l' ex hl h
    simp only [lsLoop, pure, Except.pure, Except.ok.injEq, Prod.mk.injEq] at h
    rw [← h.1]; exact hl.best
  | succ n ih =>
    intro l l' ex hl h
    simp only [lsLoop, bind, Except.bind] at h
    split at h
    · simp at h
    · rename_i r hr
      obtain ⟨l1, cont⟩ := r
      obtain ⟨hb, hc⟩ := lsStep_range u o ho x0 d lb ub hi l l1 cont hl hr
      cases cont with
      | true => exact ih l1 l' ex (hc rfl) h
      | false =>
        simp only [Bool.false_eq_true, if_false, pure, Except.pure, Except.ok.injEq, Prod.mk.injEq] at h
        rw [← h.1]; exact hb

/-- **the step returned by the line search lies in `[0, max_allowed_steplength]`** -/
theorem lineSearch_range (u : User α ε) (o : Oracles α (DC α)) (ho : ConcreteStepper o) (c : Cfg α)
    (x0 : Vec α) (f0 : α) (g0 d : Vec α) (nit : Nat) (sf sf' : SF α) (maxIter : Nat) (olog olog' : List (OReq α))
    (stp : α) (h : lineSearch u o c x0 f0 g0 d nit sf maxIter olog = .ok (sf', some stp, olog')) :
    ¬ stp < 0 ∧ ¬ maxAllowedStep x0 d c.lb c.ub c.maxStep nit < stp := by
  unfold lineSearch at h
  simp only [bind, Except.bind] at h
  split at h
  · simp at h
  · rename_i r hr
    obtain ⟨l, ex⟩ := r
    have hl0 : ∀ (a b : α), LsR (maxAllowedStep x0 d c.lb c.ub c.maxStep nit)
        ({ sf := sf, dc := o.dcNew x0 d c.ftolLS c.gtolLS c.xtolLS (maxAllowedStep x0 d c.lb c.ub c.maxStep nit),
           stp0 := a, fm1 := f0, dphim1 := dot g0 d, task := .start, stp := b, fBest := f0, best := none,
           olog := olog } : LS α (DC α)) := by
      intro a b
      refine ⟨by simp, Or.inl rfl, fun _ => ?_, fun h' => by cases h'⟩
      rw [ho.new]; exact ⟨rfl, rfl⟩
    have hb := lsLoop_range u o ho x0 d c.lb c.ub _ maxIter _ l ex (hl0 _ _) hr
    dsimp only at h
    repeat' split at h
    all_goals (simp only [pure, Except.pure, Except.ok.injEq, Prod.mk.injEq, reduceCtorEq, false_and, and_false] at h)
    all_goals exact hb stp h.2.1


/-! ### every evaluation of the line search is at a trial point whose step is in range -/

/-- log entries of a line search whose step lies in `[0, hi]` -/
def LSCallR (u : User α ε) (mode : GradMode) (x0 d lb ub : Vec α) (hi : α) (c : Call α) : Prop :=
  ∃ stp, InR hi stp ∧ EvalAt u.toSFUser mode (trial x0 d lb ub stp) c

theorem lsStep_log (u : User α ε) (o : Oracles α (DC α)) (ho : ConcreteStepper o) (x0 d lb ub : Vec α) (hi : α)
    (l l' : LS α (DC α)) (cont : Bool) (hl : LsR hi l) (hc : Coh u.toSFUser l.sf)
    (h : lsStep u o x0 d lb ub l = .ok (l', cont)) :
    Coh u.toSFUser l'.sf ∧ l'.sf.mode = l.sf.mode ∧
      LogExt (LSCallR u l.sf.mode x0 d lb ub hi) l.sf.log l'.sf.log := by
  unfold lsStep at h
  rw [ho.iter] at h
  dsimp only at h
  have hr : (iterate l.dc l.stp0 l.fm1 l.dphim1 l.task).2.2 = .fg →
      InR hi (iterate l.dc l.stp0 l.fm1 l.dphim1 l.task).2.1 := by
    intro hfg
    rcases hl.task with ht | ht
    · obtain ⟨e1, e2⟩ := hl.fresh ht
      rw [ht] at hfg ⊢
      have : iterate l.dc l.stp0 l.fm1 l.dphim1 .start = start l.dc l.stp0 l.fm1 l.dphim1 := by simp [iterate]
      rw [this] at hfg ⊢
      have := start_ok l.dc l.stp0 l.fm1 l.dphim1 hfg
      rw [e1, e2] at this
      exact this.2
    · obtain ⟨o1, o2⟩ := hl.run ht
      exact (iterate_ok 0 hi l.dc l.stp0 l.fm1 l.dphim1 l.task (by rw [ht]; decide) o1 o2).2
  split at h
  · rename_i hfg
    have hin := hr hfg
    simp only [bind, Except.bind] at h
    split at h
    · simp at h
    · rename_i e he
      obtain ⟨sf1, f, g⟩ := e
      obtain ⟨es, -, -⟩ := funAndGrad_sum hc he
      simp only [pure, Except.pure, Except.ok.injEq, Prod.mk.injEq] at h
      have hsf : l'.sf = sf1 := by rw [← h.1]; split <;> rfl
      rw [hsf]
      exact ⟨es.coh, es.mode, es.log.mono (fun c hc' => ⟨_, hin, hc'⟩)⟩
  · simp only [pure, Except.pure, Except.ok.injEq, Prod.mk.injEq] at h
    rw [← h.1]
    exact ⟨hc, rfl, LogExt.refl _⟩

theorem lsLoop_log (u : User α ε) (o : Oracles α (DC α)) (ho : ConcreteStepper o) (x0 d lb ub : Vec α) (hi : α) :
    ∀ (fuel : Nat) (l l' : LS α (DC α)) (ex : Bool), LsR hi l → Coh u.toSFUser l.sf →
      lsLoop u o x0 d lb ub fuel l = .ok (l', ex) →
      LogExt (LSCallR u l.sf.mode x0 d lb ub hi) l.sf.log l'.sf.log := by
  intro fuel
  induction fuel with
  | zero =>
    intro l l' ex hl hc h
    simp only [lsLoop, pure, Except.pure, Except.ok.injEq, Prod.mk.injEq] at h
    rw [← h.1]; exact LogExt.refl _
  | succ n ih =>
    intro l l' ex hl hc h
    simp only [lsLoop, bind, Except.bind] at h
    split at h
    · simp at h
    · rename_i r hr
      obtain ⟨l1, cont⟩ := r
      obtain ⟨-, hcont⟩ := lsStep_range u o ho x0 d lb ub hi l l1 cont hl hr
      obtain ⟨hc1, hm1, hlog1⟩ := lsStep_log u o ho x0 d lb ub hi l l1 cont hl hc hr
      cases cont with
      | true =>
        have := ih l1 l' ex (hcont rfl) hc1 h
        rw [hm1] at this
        exact LogExt.trans hlog1 this
      | false =>
        simp only [Bool.false_eq_true, if_false, pure, Except.pure, Except.ok.injEq, Prod.mk.injEq] at h
        rw [← h.1]; exact hlog1

/-- **every point the line search evaluates is the clipped trial point of a step in
`[0, max_allowed_steplength]`** -/
theorem lineSearch_log_range (u : User α ε) (o : Oracles α (DC α)) (ho : ConcreteStepper o) (c : Cfg α)
    (x0 : Vec α) (f0 : α) (g0 d : Vec α) (nit : Nat) (sf sf' : SF α) (maxIter : Nat) (olog olog' : List (OReq α))
    (stp? : Option α) (hc : Coh u.toSFUser sf)
    (h : lineSearch u o c x0 f0 g0 d nit sf maxIter olog = .ok (sf', stp?, olog')) :
    LogExt (LSCallR u sf.mode x0 d c.lb c.ub (maxAllowedStep x0 d c.lb c.ub c.maxStep nit)) sf.log sf'.log := by
  unfold lineSearch at h
  simp only [bind, Except.bind] at h
  split at h
  · simp at h
  · rename_i r hr
    obtain ⟨l, ex⟩ := r
    have hl0 : ∀ (a b : α), LsR (maxAllowedStep x0 d c.lb c.ub c.maxStep nit)
        ({ sf := sf, dc := o.dcNew x0 d c.ftolLS c.gtolLS c.xtolLS (maxAllowedStep x0 d c.lb c.ub c.maxStep nit),
           stp0 := a, fm1 := f0, dphim1 := dot g0 d, task := .start, stp := b, fBest := f0, best := none,
           olog := olog } : LS α (DC α)) := by
      intro a b
      refine ⟨by simp, Or.inl rfl, fun _ => ?_, fun h' => by cases h'⟩
      rw [ho.new]; exact ⟨rfl, rfl⟩
    have hb := lsLoop_log u o ho x0 d c.lb c.ub _ maxIter _ l ex (hl0 _ _) hc hr
    dsimp only at h
    repeat' split at h
    all_goals (simp only [pure, Except.pure, Except.ok.injEq, Prod.mk.injEq] at h)
    all_goals (rw [← h.1]; exact hb)

end Lbfgsb
