/-
  Invariants of the shell used by the C02 theorems (every evaluated / reported / returned
  point is inside the box). Level U: the only fact about numbers that is used is that the
  bounds are ordered (`lb ≤ ub`) and comparisons form a linear order — no arithmetic law, so
  the statements hold for the rounded floating-point operations the implementation performs.
-/
import LbfgsbVerif.Proofs.Shell
import LbfgsbVerif.Proofs.C04

namespace Lbfgsb
variable {α ε δ : Type}
variable [LinearOrder α] [Add α] [Sub α] [Mul α] [Div α] [Neg α] [OfNat α 0] [OfNat α 1]
  [FloatLike α]

omit [LinearOrder α] [Add α] [Sub α] [Mul α] [Div α] [Neg α] [OfNat α 0] [OfNat α 1]
  [FloatLike α] in
theorem vzip_length (f : α → α → α) (a b : Vec α) : (vzip f a b).length = min a.length b.length := by
  induction a generalizing b with
  | nil => simp [vzip]
  | cons x xs ih =>
    cases b with
    | nil => simp [vzip]
    | cons y ys => simp [vzip, ih, Nat.succ_min_succ]

/-- hypotheses under which C02 is stated -/
structure Ctx2 (u : User α ε) (o : Oracles α δ) (c : Cfg α) : Prop where
  /-- `get_bounds` accepted the box: same length, `lb ≤ ub` -/
  box : BoxOk c.lb c.ub
  n : c.x0.length = c.lb.length
  /-- the kernels return a vector of the size of `x` (for a feasible `x`, the only ones they are called with) -/
  xbar_len : ∀ x g m, InBox c.lb c.ub x → (o.xbar x g m).length = x.length
  /-- contract of the differencing routine: given a point in the box it evaluates only
  points in the box -/
  stencil : ∀ x f, InBox c.lb c.ub x → ∀ p ∈ u.fdPts x f, InBox c.lb c.ub p
  /-- `initialize_X_and_G` accepted the checkpoint: its point is the (clipped) start -/
  ck_x : ∀ ck, c.checkpoint = some ck → ck.x = clip c.x0 c.lb c.ub

/-- a logged call is harmless for C02 if it carries no point (threshold callables) or its
point is in the box -/
def PointOk (c : Cfg α) (call : Call α) : Prop :=
  call.kind = .ftarget ∨ call.kind = .gtol ∨ InBox c.lb c.ub call.arg

structure Inv2 (c : Cfg α) (s : St α) : Prop where
  x_in : InBox c.lb c.ub s.x
  log : ∀ call ∈ s.sf.log, PointOk c call
  cbs : ∀ cb ∈ s.cbStates, InBox c.lb c.ub cb.x

omit [Div α] [Neg α] [OfNat α 0] [OfNat α 1] [FloatLike α] in
theorem trial_inBox {lb ub : Vec α} (hb : BoxOk lb ub) (x0 d : Vec α) (stp : α)
    (hx : x0.length = lb.length) (hd : d.length = x0.length) :
    InBox lb ub (trial x0 d lb ub stp) := by
  unfold trial
  apply clip_inBox hb
  simp [vadd, vzip_length, smul, hd, hx]

omit [Add α] [Sub α] [Mul α] [Div α] [Neg α] [OfNat α 0] [OfNat α 1] [FloatLike α] in
theorem evalAt_pointOk {u : User α ε} {o : Oracles α δ} {c : Cfg α} (hctx : Ctx2 u o c)
    {m : GradMode} {p : Vec α} (hp : InBox c.lb c.ub p) {call : Call α}
    (h : EvalAt u.toSFUser m p call) : PointOk c call := by
  rcases h.2 with h | ⟨-, f, hf⟩
  · exact Or.inr (Or.inr (by rw [h]; exact hp))
  · exact Or.inr (Or.inr (hctx.stencil p f hp _ hf))

/-- effect of a piece of the driver on what C02 looks at -/
structure Step2 (c : Cfg α) (s s' : St α) : Prop where
  x_in : InBox c.lb c.ub s'.x
  log : LogExt (PointOk c) s.sf.log s'.sf.log
  cbs : ∀ cb ∈ s'.cbStates, cb ∈ s.cbStates ∨ InBox c.lb c.ub cb.x

theorem Step2.inv {c : Cfg α} {s s' : St α} (h : Step2 c s s') (hi : Inv2 c s) : Inv2 c s' :=
  ⟨h.x_in, h.log.all hi.log, fun cb hcb => (h.cbs cb hcb).elim (hi.cbs cb) id⟩

theorem Step2.refl' {c : Cfg α} {s : St α} (hi : Inv2 c s) : Step2 c s s :=
  ⟨hi.x_in, LogExt.refl _, fun _ h => Or.inl h⟩

theorem Step2.trans {c : Cfg α} {s1 s2 s3 : St α} (a : Step2 c s1 s2) (b : Step2 c s2 s3) :
    Step2 c s1 s3 :=
  ⟨b.x_in, LogExt.trans a.log b.log, fun cb h => (b.cbs cb h).elim (a.cbs cb) Or.inr⟩

theorem iterFail_step2 (c : Cfg α) (s s' : St α) (flow : Flow) (hi : Inv2 c s)
    (h : iterFail s = (s', flow)) : Step2 c s s' := by
  unfold iterFail at h
  split at h <;> (injection h with h1 _; subst h1; exact ⟨hi.x_in, LogExt.refl _, fun _ h => Or.inl h⟩)

theorem afterEval_step2 (u : User α ε) (c : Cfg α) (s s' : St α) (f0Old : α) (stop : Bool)
    (hi : Inv2 c s) (h : afterEval u c s f0Old = .ok (s', stop)) : Step2 c s s' := by
  unfold afterEval at h
  split at h
  · simp only [bind, Except.bind] at h
    split at h
    · simp at h
    · rename_i r hr
      simp only [pure, Except.pure] at h
      injection h with h
      have key : s'.x = s.x ∧ s'.sf.log = s.sf.log ++ [Call.mk .update s.x] ∧
          s'.cbStates = s.cbStates := by
        unfold stopTests at h
        split at h
        · injection h with h1 _; subst h1; exact ⟨rfl, rfl, rfl⟩
        · split at h <;> (injection h with h1 _; subst h1; exact ⟨rfl, rfl, rfl⟩)
      exact ⟨by rw [key.1]; exact hi.x_in,
        by rw [key.2.1]; exact LogExt.single _ _ (Or.inr (Or.inr hi.x_in)),
        fun cb hcb => Or.inl (by rw [key.2.2] at hcb; exact hcb)⟩
  · simp only [pure, Except.pure] at h
    injection h with h
    have key : s'.x = s.x ∧ s'.sf.log = s.sf.log ∧ s'.cbStates = s.cbStates := by
      unfold stopTests at h
      split at h
      · injection h with h1 _; subst h1; exact ⟨rfl, rfl, rfl⟩
      · split at h <;> (injection h with h1 _; subst h1; exact ⟨rfl, rfl, rfl⟩)
    exact ⟨by rw [key.1]; exact hi.x_in, by rw [key.2.1]; exact LogExt.refl _,
      fun cb hcb => Or.inl (by rw [key.2.2] at hcb; exact hcb)⟩

theorem doCallback_step2 (u : User α ε) (c : Cfg α) (s s' : St α) (hi : Inv2 c s)
    (h : doCallback u c s = .ok s') : Step2 c s s' := by
  unfold doCallback at h
  split at h
  · simp only [bind, Except.bind] at h
    split at h
    · simp at h
    · rename_i b hb
      simp only [pure, Except.pure] at h
      injection h with h
      have hlog : LogExt (PointOk c) s.sf.log (s.logCall .callback s.x).sf.log :=
        LogExt.single _ _ (Or.inr (Or.inr hi.x_in))
      have hcb : ∀ cb ∈ s.cbStates ++ [{ s.result with nit := s.nit + 1 }],
          cb ∈ s.cbStates ∨ InBox c.lb c.ub cb.x := by
        intro cb hcb
        rcases List.mem_append.1 hcb with h' | h'
        · exact Or.inl h'
        · simp only [List.mem_singleton] at h'
          subst h'
          exact Or.inr hi.x_in
      cases b <;> (simp only [if_true, Bool.false_eq_true, if_false] at h; subst h;
                   exact ⟨hi.x_in, hlog, hcb⟩)
  · simp only [pure, Except.pure] at h
    injection h with h
    subst h
    exact Step2.refl' hi

theorem inBox_len {c : Cfg α} {p : Vec α} (h : InBox c.lb c.ub p) : p.length = c.lb.length :=
  (inBox_length h).1

theorem iterStep_step2 (u : User α ε) (o : Oracles α δ) (c : Cfg α) (hctx : Ctx2 u o c)
    (s s' : St α) (d : Vec α) (stp f0Old : α) (flow : Flow) (hi : Inv2 c s)
    (hcoh : Coh u.toSFUser s.sf) (hd : d.length = s.x.length)
    (h : iterStep u c s d stp f0Old = .ok (s', flow)) : Step2 c s s' := by
  unfold iterStep at h
  simp only [bind, Except.bind] at h
  split at h
  · simp at h
  · rename_i e he
    obtain ⟨es, -, -⟩ := funAndGrad_sum hcoh he
    have hx' : InBox c.lb c.ub (trial s.x d c.lb c.ub stp) :=
      trial_inBox hctx.box _ _ _ (inBox_len hi.x_in) hd
    -- the state after the evaluation at the new iterate
    have st1 : Step2 c s { s with x := trial s.x d c.lb c.ub stp, f := e.2.1, g := e.2.2, sf := e.1 } :=
      ⟨hx', es.log.mono (fun _ hc => evalAt_pointOk hctx hx' hc), fun _ h => Or.inl h⟩
    split at h
    · simp at h
    · rename_i r hr
      obtain ⟨s1, stop⟩ := r
      have st2 := afterEval_step2 u c _ s1 f0Old stop (st1.inv hi) hr
      cases stop with
      | true =>
        simp only [if_true, pure, Except.pure] at h
        injection h with h; injection h with h1 _; subst h1
        exact st1.trans st2
      | false =>
        simp only [Bool.false_eq_true, if_false] at h
        split at h
        · simp at h
        · rename_i s2 hs2
          simp only [pure, Except.pure] at h
          injection h with h; injection h with h1 _; subst h1
          have i2 := (st1.trans st2).inv hi
          have i2' : Inv2 c (memStep c s1) := ⟨i2.x_in, i2.log, i2.cbs⟩
          have st3 := doCallback_step2 u c (memStep c s1) s2 i2' hs2
          have st12 := st1.trans st2
          exact ⟨st3.x_in, LogExt.trans st12.log st3.log,
            fun cb hcb => (st3.cbs cb hcb).elim (fun h' => st12.cbs cb h') Or.inr⟩

theorem iterBody_step2 (u : User α ε) (o : Oracles α δ) (c : Cfg α) (hctx : Ctx2 u o c)
    (s s' : St α) (flow : Flow) (hi : Inv2 c s) (hcoh : Coh u.toSFUser s.sf)
    (h : iterBody u o c s = .ok (s', flow)) : Step2 c s s' := by
  unfold iterBody at h
  simp only [bind, Except.bind] at h
  split at h
  · simp at h
  · rename_i r hr
    obtain ⟨sfL, stp?, olog⟩ := r
    have ls := lineSearch_sum u o c _ _ _ _ _ _ sfL _ _ olog stp? hcoh hr
    have hd : (vsub (o.xbar s.x s.g s.mats) s.x).length = s.x.length := by
      simp [vsub, vzip_length, hctx.xbar_len _ _ _ hi.x_in]
    have hlogL : LogExt (PointOk c) s.sf.log sfL.log := by
      refine ls.log.mono ?_
      rintro call ⟨stp, hc⟩
      exact evalAt_pointOk hctx (trial_inBox hctx.box _ _ _ (inBox_len hi.x_in) hd) hc
    have stL : Step2 c s { s with sf := sfL, olog := olog } := ⟨hi.x_in, hlogL, fun _ h => Or.inl h⟩
    simp only at h
    cases stp? with
    | none =>
      simp only [pure, Except.pure] at h
      injection h with h
      exact stL.trans (iterFail_step2 c _ s' flow (stL.inv hi) h)
    | some stp =>
      simp only at h
      exact stL.trans (iterStep_step2 u o c hctx _ s' _ stp s.f flow (stL.inv hi) ls.coh hd h)

theorem mainLoop_step2 (u : User α ε) (o : Oracles α δ) (c : Cfg α) (hctx : Ctx2 u o c) :
    ∀ (fuel : Nat) (s s' : St α), Inv2 c s → Inv4 u s →
      mainLoop u o c fuel s = .ok s' → Step2 c s s' := by
  intro fuel
  induction fuel with
  | zero =>
    intro s s' hi _ h
    simp only [mainLoop, pure, Except.pure] at h
    injection h with h; subst h
    exact Step2.refl' hi
  | succ fuel ih =>
    intro s s' hi h4 h
    simp only [mainLoop] at h
    split at h
    · rename_i hg
      simp only [bind, Except.bind] at h
      split at h
      · simp at h
      · rename_i r hr
        obtain ⟨s1, flow⟩ := r
        have hsucc : s.success = false := by
          simp only [guard, Bool.and_eq_true, Bool.not_eq_true'] at hg
          exact hg.2
        have p4 := iterBody_pass u o c s s1 flow h4 hsucc hr
        have st := iterBody_step2 u o c hctx s s1 flow hi h4.coh hr
        cases flow with
        | brk =>
          simp only [pure, Except.pure] at h
          injection h with h; subst h
          exact st
        | next =>
          simp only at h
          exact st.trans (ih s1 s' (st.inv hi) p4.inv h)
    · simp only [pure, Except.pure] at h
      injection h with h; subst h
      exact Step2.refl' hi

omit [Add α] [Sub α] [Mul α] [Div α] [Neg α] [OfNat α 1] [FloatLike α] in
theorem clip_x0_inBox {u : User α ε} {o : Oracles α δ} {c : Cfg α} (hctx : Ctx2 u o c) :
    InBox c.lb c.ub (clip c.x0 c.lb c.ub) :=
  clip_inBox hctx.box _ hctx.n

/-- everything logged before the loop starts is harmless, and the start is in the box -/
theorem initEval_c02 (u : User α ε) (o : Oracles α δ) (c : Cfg α) (hctx : Ctx2 u o c) (i : Init α)
    (h : initEval u c = .ok i) :
    i.x = clip c.x0 c.lb c.ub ∧ ∀ call ∈ i.sf.log, PointOk c call := by
  have hx0 := clip_x0_inBox hctx
  unfold initEval at h
  simp only [bind, Except.bind] at h
  split at h
  · simp at h
  · rename_i e he
    have hE : ∀ call ∈ e.1.log, PointOk c call := by
      unfold firstEval at he
      simp only at he
      cases hck : c.checkpoint with
      | none =>
        simp only [hck] at he
        obtain ⟨sf1, f⟩ := e
        obtain ⟨es, -⟩ := funv_sum (new_coh' u.toSFUser c.mode _ c.lb c.ub) he
        exact (es.log.mono (fun _ hc => evalAt_pointOk hctx hx0 hc)).all (by simp [SF.new])
      | some ck =>
        simp only [hck, pure, Except.pure] at he
        injection he with he; subst he
        simp [SF.new]
    split at h
    · simp at h
    · rename_i t ht
      have hT : ∀ call ∈ t.1.log, PointOk c call := by
        unfold evalFtarget at ht
        cases hft : c.ftarget with
        | none =>
          simp only [hft, pure, Except.pure] at ht
          injection ht with ht; subst ht; exact hE
        | some th =>
          simp only [hft, bind, Except.bind] at ht
          split at ht
          · simp at ht
          · rename_i r hr
            simp only [pure, Except.pure] at ht
            injection ht with ht; subst ht
            obtain ⟨-, hsf⟩ := evalThresh_spec _ _ _ _ _ _ hr
            simp only
            rw [hsf]
            split
            · intro call hc
              rcases List.mem_append.1 hc with h' | h'
              · exact hE call h'
              · simp only [List.mem_singleton] at h'; subst h'; exact Or.inl rfl
            · exact hE
      split at h
      · simp at h
      · rename_i gt hgt
        simp only [pure, Except.pure] at h
        injection h with h; subst h
        obtain ⟨-, hsf⟩ := evalThresh_spec _ _ _ _ _ _ hgt
        refine ⟨rfl, ?_⟩
        simp only
        rw [hsf]
        split
        · intro call hc
          rcases List.mem_append.1 hc with h' | h'
          · exact hT call h'
          · simp only [List.mem_singleton] at h'; subst h'; exact Or.inr (Or.inl rfl)
        · exact hT

theorem prepare_c02 (u : User α ε) (o : Oracles α δ) (c : Cfg α) (hctx : Ctx2 u o c) (i : Init α)
    (s : St α) (hx : i.x = clip c.x0 c.lb c.ub) (hl : ∀ call ∈ i.sf.log, PointOk c call)
    (hc : Coh u.toSFUser i.sf) (h : prepare u c i = .ok s) : Inv2 c s := by
  have hx0 : InBox c.lb c.ub i.x := by rw [hx]; exact clip_x0_inBox hctx
  unfold prepare at h
  simp only [bind, Except.bind] at h
  split at h
  · simp at h
  · rename_i e he
    have hE : ∀ call ∈ e.1.log, PointOk c call := by
      unfold firstGrad at he
      cases hck : c.checkpoint with
      | none =>
        simp only [hck] at he
        obtain ⟨sf1, g⟩ := e
        obtain ⟨es, -⟩ := gradv_sum hc he
        exact (es.log.mono (fun _ hc' => evalAt_pointOk hctx hx0 hc')).all hl
      | some ck =>
        simp only [hck, pure, Except.pure] at he
        injection he with he; subst he; exact hl
    split at h
    · simp at h
    · rename_i s1 hs1
      have i1 : Inv2 c s1 := by
        unfold applyScaler at hs1
        split at hs1
        · simp only [bind, Except.bind] at hs1
          split at hs1
          · simp at hs1
          · simp only [pure, Except.pure] at hs1
            injection hs1 with hs1; subst hs1
            refine ⟨hx0, ?_, by simp [Init.state, St.logCall]⟩
            intro call hcall
            simp only [St.logCall, Init.state] at hcall
            rcases List.mem_append.1 hcall with h' | h'
            · exact hE call h'
            · simp only [List.mem_singleton] at h'; subst h'; exact Or.inr (Or.inr hx0)
        · simp only [pure, Except.pure] at hs1
          injection hs1 with hs1; subst hs1
          exact ⟨hx0, hE, by simp [Init.state]⟩
      split at h
      · simp at h
      · rename_i s2 hs2
        simp only [pure, Except.pure] at h
        injection h with h; subst h
        have i2 : Inv2 c s2 := by
          unfold applyUpdate0 at hs2
          split at hs2
          · simp only [bind, Except.bind] at hs2
            split at hs2
            · simp at hs2
            · simp only [pure, Except.pure] at hs2
              injection hs2 with hs2; subst hs2
              refine ⟨i1.x_in, ?_, i1.cbs⟩
              intro call hcall
              simp only [St.logCall] at hcall
              rcases List.mem_append.1 hcall with h' | h'
              · exact i1.log call h'
              · simp only [List.mem_singleton] at h'; subst h'; exact Or.inr (Or.inr i1.x_in)
          · simp only [pure, Except.pure] at hs2
            injection hs2 with hs2; subst hs2
            exact ⟨i1.x_in, i1.log, i1.cbs⟩
        unfold initMemory
        split <;> exact ⟨i2.x_in, i2.log, i2.cbs⟩

end Lbfgsb
