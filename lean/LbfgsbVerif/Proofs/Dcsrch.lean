/-
  The Moré–Thuente stepper model proposes only steps in `[0, stpmax]` — for ANY arithmetic and
  any interpretation of `** 2`, `<=`, `==` (level U): the step is the input step (checked at
  START), a `clip`, or the best step so far, which is `0` or an earlier step.
-/
import LbfgsbVerif.Model.Dcsrch
import LbfgsbVerif.Proofs.Basic

namespace Lbfgsb.Dcsrch
open Lbfgsb
variable {α : Type} [LinearOrder α] [Add α] [Sub α] [Mul α] [Div α] [Neg α] [OfNat α 0] [OfNat α 1]
  [FloatLike α] [DcOps α]

/-- `0 ≤ x ≤ hi`, with `¬ <` -/
def InR (hi x : α) : Prop := ¬ x < 0 ∧ ¬ hi < x

theorem dcstep_stx (stx fx dx sty fy dy stp fp dp : α) (b : Bool) (lo hi : α) :
    (dcstep stx fx dx sty fy dy stp fp dp b lo hi).1 = stx ∨
    (dcstep stx fx dx sty fy dy stp fp dp b lo hi).1 = stp := by
  unfold dcstep
  split
  · left; rfl
  · split
    · right; rfl
    · right; rfl

/-- what the stepper's state must satisfy between calls -/
structure Ok (lo hi : α) (st : DC α) : Prop where
  lo_eq : st.stpmin = lo
  hi_eq : st.stpmax = hi
  lo_nonneg : ¬ lo < 0
  lo_le_hi : ¬ hi < lo
  stx_in : InR hi st.stx

omit [Add α] [Sub α] [Mul α] [Div α] [Neg α] [OfNat α 1] [FloatLike α] [DcOps α] in
theorem clip_inR {lo hi : α} (h0 : ¬ lo < 0) (hlh : ¬ hi < lo) (y : α) : InR hi (clip1 lo hi y) := by
  refine ⟨?_, clip1_le hlh y⟩
  intro h
  have h1 := clip1_ge hlh y
  exact h1 (lt_of_lt_of_le h (not_lt.1 h0))

theorem stepCall_stx (st : DC α) (stp f g ftest : α) :
    (stepCall st stp f g ftest).1 = st.stx ∨ (stepCall st stp f g ftest).1 = stp := by
  unfold stepCall
  split
  · exact dcstep_stx _ _ _ _ _ _ _ _ _ _ _ _
  · exact dcstep_stx _ _ _ _ _ _ _ _ _ _ _ _

omit [OfNat α 1] [FloatLike α] [Add α] [Mul α] [Div α] in
theorem widen_frame (st : DC α) :
    (widen st).stx = st.stx ∧ (widen st).stpmin = st.stpmin ∧ (widen st).stpmax = st.stpmax := by
  unfold widen; split <;> exact ⟨rfl, rfl, rfl⟩

theorem bounds_frame (st : DC α) (stp : α) :
    (bounds st stp).stx = st.stx ∧ (bounds st stp).stpmin = st.stpmin ∧ (bounds st stp).stpmax = st.stpmax := by
  unfold bounds; split <;> exact ⟨rfl, rfl, rfl⟩

omit [Add α] [Div α] [OfNat α 1] [FloatLike α] in
theorem project_inR (lo hi : α) (st : DC α) (stp : α) (hst : Ok lo hi st) : InR hi (project st stp) := by
  unfold project
  simp only
  split
  · exact hst.stx_in
  · rw [hst.lo_eq, hst.hi_eq]
    exact clip_inR hst.lo_nonneg hst.lo_le_hi _

theorem finish_ok (lo hi : α) (st : DC α) (stp : α) (hst : Ok lo hi st) :
    Ok lo hi (finish st stp).1 ∧ InR hi (finish st stp).2.1 ∧ (finish st stp).2.2 = .fg := by
  have hw := widen_frame st
  have hb := bounds_frame (widen st) (bisect st stp)
  have hok : Ok lo hi (bounds (widen st) (bisect st stp)) :=
    ⟨by rw [hb.2.1, hw.2.1]; exact hst.lo_eq, by rw [hb.2.2, hw.2.2]; exact hst.hi_eq, hst.lo_nonneg,
     hst.lo_le_hi, by rw [hb.1, hw.1]; exact hst.stx_in⟩
  unfold finish
  exact ⟨hok, project_inR lo hi _ _ hok, rfl⟩

theorem start_ok (st : DC α) (stp f g : α) (h : (start st stp f g).2.2 = .fg) :
    Ok st.stpmin st.stpmax (start st stp f g).1 ∧ InR st.stpmax (start st stp f g).2.1 := by
  unfold start at h ⊢
  simp only at h ⊢
  split
  · rename_i hb; simp [hb] at h
  · rename_i hb
    simp only [Bool.or_eq_true, decide_eq_true_eq, not_or] at hb
    obtain ⟨⟨⟨⟨⟨⟨⟨h1, h2⟩, -⟩, -⟩, -⟩, -⟩, h7⟩, h8⟩ := hb
    have h0 : ¬ stp < 0 := fun hh => h1 (lt_of_lt_of_le hh (not_lt.1 h7))
    refine ⟨⟨rfl, rfl, h7, h8, ?_⟩, h0, h2⟩
    refine ⟨lt_irrefl _, ?_⟩
    intro hh
    exact h0 (lt_of_le_of_lt (not_lt.1 h2) hh)

theorem advance_ok (lo hi : α) (st : DC α) (stp f g ftest : α) (hst : Ok lo hi st) (hstp : InR hi stp) :
    Ok lo hi (advance st stp f g ftest).1 ∧ InR hi (advance st stp f g ftest).2.1 := by
  have hx : InR hi (stepCall st stp f g ftest).1 := by
    rcases stepCall_stx st stp f g ftest with h | h
    · rw [h]; exact hst.stx_in
    · rw [h]; exact hstp
  unfold advance
  have := finish_ok lo hi _ (stepCall st stp f g ftest).2.2.2.2.2.2.1
    (⟨hst.lo_eq, hst.hi_eq, hst.lo_nonneg, hst.lo_le_hi, hx⟩ :
      Ok lo hi { st with stx := (stepCall st stp f g ftest).1, fx := (stepCall st stp f g ftest).2.1,
                         gx := (stepCall st stp f g ftest).2.2.1, sty := (stepCall st stp f g ftest).2.2.2.1,
                         fy := (stepCall st stp f g ftest).2.2.2.2.1, gy := (stepCall st stp f g ftest).2.2.2.2.2.1,
                         brackt := (stepCall st stp f g ftest).2.2.2.2.2.2.2 })
  exact ⟨this.1, this.2.1⟩

/-- one call after START: the state stays well formed and the returned step is in range -/
theorem iterate_ok (lo hi : α) (st : DC α) (stp f g : α) (task : Task) (ht : task ≠ .start)
    (hst : Ok lo hi st) (hstp : InR hi stp) :
    Ok lo hi (iterate st stp f g task).1 ∧ InR hi (iterate st stp f g task).2.1 := by
  unfold iterate
  rw [if_neg ht]
  dsimp only
  split
  · exact ⟨⟨hst.lo_eq, hst.hi_eq, hst.lo_nonneg, hst.lo_le_hi, hst.stx_in⟩, hstp⟩
  · split
    · exact ⟨⟨hst.lo_eq, hst.hi_eq, hst.lo_nonneg, hst.lo_le_hi, hst.stx_in⟩, hstp⟩
    · exact advance_ok lo hi _ stp f g _ ⟨hst.lo_eq, hst.hi_eq, hst.lo_nonneg, hst.lo_le_hi, hst.stx_in⟩ hstp

/-- every step the stepper asks the caller to evaluate lies in `[0, stpmax]` -/
theorem trace_in_range (lo hi : α) (answers : List (α × α)) :
    ∀ (st : DC α) (stp : α) (task : Task),
      (task = .start → st.stpmin = lo ∧ st.stpmax = hi) →
      (task ≠ .start → Ok lo hi st ∧ InR hi stp) →
      ∀ p ∈ trace st stp task answers, p.2 = .fg → InR hi p.1 := by
  induction answers with
  | nil => intro st stp task _ _ p hp; simp [trace] at hp
  | cons a rest ih =>
    intro st stp task h1 h2 p hp hfg
    obtain ⟨f, g⟩ := a
    simp only [trace, List.mem_cons] at hp
    -- facts about this call
    have hcall : (iterate st stp f g task).2.2 = .fg →
        Ok lo hi (iterate st stp f g task).1 ∧ InR hi (iterate st stp f g task).2.1 := by
      intro hf
      by_cases ht : task = .start
      · obtain ⟨e1, e2⟩ := h1 ht
        subst ht
        have : iterate st stp f g .start = start st stp f g := by simp [iterate]
        rw [this] at hf ⊢
        have := start_ok st stp f g hf
        rw [e1, e2] at this
        exact this
      · obtain ⟨o1, o2⟩ := h2 ht
        exact iterate_ok lo hi st stp f g task ht o1 o2
    rcases hp with hp | hp
    · subst hp
      exact (hcall hfg).2
    · split at hp
      · rename_i hf
        obtain ⟨o1, o2⟩ := hcall hf
        exact ih _ _ .fg (fun h => by cases h) (fun _ => ⟨o1, o2⟩) p hp hfg
      · simp at hp

end Lbfgsb.Dcsrch
