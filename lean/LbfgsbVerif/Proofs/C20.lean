/-
  Error paths of the model: every `.error e` a run returns is the error value produced by one
  of the user's callables (nothing is fabricated, replaced or swallowed on the way up).
-/
import LbfgsbVerif.Model.Shell

namespace Lbfgsb
variable {α ε δ : Type}

/-- `e` is an error produced by one of the user's callables -/
def UserErr (u : User α ε) (e : ε) : Prop :=
  (∃ p, u.F p = .error e) ∨ (∃ p, u.Gr p = .error e) ∨ (∃ st, u.callback st = .error e) ∨
  (∃ i, u.update i = .error e) ∨ (∃ x g, u.scaler x g = .error e) ∨
  u.ftargetFn () = .error e ∨ u.gtolFn () = .error e

section sf
variable [LT α] [DecidableLT α] [OfNat α 0]

theorem callF_err {u : SFUser α ε} {s : SF α} {p : Vec α} {e : ε} (h : s.callF u p = .error e) :
    u.F p = .error e := by
  unfold SF.callF at h
  cases hF : u.F p with
  | error e' => simp [hF, bind, Except.bind] at h; rw [h]
  | ok w => simp [hF, bind, Except.bind, pure, Except.pure] at h

theorem callFs_err {u : SFUser α ε} {ps : List (Vec α)} {s : SF α} {e : ε}
    (h : SF.callFs u s ps = .error e) : ∃ p, u.F p = .error e := by
  induction ps generalizing s with
  | nil => simp [SF.callFs, pure, Except.pure] at h
  | cons p ps ih =>
    unfold SF.callFs at h
    cases h1 : s.callF u p with
    | error e' =>
      simp [h1, bind, Except.bind] at h
      exact ⟨p, by rw [← h]; exact callF_err h1⟩
    | ok r =>
      obtain ⟨s1, v⟩ := r
      cases h2 : SF.callFs u s1 ps with
      | error e' => simp [h1, h2, bind, Except.bind] at h; subst h; exact ih h2
      | ok r2 => simp [h1, h2, bind, Except.bind, pure, Except.pure] at h

theorem updFun_err {u : SFUser α ε} {s : SF α} {e : ε} (h : s.updFun u = .error e) :
    ∃ p, u.F p = .error e := by
  unfold SF.updFun at h
  split at h
  · simp [pure, Except.pure] at h
  · cases h1 : s.callF u s.x with
    | error e' => simp [h1, bind, Except.bind] at h; exact ⟨_, by rw [← h]; exact callF_err h1⟩
    | ok r => simp [h1, bind, Except.bind, pure, Except.pure] at h

theorem updGrad_err {u : SFUser α ε} {s : SF α} {e : ε} (h : s.updGrad u = .error e) :
    (∃ p, u.F p = .error e) ∨ (∃ p, u.Gr p = .error e) := by
  unfold SF.updGrad at h
  split at h
  · simp [pure, Except.pure] at h
  · cases hm : s.mode with
    | callable =>
      simp only [hm] at h
      cases hG : u.Gr s.x with
      | error e' => simp [hG, bind, Except.bind] at h; exact Or.inr ⟨_, by rw [← h]; exact hG⟩
      | ok g => simp [hG, bind, Except.bind, pure, Except.pure] at h
    | fd =>
      simp only [hm] at h
      cases h1 : s.updFun u with
      | error e' => simp [h1, bind, Except.bind] at h; rw [← h]; exact Or.inl (updFun_err h1)
      | ok s1 =>
        cases h2 : SF.callFs u { s1 with ngev := s1.ngev + 1 } (u.fdPts s1.x s1.f) with
        | error e' => simp [h1, h2, bind, Except.bind] at h; rw [← h]; exact Or.inl (callFs_err h2)
        | ok r => simp [h1, h2, bind, Except.bind, pure, Except.pure] at h

variable [Mul α]

theorem funv_err {u : SFUser α ε} {s : SF α} {x : Vec α} {e : ε} (h : s.funv u x = .error e) :
    ∃ p, u.F p = .error e := by
  simp only [SF.funv, bind, Except.bind] at h
  split at h
  · rename_i e' h1; injection h with h; rw [← h]; exact updFun_err h1
  · simp [pure, Except.pure] at h

theorem gradv_err {u : SFUser α ε} {s : SF α} {x : Vec α} {e : ε} (h : s.gradv u x = .error e) :
    (∃ p, u.F p = .error e) ∨ (∃ p, u.Gr p = .error e) := by
  simp only [SF.gradv, bind, Except.bind] at h
  split at h
  · rename_i e' h1; injection h with h; rw [← h]; exact updGrad_err h1
  · simp [pure, Except.pure] at h

theorem funAndGrad_err {u : SFUser α ε} {s : SF α} {x : Vec α} {e : ε}
    (h : s.funAndGrad u x = .error e) : (∃ p, u.F p = .error e) ∨ (∃ p, u.Gr p = .error e) := by
  simp only [SF.funAndGrad, bind, Except.bind] at h
  split at h
  · rename_i e' h1; injection h with h; rw [← h]; exact Or.inl (updFun_err h1)
  · split at h
    · rename_i e' h2; injection h with h; rw [← h]; exact updGrad_err h2
    · simp [pure, Except.pure] at h

end sf

section shell
variable [Add α] [Sub α] [Mul α] [Div α] [Neg α] [LT α] [DecidableLT α]
  [OfNat α 0] [OfNat α 1] [FloatLike α]

theorem UserErr.ofFG {u : User α ε} {e : ε}
    (h : (∃ p, u.F p = .error e) ∨ (∃ p, u.Gr p = .error e)) : UserErr u e := by
  rcases h with h | h
  · exact Or.inl h
  · exact Or.inr (Or.inl h)

theorem lsStep_err {u : User α ε} {o : Oracles α δ} {x0 d lb ub : Vec α} {l : LS α δ} {e : ε}
    (h : lsStep u o x0 d lb ub l = .error e) : UserErr u e := by
  unfold lsStep at h
  simp only at h
  split at h
  · simp only [bind, Except.bind] at h
    split at h
    · rename_i e' h1; injection h with h; rw [← h]; exact UserErr.ofFG (funAndGrad_err h1)
    · simp [pure, Except.pure] at h
  · simp [pure, Except.pure] at h

theorem lsLoop_err {u : User α ε} {o : Oracles α δ} {x0 d lb ub : Vec α} {e : ε} :
    ∀ (fuel : Nat) (l : LS α δ), lsLoop u o x0 d lb ub fuel l = .error e → UserErr u e := by
  intro fuel
  induction fuel with
  | zero => intro l h; simp [lsLoop, pure, Except.pure] at h
  | succ fuel ih =>
    intro l h
    simp only [lsLoop, bind, Except.bind] at h
    split at h
    · rename_i e' h1; injection h with h; rw [← h]; exact lsStep_err h1
    · split at h
      · exact ih _ h
      · simp [pure, Except.pure] at h

theorem lineSearch_err {u : User α ε} {o : Oracles α δ} {c : Cfg α} {x0 : Vec α} {f0 : α}
    {g0 d : Vec α} {nit : Nat} {sf : SF α} {maxIter : Nat} {olog : List (OReq α)} {e : ε}
    (h : lineSearch u o c x0 f0 g0 d nit sf maxIter olog = .error e) : UserErr u e := by
  unfold lineSearch at h
  simp only [bind, Except.bind] at h
  split at h
  · rename_i e' h1; injection h with h; rw [← h]; exact lsLoop_err _ _ h1
  · simp only [pure, Except.pure] at h
    repeat' split at h
    all_goals simp at h

theorem afterEval_err {u : User α ε} {c : Cfg α} {s : St α} {f0Old : α} {e : ε}
    (h : afterEval u c s f0Old = .error e) : UserErr u e := by
  unfold afterEval at h
  split at h
  · simp only [bind, Except.bind] at h
    split at h
    · rename_i e' h1; injection h with h; rw [← h]
      exact Or.inr (Or.inr (Or.inr (Or.inl ⟨_, h1⟩)))
    · simp only [pure, Except.pure] at h
      repeat' split at h
      all_goals simp at h
  · simp [pure, Except.pure] at h

theorem doCallback_err {u : User α ε} {c : Cfg α} {s : St α} {e : ε}
    (h : doCallback u c s = .error e) : UserErr u e := by
  unfold doCallback at h
  split at h
  · simp only [bind, Except.bind] at h
    split at h
    · rename_i e' h1; injection h with h; rw [← h]
      exact Or.inr (Or.inr (Or.inl ⟨_, h1⟩))
    · simp [pure, Except.pure] at h
  · simp [pure, Except.pure] at h

theorem iterStep_err {u : User α ε} {c : Cfg α} {s : St α} {d : Vec α} {stp f0Old : α} {e : ε}
    (h : iterStep u c s d stp f0Old = .error e) : UserErr u e := by
  unfold iterStep at h
  simp only [bind, Except.bind] at h
  split at h
  · rename_i e' h1; injection h with h; rw [← h]; exact UserErr.ofFG (funAndGrad_err h1)
  · split at h
    · rename_i e' h2; injection h with h; rw [← h]; exact afterEval_err h2
    · split at h
      · simp [pure, Except.pure] at h
      · split at h
        · rename_i e' h3; injection h with h; rw [← h]; exact doCallback_err h3
        · simp [pure, Except.pure] at h

theorem iterBody_err {u : User α ε} {o : Oracles α δ} {c : Cfg α} {s : St α} {e : ε}
    (h : iterBody u o c s = .error e) : UserErr u e := by
  unfold iterBody at h
  simp only [bind, Except.bind] at h
  split at h
  · rename_i e' h1; injection h with h; rw [← h]; exact lineSearch_err h1
  · rename_i r hr
    obtain ⟨sfL, stp?, olog⟩ := r
    simp only at h
    cases stp? with
    | none => simp [pure, Except.pure] at h
    | some stp => exact iterStep_err h

theorem mainLoop_err {u : User α ε} {o : Oracles α δ} {c : Cfg α} {e : ε} :
    ∀ (fuel : Nat) (s : St α), mainLoop u o c fuel s = .error e → UserErr u e := by
  intro fuel
  induction fuel with
  | zero => intro s h; simp [mainLoop, pure, Except.pure] at h
  | succ fuel ih =>
    intro s h
    simp only [mainLoop] at h
    split at h
    · simp only [bind, Except.bind] at h
      split at h
      · rename_i e' h1; injection h with h; rw [← h]; exact iterBody_err h1
      · rename_i r hr
        obtain ⟨s1, flow⟩ := r
        cases flow with
        | brk => simp [pure, Except.pure] at h
        | next => exact ih _ h
    · simp [pure, Except.pure] at h

theorem evalThresh_err {fn : Unit → Except ε α} {k : CallKind} {sf : SF α} {t : Thresh α} {e : ε}
    (h : evalThresh fn k sf t = .error e) : fn () = .error e := by
  cases t with
  | const a => simp [evalThresh, pure, Except.pure] at h
  | callable =>
    simp only [evalThresh, bind, Except.bind] at h
    split at h
    · rename_i e' h1; injection h with h; rw [← h]; exact h1
    · simp [pure, Except.pure] at h

theorem initEval_err {u : User α ε} {c : Cfg α} {e : ε} (h : initEval u c = .error e) :
    UserErr u e := by
  unfold initEval at h
  simp only [bind, Except.bind] at h
  split at h
  · rename_i e' h1
    injection h with h; rw [← h]
    unfold firstEval at h1
    simp only at h1
    split at h1
    · exact Or.inl (funv_err h1)
    · simp [pure, Except.pure] at h1
  · split at h
    · rename_i e' h2
      injection h with h; rw [← h]
      unfold evalFtarget at h2
      split at h2
      · simp [pure, Except.pure] at h2
      · simp only [bind, Except.bind] at h2
        split at h2
        · rename_i e'' h3; injection h2 with h2; rw [← h2]
          exact Or.inr (Or.inr (Or.inr (Or.inr (Or.inr (Or.inl (evalThresh_err h3))))))
        · simp [pure, Except.pure] at h2
    · split at h
      · rename_i e' h3; injection h with h; rw [← h]
        exact Or.inr (Or.inr (Or.inr (Or.inr (Or.inr (Or.inr (evalThresh_err h3))))))
      · simp [pure, Except.pure] at h

theorem prepare_err {u : User α ε} {c : Cfg α} {i : Init α} {e : ε}
    (h : prepare u c i = .error e) : UserErr u e := by
  unfold prepare at h
  simp only [bind, Except.bind] at h
  split at h
  · rename_i e' h1
    injection h with h; rw [← h]
    unfold firstGrad at h1
    split at h1
    · exact UserErr.ofFG (gradv_err h1)
    · simp [pure, Except.pure] at h1
  · split at h
    · rename_i e' h2
      injection h with h; rw [← h]
      unfold applyScaler at h2
      split at h2
      · simp only [bind, Except.bind] at h2
        split at h2
        · rename_i e'' h3; injection h2 with h2; rw [← h2]
          exact Or.inr (Or.inr (Or.inr (Or.inr (Or.inl ⟨_, _, h3⟩))))
        · simp [pure, Except.pure] at h2
      · simp [pure, Except.pure] at h2
    · split at h
      · rename_i e' h3
        injection h with h; rw [← h]
        unfold applyUpdate0 at h3
        split at h3
        · simp only [bind, Except.bind] at h3
          split at h3
          · rename_i e'' h4; injection h3 with h3; rw [← h3]
            exact Or.inr (Or.inr (Or.inr (Or.inl ⟨_, h4⟩)))
          · simp [pure, Except.pure] at h3
        · simp [pure, Except.pure] at h3
      · simp [pure, Except.pure] at h

theorem minimize_err {u : User α ε} {o : Oracles α δ} {c : Cfg α} {e : ε}
    (h : minimize u o c = .error e) : UserErr u e := by
  unfold minimize at h
  simp only [bind, Except.bind] at h
  split at h
  · rename_i e' h1; injection h with h; rw [← h]; exact initEval_err h1
  · split at h
    · simp [pure, Except.pure] at h
    · split at h
      · rename_i e' h2; injection h with h; rw [← h]; exact prepare_err h2
      · split at h
        · rename_i e' h3; injection h with h; rw [← h]; exact mainLoop_err _ _ h3
        · simp [pure, Except.pure] at h

end shell
end Lbfgsb
