/-
  C13, first clause: an update function that returns its inputs unchanged leaves the run
  unchanged. A simulation between the run with the hook (configuration `c.up true`) and the
  run without it (`c.up false`), through states equal up to the ghost logs (Proofs/Ghost.lean),
  under an invariant of the memory: consecutive stored pairs pass the curvature test (so the
  filter has nothing to drop) and the matrices snapshot is the current history (so rebuilding it
  changes nothing). Law used besides order-free reasoning: the curvature test is symmetric in
  (newer, older) — in IEEE arithmetic `(a − b) = −(b − a)` and `(−p)(−q) = pq` exactly.
-/
import LbfgsbVerif.Proofs.Ghost
import LbfgsbVerif.Proofs.Scale
import LbfgsbVerif.Props.C13

namespace Lbfgsb
variable {α ε δ : Type}
variable [Add α] [Sub α] [Mul α] [Div α] [Neg α] [LT α] [DecidableLT α] [OfNat α 0] [OfNat α 1] [FloatLike α]

/-- the same configuration with the update hook switched on or off -/
abbrev Cfg.up (c : Cfg α) (b : Bool) : Cfg α := { c with hasUpdate := b }

/-- the update function that returns its inputs -/
def IdUpdate (u : User α ε) : Prop := ∀ i : UpdIn α, u.update i = .ok ⟨i.f0, i.f0Old, i.grad, i.G⟩

/-- invariant of the memory of a run -/
structure MemI (c : Cfg α) (s : St α) : Prop where
  len : s.X.length = s.G.length
  pos : s.X ≠ []
  pairs : C13.PairsOk c.epsSY s.X s.G
  mats : s.mats = if s.X.length > 1 then some (s.X, s.G) else none

theorem pairsOk_append (eps : α) (hsym : ∀ x g x' g' : Vec α, curvOk x g x' g' eps = curvOk x' g' x g eps)
    (X G : List (Vec α)) (x g : Vec α) (hl : X.length = G.length) (hp : C13.PairsOk eps X G)
    (hk : curvOk x g (lastD X) (lastD G) eps = true) : C13.PairsOk eps (X ++ [x]) (G ++ [g]) := by
  induction X generalizing G with
  | nil => cases G <;> simp [C13.PairsOk]
  | cons x1 xs ih =>
    cases G with
    | nil => simp at hl
    | cons g1 gs =>
      cases xs with
      | nil =>
        cases gs with
        | nil =>
          simp only [List.cons_append, List.nil_append, C13.PairsOk, and_true]
          rw [hsym]; simpa [lastD] using hk
        | cons _ _ => simp at hl
      | cons x2 xs' =>
        cases gs with
        | nil => simp at hl
        | cons g2 gs' =>
          simp only [C13.PairsOk] at hp
          simp only [List.cons_append, C13.PairsOk]
          refine ⟨hp.1, ?_⟩
          have := ih (g2 :: gs') (by simpa using hl) hp.2 (by simpa [lastD, List.getLastD] using hk)
          simpa using this

theorem pairsOk_drop1 (eps : α) (X G : List (Vec α)) (hp : C13.PairsOk eps X G) :
    C13.PairsOk eps (X.drop 1) (G.drop 1) := by
  cases X with
  | nil => simp [C13.PairsOk]
  | cons x1 xs =>
    cases G with
    | nil => cases xs <;> simp [C13.PairsOk]
    | cons g1 gs =>
      cases xs with
      | nil => simp [C13.PairsOk]
      | cons x2 xs' =>
        cases gs with
        | nil => simp [C13.PairsOk]
        | cons g2 gs' => simp only [C13.PairsOk] at hp; simpa using hp.2

/-! ### the invariant is preserved by a run without the hook -/

theorem memStep_memI (c : Cfg α) (b : Bool)
    (hsym : ∀ x g x' g' : Vec α, curvOk x g x' g' c.epsSY = curvOk x' g' x g c.epsSY) (hmc : 1 ≤ c.maxcor)
    (s : St α) (hi : MemI c s) : MemI c (memStep (c.up b) s) := by
  unfold memStep updateMats
  dsimp only
  split
  · rename_i hk
    have hl : (s.X ++ [s.x]).length = (s.G ++ [s.g]).length := by simp [hi.len]
    have hp := pairsOk_append c.epsSY hsym s.X s.G s.x s.g hi.len hi.pairs hk
    have hpos := List.length_pos_iff.mpr hi.pos
    split
    · rename_i hgt
      simp only [List.length_append, List.length_singleton] at hgt
      refine ⟨by simp [hi.len], ?_, pairsOk_drop1 _ _ _ hp, ?_⟩
      · intro h0
        have := congrArg List.length h0
        simp only [List.length_drop, List.length_append, List.length_singleton, List.length_nil] at this
        omega
      · have : (List.drop 1 (s.X ++ [s.x])).length > 1 := by
          simp only [List.length_drop, List.length_append, List.length_singleton]; omega
        simp only [if_true, this]
    · refine ⟨hl, by simp, hp, ?_⟩
      have : (s.X ++ [s.x]).length > 1 := by
        simp only [List.length_append, List.length_singleton]; omega
      simp only [if_true, this]
  · simp only [Bool.false_eq_true, if_false]
    cases b
    · simp only [Bool.false_eq_true, if_false]
      exact ⟨hi.len, hi.pos, hi.pairs, hi.mats⟩
    · simp only [if_true]
      exact ⟨hi.len, hi.pos, hi.pairs, rfl⟩

theorem iterFail_memI (c : Cfg α) (s : St α) (hi : MemI c s) : MemI c (iterFail s).1 := by
  unfold iterFail
  split
  · exact ⟨hi.len, hi.pos, hi.pairs, hi.mats⟩
  · exact ⟨rfl, by simp, by simp [C13.PairsOk], by simp⟩

/-- with the hook off the two memory steps coincide on a state satisfying the invariant -/
theorem memStep_up (c : Cfg α) (s : St α) (hi : MemI c s) : memStep (c.up true) s = memStep (c.up false) s := by
  unfold memStep
  dsimp only
  split
  · rfl
  · simp only [if_true, Bool.false_eq_true, if_false]
    rw [hi.mats]

/-! ### the simulation -/

theorem RelE_of_map_eq {T : Type} (e : T → T) {ra rb : Except ε T} (h : ra.map e = rb.map e) :
    RelE (fun p q => e p = e q) ra rb := by
  cases ra <;> cases rb <;> simp only [Except.map, Except.error.injEq, Except.ok.injEq, reduceCtorEq] at h
  · exact h
  · exact h

/-- states equal up to the ghost logs, the first one satisfying the memory invariant -/
def GR (c : Cfg α) (a b : St α) : Prop := a.er = b.er ∧ MemI c a

theorem MemI.of_er (c : Cfg α) {a b : St α} (h : a.er = b.er) (hi : MemI c a) : MemI c b := by
  obtain ⟨lg, cbs, ol, rfl⟩ := St.exists_ghost h
  exact ⟨hi.len, hi.pos, hi.pairs, hi.mats⟩

theorem afterEval_gr (u : User α ε) (hid : IdUpdate u) (c : Cfg α) {a b : St α} (f0Old : α) (h : GR c a b) :
    RelE (fun p q => GR c p.1 q.1 ∧ p.2 = q.2) (afterEval u (c.up true) a f0Old)
      (afterEval u (c.up false) b f0Old) := by
  obtain ⟨he, hi⟩ := h
  obtain ⟨lg, cbs, ol, rfl⟩ := St.exists_ghost he
  unfold IdUpdate at hid
  unfold afterEval
  simp only [if_true, Bool.false_eq_true, if_false, St.logCall, hid, bind, Except.bind, pure, Except.pure, RelE]
  rw [C13.identity_filter_noop c.epsSY a.X a.G hi.len hi.pairs]
  unfold stopTests
  dsimp only
  split
  · exact ⟨⟨rfl, hi.len, hi.pos, hi.pairs, hi.mats⟩, rfl⟩
  · split
    · exact ⟨⟨rfl, hi.len, hi.pos, hi.pairs, hi.mats⟩, rfl⟩
    · exact ⟨⟨rfl, hi.len, hi.pos, hi.pairs, hi.mats⟩, rfl⟩

theorem doCallback_gr (u : User α ε) (c : Cfg α) {a b : St α} (h : GR c a b) :
    RelE (GR c) (doCallback u (c.up true) a) (doCallback u (c.up false) b) := by
  obtain ⟨he, hi⟩ := h
  obtain ⟨lg, cbs, ol, rfl⟩ := St.exists_ghost he
  unfold doCallback
  dsimp only
  have hres : ({ a with cbStates := cbs, sf := { a.sf with log := lg }, olog := ol } : St α).result = a.result := rfl
  rw [hres]
  split
  · simp only [bind, Except.bind]
    cases u.callback { a.result with nit := a.nit + 1 } with
    | error e => simp [RelE]
    | ok stopNow =>
      simp only [pure, Except.pure, RelE, St.logCall]
      split
      · exact ⟨rfl, hi.len, hi.pos, hi.pairs, hi.mats⟩
      · exact ⟨rfl, hi.len, hi.pos, hi.pairs, hi.mats⟩
  · simp only [pure, Except.pure, RelE]; exact ⟨rfl, hi.len, hi.pos, hi.pairs, hi.mats⟩

theorem iterStep_gr (u : User α ε) (hid : IdUpdate u) (c : Cfg α)
    (hsym : ∀ x g x' g' : Vec α, curvOk x g x' g' c.epsSY = curvOk x' g' x g c.epsSY) (hmc : 1 ≤ c.maxcor)
    {a b : St α} (d : Vec α) (stp f0Old : α) (h : GR c a b) :
    RelE (fun p q => GR c p.1 q.1 ∧ p.2 = q.2) (iterStep u (c.up true) a d stp f0Old)
      (iterStep u (c.up false) b d stp f0Old) := by
  obtain ⟨he, hi⟩ := h
  obtain ⟨lg, cbs, ol, rfl⟩ := St.exists_ghost he
  unfold iterStep
  dsimp only
  refine RelE.bind (RelE_of_map_eq (fun p : SF α × α × Vec α => (p.1.er, p.2))
    (funAndGrad_congr u.toSFUser a.sf { a.sf with log := lg } _ (by simp [SF.er]))) ?_
  rintro ⟨a1, a2⟩ ⟨b1, b2⟩ hpq
  simp only [Prod.mk.injEq] at hpq
  obtain ⟨h1, h2⟩ := hpq
  subst h2
  dsimp only
  refine RelE.bind (afterEval_gr u hid c f0Old (a := { a with x := _, f := a2.1, g := a2.2, sf := a1 }) ?_) ?_
  · exact ⟨by simp [St.er, h1], hi.len, hi.pos, hi.pairs, hi.mats⟩
  rintro ⟨r1, r2⟩ ⟨r1', r2'⟩ ⟨⟨hr, hir⟩, e⟩
  simp only at e
  subst e
  dsimp only
  split
  · simp only [pure, Except.pure, RelE]; exact ⟨⟨hr, hir⟩, by rflt⟩
  · have hm : GR c (memStep (c.up true) r1) (memStep (c.up false) r1') := by
      rw [memStep_up c r1 hir]
      exact ⟨memStep_congr c c.hasCallback c.hasCallback r1 r1' hr |> fun h' => by
              simpa [Cfg.cb, Cfg.up] using (show (memStep (c.up false) r1).er = (memStep (c.up false) r1').er from by
                obtain ⟨lg', cbs', ol', rfl⟩ := St.exists_ghost hr; rfl),
             memStep_memI c false hsym hmc r1 hir⟩
    refine RelE.bind (doCallback_gr u c hm) ?_
    rintro w w' ⟨hw, hiw⟩
    obtain ⟨lg', cbs', ol', rfl⟩ := St.exists_ghost hw
    simp only [pure, Except.pure, RelE]
    exact ⟨⟨rfl, hiw.len, hiw.pos, hiw.pairs, hiw.mats⟩, by rflt⟩

theorem iterBody_gr (u : User α ε) (o : Oracles α δ) (hid : IdUpdate u) (c : Cfg α)
    (hsym : ∀ x g x' g' : Vec α, curvOk x g x' g' c.epsSY = curvOk x' g' x g c.epsSY) (hmc : 1 ≤ c.maxcor)
    {a b : St α} (h : GR c a b) :
    RelE (fun p q => GR c p.1 q.1 ∧ p.2 = q.2) (iterBody u o (c.up true) a) (iterBody u o (c.up false) b) := by
  obtain ⟨he, hi⟩ := h
  obtain ⟨lg, cbs, ol, rfl⟩ := St.exists_ghost he
  unfold iterBody
  dsimp only
  refine RelE.bind (RelE_of_map_eq (fun p : SF α × Option α × List (OReq α) => (p.1.er, p.2.1, ([] : List (OReq α))))
    (lineSearch_congr u o (c.up false) _ _ _ _ _ a.sf { a.sf with log := lg } _ _ _ (by simp [SF.er]))) ?_
  rintro ⟨p1, p2, p3⟩ ⟨q1, q2, q3⟩ hpq
  simp only [Prod.mk.injEq] at hpq
  obtain ⟨h1, h2, -⟩ := hpq
  subst h2
  dsimp only
  cases p2 with
  | none =>
    simp only [pure, Except.pure, RelE]
    have hg : GR c { a with sf := p1, olog := p3 } { a with cbStates := cbs, sf := q1, olog := q3 } :=
      ⟨by simp [St.er, h1], hi.len, hi.pos, hi.pairs, hi.mats⟩
    refine ⟨⟨?_, iterFail_memI c _ hg.2⟩, ?_⟩
    · have := iterFail_congr _ _ hg.1
      simp only [Prod.mk.injEq] at this
      exact this.1
    · have := iterFail_congr _ _ hg.1
      simp only [Prod.mk.injEq] at this
      exact this.2
  | some stp =>
    exact iterStep_gr u hid c hsym hmc _ stp a.f
      (⟨by simp [St.er, h1], hi.len, hi.pos, hi.pairs, hi.mats⟩ :
        GR c { a with sf := p1, olog := p3 } { a with cbStates := cbs, sf := q1, olog := p3 })

theorem mainLoop_gr (u : User α ε) (o : Oracles α δ) (hid : IdUpdate u) (c : Cfg α)
    (hsym : ∀ x g x' g' : Vec α, curvOk x g x' g' c.epsSY = curvOk x' g' x g c.epsSY) (hmc : 1 ≤ c.maxcor) :
    ∀ (fuel : Nat) {a b : St α}, GR c a b →
      RelE (GR c) (mainLoop u o (c.up true) fuel a) (mainLoop u o (c.up false) fuel b) := by
  intro fuel
  induction fuel with
  | zero => intro a b h; simp only [mainLoop, pure, Except.pure, RelE]; exact h
  | succ n ih =>
    intro a b h
    simp only [mainLoop]
    have hgd : guard (c.up true) a = guard (c.up false) b := by
      obtain ⟨lg, cbs, ol, rfl⟩ := St.exists_ghost h.1; rfl
    rw [hgd]
    split
    · refine RelE.bind (iterBody_gr u o hid c hsym hmc h) ?_
      rintro ⟨p1, p2⟩ ⟨q1, q2⟩ ⟨h1, h2⟩
      simp only at h2
      subst h2
      cases p2 with
      | brk => simp only [pure, Except.pure, RelE]; exact h1
      | next => exact ih h1
    · simp only [pure, Except.pure, RelE]; exact h

theorem initEval_fresh' (u : User α ε) (c : Cfg α) (i : Init α) (hck : c.checkpoint = none)
    (h : initEval u c = .ok i) : i.X = [] ∧ i.G = [] := by
  unfold initEval at h
  simp only [bind, Except.bind] at h
  split at h
  · simp at h
  · split at h
    · simp at h
    · split at h
      · simp at h
      · simp only [pure, Except.pure] at h
        injection h with h; subst h
        simp [hck]

theorem prepare_gr (u : User α ε) (hid : IdUpdate u) (c : Cfg α) (i : Init α) (hX : i.X = []) (hG : i.G = []) :
    RelE (GR c) (prepare u (c.up true) i) (prepare u (c.up false) i) := by
  unfold IdUpdate at hid
  unfold prepare
  have e1 : firstGrad u (c.up true) i = firstGrad u (c.up false) i := rfl
  rw [e1]
  cases firstGrad u (c.up false) i with
  | error e => simp [RelE, bind, Except.bind]
  | ok e =>
    simp only [bind, Except.bind]
    have e2 : applyScaler u (c.up true) { i.state with sf := e.1 } e.2 =
        applyScaler u (c.up false) { i.state with sf := e.1 } e.2 := rfl
    rw [e2]
    cases hs : applyScaler u (c.up false) { i.state with sf := e.1 } e.2 with
    | error e' => simp [RelE]
    | ok s1 =>
      have hx1 : s1.X = [] ∧ s1.G = [] ∧ s1.mats = none := by
        unfold applyScaler at hs
        split at hs
        · simp only [bind, Except.bind] at hs
          split at hs
          · simp at hs
          · simp only [pure, Except.pure, Except.ok.injEq] at hs
            subst hs
            exact ⟨hX, hG, rfl⟩
        · simp only [pure, Except.pure, Except.ok.injEq] at hs
          subst hs
          exact ⟨hX, hG, rfl⟩
      obtain ⟨h1, h2, h3⟩ := hx1
      simp only [applyUpdate0, if_true, Bool.false_eq_true, if_false, St.logCall, hid, bind, Except.bind, pure,
        Except.pure, RelE, h1, List.length_nil, Nat.lt_irrefl, gt_iff_lt, initMemory]
      refine ⟨by simp [St.er, SF.er], rfl, by simp, by simp [C13.PairsOk], ?_⟩
      simp [h3]

theorem classify_up (c : Cfg α) (s t : St α) (h : s.er = t.er) :
    (classify (c.up true) s).er = (classify (c.up false) t).er := by
  obtain ⟨lg, cbs, ol, rfl⟩ := St.exists_ghost h
  unfold classify
  dsimp only
  split
  · rfl
  · split
    · rfl
    · split <;> rfl

/-- **the simulation**: with an update function that returns its inputs, switching the hook on or
off does not change the result (fresh run) -/
theorem minimize_identity (u : User α ε) (o : Oracles α δ) (hid : IdUpdate u) (c : Cfg α)
    (hck : c.checkpoint = none)
    (hsym : ∀ x g x' g' : Vec α, curvOk x g x' g' c.epsSY = curvOk x' g' x g c.epsSY) (hmc : 1 ≤ c.maxcor) :
    RelE (fun p q => p.1 = q.1) (minimize u o (c.up true)) (minimize u o (c.up false)) := by
  unfold minimize
  have e0 : initEval u (c.up true) = initEval u (c.up false) := rfl
  rw [e0]
  cases hi : initEval u (c.up false) with
  | error e => simp [RelE, bind, Except.bind]
  | ok i =>
    obtain ⟨hX, hG⟩ := initEval_fresh' u (c.up false) i hck hi
    simp only [bind, Except.bind]
    split
    · have : earlyResult (c.up true) i = earlyResult (c.up false) i := rfl
      rw [this]; simp [RelE, pure, Except.pure]
    · refine RelE.bind (prepare_gr u hid c i hX hG) ?_
      rintro s0 t0 h0
      have hn : s0.nit = t0.nit := by obtain ⟨lg, cbs, ol, rfl⟩ := St.exists_ghost h0.1; rfl
      have hm : (c.up true).maxiter - s0.nit = (c.up false).maxiter - t0.nit := by rw [hn]
      rw [hm]
      refine RelE.bind (mainLoop_gr u o hid c hsym hmc _ h0) ?_
      rintro s1 t1 h1
      simp only [pure, Except.pure, RelE]
      exact result_congr _ _ (classify_up c s1 t1 h1.1)

end Lbfgsb
