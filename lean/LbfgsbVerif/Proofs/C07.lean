/-
  Lemmas for C07: the state handed to the callback after iteration `k` is the result of a run
  with `maxiter = k`. Level U (no arithmetic law, no order law even: plain equational
  reasoning about the driver).

  Key facts:
  * `maxiter` occurs only in the loop guard, in the fuel and in the final classification:
    `iterBody`, `initEval`, `prepare` do not depend on it — *by definitional unfolding* (`rfl`);
  * a pass that hands a state to the callback ends with the driver state equal to that
    state on `x, fun, jac, nfev, njev, nit, sk, yk`.
-/
import LbfgsbVerif.Model.Shell

namespace Lbfgsb
variable {α ε δ : Type}
variable [Add α] [Sub α] [Mul α] [Div α] [Neg α] [LT α] [DecidableLT α] [OfNat α 0] [OfNat α 1]
  [FloatLike α]

theorem iterBody_indep_maxiter (u : User α ε) (o : Oracles α δ) (c : Cfg α) (k : Nat) (s : St α) :
    iterBody u o { c with maxiter := k } s = iterBody u o c s := rfl

theorem initEval_indep_maxiter (u : User α ε) (c : Cfg α) (k : Nat) :
    initEval u { c with maxiter := k } = initEval u c := rfl

theorem prepare_indep_maxiter (u : User α ε) (c : Cfg α) (k : Nat) (i : Init α) :
    prepare u { c with maxiter := k } i = prepare u c i := rfl

/-- the fields of a callback state / result that C07 compares -/
def SameSnapshot (a b : Result α) : Prop :=
  a.x = b.x ∧ a.f = b.f ∧ a.jac = b.jac ∧ a.nfev = b.nfev ∧ a.njev = b.njev ∧ a.nit = b.nit ∧
    a.sk = b.sk ∧ a.yk = b.yk

/-- what a pass does to the list of callback states -/
structure Pass7 (s s' : St α) (flow : Flow) : Prop where
  brk_same : flow = .brk → s'.cbStates = s.cbStates
  next_nit : flow = .next → s'.nit = s.nit + 1
  next_cbs : flow = .next → s'.cbStates = s.cbStates ∨
    ∃ cb, s'.cbStates = s.cbStates ++ [cb] ∧ SameSnapshot cb s'.result

theorem stopTests_frame7 {c : Cfg α} {s s' : St α} {f0Old : α} {stop : Bool}
    (h : stopTests c s f0Old = (s', stop)) : s'.cbStates = s.cbStates ∧ s'.nit = s.nit := by
  unfold stopTests at h
  split at h
  · injection h with h1 _; subst h1; exact ⟨rfl, rfl⟩
  · split at h <;> (injection h with h1 _; subst h1; exact ⟨rfl, rfl⟩)

theorem afterEval_frame7 {u : User α ε} {c : Cfg α} {s s' : St α} {f0Old : α} {stop : Bool}
    (h : afterEval u c s f0Old = .ok (s', stop)) : s'.cbStates = s.cbStates ∧ s'.nit = s.nit := by
  unfold afterEval at h
  split at h
  · simp only [bind, Except.bind] at h
    split at h
    · simp at h
    · rename_i r hr
      simp only [pure, Except.pure] at h
      injection h with h
      have := stopTests_frame7 h
      exact ⟨this.1, this.2⟩
  · simp only [pure, Except.pure] at h
    injection h with h
    exact stopTests_frame7 h

theorem doCallback_spec7 (u : User α ε) (c : Cfg α) (s s' : St α)
    (h : doCallback u c s = .ok s') :
    s'.nit = s.nit ∧ (s'.cbStates = s.cbStates ∨
      ∃ cb, s'.cbStates = s.cbStates ++ [cb] ∧
        SameSnapshot cb ({ s' with nit := s'.nit + 1 } : St α).result) := by
  unfold doCallback at h
  split at h
  · simp only [bind, Except.bind] at h
    split at h
    · simp at h
    · rename_i b hb
      simp only [pure, Except.pure] at h
      injection h with h
      cases b <;> (simp only [if_true, Bool.false_eq_true, if_false] at h; subst h;
                   exact ⟨rfl, Or.inr ⟨_, rfl, by simp [SameSnapshot, St.result, St.logCall]⟩⟩)
  · simp only [pure, Except.pure] at h
    injection h with h; subst h
    exact ⟨rfl, Or.inl rfl⟩

theorem iterStep_pass7 (u : User α ε) (c : Cfg α) (s s' : St α) (d : Vec α) (stp f0Old : α)
    (flow : Flow) (h : iterStep u c s d stp f0Old = .ok (s', flow)) : Pass7 s s' flow := by
  unfold iterStep at h
  simp only [bind, Except.bind] at h
  split at h
  · simp at h
  · rename_i e he
    split at h
    · simp at h
    · rename_i r hr
      obtain ⟨s1, stop⟩ := r
      obtain ⟨hcb1, hnit1⟩ := afterEval_frame7 hr
      cases stop with
      | true =>
        simp only [if_true, pure, Except.pure] at h
        injection h with h; injection h with h1 h2; subst h1; subst h2
        exact ⟨fun _ => hcb1, by simp, by simp⟩
      | false =>
        simp only [Bool.false_eq_true, if_false] at h
        split at h
        · simp at h
        · rename_i s2 hs2
          simp only [pure, Except.pure] at h
          injection h with h; injection h with h1 h2; subst h1; subst h2
          obtain ⟨hn2, hc2⟩ := doCallback_spec7 u c (memStep c s1) s2 hs2
          have hnm : (memStep c s1).nit = s1.nit := rfl
          have hcm : (memStep c s1).cbStates = s1.cbStates := rfl
          refine ⟨by simp, fun _ => ?_, fun _ => ?_⟩
          · simp only; rw [hn2, hnm, hnit1]
          · rcases hc2 with h' | ⟨cb, h', hsnap⟩
            · left; simp only; rw [h', hcm, hcb1]
            · right; exact ⟨cb, by simp only; rw [h', hcm, hcb1], hsnap⟩

theorem iterBody_pass7 (u : User α ε) (o : Oracles α δ) (c : Cfg α) (s s' : St α) (flow : Flow)
    (h : iterBody u o c s = .ok (s', flow)) : Pass7 s s' flow := by
  unfold iterBody at h
  simp only [bind, Except.bind] at h
  split at h
  · simp at h
  · rename_i r hr
    obtain ⟨sfL, stp?, olog⟩ := r
    simp only at h
    cases stp? with
    | none =>
      simp only [pure, Except.pure] at h
      injection h with h
      unfold iterFail at h
      split at h
      · injection h with h1 h2; subst h1; subst h2
        exact ⟨fun _ => rfl, by simp, by simp⟩
      · injection h with h1 h2; subst h1; subst h2
        exact ⟨by simp, fun _ => rfl, fun _ => Or.inl rfl⟩
    | some stp =>
      simp only at h
      have p := iterStep_pass7 u c _ s' _ stp s.f flow h
      exact ⟨p.brk_same, p.next_nit, p.next_cbs⟩

theorem iterBody_nit_ge (u : User α ε) (o : Oracles α δ) (c : Cfg α) (s s' : St α) (flow : Flow)
    (h : iterBody u o c s = .ok (s', flow)) : s.nit ≤ s'.nit := by
  unfold iterBody at h
  simp only [bind, Except.bind] at h
  split at h
  · simp at h
  · rename_i r hr
    obtain ⟨sfL, stp?, olog⟩ := r
    simp only at h
    cases stp? with
    | none =>
      simp only [pure, Except.pure] at h
      injection h with h
      unfold iterFail at h
      split at h <;> (injection h with h1 _; subst h1; simp)
    | some stp =>
      simp only at h
      unfold iterStep at h
      simp only [bind, Except.bind] at h
      split at h
      · simp at h
      · split at h
        · simp at h
        · rename_i r2 hr2
          obtain ⟨s1, stop⟩ := r2
          obtain ⟨-, hn1⟩ := afterEval_frame7 hr2
          cases stop with
          | true =>
            simp only [if_true, pure, Except.pure] at h
            injection h with h; injection h with h1 _; subst h1
            simp only at hn1; omega
          | false =>
            simp only [Bool.false_eq_true, if_false] at h
            split at h
            · simp at h
            · rename_i s2 hs2
              simp only [pure, Except.pure] at h
              injection h with h; injection h with h1 _; subst h1
              have : s2.nit = s1.nit := (doCallback_spec7 u c (memStep c s1) s2 hs2).1
              simp only at hn1 ⊢
              omega

/-- the loop guard for two configurations that differ in `maxiter` only agrees as long as the
iteration number is below both limits -/
theorem guard_indep (c : Cfg α) (k : Nat) (s : St α) (hg : guard c s = true) (hk : s.nit < k) :
    guard { c with maxiter := k } s = true := by
  simp only [guard, Bool.and_eq_true, decide_eq_true_eq, Bool.not_eq_true'] at hg ⊢
  exact ⟨⟨⟨hg.1.1.1, hk⟩, hg.1.2⟩, hg.2⟩

/-- callback states produced by the loop started in `s`: each has an iteration number above
`s.nit`, and each is what a run limited to that many iterations ends with -/
def NewCbOk (u : User α ε) (o : Oracles α δ) (c : Cfg α) (s : St α) (cb : Result α) : Prop :=
  s.nit < cb.nit ∧
  ∀ fuelB, cb.nit ≤ fuelB + s.nit →
    ∃ sB, mainLoop u o { c with maxiter := cb.nit } fuelB s = .ok sB ∧ sB.nit = cb.nit ∧
      SameSnapshot cb sB.result

theorem mainLoop_cbs (u : User α ε) (o : Oracles α δ) (c : Cfg α) :
    ∀ (fuel : Nat) (s s' : St α), mainLoop u o c fuel s = .ok s' →
      ∃ news, s'.cbStates = s.cbStates ++ news ∧ s.nit ≤ s'.nit ∧
        ∀ cb ∈ news, NewCbOk u o c s cb := by
  intro fuel
  induction fuel with
  | zero =>
    intro s s' h
    simp only [mainLoop, pure, Except.pure] at h
    injection h with h; subst h
    exact ⟨[], by simp, Nat.le_refl _, by simp⟩
  | succ fuel ih =>
    intro s s' h
    simp only [mainLoop] at h
    split at h
    · rename_i hg
      simp only [bind, Except.bind] at h
      split at h
      · simp at h
      · rename_i r hr
        obtain ⟨s1, flow⟩ := r
        have p := iterBody_pass7 u o c s s1 flow hr
        cases flow with
        | brk =>
          simp only [pure, Except.pure] at h
          injection h with h; subst h
          refine ⟨[], by simp [p.brk_same rfl], ?_, by simp⟩
          -- nit does not decrease on a break (it is unchanged); not needed precisely
          exact iterBody_nit_ge u o c s s1 .brk hr
        | next =>
          simp only at h
          obtain ⟨news1, hcb1, hn1, hok1⟩ := ih s1 s' h
          have hnit := p.next_nit rfl
          -- lifting a statement about the loop from `s1` to the loop from `s`
          have lift : ∀ cb, NewCbOk u o c s1 cb → NewCbOk u o c s cb := by
            intro cb ⟨hlt, hB⟩
            refine ⟨by omega, ?_⟩
            intro fuelB hfb
            obtain ⟨fuelB', rfl⟩ : ∃ n, fuelB = n + 1 := ⟨fuelB - 1, by omega⟩
            obtain ⟨sB, hsB, hres⟩ := hB fuelB' (by omega)
            refine ⟨sB, ?_, hres⟩
            simp only [mainLoop]
            rw [guard_indep c cb.nit s hg (by omega)]
            simp only [if_true, bind, Except.bind]
            rw [iterBody_indep_maxiter, hr]
            exact hsB
          rcases p.next_cbs rfl with hsame | ⟨cb0, hcb0, hsnap⟩
          · refine ⟨news1, by rw [hcb1, hsame], by omega, fun cb hcb => lift cb (hok1 cb hcb)⟩
          · refine ⟨cb0 :: news1, by rw [hcb1, hcb0]; simp, by omega, ?_⟩
            intro cb hcb
            rcases List.mem_cons.1 hcb with rfl | hcb
            · -- the state handed over in this very pass: a run limited to `cb.nit` iterations
              -- performs the same pass and then stops on its iteration limit
              have hcbnit : cb.nit = s.nit + 1 := by
                have := hsnap.2.2.2.2.2.1
                simp only [St.result] at this
                omega
              refine ⟨by omega, ?_⟩
              intro fuelB hfb
              obtain ⟨fuelB', rfl⟩ : ∃ n, fuelB = n + 1 := ⟨fuelB - 1, by omega⟩
              refine ⟨s1, ?_, by omega, hsnap⟩
              simp only [mainLoop]
              rw [guard_indep c cb.nit s hg (by omega)]
              simp only [if_true, bind, Except.bind]
              rw [iterBody_indep_maxiter, hr]
              simp only
              -- at the next loop head the iteration limit is reached
              cases fuelB' with
              | zero => simp [mainLoop, pure, Except.pure]
              | succ n =>
                simp only [mainLoop]
                have hg1 : guard { c with maxiter := cb.nit } s1 = false := by
                  simp only [guard, Bool.and_eq_false_iff, decide_eq_false_iff_not]
                  left; left; right; omega
                simp [hg1, pure, Except.pure]
            · exact lift cb (hok1 cb hcb)
    · simp only [pure, Except.pure] at h
      injection h with h; subst h
      exact ⟨[], by simp, Nat.le_refl _, by simp⟩

/-- the loop starts without callback states -/
theorem prepare_cbs7 (u : User α ε) (c : Cfg α) (i : Init α) (s : St α)
    (h : prepare u c i = .ok s) : s.cbStates = [] := by
  unfold prepare at h
  simp only [bind, Except.bind] at h
  split at h
  · simp at h
  · rename_i e he
    split at h
    · simp at h
    · rename_i s1 hs1
      have h1 : s1.cbStates = [] := by
        unfold applyScaler at hs1
        split at hs1
        · simp only [bind, Except.bind] at hs1
          split at hs1
          · simp at hs1
          · simp only [pure, Except.pure] at hs1
            injection hs1 with hs1; subst hs1; rfl
        · simp only [pure, Except.pure] at hs1
          injection hs1 with hs1; subst hs1; rfl
      split at h
      · simp at h
      · rename_i s2 hs2
        simp only [pure, Except.pure] at h
        injection h with h; subst h
        have h2 : s2.cbStates = [] := by
          unfold applyUpdate0 at hs2
          split at hs2
          · simp only [bind, Except.bind] at hs2
            split at hs2
            · simp at hs2
            · simp only [pure, Except.pure] at hs2
              injection hs2 with hs2; subst hs2; exact h1
          · simp only [pure, Except.pure] at hs2
            injection hs2 with hs2; subst hs2; exact h1
        unfold initMemory
        split <;> exact h2

theorem classify_snapshot (c : Cfg α) (s : St α) (cb : Result α) (h : SameSnapshot cb s.result) :
    SameSnapshot cb (classify c s).result := by
  unfold classify
  repeat' split
  all_goals exact h

theorem classify_cbs (c : Cfg α) (s : St α) : (classify c s).cbStates = s.cbStates := by
  unfold classify
  repeat' split
  all_goals rfl

end Lbfgsb
