/-
  Invariants of the shell used by the C05 theorems: `fun`/`jac` belong to `x`, counters equal
  the calls made. Level U, with one IEEE-exact law as an explicit hypothesis where needed:
  `a * 1 = a`.
-/
import LbfgsbVerif.Proofs.C04

namespace Lbfgsb
variable {α ε δ : Type}
variable [LinearOrder α] [Add α] [Sub α] [Mul α] [Div α] [Neg α] [OfNat α 0] [OfNat α 1]
  [FloatLike α]

/-- `(x, f, g)` are coherent for the scaling factor `sc`: `f` is the user's objective at `x`
times `sc`, `g` the gradient (the user's, or the finite-difference one) at `x` times `sc` -/
def CohAt (u : User α ε) (c : Cfg α) (sc : α) (x : Vec α) (f : α) (g : Vec α) : Prop :=
  (∃ v, u.F x = .ok v ∧ f = v * sc) ∧
  (∃ g0, gradSpec u.toSFUser c.lb c.ub c.mode x = .ok g0 ∧ g = vscale g0 sc)

structure Inv5 (u : User α ε) (c : Cfg α) (sc : α) (n g : Nat) (s : St α) : Prop where
  lb_eq : s.sf.lb = c.lb
  ub_eq : s.sf.ub = c.ub
  mode_eq : s.sf.mode = c.mode
  scale_eq : s.sf.scale = sc
  coh : Coh u.toSFUser s.sf
  at_x : CohAt u c sc s.x s.f s.g
  counted : CountedFrom n g s.sf
  cbs : ∀ cb ∈ s.cbStates, CohAt u c sc cb.x cb.f cb.jac

omit [LinearOrder α] [Add α] [Sub α] [Mul α] [Div α] [Neg α] [OfNat α 0] [OfNat α 1]
  [FloatLike α] in
theorem counted_logCall {n g : Nat} {s : St α} (k : CallKind) (a : Vec α) (hF : k ≠ .F)
    (hG : k ≠ .G) (h : CountedFrom n g s.sf) : CountedFrom n g (s.logCall k a).sf := by
  simp only [St.logCall, CountedFrom]
  rw [nF_append_other _ _ _ hF, nG_append_other _ _ _ hG]
  exact h

theorem doCallback_inv5 (u : User α ε) (c : Cfg α) (sc : α) (n g : Nat) (s s' : St α)
    (hi : Inv5 u c sc n g s) (h : doCallback u c s = .ok s') : Inv5 u c sc n g s' := by
  unfold doCallback at h
  split at h
  · simp only [bind, Except.bind] at h
    split at h
    · simp at h
    · rename_i b hb
      simp only [pure, Except.pure] at h
      injection h with h
      have hcbs : ∀ cb ∈ s.cbStates ++ [{ s.result with nit := s.nit + 1 }],
          CohAt u c sc cb.x cb.f cb.jac := by
        intro cb hcb
        rcases List.mem_append.1 hcb with h' | h'
        · exact hi.cbs cb h'
        · simp only [List.mem_singleton] at h'
          subst h'
          exact hi.at_x
      have hcnt2 := counted_logCall (s := s) .callback s.x (by decide) (by decide) hi.counted
      cases b
      all_goals
        simp only [if_true, Bool.false_eq_true, if_false] at h
        subst h
        exact ⟨hi.lb_eq, hi.ub_eq, hi.mode_eq, hi.scale_eq,
           by simpa [St.logCall, Coh] using hi.coh, hi.at_x, hcnt2, hcbs⟩
  · simp only [pure, Except.pure] at h
    injection h with h; subst h
    exact hi

theorem iterStep_inv5 (u : User α ε) (c : Cfg α) (hU : c.hasUpdate = false) (sc : α) (n g : Nat)
    (s s' : St α) (d : Vec α) (stp f0Old : α) (flow : Flow) (hi : Inv5 u c sc n g s)
    (h : iterStep u c s d stp f0Old = .ok (s', flow)) : Inv5 u c sc n g s' := by
  unfold iterStep at h
  simp only [bind, Except.bind] at h
  split at h
  · simp at h
  · rename_i e he
    obtain ⟨es, ⟨v, hv, hf⟩, ⟨g0, hg0, hg⟩⟩ := funAndGrad_sum hi.coh he
    have hcnt := funAndGrad_counted hi.counted he
    rw [hi.lb_eq, hi.ub_eq, hi.mode_eq] at hg0
    rw [hi.scale_eq] at hf hg
    have hat : CohAt u c sc (trial s.x d c.lb c.ub stp) e.2.1 e.2.2 := ⟨⟨v, hv, hf⟩, ⟨g0, hg0, hg⟩⟩
    split at h
    · simp at h
    · rename_i r hr
      obtain ⟨s1, stop⟩ := r
      -- without an update function `afterEval` only runs the stop tests
      have hfr : s1.x = trial s.x d c.lb c.ub stp ∧ s1.f = e.2.1 ∧ s1.g = e.2.2 ∧ s1.sf = e.1 ∧
          s1.cbStates = s.cbStates ∧ s1.nit = s.nit := by
        unfold afterEval at hr
        simp only [hU, Bool.false_eq_true, if_false, pure, Except.pure] at hr
        injection hr with hr
        obtain ⟨h1, h2, h3, h4, h5, h6⟩ := stopTests_frame' hr
        exact ⟨h3, h1, h4, h5, h2, h6⟩
      obtain ⟨hx1, hf1, hg1, hsf1, hcb1, -⟩ := hfr
      have i1 : Inv5 u c sc n g s1 :=
        ⟨by rw [hsf1, es.lb, hi.lb_eq], by rw [hsf1, es.ub, hi.ub_eq], by rw [hsf1, es.mode, hi.mode_eq],
         by rw [hsf1, es.scale, hi.scale_eq], by rw [hsf1]; exact es.coh,
         by rw [hx1, hf1, hg1]; exact hat, by rw [hsf1]; exact hcnt, by rw [hcb1]; exact hi.cbs⟩
      cases stop with
      | true =>
        simp only [if_true, pure, Except.pure] at h
        injection h with h; injection h with h1 _; subst h1
        exact i1
      | false =>
        simp only [Bool.false_eq_true, if_false] at h
        split at h
        · simp at h
        · rename_i s2 hs2
          simp only [pure, Except.pure] at h
          injection h with h; injection h with h1 _; subst h1
          have im : Inv5 u c sc n g (memStep c s1) :=
            ⟨i1.lb_eq, i1.ub_eq, i1.mode_eq, i1.scale_eq, i1.coh, i1.at_x, i1.counted, i1.cbs⟩
          have i2 := doCallback_inv5 u c sc n g _ s2 im hs2
          exact ⟨i2.lb_eq, i2.ub_eq, i2.mode_eq, i2.scale_eq, i2.coh, i2.at_x, i2.counted, i2.cbs⟩

theorem iterBody_inv5 (u : User α ε) (o : Oracles α δ) (c : Cfg α) (hU : c.hasUpdate = false)
    (sc : α) (n g : Nat) (s s' : St α) (flow : Flow) (hi : Inv5 u c sc n g s)
    (h : iterBody u o c s = .ok (s', flow)) : Inv5 u c sc n g s' := by
  unfold iterBody at h
  simp only [bind, Except.bind] at h
  split at h
  · simp at h
  · rename_i r hr
    obtain ⟨sfL, stp?, olog⟩ := r
    have ls := lineSearch_sum u o c _ _ _ _ _ _ sfL _ _ olog stp? hi.coh hr
    have imid : Inv5 u c sc n g { s with sf := sfL, olog := olog } :=
      ⟨by simp only; rw [ls.lb_eq, hi.lb_eq], by simp only; rw [ls.ub_eq, hi.ub_eq],
       by simp only; rw [ls.mode, hi.mode_eq], by simp only; rw [ls.scale, hi.scale_eq], ls.coh,
       hi.at_x, ls.counted n g hi.counted, hi.cbs⟩
    simp only at h
    cases stp? with
    | none =>
      simp only [pure, Except.pure] at h
      injection h with h
      unfold iterFail at h
      split at h
      all_goals
        injection h with h1 _
        subst h1
        exact ⟨imid.lb_eq, imid.ub_eq, imid.mode_eq, imid.scale_eq, imid.coh, imid.at_x,
          imid.counted, imid.cbs⟩
    | some stp =>
      simp only at h
      exact iterStep_inv5 u c hU sc n g _ s' _ stp s.f flow imid h

theorem mainLoop_inv5 (u : User α ε) (o : Oracles α δ) (c : Cfg α) (hU : c.hasUpdate = false)
    (sc : α) (n g : Nat) :
    ∀ (fuel : Nat) (s s' : St α), Inv5 u c sc n g s →
      mainLoop u o c fuel s = .ok s' → Inv5 u c sc n g s' := by
  intro fuel
  induction fuel with
  | zero =>
    intro s s' hi h
    simp only [mainLoop, pure, Except.pure] at h
    injection h with h; subst h; exact hi
  | succ fuel ih =>
    intro s s' hi h
    simp only [mainLoop] at h
    split at h
    · simp only [bind, Except.bind] at h
      split at h
      · simp at h
      · rename_i r hr
        obtain ⟨s1, flow⟩ := r
        have i1 := iterBody_inv5 u o c hU sc n g s s1 flow hi hr
        cases flow with
        | brk =>
          simp only [pure, Except.pure] at h
          injection h with h; subst h; exact i1
        | next =>
          simp only at h
          exact ih s1 s' i1 h
    · simp only [pure, Except.pure] at h
      injection h with h; subst h; exact hi

/-- counts a run starts from: zero, or the checkpoint's -/
def cnt0 (c : Cfg α) : Nat × Nat :=
  match c.checkpoint with | none => (0, 0) | some ck => (ck.nfev, ck.njev)

/-- a checkpoint that C05 accepts: produced without scaling (a scaled checkpoint together with
a scaler is the recorded finding K1), coherent, at the clipped start -/
def CkOk (u : User α ε) (c : Cfg α) : Prop :=
  ∀ ck, c.checkpoint = some ck →
    c.hasScaler = false ∧ ck.x = clip c.x0 c.lb c.ub ∧ CohAt u c 1 ck.x ck.f ck.jac

omit [LinearOrder α] [Add α] [Sub α] [Div α] [Neg α] [OfNat α 0] [FloatLike α] in
theorem vscale_one (hmul1 : ∀ a : α, a * 1 = a) (v : Vec α) : vscale v 1 = v := by
  induction v with
  | nil => rfl
  | cons a as ih =>
    simp only [vscale, List.map_cons, hmul1] at ih ⊢
    rw [ih]

/-- facts about `initEval` needed by C05 -/
structure Init5 (u : User α ε) (c : Cfg α) (i : Init α) : Prop where
  x_eq : i.x = clip c.x0 c.lb c.ub
  lb_eq : i.sf.lb = c.lb
  ub_eq : i.sf.ub = c.ub
  counted : CountedFrom (cnt0 c).1 (cnt0 c).2 i.sf
  f0 : match c.checkpoint with
    | none => ∃ v, u.F i.x = .ok v ∧ i.f0 = v * 1
    | some ck => i.f0 = ck.f

theorem evalThresh_frame5 (fn : Unit → Except ε α) (k : CallKind) (hF : k ≠ .F) (hG : k ≠ .G)
    (sf sf' : SF α) (t : Thresh α) (a : α) (n g : Nat) (hc : CountedFrom n g sf)
    (h : evalThresh fn k sf t = .ok (sf', a)) :
    CountedFrom n g sf' ∧ sf'.lb = sf.lb ∧ sf'.ub = sf.ub := by
  obtain ⟨-, hsf⟩ := evalThresh_spec _ _ _ _ _ _ h
  rw [hsf]
  split
  · refine ⟨?_, rfl, rfl⟩
    simp only [CountedFrom]
    rw [nF_append_other _ _ _ hF, nG_append_other _ _ _ hG]
    exact hc
  · exact ⟨hc, rfl, rfl⟩

theorem initEval_c05 (u : User α ε) (c : Cfg α) (i : Init α) (h : initEval u c = .ok i) :
    Init5 u c i := by
  unfold initEval at h
  simp only [bind, Except.bind] at h
  split at h
  · simp at h
  · rename_i e he
    have hE : e.1.lb = c.lb ∧ e.1.ub = c.ub ∧ CountedFrom (cnt0 c).1 (cnt0 c).2 e.1 ∧
        (match c.checkpoint with
          | none => ∃ v, u.F (clip c.x0 c.lb c.ub) = .ok v ∧ e.2 = v * 1
          | some ck => e.2 = ck.f) := by
      unfold firstEval at he
      simp only at he
      cases hck : c.checkpoint with
      | none =>
        simp only [hck] at he
        obtain ⟨sf1, f⟩ := e
        obtain ⟨es, v, hv, hf⟩ := funv_sum (new_coh' u.toSFUser c.mode _ c.lb c.ub) he
        have hc0 : CountedFrom 0 0 (SF.new c.mode (clip c.x0 c.lb c.ub) c.lb c.ub : SF α) := by
          simp [CountedFrom, SF.new, nF, nG]
        refine ⟨by rw [es.lb]; rfl, by rw [es.ub]; rfl, ?_, v, hv, hf⟩
        simpa [cnt0, hck] using funv_counted hc0 he
      | some ck =>
        simp only [hck, pure, Except.pure] at he
        injection he with he; subst he
        refine ⟨rfl, rfl, ?_, rfl⟩
        simp [cnt0, hck, CountedFrom, SF.new, nF, nG]
    obtain ⟨hElb, hEub, hEc, hEf⟩ := hE
    split at h
    · simp at h
    · rename_i t ht
      have hT : t.1.lb = c.lb ∧ t.1.ub = c.ub ∧ CountedFrom (cnt0 c).1 (cnt0 c).2 t.1 := by
        unfold evalFtarget at ht
        cases hft : c.ftarget with
        | none =>
          simp only [hft, pure, Except.pure] at ht
          injection ht with ht; subst ht; exact ⟨hElb, hEub, hEc⟩
        | some th =>
          simp only [hft, bind, Except.bind] at ht
          split at ht
          · simp at ht
          · rename_i r hr
            simp only [pure, Except.pure] at ht
            injection ht with ht; subst ht
            obtain ⟨h1, h2, h3⟩ := evalThresh_frame5 _ _ (by decide) (by decide) _ _ _ _ _ _ hEc hr
            exact ⟨by simp only; rw [h2, hElb], by simp only; rw [h3, hEub], h1⟩
      obtain ⟨hTlb, hTub, hTc⟩ := hT
      split at h
      · simp at h
      · rename_i gt hgt
        simp only [pure, Except.pure] at h
        injection h with h; subst h
        obtain ⟨h1, h2, h3⟩ := evalThresh_frame5 _ _ (by decide) (by decide) _ _ _ _ _ _ hTc hgt
        exact ⟨rfl, by simp only; rw [h2, hTlb], by simp only; rw [h3, hTub], h1, hEf⟩

theorem prepare_inv5 (u : User α ε) (c : Cfg α) (hU : c.hasUpdate = false)
    (hmul1 : ∀ a : α, a * 1 = a) (hck : CkOk u c) (i : Init α) (s : St α)
    (is : InitSum u c i) (i5 : Init5 u c i) (h : prepare u c i = .ok s) :
    Inv5 u c s.sf.scale (cnt0 c).1 (cnt0 c).2 s := by
  unfold prepare at h
  simp only [bind, Except.bind] at h
  split at h
  · simp at h
  · rename_i e he
    -- after the first gradient: coherent for the scale 1
    have hE : Coh u.toSFUser e.1 ∧ e.1.lb = c.lb ∧ e.1.ub = c.ub ∧ e.1.mode = c.mode ∧
        e.1.scale = 1 ∧ CountedFrom (cnt0 c).1 (cnt0 c).2 e.1 ∧ CohAt u c 1 i.x i.f0 e.2 := by
      unfold firstGrad at he
      cases hc' : c.checkpoint with
      | none =>
        simp only [hc'] at he
        obtain ⟨sf1, g⟩ := e
        obtain ⟨es, g0, hg0, hg⟩ := gradv_sum is.coh he
        have hf0 := i5.f0
        simp only [hc'] at hf0
        rw [i5.lb_eq, i5.ub_eq, is.mode] at hg0
        rw [is.scale1] at hg
        exact ⟨es.coh, by rw [es.lb, i5.lb_eq], by rw [es.ub, i5.ub_eq], by rw [es.mode, is.mode],
          by rw [es.scale, is.scale1], gradv_counted i5.counted he, hf0, g0, hg0, hg⟩
      | some ck =>
        simp only [hc', pure, Except.pure] at he
        injection he with he; subst he
        obtain ⟨-, hx, hcoh⟩ := hck ck hc'
        have hf0 := i5.f0
        simp only [hc'] at hf0
        refine ⟨is.coh, i5.lb_eq, i5.ub_eq, is.mode, is.scale1, i5.counted, ?_⟩
        rw [i5.x_eq, ← hx, hf0]; exact hcoh
    obtain ⟨hEc, hElb, hEub, hEm, hEs, hEcnt, ⟨v, hv, hf⟩, g0, hg0, hg⟩ := hE
    split at h
    · simp at h
    · rename_i s1 hs1
      -- the scaler only changes the scaling factor (and logs its call)
      have h1 : s1.x = i.x ∧ s1.cbStates = [] ∧ Coh u.toSFUser s1.sf ∧ s1.sf.lb = c.lb ∧
          s1.sf.ub = c.ub ∧ s1.sf.mode = c.mode ∧ CountedFrom (cnt0 c).1 (cnt0 c).2 s1.sf ∧
          s1.X = i.X ∧ s1.G = i.G ∧ s1.mats = none := by
        unfold applyScaler at hs1
        split at hs1
        · simp only [bind, Except.bind] at hs1
          split at hs1
          · simp at hs1
          · simp only [pure, Except.pure] at hs1
            injection hs1 with hs1; subst hs1
            refine ⟨rfl, rfl, by simpa [St.logCall, Coh] using hEc, hElb, hEub, hEm, ?_, rfl, rfl, rfl⟩
            have := counted_logCall (s := { i.state with sf := e.1 }) .scaler i.x (by decide)
              (by decide) hEcnt
            simpa [St.logCall, CountedFrom, Init.state] using this
        · simp only [pure, Except.pure] at hs1
          injection hs1 with hs1; subst hs1
          exact ⟨rfl, rfl, hEc, hElb, hEub, hEm, hEcnt, rfl, rfl, rfl⟩
      obtain ⟨hx1, hcb1, hc1, hlb1, hub1, hm1, hcnt1, -, -, -⟩ := h1
      split at h
      · simp at h
      · rename_i s2 hs2
        simp only [pure, Except.pure] at h
        injection h with h; subst h
        unfold applyUpdate0 at hs2
        simp only [hU, Bool.false_eq_true, if_false, pure, Except.pure] at hs2
        injection hs2 with hs2; subst hs2
        have hat : CohAt u c s1.sf.scale s1.x (i.f0 * s1.sf.scale) (vscale e.2 s1.sf.scale) := by
          rw [hx1]
          refine ⟨⟨v, hv, by rw [hf, hmul1]⟩, g0, hg0, by rw [hg, vscale_one hmul1]⟩
        unfold initMemory
        split
        all_goals
          exact ⟨hlb1, hub1, hm1, rfl, hc1, hat, hcnt1, by simp [hcb1]⟩

end Lbfgsb
