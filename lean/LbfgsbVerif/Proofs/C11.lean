/-
  Lemmas for C11: the maximum feasible step (`max_allowed_steplength`) — level F (ordered
  field, exact arithmetic, all bounds finite: an infinite side imposes no constraint).
-/
import LbfgsbVerif.Model.Shell
import Mathlib.Algebra.Order.Field.Basic
import Mathlib.Tactic.Linarith
import Mathlib.Tactic.FieldSimp

namespace Lbfgsb
variable {α : Type} [Field α] [LinearOrder α] [IsStrictOrderedRing α]

/-- in an ordered field every number is finite -/
@[reducible] def fieldFloatLike : FloatLike α := ⟨id, fun _ => true⟩
attribute [local instance] fieldFloatLike

theorem fmin_le_left (a b : α) : fmin a b ≤ a := by
  unfold fmin; split
  · exact le_of_lt ‹_›
  · exact le_refl _

theorem fmin_le_right (a b : α) : fmin a b ≤ b := by
  unfold fmin; split
  · exact le_refl _
  · exact le_of_not_gt ‹_›

theorem foldl_fmin_le (l : List α) (a : α) : l.foldl fmin a ≤ a ∧ ∀ t ∈ l, l.foldl fmin a ≤ t := by
  induction l generalizing a with
  | nil => simp
  | cons b bs ih =>
    simp only [List.foldl_cons]
    obtain ⟨h1, h2⟩ := ih (fmin a b)
    refine ⟨le_trans h1 (fmin_le_left a b), ?_⟩
    intro t ht
    rcases List.mem_cons.1 ht with rfl | ht
    · exact le_trans h1 (fmin_le_right a _)
    · exact h2 t ht

/-- the step bound is below every candidate ratio and below the user's cap -/
theorem maxAllowedStep_le (x d lb ub : Vec α) (maxStep : α) (nit : Nat) (hn : nit ≠ 0) :
    maxAllowedStep x d lb ub maxStep nit ≤ maxStep ∧
    ∀ t ∈ maxAllowedStep.cand x d lb ub, maxAllowedStep x d lb ub maxStep nit ≤ t := by
  unfold maxAllowedStep
  simp only [hn, if_false]
  split
  · rename_i h; simp [h]
  · rename_i t ts h
    obtain ⟨h1, h2⟩ := foldl_fmin_le ts t
    refine ⟨fmin_le_left _ _, ?_⟩
    intro s hs
    rw [h] at hs
    rcases List.mem_cons.1 hs with rfl | hs
    · exact le_trans (fmin_le_right _ _) h1
    · exact le_trans (fmin_le_right _ _) (h2 s hs)

/-- `lb ≤ p ≤ ub` with `≤` (all the same length) -/
def InBoxF : Vec α → Vec α → Vec α → Prop
  | [], [], [] => True
  | l :: ls, u :: us, p :: ps => (l ≤ p ∧ p ≤ u) ∧ InBoxF ls us ps
  | _, _, _ => False

theorem feasible_of_le_cand (x d lb ub : Vec α) (hx : InBoxF lb ub x) (hd : d.length = x.length)
    (a : α) (h0 : 0 ≤ a) (ha : ∀ t ∈ maxAllowedStep.cand x d lb ub, a ≤ t) :
    InBoxF lb ub (vadd x (smul a d)) := by
  induction x generalizing d lb ub with
  | nil =>
    cases lb <;> cases ub <;> simp_all [InBoxF, vadd, vzip]
  | cons xi xs ih =>
    cases d with
    | nil => simp at hd
    | cons di ds =>
      cases lb with
      | nil => cases ub <;> simp [InBoxF] at hx
      | cons li ls =>
        cases ub with
        | nil => simp [InBoxF] at hx
        | cons ui us =>
          simp only [InBoxF] at hx
          obtain ⟨⟨hl, hu⟩, hrest⟩ := hx
          have hds : ds.length = xs.length := by simpa using hd
          have hrec : ∀ t ∈ maxAllowedStep.cand xs ds ls us, a ≤ t := by
            intro t ht
            apply ha
            simp only [maxAllowedStep.cand, FloatLike.isFinite, fieldFloatLike, if_true]
            split
            · exact ht
            · exact List.mem_cons_of_mem _ ht
          have ihh := ih ds ls us hrest hds hrec
          simp only [vadd, smul, vzip, List.map_cons, InBoxF]
          refine ⟨?_, ihh⟩
          by_cases hz : di = 0
          · subst hz; simp [hl, hu]
          · have hmem : (if 0 < di then (ui - xi) / di else (li - xi) / di)
                ∈ maxAllowedStep.cand (xi :: xs) (di :: ds) (li :: ls) (ui :: us) := by
              simp only [maxAllowedStep.cand]
              have : feq di 0 = false := by
                simp only [feq, Bool.and_eq_false_iff, Bool.not_eq_false', decide_eq_true_eq]
                rcases lt_or_gt_of_ne hz with h | h
                · left; exact h
                · right; exact h
              simp [this, FloatLike.isFinite, fieldFloatLike]
            have hat := ha _ hmem
            rcases lt_or_gt_of_ne hz with hneg | hpos
            · -- di < 0
              have hnp : ¬ (0 < di) := not_lt.2 (le_of_lt hneg)
              simp only [hnp, if_false] at hat
              have h1 : a * di ≥ li - xi := by
                have := (le_div_iff_of_neg hneg).1 hat
                linarith
              have h2 : a * di ≤ 0 := mul_nonpos_of_nonneg_of_nonpos h0 (le_of_lt hneg)
              constructor <;> linarith
            · simp only [hpos, if_true] at hat
              have h1 : a * di ≤ ui - xi := (le_div_iff₀ hpos).1 hat
              have h2 : 0 ≤ a * di := mul_nonneg h0 (le_of_lt hpos)
              constructor <;> linarith

end Lbfgsb
