/-
  C08: on the segment between the last breakpoint passed and the next one, the projected path is
  the straight line `x_cp + t·d` — coordinate lemma and its vector form.
-/
import LbfgsbVerif.Proofs.CauchyDeriv

namespace Lbfgsb
open Matrix
variable {K : Type} [Field K] [LinearOrder K] [IsStrictOrderedRing K]

/-- one coordinate: pinned variables stay on their bound, free ones move along `d` without
leaving `[l, u]` as long as `τ` does not exceed their breakpoint -/
theorem seg_coord (x g l u τ : K) (hl : l ≤ x) (hu : x ≤ u) (hτ : 0 ≤ τ) (xcp d : K)
    (h : (∃ v, C01.bp1 x g l u = some v ∧ 0 < v ∧ v ≤ τ ∧ d = 0 ∧ xcp = (if g < 0 then u else l)) ∨
         (xcp = x ∧ d = C01.d01 (C01.bp1 x g l u) g ∧ ∀ v, C01.bp1 x g l u = some v → v ≠ 0 → τ ≤ v)) :
    clip1 l u (x - τ * g) = xcp + τ * d := by
  have hlu : l ≤ u := le_trans hl hu
  have hp := path_coord x g l u τ hl hu hτ xcp d (by
    rcases h with h | ⟨h1, h2, -⟩
    · exact Or.inl h
    · exact Or.inr ⟨h1, h2⟩)
  rw [← hp]
  apply clip1_of_mem
  all_goals rw [not_lt]
  all_goals rcases h with ⟨v, hv, hv0, hvt, hd, hx⟩ | ⟨hx, hd, hle⟩
  · subst hd hx; rw [mul_zero, add_zero]; split <;> [exact hlu; exact le_refl _]
  · rw [hx, hd]
    unfold C01.bp1 at hle ⊢
    by_cases hg0 : g = 0
    · subst hg0
      rw [if_pos ((C01.feq_zero_iff (0 : K)).2 rfl)]
      simp only [C01.d01, neg_zero, mul_zero, add_zero]; exact hl
    · rw [if_neg (fun h => hg0 ((C01.feq_zero_iff g).1 h))] at hle ⊢
      by_cases hg : g < 0
      · rw [if_pos hg] at hle ⊢
        simp only [C01.d01]
        split
        · rw [mul_zero, add_zero]; exact hl
        · have : 0 ≤ τ * -g := mul_nonneg hτ (by linarith)
          linarith
      · have hgp : 0 < g := lt_of_le_of_ne (not_lt.1 hg) (Ne.symm hg0)
        rw [if_neg hg] at hle ⊢
        simp only [C01.d01]
        split
        · rw [mul_zero, add_zero]; exact hl
        · rename_i hz
          have hz' : (x - l) / g ≠ 0 := fun h => hz ((C01.feq_zero_iff _).2 h)
          have h1 := hle _ rfl hz'
          have : τ * g ≤ (x - l) / g * g := mul_le_mul_of_nonneg_right h1 (le_of_lt hgp)
          have e : (x - l) / g * g = x - l := by field_simp
          linarith
  · subst hd hx; rw [mul_zero, add_zero]; split <;> [exact le_refl _; exact hlu]
  · rw [hx, hd]
    unfold C01.bp1 at hle ⊢
    by_cases hg0 : g = 0
    · subst hg0
      rw [if_pos ((C01.feq_zero_iff (0 : K)).2 rfl)]
      simp only [C01.d01, neg_zero, mul_zero, add_zero]; exact hu
    · rw [if_neg (fun h => hg0 ((C01.feq_zero_iff g).1 h))] at hle ⊢
      by_cases hg : g < 0
      · rw [if_pos hg] at hle ⊢
        simp only [C01.d01]
        split
        · rw [mul_zero, add_zero]; exact hu
        · rename_i hz
          have hz' : (x - u) / g ≠ 0 := fun h => hz ((C01.feq_zero_iff _).2 h)
          have h1 := hle _ rfl hz'
          have : (x - u) / g * g ≤ τ * g := mul_le_mul_of_nonpos_right h1 (le_of_lt hg)
          have e : (x - u) / g * g = x - u := by field_simp
          linarith
      · have hgp : 0 < g := lt_of_le_of_ne (not_lt.1 hg) (Ne.symm hg0)
        rw [if_neg hg] at hle ⊢
        simp only [C01.d01]
        split
        · rw [mul_zero, add_zero]; exact hu
        · have : 0 ≤ τ * g := mul_nonneg hτ (le_of_lt hgp)
          linarith

/-- the projected steepest-descent path -/
def pathAt (i : CauchyIn K) (τ : K) : Vec K := clip (vsub i.x (smul τ i.g)) i.lb i.ub

theorem pathAt_length (i : CauchyIn K) (hg : i.g.length = i.x.length) (τ : K) :
    (pathAt i τ).length = i.x.length := by
  unfold pathAt
  rw [clip_length]
  simp only [vsub, smul, vzip_length', List.length_map, hg, Nat.min_self]

/-- vector form: between the last breakpoint passed and the next one the displacement along the
projected path is `z + (τ − t_old)·d` -/
theorem seg_vec (i : CauchyIn K) (n : Nat) (hn : i.x.length = n) (hx : InBoxF i.lb i.ub i.x)
    (hg : i.g.length = i.x.length) (s : CauchySt K) (P : List Nat)
    (hi : PathInv i (breakpoints i.x i.g i.lb i.ub) (cauchyD0 (breakpoints i.x i.g i.lb i.ub) i.g) s P)
    (τ : K) (hτ : s.tOld ≤ τ)
    (hnext : ∀ j, j < i.x.length → j ∉ P → ∀ v, (breakpoints i.x i.g i.lb i.ub).getD j none = some v →
      v ≠ 0 → τ ≤ v) :
    vec n (pathAt i τ) - vec n i.x = zOf i n s + (τ - s.tOld) • vec n s.d := by
  obtain ⟨hll, hul⟩ := inBoxF_lengths hx
  have hbt : (breakpoints i.x i.g i.lb i.ub).length = i.x.length :=
    C08.breakpoints_length _ _ _ _ hg hll hul
  have htau : 0 ≤ τ := le_trans hi.tOld_nonneg hτ
  have l2 : (vsub i.x (smul τ i.g)).length = i.x.length := by
    simp only [vsub, smul, vzip_length', List.length_map, hg, Nat.min_self]
  funext r
  have hj : (r : Nat) < i.x.length := by rw [hn]; exact r.2
  simp only [Pi.sub_apply, Pi.add_apply, Pi.smul_apply, smul_eq_mul, zOf, vec, pathAt]
  rw [getD_clip _ _ _ _ r (by rw [l2]; exact hj) (by rw [l2]; exact hll) (by rw [l2]; exact hul)]
  simp only [vsub, smul]
  rw [getD_vzip _ _ _ _ r hj (by simp [hg, hj]), getD_map _ _ _ r (by rw [hg]; exact hj)]
  obtain ⟨hlj, huj⟩ := inBoxF_getD hx r hj
  have key := seg_coord (i.x.getD r 0) (i.g.getD r 0) (i.lb.getD r 0) (i.ub.getD r 0) τ hlj huj htau
    (s.xcp.getD r 0) (s.d.getD r 0) (by
      by_cases hjP : (r : Nat) ∈ P
      · left
        obtain ⟨-, v, hv, hv0, hvt, hdj, hxj⟩ := hi.pinned r hjP
        refine ⟨v, ?_, hv0, le_trans hvt hτ, hdj, ?_⟩
        · rw [← getD_breakpoints _ _ _ _ r hj hg hll hul]; exact hv
        · rw [hxj]; rfl
      · right
        obtain ⟨h1', h2'⟩ := hi.free r hj hjP
        refine ⟨h1', ?_, ?_⟩
        · rw [h2', getD_cauchyD0 _ _ r (by rw [hg]; exact hj) (by rw [hbt, hg]),
            getD_breakpoints _ _ _ _ r hj hg hll hul]
        · intro v hv hv0
          exact hnext r hj hjP v (by rw [getD_breakpoints _ _ _ _ r hj hg hll hul]; exact hv) hv0)
  rw [key]
  ring

end Lbfgsb
