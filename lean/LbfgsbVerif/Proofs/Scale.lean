/-
  Simulation behind C17: a run with a gradient scaler returning `s` (objective `f`, gradient `∇f`)
  and a run without scaler on the explicitly scaled objective (`s·f`, `s·∇f`) go through states
  that are equal except inside the function wrapper, where run A holds the unscaled values and
  the factor `s`, run B the scaled values and the factor `1`. Level U + the IEEE-exact law
  `a * 1 = a`; callable gradient, no target, no redefinition, fresh run.
-/
import LbfgsbVerif.Model.Shell

namespace Lbfgsb
variable {α ε δ : Type}

/-- closes goals that are `x = x` or have been simplified to `True` -/
macro "rflt" : tactic => `(tactic| first | rfl | trivial)

/-- relation between results in `Except` -/
def RelE {T U : Type} (R : T → U → Prop) : Except ε T → Except ε U → Prop
  | .error e, .error e' => e = e'
  | .ok a, .ok b => R a b
  | _, _ => False

theorem RelE.bind {T U T' U' : Type} {R : T → U → Prop} {Q : T' → U' → Prop}
    {ra : Except ε T} {rb : Except ε U} {ka : T → Except ε T'} {kb : U → Except ε U'}
    (h : RelE R ra rb) (hk : ∀ a b, R a b → RelE Q (ka a) (kb b)) : RelE Q (ra >>= ka) (rb >>= kb) := by
  cases ra <;> cases rb <;> simp only [RelE] at h
  · subst h; simp [RelE, Bind.bind, Except.bind]
  · exact hk _ _ h

section
variable [Mul α] [OfNat α 1]

/-- the user of run B: objective and gradient multiplied by `s` -/
def scaledSF (u : SFUser α ε) (s : α) : SFUser α ε :=
  { F := fun x => (u.F x).map (· * s), Gr := fun x => (u.Gr x).map (vscale · s),
    fdPts := u.fdPts, fdComb := u.fdComb }

def scaledUser (u : User α ε) (s : α) : User α ε := { u with toSFUser := scaledSF u.toSFUser s }

/-- wrapper of run A (unscaled cache) against wrapper of run B (scaled cache) -/
structure SRel (s sA : α) (a b : SF α) : Prop where
  mode_a : a.mode = .callable
  mode_b : b.mode = .callable
  lb : a.lb = b.lb
  ub : a.ub = b.ub
  x : a.x = b.x
  fUpd : a.fUpd = b.fUpd
  gUpd : a.gUpd = b.gUpd
  nfev : a.nfev = b.nfev
  ngev : a.ngev = b.ngev
  f : a.fUpd = true → b.f = a.f * s
  g : a.gUpd = true → b.g = vscale a.g s
  sa : a.scale = sA
  sb : b.scale = 1

end

section sf
variable [Mul α] [LT α] [DecidableLT α] [OfNat α 0] [OfNat α 1]

theorem SRel.updateX {s sA : α} {a b : SF α} (h : SRel s sA a b) (x : Vec α) : SRel s sA (a.updateX x) (b.updateX x) := by
  unfold SF.updateX
  rw [← h.x]
  split
  · exact h
  · exact ⟨h.mode_a, h.mode_b, h.lb, h.ub, rfl, rfl, rfl, h.nfev, h.ngev, by simp, by simp, h.sa, h.sb⟩

theorem SRel.updFun {s sA : α} (u : SFUser α ε) {a b : SF α} (h : SRel s sA a b) :
    RelE (fun p q => SRel s sA p q ∧ p.fUpd = true ∧ p.x = a.x) (a.updFun u) (b.updFun (scaledSF u s)) := by
  unfold SF.updFun
  rw [← h.fUpd]
  split
  · exact ⟨h, ‹_›, rfl⟩
  · simp only [SF.callF, scaledSF, bind, Except.bind, pure, Except.pure]
    rw [← h.x]
    cases u.F a.x with
    | error e => simp [RelE, Except.map]
    | ok v =>
      simp only [Except.map, RelE]
      exact ⟨⟨h.mode_a, h.mode_b, h.lb, h.ub, rfl, rfl, h.gUpd, by simp [h.nfev], h.ngev, fun _ => rfl,
        h.g, h.sa, h.sb⟩, by rflt, by rflt⟩

theorem SRel.updGrad {s sA : α} (u : SFUser α ε) {a b : SF α} (h : SRel s sA a b) :
    RelE (fun p q => SRel s sA p q ∧ p.gUpd = true ∧ p.fUpd = a.fUpd ∧ p.x = a.x ∧ p.f = a.f) (a.updGrad u) (b.updGrad (scaledSF u s)) := by
  unfold SF.updGrad
  rw [← h.gUpd]
  split
  · exact ⟨h, ‹_›, rfl, rfl, rfl⟩
  · rw [h.mode_a, h.mode_b]
    simp only [scaledSF, bind, Except.bind, pure, Except.pure]
    rw [← h.x]
    cases u.Gr a.x with
    | error e => simp [RelE, Except.map]
    | ok v =>
      simp only [Except.map, RelE]
      exact ⟨⟨rfl, rfl, h.lb, h.ub, rfl, h.fUpd, rfl, h.nfev, by simp [h.ngev], h.f,
        fun _ => rfl, h.sa, h.sb⟩, by rflt, by rflt, by rflt, by rflt⟩

theorem vscale_one' (hmul1 : ∀ a : α, a * 1 = a) (v : Vec α) : vscale v 1 = v := by
  induction v with
  | nil => rfl
  | cons a as ih => simp only [vscale, List.map_cons, hmul1] at ih ⊢; rw [ih]

theorem SRel.funAndGrad {s : α} (hmul1 : ∀ a : α, a * 1 = a) (u : SFUser α ε) {a b : SF α} (h : SRel s s a b)
    (x : Vec α) :
    RelE (fun p q => SRel s s p.1 q.1 ∧ p.2 = q.2) (a.funAndGrad u x) (b.funAndGrad (scaledSF u s) x) := by
  unfold SF.funAndGrad
  apply RelE.bind ((h.updateX x).updFun u)
  rintro a1 b1 ⟨h1, hf1, -⟩
  apply RelE.bind (h1.updGrad u)
  rintro a2 b2 ⟨h2, hg2, hf2, -, -⟩
  simp only [pure, Except.pure, RelE]
  refine ⟨h2, ?_⟩
  rw [h2.f (by rw [hf2, hf1]), h2.g hg2, h2.sa, h2.sb, hmul1, vscale_one' hmul1]

theorem veq_refl' (hir : ∀ a : α, ¬ a < a) (v : Vec α) : veq v v = true := by
  induction v with
  | nil => rfl
  | cons a as ih => simp [veq, feq, hir a, ih]

theorem updateX_self (hir : ∀ a : α, ¬ a < a) (a : SF α) : a.updateX a.x = a := by
  unfold SF.updateX; rw [veq_refl' hir]; rfl

theorem updFun_x (u : SFUser α ε) (a a' : SF α) (h : a.updFun u = .ok a') : a'.x = a.x := by
  unfold SF.updFun at h
  split at h
  · simp only [pure, Except.pure, Except.ok.injEq] at h; rw [← h]
  · simp only [SF.callF, bind, Except.bind, pure, Except.pure] at h
    cases hF : u.F a.x with
    | error e => rw [hF] at h; simp at h
    | ok v => rw [hF] at h; simp only [Except.ok.injEq] at h; rw [← h]

theorem SRel.funv {s sA : α} (u : SFUser α ε) {a b : SF α} (h : SRel s sA a b) (x : Vec α) :
    RelE (fun p q => SRel s sA p.1 q.1 ∧ p.1.fUpd = true ∧ p.2 = p.1.f * sA ∧ q.2 = p.1.f * s * 1 ∧
        p.1.x = (a.updateX x).x)
      (a.funv u x) (b.funv (scaledSF u s) x) := by
  unfold SF.funv
  apply RelE.bind ((h.updateX x).updFun u)
  rintro a1 b1 ⟨h1, hf1, hx1⟩
  simp only [pure, Except.pure, RelE]
  exact ⟨h1, hf1, by rw [h1.sa], by rw [h1.f hf1, h1.sb], hx1⟩

theorem SRel.gradv {s sA : α} (u : SFUser α ε) {a b : SF α} (h : SRel s sA a b) (x : Vec α) :
    RelE (fun p q => SRel s sA p.1 q.1 ∧ p.1.gUpd = true ∧ p.1.fUpd = (a.updateX x).fUpd ∧
        p.1.x = (a.updateX x).x ∧ p.1.f = (a.updateX x).f ∧
        p.2 = vscale p.1.g sA ∧ q.2 = vscale (vscale p.1.g s) 1)
      (a.gradv u x) (b.gradv (scaledSF u s) x) := by
  unfold SF.gradv
  apply RelE.bind ((h.updateX x).updGrad u)
  rintro a1 b1 ⟨h1, hg1, hf1, hx1, hff1⟩
  simp only [pure, Except.pure, RelE]
  exact ⟨h1, hg1, hf1, hx1, hff1, by rw [h1.sa], by rw [h1.g hg1, h1.sb]⟩

end sf

section driver
variable [Add α] [Sub α] [Mul α] [Div α] [Neg α] [LT α] [DecidableLT α] [OfNat α 0] [OfNat α 1] [FloatLike α]

/-- line-search states of the two runs: equal except for the wrapper -/
def LRel (s : α) (a b : LS α δ) : Prop := ∃ sfb, b = { a with sf := sfb } ∧ SRel s s a.sf sfb

/-- driver states of the two runs: equal except for the wrapper; no target -/
def TRel (s : α) (a b : St α) : Prop := ∃ sfb, b = { a with sf := sfb } ∧ SRel s s a.sf sfb ∧ a.ftarget = none

theorem TRel.result {s : α} {a b : St α} (h : TRel s a b) : a.result = b.result := by
  obtain ⟨sfb, rfl, hsf, -⟩ := h
  simp only [St.result, hsf.nfev, hsf.ngev]

theorem lsStep_rel {s : α} (hmul1 : ∀ a : α, a * 1 = a) (u : User α ε) (o : Oracles α δ) (x0 d lb ub : Vec α)
    {l l' : LS α δ} (h : LRel s l l') :
    RelE (fun p q => LRel s p.1 q.1 ∧ p.2 = q.2) (lsStep u o x0 d lb ub l)
      (lsStep (scaledUser u s) o x0 d lb ub l') := by
  obtain ⟨sfb, rfl, hsf⟩ := h
  unfold lsStep
  dsimp only
  split
  · apply RelE.bind (hsf.funAndGrad hmul1 u.toSFUser _)
    rintro ⟨a1, a2, a3⟩ ⟨b1, b2, b3⟩ ⟨h1, h2⟩
    simp only [Prod.mk.injEq] at h2
    obtain ⟨e2, e3⟩ := h2
    subst e2 e3
    simp only [pure, Except.pure, RelE]
    split
    · exact ⟨⟨b1, rfl, h1⟩, by first | rfl | trivial⟩
    · exact ⟨⟨b1, rfl, h1⟩, by first | rfl | trivial⟩
  · simp only [pure, Except.pure, RelE]
    exact ⟨⟨sfb, rfl, hsf⟩, by first | rfl | trivial⟩

theorem lsLoop_rel {s : α} (hmul1 : ∀ a : α, a * 1 = a) (u : User α ε) (o : Oracles α δ) (x0 d lb ub : Vec α) :
    ∀ (fuel : Nat) {l l' : LS α δ}, LRel s l l' →
      RelE (fun p q => LRel s p.1 q.1 ∧ p.2 = q.2) (lsLoop u o x0 d lb ub fuel l)
        (lsLoop (scaledUser u s) o x0 d lb ub fuel l') := by
  intro fuel
  induction fuel with
  | zero => intro l l' h; simp only [lsLoop, pure, Except.pure, RelE]; exact ⟨h, by first | rfl | trivial⟩
  | succ n ih =>
    intro l l' h
    simp only [lsLoop]
    apply RelE.bind (lsStep_rel hmul1 u o x0 d lb ub h)
    rintro ⟨p1, p2⟩ ⟨q1, q2⟩ ⟨h1, h2⟩
    simp only at h2
    subst h2
    dsimp only
    split
    · exact ih h1
    · simp only [pure, Except.pure, RelE]; exact ⟨h1, by first | rfl | trivial⟩

/-- run A's configuration has the scaler, run B's does not; nothing else differs -/
def CfgAB (c c' : Cfg α) : Prop := c' = { c with hasScaler := c'.hasScaler }

theorem lineSearch_rel {s : α} (hmul1 : ∀ a : α, a * 1 = a) (u : User α ε) (o : Oracles α δ) (c c' : Cfg α)
    (hc : CfgAB c c') (x0 : Vec α) (f0 : α) (g0 d : Vec α) (nit : Nat)
    {sf sf' : SF α} (h : SRel s s sf sf') (maxIter : Nat) (olog : List (OReq α)) :
    RelE (fun p q => SRel s s p.1 q.1 ∧ p.2 = q.2) (lineSearch u o c x0 f0 g0 d nit sf maxIter olog)
      (lineSearch (scaledUser u s) o c' x0 f0 g0 d nit sf' maxIter olog) := by
  rw [hc]
  unfold lineSearch
  dsimp only
  refine RelE.bind (lsLoop_rel hmul1 u o x0 d c.lb c.ub maxIter ?hl) ?hk
  case hl => exact ⟨sf', rfl, h⟩
  rintro ⟨p1, p2⟩ ⟨q1, q2⟩ ⟨⟨sfb, rfl, hsf⟩, h2⟩
  simp only at h2
  subst h2
  dsimp only
  split
  · simp only [pure, Except.pure, RelE]; exact ⟨hsf, by first | rfl | trivial⟩
  · split
    · split
      · simp only [pure, Except.pure, RelE]; exact ⟨hsf, by first | rfl | trivial⟩
      · simp only [pure, Except.pure, RelE]; exact ⟨hsf, by first | rfl | trivial⟩
    · simp only [pure, Except.pure]
      split
      · simp only [RelE]; exact ⟨hsf, by first | rfl | trivial⟩
      · simp only [RelE]; exact ⟨hsf, by first | rfl | trivial⟩

theorem stopTests_rel {s : α} (c c' : Cfg α) (hc : CfgAB c c') {a b : St α} (f0Old : α) (h : TRel s a b) :
    TRel s (stopTests c a f0Old).1 (stopTests c' b f0Old).1 ∧
    (stopTests c a f0Old).2 = (stopTests c' b f0Old).2 := by
  obtain ⟨sfb, rfl, hsf, hnt⟩ := h
  rw [hc]
  have ht : ∀ v, targetReached v a.ftarget = false := by intro v; rw [hnt]; rfl
  unfold stopTests
  dsimp only
  simp only [ht, Bool.false_eq_true, if_false]
  split
  · exact ⟨⟨sfb, rfl, hsf, hnt⟩, rfl⟩
  · exact ⟨⟨sfb, rfl, hsf, hnt⟩, rfl⟩

theorem iterFail_rel {s : α} {a b : St α} (h : TRel s a b) :
    TRel s (iterFail a).1 (iterFail b).1 ∧ (iterFail a).2 = (iterFail b).2 := by
  obtain ⟨sfb, rfl, hsf, hnt⟩ := h
  unfold iterFail
  dsimp only
  split
  · exact ⟨⟨sfb, rfl, hsf, hnt⟩, rfl⟩
  · exact ⟨⟨sfb, rfl, hsf, hnt⟩, rfl⟩

theorem memStep_rel {s : α} (c c' : Cfg α) (hc : CfgAB c c') {a b : St α} (h : TRel s a b) :
    TRel s (memStep c a) (memStep c' b) := by
  obtain ⟨sfb, rfl, hsf, hnt⟩ := h
  rw [hc]
  exact ⟨sfb, rfl, hsf, hnt⟩

theorem classify_rel {s : α} (c c' : Cfg α) (hc : CfgAB c c') {a b : St α} (h : TRel s a b) :
    TRel s (classify c a) (classify c' b) := by
  obtain ⟨sfb, rfl, hsf, hnt⟩ := h
  rw [hc]
  unfold classify
  dsimp only
  rw [← hsf.nfev]
  split
  · exact ⟨sfb, rfl, hsf, hnt⟩
  · split
    · exact ⟨sfb, rfl, hsf, hnt⟩
    · split
      · exact ⟨sfb, rfl, hsf, hnt⟩
      · exact ⟨sfb, rfl, hsf, hnt⟩

theorem guard_rel {s : α} (c c' : Cfg α) (hc : CfgAB c c') {a b : St α} (h : TRel s a b) :
    guard c a = guard c' b := by
  obtain ⟨sfb, rfl, hsf, hnt⟩ := h
  rw [hc]
  unfold guard
  dsimp only
  rw [← hsf.nfev]

theorem doCallback_rel {s : α} (u : User α ε) (c c' : Cfg α) (hc : CfgAB c c') {a b : St α} (h : TRel s a b) :
    RelE (TRel s) (doCallback u c a) (doCallback (scaledUser u s) c' b) := by
  have hres := h.result
  obtain ⟨sfb, rfl, hsf, hnt⟩ := h
  rw [hc]
  unfold doCallback
  dsimp only
  rw [← hres]
  split
  · simp only [scaledUser, bind, Except.bind]
    cases u.callback { a.result with nit := a.nit + 1 } with
    | error e => simp [RelE]
    | ok stopNow =>
      simp only [pure, Except.pure, RelE, St.logCall]
      have hsf' : SRel s s { a.sf with log := a.sf.log ++ [Call.mk .callback a.x] }
          { sfb with log := sfb.log ++ [Call.mk .callback a.x] } :=
        ⟨hsf.mode_a, hsf.mode_b, hsf.lb, hsf.ub, hsf.x, hsf.fUpd, hsf.gUpd, hsf.nfev, hsf.ngev, hsf.f, hsf.g,
         hsf.sa, hsf.sb⟩
      split
      · exact ⟨_, rfl, hsf', hnt⟩
      · exact ⟨_, rfl, hsf', hnt⟩
  · simp only [pure, Except.pure, RelE]; exact ⟨sfb, rfl, hsf, hnt⟩

theorem afterEval_rel {s : α} (u : User α ε) (c c' : Cfg α) (hc : CfgAB c c') (hU : c.hasUpdate = false)
    {a b : St α} (f0Old : α) (h : TRel s a b) :
    RelE (fun p q => TRel s p.1 q.1 ∧ p.2 = q.2) (afterEval u c a f0Old)
      (afterEval (scaledUser u s) c' b f0Old) := by
  have hU' : c'.hasUpdate = false := by rw [hc]; exact hU
  unfold afterEval
  simp only [hU, hU', Bool.false_eq_true, if_false, pure, Except.pure, RelE]
  exact stopTests_rel c c' hc f0Old h

theorem iterStep_rel {s : α} (hmul1 : ∀ a : α, a * 1 = a) (u : User α ε) (c c' : Cfg α) (hc : CfgAB c c')
    (hU : c.hasUpdate = false) {a b : St α} (d : Vec α) (stp f0Old : α) (h : TRel s a b) :
    RelE (fun p q => TRel s p.1 q.1 ∧ p.2 = q.2) (iterStep u c a d stp f0Old)
      (iterStep (scaledUser u s) c' b d stp f0Old) := by
  obtain ⟨sfb, rfl, hsf, hnt⟩ := h
  have hlb : c'.lb = c.lb := by rw [hc]
  have hub : c'.ub = c.ub := by rw [hc]
  unfold iterStep
  dsimp only
  rw [hlb, hub]
  apply RelE.bind (hsf.funAndGrad hmul1 u.toSFUser _)
  rintro ⟨a1, a2, a3⟩ ⟨b1, b2, b3⟩ ⟨h1, h2⟩
  simp only [Prod.mk.injEq] at h2
  obtain ⟨e2, e3⟩ := h2
  subst e2 e3
  dsimp only
  refine RelE.bind (afterEval_rel u c c' hc hU f0Old ?hs) ?hk
  case hs => exact ⟨b1, rfl, h1, hnt⟩
  rintro ⟨r1, r2⟩ ⟨r1', r2'⟩ ⟨hr, e⟩
  simp only at e
  subst e
  dsimp only
  split
  · simp only [pure, Except.pure, RelE]; exact ⟨hr, by first | rfl | trivial⟩
  · apply RelE.bind (doCallback_rel u c c' hc (memStep_rel c c' hc hr))
    rintro w w' ⟨sfw, rfl, hsw, hnw⟩
    simp only [pure, Except.pure, RelE]
    exact ⟨⟨sfw, rfl, hsw, hnw⟩, by first | rfl | trivial⟩

theorem iterBody_rel {s : α} (hmul1 : ∀ a : α, a * 1 = a) (u : User α ε) (o : Oracles α δ) (c c' : Cfg α)
    (hc : CfgAB c c') (hU : c.hasUpdate = false) {a b : St α} (h : TRel s a b) :
    RelE (fun p q => TRel s p.1 q.1 ∧ p.2 = q.2) (iterBody u o c a) (iterBody (scaledUser u s) o c' b) := by
  obtain ⟨sfb, rfl, hsf, hnt⟩ := h
  have hml : c'.maxls = c.maxls := by rw [hc]
  have hmf : c'.maxfun = c.maxfun := by rw [hc]
  unfold iterBody
  dsimp only
  rw [hml, hmf, ← hsf.nfev]
  apply RelE.bind (lineSearch_rel hmul1 u o c c' hc _ _ _ _ _ hsf _ _)
  rintro ⟨p1, p2, p3⟩ ⟨q1, q2, q3⟩ ⟨h1, h2⟩
  simp only [Prod.mk.injEq] at h2
  obtain ⟨e2, e3⟩ := h2
  subst e2 e3
  dsimp only
  cases p2 with
  | none =>
    simp only [pure, Except.pure, RelE]
    exact iterFail_rel ⟨q1, rfl, h1, hnt⟩
  | some stp =>
    exact iterStep_rel hmul1 u c c' hc hU _ stp a.f ⟨q1, rfl, h1, hnt⟩

theorem mainLoop_rel {s : α} (hmul1 : ∀ a : α, a * 1 = a) (u : User α ε) (o : Oracles α δ) (c c' : Cfg α)
    (hc : CfgAB c c') (hU : c.hasUpdate = false) :
    ∀ (fuel : Nat) {a b : St α}, TRel s a b →
      RelE (TRel s) (mainLoop u o c fuel a) (mainLoop (scaledUser u s) o c' fuel b) := by
  intro fuel
  induction fuel with
  | zero => intro a b h; simp only [mainLoop, pure, Except.pure, RelE]; exact h
  | succ n ih =>
    intro a b h
    simp only [mainLoop]
    rw [guard_rel c c' hc h]
    split
    · apply RelE.bind (iterBody_rel hmul1 u o c c' hc hU h)
      rintro ⟨p1, p2⟩ ⟨q1, q2⟩ ⟨h1, h2⟩
      simp only at h2
      subst h2
      cases p2 with
      | brk => simp only [pure, Except.pure, RelE]; exact h1
      | next => exact ih h1
    · simp only [pure, Except.pure, RelE]; exact h

/-- hypotheses of the equivalence -/
structure ScaleCtx (u : User α ε) (c c' : Cfg α) (s : α) : Prop where
  cfg : c' = { c with hasScaler := false }
  scaler_on : c.hasScaler = true
  fresh : c.checkpoint = none
  noTarget : c.ftarget = none
  callable : c.mode = .callable
  noUpdate : c.hasUpdate = false
  scaler : ∀ x g, u.scaler x g = .ok s
  mul_one : ∀ a : α, a * 1 = a

/-- `Init` of the two runs after the first evaluation -/
def IRel (s : α) (i j : Init α) : Prop :=
  ∃ sfb, j = { i with sf := sfb, f0 := i.sf.f * s * 1 } ∧ SRel s 1 i.sf sfb ∧ i.sf.fUpd = true ∧
    i.f0 = i.sf.f * 1 ∧ i.ftarget = none ∧ i.X = [] ∧ i.G = [] ∧ i.sf.x = i.x

theorem evalThresh_rel {s : α} (fn : Unit → Except ε α) (k : CallKind) {a b : SF α} (h : SRel s 1 a b)
    (t : Thresh α) :
    RelE (fun p q => SRel s 1 p.1 q.1 ∧ p.2 = q.2 ∧ p.1.fUpd = a.fUpd ∧ p.1.f = a.f ∧ p.1.x = a.x)
      (evalThresh fn k a t) (evalThresh fn k b t) := by
  cases t with
  | const v => simp only [evalThresh, pure, Except.pure, RelE]; exact ⟨h, by rflt, by rflt, by rflt, by rflt⟩
  | callable =>
    simp only [evalThresh, bind, Except.bind]
    cases fn () with
    | error e => simp [RelE]
    | ok v =>
      simp only [pure, Except.pure, RelE]
      exact ⟨⟨h.mode_a, h.mode_b, h.lb, h.ub, h.x, h.fUpd, h.gUpd, h.nfev, h.ngev, h.f, h.g, h.sa, h.sb⟩,
        by rflt, by rflt, by rflt, by rflt⟩

theorem initEval_rel {s : α} (u : User α ε) (c c' : Cfg α) (hx : ScaleCtx u c c' s) :
    RelE (IRel s) (initEval u c) (initEval (scaledUser u s) c') := by
  rw [hx.cfg]
  unfold initEval firstEval evalFtarget
  simp only [hx.fresh, hx.noTarget, hx.callable]
  have h0 : SRel s 1 (SF.new .callable (clip c.x0 c.lb c.ub) c.lb c.ub : SF α)
      (SF.new .callable (clip c.x0 c.lb c.ub) c.lb c.ub : SF α) :=
    ⟨rfl, rfl, rfl, rfl, rfl, rfl, rfl, rfl, rfl, by simp [SF.new], by simp [SF.new], rfl, rfl⟩
  apply RelE.bind (h0.funv u.toSFUser _)
  rintro ⟨a1, a2⟩ ⟨b1, b2⟩ ⟨h1, hf, ea, eb, hxx⟩
  simp only [pure, Except.pure, bind, Except.bind]
  have hxa : a1.x = clip c.x0 c.lb c.ub := by
    rw [hxx]; unfold SF.updateX; split <;> rfl
  refine RelE.bind (evalThresh_rel (s := s) u.gtolFn .gtol h1 c.gtol) ?_
  rintro ⟨g1, g2⟩ ⟨g1', g2'⟩ ⟨h2, e2, e3, e4, e5⟩
  simp only at e2 e3 e4 e5
  subst e2
  simp only [RelE, IRel]
  refine ⟨g1', ?_, h2, by rw [e3]; exact hf, ?_, by rflt, by rflt, by rflt, by rw [e5]; exact hxa⟩
  · simp only [Init.mk.injEq, true_and, and_true]
    rw [e4]; exact eb
  · rw [e4]; exact ea

theorem prepare_rel {s : α} (hir : ∀ a : α, ¬ a < a) (u : User α ε) (c c' : Cfg α) (hx : ScaleCtx u c c' s)
    {i j : Init α} (h : IRel s i j) :
    RelE (TRel s) (prepare u c i) (prepare (scaledUser u s) c' j) := by
  obtain ⟨sfb, rfl, hsf, hfu, hf0, hnt, hX, hG, hxx⟩ := h
  rw [hx.cfg]
  unfold prepare firstGrad applyScaler applyUpdate0 initMemory
  simp only [hx.fresh, hx.noUpdate, hx.scaler_on, Bool.false_eq_true, if_false, if_true]
  have hup : i.sf.updateX i.x = i.sf := by rw [← hxx]; exact updateX_self hir i.sf
  refine RelE.bind (hsf.gradv u.toSFUser i.x) ?_
  rintro ⟨a1, ga⟩ ⟨b1, gb⟩ ⟨h1, hg1, hf1, hx1, hff1, ea, eb⟩
  rw [hup] at hf1 hx1 hff1
  simp only at ea eb hg1 hf1 hx1 hff1
  simp only [scaledUser, bind, Except.bind, pure, Except.pure, St.logCall, Init.state, hx.scaler]
  simp only [hX, hG, List.length_nil, Nat.lt_irrefl, if_false, gt_iff_lt, RelE]
  have hsf' : SRel s s { a1 with scale := s, log := a1.log ++ [Call.mk .scaler i.x] } b1 :=
    ⟨h1.mode_a, h1.mode_b, h1.lb, h1.ub, h1.x, h1.fUpd, h1.gUpd, h1.nfev, h1.ngev, h1.f, h1.g, rfl, h1.sb⟩
  refine ⟨b1, ?_, hsf', hnt⟩
  have e1 : i.f0 * s = i.sf.f * s * 1 * b1.scale := by
    rw [hf0, h1.sb, hx.mul_one, hx.mul_one, hx.mul_one]
  have e2 : vscale ga s = vscale gb b1.scale := by
    rw [ea, eb, h1.sb, vscale_one' hx.mul_one, vscale_one' hx.mul_one, vscale_one' hx.mul_one]
  simp only [St.mk.injEq, true_and, and_true]
  exact ⟨e1.symm, e2.symm, by rw [e2]⟩

/-- **the simulation**: the run with a scaler returning `s` and the run on the explicitly scaled
objective return the same result (same error, or equal `x, fun, jac, counters, message, pairs`) -/
theorem minimize_scaled {s : α} (hir : ∀ a : α, ¬ a < a) (u : User α ε) (o : Oracles α δ) (c c' : Cfg α)
    (hx : ScaleCtx u c c' s) :
    RelE (fun p q => p.1 = q.1) (minimize u o c) (minimize (scaledUser u s) o c') := by
  have hAB : CfgAB c c' := by unfold CfgAB; rw [hx.cfg]
  have hmi : c'.maxiter = c.maxiter := by rw [hx.cfg]
  unfold minimize
  refine RelE.bind (initEval_rel u c c' hx) ?_
  rintro i j hij
  have hnt : i.ftarget = none ∧ j.ftarget = none := by
    obtain ⟨sfb, rfl, -, -, -, hnt, -⟩ := hij
    exact ⟨hnt, hnt⟩
  simp only [hnt.1, hnt.2, targetReached, Bool.false_eq_true, if_false]
  refine RelE.bind (prepare_rel hir u c c' hx hij) ?_
  rintro s0 t0 h0
  have hn : s0.nit = t0.nit := by obtain ⟨sfb, rfl, -, -⟩ := h0; rfl
  rw [hmi, ← hn]
  refine RelE.bind (mainLoop_rel hx.mul_one u o c c' hAB hx.noUpdate _ h0) ?_
  rintro s1 t1 h1
  simp only [pure, Except.pure, RelE]
  exact (classify_rel c c' hAB h1).result

end driver
end Lbfgsb
