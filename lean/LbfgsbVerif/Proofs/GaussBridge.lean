/-
  The Gauss–Jordan elimination of the model in matrix form, and what it gives for the kernels:
  the "exact solve" hypotheses of the Cauchy / subspace contexts (`QCtx.hmv`, `SubCtx.hmvc`, `SubCtx.hsolve`)
  follow from the computable condition "no pivot of the elimination vanishes".
-/
import LbfgsbVerif.Proofs.Gauss
import LbfgsbVerif.Proofs.SubspaceBridge

set_option linter.unusedSectionVars false

namespace Lbfgsb.Gauss
open Lbfgsb Matrix
variable {K : Type} [Field K] [LinearOrder K] [IsStrictOrderedRing K]

/-- `A x = b` in matrix form -/
theorem gaussSolve_mulVec (A : List (Vec K)) (b : Vec K) (k : Nat) (hb : b.length = k) (hA : A.length = k)
    (hrow : ∀ i, i < k → (A.getD i []).length = k) (hp : ∀ p ∈ gjPivots k k 0 (augment A b), p ≠ 0) :
    (gaussSolve A b).length = k ∧ wmat k k A *ᵥ vec k (gaussSolve A b) = vec k b := by
  obtain ⟨hl, hs⟩ := gaussSolve_solves A b k hb hA hrow hp
  refine ⟨hl, ?_⟩
  funext r
  have := hs r r.2
  simp only [mulVec, dotProduct, wmat, vec]
  rw [← this, Finset.sum_range]

/-! ### the pivots do not depend on the right-hand side -/

/-- two augmented matrices with the same left block -/
structure SameLeft (n : Nat) (M M' : List (Vec K)) : Prop where
  wf : WF n M
  wf' : WF n M'
  eq : ∀ r, r < n → ∀ j, j < n → ent M r j = ent M' r j

theorem pivotIdx_congr {n : Nat} {M M' : List (Vec K)} (h : SameLeft n M M') (k : Nat) (hk : k < n) :
    pivotIdx M k n = pivotIdx M' k n := by
  unfold pivotIdx
  have : ∀ (l : List Nat) (p0 : Nat), (∀ i ∈ l, k ≤ i ∧ i < n) → k ≤ p0 ∧ p0 < n →
      l.foldl (fun piv i => if fabs ((M.getD piv []).getD k 0) < fabs ((M.getD i []).getD k 0) then i else piv) p0 =
      l.foldl (fun piv i => if fabs ((M'.getD piv []).getD k 0) < fabs ((M'.getD i []).getD k 0) then i else piv) p0 := by
    intro l
    induction l with
    | nil => intro p0 _ _; rfl
    | cons a t ih =>
      intro p0 hl h0
      simp only [List.foldl_cons]
      have ha := hl a List.mem_cons_self
      have e1 : (M.getD p0 []).getD k 0 = (M'.getD p0 []).getD k 0 := h.eq p0 h0.2 k hk
      have e2 : (M.getD a []).getD k 0 = (M'.getD a []).getD k 0 := h.eq a ha.2 k hk
      rw [e1, e2]
      apply ih
      · intro i hi; exact hl i (List.mem_cons_of_mem _ hi)
      · split
        · exact ha
        · exact h0
  apply this
  · intro i hi
    rw [List.mem_range'_1] at hi
    omega
  · exact ⟨Nat.le_refl _, hk⟩

theorem pivotOf_congr {n : Nat} {M M' : List (Vec K)} (h : SameLeft n M M') (k : Nat) (hk : k < n) :
    pivotOf M k n = pivotOf M' k n := by
  obtain ⟨hp1, hp2⟩ := pivotIdx_range M k n hk
  have e := pivotIdx_congr h k hk
  show ent (swapRows M k (pivotIdx M k n)) k k = ent (swapRows M' k (pivotIdx M' k n)) k k
  rw [← e, swap_ent h.wf k _ hk hp2, swap_ent h.wf' k _ hk hp2]
  split
  · exact h.eq k hk k hk
  · simp only [if_true]; exact h.eq _ hp2 k hk

theorem gjStep_sameLeft {n : Nat} {M M' : List (Vec K)} (h : SameLeft n M M') (k : Nat) (hk : k < n) :
    SameLeft n (gjStep M k n) (gjStep M' k n) := by
  obtain ⟨hp1, hp2⟩ := pivotIdx_range M k n hk
  have e := pivotIdx_congr h k hk
  have ep := pivotOf_congr h k hk
  have hsw : ∀ r, r < n → ∀ j, j < n →
      ent (swapRows M k (pivotIdx M k n)) r j = ent (swapRows M' k (pivotIdx M' k n)) r j := by
    intro r hr j hj
    rw [← e, swap_ent h.wf k _ hk hp2, swap_ent h.wf' k _ hk hp2]
    split
    · exact h.eq k hk j hj
    · split
      · exact h.eq _ hp2 j hj
      · exact h.eq r hr j hj
  refine ⟨gjStep_wf h.wf k hk, gjStep_wf h.wf' k hk, fun r hr j hj => ?_⟩
  rw [gjStep_ent h.wf k hk r j hr (by omega), gjStep_ent h.wf' k hk r j hr (by omega), ep,
    hsw r hr j hj, hsw k hk j hj, hsw r hr k hk]

theorem gjPivots_congr (n : Nat) : ∀ (fuel k : Nat) (M M' : List (Vec K)), k + fuel ≤ n → SameLeft n M M' →
    gjPivots n fuel k M = gjPivots n fuel k M' := by
  intro fuel
  induction fuel with
  | zero => intro k M M' _ _; rfl
  | succ f ih =>
    intro k M M' hk h
    simp only [gjPivots]
    rw [pivotOf_congr h k (by omega), ih (k + 1) _ _ (by omega) (gjStep_sameLeft h k (by omega))]

/-- the pivots are those of the matrix, whatever the right-hand side -/
theorem gjPivots_rhs (A : List (Vec K)) (b b' : Vec K) (k : Nat) (hb : b.length = k) (hb' : b'.length = k)
    (hA : A.length = k) (hrow : ∀ i, i < k → (A.getD i []).length = k) :
    gjPivots k k 0 (augment A b) = gjPivots k k 0 (augment A b') := by
  apply gjPivots_congr k k 0 _ _ (by omega)
  refine ⟨augment_wf A b k hb hA hrow, augment_wf A b' k hb' hA hrow, fun r hr j hj => ?_⟩
  rw [augment_ent_left A b k hb hA hrow r j hr hj, augment_ent_left A b' k hb' hA hrow r j hr hj]

/-- the pivots of the elimination on the matrix `A` (`k × k`) -/
def pivotsOf (A : List (Vec K)) (k : Nat) : List K := gjPivots k k 0 (augment A (List.replicate k 0))

theorem pivotsOf_rhs (A : List (Vec K)) (b : Vec K) (k : Nat) (hb : b.length = k) (hA : A.length = k)
    (hrow : ∀ i, i < k → (A.getD i []).length = k) : gjPivots k k 0 (augment A b) = pivotsOf A k :=
  gjPivots_rhs A b _ k hb (by simp) hA hrow

/-- **an injective matrix has no vanishing pivot** -/
theorem pivots_of_injective (A : List (Vec K)) (k : Nat) (hA : A.length = k)
    (hrow : ∀ i, i < k → (A.getD i []).length = k)
    (hinj : ∀ x : Fin k → K, wmat k k A *ᵥ x = 0 → x = 0) : ∀ p ∈ pivotsOf A k, p ≠ 0 := by
  unfold pivotsOf
  have hb : (List.replicate k (0 : K)).length = k := by simp
  apply gjPivots_ne_zero k k 0 _ (by omega) (augment_wf A _ k hb hA hrow) (fun _ _ j hj => absurd hj (Nat.not_lt_zero j))
  · intro r hr
    rw [augment_ent_right A _ k hb hA hrow r hr]
    simp [List.getD_eq_getElem?_getD, hr]
  · intro x hs j hj
    have hAx : wmat k k A *ᵥ (fun j : Fin k => x j) = 0 := by
      funext r
      have := hs r r.2
      rw [augment_ent_right A _ k hb hA hrow r r.2] at this
      simp only [mulVec, dotProduct, wmat, Pi.zero_apply]
      rw [Finset.sum_range] at this
      have e : (List.replicate k (0 : K)).getD r 0 = 0 := by simp [List.getD_eq_getElem?_getD, r.2]
      rw [e] at this
      have h2 : ∑ c : Fin k, (A.getD r []).getD c 0 * x c =
          ∑ c : Fin k, ent (augment A (List.replicate k 0)) r c * x c := by
        apply Finset.sum_congr rfl
        intro c _
        rw [augment_ent_left A _ k hb hA hrow r c r.2 c.2]
      rw [h2]; exact this
    exact congrFun (hinj _ hAx) ⟨j, hj⟩

/-- **a matrix with a left inverse has no vanishing pivot** -/
theorem pivots_of_left_inverse (A : List (Vec K)) (k : Nat) (hA : A.length = k)
    (hrow : ∀ i, i < k → (A.getD i []).length = k) (B : Matrix (Fin k) (Fin k) K) (hB : B * wmat k k A = 1) :
    ∀ p ∈ pivotsOf A k, p ≠ 0 := by
  apply pivots_of_injective A k hA hrow
  intro x hx
  have := congrArg (fun w => B *ᵥ w) hx
  simp only [mulVec_mulVec, hB, one_mulVec, mulVec_zero] at this
  exact this

/-- **product with the middle matrix**: with non-vanishing pivots, `mv v` (the solve with `M⁻¹`) is the
product with the inverse `Mm` of the matrix of `Minv` -/
theorem mv_of_pivots (i : CauchyIn K) (k : Nat) (Mm : Matrix (Fin k) (Fin k) K) (uf : i.useFactor = true)
    (hA : i.Minv.length = k) (hrow : ∀ r, r < k → (i.Minv.getD r []).length = k)
    (hp : ∀ p ∈ pivotsOf i.Minv k, p ≠ 0) (hM : Mm * wmat k k i.Minv = 1) :
    ∀ v : List K, v.length = k → (i.mv v).length = k ∧ vec k (i.mv v) = Mm *ᵥ vec k v := by
  intro v hv
  unfold CauchyIn.mv
  rw [if_pos uf]
  obtain ⟨hl, hs⟩ := gaussSolve_mulVec i.Minv v k hv hA hrow (by rw [pivotsOf_rhs i.Minv v k hv hA hrow]; exact hp)
  refine ⟨hl, ?_⟩
  have := congrArg (fun w => Mm *ᵥ w) hs
  simp only [mulVec_mulVec, hM, one_mulVec] at this
  exact this

theorem getD_range_map (k : Nat) (f : Nat → Vec K) (a : Nat) (ha : a < k) :
    ((List.range k).map f).getD a [] = f a := by
  simp [List.getD_eq_getElem?_getD, List.getElem?_map, List.getElem?_range ha]

theorem getD_range_map' (k : Nat) (f : Nat → K) (a : Nat) (ha : a < k) :
    ((List.range k).map f).getD a 0 = f a := by
  simp [List.getD_eq_getElem?_getD, List.getElem?_map, List.getElem?_range ha]

theorem subN_row (i : SubIn K) (k : Nat) (hk : subK i = k) (hMl : i.Minv.length = k) (a : Nat) (ha : a < k) :
    (subN i).getD a [] = vsub (i.Minv.getD a []) (smul (1 / i.theta) ((List.range k).map fun b =>
        dot ((subWz i).map fun row => row.getD a 0) ((subWz i).map fun row => row.getD b 0))) := by
  unfold subN
  dsimp only
  rw [hk, getD_zip_map _ i.Minv _ a [] [] [] (by rw [hMl]; exact ha) (by simp; exact ha), getD_range_map k _ a ha]

theorem subN_wf (i : SubIn K) (k : Nat) (hk : subK i = k) (hMl : i.Minv.length = k)
    (hMrow : ∀ r, r < k → (i.Minv.getD r []).length = k) :
    (subN i).length = k ∧ ∀ a, a < k → ((subN i).getD a []).length = k := by
  constructor
  · unfold subN; dsimp only; simp [hk, hMl]
  · intro a ha
    rw [subN_row i k hk hMl a ha]
    unfold vsub smul
    rw [vzip_length', hMrow a ha, List.length_map, List.length_map, List.length_range, Nat.min_self]

theorem wmat_subN (i : SubIn K) (n k : Nat) (hk : subK i = k) (hW : i.W.length = n) (hm : (subMask i).length = n)
    (hMl : i.Minv.length = k) (hMrow : ∀ r, r < k → (i.Minv.getD r []).length = k) :
    wmat k k (subN i) = wmat k k i.Minv - (1 / i.theta) • ((wmat n k (subWz i))ᵀ * wmat n k (subWz i)) := by
  funext a b
  have hWzl := subWz_length i n hW hm
  simp only [wmat, Matrix.sub_apply, Matrix.smul_apply, smul_eq_mul, Matrix.mul_apply, Matrix.transpose_apply]
  rw [subN_row i k hk hMl a a.2]
  unfold vsub smul
  rw [getD_vzip _ _ _ 0 b (by rw [hMrow a a.2]; exact b.2) (by simp), getD_map _ _ 0 b (by simp),
    getD_range_map' k _ b b.2, dot_vec n _ _ (by simp [hWzl]) (by simp [hWzl])]
  simp only [dotProduct, vec]
  congr 2
  apply Finset.sum_congr rfl
  intro r _
  have hr : (r : Nat) < (subWz i).length := by rw [hWzl]; exact r.2
  rw [getD_map' (subWz i) (fun row => row.getD a 0) r hr, getD_map' (subWz i) (fun row => row.getD b 0) r hr]
  simp [List.getD_eq_getElem?_getD, List.getElem?_eq_getElem hr]

/-- **the reduced system is regular when the model is positive definite**: `N v = 0` gives, for `a = ZZᵀW v`,
`B a = 0` on the free variables and `a = 0` on the others, so `aᵀBa = 0`, `a = 0`, `v = 0` -/
theorem maskedN_injective {n k : Nat} (θ : K) (hθ : θ ≠ 0) (Wm : Matrix (Fin n) (Fin k) K)
    (Mm Minvm : Matrix (Fin k) (Fin k) K) (hM : Mm * Minvm = 1) (m : Fin n → Bool)
    (pd : ∀ a : Fin n → K, a ≠ 0 → 0 < a ⬝ᵥ (bmat θ Wm Mm *ᵥ a))
    (v : Fin k → K)
    (hv : (Minvm - (1 / θ) • ((C09.maskRows m Wm)ᵀ * C09.maskRows m Wm)) *ᵥ v = 0) : v = 0 := by
  obtain ⟨a, ha⟩ : ∃ a, a = C09.maskRows m Wm *ᵥ v := ⟨_, rfl⟩
  have h1 : Minvm *ᵥ v = (1 / θ) • ((C09.maskRows m Wm)ᵀ *ᵥ a) := by
    rw [sub_mulVec, smul_mulVec, ← mulVec_mulVec, ← ha] at hv
    exact sub_eq_zero.mp hv
  have ha0 : ∀ r, m r = false → a r = 0 := by
    intro r hr; rw [ha, C09.maskRows_mulVec, hr]; simp
  have h3 : Mm *ᵥ (Minvm *ᵥ v) = v := by rw [mulVec_mulVec, hM, one_mulVec]
  have hv2 : v = (1 / θ) • (Mm *ᵥ (Wmᵀ *ᵥ a)) := by
    calc v = Mm *ᵥ (Minvm *ᵥ v) := h3.symm
      _ = Mm *ᵥ ((1 / θ) • ((C09.maskRows m Wm)ᵀ *ᵥ a)) := by rw [h1]
      _ = (1 / θ) • (Mm *ᵥ (Wmᵀ *ᵥ a)) := by rw [mulVec_smul, C09.maskRows_transpose_mulVec m Wm a ha0]
  have key : Wm *ᵥ v = (1 / θ) • (Wm *ᵥ (Mm *ᵥ (Wmᵀ *ᵥ a))) := by
    have := congrArg (fun w => Wm *ᵥ w) hv2
    simp only [mulVec_smul] at this
    exact this
  have hfree : ∀ r, m r = true → (bmat θ Wm Mm *ᵥ a) r = 0 := by
    intro r hr
    rw [bmat_mulVec]
    have e : a r = (1 / θ) * (Wm *ᵥ (Mm *ᵥ (Wmᵀ *ᵥ a))) r := by
      rw [ha, C09.maskRows_mulVec, hr, if_pos rfl, ← ha]
      have := congrFun key r
      simpa using this
    simp only [Pi.sub_apply, Pi.smul_apply, smul_eq_mul]
    rw [e]
    field_simp
    ring
  have hq : a ⬝ᵥ (bmat θ Wm Mm *ᵥ a) = 0 := by
    simp only [dotProduct]
    apply Finset.sum_eq_zero
    intro r _
    cases hr : m r with
    | true => rw [hfree r hr, mul_zero]
    | false => rw [ha0 r hr, zero_mul]
  have haz : a = 0 := by
    by_contra hne
    have := pd _ hne
    rw [hq] at this
    exact lt_irrefl _ this
  rw [hv2, haz]
  simp

/-- the hypotheses of `subspace_spec` with the two "exact solve" clauses replaced by the computable condition that
no pivot of the elimination on `N = M⁻¹ − (1/θ) WᵀZZᵀW` vanishes (the pivots of the elimination on `M⁻¹` cannot vanish:
`M⁻¹` has the inverse `Mm`) -/
structure SubCtxP (i : SubIn K) (n k : Nat) (Mm : Matrix (Fin k) (Fin k) K) : Prop where
  hx : i.x.length = n
  hg : i.g.length = n
  hxc : i.xc.length = n
  hW : i.W.length = n
  hrow : ∀ r, r < n → (i.W.getD r []).length = k
  hcl : i.c.length = k
  box : InBoxF i.lb i.ub i.xc
  hθ : i.theta ≠ 0
  uf : i.useFactor = true
  hk : subK i = k
  hMl : i.Minv.length = k
  hMrow : ∀ r, r < k → (i.Minv.getD r []).length = k
  /-- `Mm` is the inverse of the matrix the model is given as `M⁻¹` -/
  hM : Mm * wmat k k i.Minv = 1
  hc : vec k i.c = (wmat n k i.W)ᵀ *ᵥ (vec n i.xc - vec n i.x)
  pivN : ∀ p ∈ pivotsOf (subN i) k, p ≠ 0

theorem SubCtxP.toSubCtx {i : SubIn K} {n k : Nat} {Mm : Matrix (Fin k) (Fin k) K} (h : SubCtxP i n k Mm) :
    SubCtx i n k Mm (wmat k k i.Minv) := by
  obtain ⟨hll, hul⟩ := inBoxF_lengths h.box
  have hml : (subMask i).length = n := by
    unfold subMask; rw [C09.freeMask_length i.xc i.lb i.ub hll hul, h.hxc]
  have hmv := mv_of_pivots i.toCauchyIn k Mm h.uf h.hMl h.hMrow
    (pivots_of_left_inverse i.Minv k h.hMl h.hMrow Mm h.hM) h.hM
  have hr0l : (vadd i.g (smul i.theta (vsub i.xc i.x))).length = n := by
    simp [vadd, vsub, smul, vzip_length', h.hg, h.hxc, h.hx]
  have hRl : (subR i).length = n := by
    unfold subR; dsimp only; rw [if_pos h.uf]
    show (vzip (· - ·) (vadd i.g (smul i.theta (vsub i.xc i.x))) _).length = n
    rw [vzip_length', hr0l, List.length_map, h.hW, Nat.min_self]
  have hRHatl : (subRHat i).length = n := by simp [subRHat, hRl, hml]
  have hWzl := subWz_length i n h.hW hml
  have hV0l : (subV0 i).length = k := by unfold subV0; rw [wtv_length, h.hk]
  obtain ⟨hNl, hNrow⟩ := subN_wf i k h.hk h.hMl h.hMrow
  obtain ⟨hvl, hvs⟩ := gaussSolve_mulVec (subN i) (subV0 i) k hV0l hNl hNrow
    (by rw [pivotsOf_rhs (subN i) (subV0 i) k hV0l hNl hNrow]; exact h.pivN)
  refine ⟨h.hx, h.hg, h.hxc, h.hW, h.hrow, h.hcl, h.box, h.hθ, h.uf, hmv i.c h.hcl, h.hM, h.hc, ?_⟩
  have hV : subV i = gaussSolve (subN i) (subV0 i) := by unfold subV; rw [if_pos h.uf]
  rw [hV]
  refine ⟨hvl, ?_⟩
  rw [← wmat_subWz i n k h.hW hml, ← wmat_subN i n k h.hk h.hW hml h.hMl h.hMrow, hvs]
  unfold subV0
  rw [h.hk, vec_wtv n k (subWz i) (subRHat i) hWzl hRHatl]
  congr 1
  exact vec_mask n (subR i) (subMask i) hRl hml

/-- with a positive definite model the reduced system is regular: the pivot condition of `SubCtxP` holds -/
theorem SubCtxP.of_pd {i : SubIn K} {n k : Nat} {Mm : Matrix (Fin k) (Fin k) K}
    (hx : i.x.length = n) (hg : i.g.length = n) (hxc : i.xc.length = n) (hW : i.W.length = n)
    (hrow : ∀ r, r < n → (i.W.getD r []).length = k) (hcl : i.c.length = k) (box : InBoxF i.lb i.ub i.xc)
    (hθ : i.theta ≠ 0) (uf : i.useFactor = true) (hk : subK i = k) (hMl : i.Minv.length = k)
    (hMrow : ∀ r, r < k → (i.Minv.getD r []).length = k) (hM : Mm * wmat k k i.Minv = 1)
    (hc : vec k i.c = (wmat n k i.W)ᵀ *ᵥ (vec n i.xc - vec n i.x))
    (pd : ∀ a : Fin n → K, a ≠ 0 → 0 < a ⬝ᵥ (bmat i.theta (wmat n k i.W) Mm *ᵥ a)) : SubCtxP i n k Mm := by
  obtain ⟨hll, hul⟩ := inBoxF_lengths box
  have hml : (subMask i).length = n := by
    unfold subMask; rw [C09.freeMask_length i.xc i.lb i.ub hll hul, hxc]
  obtain ⟨hNl, hNrow⟩ := subN_wf i k hk hMl hMrow
  refine ⟨hx, hg, hxc, hW, hrow, hcl, box, hθ, uf, hk, hMl, hMrow, hM, hc, ?_⟩
  apply pivots_of_injective (subN i) k hNl hNrow
  intro v hv
  rw [wmat_subN i n k hk hW hml hMl hMrow, wmat_subWz i n k hW hml] at hv
  exact maskedN_injective i.theta hθ (wmat n k i.W) Mm (wmat k k i.Minv) hM (maskF n (subMask i)) pd v hv

end Lbfgsb.Gauss
