/-
  The two forms of the compact representation are the same matrices up to the order of the columns:
  the bordered form of Proofs/CompactBfgs.lean (index type `Idx l`, built pair after pair — the one
  Byrd–Nocedal–Schnabel's theorem is proved for) and the block form `W = [Y θS]`, `N = [[−D, Lᵀ],[L, θSᵀS]]` of
  Proofs/CompactSecant.lean (index type `Fin m ⊕ Fin m` — the one the source and the list model build).
-/
import LbfgsbVerif.Proofs.CompactBfgs
import LbfgsbVerif.Proofs.CompactSecant
import LbfgsbVerif.Props.C10Compact

set_option linter.unusedSectionVars false

namespace Lbfgsb.CompactBridge
open Matrix CompactBfgs
variable {n : Type} [Fintype n] [DecidableEq n]
variable {K : Type} [Field K] [LinearOrder K] [IsStrictOrderedRing K]

/-- the `s` of the pair number `j` counted from the oldest (the list is newest first) -/
def sOf : (l : List ((n → K) × (n → K))) → Fin l.length → (n → K)
  | p :: l', j => Fin.lastCases p.1 (fun j' => sOf l' j') j

def yOf : (l : List ((n → K) × (n → K))) → Fin l.length → (n → K)
  | p :: l', j => Fin.lastCases p.2 (fun j' => yOf l' j') j

/-- the matrices `S`, `Y` (columns = pairs, oldest first) -/
def Smat (l : List ((n → K) × (n → K))) : Matrix n (Fin l.length) K := Matrix.of fun r j => sOf l j r
def Ymat (l : List ((n → K) × (n → K))) : Matrix n (Fin l.length) K := Matrix.of fun r j => yOf l j r

/-- which column of the block form a column of the bordered form is: `inl j` = `y_j`, `inr j` = `θ s_j` -/
def desc : (l : List ((n → K) × (n → K))) → Idx l → Fin l.length ⊕ Fin l.length
  | [], c => c.elim
  | _ :: l', c => match c with
    | .inl (.inl a) => Sum.map Fin.castSucc Fin.castSucc (desc l' a)
    | .inl (.inr _) => .inr (Fin.last _)
    | .inr _ => .inl (Fin.last _)

theorem sOf_castSucc (p : (n → K) × (n → K)) (l : List ((n → K) × (n → K))) (j : Fin l.length) :
    sOf (p :: l) (Fin.castSucc j) = sOf l j := by
  simp [sOf]

theorem sOf_last (p : (n → K) × (n → K)) (l : List ((n → K) × (n → K))) :
    sOf (p :: l) (Fin.last _) = p.1 := by
  simp [sOf]

theorem yOf_castSucc (p : (n → K) × (n → K)) (l : List ((n → K) × (n → K))) (j : Fin l.length) :
    yOf (p :: l) (Fin.castSucc j) = yOf l j := by
  simp [yOf]

theorem yOf_last (p : (n → K) × (n → K)) (l : List ((n → K) × (n → K))) :
    yOf (p :: l) (Fin.last _) = p.2 := by
  simp [yOf]

/-- **columns**: the bordered `W` is the block `W` with its columns in the order of `desc` -/
theorem Wl_eq (θ : K) : ∀ (l : List ((n → K) × (n → K))) (r : n) (c : Idx l),
    Wl θ l r c = Compact.W (Smat l) (Ymat l) θ r (desc l c) := by
  intro l
  induction l with
  | nil => intro r c; exact c.elim
  | cons p l' ih =>
    intro r c
    match c with
    | .inl (.inl a) =>
      have := ih r a
      simp only [Wl, extW, Matrix.of_apply, desc]
      rw [this]
      cases hd : desc l' a with
      | inl j => simp [Compact.W, Smat, Ymat, yOf_castSucc, Matrix.fromCols_apply_inl]
      | inr j => simp [Compact.W, Smat, Ymat, sOf_castSucc, Matrix.fromCols_apply_inr]
    | .inl (.inr _) =>
      simp [Wl, extW, desc, Compact.W, Smat, sOf_last, Matrix.fromCols_apply_inr]
    | .inr _ =>
      simp [Wl, extW, desc, Compact.W, Ymat, yOf_last, Matrix.fromCols_apply_inl]

/-- the entries of the block middle matrix `[[−D, Lᵀ],[L, θSᵀS]]` -/
def Nent (θ : K) (l : List ((n → K) × (n → K))) : Fin l.length ⊕ Fin l.length → Fin l.length ⊕ Fin l.length → K
  | .inl i, .inl j => if i = j then -(sOf l i ⬝ᵥ yOf l i) else 0
  | .inl i, .inr j => if i < j then sOf l j ⬝ᵥ yOf l i else 0
  | .inr i, .inl j => if j < i then sOf l i ⬝ᵥ yOf l j else 0
  | .inr i, .inr j => θ * (sOf l i ⬝ᵥ sOf l j)

theorem N_eq_Nent (θ : K) (l : List ((n → K) × (n → K))) (c d : Fin l.length ⊕ Fin l.length) :
    Compact.N (Smat l) (Ymat l) θ c d = Nent θ l c d := by
  cases c with
  | inl i =>
    cases d with
    | inl j =>
      simp only [Compact.N, fromBlocks_apply₁₁, neg_apply, Compact.D, diagonal_apply, Compact.A, mul_apply, transpose_apply,
        Smat, Ymat, of_apply, Nent, dotProduct]
      split
      · rename_i h; subst h; simp
      · rename_i h; simp [h]
    | inr j =>
      simp only [Compact.N, fromBlocks_apply₁₂, transpose_apply, Compact.L, of_apply, Compact.A, mul_apply, Smat, Ymat,
        Nent, dotProduct]
  | inr i =>
    cases d with
    | inl j =>
      simp only [Compact.N, fromBlocks_apply₂₁, Compact.L, of_apply, Compact.A, mul_apply, transpose_apply, Smat, Ymat,
        Nent, dotProduct]
    | inr j =>
      simp only [Compact.N, fromBlocks_apply₂₂, smul_apply, smul_eq_mul, mul_apply, transpose_apply, Smat, of_apply, Nent,
        dotProduct]

/-- the entries of the older pairs are not changed by a new pair -/
theorem Nent_castSucc (θ : K) (p : (n → K) × (n → K)) (l : List ((n → K) × (n → K))) (c d : Fin l.length ⊕ Fin l.length) :
    Nent θ (p :: l) (Sum.map Fin.castSucc Fin.castSucc c) (Sum.map Fin.castSucc Fin.castSucc d) = Nent θ l c d := by
  cases c <;> cases d <;>
    simp only [Sum.map_inl, Sum.map_inr, Nent, sOf_castSucc, yOf_castSucc, Fin.castSucc_inj, Fin.castSucc_lt_castSucc_iff]

/-- **middle matrix**: the bordered `N` is the block `N` with rows and columns in the order of `desc` -/
theorem Nl_eq (θ : K) : ∀ (l : List ((n → K) × (n → K))) (c d : Idx l),
    Nl θ l c d = Nent θ l (desc l c) (desc l d) := by
  intro l
  induction l with
  | nil => intro c; exact c.elim
  | cons p l' ih =>
    -- `(Wᵀ s)` at an old column
    have hw : ∀ a : Idx l', ((Wl θ l')ᵀ *ᵥ p.1) a =
        Nent θ (p :: l') (Sum.map Fin.castSucc Fin.castSucc (desc l' a)) (.inr (Fin.last _)) := by
      intro a
      simp only [mulVec, dotProduct, transpose_apply]
      have e : ∀ r, Wl θ l' r a = Compact.W (Smat l') (Ymat l') θ r (desc l' a) := fun r => Wl_eq θ l' r a
      simp only [e]
      cases desc l' a with
      | inl j =>
        simp only [Compact.W, fromCols_apply_inl, Ymat, of_apply, Sum.map_inl, Nent, Fin.castSucc_lt_last, if_true,
          sOf_last, yOf_castSucc, dotProduct]
        apply Finset.sum_congr rfl; intro r _; ring
      | inr j =>
        simp only [Compact.W, fromCols_apply_inr, smul_apply, smul_eq_mul, Smat, of_apply, Sum.map_inr, Nent, sOf_last,
          sOf_castSucc, dotProduct, Finset.mul_sum]
        apply Finset.sum_congr rfl; intro r _; ring
    have hsym : ∀ c : Fin l'.length ⊕ Fin l'.length,
        Nent θ (p :: l') (.inr (Fin.last _)) (Sum.map Fin.castSucc Fin.castSucc c) =
        Nent θ (p :: l') (Sum.map Fin.castSucc Fin.castSucc c) (.inr (Fin.last _)) := by
      intro c
      cases c with
      | inl j => simp only [Sum.map_inl, Nent]
      | inr j => simp only [Sum.map_inr, Nent, dotProduct_comm]
    intro c d
    match c, d with
    | .inl (.inl a), .inl (.inl b) =>
      simp only [Nl, extN, of_apply, desc]
      rw [ih a b, Nent_castSucc]
    | .inl (.inl a), .inl (.inr _) =>
      simp only [Nl, extN, of_apply, desc]
      exact hw a
    | .inl (.inr _), .inl (.inl b) =>
      simp only [Nl, extN, of_apply, desc]
      rw [hsym]; exact hw b
    | .inl (.inr _), .inl (.inr _) =>
      simp only [Nl, extN, of_apply, desc, Nent, sOf_last]
    | .inr _, .inr _ =>
      simp only [Nl, extN, of_apply, desc, Nent, sOf_last, yOf_last, if_true]
    | .inl (.inl a), .inr _ =>
      simp only [Nl, extN, of_apply, desc]
      cases desc l' a with
      | inl j => simp [Nent, Fin.castSucc_ne_last]
      | inr j =>
        have : ¬ Fin.last l'.length < j.castSucc := not_lt.mpr (Fin.le_last _)
        simp [Nent, this]
    | .inr _, .inl (.inl b) =>
      simp only [Nl, extN, of_apply, desc]
      cases desc l' b with
      | inl j => simp [Nent, (Fin.castSucc_ne_last j).symm]
      | inr j =>
        have : ¬ Fin.last l'.length < j.castSucc := not_lt.mpr (Fin.le_last _)
        simp [Nent, this]
    | .inl (.inr _), .inr _ =>
      simp [Nl, extN, desc, Nent]
    | .inr _, .inl (.inr _) =>
      simp [Nl, extN, desc, Nent]

theorem desc_injective : ∀ l : List ((n → K) × (n → K)), Function.Injective (desc (K := K) l) := by
  intro l
  induction l with
  | nil => intro c; exact c.elim
  | cons p l' ih =>
    have hmap : Function.Injective (Sum.map (Fin.castSucc (n := l'.length)) (Fin.castSucc (n := l'.length))) :=
      Function.Injective.sumMap (Fin.castSucc_injective _) (Fin.castSucc_injective _)
    intro c d h
    match c, d with
    | .inl (.inl a), .inl (.inl b) =>
      simp only [desc] at h
      rw [ih (hmap h)]
    | .inl (.inl a), .inl (.inr _) =>
      simp only [desc] at h
      cases hd : desc l' a with
      | inl j => rw [hd] at h; simp at h
      | inr j => rw [hd] at h; simp [Fin.castSucc_ne_last] at h
    | .inl (.inl a), .inr _ =>
      simp only [desc] at h
      cases hd : desc l' a with
      | inl j => rw [hd] at h; simp [Fin.castSucc_ne_last] at h
      | inr j => rw [hd] at h; simp at h
    | .inl (.inr _), .inl (.inl b) =>
      simp only [desc] at h
      cases hd : desc l' b with
      | inl j => rw [hd] at h; simp at h
      | inr j => rw [hd] at h; simp [(Fin.castSucc_ne_last j).symm] at h
    | .inr _, .inl (.inl b) =>
      simp only [desc] at h
      cases hd : desc l' b with
      | inl j => rw [hd] at h; simp [(Fin.castSucc_ne_last j).symm] at h
      | inr j => rw [hd] at h; simp at h
    | .inl (.inr _), .inl (.inr _) => rfl
    | .inr _, .inr _ => rfl
    | .inl (.inr _), .inr _ => simp [desc] at h
    | .inr _, .inl (.inr _) => simp [desc] at h

theorem desc_surjective : ∀ l : List ((n → K) × (n → K)), Function.Surjective (desc (K := K) l) := by
  intro l
  induction l with
  | nil => intro t; cases t with
    | inl j => exact j.elim0
    | inr j => exact j.elim0
  | cons p l' ih =>
    intro t
    cases t with
    | inl j =>
      induction j using Fin.lastCases with
      | last => exact ⟨.inr (), rfl⟩
      | cast j' =>
        obtain ⟨a, ha⟩ := ih (.inl j')
        exact ⟨.inl (.inl a), by simp [desc, ha]⟩
    | inr j =>
      induction j using Fin.lastCases with
      | last => exact ⟨.inl (.inr ()), rfl⟩
      | cast j' =>
        obtain ⟨a, ha⟩ := ih (.inr j')
        exact ⟨.inl (.inl a), by simp [desc, ha]⟩

/-- the columns of the bordered form, as an equivalence with those of the block form -/
noncomputable def descEquiv (l : List ((n → K) × (n → K))) : Idx l ≃ Fin l.length ⊕ Fin l.length :=
  Equiv.ofBijective (desc l) ⟨desc_injective l, desc_surjective l⟩

theorem Wl_submatrix (θ : K) (l : List ((n → K) × (n → K))) :
    Wl θ l = (Compact.W (Smat l) (Ymat l) θ).submatrix id (descEquiv l) := by
  funext r c
  exact Wl_eq θ l r c

theorem Nl_submatrix (θ : K) (l : List ((n → K) × (n → K))) :
    Nl θ l = (Compact.N (Smat l) (Ymat l) θ).submatrix (descEquiv l) (descEquiv l) := by
  funext c d
  rw [Nl_eq θ l c d, submatrix_apply, N_eq_Nent]
  rfl

/-- core: for a non-degenerate chain (newest first), any left inverse of the block middle matrix gives the BFGS matrix -/
theorem block_compact_core (θ : K) (l : List ((n → K) × (n → K))) (hnd : NonDeg θ l)
    (Mb : Matrix (Fin l.length ⊕ Fin l.length) (Fin l.length ⊕ Fin l.length) K)
    (hMb : Mb * Compact.N (Smat l) (Ymat l) θ = 1) :
    θ • (1 : Matrix n n K) - Compact.W (Smat l) (Ymat l) θ * Mb * (Compact.W (Smat l) (Ymat l) θ)ᵀ = bfgsRev θ l := by
  obtain ⟨hinv, -, hB⟩ := CompactBfgs.compact_eq_bfgs θ l hnd
  have hee : (descEquiv (K := K) l) ∘ (descEquiv (K := K) l).symm = id := by
    funext x; simp
  have hW : Compact.W (Smat l) (Ymat l) θ = (Wl θ l).submatrix id (descEquiv l).symm := by
    rw [Wl_submatrix θ l, submatrix_submatrix, hee]
    rfl
  have hN : Compact.N (Smat l) (Ymat l) θ = (Nl θ l).submatrix (descEquiv l).symm (descEquiv l).symm := by
    rw [Nl_submatrix θ l, submatrix_submatrix, hee]
    rfl
  have hNM : Compact.N (Smat l) (Ymat l) θ * (Ninvl θ l).submatrix (descEquiv l).symm (descEquiv l).symm = 1 := by
    rw [hN, submatrix_mul_equiv, hinv, submatrix_one_equiv]
  have hMb' : Mb = (Ninvl θ l).submatrix (descEquiv l).symm (descEquiv l).symm := by
    calc Mb = Mb * (Compact.N (Smat l) (Ymat l) θ * (Ninvl θ l).submatrix (descEquiv l).symm (descEquiv l).symm) := by
          rw [hNM, Matrix.mul_one]
      _ = (Mb * Compact.N (Smat l) (Ymat l) θ) * (Ninvl θ l).submatrix (descEquiv l).symm (descEquiv l).symm := by
          rw [Matrix.mul_assoc]
      _ = (Ninvl θ l).submatrix (descEquiv l).symm (descEquiv l).symm := by rw [hMb, Matrix.one_mul]
  rw [← hB, hMb', hW, transpose_submatrix, submatrix_mul_equiv, submatrix_mul_equiv]
  rfl

/-- **Byrd–Nocedal–Schnabel for the block form.** For pairs with positive curvature and `θ > 0`, any left inverse
`Mb` of the block middle matrix `N = [[−D, Lᵀ],[L, θSᵀS]]` makes `θI − W Mb Wᵀ`, `W = [Y θS]`, the dense BFGS matrix of the
pairs — symmetric positive definite. (`ps` lists the pairs oldest first.) -/
theorem block_compact_eq_bfgs (θ : K) (hθ : 0 < θ) (ps : List ((n → K) × (n → K)))
    (hp : ∀ p ∈ ps, p.1 ≠ 0 ∧ 0 < p.1 ⬝ᵥ p.2)
    (Mb : Matrix (Fin ps.reverse.length ⊕ Fin ps.reverse.length) (Fin ps.reverse.length ⊕ Fin ps.reverse.length) K)
    (hMb : Mb * Compact.N (Smat ps.reverse) (Ymat ps.reverse) θ = 1) :
    θ • (1 : Matrix n n K) - Compact.W (Smat ps.reverse) (Ymat ps.reverse) θ * Mb *
        (Compact.W (Smat ps.reverse) (Ymat ps.reverse) θ)ᵀ = C10.bfgsChain (θ • (1 : Matrix n n K)) ps ∧
    C10.SPD (C10.bfgsChain (θ • (1 : Matrix n n K)) ps) := by
  obtain ⟨-, hspd⟩ := C10.compact_eq_bfgs_of_curvature θ hθ ps hp
  refine ⟨?_, hspd⟩
  have hnd := (C10.nonDeg_of_curvature θ hθ ps.reverse (fun p hq => hp p (List.mem_reverse.1 hq))).1
  rw [block_compact_core θ ps.reverse hnd Mb hMb]
  have := C10.bfgsChain_rev θ ps []
  simpa [bfgsRev] using this.symm

end Lbfgsb.CompactBridge
