/-
  C08: the quantities `f'`, `f''` the breakpoint loop of `cauchy` carries are the first and second
  derivative of the quadratic model along the projected path at the start of the current segment
  (ordered field, exact product with a symmetric middle matrix, floor on `f''` inactive).
-/
import LbfgsbVerif.Proofs.VecBridge
import LbfgsbVerif.Proofs.CauchyPath

namespace Lbfgsb
open Matrix
variable {K : Type} [Field K] [LinearOrder K] [IsStrictOrderedRing K]

/-- the state after passing breakpoint `ib` (value `tcur`): the continuing branch of `cauchyStep` -/
def cauchyAdvance (i : CauchyIn K) (f2org : K) (s : CauchySt K) (ib : Nat) (tcur : K) : CauchySt K :=
  let dt := tcur - s.tOld
  let db := s.d.getD ib 0
  let xb := if 0 < db then i.ub.getD ib 0 else if db < 0 then i.lb.getD ib 0 else s.xcp.getD ib 0
  let xcp := s.xcp.set ib xb
  let zb := xb - i.x.getD ib 0
  let c := vadd s.c (smul dt s.p)
  let wb := i.W.getD ib []
  let gb := i.g.getD ib 0
  let f1 := s.f1 + dt * s.f2 + gb * (gb + i.theta * zb)
  let f2 := s.f2 - gb * gb * i.theta
  let f1 := if i.useFactor then f1 - gb * dot wb (i.mv c) else f1
  let f2 := if i.useFactor then f2 - gb * dot wb (i.mv (vadd (smul (1 + 1) s.p) (smul gb wb))) else f2
  let f2 := fmax f2 (i.epsFsec * f2org)
  let p := vadd s.p (smul gb wb)
  let d := s.d.set ib 0
  { s with xcp := xcp, d := d, p := p, c := c, f1 := f1, f2 := f2, dtm := -f1 / f2, tOld := tcur }

theorem cauchyStep_cases (i : CauchyIn K) (t : List (Option K)) (f2org : K) (s : CauchySt K) (ib : Nat) :
    (s.found = true ∧ cauchyStep i t f2org s ib = s) ∨
    (s.found = false ∧ cauchyStep i t f2org s ib = { s with found := true } ∧
      (t.getD ib none = none ∨ ∃ tcur, t.getD ib none = some tcur ∧ s.dtm < tcur - s.tOld ∧ 0 < tcur - s.tOld)) ∨
    ∃ tcur, t.getD ib none = some tcur ∧ s.found = false ∧
      ¬ (s.dtm < tcur - s.tOld ∧ 0 < tcur - s.tOld) ∧
      cauchyStep i t f2org s ib = cauchyAdvance i f2org s ib tcur := by
  unfold cauchyStep
  split
  · rename_i hf; left; exact ⟨hf, rfl⟩
  · rename_i hnf
    have hnf' : s.found = false := by simpa using hnf
    split
    · rename_i htn; right; left; exact ⟨hnf', rfl, Or.inl htn⟩
    · rename_i tcur htc
      dsimp only
      split
      · rename_i hst; right; left; exact ⟨hnf', rfl, Or.inr ⟨tcur, htc, hst.1, hst.2⟩⟩
      · rename_i hns
        right; right
        exact ⟨tcur, htc, hnf', hns, rfl⟩

/-! ### the quadratic model -/

/-- `B = θ I − W M Wᵀ` -/
def bmat {n k : Nat} (θ : K) (Wm : Matrix (Fin n) (Fin k) K) (Mm : Matrix (Fin k) (Fin k) K) :
    Matrix (Fin n) (Fin n) K := θ • (1 : Matrix (Fin n) (Fin n) K) - Wm * Mm * Wmᵀ

theorem bmat_mulVec {n k : Nat} (θ : K) (Wm : Matrix (Fin n) (Fin k) K) (Mm : Matrix (Fin k) (Fin k) K)
    (z : Fin n → K) : bmat θ Wm Mm *ᵥ z = θ • z - Wm *ᵥ (Mm *ᵥ (Wmᵀ *ᵥ z)) := by
  unfold bmat
  rw [sub_mulVec, smul_mulVec, one_mulVec, ← mulVec_mulVec, ← mulVec_mulVec]

theorem bmat_row {n k : Nat} (θ : K) (Wm : Matrix (Fin n) (Fin k) K) (Mm : Matrix (Fin k) (Fin k) K)
    (z : Fin n → K) (r : Fin n) :
    (bmat θ Wm Mm *ᵥ z) r = θ * z r - Wm r ⬝ᵥ (Mm *ᵥ (Wmᵀ *ᵥ z)) := by
  rw [bmat_mulVec]
  rfl

theorem bmat_symm {n k : Nat} (θ : K) (Wm : Matrix (Fin n) (Fin k) K) (Mm : Matrix (Fin k) (Fin k) K)
    (hs : Mmᵀ = Mm) : (bmat θ Wm Mm)ᵀ = bmat θ Wm Mm := by
  unfold bmat
  rw [transpose_sub, transpose_smul, transpose_one, transpose_mul, transpose_mul, transpose_transpose, hs,
    Matrix.mul_assoc]

theorem quad_symm {n : Nat} (B : Matrix (Fin n) (Fin n) K) (hB : Bᵀ = B) (a b : Fin n → K) :
    a ⬝ᵥ (B *ᵥ b) = b ⬝ᵥ (B *ᵥ a) := by
  rw [dotProduct_mulVec, ← mulVec_transpose, hB, dotProduct_comm]

theorem update_zero_eq {n : Nat} (D : Fin n → K) (ib : Fin n) :
    Function.update D ib 0 = D + Pi.single ib (-(D ib)) := by
  funext r
  by_cases h : r = ib
  · subst h; simp
  · simp [Function.update_of_ne h, Pi.single_eq_of_ne h]

/-- the update of `f'` (bilinear algebra) -/
theorem f1_update {n : Nat} (B : Matrix (Fin n) (Fin n) K) (G D Z : Fin n → K) (ib : Fin n) (dt gb : K)
    (hG : G ib = gb) :
    G ⬝ᵥ (D + Pi.single ib gb) + (D + Pi.single ib gb) ⬝ᵥ (B *ᵥ (Z + dt • D)) =
      (G ⬝ᵥ D + D ⬝ᵥ (B *ᵥ Z)) + dt * (D ⬝ᵥ (B *ᵥ D)) + gb * gb + gb * (B *ᵥ (Z + dt • D)) ib := by
  rw [dotProduct_add, add_dotProduct, dotProduct_single, single_dotProduct, hG]
  rw [mulVec_add, mulVec_smul, dotProduct_add, dotProduct_smul, smul_eq_mul]
  ring

/-- the update of `f''` -/
theorem f2_update {n : Nat} (B : Matrix (Fin n) (Fin n) K) (hB : Bᵀ = B) (D : Fin n → K) (ib : Fin n) (gb : K) :
    (D + Pi.single ib gb) ⬝ᵥ (B *ᵥ (D + Pi.single ib gb)) =
      D ⬝ᵥ (B *ᵥ D) + gb * (B *ᵥ ((1 + 1 : K) • D + gb • Pi.single ib 1)) ib := by
  have h1 : D ⬝ᵥ (B *ᵥ Pi.single ib gb) = gb * (B *ᵥ D) ib := by
    rw [quad_symm B hB, single_dotProduct]
  rw [add_dotProduct, mulVec_add, dotProduct_add, dotProduct_add, h1, single_dotProduct, single_dotProduct]
  rw [mulVec_add, mulVec_smul, mulVec_smul]
  have h2 : (Pi.single ib gb : Fin n → K) = gb • Pi.single ib 1 := by
    funext r; by_cases h : r = ib
    · subst h; simp
    · simp [Pi.single_eq_of_ne h]
  rw [h2, mulVec_smul]
  simp only [Pi.add_apply, Pi.smul_apply, smul_eq_mul]
  ring

/-! ### the loop carries the derivatives -/

/-- what is assumed of the inputs: sizes, and the product with the middle matrix is the exact
product with a symmetric matrix `Mm` -/
structure QCtx (i : CauchyIn K) (n k : Nat) (Mm : Matrix (Fin k) (Fin k) K) : Prop where
  hx : i.x.length = n
  hg : i.g.length = n
  hW : i.W.length = n
  hrow : ∀ r, r < n → (i.W.getD r []).length = k
  hsym : Mmᵀ = Mm
  hmv : ∀ v : List K, v.length = k → (i.mv v).length = k ∧ vec k (i.mv v) = Mm *ᵥ vec k v

theorem dot_zeros (w c : List K) : dot w (c.map fun _ => (0 : K)) = 0 := by
  induction w generalizing c with
  | nil => simp [dot, vzip]
  | cons x xs ih =>
    cases c with
    | nil => simp [dot, vzip]
    | cons y ys => rw [List.map_cons, dot_cons, ih]; ring

theorem uf_uniform (i : CauchyIn K) (a g : K) (w c : List K) :
    (if i.useFactor then a - g * dot w (i.mv c) else a) = a - g * dot w (i.mv c) := by
  by_cases h : i.useFactor
  · rw [if_pos h]
  · rw [if_neg h]
    unfold CauchyIn.mv
    rw [if_neg h, dot_zeros]; ring

/-- displacement from `x` at the start of the current segment -/
def zOf (i : CauchyIn K) (n : Nat) (s : CauchySt K) : Fin n → K :=
  vec n s.xcp + s.tOld • vec n s.d - vec n i.x

structure DInv (i : CauchyIn K) (n k : Nat) (Mm : Matrix (Fin k) (Fin k) K) (s : CauchySt K) : Prop where
  len_p : s.p.length = k
  len_c : s.c.length = k
  p_eq : vec k s.p = (wmat n k i.W)ᵀ *ᵥ vec n s.d
  c_eq : vec k s.c = (wmat n k i.W)ᵀ *ᵥ zOf i n s
  f1_eq : s.f1 = vec n i.g ⬝ᵥ vec n s.d + vec n s.d ⬝ᵥ (bmat i.theta (wmat n k i.W) Mm *ᵥ zOf i n s)
  f2_eq : vec n s.d ≠ 0 → s.f2 = vec n s.d ⬝ᵥ (bmat i.theta (wmat n k i.W) Mm *ᵥ vec n s.d)
  dtm_eq : s.dtm = -s.f1 / s.f2

/-- passing a breakpoint keeps the derivative invariant -/
theorem advance_dinv (i : CauchyIn K) (n k : Nat) (Mm : Matrix (Fin k) (Fin k) K) (hq : QCtx i n k Mm)
    (f2org : K) (s : CauchySt K) (ib : Nat) (tcur : K) (hib : ib < n)
    (hlx : s.xcp.length = n) (hld : s.d.length = n)
    (hxb : s.xcp.getD ib 0 = i.x.getD ib 0) (hdb : s.d.getD ib 0 = -(i.g.getD ib 0))
    (hgne : i.g.getD ib 0 ≠ 0)
    (hbp : headBound i ib = i.x.getD ib 0 - tcur * i.g.getD ib 0)
    (hfloor : ∀ raw : K, vec n (s.d.set ib 0) ≠ 0 →
      raw = vec n (s.d.set ib 0) ⬝ᵥ (bmat i.theta (wmat n k i.W) Mm *ᵥ vec n (s.d.set ib 0)) →
      fmax raw (i.epsFsec * f2org) = raw)
    (h : DInv i n k Mm s) : DInv i n k Mm (cauchyAdvance i f2org s ib tcur) := by
  have hBs : (bmat i.theta (wmat n k i.W) Mm)ᵀ = (bmat i.theta (wmat n k i.W) Mm) := bmat_symm _ _ _ hq.hsym
  have hlw : (i.W.getD ib []).length = k := hq.hrow ib hib
  have hDib : (vec n s.d) (⟨ib, hib⟩ : Fin n) = -(i.g.getD ib 0) := hdb
  -- the value the pinned variable takes
  have hxbv : (if 0 < s.d.getD ib 0 then i.ub.getD ib 0 else if s.d.getD ib 0 < 0 then i.lb.getD ib 0
      else s.xcp.getD ib 0) = headBound i ib := by
    rw [hdb]
    unfold headBound
    by_cases hg : i.g.getD ib 0 < 0
    · rw [if_pos (by linarith), if_pos hg]
    · have hgp : 0 < i.g.getD ib 0 := lt_of_le_of_ne (not_lt.1 hg) (Ne.symm hgne)
      rw [if_neg (by linarith), if_pos (by linarith), if_neg hg]
  -- new direction and displacement
  have hD' : vec n (s.d.set ib 0) = (vec n s.d) + Pi.single (⟨ib, hib⟩ : Fin n) (i.g.getD ib 0) := by
    rw [show vec n (s.d.set ib 0) = _ from vec_set n s.d (⟨ib, hib⟩ : Fin n) 0 hld, update_zero_eq, hDib, neg_neg]
  have hZ' : zOf i n (cauchyAdvance i f2org s ib tcur) = (zOf i n s) + (tcur - s.tOld) • (vec n s.d) := by
    unfold zOf cauchyAdvance
    dsimp only
    rw [hxbv, show vec n (s.xcp.set ib (headBound i ib)) = _ from vec_set n s.xcp (⟨ib, hib⟩ : Fin n) _ hlx,
      show vec n (s.d.set ib 0) = _ from vec_set n s.d (⟨ib, hib⟩ : Fin n) 0 hld]
    funext r
    by_cases hr : r = (⟨ib, hib⟩ : Fin n)
    · subst hr
      simp only [Pi.add_apply, Pi.sub_apply, Pi.smul_apply, smul_eq_mul, Function.update_self, zOf]
      have e1 : vec n s.xcp (⟨ib, hib⟩ : Fin n) = i.x.getD ib 0 := hxb
      have e2 : vec n i.x (⟨ib, hib⟩ : Fin n) = i.x.getD ib 0 := rfl
      have e3 : vec n s.d (⟨ib, hib⟩ : Fin n) = -(i.g.getD ib 0) := hdb
      rw [e1, e2, e3, hbp]
      ring
    · simp only [Pi.add_apply, Pi.sub_apply, Pi.smul_apply, smul_eq_mul, Function.update_of_ne hr, zOf]
      ring
  have hzb : (headBound i ib - i.x.getD ib 0) = ((zOf i n s) + (tcur - s.tOld) • (vec n s.d)) (⟨ib, hib⟩ : Fin n) := by
    simp only [Pi.add_apply, Pi.smul_apply, smul_eq_mul, zOf, Pi.sub_apply]
    have e1 : vec n s.xcp (⟨ib, hib⟩ : Fin n) = i.x.getD ib 0 := hxb
    have e2 : vec n i.x (⟨ib, hib⟩ : Fin n) = i.x.getD ib 0 := rfl
    have e3 : vec n s.d (⟨ib, hib⟩ : Fin n) = -(i.g.getD ib 0) := hdb
    rw [e1, e2, e3, hbp]; ring
  -- new p and c
  have hlc' : (vadd s.c (smul (tcur - s.tOld) s.p)).length = k := by
    rw [vadd_length, smul_length, h.len_c, h.len_p, Nat.min_self]
  have hlp' : (vadd s.p (smul (i.g.getD ib 0) (i.W.getD ib []))).length = k := by
    rw [vadd_length, smul_length, h.len_p, hlw, Nat.min_self]
  have hc' : vec k (vadd s.c (smul (tcur - s.tOld) s.p)) = (wmat n k i.W)ᵀ *ᵥ ((zOf i n s) + (tcur - s.tOld) • (vec n s.d)) := by
    rw [vec_vadd k _ _ h.len_c (by rw [smul_length, h.len_p]), vec_smul k _ _ h.len_p, h.c_eq, h.p_eq,
      mulVec_add, mulVec_smul]
  have hwrow : vec k (i.W.getD ib []) = (wmat n k i.W) (⟨ib, hib⟩ : Fin n) := rfl
  have hsingle : (wmat n k i.W)ᵀ *ᵥ (Pi.single (⟨ib, hib⟩ : Fin n) (i.g.getD ib 0)) = (i.g.getD ib 0) • (wmat n k i.W) (⟨ib, hib⟩ : Fin n) := by
    funext j
    simp only [mulVec, dotProduct_single, transpose_apply, Pi.smul_apply, smul_eq_mul]
    ring
  have hp' : vec k (vadd s.p (smul (i.g.getD ib 0) (i.W.getD ib []))) = (wmat n k i.W)ᵀ *ᵥ ((vec n s.d) + Pi.single (⟨ib, hib⟩ : Fin n) (i.g.getD ib 0)) := by
    rw [vec_vadd k _ _ h.len_p (by rw [smul_length, hlw]), vec_smul k _ _ hlw, h.p_eq, mulVec_add, hsingle, hwrow]
  -- dot products with the middle matrix
  have hdot1 : dot (i.W.getD ib []) (i.mv (vadd s.c (smul (tcur - s.tOld) s.p))) =
      (wmat n k i.W) (⟨ib, hib⟩ : Fin n) ⬝ᵥ (Mm *ᵥ ((wmat n k i.W)ᵀ *ᵥ ((zOf i n s) + (tcur - s.tOld) • (vec n s.d)))) := by
    obtain ⟨l1, l2⟩ := hq.hmv _ hlc'
    rw [dot_vec k _ _ hlw l1, l2, hc', hwrow]
  have hl2p : (vadd (smul (1 + 1) s.p) (smul (i.g.getD ib 0) (i.W.getD ib []))).length = k := by
    rw [vadd_length, smul_length, smul_length, h.len_p, hlw, Nat.min_self]
  have h2p : vec k (vadd (smul (1 + 1) s.p) (smul (i.g.getD ib 0) (i.W.getD ib []))) =
      (wmat n k i.W)ᵀ *ᵥ ((1 + 1 : K) • (vec n s.d) + (i.g.getD ib 0) • Pi.single (⟨ib, hib⟩ : Fin n) 1) := by
    rw [vec_vadd k _ _ (by rw [smul_length, h.len_p]) (by rw [smul_length, hlw]), vec_smul k _ _ h.len_p,
      vec_smul k _ _ hlw, h.p_eq, mulVec_add, mulVec_smul, mulVec_smul, hwrow]
    congr 2
    funext j
    simp only [mulVec, dotProduct_single, transpose_apply]
    ring
  have hdot2 : dot (i.W.getD ib []) (i.mv (vadd (smul (1 + 1) s.p) (smul (i.g.getD ib 0) (i.W.getD ib [])))) =
      (wmat n k i.W) (⟨ib, hib⟩ : Fin n) ⬝ᵥ (Mm *ᵥ ((wmat n k i.W)ᵀ *ᵥ ((1 + 1 : K) • (vec n s.d) + (i.g.getD ib 0) • Pi.single (⟨ib, hib⟩ : Fin n) 1))) := by
    obtain ⟨l1, l2⟩ := hq.hmv _ hl2p
    rw [dot_vec k _ _ hlw l1, l2, h2p, hwrow]
  -- the raw f'' before the floor
  have hGib : vec n i.g (⟨ib, hib⟩ : Fin n) = (i.g.getD ib 0) := rfl
  have hf2raw : vec n (s.d.set ib 0) ≠ 0 →
      s.f2 - (i.g.getD ib 0) * (i.g.getD ib 0) * i.theta - (i.g.getD ib 0) * dot (i.W.getD ib []) (i.mv (vadd (smul (1 + 1) s.p) (smul (i.g.getD ib 0) (i.W.getD ib [])))) =
      vec n (s.d.set ib 0) ⬝ᵥ ((bmat i.theta (wmat n k i.W) Mm) *ᵥ vec n (s.d.set ib 0)) := by
    intro _
    have hDne : (vec n s.d) ≠ 0 := by
      intro h0
      have : (vec n s.d) (⟨ib, hib⟩ : Fin n) = 0 := by rw [h0]; rfl
      rw [hDib] at this
      exact hgne (neg_eq_zero.1 this)
    rw [hD', f2_update (bmat i.theta (wmat n k i.W) Mm) hBs (vec n s.d) (⟨ib, hib⟩ : Fin n) (i.g.getD ib 0), ← h.f2_eq hDne, hdot2, bmat_row]
    simp only [Pi.add_apply, Pi.smul_apply, smul_eq_mul, Pi.single_eq_same, hDib]
    ring
  refine ⟨hlp', hlc', ?_, ?_, ?_, ?_, rfl⟩
  · show vec k (vadd s.p (smul (i.g.getD ib 0) (i.W.getD ib []))) = (wmat n k i.W)ᵀ *ᵥ vec n (s.d.set ib 0)
    rw [hD', hp']
  · rw [hZ']; exact hc'
  · rw [hZ']
    show (if i.useFactor then _ else _) = vec n i.g ⬝ᵥ vec n (s.d.set ib 0) + vec n (s.d.set ib 0) ⬝ᵥ _
    rw [uf_uniform, hD', f1_update (bmat i.theta (wmat n k i.W) Mm) (vec n i.g) (vec n s.d) (zOf i n s) (⟨ib, hib⟩ : Fin n) (tcur - s.tOld) (i.g.getD ib 0) hGib, hxbv, hdot1, bmat_row, ← hzb]
    by_cases hDne : (vec n s.d) = 0
    · exfalso
      have : (vec n s.d) (⟨ib, hib⟩ : Fin n) = 0 := by rw [hDne]; rfl
      rw [hDib] at this
      exact hgne (neg_eq_zero.1 this)
    · rw [← h.f2_eq hDne, ← h.f1_eq]
      ring
  · intro hne
    show fmax (if i.useFactor then _ else _) _ = _
    rw [uf_uniform, hfloor _ hne (hf2raw hne)]
    exact hf2raw hne

end Lbfgsb
