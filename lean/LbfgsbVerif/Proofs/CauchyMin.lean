/-
  C08: the generalized Cauchy point is the FIRST LOCAL MINIMISER of the quadratic model along the
  projected path (ordered field; exact product with a symmetric middle matrix; positive-definite
  model; floor on `f''` inactive).
-/
import LbfgsbVerif.Proofs.CauchySeg
import Mathlib.Tactic.Positivity

namespace Lbfgsb
open Matrix
variable {K : Type} [Field K] [LinearOrder K] [IsStrictOrderedRing K]

/-- the quadratic model `m(z) = gᵀz + ½ zᵀBz` -/
def qmodel {n : Nat} (G : Fin n → K) (B : Matrix (Fin n) (Fin n) K) (z : Fin n → K) : K :=
  G ⬝ᵥ z + (1 / 2) * (z ⬝ᵥ (B *ᵥ z))

theorem qmodel_line {n : Nat} (G : Fin n → K) (B : Matrix (Fin n) (Fin n) K) (hB : Bᵀ = B)
    (Z D : Fin n → K) (τ : K) :
    qmodel G B (Z + τ • D) =
      qmodel G B Z + τ * (G ⬝ᵥ D + D ⬝ᵥ (B *ᵥ Z)) + (1 / 2) * τ * τ * (D ⬝ᵥ (B *ᵥ D)) := by
  unfold qmodel
  rw [dotProduct_add, dotProduct_smul, mulVec_add, mulVec_smul, add_dotProduct, dotProduct_add, dotProduct_add,
    smul_dotProduct, smul_dotProduct, dotProduct_smul, dotProduct_smul, quad_symm B hB Z D]
  simp only [smul_eq_mul]
  ring

/-- a parabola `c + τ a + ½ τ² b` with `b > 0` whose derivative at `δ` is still `≤ 0` is strictly
decreasing on `[0, δ]` -/
theorem parab_dec (a b δ p q : K) (hb : 0 < b) (hend : a + δ * b ≤ 0) (hp : 0 ≤ p) (hpq : p < q) (hq : q ≤ δ) :
    q * a + (1 / 2) * q * q * b < p * a + (1 / 2) * p * p * b := by
  have h1 : (p + q) / 2 < δ := by linarith
  have h2 : a + (p + q) / 2 * b < 0 := by
    have : (p + q) / 2 * b < δ * b := mul_lt_mul_of_pos_right h1 hb
    linarith
  have h3 : (q - p) * (a + (p + q) / 2 * b) < 0 := mul_neg_of_pos_of_neg (by linarith) h2
  have e : q * a + (1 / 2) * q * q * b - (p * a + (1 / 2) * p * p * b) = (q - p) * (a + (p + q) / 2 * b) := by ring
  linarith

/-- … and beyond its vertex (or from the start when `a ≥ 0`) it does not go below the vertex value -/
theorem parab_min (a b m q : K) (hb : 0 ≤ b) (hm : a + m * b ≥ 0) (hmq : m ≤ q) :
    m * a + (1 / 2) * m * m * b ≤ q * a + (1 / 2) * q * q * b := by
  have h2 : 0 ≤ a + (m + q) / 2 * b := by
    have : m * b ≤ (m + q) / 2 * b := mul_le_mul_of_nonneg_right (by linarith) hb
    linarith
  have h3 : 0 ≤ (q - m) * (a + (m + q) / 2 * b) := mul_nonneg (by linarith) h2
  have e : q * a + (1 / 2) * q * q * b - (m * a + (1 / 2) * m * m * b) = (q - m) * (a + (m + q) / 2 * b) := by ring
  linarith

/-! ### the loop -/

/-- breakpoints of a feasible point are non-negative -/
theorem bp1_nonneg (x g l u v : K) (hl : l ≤ x) (hu : x ≤ u) (h : C01.bp1 x g l u = some v) : 0 ≤ v := by
  unfold C01.bp1 at h
  split at h
  · cases h
  · split at h
    · rename_i hg
      simp only [Option.some.injEq] at h
      rw [← h]
      exact div_nonneg_of_nonpos (by linarith) (le_of_lt hg)
    · rename_i hg0 hg
      simp only [Option.some.injEq] at h
      rw [← h]
      exact div_nonneg (by linarith) (not_lt.1 hg)

/-- the state after passing a breakpoint satisfies the path invariant with that variable pinned -/
theorem advance_pathinv (i : CauchyIn K) (t : List (Option K)) (d0 : Vec K) (f2org : K) (s : CauchySt K)
    (P : List Nat) (ib : Nat) (tcur : K) (hi : PathInv i t d0 s P) (hib : ib < i.x.length) (hnp : ib ∉ P)
    (htc : t.getD ib none = some tcur) (htcur : 0 < tcur) (hle : s.tOld ≤ tcur)
    (hdd : d0.getD ib 0 = -(i.g.getD ib 0)) (hgne : i.g.getD ib 0 ≠ 0) :
    PathInv i t d0 (cauchyAdvance i f2org s ib tcur) (ib :: P) := by
  obtain ⟨hfx, hfd⟩ := hi.free ib hib hnp
  have hdb : s.d.getD ib 0 = -(i.g.getD ib 0) := by rw [hfd, hdd]
  unfold cauchyAdvance
  dsimp only
  refine ⟨by simp [hi.len_x], by simp [hi.len_d], le_of_lt htcur, ?_, ?_⟩
  · intro j hj
    rcases List.mem_cons.1 hj with rfl | hj
    · refine ⟨hib, tcur, htc, htcur, le_refl _, ?_, ?_⟩
      · rw [getD_set, if_pos ⟨rfl, by rw [hi.len_d]; exact hib⟩]
      · rw [getD_set, if_pos ⟨rfl, by rw [hi.len_x]; exact hib⟩, hdb]
        unfold headBound
        by_cases hg : i.g.getD j 0 < 0
        · rw [if_pos (by linarith), if_pos hg]
        · have hgp : 0 < i.g.getD j 0 := lt_of_le_of_ne (not_lt.1 hg) (Ne.symm hgne)
          rw [if_neg (by linarith), if_pos (by linarith), if_neg hg]
    · obtain ⟨hjn, v, hv, hv0, hvt, hdj, hxj⟩ := hi.pinned j hj
      have hne : ib ≠ j := fun h => hnp (h ▸ hj)
      refine ⟨hjn, v, hv, hv0, le_trans hvt hle, ?_, ?_⟩
      · rw [getD_set, if_neg (fun h => hne h.1)]; exact hdj
      · rw [getD_set, if_neg (fun h => hne h.1)]; exact hxj
  · intro j hj hjn
    have hne : ib ≠ j := fun h => hjn (h ▸ List.mem_cons_self ..)
    have hjP : j ∉ P := fun h => hjn (List.mem_cons_of_mem _ h)
    obtain ⟨h1, h2⟩ := hi.free j hj hjP
    constructor
    · rw [getD_set, if_neg (fun h => hne h.1)]; exact h1
    · rw [getD_set, if_neg (fun h => hne h.1)]; exact h2

/-- under the path invariant every direction component is `0` or the initial one -/
theorem pathinv_pattern (i : CauchyIn K) (t : List (Option K)) (d0 : Vec K) (s : CauchySt K) (P : List Nat)
    (n : Nat) (hn : i.x.length = n) (hi : PathInv i t d0 s P) (r : Fin n) :
    vec n s.d r = 0 ∨ vec n s.d r = vec n d0 r := by
  by_cases hr : (r : Nat) ∈ P
  · left; exact (hi.pinned r hr).2.choose_spec.2.2.2.1
  · right; exact (hi.free r (by rw [hn]; exact r.2) hr).2

/-- the model value along the projected path -/
def phi (i : CauchyIn K) (n k : Nat) (Mm : Matrix (Fin k) (Fin k) K) (τ : K) : K :=
  qmodel (vec n i.g) (bmat i.theta (wmat n k i.W) Mm) (vec n (pathAt i τ) - vec n i.x)

/-- at `τ` the path is on the current segment of state `s` -/
def SegAt (i : CauchyIn K) (n : Nat) (s : CauchySt K) (τ : K) : Prop :=
  vec n (pathAt i τ) - vec n i.x = zOf i n s + (τ - s.tOld) • vec n s.d

/-- hypotheses of the minimiser theorem -/
structure MinCtx (i : CauchyIn K) (n k : Nat) (Mm : Matrix (Fin k) (Fin k) K) (f2org : K) : Prop where
  q : QCtx i n k Mm
  box : InBoxF i.lb i.ub i.x
  /-- the limited-memory model is positive definite -/
  pd : ∀ a : Fin n → K, a ≠ 0 → 0 < a ⬝ᵥ (bmat i.theta (wmat n k i.W) Mm *ᵥ a)
  /-- the floor `eps·f''₀` on `f''` stays inactive -/
  floor : ∀ dd : Fin n → K, dd ≠ 0 →
    (∀ r, dd r = 0 ∨ dd r = vec n (cauchyD0 (breakpoints i.x i.g i.lb i.ub) i.g) r) →
    i.epsFsec * f2org ≤ dd ⬝ᵥ (bmat i.theta (wmat n k i.W) Mm *ᵥ dd)

theorem phi_seg (i : CauchyIn K) (n k : Nat) (Mm : Matrix (Fin k) (Fin k) K) (hsym : Mmᵀ = Mm)
    (s : CauchySt K) (hd : DInv i n k Mm s) (τ : K) (hseg : SegAt i n s τ) :
    phi i n k Mm τ = qmodel (vec n i.g) (bmat i.theta (wmat n k i.W) Mm) (zOf i n s) + (τ - s.tOld) * s.f1 +
      (1 / 2) * (τ - s.tOld) * (τ - s.tOld) *
        (vec n s.d ⬝ᵥ (bmat i.theta (wmat n k i.W) Mm *ᵥ vec n s.d)) := by
  unfold phi
  rw [hseg, qmodel_line _ _ (bmat_symm _ _ _ hsym), ← hd.f1_eq]

/-- strict decrease of `phi` on `[0, T]` -/
def Dec (i : CauchyIn K) (n k : Nat) (Mm : Matrix (Fin k) (Fin k) K) (T : K) : Prop :=
  ∀ p q, 0 ≤ p → p < q → q ≤ T → phi i n k Mm q < phi i n k Mm p

theorem Dec.concat {i : CauchyIn K} {n k : Nat} {Mm : Matrix (Fin k) (Fin k) K} {T0 T : K}
    (h0 : Dec i n k Mm T0) (hT0 : 0 ≤ T0)
    (h1 : ∀ p q, T0 ≤ p → p < q → q ≤ T → phi i n k Mm q < phi i n k Mm p) : Dec i n k Mm T := by
  intro p q hp hpq hq
  by_cases hq0 : q ≤ T0
  · exact h0 p q hp hpq hq0
  · by_cases hp0 : T0 ≤ p
    · exact h1 p q hp0 hpq hq
    · have a := h1 T0 q (le_refl _) (not_le.1 hq0) hq
      have b := h0 p T0 hp (not_le.1 hp0) (le_refl _)
      exact lt_trans a b

/-- on a segment whose end still has a non-positive derivative `phi` decreases strictly -/
theorem seg_dec (i : CauchyIn K) (n k : Nat) (Mm : Matrix (Fin k) (Fin k) K) (hsym : Mmᵀ = Mm)
    (s : CauchySt K) (hd : DInv i n k Mm s) (T : K)
    (hpos : 0 < vec n s.d ⬝ᵥ (bmat i.theta (wmat n k i.W) Mm *ᵥ vec n s.d))
    (hend : s.f1 + (T - s.tOld) * (vec n s.d ⬝ᵥ (bmat i.theta (wmat n k i.W) Mm *ᵥ vec n s.d)) ≤ 0)
    (hseg : ∀ τ, s.tOld ≤ τ → τ ≤ T → SegAt i n s τ) :
    ∀ p q, s.tOld ≤ p → p < q → q ≤ T → phi i n k Mm q < phi i n k Mm p := by
  intro p q hp hpq hq
  rw [phi_seg i n k Mm hsym s hd q (hseg q (by linarith) hq),
    phi_seg i n k Mm hsym s hd p (hseg p hp (by linarith))]
  have := parab_dec s.f1 _ (T - s.tOld) (p - s.tOld) (q - s.tOld) hpos hend (by linarith) (by linarith) (by linarith)
  linarith

/-- facts about a variable with a positive finite breakpoint -/
theorem bp_some_facts (i : CauchyIn K) (hx : InBoxF i.lb i.ub i.x) (hg : i.g.length = i.x.length)
    (j : Nat) (hj : j < i.x.length) (v : K) (hv : (breakpoints i.x i.g i.lb i.ub).getD j none = some v)
    (hv0 : 0 < v) :
    i.g.getD j 0 ≠ 0 ∧ (cauchyD0 (breakpoints i.x i.g i.lb i.ub) i.g).getD j 0 = -(i.g.getD j 0) ∧
      headBound i j = i.x.getD j 0 - v * i.g.getD j 0 := by
  obtain ⟨hll, hul⟩ := inBoxF_lengths hx
  have hbt : (breakpoints i.x i.g i.lb i.ub).length = i.x.length :=
    C08.breakpoints_length _ _ _ _ hg hll hul
  have hb := getD_breakpoints i.x i.g i.lb i.ub j hj hg hll hul
  rw [hv] at hb
  have hgne : i.g.getD j 0 ≠ 0 := by
    intro h0'
    unfold C01.bp1 at hb
    rw [if_pos ((C01.feq_zero_iff _).2 h0')] at hb
    cases hb
  refine ⟨hgne, ?_, ?_⟩
  · rw [getD_cauchyD0 _ _ j (by rw [hg]; exact hj) (by rw [hbt, hg]), hv]
    simp only [C01.d01]
    rw [if_neg (fun h => (ne_of_gt hv0) ((C01.feq_zero_iff v).1 h))]
  · unfold C01.bp1 at hb
    rw [if_neg (fun h => hgne ((C01.feq_zero_iff _).1 h))] at hb
    unfold headBound
    by_cases hgn : i.g.getD j 0 < 0
    · rw [if_pos hgn] at hb ⊢
      simp only [Option.some.injEq] at hb
      rw [hb]; field_simp; ring
    · rw [if_neg hgn] at hb ⊢
      simp only [Option.some.injEq] at hb
      rw [hb]; field_simp; ring

/-- `SegAt` holds up to the smallest breakpoint of the variables still moving -/
theorem seg_of_cover (i : CauchyIn K) (n : Nat) (hn : i.x.length = n) (hx : InBoxF i.lb i.ub i.x)
    (hg : i.g.length = i.x.length) (s : CauchySt K) (P rest : List Nat)
    (hi : PathInv i (breakpoints i.x i.g i.lb i.ub) (cauchyD0 (breakpoints i.x i.g i.lb i.ub) i.g) s P)
    (cover : ∀ j, j < n → j ∉ P → bpPos ((breakpoints i.x i.g i.lb i.ub).getD j none) = true → j ∈ rest)
    (T : K) (hT : ∀ j ∈ rest, ∀ v, (breakpoints i.x i.g i.lb i.ub).getD j none = some v → T ≤ v)
    (τ : K) (h1 : s.tOld ≤ τ) (h2 : τ ≤ T) : SegAt i n s τ := by
  obtain ⟨hll, hul⟩ := inBoxF_lengths hx
  apply seg_vec i n hn hx hg s P hi τ h1
  intro j hj hjP v hv hv0
  have hb := getD_breakpoints i.x i.g i.lb i.ub j hj hg hll hul
  rw [hv] at hb
  obtain ⟨hlj, huj⟩ := inBoxF_getD hx j hj
  have hvn : 0 ≤ v := bp1_nonneg _ _ _ _ v hlj huj hb.symm
  have hvp : 0 < v := lt_of_le_of_ne hvn (Ne.symm hv0)
  have hmem := cover j (by rw [← hn]; exact hj) hjP (by rw [hv]; simpa [bpPos] using hvp)
  exact le_trans h2 (hT j hmem v hv)

/-- the invariant of the breakpoint loop: path, derivatives, strict decrease so far, and what is
known about the breakpoints still to come (`rest`) or about the segment where the search stopped -/
structure CInv (i : CauchyIn K) (n k : Nat) (Mm : Matrix (Fin k) (Fin k) K) (s : CauchySt K)
    (P rest : List Nat) : Prop where
  path : PathInv i (breakpoints i.x i.g i.lb i.ub) (cauchyD0 (breakpoints i.x i.g i.lb i.ub) i.g) s P
  der : DInv i n k Mm s
  dec : Dec i n k Mm s.tOld
  live : s.found = false →
    (∀ j, j < n → j ∉ P → bpPos ((breakpoints i.x i.g i.lb i.ub).getD j none) = true → j ∈ rest) ∧
    (∀ j ∈ rest, ∀ v, (breakpoints i.x i.g i.lb i.ub).getD j none = some v → s.tOld ≤ v)
  done : s.found = true →
    ∃ δ, 0 < δ ∧ s.dtm < δ ∧ ∀ τ, s.tOld ≤ τ → τ ≤ s.tOld + δ → SegAt i n s τ
  /-- a non-zero initial direction means the search leaves `t = 0` -/
  pos : vec n (cauchyD0 (breakpoints i.x i.g i.lb i.ub) i.g) ≠ 0 →
    0 < s.tOld ∨ (0 < s.dtm ∧ vec n s.d ≠ 0)

theorem step_cinv (i : CauchyIn K) (n k : Nat) (Mm : Matrix (Fin k) (Fin k) K) (f2org : K)
    (hc : MinCtx i n k Mm f2org) (s : CauchySt K) (P : List Nat) (ib : Nat) (rest : List Nat)
    (h : CInv i n k Mm s P (ib :: rest)) (hib : ib < n) (hnp : ib ∉ P)
    (hpos : bpPos ((breakpoints i.x i.g i.lb i.ub).getD ib none) = true) (hnd : ib ∉ rest)
    (hsort : ∀ j ∈ rest, bpLe ((breakpoints i.x i.g i.lb i.ub).getD ib none)
      ((breakpoints i.x i.g i.lb i.ub).getD j none) = true) :
    ∃ P', (P' = P ∨ P' = ib :: P) ∧
      CInv i n k Mm (cauchyStep i (breakpoints i.x i.g i.lb i.ub) f2org s ib) P' rest := by
  have hn := hc.q.hx
  have hg : i.g.length = i.x.length := by rw [hc.q.hg, hn]
  have hibx : ib < i.x.length := by rw [hn]; exact hib
  rcases cauchyStep_cases i (breakpoints i.x i.g i.lb i.ub) f2org s ib with ⟨hf, he⟩ | ⟨hf, he, why⟩ |
    ⟨tcur, htc, hf, hns, he⟩
  · -- already found
    rw [he]
    exact ⟨P, Or.inl rfl, h.path, h.der, h.dec, (fun h' => by rw [hf] at h'; cases h'), h.done, h.pos⟩
  · -- the search stops in this segment
    rw [he]
    obtain ⟨cover, hge⟩ := h.live hf
    refine ⟨P, Or.inl rfl, ⟨h.path.len_x, h.path.len_d, h.path.tOld_nonneg, h.path.pinned, h.path.free⟩,
      ⟨h.der.len_p, h.der.len_c, h.der.p_eq, h.der.c_eq, h.der.f1_eq, h.der.f2_eq, h.der.dtm_eq⟩, h.dec,
      (fun h' => by cases h'), fun _ => ?_, h.pos⟩
    rcases why with hnone | ⟨tcur, htc, hlt, hdt⟩
    · refine ⟨max s.dtm 0 + 1, by positivity, by
        have := le_max_left s.dtm 0
        show s.dtm < max s.dtm 0 + 1
        linarith, ?_⟩
      intro τ h1 _
      show SegAt i n s τ
      refine seg_of_cover i n hn hc.box hg s P (ib :: rest) h.path cover τ ?_ τ h1 (le_refl _)
      intro j hj v hv
      exfalso
      rcases List.mem_cons.1 hj with rfl | hj
      · rw [hnone] at hv; cases hv
      · have := hsort j hj
        rw [hnone, hv] at this
        simp [bpLe] at this
    · refine ⟨tcur - s.tOld, hdt, hlt, ?_⟩
      intro τ h1 h2
      show SegAt i n s τ
      refine seg_of_cover i n hn hc.box hg s P (ib :: rest) h.path cover tcur ?_ τ h1 (by
        have : s.tOld + (tcur - s.tOld) = tcur := by ring
        show τ ≤ tcur
        rw [← this]; exact h2)
      intro j hj v hv
      rcases List.mem_cons.1 hj with rfl | hj
      · rw [htc] at hv; simp only [Option.some.injEq] at hv; rw [hv]
      · have := hsort j hj
        rw [htc, hv] at this
        simpa [bpLe] using this
  · -- the breakpoint is passed
    rw [he]
    obtain ⟨cover, hge⟩ := h.live hf
    have htcur : 0 < tcur := by rw [htc] at hpos; simpa [bpPos] using hpos
    have hle : s.tOld ≤ tcur := hge ib (List.mem_cons_self ..) tcur htc
    obtain ⟨hgne, hdd, hbp⟩ := bp_some_facts i hc.box hg ib hibx tcur htc htcur
    obtain ⟨hfx, hfd⟩ := h.path.free ib hibx hnp
    have hdb : s.d.getD ib 0 = -(i.g.getD ib 0) := by rw [hfd, hdd]
    have hpath' := advance_pathinv i _ _ f2org s P ib tcur h.path hibx hnp htc htcur hle hdd hgne
    have hDne : vec n s.d ≠ 0 := by
      intro h0
      have : vec n s.d ⟨ib, hib⟩ = 0 := by rw [h0]; rfl
      have e : vec n s.d ⟨ib, hib⟩ = -(i.g.getD ib 0) := hdb
      rw [e] at this
      exact hgne (neg_eq_zero.1 this)
    have hf2 := h.der.f2_eq hDne
    have hf2pos := hc.pd _ hDne
    have hder' : DInv i n k Mm (cauchyAdvance i f2org s ib tcur) := by
      refine advance_dinv i n k Mm hc.q f2org s ib tcur hib (by rw [h.path.len_x, hn]) (by rw [h.path.len_d, hn])
        hfx hdb hgne hbp ?_ h.der
      intro raw hne hraw
      unfold fmax
      rw [if_neg]
      rw [not_lt, hraw]
      exact hc.floor _ hne (fun r => pathinv_pattern i _ _ _ (ib :: P) n hn hpath' r)
    -- validity of the segment formula up to the breakpoint
    have hseg : ∀ τ, s.tOld ≤ τ → τ ≤ tcur → SegAt i n s τ := by
      intro τ h1 h2
      refine seg_of_cover i n hn hc.box hg s P (ib :: rest) h.path cover tcur ?_ τ h1 h2
      intro j hj v hv
      rcases List.mem_cons.1 hj with rfl | hj
      · rw [htc] at hv; simp only [Option.some.injEq] at hv; rw [hv]
      · have := hsort j hj
        rw [htc, hv] at this
        simpa [bpLe] using this
    have hdec' : Dec i n k Mm tcur := by
      refine Dec.concat h.dec h.path.tOld_nonneg ?_
      by_cases hdt : 0 < tcur - s.tOld
      · have hge' : tcur - s.tOld ≤ s.dtm := by
          by_contra hcon
          exact hns ⟨not_le.1 hcon, hdt⟩
        rw [h.der.dtm_eq, hf2, le_div_iff₀ hf2pos] at hge'
        refine seg_dec i n k Mm hc.q.hsym s h.der tcur hf2pos (by linarith) hseg
      · intro p q hp hpq hq
        exfalso; linarith
    refine ⟨ib :: P, Or.inr rfl, hpath', hder', hdec', fun _ => ⟨?_, ?_⟩, fun h' => ?_, fun _ => Or.inl htcur⟩
    · intro j hj hjn hjpos
      have hjP : j ∉ P := fun hh => hjn (List.mem_cons_of_mem _ hh)
      have hne : j ≠ ib := fun hh => hjn (hh ▸ List.mem_cons_self ..)
      rcases List.mem_cons.1 (cover j hj hjP hjpos) with hh | hh
      · exact absurd hh hne
      · exact hh
    · intro j hj v hv
      have := hsort j hj
      rw [htc, hv] at this
      show tcur ≤ v
      simpa [bpLe] using this
    · have : (cauchyAdvance i f2org s ib tcur).found = s.found := rfl
      rw [this, hf] at h'; cases h'

/-! ### initial state, the fold, the final step -/

/-- `k = 2m` as `cauchy` reads it off `W` -/
def kOf (i : CauchyIn K) : Nat := match i.W with | r :: _ => r.length | [] => 0

/-- the initial `f''` without the memory term (`f2_org`) -/
def f2orgOf (i : CauchyIn K) : K :=
  -(i.theta * -(dot (cauchyD0 (breakpoints i.x i.g i.lb i.ub) i.g) (cauchyD0 (breakpoints i.x i.g i.lb i.ub) i.g)))

/-- the state the loop starts from -/
def cauchyInit (i : CauchyIn K) : CauchySt K :=
  let k := kOf i
  let t := breakpoints i.x i.g i.lb i.ub
  let d0 := cauchyD0 t i.g
  let p0 := wtv i.W d0 k
  let c0 : Vec K := p0.map fun _ => 0
  let f1 := -(dot d0 d0)
  let f2org := -(i.theta * f1)
  let f2 := if i.useFactor then f2org - dot p0 (i.mv p0) else f2org
  { xcp := i.x, d := d0, p := p0, c := c0, f1 := f1, f2 := f2, dtm := -f1 / f2, tOld := 0, found := false }

/-- the value `cauchy` returns from the final loop state -/
def cauchyFinish (i : CauchyIn K) (s : CauchySt K) : Vec K × Vec K :=
  let dtm := if s.dtm < 0 then 0 else s.dtm
  let dtm := if s.d.all (fun a => feq a 0) then 0 else dtm
  let tOld := s.tOld + dtm
  (clip (vadd s.xcp (smul tOld s.d)) i.lb i.ub, vadd s.c (smul dtm s.p))

theorem cauchy_eq (i : CauchyIn K) :
    cauchy i = if (bpOrder (breakpoints i.x i.g i.lb i.ub)).isEmpty then (i.x, (cauchyInit i).c)
      else cauchyFinish i ((bpOrder (breakpoints i.x i.g i.lb i.ub)).foldl
        (cauchyStep i (breakpoints i.x i.g i.lb i.ub) (f2orgOf i)) (cauchyInit i)) := rfl

theorem vec_zeros (k : Nat) (l : List K) : vec k (l.map fun _ => (0 : K)) = 0 := by
  funext j
  simp only [vec, Pi.zero_apply, List.getD_eq_getElem?_getD, List.getElem?_map]
  cases l[(j : Nat)]? <;> simp

theorem uf_uniform' (i : CauchyIn K) (a : K) (w c : List K) :
    (if i.useFactor then a - dot w (i.mv c) else a) = a - dot w (i.mv c) := by
  have := uf_uniform i a 1 w c
  simpa using this

theorem all_zero_iff (n : Nat) (l : List K) (hl : l.length = n) :
    l.all (fun a => feq a 0) = true ↔ vec n l = 0 := by
  simp only [List.all_eq_true]
  constructor
  · intro h
    funext r
    have hr : (r : Nat) < l.length := by rw [hl]; exact r.2
    have := h (l[(r : Nat)]) (List.getElem_mem hr)
    simp only [vec, Pi.zero_apply, List.getD_eq_getElem?_getD, List.getElem?_eq_getElem hr, Option.getD_some]
    exact (C01.feq_zero_iff _).1 this
  · intro h a ha
    obtain ⟨j, hj, rfl⟩ := List.getElem_of_mem ha
    have := congrFun h ⟨j, by rw [← hl]; exact hj⟩
    simp only [vec, Pi.zero_apply, List.getD_eq_getElem?_getD, List.getElem?_eq_getElem hj, Option.getD_some] at this
    exact (C01.feq_zero_iff _).2 this

theorem dot_self_pos {n : Nat} (a : Fin n → K) (ha : a ≠ 0) : 0 < a ⬝ᵥ a := by
  have : ∃ r, a r ≠ 0 := by
    by_contra hcon
    push_neg at hcon
    exact ha (funext hcon)
  obtain ⟨r, hr⟩ := this
  exact Finset.sum_pos' (fun j _ => mul_self_nonneg (a j)) ⟨r, Finset.mem_univ _, mul_self_pos.2 hr⟩

/-- `g·d₀ = −d₀·d₀` -/
theorem init_gd (i : CauchyIn K) (n : Nat) (hgn : i.g.length = n) (hxn : i.x.length = n)
    (hx : InBoxF i.lb i.ub i.x) :
    vec n i.g ⬝ᵥ vec n (cauchyInit i).d = -(vec n (cauchyInit i).d ⬝ᵥ vec n (cauchyInit i).d) := by
  obtain ⟨hll, hul⟩ := inBoxF_lengths hx
  have hg : i.g.length = i.x.length := by rw [hgn, hxn]
  have hbt : (breakpoints i.x i.g i.lb i.ub).length = i.x.length :=
    C08.breakpoints_length _ _ _ _ hg hll hul
  simp only [dotProduct, ← Finset.sum_neg_distrib]
  apply Finset.sum_congr rfl
  intro r _
  have hr : (r : Nat) < i.g.length := by rw [hgn]; exact r.2
  have : vec n (cauchyInit i).d r = C01.d01 ((breakpoints i.x i.g i.lb i.ub).getD r none) (i.g.getD r 0) :=
    getD_cauchyD0 _ _ r hr (by rw [hbt, hg])
  rw [this]
  simp only [vec, C01.d01]
  split
  · split <;> ring
  · ring

theorem init_dinv (i : CauchyIn K) (n k : Nat) (Mm : Matrix (Fin k) (Fin k) K) (hq : QCtx i n k Mm)
    (hk : kOf i = k) (hx : InBoxF i.lb i.ub i.x) : DInv i n k Mm (cauchyInit i) := by
  obtain ⟨hll, hul⟩ := inBoxF_lengths hx
  have hg : i.g.length = i.x.length := by rw [hq.hg, hq.hx]
  have hbt : (breakpoints i.x i.g i.lb i.ub).length = i.x.length :=
    C08.breakpoints_length _ _ _ _ hg hll hul
  have hd0l : (cauchyD0 (breakpoints i.x i.g i.lb i.ub) i.g).length = n := by
    rw [C08.cauchyD0_length _ _ (by rw [hbt, hg]), hq.hg]
  have hz : zOf i n (cauchyInit i) = 0 := by
    funext r
    simp [zOf, cauchyInit]
  have hp : vec k (cauchyInit i).p = (wmat n k i.W)ᵀ *ᵥ vec n (cauchyInit i).d := by
    show vec k (wtv i.W _ (kOf i)) = _
    rw [hk]
    exact vec_wtv n k i.W _ hq.hW hd0l
  have hlp : (cauchyInit i).p.length = k := by
    show (wtv i.W _ (kOf i)).length = k
    rw [wtv_length, hk]
  have hgd := init_gd i n hq.hg hq.hx hx
  refine ⟨hlp, by show (List.map _ _).length = k; rw [List.length_map]; exact hlp, hp, ?_, ?_, ?_, rfl⟩
  · rw [hz, mulVec_zero]
    exact vec_zeros k _
  · rw [hz, mulVec_zero, dotProduct_zero, add_zero, hgd]
    show -(dot _ _) = _
    rw [dot_vec n _ _ hd0l hd0l]
    rfl
  · intro _
    show (if i.useFactor then -(i.theta * -(dot (cauchyInit i).d (cauchyInit i).d)) -
        dot (cauchyInit i).p (i.mv (cauchyInit i).p) else -(i.theta * -(dot (cauchyInit i).d (cauchyInit i).d))) = _
    rw [uf_uniform']
    obtain ⟨l1, l2⟩ := hq.hmv _ hlp
    have hd0l' : (cauchyInit i).d.length = n := hd0l
    rw [dot_vec k _ _ hlp l1, l2, hp, bmat_mulVec, dotProduct_sub, dotProduct_smul, smul_eq_mul,
      dot_vec n _ _ hd0l' hd0l']
    have : vec n (cauchyInit i).d ⬝ᵥ (wmat n k i.W *ᵥ (Mm *ᵥ ((wmat n k i.W)ᵀ *ᵥ vec n (cauchyInit i).d))) =
        ((wmat n k i.W)ᵀ *ᵥ vec n (cauchyInit i).d) ⬝ᵥ (Mm *ᵥ ((wmat n k i.W)ᵀ *ᵥ vec n (cauchyInit i).d)) := by
      rw [dotProduct_mulVec, ← mulVec_transpose]
    rw [this]
    ring

theorem fold_cinv (i : CauchyIn K) (n k : Nat) (Mm : Matrix (Fin k) (Fin k) K) (f2org : K)
    (hc : MinCtx i n k Mm f2org) :
    ∀ (rest : List Nat) (s : CauchySt K) (P : List Nat), CInv i n k Mm s P rest →
      (∀ ib ∈ rest, ib < n ∧ ib ∉ P ∧ bpPos ((breakpoints i.x i.g i.lb i.ub).getD ib none) = true) →
      rest.Nodup →
      rest.Pairwise (fun a b => bpLe ((breakpoints i.x i.g i.lb i.ub).getD a none)
        ((breakpoints i.x i.g i.lb i.ub).getD b none) = true) →
      ∃ P', CInv i n k Mm (rest.foldl (cauchyStep i (breakpoints i.x i.g i.lb i.ub) f2org) s) P' [] := by
  intro rest
  induction rest with
  | nil => intro s P h _ _ _; exact ⟨P, h⟩
  | cons ib tl ih =>
    intro s P h hall hnd hsort
    simp only [List.foldl_cons]
    obtain ⟨hib, hnp, hpos⟩ := hall ib (List.mem_cons_self ..)
    have hnd' := List.nodup_cons.1 hnd
    have hsort' := List.pairwise_cons.1 hsort
    obtain ⟨P', hP', hinv⟩ := step_cinv i n k Mm f2org hc s P ib tl h hib hnp hpos hnd'.1 hsort'.1
    refine ih _ P' hinv (fun j hj => ?_) hnd'.2 hsort'.2
    obtain ⟨a, b, c⟩ := hall j (List.mem_cons_of_mem _ hj)
    refine ⟨a, ?_, c⟩
    rcases hP' with rfl | rfl
    · exact b
    · intro hmem
      rcases List.mem_cons.1 hmem with rfl | hmem
      · exact hnd'.1 hj
      · exact b hmem

/-- the loop invariant holds initially -/
theorem init_cinv (i : CauchyIn K) (n k : Nat) (Mm : Matrix (Fin k) (Fin k) K) (f2org : K)
    (hc : MinCtx i n k Mm f2org) (hk : kOf i = k) :
    CInv i n k Mm (cauchyInit i) [] (bpOrder (breakpoints i.x i.g i.lb i.ub)) := by
  obtain ⟨hll, hul⟩ := inBoxF_lengths hc.box
  have hg : i.g.length = i.x.length := by rw [hc.q.hg, hc.q.hx]
  have hbt : (breakpoints i.x i.g i.lb i.ub).length = i.x.length :=
    C08.breakpoints_length _ _ _ _ hg hll hul
  have hd0l : (cauchyD0 (breakpoints i.x i.g i.lb i.ub) i.g).length = i.x.length := by
    rw [C08.cauchyD0_length _ _ (by rw [hbt, hg]), hg]
  refine ⟨⟨rfl, hd0l, le_refl _, by simp, fun j _ _ => ⟨rfl, rfl⟩⟩, init_dinv i n k Mm hc.q hk hc.box, ?_,
    fun _ => ⟨?_, ?_⟩, (fun h' => by cases h'), ?_⟩
  · intro p q hp hpq hq
    exfalso
    have : q ≤ 0 := hq
    linarith
  · intro j hj _ hpos
    exact (C08.order_positive _ j).2 ⟨by rw [hbt, hc.q.hx]; exact hj, hpos⟩
  · intro j hj v hv
    have := ((C08.order_positive _ j).1 hj).2
    rw [hv] at this
    show (0 : K) ≤ v
    exact le_of_lt (by simpa [bpPos] using this)
  · intro hne
    right
    have hd := init_dinv i n k Mm hc.q hk hc.box
    have hne' : vec n (cauchyInit i).d ≠ 0 := hne
    have hpos := hc.pd _ hne'
    refine ⟨?_, hne'⟩
    rw [hd.dtm_eq, hd.f2_eq hne']
    apply div_pos _ hpos
    rw [hd.f1_eq]
    have hz : zOf i n (cauchyInit i) = 0 := by
      funext r
      simp [zOf, cauchyInit]
    rw [hz, mulVec_zero, dotProduct_zero, add_zero, neg_pos]
    -- g·d0 = −d0·d0 < 0
    have hgd : vec n i.g ⬝ᵥ vec n (cauchyInit i).d = -(vec n (cauchyInit i).d ⬝ᵥ vec n (cauchyInit i).d) :=
      init_gd i n hc.q.hg hc.q.hx hc.box
    rw [hgd, neg_neg_iff_pos]
    exact dot_self_pos _ hne'

/-- from the path invariant: `clip (x_cp + t d) = P(x − t g)` for `t ≥ t_old` -/
theorem path_final (i : CauchyIn K) (hx : InBoxF i.lb i.ub i.x) (hg : i.g.length = i.x.length)
    (s : CauchySt K) (P : List Nat) (tF : K)
    (hi : PathInv i (breakpoints i.x i.g i.lb i.ub) (cauchyD0 (breakpoints i.x i.g i.lb i.ub) i.g) s P)
    (hle : s.tOld ≤ tF) :
    clip (vadd s.xcp (smul tF s.d)) i.lb i.ub = pathAt i tF := by
  obtain ⟨hll, hul⟩ := inBoxF_lengths hx
  have hbt : (breakpoints i.x i.g i.lb i.ub).length = i.x.length :=
    C08.breakpoints_length _ _ _ _ hg hll hul
  have htF : 0 ≤ tF := le_trans hi.tOld_nonneg hle
  have l1 : (vadd s.xcp (smul tF s.d)).length = i.x.length := by
    simp only [vadd, smul, vzip_length', List.length_map, hi.len_x, hi.len_d, Nat.min_self]
  have l2 : (vsub i.x (smul tF i.g)).length = i.x.length := by
    simp only [vsub, smul, vzip_length', List.length_map, hg, Nat.min_self]
  unfold pathAt
  apply ext_getD (0 : K)
  · rw [clip_length, clip_length, l1, l2]
  · intro j hj
    rw [clip_length, l1] at hj
    rw [getD_clip _ _ _ _ j (by rw [l1]; exact hj) (by rw [l1]; exact hll) (by rw [l1]; exact hul),
        getD_clip _ _ _ _ j (by rw [l2]; exact hj) (by rw [l2]; exact hll) (by rw [l2]; exact hul)]
    simp only [vadd, vsub, smul]
    rw [getD_vzip _ _ _ _ j (by rw [hi.len_x]; exact hj) (by simp [hi.len_d, hj]),
        getD_vzip _ _ _ _ j hj (by simp [hg, hj]),
        getD_map _ _ _ j (by rw [hi.len_d]; exact hj), getD_map _ _ _ j (by rw [hg]; exact hj)]
    obtain ⟨hlj, huj⟩ := inBoxF_getD hx j hj
    apply path_coord _ _ _ _ tF hlj huj htF
    by_cases hjP : j ∈ P
    · left
      obtain ⟨-, v, hv, hv0, hvt, hdj, hxj⟩ := hi.pinned j hjP
      refine ⟨v, ?_, hv0, le_trans hvt hle, hdj, ?_⟩
      · rw [← getD_breakpoints _ _ _ _ j hj hg hll hul]; exact hv
      · rw [hxj]; rfl
    · right
      obtain ⟨h1', h2'⟩ := hi.free j hj hjP
      refine ⟨h1', ?_⟩
      rw [h2', getD_cauchyD0 _ _ j (by rw [hg]; exact hj) (by rw [hbt, hg]),
        getD_breakpoints _ _ _ _ j hj hg hll hul]

/-- what the minimiser theorem says about a step `tF` -/
structure IsFirstLocalMin (i : CauchyIn K) (n k : Nat) (Mm : Matrix (Fin k) (Fin k) K) (tF : K) : Prop where
  nonneg : 0 ≤ tF
  /-- the model decreases strictly along the path up to `tF`: no local minimiser before it -/
  dec : ∀ p q, 0 ≤ p → p < q → q ≤ tF → phi i n k Mm q < phi i n k Mm p
  /-- and does not go below `phi tF` just after it -/
  right_min : ∃ δ, 0 < δ ∧ ∀ τ, tF ≤ τ → τ ≤ tF + δ → phi i n k Mm tF ≤ phi i n k Mm τ

theorem finish_generic (i : CauchyIn K) (n k : Nat) (Mm : Matrix (Fin k) (Fin k) K) (f2org : K)
    (hc : MinCtx i n k Mm f2org) (s : CauchySt K) (P : List Nat) (h : CInv i n k Mm s P [])
    (δ m : K) (hδ : m < δ) (hm0 : 0 ≤ m)
    (hseg : ∀ τ, s.tOld ≤ τ → τ ≤ s.tOld + δ → SegAt i n s τ)
    (hb : 0 ≤ vec n s.d ⬝ᵥ (bmat i.theta (wmat n k i.W) Mm *ᵥ vec n s.d))
    (hge : 0 ≤ s.f1 + m * (vec n s.d ⬝ᵥ (bmat i.theta (wmat n k i.W) Mm *ᵥ vec n s.d)))
    (hle : m = 0 ∨ (0 < vec n s.d ⬝ᵥ (bmat i.theta (wmat n k i.W) Mm *ᵥ vec n s.d) ∧
      s.f1 + m * (vec n s.d ⬝ᵥ (bmat i.theta (wmat n k i.W) Mm *ᵥ vec n s.d)) ≤ 0)) :
    IsFirstLocalMin i n k Mm (s.tOld + m) ∧
    clip (vadd s.xcp (smul (s.tOld + m) s.d)) i.lb i.ub = pathAt i (s.tOld + m) ∧
    vec k (vadd s.c (smul m s.p)) = (wmat n k i.W)ᵀ *ᵥ (vec n (pathAt i (s.tOld + m)) - vec n i.x) := by
  have hg : i.g.length = i.x.length := by rw [hc.q.hg, hc.q.hx]
  have h0 := h.path.tOld_nonneg
  refine ⟨⟨by linarith, ?_, ?_⟩, path_final i hc.box hg s P _ h.path (by linarith), ?_⟩
  · -- strict decrease up to tF
    refine Dec.concat h.dec h0 ?_
    rcases hle with hm | ⟨hpos, hend⟩
    · intro p q hp hpq hq
      exfalso; rw [hm] at hq; linarith
    · refine seg_dec i n k Mm hc.q.hsym s h.der (s.tOld + m) hpos (by
        have : s.tOld + m - s.tOld = m := by ring
        rw [this]; exact hend) (fun τ h1 h2 => hseg τ h1 (by linarith))
  · -- local minimum from the right
    refine ⟨δ - m, by linarith, ?_⟩
    intro τ h1 h2
    rw [phi_seg i n k Mm hc.q.hsym s h.der τ (hseg τ (by linarith) (by linarith)),
      phi_seg i n k Mm hc.q.hsym s h.der (s.tOld + m) (hseg _ (by linarith) (by linarith))]
    have := parab_min s.f1 _ m (τ - s.tOld) hb hge (by linarith)
    have e : s.tOld + m - s.tOld = m := by ring
    rw [e]
    linarith
  · have hsg := hseg (s.tOld + m) (by linarith) (by linarith)
    unfold SegAt at hsg
    have e : s.tOld + m - s.tOld = m := by ring
    rw [hsg, e, vec_vadd k _ _ h.der.len_c (by rw [smul_length, h.der.len_p]), vec_smul k _ _ h.der.len_p,
      h.der.c_eq, h.der.p_eq, mulVec_add, mulVec_smul]

/-- the step `cauchy` finally takes beyond the last breakpoint passed -/
def lastStep (s : CauchySt K) : K :=
  if s.d.all (fun a => feq a 0) then 0 else if s.dtm < 0 then 0 else s.dtm

theorem cauchyFinish_eq (i : CauchyIn K) (s : CauchySt K) :
    cauchyFinish i s = (clip (vadd s.xcp (smul (s.tOld + lastStep s) s.d)) i.lb i.ub,
      vadd s.c (smul (lastStep s) s.p)) := rfl

theorem finish_claims (i : CauchyIn K) (n k : Nat) (Mm : Matrix (Fin k) (Fin k) K) (f2org : K)
    (hc : MinCtx i n k Mm f2org) (s : CauchySt K) (P : List Nat) (h : CInv i n k Mm s P []) :
    IsFirstLocalMin i n k Mm (s.tOld + lastStep s) ∧
    (cauchyFinish i s).1 = pathAt i (s.tOld + lastStep s) ∧
    vec k (cauchyFinish i s).2 =
      (wmat n k i.W)ᵀ *ᵥ (vec n (pathAt i (s.tOld + lastStep s)) - vec n i.x) := by
  have hn := hc.q.hx
  have hg : i.g.length = i.x.length := by rw [hc.q.hg, hn]
  obtain ⟨hll, hul⟩ := inBoxF_lengths hc.box
  have hbt : (breakpoints i.x i.g i.lb i.ub).length = i.x.length :=
    C08.breakpoints_length _ _ _ _ hg hll hul
  have hld : s.d.length = n := by rw [h.path.len_d, hn]
  rw [cauchyFinish_eq]
  -- a right neighbourhood of t_old on which the segment formula holds
  have hnb : ∃ δ, 0 < δ ∧ (vec n s.d ≠ 0 → s.dtm < δ) ∧
      ∀ τ, s.tOld ≤ τ → τ ≤ s.tOld + δ → SegAt i n s τ := by
    by_cases hf : s.found = true
    · obtain ⟨δ, a, b, c⟩ := h.done hf
      exact ⟨δ, a, fun _ => b, c⟩
    · have hf' : s.found = false := by simpa using hf
      obtain ⟨cover, -⟩ := h.live hf'
      have hD0 : vec n s.d = 0 := by
        funext r
        have hr : (r : Nat) < i.x.length := by rw [hn]; exact r.2
        by_cases hrP : (r : Nat) ∈ P
        · exact (h.path.pinned r hrP).2.choose_spec.2.2.2.1
        · have hd := (h.path.free r hr hrP).2
          show s.d.getD r 0 = 0
          rw [hd, getD_cauchyD0 _ _ r (by rw [hg]; exact hr) (by rw [hbt, hg])]
          have hnp : ¬ bpPos ((breakpoints i.x i.g i.lb i.ub).getD r none) = true := by
            intro hp
            have := cover r r.2 hrP hp
            simp at this
          cases hbr : (breakpoints i.x i.g i.lb i.ub).getD r none with
          | none => rw [hbr] at hnp; simp [bpPos] at hnp
          | some v =>
            rw [hbr] at hnp
            have hb := getD_breakpoints i.x i.g i.lb i.ub r hr hg hll hul
            rw [hbr] at hb
            obtain ⟨hlj, huj⟩ := inBoxF_getD hc.box r hr
            have hvn : 0 ≤ v := bp1_nonneg _ _ _ _ v hlj huj hb.symm
            have hv0 : v = 0 := le_antisymm (by simpa [bpPos] using hnp) hvn
            simp only [C01.d01]
            rw [if_pos ((C01.feq_zero_iff v).2 hv0)]
      refine ⟨1, one_pos, fun hne => absurd hD0 hne, ?_⟩
      intro τ h1 _
      exact seg_of_cover i n hn hc.box hg s P [] h.path cover τ (by simp) τ h1 (le_refl _)
  obtain ⟨δ, hδ, hdtm, hseg⟩ := hnb
  by_cases hD : vec n s.d = 0
  · -- every variable is pinned: no final step
    have hall : s.d.all (fun a => feq a 0) = true := (all_zero_iff n s.d hld).2 hD
    have hls : lastStep s = 0 := by unfold lastStep; rw [if_pos hall]
    have hf1 : s.f1 = 0 := by rw [h.der.f1_eq, hD]; simp
    rw [hls]
    refine finish_generic i n k Mm f2org hc s P h δ 0 hδ (le_refl _) hseg (by rw [hD]; simp)
      (by rw [hf1, hD]; simp) (Or.inl rfl)
  · have hall : ¬ s.d.all (fun a => feq a 0) = true := fun hh => hD ((all_zero_iff n s.d hld).1 hh)
    have hpos := hc.pd _ hD
    have hf2 := h.der.f2_eq hD
    have hdt := h.der.dtm_eq
    rw [hf2] at hdt
    by_cases hneg : s.dtm < 0
    · have hls : lastStep s = 0 := by unfold lastStep; rw [if_neg hall, if_pos hneg]
      have hf1 : 0 < s.f1 := by
        rw [hdt, div_neg_iff] at hneg
        rcases hneg with ⟨_, hh⟩ | ⟨hh, _⟩
        · exact absurd hh (not_lt.2 (le_of_lt hpos))
        · linarith
      rw [hls]
      refine finish_generic i n k Mm f2org hc s P h δ 0 hδ (le_refl _) hseg (le_of_lt hpos)
        (by rw [zero_mul, add_zero]; exact le_of_lt hf1) (Or.inl rfl)
    · have hls : lastStep s = s.dtm := by unfold lastStep; rw [if_neg hall, if_neg hneg]
      have hzero : s.f1 + s.dtm * (vec n s.d ⬝ᵥ (bmat i.theta (wmat n k i.W) Mm *ᵥ vec n s.d)) = 0 := by
        rw [hdt]; field_simp; ring
      rw [hls]
      refine finish_generic i n k Mm f2org hc s P h δ s.dtm (hdtm hD) (not_lt.1 hneg) hseg (le_of_lt hpos)
        (by rw [hzero]) (Or.inr ⟨hpos, by rw [hzero]⟩)

theorem lastStep_nonneg (s : CauchySt K) : 0 ≤ lastStep s := by
  unfold lastStep
  split
  · exact le_refl _
  · split
    · exact le_refl _
    · exact not_lt.1 ‹_›

/-- a non-zero projected steepest-descent direction gives a positive step -/
theorem finish_pos (i : CauchyIn K) (n k : Nat) (Mm : Matrix (Fin k) (Fin k) K) (hxn : i.x.length = n)
    (s : CauchySt K) (P : List Nat) (h : CInv i n k Mm s P [])
    (hne : vec n (cauchyD0 (breakpoints i.x i.g i.lb i.ub) i.g) ≠ 0) : 0 < s.tOld + lastStep s := by
  rcases h.pos hne with hp | ⟨hp, hD⟩
  · have := lastStep_nonneg s
    linarith
  · have hall : ¬ s.d.all (fun a => feq a 0) = true :=
      fun hh => hD ((all_zero_iff n s.d (by rw [h.path.len_d, hxn])).1 hh)
    have : lastStep s = s.dtm := by
      unfold lastStep
      rw [if_neg hall, if_neg (not_lt.2 (le_of_lt hp))]
    rw [this]
    have := h.path.tOld_nonneg
    linarith

/-- **the generalized Cauchy point is the first local minimiser of the quadratic model along the
projected path**, and the auxiliary vector is `Wᵀ(x_cp − x)` -/
theorem cauchy_first_local_min (i : CauchyIn K) (n k : Nat) (Mm : Matrix (Fin k) (Fin k) K)
    (hk : kOf i = k) (hc : MinCtx i n k Mm (f2orgOf i)) :
    ∃ tF, IsFirstLocalMin i n k Mm tF ∧ (cauchy i).1 = pathAt i tF ∧
      vec k (cauchy i).2 = (wmat n k i.W)ᵀ *ᵥ (vec n (pathAt i tF) - vec n i.x) ∧
      (vec n (cauchyD0 (breakpoints i.x i.g i.lb i.ub) i.g) ≠ 0 → 0 < tF) := by
  have hinit := init_cinv i n k Mm (f2orgOf i) hc hk
  rw [cauchy_eq]
  split
  · -- no positive breakpoint: the loop does not run; the claims for the initial state
    rename_i hemp
    have he : bpOrder (breakpoints i.x i.g i.lb i.ub) = [] := List.isEmpty_iff.1 hemp
    rw [he] at hinit
    obtain ⟨a, b, c⟩ := finish_claims i n k Mm (f2orgOf i) hc _ [] hinit
    have hall : (cauchyInit i).d.all (fun a => feq a 0) = true := by
      by_contra hne
      -- `lastStep` is then a genuine step; but with no positive breakpoint the direction is zero
      have hf' : (cauchyInit i).found = false := rfl
      obtain ⟨cover, -⟩ := hinit.live hf'
      have hn := hc.q.hx
      have hg : i.g.length = i.x.length := by rw [hc.q.hg, hn]
      obtain ⟨hll, hul⟩ := inBoxF_lengths hc.box
      have hbt : (breakpoints i.x i.g i.lb i.ub).length = i.x.length :=
        C08.breakpoints_length _ _ _ _ hg hll hul
      apply hne
      rw [all_zero_iff n _ (by rw [hinit.path.len_d, hn])]
      funext r
      have hr : (r : Nat) < i.x.length := by rw [hn]; exact r.2
      show (cauchyD0 (breakpoints i.x i.g i.lb i.ub) i.g).getD r 0 = 0
      rw [getD_cauchyD0 _ _ r (by rw [hg]; exact hr) (by rw [hbt, hg])]
      have hnp : ¬ bpPos ((breakpoints i.x i.g i.lb i.ub).getD r none) = true := by
        intro hp
        have := cover r r.2 (by simp) hp
        simp at this
      cases hbr : (breakpoints i.x i.g i.lb i.ub).getD r none with
      | none => rw [hbr] at hnp; simp [bpPos] at hnp
      | some v =>
        rw [hbr] at hnp
        have hb := getD_breakpoints i.x i.g i.lb i.ub r hr hg hll hul
        rw [hbr] at hb
        obtain ⟨hlj, huj⟩ := inBoxF_getD hc.box r hr
        have hvn : 0 ≤ v := bp1_nonneg _ _ _ _ v hlj huj hb.symm
        have hv0 : v = 0 := le_antisymm (by simpa [bpPos] using hnp) hvn
        simp only [C01.d01]
        rw [if_pos ((C01.feq_zero_iff v).2 hv0)]
    have hls : lastStep (cauchyInit i) = 0 := by unfold lastStep; rw [if_pos hall]
    rw [hls] at a b c
    have ht : (cauchyInit i).tOld + 0 = 0 := by show (0 : K) + 0 = 0; ring
    rw [ht] at a b c
    refine ⟨0, a, ?_, ?_, fun hne => absurd ((all_zero_iff n _ (by rw [hinit.path.len_d, hc.q.hx])).1 hall) hne⟩
    · -- P(x − 0·g) = x
      rw [← b, cauchyFinish_eq, hls, ht]
      have hx0 : vadd (cauchyInit i).xcp (smul 0 (cauchyInit i).d) = i.x := by
        apply ext_getD (0 : K)
        · simp only [vadd, smul, vzip_length', List.length_map, hinit.path.len_x, hinit.path.len_d, Nat.min_self]
        · intro j hj
          have hj' : j < i.x.length := by
            simpa only [vadd, smul, vzip_length', List.length_map, hinit.path.len_x, hinit.path.len_d,
              Nat.min_self] using hj
          simp only [vadd, smul]
          rw [getD_vzip _ _ _ _ j (by rw [hinit.path.len_x]; exact hj') (by simp [hinit.path.len_d, hj']),
            getD_map _ _ _ j (by rw [hinit.path.len_d]; exact hj')]
          show i.x.getD j 0 + 0 * _ = _
          ring
      rw [hx0]
      exact (clip_of_inBox (C11.inBox_of_inBoxF hc.box)).symm
    · rw [← c, cauchyFinish_eq, hls]
      congr 1
      have hcp : (cauchyInit i).c.length = (cauchyInit i).p.length :=
        List.length_map (as := (cauchyInit i).p) (fun _ => (0 : K))
      apply ext_getD (0 : K)
      · simp only [vadd, smul, vzip_length', List.length_map, hcp, Nat.min_self]
      · intro j hj
        have hj' : j < (cauchyInit i).c.length := hj
        have hj'' : j < (cauchyInit i).p.length := by rw [← hcp]; exact hj'
        simp only [vadd, smul]
        rw [getD_vzip _ _ _ _ j hj' (by simp [hj'']), getD_map _ _ _ j hj'']
        ring
  · -- the loop
    obtain ⟨P', hP'⟩ := fold_cinv i n k Mm (f2orgOf i) hc _ _ [] hinit (fun ib hib => by
        obtain ⟨h1, h2⟩ := (C08.order_positive _ ib).1 hib
        obtain ⟨hll, hul⟩ := inBoxF_lengths hc.box
        have hg : i.g.length = i.x.length := by rw [hc.q.hg, hc.q.hx]
        rw [C08.breakpoints_length _ _ _ _ hg hll hul, hc.q.hx] at h1
        exact ⟨h1, by simp, h2⟩) (C08.order_nodup _) (C08.order_sorted _)
    obtain ⟨a, b, c⟩ := finish_claims i n k Mm (f2orgOf i) hc _ P' hP'
    exact ⟨_, a, b, c, finish_pos i n k Mm hc.q.hx _ P' hP'⟩

end Lbfgsb
